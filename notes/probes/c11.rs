use idsp::*;
fn lcg(s: &mut u64) -> u64 { *s = s.wrapping_mul(6364136223846793005).wrapping_add(1442695040888963407); *s >> 11 }
fn main() {
    let mut s = 99u64; let mut bad = 0; let mut worst = (0f64, 0f64);
    for it in 0..60 {
        let ke = 20 + (lcg(&mut s) % 6) as u32; let k = ((1u64 << ke) + lcg(&mut s) % (1u64 << ke)).min(1 << 25) as f64;
        let cfg = [ (k * k / 4294967296.0) as i32, -(k * 2f64.sqrt()) as i32 ];
        let a = if it % 3 == 0 { (1u64 << 30) as f64 } else if it % 3 == 1 { (1u64 << 23) as f64 } else { ((1u64 << 23) + lcg(&mut s) % ((1u64 << 30) - (1 << 23))) as f64 };
        let theta = (lcg(&mut s) % 1000000) as f64 / 1e6 * std::f64::consts::TAU;
        let fr = 0.05 + 0.4 * (lcg(&mut s) % 100000) as f64 / 1e5;
        let df = (fr * 4294967296.0) as i64 as i32;
        let mut ph = lcg(&mut s) as i32;
        let n = (40.0 * 4294967296.0 / k) as usize;
        let mut l = Lockin::<Lowpass2>::default();
        let (mut sr, mut si) = (0f64, 0f64); let mut diff = 0;
        let mut l2 = Lockin::<Lowpass2>::default();
        for i in 0..n + 2000 {
            ph = ph.wrapping_add(df);
            let x = (a * ((ph as f64) * std::f64::consts::PI / 2147483648.0 + theta).cos()).round() as i32;
            let o = l.update(x, ph, &cfg);
            let o2 = l2.update_iq(x, Complex::from_angle(ph), &cfg);
            if o != o2 { diff += 1; }
            if i >= n { sr += o.re as f64; si += o.im as f64; }
        }
        let (mr, mi) = (sr / 2000.0, si / 2000.0);
        let mag = (mr * mr + mi * mi).sqrt(); let ang = mi.atan2(mr);
        let em = (mag / (a / 2.0) - 1.0).abs(); let mut ea = (ang + theta).rem_euclid(std::f64::consts::TAU); if ea > std::f64::consts::PI { ea -= std::f64::consts::TAU; }
        worst.0 = worst.0.max(em); worst.1 = worst.1.max(ea.abs());
        if em > 1e-3 || ea.abs() > 2e-4 || diff > 0 { bad += 1; println!("BAD k={} a={} th={} fr={} em={:e} ea={:e} diff={}", k, a, theta, fr, em, ea, diff); }
    }
    println!("bad {} worst {:?}", bad, worst);
}
