import IdspModel.Rust
/-! Model of `src/cic.rs`: `Cic<T, N>` for a signed `w`-bit `T`, `N = combs.length = integrators.length`. -/
namespace Idsp

structure Cic where
  rate : Int   -- u32
  index : Int  -- u32
  zoh : Int
  combs : List Int
  integrators : List Int
deriving Repr, DecidableEq

def Cic.new (n : Nat) (rate : Int) : Cic :=
  { rate := rate, index := 0, zoh := 0, combs := List.replicate n 0, integrators := List.replicate n 0 }

def Cic.order (s : Cic) : Nat := s.combs.length
def Cic.tick (s : Cic) : Bool := decide (s.index = 0)
def Cic.getInterpolate (s : Cic) : Int := s.integrators.getLast?.getD s.zoh
def Cic.getDecimate (s : Cic) : Int := s.zoh
def Cic.clear (s : Cic) : Cic := Cic.new s.combs.length s.rate

/-- `gain()`: `(rate as T + 1).pow(N)` with plain arithmetic. -/
def Cic.gain (m : Mode) (w : Nat) (s : Cic) : R Int := do
  let b ← arithI m w "cic.rs:91 rate.as_() + T::one()" (wrapI w s.rate + 1)
  arithI m w "cic.rs:91 pow(N)" (b ^ s.combs.length)

def Cic.gainLog2 (s : Cic) : Int := (32 - (clz 32 s.rate : Int)) * s.combs.length
def Cic.responseLength (s : Cic) : Int := s.rate * s.combs.length

/-- comb chain with wrapping subtraction (decimator) -/
def combsWrap (w : Nat) : List Int → Int → List Int × Int
  | [], x => ([], x)
  | c :: cs, x =>
    let (cs', y) := combsWrap w cs (wrapI w (x - c))
    (x :: cs', y)

/-- comb chain with plain subtraction (interpolator) -/
def combsChk (m : Mode) (w : Nat) : List Int → Int → R (List Int × Int)
  | [], x => .ok ([], x)
  | c :: cs, x => do
    let y ← arithI m w "cic.rs:131 x - *c" (x - c)
    let (cs', z) ← combsChk m w cs y
    .ok (x :: cs', z)

/-- integrator chain with wrapping addition (decimator) -/
def integWrap (w : Nat) : List Int → Int → List Int × Int
  | [], x => ([], x)
  | i :: is, x =>
    let i' := wrapI w (i + x)
    let (is', y) := integWrap w is i'
    (i' :: is', y)

/-- integrator chain with plain addition (interpolator: "Overflow is not OK") -/
def integChk (m : Mode) (w : Nat) : List Int → Int → R (List Int × Int)
  | [], x => .ok ([], x)
  | i :: is, x => do
    let i' ← arithI m w "cic.rs:141 *i += x" (i + x)
    let (is', y) ← integChk m w is i'
    .ok (i' :: is', y)

def Cic.decimate (w : Nat) (s : Cic) (x : Int) : Cic × Option Int :=
  let (ints, y) := integWrap w s.integrators x
  if s.index ≥ 1 then
    ({ s with integrators := ints, index := s.index - 1 }, none)
  else
    let (cs, z) := combsWrap w s.combs y
    ({ s with integrators := ints, index := s.rate, combs := cs, zoh := z }, some z)

def Cic.interpolate (m : Mode) (w : Nat) (s : Cic) (x : Option Int) : R (Cic × Int) := do
  let s1 ← (match x with
    | some x => do
      dbgAssert m "cic.rs:128 debug_assert_eq!(self.index, 0)" (decide (s.index = 0))
      let (cs, z) ← combsChk m w s.combs x
      pure { s with index := s.rate, combs := cs, zoh := z }
    | none => do
      let i ← arithU m 32 "cic.rs:137 self.index -= 1" (s.index - 1)
      pure { s with index := i })
  let (ints, y) ← integChk m w s1.integrators s1.zoh
  .ok ({ s1 with integrators := ints }, y)

def listSetLast (l : List Int) (v : Int) : List Int :=
  match l with
  | [] => []
  | [_] => [v]
  | a :: b :: t => a :: listSetLast (b :: t) v

def Cic.settleInterpolate (m : Mode) (w : Nat) (s : Cic) (x : Int) : R Cic := do
  let s0 := s.clear
  let s1 := match s0.combs with
    | [] => { s0 with zoh := x }
    | _ :: cs => { s0 with combs := x :: cs }
  let g ← s1.gain m w
  match s1.integrators with
  | [] => .ok s1
  | _ => do
    let v ← arithI m w "cic.rs:115 x * g" (x * g)
    .ok { s1 with integrators := listSetLast s1.integrators v }

end Idsp
