import IdspModel.Lemmas.Lp2Phase
/-!
# A lower bound of the velocity while the error stays large, and the resulting bound on how long that can last
-/
namespace Idsp
set_option linter.unusedVariables false

/-- while `e ≥ Elo`, the velocity grows by at least `c0/2` per step until it exceeds `h` (half the terminal velocity
    belonging to `Elo`) and then stays above `h` -/
theorem lp2_vel_lower {a b U : Int} (ha : 0 < a) (hb0 : 0 < b) (hb1 : b ≤ 2147483648) (hU : 0 ≤ U)
    (e s : Nat → Int) (n : Nat) (Elo c0 h S0 : Int)
    (hrel : ∀ j, j < n → Lp2Rel a b U (e j) (s j) (e (j + 1)) (s (j + 1)))
    (hlo : ∀ j, j < n → Elo ≤ e j)
    (hc0 : 0 ≤ c0) (hc : 4294967296 * c0 ≤ 2 * a * Elo - 2 * U) (hh0 : 0 ≤ h) (hh : 4 * b * h ≤ 4294967296 * c0)
    (hS0 : -S0 ≤ s 0) :
    ∀ j, j ≤ n → 2 * h ≤ 2 * s j ∨ -2 * S0 + j * c0 ≤ 2 * s j := by
  intro j
  induction j with
  | zero => intro _; right; simp; omega
  | succ j ih =>
    intro hj
    have ihj := ih (by omega)
    obtain ⟨u, hu, h1, h2⟩ := hrel j (by omega)
    obtain ⟨hu0, hu1⟩ := abs_le_of_sq_le_sq' hu hU
    have he := hlo j (by omega)
    have hae : a * Elo ≤ a * e j := mul_le_mul_of_nonneg_left he (le_of_lt ha)
    have hMb : (0 : Int) ≤ 4294967296 - 2 * b := by omega
    -- M s' ≥ M c0 + (M − 2b) s
    have hkey : 4294967296 * c0 + (4294967296 - 2 * b) * s j ≤ 4294967296 * s (j + 1) := by nlinarith
    by_cases hbig : h ≤ s j
    · left
      have h3 : (4294967296 - 2 * b) * h ≤ (4294967296 - 2 * b) * s j := mul_le_mul_of_nonneg_left hbig hMb
      have : 4294967296 * h ≤ 4294967296 * s (j + 1) := by nlinarith
      have := le_of_mul_le_mul_left this (by norm_num : (0 : Int) < 4294967296)
      omega
    · right
      have hsm : s j < h := by omega
      rcases ihj with h4 | h4
      · omega
      · rcases le_total 0 (s j) with hs | hs
        · have h3 : 2 * b * s j ≤ 2 * b * h := mul_le_mul_of_nonneg_left (le_of_lt hsm) (by omega)
          have : 4294967296 * (2 * s j + c0) ≤ 4294967296 * (2 * s (j + 1)) := by nlinarith
          have := le_of_mul_le_mul_left this (by norm_num : (0 : Int) < 4294967296)
          push_cast; nlinarith
        · have h3 : 0 ≤ -(2 * b * s j) := by nlinarith
          have : 4294967296 * (s j + c0) ≤ 4294967296 * s (j + 1) := by nlinarith
          have := le_of_mul_le_mul_left this (by norm_num : (0 : Int) < 4294967296)
          push_cast; nlinarith

/-- the error cannot stay in `[Elo, Ehi]` for `na + nc` steps -/
theorem lp2_large_error_ends {a b U : Int} (ha : 0 < a) (hb0 : 0 < b) (hb1 : b ≤ 2147483648) (hU : 0 ≤ U)
    (e s : Nat → Int) (Elo Ehi c0 h S0 : Int) (na nc : Nat)
    (hrel : ∀ j, j < na + nc → Lp2Rel a b U (e j) (s j) (e (j + 1)) (s (j + 1)))
    (hlo : ∀ j, j ≤ na + nc → Elo ≤ e j) (hhi : ∀ j, j ≤ na + nc → e j ≤ Ehi)
    (hc0 : 0 ≤ c0) (hc : 4294967296 * c0 ≤ 2 * a * Elo - 2 * U) (hh0 : 0 ≤ h) (hh : 4 * b * h ≤ 4294967296 * c0)
    (hS0 : -S0 ≤ s 0) (hna : 2 * h + 2 * S0 ≤ na * c0) (hnc : Ehi - Elo + 1 ≤ nc * (2 * h)) : False := by
  have hv := lp2_vel_lower ha hb0 hb1 hU e s (na + nc) Elo c0 h S0 hrel (fun j hj => hlo j (by omega)) hc0 hc hh0 hh hS0
  have hvel : ∀ j, na ≤ j → j ≤ na + nc → h ≤ s j := by
    intro j hj1 hj2
    rcases hv j hj2 with h1 | h1
    · omega
    · have : (na : Int) * c0 ≤ j * c0 := mul_le_mul_of_nonneg_right (by exact_mod_cast hj1) hc0
      omega
  have hdec : ∀ i : Nat, i ≤ nc → e (na + i) ≤ Ehi - i * (2 * h) := by
    intro i
    induction i with
    | zero => intro _; simpa using hhi na (by omega)
    | succ i ih =>
      intro hi
      have h1 := ih (by omega)
      have hsum := (hrel (na + i) (by omega)).sum
      have v1 := hvel (na + i) (by omega) (by omega)
      have v2 := hvel (na + i + 1) (by omega) (by omega)
      rw [show na + (i + 1) = na + i + 1 by omega, hsum]
      push_cast; nlinarith
  have h1 := hdec nc (le_refl _)
  have h2 := hlo (na + nc) (le_refl _)
  omega

end Idsp
