import IdspModel.Lemmas.HbfCascade
/-! Concrete instances used by the `example`s of `Props/C14.lean`, `Props/C15.lean`. -/
namespace Idsp

/-- integer carrier: `+`, `*`, left-fold sum from 0, `half = >> 1` (the `impl_half_i!` instances, no overflow) -/
def intOps : Ops Int := ⟨0, (· + ·), (· * ·), fun l => l.foldl (· + ·) 0, fun x => x / 2⟩

/-- the shape of the Rust cascades: stage `j` has `M = [23, 9, 5, 4][j]` taps (all equal to `j+1` here) and
    `N = 2M - 1 + 64·2^j` -/
def rustShapeDec (depth : Nat) : HbfDecCascade Int :=
  ⟨depth, [HbfDec.new intOps (2 * 23 - 1 + 64) (List.replicate 23 1),
           HbfDec.new intOps (2 * 9 - 1 + 128) (List.replicate 9 2),
           HbfDec.new intOps (2 * 5 - 1 + 256) (List.replicate 5 3),
           HbfDec.new intOps (2 * 4 - 1 + 512) (List.replicate 4 4)]⟩

def rustShapeInt (depth : Nat) : HbfIntCascade Int :=
  ⟨depth, [HbfInt.new intOps (2 * 23 - 1 + 64) (List.replicate 23 1),
           HbfInt.new intOps (2 * 9 - 1 + 128) (List.replicate 9 2),
           HbfInt.new intOps (2 * 5 - 1 + 256) (List.replicate 5 3),
           HbfInt.new intOps (2 * 4 - 1 + 512) (List.replicate 4 4)]⟩

theorem HbfDec.new_wf {α : Type} (o : Ops α) (n : Nat) (taps : List α) (h1 : 1 ≤ taps.length) (h2 : 2 * taps.length ≤ n) :
    (HbfDec.new o n taps).WF := by
  constructor <;> simp [HbfDec.new, SymFir.new] <;> omega

theorem HbfInt.new_wf {α : Type} (o : Ops α) (n : Nat) (taps : List α) (h1 : 1 ≤ taps.length) (h2 : 2 * taps.length ≤ n) :
    (HbfInt.new o n taps).WF := by
  constructor <;> simp [HbfInt.new, SymFir.new] <;> omega

theorem rustShapeDec_wf (depth : Nat) (h : depth ≤ 4) : (rustShapeDec depth).WF := by
  constructor
  · simpa [rustShapeDec] using h
  · intro s hs
    simp only [rustShapeDec, List.mem_cons, List.not_mem_nil, or_false] at hs
    rcases hs with rfl | rfl | rfl | rfl <;> apply HbfDec.new_wf <;> simp

theorem rustShapeInt_wf (depth : Nat) (h : depth ≤ 4) : (rustShapeInt depth).WF := by
  constructor
  · simpa [rustShapeInt] using h
  · intro s hs
    simp only [rustShapeInt, List.mem_cons, List.not_mem_nil, or_false] at hs
    rcases hs with rfl | rfl | rfl | rfl <;> apply HbfInt.new_wf <;> simp

theorem rustShapeDec_blockMax (depth : Nat) :
    (rustShapeDec depth).stages.map HbfDec.blockMax = [128, 256, 512, 1024] := by
  simp [rustShapeDec, HbfDec.blockMax, HbfDec.new, SymFir.new, -List.reduceReplicate]

theorem rustShapeInt_blockMax (depth : Nat) :
    (rustShapeInt depth).stages.map HbfInt.blockMax = [128, 256, 512, 1024] := by
  simp [rustShapeInt, HbfInt.blockMax, HbfInt.new, SymFir.new, -List.reduceReplicate]

end Idsp
