import Mathlib.Tactic.Ring
import Mathlib.Tactic.Linarith
import Mathlib.Tactic.Positivity
/-!
# Integer forms of the Bernoulli inequalities and the n-step decay of an affine recursion
-/
namespace Idsp
set_option linter.unusedVariables false

/-- Bernoulli, first order: `(1 − d/Q)^n ≥ 1 − n·d/Q`, integer form -/
theorem lp2_bern1 {Q d : Int} (hQ : 0 < Q) (hd0 : 0 ≤ d) (hd1 : d ≤ Q) (n : Nat) :
    Q ^ n * (Q - n * d) ≤ Q * (Q - d) ^ n := by
  induction n with
  | zero => simp
  | succ n ih =>
    have hP : 0 ≤ Q - d := by omega
    by_cases hneg : Q - n * d < 0
    · -- left side negative
      have hQn : 0 < Q ^ (n + 1) := pow_pos hQ _
      have : Q - ((n + 1 : Nat) : Int) * d < 0 := by push_cast; nlinarith
      have h2 : Q ^ (n + 1) * (Q - ((n + 1 : Nat) : Int) * d) ≤ 0 := by nlinarith
      have h3 : 0 ≤ Q * (Q - d) ^ (n + 1) := by positivity
      linarith
    · have hnn : 0 ≤ Q - n * d := by omega
      -- (Q-d)·Q^n·(Q - nd) ≥ Q^{n+1}(Q-(n+1)d): difference is Q^n·n·d² ≥ 0
      have key : Q ^ (n + 1) * (Q - ((n + 1 : Nat) : Int) * d) ≤ (Q - d) * (Q ^ n * (Q - n * d)) := by
        have e : (Q - d) * (Q ^ n * (Q - n * d)) - Q ^ (n + 1) * (Q - ((n + 1 : Nat) : Int) * d)
            = Q ^ n * (n * d * d) := by push_cast; ring
        have : 0 ≤ Q ^ n * ((n : Int) * d * d) := by positivity
        linarith
      calc Q ^ (n + 1) * (Q - ((n + 1 : Nat) : Int) * d) ≤ (Q - d) * (Q ^ n * (Q - n * d)) := key
        _ ≤ (Q - d) * (Q * (Q - d) ^ n) := mul_le_mul_of_nonneg_left ih hP
        _ = Q * (Q - d) ^ (n + 1) := by ring

/-- Bernoulli, second order: `(1 + d/Q)^n ≥ 1 + n·d/Q + n(n−1)/2·(d/Q)²`, integer form -/
theorem lp2_bern2 {Q d : Int} (hQ : 0 < Q) (hd0 : 0 ≤ d) (n : Nat) :
    Q ^ n * (2 * Q ^ 2 + 2 * n * Q * d + n * (n - 1) * d ^ 2) ≤ 2 * Q ^ 2 * (Q + d) ^ n := by
  induction n with
  | zero => simp
  | succ n ih =>
    have hstep : Q * (2 * Q ^ 2 + 2 * ((n + 1 : Nat) : Int) * Q * d + ((n + 1 : Nat) : Int) * (((n + 1 : Nat) : Int) - 1) * d ^ 2)
        ≤ (Q + d) * (2 * Q ^ 2 + 2 * n * Q * d + n * (n - 1) * d ^ 2) := by
      have e : (Q + d) * (2 * Q ^ 2 + 2 * n * Q * d + n * (n - 1) * d ^ 2)
          - Q * (2 * Q ^ 2 + 2 * ((n + 1 : Nat) : Int) * Q * d + ((n + 1 : Nat) : Int) * (((n + 1 : Nat) : Int) - 1) * d ^ 2)
          = n * (n - 1) * d ^ 3 := by push_cast; ring
      have h0 : (0 : Int) ≤ n * (n - 1) * d ^ 3 := by
        rcases Nat.eq_zero_or_pos n with rfl | hn
        · simp
        · have : (1 : Int) ≤ n := by exact_mod_cast hn
          have : (0 : Int) ≤ (n : Int) - 1 := by omega
          positivity
      linarith
    calc Q ^ (n + 1) * (2 * Q ^ 2 + 2 * ((n + 1 : Nat) : Int) * Q * d + ((n + 1 : Nat) : Int) * (((n + 1 : Nat) : Int) - 1) * d ^ 2)
        = Q ^ n * (Q * (2 * Q ^ 2 + 2 * ((n + 1 : Nat) : Int) * Q * d + ((n + 1 : Nat) : Int) * (((n + 1 : Nat) : Int) - 1) * d ^ 2)) := by ring
      _ ≤ Q ^ n * ((Q + d) * (2 * Q ^ 2 + 2 * n * Q * d + n * (n - 1) * d ^ 2)) :=
          mul_le_mul_of_nonneg_left hstep (by positivity)
      _ = (Q + d) * (Q ^ n * (2 * Q ^ 2 + 2 * n * Q * d + n * (n - 1) * d ^ 2)) := by ring
      _ ≤ (Q + d) * (2 * Q ^ 2 * (Q + d) ^ n) := mul_le_mul_of_nonneg_left ih (by omega)
      _ = 2 * Q ^ 2 * (Q + d) ^ (n + 1) := by ring

/-- n-step decay of `A·V' ≤ B·V + A·K` -/
theorem lp2_decay_n {A B K : Int} (hA : 0 < A) (hB0 : 0 ≤ B) (hBA : B ≤ A) (hK : 0 ≤ K) (V : Nat → Int)
    (n1 : Nat) (hstep : ∀ n, n < n1 → A * V (n + 1) ≤ B * V n + A * K) (n : Nat) (hn : n ≤ n1) :
    A ^ n * V n ≤ B ^ n * V 0 + n * K * A ^ n := by
  induction n with
  | zero => simp
  | succ n ih =>
    have ih := ih (by omega)
    have hstepn := hstep n (by omega)
    have hBn : B * A ^ n ≤ A * A ^ n := mul_le_mul_of_nonneg_right hBA (by positivity)
    calc A ^ (n + 1) * V (n + 1) = A ^ n * (A * V (n + 1)) := by ring
      _ ≤ A ^ n * (B * V n + A * K) := mul_le_mul_of_nonneg_left hstepn (by positivity)
      _ = B * (A ^ n * V n) + K * A ^ (n + 1) := by ring
      _ ≤ B * (B ^ n * V 0 + n * K * A ^ n) + K * A ^ (n + 1) := by
          have := mul_le_mul_of_nonneg_left ih hB0; linarith
      _ = B ^ (n + 1) * V 0 + n * K * (B * A ^ n) + K * A ^ (n + 1) := by ring
      _ ≤ B ^ (n + 1) * V 0 + n * K * (A * A ^ n) + K * A ^ (n + 1) := by
          have : (n : Int) * K * (B * A ^ n) ≤ n * K * (A * A ^ n) :=
            mul_le_mul_of_nonneg_left hBn (by positivity)
          linarith
      _ = B ^ (n + 1) * V 0 + ((n + 1 : Nat) : Int) * K * A ^ (n + 1) := by push_cast; ring

/-- a level above the equilibrium of `A·V' ≤ B·V + A·K` is invariant -/
theorem lp2_level_inv {A B K L : Int} (hA : 0 < A) (hB0 : 0 ≤ B) (hL : A * K ≤ (A - B) * L) (V : Nat → Int)
    (n1 : Nat) (hstep : ∀ n, n < n1 → A * V (n + 1) ≤ B * V n + A * K) (n0 : Nat) (h0 : V n0 ≤ L) :
    ∀ j, n0 + j ≤ n1 → V (n0 + j) ≤ L := by
  intro j
  induction j with
  | zero => intro _; exact h0
  | succ j ih =>
    intro hj
    have ih := ih (by omega)
    have h1 := hstep (n0 + j) (by omega)
    have h2 : B * V (n0 + j) ≤ B * L := mul_le_mul_of_nonneg_left ih hB0
    have : A * V (n0 + (j + 1)) ≤ A * L := by
      rw [show n0 + (j + 1) = n0 + j + 1 by omega]; nlinarith
    exact le_of_mul_le_mul_left this hA

end Idsp

namespace Idsp
set_option linter.unusedVariables false

/-- the contraction over `N = ⌊2^32/b⌋` steps: with `B1/A1 = 1 + b/(32·2^32)` (the Cauchy–Schwarz loss) and
    `B2/2^32 = det A`,
    `(B1·B2)^N / (A1·2^32)^N ≤ (32·2^32+b)/(31·2^32+b) · (2N/(5N−1))² · (Z+1)/(Z+1−N)`, `Z = 2^29`. -/
theorem lp2_pow_bound {a b : Int} {N : Nat} (hN2 : 2 ≤ N) (hNle : N ≤ 65536) (hb : 0 < b) (hb1 : b ≤ 2147483648)
    (hbN : b * N ≤ 4294967296) (hNb : 4294967296 < b * (N + 1)) (ha : 0 ≤ a)
    (haM : 2 * (a * 4294967296) ≤ (b + 1) ^ 2) :
    (31 * 4294967296 + b) * (5 * (N : Int) - 1) ^ 2 * (536870912 + 1 - N)
        * ((b + 32 * 4294967296) * (4294967296 + 2 * a - 2 * b)) ^ N
      ≤ (32 * 4294967296 + b) * (4 * (N : Int) ^ 2) * (536870912 + 1)
        * (32 * 4294967296 * 4294967296) ^ N := by
  have hNi : (2 : Int) ≤ N := by exact_mod_cast hN2
  have hNi2 : (N : Int) ≤ 65536 := by exact_mod_cast hNle
  have hB2 : (0 : Int) ≤ 4294967296 + 2 * a - 2 * b := by omega
  -- R1
  have r1 := lp2_bern1 (Q := b + 32 * 4294967296) (d := b) (by omega) (le_of_lt hb) (by omega) N
  have r1' : (31 * 4294967296 + b) * (b + 32 * 4294967296) ^ N
      ≤ (32 * 4294967296 + b) * (32 * 4294967296) ^ N := by
    have h1 : (b + 32 * 4294967296) ^ N * (31 * 4294967296 + b)
        ≤ (b + 32 * 4294967296) ^ N * (b + 32 * 4294967296 - N * b) :=
      mul_le_mul_of_nonneg_left (by nlinarith) (by positivity)
    have e : b + 32 * 4294967296 - b = 32 * 4294967296 := by ring
    rw [e] at r1
    nlinarith
  -- Bound 2: (N+1)²·Z·B2 ≤ N²·(Z+1)·M
  have hP : ((N : Int) + 1) * (4294967296 - b) ≤ N * 4294967296 := by nlinarith
  have hP2 : (((N : Int) + 1) * (4294967296 - b)) ^ 2 ≤ ((N : Int) * 4294967296) ^ 2 :=
    pow_le_pow_left₀ (by apply mul_nonneg <;> omega) hP 2
  have hMB2 : 4294967296 * (4294967296 + 2 * a - 2 * b) ≤ (4294967296 - b) ^ 2 + 2 * b + 1 := by nlinarith
  have b2 : ((N : Int) + 1) ^ 2 * 536870912 * (4294967296 + 2 * a - 2 * b)
      ≤ (N : Int) ^ 2 * (536870912 + 1) * 4294967296 := by
    have h1 : ((N : Int) + 1) ^ 2 * (4294967296 * (4294967296 + 2 * a - 2 * b))
        ≤ ((N : Int) * 4294967296) ^ 2 + (2 * b + 1) * ((N : Int) + 1) ^ 2 := by
      have := mul_le_mul_of_nonneg_left hMB2 (sq_nonneg ((N : Int) + 1))
      nlinarith
    have h2 : (2 * b + 1) * ((N : Int) + 1) ^ 2 * 536870912 ≤ ((N : Int) * 4294967296) ^ 2 := by
      have hN1 : ((N : Int) + 1) ^ 2 ≤ 3 * (N : Int) ^ 2 := by nlinarith
      have : (2 * b + 1) * (3 * (N : Int) ^ 2) * 536870912 ≤ ((N : Int) * 4294967296) ^ 2 := by
        have : (2 * b + 1) * 3 * 536870912 ≤ 4294967296 ^ 2 := by omega
        nlinarith [sq_nonneg (N : Int)]
      have h3 : (2 * b + 1) * ((N : Int) + 1) ^ 2 * 536870912 ≤ (2 * b + 1) * (3 * (N : Int) ^ 2) * 536870912 := by
        have : (0 : Int) ≤ 2 * b + 1 := by omega
        nlinarith
      linarith
    have h4 : 4294967296 * (((N : Int) + 1) ^ 2 * 536870912 * (4294967296 + 2 * a - 2 * b))
        ≤ 4294967296 * ((N : Int) ^ 2 * (536870912 + 1) * 4294967296) := by nlinarith
    exact le_of_mul_le_mul_left h4 (by norm_num)
  have b2N := pow_le_pow_left₀ (mul_nonneg (by positivity) hB2) b2 N
  -- R3, R4
  have r3 := lp2_bern1 (Q := (536870912 + 1 : Int)) (d := 1) (by norm_num) (by norm_num) (by norm_num) N
  have r4 := lp2_bern2 (Q := (N : Int)) (d := 1) (by omega) (by norm_num) N
  have e3 : ((536870912 : Int) + 1 - 1) = 536870912 := by norm_num
  rw [e3] at r3
  simp only [mul_one] at r3
  -- r4: N^N (5N² − N) ≤ 2N²(N+1)^N
  have r4' : (N : Int) ^ N * (5 * (N : Int) - 1) ≤ 2 * N * ((N : Int) + 1) ^ N := by
    have h : (N : Int) * ((N : Int) ^ N * (5 * (N : Int) - 1)) ≤ (N : Int) * (2 * N * ((N : Int) + 1) ^ N) := by
      have e : (N : Int) * ((N : Int) ^ N * (5 * (N : Int) - 1))
          = (N : Int) ^ N * (2 * (N : Int) ^ 2 + 2 * N * N * 1 + N * (N - 1) * 1 ^ 2) := by ring
      rw [e]; nlinarith
    exact le_of_mul_le_mul_left h (by omega)
  have r4sq : ((N : Int) ^ N * (5 * (N : Int) - 1)) ^ 2 ≤ (2 * N * ((N : Int) + 1) ^ N) ^ 2 :=
    pow_le_pow_left₀ (by apply mul_nonneg; positivity; omega) r4' 2
  -- assemble R2: (5N−1)²(Z+1−N)·B2^N ≤ 4N²(Z+1)·M^N
  have hZN : (0 : Int) ≤ 536870912 + 1 - N := by omega
  have R2 : (5 * (N : Int) - 1) ^ 2 * (536870912 + 1 - N) * (4294967296 + 2 * a - 2 * b) ^ N
      ≤ 4 * (N : Int) ^ 2 * (536870912 + 1) * 4294967296 ^ N := by
    have hpos : (0 : Int) < (((N : Int) + 1) ^ 2 * 536870912) ^ N := by positivity
    have lhs : (((N : Int) + 1) ^ 2 * 536870912) ^ N
        * ((5 * (N : Int) - 1) ^ 2 * (536870912 + 1 - N) * (4294967296 + 2 * a - 2 * b) ^ N)
        ≤ (((N : Int) + 1) ^ 2 * 536870912) ^ N * (4 * (N : Int) ^ 2 * (536870912 + 1) * 4294967296 ^ N) := by
      have s1 : (((N : Int) + 1) ^ 2 * 536870912) ^ N
          * ((5 * (N : Int) - 1) ^ 2 * (536870912 + 1 - N) * (4294967296 + 2 * a - 2 * b) ^ N)
          = ((5 * (N : Int) - 1) ^ 2 * (536870912 + 1 - N))
            * (((N : Int) + 1) ^ 2 * 536870912 * (4294967296 + 2 * a - 2 * b)) ^ N := by
        rw [mul_pow (((N : Int) + 1) ^ 2 * 536870912)]; ring
      have s2 : ((5 * (N : Int) - 1) ^ 2 * (536870912 + 1 - N))
            * (((N : Int) + 1) ^ 2 * 536870912 * (4294967296 + 2 * a - 2 * b)) ^ N
          ≤ ((5 * (N : Int) - 1) ^ 2 * (536870912 + 1 - N))
            * ((N : Int) ^ 2 * (536870912 + 1) * 4294967296) ^ N :=
        mul_le_mul_of_nonneg_left b2N (by positivity)
      have s3 : ((5 * (N : Int) - 1) ^ 2 * (536870912 + 1 - N))
            * ((N : Int) ^ 2 * (536870912 + 1) * 4294967296) ^ N
          = (((N : Int) ^ N * (5 * (N : Int) - 1)) ^ 2) * ((536870912 + 1) ^ N * (536870912 + 1 - N))
            * 4294967296 ^ N := by
        rw [mul_pow, mul_pow, ← pow_mul]; ring
      have s4 : (((N : Int) ^ N * (5 * (N : Int) - 1)) ^ 2) * ((536870912 + 1) ^ N * (536870912 + 1 - N))
            * 4294967296 ^ N
          ≤ ((2 * N * ((N : Int) + 1) ^ N) ^ 2) * ((536870912 + 1) * 536870912 ^ N) * 4294967296 ^ N := by
        apply mul_le_mul_of_nonneg_right _ (by positivity)
        exact mul_le_mul r4sq r3 (by positivity) (by positivity)
      have s5 : ((2 * N * ((N : Int) + 1) ^ N) ^ 2) * ((536870912 + 1) * 536870912 ^ N) * 4294967296 ^ N
          = (((N : Int) + 1) ^ 2 * 536870912) ^ N * (4 * (N : Int) ^ 2 * (536870912 + 1) * 4294967296 ^ N) := by
        rw [mul_pow (((N : Int) + 1) ^ 2) 536870912, ← pow_mul]; ring
      calc _ = _ := s1
        _ ≤ _ := s2
        _ = _ := s3
        _ ≤ _ := s4
        _ = _ := s5
    exact le_of_mul_le_mul_left lhs hpos
  -- product of R1 and R2
  rw [mul_pow, mul_pow (32 * 4294967296 : Int)]
  have hB2N : (0 : Int) ≤ (4294967296 + 2 * a - 2 * b) ^ N := pow_nonneg hB2 N
  calc (31 * 4294967296 + b) * (5 * (N : Int) - 1) ^ 2 * (536870912 + 1 - N)
        * ((b + 32 * 4294967296) ^ N * (4294967296 + 2 * a - 2 * b) ^ N)
      = ((31 * 4294967296 + b) * (b + 32 * 4294967296) ^ N)
        * ((5 * (N : Int) - 1) ^ 2 * (536870912 + 1 - N) * (4294967296 + 2 * a - 2 * b) ^ N) := by ring
    _ ≤ ((32 * 4294967296 + b) * (32 * 4294967296) ^ N)
        * (4 * (N : Int) ^ 2 * (536870912 + 1) * 4294967296 ^ N) :=
        mul_le_mul r1' R2 (by positivity) (by positivity)
    _ = _ := by ring

end Idsp
