//! Native oracle exploration: evaluates the *property itself* on the real implementation.
//! Output: JSON lines. `{"kind":"violation","class":..,"clause":..,"input":..,"expected":..,"observed":..}`
//! and one `{"kind":"summary",...}`.
use crate::gen::guard;
use crate::rng::Rng;
use idsp::*;
use std::collections::BTreeMap;

pub struct Report {
    pub prop: String,
    pub evaluations: u64,
    pub distinct: u64,
    pub clauses: BTreeMap<String, u64>,
    pub samples: Vec<String>,
    pub stats: BTreeMap<String, f64>,
    pub nviol: u64,
}

pub fn jstr(s: &str) -> String {
    let mut o = String::from("\"");
    for c in s.chars() {
        match c {
            '"' => o.push_str("\\\""),
            '\\' => o.push_str("\\\\"),
            '\n' => o.push_str("\\n"),
            c => o.push(c),
        }
    }
    o.push('"');
    o
}

impl Report {
    pub fn new(prop: &str) -> Self {
        Report {
            prop: prop.into(),
            evaluations: 0,
            distinct: 0,
            clauses: BTreeMap::new(),
            samples: vec![],
            stats: BTreeMap::new(),
            nviol: 0,
        }
    }
    /// count `n` evaluated cases for a clause
    pub fn count(&mut self, clause: &str, n: u64) {
        self.evaluations += n;
        *self.clauses.entry(clause.into()).or_insert(0) += n;
    }
    pub fn sample(&mut self, s: String) {
        if self.samples.len() < 6 {
            self.samples.push(s);
        }
    }
    pub fn stat_max(&mut self, key: &str, v: f64) {
        let e = self.stats.entry(format!("max_{}", key)).or_insert(f64::MIN);
        if v > *e {
            *e = v;
        }
    }
    pub fn violation(&mut self, class: &str, clause: &str, input: &str, expected: &str, observed: &str) {
        self.nviol += 1;
        if self.nviol <= 200 {
            println!(
                "{{\"kind\":\"violation\",\"class\":{},\"clause\":{},\"input\":{},\"expected\":{},\"observed\":{}}}",
                jstr(class),
                jstr(clause),
                jstr(input),
                jstr(expected),
                jstr(observed)
            );
        }
    }
    pub fn finish(&self) {
        let cl: Vec<String> = self.clauses.iter().map(|(k, v)| format!("{}:{}", jstr(k), v)).collect();
        let sm: Vec<String> = self.samples.iter().map(|s| jstr(s)).collect();
        let st: Vec<String> = self.stats.iter().map(|(k, v)| format!(",{}:{:e}", jstr(k), v)).collect();
        println!(
            "{{\"kind\":\"summary\",\"property\":{},\"evaluations\":{},\"distinct_nontrivial\":{},\"violations\":{},\"clauses\":{{{}}},\"samples\":[{}]{}}}",
            jstr(&self.prop),
            self.evaluations,
            self.distinct,
            self.nviol,
            cl.join(","),
            sm.join(","),
            st.join("")
        );
    }
}

/// hint lines are correspondence request lines (`<mode> <op> <args> => <res>`) on which model and code disagreed
pub fn read_hints(path: Option<&str>) -> Vec<Vec<String>> {
    let mut v = vec![];
    if let Some(p) = path {
        if let Ok(s) = std::fs::read_to_string(p) {
            for l in s.lines() {
                let lhs = l.split(" => ").next().unwrap_or("");
                let toks: Vec<String> = lhs.split_whitespace().skip(1).map(|t| t.to_string()).collect();
                if !toks.is_empty() {
                    v.push(toks);
                }
            }
        }
    }
    v
}

pub fn run(prop: &str, tier: &str, seed: u64, hints: Option<&str>) {
    let thorough = tier == "thorough";
    let hints = read_hints(hints);
    let mut rng = Rng::new(seed ^ 0x5ea7c4);
    let mut rep = Report::new(prop);
    match prop {
        "C17" => c17(&mut rng, thorough, &hints, &mut rep),
        _ => {}
    }
    rep.finish();
}

// ------------------------------------------------------------------ C17
fn osub_check<T>(y: T, x: T, bits: u32, rep: &mut Report)
where
    T: Copy + Into<i128> + std::fmt::Display + num_traits_shim::WSub,
{
    let (d, w) = T::osub(y, x);
    let (yi, xi, di): (i128, i128, i128) = (y.into(), x.into(), d.into());
    let ok = (-1..=1).contains(&w) && yi - xi == di - (w as i128) * (1i128 << bits);
    if !ok {
        rep.violation(
            "osub",
            "y - x = d - w*2^bits, w in {-1,0,1}",
            &format!("overflowing_sub::<i{}>({}, {})", bits, y, x),
            "exact identity",
            &format!("({}, {})", d, w),
        );
    }
}

pub mod num_traits_shim {
    pub trait WSub: Sized {
        fn osub(y: Self, x: Self) -> (Self, i32);
    }
    macro_rules! imp {
        ($($t:ty)+) => {$(impl WSub for $t { fn osub(y: Self, x: Self) -> (Self, i32) { idsp::overflowing_sub(y, x) } })+};
    }
    imp!(i8 i16 i32 i64);
}

fn c17(rng: &mut Rng, thorough: bool, hints: &[Vec<String>], rep: &mut Report) {
    // overflowing_sub: i8 exhaustive
    for y in i8::MIN..=i8::MAX {
        for x in i8::MIN..=i8::MAX {
            osub_check(y, x, 8, rep);
        }
    }
    rep.count("osub-i8-exhaustive", 1 << 16);
    rep.distinct += 1 << 16;
    // i16: exhaustive in thorough, stratified in quick
    if thorough {
        for y in i16::MIN..=i16::MAX {
            for x in i16::MIN..=i16::MAX {
                osub_check(y, x, 16, rep);
            }
        }
        rep.count("osub-i16-exhaustive", 1u64 << 32);
        rep.distinct += 1u64 << 32;
    } else {
        for _ in 0..(1 << 20) {
            osub_check(rng.i16(), rng.i16(), 16, rep);
        }
        rep.count("osub-i16-sampled", 1 << 20);
    }
    let n = if thorough { 1 << 24 } else { 1 << 20 };
    for _ in 0..n {
        osub_check(rng.i32(), rng.i32(), 32, rep);
        osub_check(rng.i64(), rng.i64(), 64, rep);
    }
    rep.count("osub-i32-i64-lattice-random", 2 * n);
    rep.sample(format!("overflowing_sub(i32::MIN, 1) = {:?}", overflowing_sub(i32::MIN, 1)));
    for h in hints {
        if h[0] == "osub" && h.len() == 4 {
            let (y, x): (i128, i128) = (h[2].parse().unwrap_or(0), h[3].parse().unwrap_or(0));
            match h[1].as_str() {
                "8" => osub_check(y as i8, x as i8, 8, rep),
                "16" => osub_check(y as i16, x as i16, 16, rep),
                "32" => osub_check(y as i32, x as i32, 32, rep),
                "64" => osub_check(y as i64, x as i64, 64, rep),
                _ => {}
            }
        }
    }
    // Unwrapper: sequences
    let nseq = if thorough { 20000 } else { 2000 };
    for s in 0..nseq {
        let len = 1 + rng.below(200) as usize;
        // Unwrapper<i64> with i32 samples
        let mut u = Unwrapper::<i64>::default();
        let mut sum: i128 = 0;
        let mut prev: i32 = 0;
        let mut x: i32 = 0;
        let mut hist = vec![];
        for _ in 0..len {
            x = if rng.chance(3, 4) { x.wrapping_add(rng.i32() >> rng.below(6)) } else { rng.i32() };
            hist.push(x);
            let dx: i32 = u.update(x);
            sum += dx as i128;
            let ok = dx == x.wrapping_sub(prev) && u.y() as i128 == sum && u.y() as i32 == x && u.phase::<i32>() == x;
            if !ok {
                rep.violation("unwrapper", "increment / running sum / tracks sample", &format!("Unwrapper<i64> samples {:?}", hist), "dx = x - x_prev (wrapped), y = sum dx, y as i32 = x", &format!("dx={} y={}", dx, u.y()));
                break;
            }
            prev = x;
        }
        // Unwrapper<i32> with i16 samples (the wide type wraps too: compare modulo 2^32)
        let mut u = Unwrapper::<i32>::default();
        let mut sum: i128 = 0;
        let mut prev: i16 = 0;
        let mut x: i16 = 0;
        let mut hist = vec![];
        for _ in 0..len {
            x = if rng.chance(3, 4) { x.wrapping_add(rng.i16() >> rng.below(4)) } else { rng.i16() };
            hist.push(x);
            let dx: i16 = u.update(x);
            sum += dx as i128;
            let ok = dx == x.wrapping_sub(prev) && u.y() == sum as i32 && u.y() as i16 == x;
            if !ok {
                rep.violation("unwrapper", "increment / running sum / tracks sample", &format!("Unwrapper<i32> samples {:?}", hist), "dx = x - x_prev (wrapped), y = sum dx mod 2^32, y as i16 = x", &format!("dx={} y={}", dx, u.y()));
                break;
            }
            prev = x;
        }
        rep.count("unwrapper-sequences", 2 * len as u64);
        rep.distinct += 2;
        if s == 0 {
            rep.sample(format!("Unwrapper<i32> i16 samples {:?} -> y={}", &hist[..hist.len().min(6)], u.y()));
        }
    }
    // injected-state hints
    for h in hints {
        if h[0] == "unwrap" && h.len() == 5 {
            let (y, x): (i128, i128) = (h[3].parse().unwrap_or(0), h[4].parse().unwrap_or(0));
            if h[1] == "64" {
                let mut u = Unwrapper::<i64>::verif_from_raw(y as i64);
                let dx: i32 = u.update(x as i32);
                let ok = dx == (x as i32).wrapping_sub(y as i32) && u.y() == (y as i64).wrapping_add(dx as i64) && u.y() as i32 == x as i32;
                if !ok {
                    rep.violation("unwrapper", "single step from injected state", &format!("Unwrapper<i64>{{y:{}}}.update({})", y, x), "wrapped increment, sum, tracking", &format!("dx={} y={}", dx, u.y()));
                }
            } else {
                let mut u = Unwrapper::<i32>::verif_from_raw(y as i32);
                let dx: i16 = u.update(x as i16);
                let ok = dx == (x as i16).wrapping_sub(y as i16) && u.y() == (y as i32).wrapping_add(dx as i32) && u.y() as i16 == x as i16;
                if !ok {
                    rep.violation("unwrapper", "single step from injected state", &format!("Unwrapper<i32>{{y:{}}}.update({})", y, x), "wrapped increment, sum, tracking", &format!("dx={} y={}", dx, u.y()));
                }
            }
        }
    }
    // Accu
    let nacc = if thorough { 200000 } else { 20000 };
    for _ in 0..nacc {
        let (s, st) = (rng.i32(), rng.i32());
        let n = 1 + rng.below(100) as usize;
        let got: Vec<i32> = Accu::new(s, st).take(n).collect();
        let okl = got.len() == n;
        let okv = got.iter().enumerate().all(|(i, v)| *v == (s as i128 + i as i128 * st as i128) as i32);
        if !(okl && okv) {
            rep.violation("accu", "n-th item = start + n*step mod 2^32; never ends", &format!("Accu::new({}, {}).take({})", s, st, n), "arithmetic progression", &format!("{:?}", &got[..got.len().min(8)]));
        }
        let (s, st) = (rng.i8(), rng.i8());
        let got: Vec<i8> = Accu::new(s, st).take(300).collect();
        if !(got.len() == 300 && got.iter().enumerate().all(|(i, v)| *v == (s as i128 + i as i128 * st as i128) as i8)) {
            rep.violation("accu", "n-th item = start + n*step mod 2^8; never ends", &format!("Accu::<i8>::new({}, {})", s, st), "arithmetic progression", &format!("{:?}", &got[..got.len().min(8)]));
        }
    }
    rep.count("accu", 2 * nacc);
    rep.distinct += 2 * nacc;
    let _ = guard(|| ());
}
