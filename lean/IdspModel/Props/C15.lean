import IdspModel.Lemmas.HbfConv
import IdspModel.Lemmas.HbfZero
import IdspModel.Lemmas.HbfExamples
/-!
# C15 — half-band stages compute the symmetric-FIR convolution; zero input drains the filter in
# `response_length()` outputs

Property theorems only (definitions and helper lemmas: `Lemmas/HbfConv.lean`, `Lemmas/HbfZero.lean`).
Parts proved here:
* over any commutative ring `R` (operations `ringOps hf`: ring `+`, `*`, `List.sum`, and an arbitrary function `hf`
  as `half`): from the zero state every `HbfDec` output is `hf` of the convolution of the zero-extended input with
  the `4M-1`-tap FIR `hbfFir taps = [t0, 0, t1, 0, …, t_{M-1}, 1, t_{M-1}, 0, …, t0]`, taken at every second position;
  every `HbfInt` output is that FIR applied to the zero-stuffed input.  Index alignment is explicit in the statements.
* over an arbitrary carrier with uninterpreted operations: zero input drains every stage/cascade after exactly
  `response_length()` outputs, from ANY well-formed state, for any admissible block partition.  This is stated for a
  class `Z` of "zero-like" values closed under the operations (`ZeroLike`), so that it covers IEEE floats, where
  `0.0 * negative_tap = -0.0` is not bit-identical to `0.0` (take `Z x := x == 0.0`), and specialised to exact
  equality with `zero` under the four laws `ZeroLaws`.
Not covered here: frequency response (pass-band ripple / stop-band attenuation) of the tabulated taps.
-/
namespace Idsp
open Finset
variable {R : Type} [CommRing R] {α : Type}

/-! ## the filter as a convolution (commutative ring) -/

/-- `SymFir::get` on one window `win` of `2M` items computes `Σ_l (win[l] + win[2M-1-l])·taps[l]`. -/
theorem symfir_window_sum (hf : R → R) (taps win : List R) (hw : win.length = 2 * taps.length) :
    firTap (ringOps hf) taps win =
      ∑ l ∈ range taps.length, (win.getD l 0 + win.getD (2 * taps.length - 1 - l) 0) * taps.getD l 0 :=
  firTap_ring hf taps win hw

/-- shape of the full FIR: odd taps are the coefficients (mirrored), centre tap 1, other even taps 0 -/
example (a b c : R) : hbfFir [a, b, c] = [a, 0, b, 0, c, 1, c, 0, b, 0, a] := by
  simp [hbfFir, hbfCoeff, List.range, List.range.loop]

/-- the full FIR has `4M-1` taps `hbfCoeff taps j` and is symmetric about the centre tap `j = 2M-1`, which is 1 -/
theorem hbf_fir_shape (taps : List R) (hm : 1 ≤ taps.length) :
    (hbfFir taps).length = 4 * taps.length - 1 ∧
    (∀ j (h : j < (hbfFir taps).length), (hbfFir taps)[j] = hbfCoeff taps j) ∧
    (∀ j, j < 4 * taps.length - 1 → hbfCoeff taps (4 * taps.length - 2 - j) = hbfCoeff taps j) ∧
    hbfCoeff taps (2 * taps.length - 1) = 1 ∧
    (∀ l, l < taps.length → hbfCoeff taps (2 * l) = taps.getD l 0) ∧
    (∀ j, j < 4 * taps.length - 1 → j % 2 = 1 → j ≠ 2 * taps.length - 1 → hbfCoeff taps j = 0) := by
  refine ⟨hbfFir_length taps, hbfFir_getElem taps, hbfCoeff_symm taps, by simp [hbfCoeff], ?_, ?_⟩
  · intro l hl
    simp only [hbfCoeff]
    rw [if_neg (by omega), if_neg (by omega), if_pos (by omega)]
    congr 1; omega
  · intro j _ hj hc
    simp only [hbfCoeff]
    rw [if_neg hc, if_pos hj]

/-- **`HbfDec` is the decimated convolution.**  Start from `HbfDec::new` (zero state, any `N ≥ 2M`), feed any list
    of admissible blocks; with `X` the concatenated input, returned item `i` (`i < len(X)/2`) is
    `half( Σ_{j<4M-1} h[j]·X(2i+1-j) )`, `X(n) = 0` for `n < 0`: the full FIR applied at input position `2i+1`
    (the newest sample consumed), i.e. at every second position, then halved.  The centre tap sits over input
    sample `2i+2-2M`. -/
theorem hbfdec_is_decimated_convolution (hf : R → R) (n : Nat) (taps : List R) (hm : 1 ≤ taps.length)
    (hn : 2 * taps.length ≤ n) (bs : List (List R))
    (adm : ∀ b ∈ bs, (HbfDec.new (ringOps hf) n taps).Adm b) (i : Nat) (hi : i < bs.flatten.length / 2) :
    ((HbfDec.new (ringOps hf) n taps).run (ringOps hf) bs).2.flatten[i]? =
      some (hf (firAt taps (zext bs.flatten) (2 * i + 1))) := by
  have wf := HbfDec.new_wf (ringOps hf) n taps hm hn
  rw [(HbfDec.run_spec (ringOps hf) _ wf bs adm).1, HbfDec.new_abs _ _ _ hn]
  have ht : (HbfDec.new (ringOps hf) n taps).odd.taps = taps := rfl
  rw [ht]
  have hz : (ringOps hf).zero = (0 : R) := rfl
  rw [hz, List.getElem?_eq_getElem (by rw [decSpec_length _ _ _ _ _ hm (by simp) (by simp)]; exact hi),
    decSpec_conv hf taps bs.flatten hm i hi]

/-- **`HbfInt` is the convolution of the zero-stuffed input.**  Start from `HbfInt::new`, feed any list of
    admissible blocks; with `X` the concatenated input and `V` its zero-stuffed version (`V(2k) = X[k]`, `V(odd) = 0`,
    `V(n) = 0` for `n < 0`), returned item `m` (`m < 2·len(X)`) is `Σ_{j<4M-1} h[j]·V(m-j)`.  In particular item
    `2i+1` is `X[i+1-M]` (centre tap). -/
theorem hbfint_is_convolution_of_zero_stuffed (hf : R → R) (n : Nat) (taps : List R) (hm : 1 ≤ taps.length)
    (hn : 2 * taps.length ≤ n) (bs : List (List R))
    (adm : ∀ b ∈ bs, (HbfInt.new (ringOps hf) n taps).Adm b) (m : Nat) (hmx : m < 2 * bs.flatten.length) :
    ((HbfInt.new (ringOps hf) n taps).run (ringOps hf) bs).2.flatten[m]? =
      some (firAt taps (zstuff bs.flatten) m) := by
  have wf := HbfInt.new_wf (ringOps hf) n taps hm hn
  rw [(HbfInt.run_spec (ringOps hf) _ wf bs adm).1, HbfInt.new_abs _ _ _ hn]
  have ht : (HbfInt.new (ringOps hf) n taps).fir.taps = taps := rfl
  rw [ht]
  have hz : (ringOps hf).zero = (0 : R) := rfl
  rw [hz, List.getElem?_eq_getElem (by rw [intSpec_length _ _ _ _ hm (by simp)]; exact hmx),
    intSpec_conv hf taps bs.flatten hm m hmx]

/-- the three-part form of the FIR sum used above, for any two-sided sequence `w`:
    `Σ_j h[j]·w(n-j) = Σ_l t_l·w(n-2l) + w(n-(2M-1)) + Σ_l t_l·w(n-(4M-2-2l))` -/
theorem hbf_fir_sum_three_parts (taps : List R) (hm : 1 ≤ taps.length) (w : Int → R) (n : Int) :
    firAt taps w n =
      ∑ l ∈ range taps.length, taps.getD l 0 * w (n - 2 * l) + w (n - (2 * taps.length - 1)) +
      ∑ l ∈ range taps.length, taps.getD l 0 * w (n - (4 * taps.length - 2 - 2 * l)) :=
  firAt_eq taps hm w n

/-! ## zero input drains the filter after `response_length()` outputs (arbitrary carrier) -/

/-- `HbfDec`, zero-like class `Z`: from ANY well-formed state, if all input items are in `Z`, every returned item
    after the first `response_length() = 2M-1` ones is in `Z`, for any admissible block partition. -/
theorem hbfdec_zero_after_response_length_class (o : Ops α) (Z : α → Prop) (d : HbfDec α) (wf : d.WF)
    (zl : ZeroLike o Z d.odd.taps) (bs : List (List α)) (adm : ∀ b ∈ bs, d.Adm b)
    (hz : ∀ b ∈ bs, ∀ a ∈ b, Z a) :
    ∀ y ∈ (d.run o bs).2.flatten.drop (2 * d.odd.taps.length - 1), Z y :=
  HbfDec.run_zero_tail o Z d wf zl bs adm hz

/-- `HbfDec`, exact zero (`ZeroLaws`: `0+0=0`, `0·t=0`, `sum [0,…,0] = 0`, `half 0 = 0`): from ANY well-formed state,
    after `2M-1` outputs of zero input every output is exactly `zero`. -/
theorem hbfdec_zero_after_response_length (o : Ops α) (zl : ZeroLaws o) (d : HbfDec α) (wf : d.WF)
    (bs : List (List α)) (adm : ∀ b ∈ bs, d.Adm b) (hz : ∀ b ∈ bs, ∀ a ∈ b, a = o.zero) :
    (d.run o bs).2.flatten.drop (2 * d.odd.taps.length - 1) =
      List.replicate (bs.flatten.length / 2 - (2 * d.odd.taps.length - 1)) o.zero := by
  have h := HbfDec.run_zero_tail o _ d wf (zl.zeroLike _) bs adm hz
  have hl : (d.run o bs).2.flatten.length = bs.flatten.length / 2 := by
    rw [(HbfDec.run_spec o d wf bs adm).1]
    exact decSpec_length o _ _ _ _ wf.taps_pos (d.abs_length wf).1 (d.abs_length wf).2
  rw [← hl]
  exact List.eq_replicate_iff.mpr ⟨by simp, h⟩

/-- `HbfInt`, zero-like class: every returned item after the first `response_length() = 4M-2` ones is in `Z`. -/
theorem hbfint_zero_after_response_length_class (o : Ops α) (Z : α → Prop) (d : HbfInt α) (wf : d.WF)
    (zl : ZeroLike o Z d.fir.taps) (bs : List (List α)) (adm : ∀ b ∈ bs, d.Adm b)
    (hz : ∀ b ∈ bs, ∀ a ∈ b, Z a) :
    ∀ y ∈ (d.run o bs).2.flatten.drop (4 * d.fir.taps.length - 2), Z y :=
  HbfInt.run_zero_tail o Z d wf zl bs adm hz

/-- `HbfInt`, exact zero: from ANY well-formed state, after `4M-2` outputs of zero input every output is `zero`. -/
theorem hbfint_zero_after_response_length (o : Ops α) (zl : ZeroLaws o) (d : HbfInt α) (wf : d.WF)
    (bs : List (List α)) (adm : ∀ b ∈ bs, d.Adm b) (hz : ∀ b ∈ bs, ∀ a ∈ b, a = o.zero) :
    (d.run o bs).2.flatten.drop (4 * d.fir.taps.length - 2) =
      List.replicate (2 * bs.flatten.length - (4 * d.fir.taps.length - 2)) o.zero := by
  have h := HbfInt.run_zero_tail o _ d wf (zl.zeroLike _) bs adm hz
  have hl : (d.run o bs).2.flatten.length = 2 * bs.flatten.length := by
    rw [(HbfInt.run_spec o d wf bs adm).1]
    exact intSpec_length o _ _ _ wf.taps_pos (d.abs_length wf)
  rw [← hl]
  exact List.eq_replicate_iff.mpr ⟨by simp, h⟩

/-- `HbfDecCascade`: from ANY well-formed state and any admissible block partition of an all-`Z` input, every
    returned item after the first `response_length()` ones is in `Z`; `hbfDecResponseLength` is the model's
    transcription of `HbfDecCascade::response_length` (`n = n/2 + (2M_j-1)` from stage `depth-1` down to 0). -/
theorem hbfdec_cascade_zero_after_response_length (o : Ops α) (Z : α → Prop) (c : HbfDecCascade α) (wf : c.WF)
    (zl : ∀ s ∈ c.active, ZeroLike o Z s.odd.taps) (bs : List (List α)) (adm : ∀ b ∈ bs, c.Adm b)
    (hz : ∀ b ∈ bs, ∀ a ∈ b, Z a) :
    ∀ y ∈ (c.run o bs).2.flatten.drop
      (hbfDecResponseLength (c.stages.map fun s => s.odd.taps.length) c.depth), Z y :=
  HbfDecCascade.run_zero_tail o Z c wf zl bs adm hz

/-- `HbfIntCascade`: likewise with `HbfIntCascade::response_length` (`n = 2n + (4M_j-2)` for stages `0 … depth-1`). -/
theorem hbfint_cascade_zero_after_response_length (o : Ops α) (Z : α → Prop) (c : HbfIntCascade α) (wf : c.WF)
    (zl : ∀ s ∈ c.active, ZeroLike o Z s.fir.taps) (bs : List (List α)) (adm : ∀ b ∈ bs, c.Adm b)
    (hz : ∀ b ∈ bs, ∀ a ∈ b, Z a) :
    ∀ y ∈ (c.run o bs).2.flatten.drop
      (hbfIntResponseLength (c.stages.map fun s => s.fir.taps.length) c.depth), Z y :=
  HbfIntCascade.run_zero_tail o Z c wf zl bs adm hz

/-! ## non-vacuity -/

/-- the integer operations satisfy the zero laws -/
example : ZeroLaws intOps := by
  refine ⟨by decide, ?_, ?_, by decide⟩
  · intro t; show (0 : Int) * t = 0; simp
  · intro n; show (List.replicate n (0 : Int)).foldl (· + ·) 0 = 0
    induction n with
    | zero => rfl
    | succ n ih => simpa [List.replicate_succ] using ih

/-- concrete instances (tests): an impulse of height 2 through `HbfDec` with taps `[3, -5]` over `Int`
    (`half = >> 1`) at an even / odd input position picks the odd / even taps of `[3, 0, -5, 1, -5, 0, 3]`, and the
    filter is drained after `2M-1 = 3` further outputs; the impulse response of `HbfInt` is the FIR itself, drained
    after `4M-2 = 6` outputs -/
example : hbfFir ([3, -5] : List Int) = [3, 0, -5, 1, -5, 0, 3] := by decide
example :
    ((HbfDec.new intOps 9 [3, -5]).run intOps [[2, 0, 0, 0], [0, 0, 0, 0, 0, 0]]).2.flatten = [0, 1, 0, 0, 0] := by
  decide
example :
    ((HbfDec.new intOps 9 [3, -5]).run intOps [[0, 2, 0, 0], [0, 0, 0, 0, 0, 0]]).2.flatten = [3, -5, -5, 3, 0] := by
  decide
example :
    ((HbfInt.new intOps 9 [3, -5]).run intOps [[1, 0], [0, 0, 0]]).2.flatten = [3, 0, -5, 1, -5, 0, 3, 0, 0, 0] := by
  decide
/-- the response-length recursions on the tap counts of the Rust cascades `M = 23, 9, 5, 4` -/
example : hbfDecResponseLength [23, 9, 5, 4] 4 = 56 := by decide
example : hbfIntResponseLength [23, 9, 5, 4] 4 = 906 := by decide

end Idsp
