-- Scratch generator of the literals in IdspModel/Lemmas/HbfSpecTimeLit.lean (run with `lake env lean tools/gen_hbf_time_lit.lean`;
-- the printed lists were chunked into pieces of 128 entries by hand).  Not trusted: the literals are re-proved equal to
-- `hbfCascadeFir d` by `decide +kernel` in HbfSpecTimeLit.lean / HbfSpecTimeLit4.lean.
import IdspModel.Lemmas.HbfSpecDefs
open Idsp
def es : List Nat := [0, 44, 81, 115, 147]
def genOne (d : Nat) : String :=
  let e := es.getD d 0
  let l := hbfCascadeFir d
  let ok := l.all (fun q => (q * 2 ^ e).den == 1)
  let ns := l.map (fun q => (q * 2 ^ e).num)
  s!"-- ok={ok} len={l.length}\ndef hbfCascadeFirN{d} : List ℤ :=\n  {ns}\n"
#eval IO.println (genOne 1)
#eval IO.println (genOne 2)
#eval IO.println (genOne 3)
#eval IO.println (genOne 4)
