import IdspModel.Lemmas.RpllLockFreq
import IdspModel.Lemmas.RpllLockSched
/-! The model run on a noise-free schedule from `RPLL.new`: never panics, `ff` follows the autonomous recursion. -/
namespace Idsp

/-- the part of the admissible region in which the run is analysed: `2^d < P < 2^sf`, `d < sf ≤ 31`,
    `d ≤ sp < d + 32` -/
structure RpllCfg.Adm (c : RpllCfg) : Prop where
  hDP : 2 ^ c.d < c.P
  hPS : c.P < 2 ^ c.sf.toNat
  hdsf : (c.d : Int) < c.sf
  hsf : c.sf ≤ 31
  hsp0 : (c.d : Int) ≤ c.sp
  hsp1 : c.sp - c.d < 32

def RpllCfg.S (c : RpllCfg) : Int := 2 ^ c.sf.toNat
def RpllCfg.h (c : RpllCfg) : Int := 2 ^ (c.sf - 1).toNat
def RpllCfg.R (c : RpllCfg) : Int := 2 ^ (32 + c.d - c.sf).toNat
/-- the target product `2^(32+d)`: `ff·P = T` is a perfect frequency estimate -/
def RpllCfg.T (c : RpllCfg) : Int := 2 ^ (32 + c.d)

/-- `ff` after `m` edges -/
def RpllCfg.ffAt (c : RpllCfg) (m : Nat) : Int := ffIter c.P c.S c.h c.R m

theorem RpllCfg.Adm.S_eq {c : RpllCfg} (a : c.Adm) : c.S = 2 * c.h := by
  unfold RpllCfg.S RpllCfg.h
  have := a.hdsf
  have e : c.sf.toNat = (c.sf - 1).toNat + 1 := by omega
  rw [e, pow_succ]; ring

theorem RpllCfg.Adm.T_eq {c : RpllCfg} (a : c.Adm) : c.R * c.S = c.T := by
  unfold RpllCfg.S RpllCfg.R RpllCfg.T
  have := a.hdsf; have := a.hsf
  rw [← pow_add]; congr 1; omega

theorem RpllCfg.Adm.facts {c : RpllCfg} (a : c.Adm) :
    0 < c.P ∧ c.P < c.S ∧ 0 < c.h ∧ c.h ≤ 2 ^ 30 ∧ 0 < c.R ∧ c.R ≤ 2 ^ 31 ∧ c.h ≤ c.R * c.S ∧ c.d ≤ 30 ∧
    c.T + 2 ^ 32 ≤ 2 ^ 32 * c.P ∧ c.T ≤ 2 ^ 62 ∧ c.P < 2 ^ 31 := by
  have h1 := a.hdsf; have h2 := a.hsf
  have hP0 : 0 < c.P := lt_trans (by positivity) a.hDP
  have hh0 : 0 < c.h := by unfold RpllCfg.h; positivity
  have hh1 : c.h ≤ 2 ^ 30 := by unfold RpllCfg.h; exact two_pow_mono (by omega)
  have hR0 : 0 < c.R := by unfold RpllCfg.R; positivity
  have hR1 : c.R ≤ 2 ^ 31 := by unfold RpllCfg.R; exact two_pow_mono (by omega)
  have hS31 : c.S ≤ 2 ^ 31 := by unfold RpllCfg.S; exact two_pow_mono (by omega)
  have hS : c.S = 2 * c.h := a.S_eq
  have hT : c.T = 2 ^ 32 * 2 ^ c.d := by unfold RpllCfg.T; rw [pow_add]
  have hd : (2 : Int) ^ c.d ≤ 2 ^ 30 := two_pow_mono (by omega)
  refine ⟨hP0, a.hPS, hh0, hh1, hR0, hR1, ?_, by omega, ?_, ?_, ?_⟩
  · nlinarith
  · have := a.hDP; rw [hT]; nlinarith
  · rw [hT]; norm_num at hd ⊢; nlinarith
  · have := a.hPS; unfold RpllCfg.S at hS31; omega

/-- invariant of the state before update `n` -/
def RpllCfg.Inv (c : RpllCfg) (n : Nat) (s : RPLL) : Prop :=
  s.dt2 = c.d ∧ s.ff = c.ffAt (c.cnt n) ∧ (0 < c.cnt n → s.x = wrapI 32 (c.lastEdge ((n : Int) - 1)))

theorem rpll_inv_new (c : RpllCfg) : c.Inv 0 (RPLL.new c.d) :=
  ⟨rfl, rfl, fun h => absurd h (by simp [RpllCfg.cnt])⟩

/-- `0 ≤ ff < 2^32` and `ff·P ≤ T + h` on the autonomous orbit -/
theorem RpllCfg.Adm.ffAt_bounds {c : RpllCfg} (a : c.Adm) (m : Nat) :
    0 ≤ c.ffAt m ∧ c.ffAt m < 2 ^ 32 ∧ c.ffAt m * c.P ≤ c.T + c.h := by
  obtain ⟨hP0, hPS, hh0, -, -, -, hR, -, hTP, -, -⟩ := a.facts
  have := ffIter_inv hP0 hPS a.S_eq hR m
  rw [a.T_eq] at this
  unfold RpllCfg.ffAt
  generalize ffIter c.P c.S c.h c.R m = ff at *
  have h0 : 0 ≤ ff := by
    by_contra hc
    have : ff * c.P < 0 := mul_neg_of_neg_of_pos (by omega) hP0
    omega
  refine ⟨h0, ?_, by omega⟩
  by_contra hc
  have : 2 ^ 32 * c.P ≤ ff * c.P := mul_le_mul_of_nonneg_right (by omega) (by omega)
  have : c.h ≤ 2 ^ 30 := a.facts.2.2.2.1
  omega

/-- the `u32` frequency-loop update does not wrap on the autonomous orbit -/
theorem RpllCfg.Adm.ff_update {c : RpllCfg} (a : c.Adm) (m : Nat) :
    wrapU 32 (c.ffAt m + wrapU 32 (c.R - wrapU 32 ((c.ffAt m * c.P + c.h) / c.S))) = c.ffAt (m + 1) := by
  obtain ⟨hP0, hPS, hh0, hh1, hR0, hR1, hR, -, hTP, -, -⟩ := a.facts
  obtain ⟨b0, b1, b2⟩ := a.ffAt_bounds m
  obtain ⟨n0, n1, -⟩ := a.ffAt_bounds (m + 1)
  have hS0 : 0 < c.S := by have := a.S_eq; omega
  have hq0 : 0 ≤ (c.ffAt m * c.P + c.h) / c.S :=
    Int.ediv_nonneg (by have := mul_nonneg b0 hP0.le; omega) hS0.le
  have hq1 : (c.ffAt m * c.P + c.h) / c.S ≤ c.R + 1 := by
    have : (c.ffAt m * c.P + c.h) / c.S < c.R + 2 := by
      rw [Int.ediv_lt_iff_lt_mul hS0]
      have := a.T_eq; have := a.S_eq; nlinarith
    omega
  have e : c.ffAt (m + 1) = c.ffAt m + c.R - (c.ffAt m * c.P + c.h) / c.S := rfl
  rw [e] at n0 n1 ⊢
  generalize (c.ffAt m * c.P + c.h) / c.S = q at *
  norm_num at hR1 b1 n1
  unfold wrapU
  norm_num
  omega

/-- `dt = (−x) & (2^d − 1)` is the time since the edge -/
theorem rpll_dt_eq (c : RpllCfg) (hd : c.d ≤ 32) (n : Nat) (h0 : 0 ≤ c.num n % c.P) (h1 : c.num n % c.P < 2 ^ c.d) :
    (-wrapI 32 (c.lastEdge n)) % 2 ^ c.d = c.num n % c.P := by
  obtain ⟨k, hk⟩ := wrapI_eq_sub 32 (c.lastEdge n)
  obtain ⟨v, hv⟩ := two_pow_dvd hd
  rw [hk, hv]
  unfold RpllCfg.lastEdge
  rw [show -(2 ^ c.d * (n : Int) - c.num n % c.P - k * (2 ^ c.d * v)) = c.num n % c.P + 2 ^ c.d * (k * v - n) by ring,
    Int.add_mul_emod_self_left, Int.emod_eq_of_lt h0 h1]

theorem rpll_dx_eq (le P : Int) (h0 : 0 < P) (h1 : P < 2 ^ 31) :
    wrapI 32 (wrapI 32 (le + P) - wrapI 32 le) = P := by
  rw [wrapI_sub_wrapI_left, wrapI_sub_wrapI_right, show le + P - le = P by ring]
  exact wrapI32_id (by omega) (by omega)

/-- an update without edge under the invariant -/
theorem rpll_step_none (c : RpllCfg) (a : c.Adm) (m : Mode) (n : Nat) (s : RPLL) (hinv : c.Inv n s)
    (hr : ¬ c.num n % c.P < 2 ^ c.d) :
    RPLL.update m s (c.sched n) c.sf c.sp = .ok (s.nextNone, s.nextNone.y, s.nextNone.f) ∧
      c.Inv (n + 1) s.nextNone ∧ c.cnt (n + 1) = c.cnt n := by
  obtain ⟨hd, hff, hx⟩ := hinv
  have hs : c.sched n = none := by rw [rpllSched_eq]; simp [hr]
  have hc : c.cnt (n + 1) = c.cnt n := by simp [RpllCfg.cnt, hs]
  refine ⟨?_, ⟨hd, by rw [hc]; exact hff, ?_⟩, hc⟩
  · rw [hs]
    exact rpll_update_none_eq m s c.sf c.sp (by rw [hd]; exact a.hdsf.le) (by rw [hd]; exact a.hsp0)
  · intro h
    rw [hc] at h
    have e : c.num (n : Int) = c.num (((n : Int) - 1) + 1) := by congr 1; ring
    have := (rpll_edge_none c a.hDP ((n : Int) - 1) (by rw [← e]; exact hr)).1
    rw [show ((n + 1 : Nat) : Int) - 1 = ((n : Int) - 1) + 1 by push_cast; ring, this]
    exact hx h

/-- an update with an edge under the invariant: `dx = P` (or `ff = 0` at the first edge), so the frequency loop
    makes one step of the autonomous recursion; explicit formulas for the new `y` and `f` -/
theorem rpll_step_some (c : RpllCfg) (a : c.Adm) (m : Mode) (n : Nat) (s : RPLL) (hinv : c.Inv n s)
    (hr : c.num n % c.P < 2 ^ c.d) :
    ∃ s', RPLL.update m s (c.sched n) c.sf c.sp = .ok (s', s'.y, s'.f) ∧
      c.Inv (n + 1) s' ∧ c.cnt (n + 1) = c.cnt n + 1 ∧
      s'.y = wrapI 32 (s.y + wrapI 32 s.f) ∧ s'.ff = c.ffAt (c.cnt n + 1) ∧
      s'.f = wrapU 32 (s'.ff + wrapU 32 (wrapI 32 (wrapI 32 (s.f / 2 ^ c.d * (c.num n % c.P)) - s'.y)
                / 2 ^ (c.sp - c.d).toNat)) := by
  obtain ⟨hd, hff, hx⟩ := hinv
  obtain ⟨hP0, hPS, hh0, hh1, hR0, hR1, hR, hd30, hTP, hT62, hP31⟩ := a.facts
  obtain ⟨b0, b1, b2⟩ := a.ffAt_bounds (c.cnt n)
  have hs : c.sched n = some (wrapI 32 (c.lastEdge n)) := by rw [rpllSched_eq]; simp [hr]
  have hc : c.cnt (n + 1) = c.cnt n + 1 := by simp [RpllCfg.cnt, hs]
  have hr0 : 0 ≤ c.num n % c.P := Int.emod_nonneg _ (by omega)
  -- the 64-bit product is ff·P
  have hprod : s.ff * wrapU 64 (wrapI 32 (wrapI 32 (c.lastEdge n) - s.x)) = s.ff * c.P := by
    by_cases h0 : c.cnt n = 0
    · rw [hff, h0]; simp [RpllCfg.ffAt, ffIter]
    · have e : c.num (n : Int) = c.num (((n : Int) - 1) + 1) := by congr 1; ring
      have := (rpll_edge_some c a.hDP ((n : Int) - 1) (by rw [← e]; exact hr)).1
      rw [show ((n : Int) - 1) + 1 = (n : Int) by ring] at this
      rw [hx (by omega), this, rpll_dx_eq _ _ hP0 hP31, wrapU_of_in hP0.le (by norm_num; omega)]
  have hsfh : (2 : Int) ^ (c.sf - 1).toNat = c.h := rfl
  have hev := rpll_update_some_eqP m s (wrapI 32 (c.lastEdge n)) c.sf c.sp (by rw [hd]; omega) (by rw [hd]; omega)
    (by rw [hd]; exact a.hdsf) (by have := a.hsf; omega) (by rw [hd]; exact a.hsp0) (by rw [hd]; exact a.hsp1)
    (by rw [hprod, hff]; exact mul_nonneg b0 hP0.le)
    (by rw [hprod, hff, hsfh]; norm_num at hT62 hh1 ⊢; omega)
  rw [hprod] at hev
  refine ⟨_, by rw [hs]; exact hev, ?_, hc, rfl, ?_, ?_⟩
  · refine ⟨hd, ?_, fun _ => ?_⟩
    · rw [hc]
      show wrapU 32 (s.ff + wrapU 32 (2 ^ (32 + s.dt2 - c.sf).toNat
        - wrapU 32 ((s.ff * c.P + 2 ^ (c.sf - 1).toNat) / 2 ^ c.sf.toNat))) = _
      rw [hd, hff]
      exact a.ff_update (c.cnt n)
    · rw [show ((n + 1 : Nat) : Int) - 1 = (n : Int) by push_cast; ring]; rfl
  · show wrapU 32 (s.ff + wrapU 32 (2 ^ (32 + s.dt2 - c.sf).toNat
        - wrapU 32 ((s.ff * c.P + 2 ^ (c.sf - 1).toNat) / 2 ^ c.sf.toNat))) = _
    rw [hd, hff]
    exact a.ff_update (c.cnt n)
  · simp only [RPLL.nextP]
    rw [hd, Int.toNat_natCast, rpll_dt_eq c (by omega) n hr0 hr]

end Idsp
