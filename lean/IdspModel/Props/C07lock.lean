import IdspModel.Lemmas.RpllLockFF
import IdspModel.Lemmas.RpllLockFinal
/-!
# C07 (positive part) — the RPLL locks within explicit envelopes on a sub-region of the admissible region

The lock clause of C07 is false as stated (`Props/C07.lean`: `rpll_lock_full_false`).  Here: what IS true and proved
for the model, for every edge offset and both build profiles, with noise-free timestamps (`RpllCfg`, `c.sched`,
`c.run`, `c.err` as in `Props/C07.lean` / `Lemmas/RpllSched.lean`).

Notation (`Lemmas/RpllLockRun.lean`, `RpllLockPhaseRun.lean`, `RpllLockFinal.lean`): `D = 2^d`, `S = 2^sf`,
`h = 2^(sf−1)`, `T = 2^(32+d)`, `Σ = 2^(sp−d)`, `Λ = 2^sp = D·Σ`;
`c.Adm`  : `2^d < P < 2^sf`, `d < sf ≤ 31`, `d ≤ sp < d+32`;
`c.Good` : `c.Adm` and `3·2^d < P ≤ 2^sp`;
`Ub = h + T/2^20`, `Qm = min(P − 3D, Λ/2)`, `C0 = 2·Ub + P + D + D²`, `Lim = Σ²·C0/Qm + 1`,
`Nb k = Lim + (Σ+2)·2^31/2^k`, `envF k = Σ²·Ub + P·(Nb k + Σ²)`,
`envP k = 2DPΣ·Nb k + DΣ·(2Σ·Ub + P·(Nb k + 2Σ)) + 2Σ²PD² + 2P·(Σ²·Ub + P·(Nb k + Σ²)) + 2Σ²DP`.
In words: relative frequency error `≤ envF/(Σ²T) ≈ (1 + 2P/Qm)·2^(sf−d−33)`, phase error
`≤ envP/(2Σ²DP) LSB ≈ (1 + P/2^sp + …)·(P/Qm)·2^(sf+sp−d−32)/P` LSB, i.e. a few times the observed dead-band offset
`2^(sf+sp−d−33)/P` turns (the envelopes are NOT tight: factor 4…17 on the examples tried).
-/
namespace Idsp

/-- **frequency loop** (every configuration with `2^d < P < 2^sf`, `d < sf ≤ 31`, `d ≤ sp < d+32`; every offset;
    both profiles): the run from `RPLL::new(d)` never panics; `ff` follows the autonomous recursion
    `ff' = ff + 2^(32+d−sf) − ⌊(ff·P + 2^(sf−1))/2^sf⌋` without any `u32`/`u64` wrap (`c.Inv`: `ff = c.ffAt (edges seen)`);
    and after every `n ≥ 2^(sf−d+5)` updates `|ff·P − 2^(32+d)| ≤ 2^(sf−1) + 2^(32+d)/2^20`: the relative error of
    the frequency-loop word is at most `2^(sf−d−33) + 2^-20`. -/
theorem rpll_ff_converges (c : RpllCfg) (a : c.Adm) (m : Mode) (n : Nat)
    (hn : 2 ^ (c.sf - c.d + 5).toNat ≤ (n : Int)) :
    ∃ s, c.run m 0 n (RPLL.new c.d) = .ok s ∧ s.ff = c.ffAt (c.cnt n) ∧
      2 ^ 20 * (|s.ff * c.P - 2 ^ (32 + c.d)| - 2 ^ (c.sf - 1).toNat) ≤ 2 ^ (32 + c.d) := by
  have h1 := a.hdsf
  have e : (32 : Int) * c.S = 2 ^ c.d * 2 ^ (c.sf - c.d + 5).toNat := by
    unfold RpllCfg.S
    rw [show (32 : Int) = 2 ^ 5 by norm_num, ← pow_add, ← pow_add]; congr 1; omega
  obtain ⟨s, hrun, hinv, hb⟩ := rpll_ff_converges_run c a m n (by
    rw [e]; exact mul_le_mul_of_nonneg_left hn (by positivity))
  exact ⟨s, hrun, hinv.2.1, hb⟩

/-- the geometric law behind it, for all `m` edges: `S^m·|ff_m·P − T| ≤ (S−P)^m·T + h·(S^m − (S−P)^m)`,
    i.e. `|u_m| ≤ (1 − P/2^sf)^m·|u_0| + 2^(sf−1)` -/
theorem rpll_ff_geometric (c : RpllCfg) (a : c.Adm) (m : Nat) :
    c.S ^ m * |c.ffAt m * c.P - c.T| ≤ (c.S - c.P) ^ m * c.T + c.h * (c.S ^ m - (c.S - c.P) ^ m) := by
  obtain ⟨hP0, hPS, -, -, hR0, -, -, -, -, -, -⟩ := a.facts
  have := ffIter_geom hP0 hPS a.S_eq hR0.le m
  rw [a.T_eq] at this
  exact this

/-- **lock within explicit envelopes** on `c.Good` (`3·2^d < P ≤ 2^sp` on top of the above), every offset, both
    profiles: let `n0·Qm ≥ 2^sp` (`n0` edges halve the phase-loop norm).  Every update from number
    `2^(sf−d+5) + b` on, where the `b+1` updates contain at least `k·n0 + 2` reference periods, returns without
    panic a frequency with `Σ²·|f·P − T| ≤ envF k` and a phase with `2Σ²DP·|phase error| ≤ envP k`. -/
theorem rpll_locks_within_envelope (c : RpllCfg) (g : c.Good) (m : Mode) (k n0 : Nat)
    (hn0 : c.Lam ≤ n0 * c.Qm) (b : Nat)
    (hb : ((k * n0 + 2 : Nat) : Int) ≤ 2 ^ c.d * ((b + 1 : Nat) : Int) / c.P) (n : Nat)
    (hn : 2 ^ (c.sf - c.d + 5).toNat + b ≤ n) :
    ∃ s s' y f, c.run m 0 n (RPLL.new c.d) = .ok s ∧
      RPLL.update m s (c.sched n) c.sf c.sp = .ok (s', y, f) ∧
      c.Sg * c.Sg * |f * c.P - c.T| ≤ c.envF k ∧
      2 * (c.Sg * c.Sg * (c.D * (c.P * |c.err n y|))) ≤ c.envP k := by
  have h1 := g.hdsf
  have hP0 := g.toAdm.facts.1
  have e : (32 : Int) * c.S = 2 ^ c.d * ((2 ^ (c.sf - c.d + 5).toNat : Nat) : Int) := by
    unfold RpllCfg.S
    push_cast
    rw [show (32 : Int) = 2 ^ 5 by norm_num, ← pow_add, ← pow_add]; congr 1; omega
  obtain ⟨b', rfl⟩ : ∃ b', n = 2 ^ (c.sf - c.d + 5).toNat + b' := ⟨n - 2 ^ (c.sf - c.d + 5).toNat, by omega⟩
  refine rpll_envelope c g m _ (le_of_eq e) k n0 hn0 b' (le_trans hb ?_)
  apply Int.ediv_le_ediv hP0
  apply mul_le_mul_of_nonneg_left _ (by positivity)
  push_cast; omega

/-- the lock clause of C07 at one configuration (all offsets are covered by quantifying over `c.off` outside) -/
def rpll_lock_at (c : RpllCfg) : Prop :=
  ∀ (m : Mode) (n : Nat), 2 ^ (c.sf - c.d + 5).toNat + 2 ^ (c.sp - c.d + 5).toNat ≤ n →
    ∃ s s' y f, c.run m 0 n (RPLL.new c.d) = .ok s ∧
      RPLL.update m s (c.sched n) c.sf c.sp = .ok (s', y, f) ∧
      100000 * |f * c.P - 2 ^ (32 + c.d)| ≤ 2 ^ (32 + c.d) ∧ 1000 * |c.err n y| ≤ 2 ^ 32

/-- **the lock clause holds literally where the envelopes are small**: on `c.Good`, if `k` halvings fit into the
    `2^(sp−d+5)` updates the property grants the phase loop (`k·n0 + 2 ≤ ⌊32·2^sp/P⌋`, `n0·Qm ≥ 2^sp`) and
    `envF k ≤ 1e-5·Σ²·T`, `envP k ≤ 1e-3·2Σ²DP·2^32`, then after `2^(sf−d+5) + 2^(sp−d+5)` updates and for ever the
    returned frequency is within relative `1e-5` and the phase within `1e-3` turns — for every offset, both profiles. -/
theorem rpll_lock_holds_where_envelope_small (c : RpllCfg) (g : c.Good) (k n0 : Nat)
    (hn0 : c.Lam ≤ n0 * c.Qm) (hk : ((k * n0 + 2 : Nat) : Int) ≤ 32 * c.Lam / c.P)
    (hF : 100000 * c.envF k ≤ c.Sg * c.Sg * c.T)
    (hP : 1000 * c.envP k ≤ 2 * (c.Sg * c.Sg * (c.D * (c.P * 2 ^ 32)))) :
    rpll_lock_at c := by
  intro m n hn
  have hP0 := g.toAdm.facts.1
  obtain ⟨hS4, -, -⟩ := g.Sg_ge
  have hD0 : 0 < c.D := by unfold RpllCfg.D; positivity
  have hsp := g.hsp0
  have e : (32 : Int) * c.Lam = 2 ^ c.d * ((2 ^ (c.sp - c.d + 5).toNat : Nat) : Int) := by
    unfold RpllCfg.Lam RpllCfg.D RpllCfg.Sg
    push_cast
    rw [show (32 : Int) = 2 ^ 5 by norm_num, ← pow_add, ← pow_add, ← pow_add]; congr 1; omega
  have h1 : 0 < 2 ^ (c.sp - c.d + 5).toNat := Nat.two_pow_pos _
  obtain ⟨s, s', y, f, hrun, hu, hf, hy⟩ := rpll_locks_within_envelope c g m k n0 hn0
    (2 ^ (c.sp - c.d + 5).toNat - 1) (by
      rw [show 2 ^ (c.sp - c.d + 5).toNat - 1 + 1 = 2 ^ (c.sp - c.d + 5).toNat by omega, ← e]
      exact hk) n (by omega)
  refine ⟨s, s', y, f, hrun, hu, ?_, ?_⟩
  · have hSS : 0 < c.Sg * c.Sg := by positivity
    have : c.Sg * c.Sg * (100000 * |f * c.P - c.T|) ≤ c.Sg * c.Sg * c.T := by nlinarith
    exact le_of_mul_le_mul_left this hSS
  · have hK : 0 < 2 * (c.Sg * c.Sg * (c.D * c.P)) := by positivity
    have : 2 * (c.Sg * c.Sg * (c.D * c.P)) * (1000 * |c.err n y|) ≤ 2 * (c.Sg * c.Sg * (c.D * c.P)) * 2 ^ 32 := by
      nlinarith
    exact le_of_mul_le_mul_left this hK

/-- a concrete member of that region: `dt2 = 8, sf = 16, sp = 15, P = 4000` (every offset): the lock clause of C07
    holds literally (envelopes: 3.5e-6 relative, 3.5e-5 turns; `k = 23` halvings, `n0 = 11`) -/
theorem rpll_lock_example (off : Int) : rpll_lock_at ⟨8, 4000, off, 16, 15⟩ := by
  have g0 : RpllCfg.Good ⟨8, 4000, 0, 16, 15⟩ :=
    { hDP := by decide, hPS := by decide, hdsf := by decide, hsf := by decide, hsp0 := by decide,
      hsp1 := by decide, hP3 := by decide, hPsp := by decide }
  have g : RpllCfg.Good ⟨8, 4000, off, 16, 15⟩ :=
    { hDP := g0.hDP, hPS := g0.hPS, hdsf := g0.hdsf, hsf := g0.hsf, hsp0 := g0.hsp0,
      hsp1 := g0.hsp1, hP3 := g0.hP3, hPsp := g0.hPsp }
  have f1 : RpllCfg.Lam ⟨8, 4000, 0, 16, 15⟩ ≤ (11 : Nat) * RpllCfg.Qm ⟨8, 4000, 0, 16, 15⟩ := by decide
  have f2 : ((23 * 11 + 2 : Nat) : Int) ≤ 32 * RpllCfg.Lam ⟨8, 4000, 0, 16, 15⟩ / 4000 := by decide
  have f3 : 100000 * RpllCfg.envF ⟨8, 4000, 0, 16, 15⟩ 23 ≤
      RpllCfg.Sg ⟨8, 4000, 0, 16, 15⟩ * RpllCfg.Sg ⟨8, 4000, 0, 16, 15⟩ * RpllCfg.T ⟨8, 4000, 0, 16, 15⟩ := by
    decide
  have f4 : 1000 * RpllCfg.envP ⟨8, 4000, 0, 16, 15⟩ 23 ≤
      2 * (RpllCfg.Sg ⟨8, 4000, 0, 16, 15⟩ * RpllCfg.Sg ⟨8, 4000, 0, 16, 15⟩ *
        (RpllCfg.D ⟨8, 4000, 0, 16, 15⟩ * (4000 * 2 ^ 32))) := by decide
  exact rpll_lock_holds_where_envelope_small _ g 23 11 f1 f2 f3 f4

end Idsp
