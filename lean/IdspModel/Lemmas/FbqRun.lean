import IdspModel.Props.C04F
import Mathlib.Algebra.Order.Field.Rat
import Mathlib.Tactic.NormNum
/-!
  Run functions for the float biquad model (`Model/BiquadF.lean`) and list lemmas about them; a NaN-carrying toy
  carrier (`Option ℚ`, `none` = NaN, IEEE `maxNum`/`minNum` semantics for `max`/`min`).
-/
namespace Idsp

variable {α σ : Type}

/-- fold a step function over an input list, collecting the outputs -/
def fbqRun (step : σ → α → σ × α) : σ → List α → σ × List α
  | st, [] => (st, [])
  | st, x :: xs => ((fbqRun step (step st x).1 xs).1, (step st x).2 :: (fbqRun step (step st x).1 xs).2)

/-- run of the N = 5 form -/
def fbqRun5 (o : BOps α) (c : FBiquadCfg α) : α × α × α × α × α → List α → (α × α × α × α × α) × List α :=
  fbqRun (fbiquadUpdate5 o c)

/-- run of the N = 2 form -/
def fbqRun2 (o : BOps α) (c : FBiquadCfg α) : α × α → List α → (α × α) × List α :=
  fbqRun (fbiquadUpdate2 o c)

/-- the existing N = 4 run function is the same fold -/
theorem fbiquadRun4_eq_fbqRun (o : BOps α) (c : FBiquadCfg α) (st : α × α × α × α) (xs : List α) :
    fbiquadRun4 o c st xs = fbqRun (fbiquadUpdate4 o c) st xs := by
  induction xs generalizing st with
  | nil => rfl
  | cons x xs ih => simp only [fbiquadRun4, fbqRun, ih]

theorem fbqRun_length (step : σ → α → σ × α) (st : σ) (xs : List α) : (fbqRun step st xs).2.length = xs.length := by
  induction xs generalizing st with
  | nil => rfl
  | cons x xs ih => simp [fbqRun, ih]

theorem fbqRun_append (step : σ → α → σ × α) (st : σ) (xs zs : List α) :
    fbqRun step st (xs ++ zs) =
      ((fbqRun step (fbqRun step st xs).1 zs).1, (fbqRun step st xs).2 ++ (fbqRun step (fbqRun step st xs).1 zs).2) := by
  induction xs generalizing st with
  | nil => simp [fbqRun]
  | cons x xs ih => simp [fbqRun, ih]

theorem fbqRun_all (step : σ → α → σ × α) (P : α → Prop) (h : ∀ st x, P (step st x).2) (st : σ) (xs : List α) :
    ∀ y ∈ (fbqRun step st xs).2, P y := by
  induction xs generalizing st with
  | nil => intro y hy; cases hy
  | cons x xs ih =>
    intro y hy
    simp only [fbqRun, List.mem_cons] at hy
    rcases hy with rfl | hy
    · exact h st x
    · exact ih _ y hy

/-- the last two steps of a run on a constant input of length `L ≥ 2` whose outputs end in `[ya, yb]` -/
theorem fbqRun_last_two (step : σ → α → σ × α) (st sf : σ) (L : Nat) (hL : 2 ≤ L) (x ya yb : α) (ys : List α)
    (h : fbqRun step st (List.replicate L x) = (sf, ys ++ [ya, yb])) :
    ∃ s0 s1, step s0 x = (s1, ya) ∧ step s1 x = (sf, yb) := by
  have e : List.replicate L x = List.replicate (L - 2) x ++ [x, x] := by
    obtain ⟨n, rfl⟩ : ∃ n, L = n + 2 := ⟨L - 2, by omega⟩
    rw [show n + 2 - 2 = n by omega, show [x, x] = List.replicate 2 x from rfl, List.replicate_append_replicate]
  rw [e, fbqRun_append] at h
  set s0 := (fbqRun step st (List.replicate (L - 2) x)).1 with hs0
  have h1 := congrArg Prod.fst h
  have h2 := congrArg Prod.snd h
  simp only [fbqRun] at h1 h2
  have hl : (fbqRun step st (List.replicate (L - 2) x)).2.length = ys.length := by
    have := congrArg List.length h2
    simp only [List.length_append, List.length_cons, List.length_nil] at this
    omega
  obtain ⟨_, h3⟩ := List.append_inj h2 hl
  simp only [List.cons.injEq, and_true] at h3
  exact ⟨s0, (step s0 x).1, Prod.ext rfl h3.1, Prod.ext h1 h3.2⟩

/-! ### a NaN-carrying carrier -/

/-- `Option ℚ` with `none` = NaN: arithmetic propagates NaN, `max`/`min` ignore a NaN operand (IEEE `maxNum`/`minNum`,
    Rust's `f32::max`/`min`) -/
def fbqNanOps : BOps (Option ℚ) where
  zero := some 0
  add a b := match a, b with | some x, some y => some (x + y) | _, _ => none
  sub a b := match a, b with | some x, some y => some (x - y) | _, _ => none
  mul a b := match a, b with | some x, some y => some (x * y) | _, _ => none
  max a b := match a, b with | some x, some y => some (max x y) | some x, none => some x | none, b => b
  min a b := match a, b with | some x, some y => some (min x y) | some x, none => some x | none, b => b

/-- `≤` on numbers; false as soon as an operand is NaN -/
def fbqNanLe : Option ℚ → Option ℚ → Prop
  | some x, some y => x ≤ y
  | _, _ => False

theorem fbqNan_clampLaws : ClampLaws fbqNanOps fbqNanLe (fun x => x ≠ none) where
  max_ge a b hb := by
    cases b with
    | none => exact absurd rfl hb
    | some y => cases a <;> simp [fbqNanOps, fbqNanLe]
  min_le a b hb := by
    cases b with
    | none => exact absurd rfl hb
    | some y => cases a <;> simp [fbqNanOps, fbqNanLe]
  min_ge a b c ha hb h1 h2 := by
    cases a with
    | none => exact absurd rfl ha
    | some x =>
      cases b with
      | none => exact absurd rfl hb
      | some y =>
        cases c with
        | none => exact h1.elim
        | some z => simp only [fbqNanOps, fbqNanLe] at *; exact le_min h1 h2

end Idsp
