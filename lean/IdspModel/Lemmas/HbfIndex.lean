import IdspModel.Lemmas.HbfStage
/-! Index-level reading of the history-only specifications. -/
namespace Idsp
variable {α : Type}

/-- output `i` of the decimator: the `i`-th even-phase item of (history ++ new items) plus the symmetric FIR over
    odd-phase items `i .. i+2M-1`, halved -/
theorem decSpec_getElem (o : Ops α) (taps he ho x : List α) (hm : 1 ≤ taps.length)
    (h1 : he.length = taps.length - 1) (h2 : ho.length = 2 * taps.length - 1) (i : Nat) (hi : i < x.length / 2) :
    (hbfDecSpec o taps he ho x)[i]'(by rw [decSpec_length o taps he ho x hm h1 h2]; exact hi) =
      o.half (o.add ((he ++ evens x)[i]'(by simp [evens_length]; omega))
        (firTap o taps (((ho ++ odds x).drop i).take (2 * taps.length)))) := by
  simp only [hbfDecSpec, List.getElem_map, List.getElem_zip, List.getElem_take, hbfDecComb,
    windows_getElem _ (by omega : 0 < 2 * taps.length)]

theorem interleave_getElem (a b : List α) (i : Nat) (ha : i < a.length) (hb : i < b.length) :
    (interleave a b)[2 * i]'(by rw [interleave_length]; omega) = a[i] ∧
    (interleave a b)[2 * i + 1]'(by rw [interleave_length]; omega) = b[i] := by
  induction a generalizing b i with
  | nil => simp at ha
  | cons x xs ih =>
    cases b with
    | nil => simp at hb
    | cons y ys =>
      cases i with
      | zero => simp [interleave]
      | succ i =>
        have := ih ys i (by simpa using ha) (by simpa using hb)
        simp only [interleave, Nat.mul_add, Nat.mul_one, List.getElem_cons_succ]
        exact this

/-- outputs `2i`, `2i+1` of the interpolator: the symmetric FIR over items `i .. i+2M-1` of (history ++ new items),
    then item `M+i` itself (centre tap) -/
theorem intSpec_getElem (o : Ops α) (taps h x : List α) (hm : 1 ≤ taps.length)
    (h1 : h.length = 2 * taps.length - 1) (i : Nat) (hi : i < x.length) :
    (hbfIntSpec o taps h x)[2 * i]'(by rw [intSpec_length o taps h x hm h1]; omega) =
      firTap o taps (((h ++ x).drop i).take (2 * taps.length)) ∧
    (hbfIntSpec o taps h x)[2 * i + 1]'(by rw [intSpec_length o taps h x hm h1]; omega) =
      (h ++ x)[taps.length + i]'(by simp [h1]; omega) := by
  have hn : 0 < 2 * taps.length := by omega
  have hw := windows_length (2 * taps.length) hn (h ++ x)
  have := interleave_getElem ((windows (2 * taps.length) (h ++ x)).map (firTap o taps))
    (((h ++ x).drop taps.length).take x.length) i (by simp [hw, h1]; omega) (by simp [h1]; omega)
  simp only [hbfIntSpec]
  rw [this.1, this.2]
  simp only [List.getElem_map, windows_getElem _ hn, List.getElem_take, List.getElem_drop, true_and]

end Idsp
