import IdspModel.Rust
/-! Model of `src/dsm.rs`: MASH-1^K delta-sigma modulator, generic in `K = a.length`. -/
namespace Idsp

structure Dsm where
  a : List Int   -- u32 accumulators
  c : List Int   -- i8 differentiator memories
deriving Repr, DecidableEq

/-- the accumulator chain: returns new accumulators and the packed carry word `d` (as i8). -/
def dsmAccs : List Int → Int → Int → List Int × Int
  | [], _, d => ([], d)
  | a :: as, x, d =>
    let s := a + x
    let a' := wrapU 32 s
    let c := b2i (decide (s ≥ 2 ^ 32))
    -- `(d << 1) | c` on i8: the low bit of `d << 1` is clear, so `|` is `+`
    let d' := wrapI 8 (wrapI 8 (d * 2) + c)
    let (as', d'') := dsmAccs as a' d'
    (a' :: as', d'')

/-- the differentiator fold over the first `n` memories. -/
def dsmDiffs (m : Mode) : Nat → List Int → Int → Int → R (List Int × Int)
  | 0, cs, _, y => .ok (cs, y)
  | _, [], _, y => .ok ([], y)
  | n + 1, c :: cs, d, y => do
    let d' := shr d 1
    let t ← arithI m 8 "dsm.rs:51 (d & 1) + y" (d' % 2 + y)
    let y' ← arithI m 8 "dsm.rs:51 (d & 1) + y - *c" (t - c)
    let (cs', yo) ← dsmDiffs m n cs d' y'
    .ok (y :: cs', yo)

def Dsm.update (m : Mode) (s : Dsm) (x : Int) : R (Dsm × Int) := do
  let (a', d) := dsmAccs s.a x 0
  let k : Int := s.a.length
  -- `take(K.saturating_sub(1))` (since the `fix:` commit; it was `take(K - 1)`, a usize underflow for K = 0)
  let n : Int := if k ≥ 1 then k - 1 else 0
  let (c', y) ← dsmDiffs m n.toNat s.c d (d % 2)
  .ok ({ a := a', c := c' }, y)

end Idsp
