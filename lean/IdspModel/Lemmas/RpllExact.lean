import IdspModel.Lemmas.RpllStep
/-! Inversion of a successful checked-mode `RPLL.update (some x)`: every no-panic side condition is necessary. -/
namespace Idsp

theorem rpllBind_eq_ok {α β} {a : R α} {f : α → R β} {r : β} (h : (a >>= f) = .ok r) :
    ∃ v, a = .ok v ∧ f v = .ok r := by
  cases a with
  | error e => cases h
  | ok v => exact ⟨v, rfl, h⟩

theorem dbgAssert_checked_ok {site : String} {c : Bool} {u : Unit} (h : dbgAssert .checked site c = .ok u) :
    c = true := by
  cases c with
  | true => rfl
  | false => simp [dbgAssert] at h

theorem arithU_checked_ok {w : Nat} {site : String} {x y : Int}
    (h : arithU .checked w site x = .ok y) : inU w x = true ∧ y = x := by
  unfold arithU at h
  split at h
  · next hin => exact ⟨hin, by cases h; rfl⟩
  · cases h

theorem shlU_checked_ok {w : Nat} {site : String} {x k y : Int}
    (h : shlU .checked w site x k = .ok y) : 0 ≤ k ∧ k < w ∧ y = wrapU w (x * 2 ^ k.toNat) := by
  unfold shlU at h
  split at h
  · next hin => exact ⟨hin.1, hin.2, by cases h; rfl⟩
  · cases h

theorem shlI_checked_ok {w : Nat} {site : String} {x k y : Int}
    (h : shlI .checked w site x k = .ok y) : 0 ≤ k ∧ k < w ∧ y = wrapI w (x * 2 ^ k.toNat) := by
  unfold shlI at h
  split at h
  · next hin => exact ⟨hin.1, hin.2, by cases h; rfl⟩
  · cases h

theorem shrC_checked_ok {w : Nat} {site : String} {x k y : Int}
    (h : shrC .checked w site x k = .ok y) : 0 ≤ k ∧ k < w := by
  unfold shrC at h
  split at h
  · next hin => exact hin
  · cases h

/-- necessity: a checked `Some(x)` update that returns satisfies every side condition of `rpll_update_some_eqP` -/
theorem rpll_checked_some_ok_inv (s : RPLL) (x sf sp : Int) (r : RPLL × Int × Int) (hd0 : 0 ≤ s.dt2)
    (h : RPLL.update .checked s (some x) sf sp = .ok r) :
    s.dt2 ≤ 30 ∧ s.dt2 < sf ∧ sf ≤ 32 ∧ s.dt2 ≤ sp ∧ sp - s.dt2 < 32 ∧
    0 ≤ s.ff * wrapU 64 (wrapI 32 (x - s.x)) ∧
    s.ff * wrapU 64 (wrapI 32 (x - s.x)) + 2 ^ (sf - 1).toNat < 2 ^ 64 := by
  unfold RPLL.update at h
  obtain ⟨_, a1, h⟩ := rpllBind_eq_ok h
  obtain ⟨_, a2, h⟩ := rpllBind_eq_ok h
  have a1 := dbgAssert_checked_ok a1
  have a2 := dbgAssert_checked_ok a2
  simp only [decide_eq_true_eq, ge_iff_le] at a1 a2
  obtain ⟨p64, b3, h⟩ := rpllBind_eq_ok h
  obtain ⟨sfm1, b4, h⟩ := rpllBind_eq_ok h
  obtain ⟨bias, b5, h⟩ := rpllBind_eq_ok h
  obtain ⟨t, b6, h⟩ := rpllBind_eq_ok h
  obtain ⟨t2, b7, h⟩ := rpllBind_eq_ok h
  obtain ⟨e0, b8, h⟩ := rpllBind_eq_ok h
  obtain ⟨e, b9, h⟩ := rpllBind_eq_ok h
  obtain ⟨pRef, b10, h⟩ := rpllBind_eq_ok h
  obtain ⟨one, b11, h⟩ := rpllBind_eq_ok h
  obtain ⟨mask, b12, h⟩ := rpllBind_eq_ok h
  obtain ⟨fs, b13, h⟩ := rpllBind_eq_ok h
  obtain ⟨sh, b14, h⟩ := rpllBind_eq_ok h
  obtain ⟨dy, b15, h⟩ := rpllBind_eq_ok h
  clear h
  obtain ⟨c3, q3⟩ := arithU_checked_ok b3
  obtain ⟨c4, q4⟩ := arithU_checked_ok b4
  obtain ⟨c5a, c5b, q5⟩ := shlU_checked_ok b5
  obtain ⟨c6, q6⟩ := arithU_checked_ok b6
  obtain ⟨c8, q8⟩ := arithU_checked_ok b8
  obtain ⟨c9, q9⟩ := arithU_checked_ok b9
  obtain ⟨c10a, c10b, q10⟩ := shlU_checked_ok b10
  obtain ⟨c11a, c11b, q11⟩ := shlI_checked_ok b11
  obtain ⟨c12, q12⟩ := arithI_checked_ok b12
  obtain ⟨c14, q14⟩ := arithU_checked_ok b14
  obtain ⟨c15a, c15b⟩ := shrC_checked_ok b15
  clear b3 b4 b5 b6 b7 b8 b9 b10 b11 b12 b13 b14 b15
  rw [q14] at c15a c15b
  rw [q9, q8] at c10a c10b
  rw [q4] at c5a c5b
  rw [q5, q3, q4] at c6
  rw [q11] at c12
  have ⟨c3a, c3b⟩ := inU_iff.mp c3
  have ⟨c6a, c6b⟩ := inU_iff.mp c6
  have hb : (2 : Int) ^ (sf - 1).toNat ≤ 2 ^ 31 := two_pow_mono (by omega)
  have hb0 := two_pow_pos (sf - 1).toNat
  rw [Int.one_mul, wrapU_of_in (Int.le_of_lt hb0) (by simp only [Int.reducePow] at hb ⊢; omega)] at c6b
  have hd30 : s.dt2 ≤ 30 := by
    by_cases h31 : s.dt2 = 31
    · exfalso
      rw [h31] at c12
      revert c12; decide
    · omega
  exact ⟨hd30, by omega, by omega, a2, by omega, c3a, c6b⟩

end Idsp
