"""Per-property configuration of ./check (what is proved, what is explored, which op families tie the model)."""

TRUSTED_BASE = [
    "Lean 4.33.0 kernel; axioms allowed: propext, Classical.choice, Quot.sound (audited with #print axioms on every run); no sorry/admit/native_decide/bv_decide/implemented_by/unsafe",
    "IdspModel/Rust.lean: wrapI/wrapU/arithI/shr/... are the semantics of rustc integer operations in the two profiles (validated by the correspondence stream on boundary lattices)",
    "hand-written model IdspModel/Model/*.lean is tied to /repo only by the behavioural correspondence (harness/src/gen.rs -> compiled Lean driver), which is sampled, not exhaustive, unless the evidence says so",
    "harness (Rust, catch_unwind, decimal I/O) and driver (Lean I/O, parsing) are trusted glue",
]

PROPS = {
    "C17": {
        "families": ["osub", "unwrap", "accu"],
        "n_quick": 60000, "n_thorough": 600000,
        "clauses_proved": [
            "overflowing_sub: w in {-1,0,1} and y-x = d - w*2^bits for every width and pair (overflowing_sub_exact)",
            "Unwrapper: returned value is the wrapped increment; accumulator = old + increment; reduces to the new sample (unwrapper_step, unwrapper_tracks_last)",
            "Unwrapper: wide output = running sum of increments for every sequence (unwrapper_sum, unwrapper_sum_exact)",
            "Accu: n-th item = start + n*step mod 2^bits, iterator total (accu_nth)",
        ],
        "clauses_explored": [],
        "level_text": "Every clause of the property is a kernel-checked theorem about the model, for all widths, pairs, sample sequences and (start, step, n); the model is tied to the crate by correspondence on 3.6e5 op lines per run and by a native oracle that is exhaustive for i8 (and i16 in the thorough tier).",
        "level_note": "Model: overflowingSub, unwrapperUpdate, accuNext (IdspModel/Model/Unwrap.lean). Not modelled: Unwrapper::wraps (no primitive type satisfies its trait bounds), serde derives.",
        "rule": "osub: all i8 pairs (and all i16 pairs in thorough), lattice/random i32/i64; Unwrapper: random walks with forced wraps, each sequence distinct; Accu: (start, step, n) triples",
    },
}

PROPS["C18"] = {
    "families": ["satscale"],
    "n_quick": 200000, "n_thorough": 2000000,
    "clauses_proved": [
        "exact inside the range for every documented shift 1..=32: floor((hi*2^32+lo)/2^shift) (sat_scale_exact)",
        "outside: constant +-(2^31 - 2^(shift-1)), independent of lo (sat_scale_clip)",
        "never panics for shift 1..=32, result in i32 (sat_scale_total) [after the fix: commit]",
        "monotone in (hi, lo) for shift <= 16 (sat_scale_monotone_le16)",
        "NEGATION: not monotone for every shift 17..=32 (sat_scale_not_monotone_ge17): known finding F-C18-a",
        "NEGATION: shift 32, hi = MIN saturates to 0 (sat_scale_shift32_min_is_zero): known finding F-C18-c",
    ],
    "clauses_explored": [],
    "level_text": "All clauses are kernel-checked theorems about the model for every shift and every (lo, hi); the monotonicity clause is proved for shift <= 16 and its negation is proved for every shift >= 17 (known finding, the code really is non-monotone there). Correspondence covers all shifts 0..=40 incl. contract violations in both profiles; the native oracle checks every clause on boundary lattices for all 32 shifts.",
    "level_note": "Model: saturatingScale (IdspModel/Model/Unwrap.lean).",
    "rule": "per shift: hi at both clip boundaries +-3, extremes, random; lo extremes + random; adjacent (hi,lo) pairs",
}
PROPS["C10"] = {
    "families": ["lowpass"],
    "n_quick": 100000, "n_thorough": 1000000,
    "clauses_proved": [
        "first order: for every k in [1, 2^31-1], EVERY i64 state, every x: no overflow in either profile, output and get() between previous output and input (lp1_between)",
        "first order: constant input reached exactly from every state (lp1_dc_reaches) and held (lp1_dc_fixed)",
        "set(x); get() = x (lp_set_get)",
        "second order: one-step linear form under explicit no-overflow preconditions (lp2_step_linear)",
        "NEGATION: second order wraps/panics near full scale (lp2_fullscale_overflow_witness): known finding F-C10",
    ],
    "clauses_explored": [
        "second order Butterworth settling within 4*2^32/k+4 LSB and <= 5% overshoot for levels within +-2^30 (native sweep)",
        "second order never wraps for steps whose target level is below 0.95 of full scale (native, against an unbounded-integer reference of the same recurrence)",
    ],
    "level_text": "The first-order clauses are theorems for all gains, all i64 states and all inputs. The second-order quantitative clauses are explored only (a quantised second-order loop; no proof attempted), the failing full-scale clause is a proved negation and a known finding.",
    "level_note": "Model: lp1Update, lp2Update, lpGet, lpSet (IdspModel/Model/Lowpass.lean). Lowpass<N> for N other than 1, 2 is unimplemented!() in the code and not modelled.",
    "rule": "lp1: arbitrary/set()/reachable states x lattice gains x full-scale alternations; lp2: k lattice x level pairs; each configuration distinct",
}
PROPS["C01"] = {
    "families": ["cossin"],
    "n_quick": 300000, "n_thorough": 3000000,
    "clauses_proved": [
        "no overflow anywhere inside cossin for every phase, both profiles agree (cossin_total, cossin_mode_irrelevant, cossinCore_total_range)",
        "|cos|,|sin| <= 2147454703 < 2^31, negation fits, squared norm < 2^63 (cossin_range)",
        "result depends only on the octant and the 22-bit field; low 7 bits ignored (cossin_depends_only_on_field, cossin_ignores_low7)",
        "quarter turn: (-sin, cos) exactly; half turn; conjugation by bit complement (cossin_quarter_turn, cossin_half_turn, cossin_conj)",
        "quadrant mirror = XOR 0x3fffffff swaps the magnitudes of cos and sin exactly (cossin_quadrant_mirror, cossin_quadrant_mirror_abs, cossinMirror_is_xor)",
        "each output sums to exactly zero over all 2^32 phases (cossin_sum_zero), by pairing, not enumeration",
    ],
    "clauses_explored": [
        "accuracy |out/A - (cos,sin)(p*pi/2^31)| < 1e-5 against f64 cos/sin: all 2^32 phases in the thorough tier, 2^24 stratified in quick (max observed 9.0232e-6)",
    ],
    "level_text": "All exact clauses (range, symmetries, zero sum, no overflow) are theorems for all 2^32 phases. The accuracy clause compares with the real cos/sin and is explored natively (exhaustively over the finite domain in the thorough tier); it is not a theorem.",
    "level_note": "Model: cossin, cossinCore, cossinTable (IdspModel/Model/Cossin*.lean); the 128-entry table is compared with the table build.rs generated for the current build on every run (op cossin_tab). Reading of 'mirroring swaps cos and sin': magnitudes swap, signs follow the quadrant (the literal (s, c) is false in odd quadrants: cossin_quadrant_mirror_literal_false).",
    "rule": "quick: one phase per 256-block (2^24), closed under the half turn; thorough: all 2^32 phases; each phase checked for accuracy, range, three symmetries",
}
PROPS["C16"] = {
    "families": ["dsm"],
    "n_quick": 100000, "n_thorough": 1000000,
    "clauses_proved": [
        "range invariant for every K <= 7, every invariant state, every input list; never panics; both profiles agree (dsm_range, dsm_range_step, dsm_range_from)",
        "output is the exact (unbounded) MASH-1^K value; run equals the unbounded specification (dsm_mash, dsm_mash_run)",
        "error identity 2^32*sum(y) - sum(x) = function of the final state, within +-2^(K-1)*2^32, for every prefix (dsm_error_identity, dsm_error_step, dsm_err_bound, dsm_run_prefix)",
        "constant input mean bound (dsm_const_input_mean)",
        "K = 8 characterised exactly: deviates only when the exact output is +128 (dsm_step_upto8, dsm_run_upto8); NEGATION witness dsm_k8_overflow_witness: known finding F-C16-b",
        "K = 0 returns 0 (after the fix: commit)",
    ],
    "clauses_explored": [],
    "level_text": "Every clause is a K-generic kernel-checked theorem over all invariant states and all input lists (no enumeration); for K = 8 the exact deviation condition is proved and the property's failure is a proved negation with a 9-step witness (known finding).",
    "level_note": "Model: Dsm.update (IdspModel/Model/Dsm.lean).",
    "rule": "sequences from default: constant, 1-4 bit lattices, carry alignments, random; all 4^6 (4^8 thorough) sequences on the 2-bit lattice for every K; compared with an unbounded reference MASH",
}

NOT_APPLICABLE = {
    "C%02d" % i: "check not built yet (work in progress in this session; see DESIGN.md section 5 for the plan)" for i in range(1, 21)
}
