import IdspModel.Lemmas.Lp2Main
import IdspModel.Lemmas.Lp2Core
import IdspModel.Lemmas.Lp2Bibo
import IdspModel.Lemmas.Lp2Reach
import IdspModel.Lemmas.Lp2Wide
import IdspModel.Lemmas.Lp2Phase
import IdspModel.Lemmas.Lp2BigModel
/-!
# C10, second-order clause — `Lowpass<2>` with Butterworth gains: error recursion, no overflow, settling

Clause: "The second-order lowpass, for Butterworth configurations with `2^16 ≤ k ≤ 2^31/√2` and levels within
`±2^30`, settles on a constant input to within `4·2^32/k + 4` LSB with at most 5 % overshoot."

Notation: `lp2Update m s0 s1 x k0 k1` is the model of `Lowpass::<2>::update(x, &[k0, k1])` on the raw state
`(s0, s1)`; `lp2Iter m x k0 k1 n st` runs it `n` times on the constant input `x` (`Props/C10.lean`).
`Lp2Butter k a b` (`Lemmas/Lp2Butter.lean`) says in integers that `[a, -b] = [⌊k²/2^32⌋, -⌊k·√2⌋]` for an integer
`2^16 ≤ k`, `2k² ≤ 2^62`.  `Lp2Settled a b x st` (`Lemmas/Lp2Level.lean`) is the equilibrium sublevel set
`b(b−2a)·V ≤ 4(2^32−b)·U²` of the quadratic Lyapunov form `V = Q(Ē, s̄)`, `Q(E,s) = a·E² − (b−a)·E·s + (2^32−b)·s²`,
in the centred coordinates `Ē = 2a(x·2^32 − s0) + (a+b)·2^32`, `s̄ = 2a·s1` (`Lemmas/Lp2Lyap.lean`, `Lp2Run.lean`).

What is proved here (all for BOTH build profiles):
* `lp2_error_recursion` — part 1, the exact affine error recursion with the two floor remainders as disturbances;
* `lp2_butterworth_admissible` — every documented configuration has complex characteristic roots, `2a < b`;
* `lp2_settles_of_safe`, `lp2_settles_of_safe2` — input-to-state stability for ANY admissible gain pair: from a state in
  a safe region the run never panics/wraps/saturates, reaches the equilibrium level set after finitely many
  updates and stays there;
* `lp2_level_change_pm2p29` — parts 2+3 for EVERY documented Butterworth pair and levels within `±2^29`: a filter
  settled at one level (e.g. after `set()`, `lp2_reset_settled`) and switched to another never panics, its transient
  error stays below `1.25·2^30 + 65537`, and it settles (for ever) to within `4·2^32/k + 4` LSB, both `get()` and the
  returned outputs; it is then settled again, so the level may be switched again;
* `lp2_level_change_pm2p30` — **parts 2+3 on the FULL range of the clause**: every documented pair, levels within
  `±2^30`, every step size up to `2^31` (including the first updates in which the saturating subtraction clips):
  never panics/wraps, and settles for ever to within `4·2^32/k + 4`; start states `Lp2Start2` (`lp2_start2_reset`);
* `lp2_level_change_pm2p30_step` — parts 2+3 on the property's FULL level range `±2^30`, every documented pair, for
  steps `|x − xo| ≤ 3·2^28` (0.75·2^30); start states `Lp2Start` (`set()` states, `lp2_start_reset`, and the states
  reached at the end of this theorem, so levels may be switched again and again);
* `lp2_any_input_pm2p29` — part 2 for ALL histories: for EVERY documented Butterworth pair and EVERY input sequence
  with all samples within `±2^29` (arbitrary, not only piecewise constant), starting from a state settled at a level
  within `±2^29`, no update ever panics, wraps or saturates and all outputs stay within `±(1.25·2^30 + 65537)`;
* `lp2_reachable_settles_pm2p28` — parts 2+3 over REACHABLE states: after `set()` and ANY input history within `±2^28`,
  whenever the input becomes a constant within `±2^28` the filter (never panicking) settles to within `4·2^32/k + 4`;
* `lp2_settled_error` — for damping `ζ² = b²/(4a·2^32) ≤ 3/4` the bound `4·2^32/k + 4` holds in the WHOLE equilibrium
  level set (not only in its tight part).
NOT proved (kept as `def … : Prop`): the 5 % overshoot bound (`lp2_overshoot_full`); the transient bounds proved here
give no useful overshoot constant.  (`lp2_settles_full` is now proved, with start states `Lp2Start2` instead of
arbitrary states of the equilibrium ellipse, by `lp2_level_change_pm2p30`.)
-/
namespace Idsp
set_option linter.unusedVariables false

/-- **Part 1 — exact error recursion.**  For ANY `i32` gain pair: if the raw state and its image under the plain
    integer map `lp2Next` lie in the box `Lp2Box` (`s0` in `i64`, `x − get()` in `i32`, `|s1| ≤ 2^62`), then the model
    update returns `.ok` in both build profiles, and with `E = x·2^32 − s0`, `r0 = s0 mod 2^32`, `r1 = s1 mod 2^32`
    (`δ₁ = r0/2^32`, `δ₂ = r1/2^32 ∈ [0,1)` are the two floor disturbances):
      `2^32·E'  = (2^32 − 2k0)·E − (2·2^32 + 2k1)·s1 − 2(k0·r0 − k1·r1)`,
      `2^32·s1' = 2k0·E + (2^32 + 2k1)·s1 + 2(k0·r0 − k1·r1)`,
    and the returned output is the high word of a raw mid-point whose error is the mean of `E` and `E'`. -/
theorem lp2_error_recursion (m : Mode) (x k0 k1 : Int) (st : Int × Int)
    (hk0 : inI 32 k0 = true) (hk1 : inI 32 k1 = true)
    (hb : Lp2Box x st) (hn : Lp2Box x (lp2Next x k0 k1 st)) :
    ∃ s0' s1' y mid r0 r1 : Int,
      lp2Update m st.1 st.2 x k0 k1 = .ok (s0', s1', y) ∧
      r0 = st.1 % 4294967296 ∧ r1 = st.2 % 4294967296 ∧
      0 ≤ r0 ∧ r0 < 4294967296 ∧ 0 ≤ r1 ∧ r1 < 4294967296 ∧
      4294967296 * (x * 4294967296 - s0')
        = (4294967296 - 2 * k0) * (x * 4294967296 - st.1) - (2 * 4294967296 + 2 * k1) * st.2
          - 2 * (k0 * r0 - k1 * r1) ∧
      4294967296 * s1'
        = 2 * k0 * (x * 4294967296 - st.1) + (4294967296 + 2 * k1) * st.2 + 2 * (k0 * r0 - k1 * r1) ∧
      y = mid / 4294967296 ∧
      2 * (x * 4294967296 - mid) = (x * 4294967296 - st.1) + (x * 4294967296 - s0') := by
  have ⟨a0, a1⟩ := inI_iff.mp hk0
  have ⟨b0, b1⟩ := inI_iff.mp hk1
  simp only [show (32 : Nat) - 1 = 31 from rfl, Int.reducePow, Int.reduceNeg] at a0 a1 b0 b1
  obtain ⟨r00, r01, r10, r11, h5, h6, h7⟩ := lp2_err_rec x k0 k1 st
  exact ⟨_, _, _, lp2Mid x k0 k1 st, _, _,
    lp2_step_box m x k0 k1 st a0 (by omega) b0 (by omega) hb hn, rfl, rfl, r00, r01, r10, r11, h5, h6, rfl, h7⟩

/-- **Every documented Butterworth configuration is admissible**: `1 ≤ a`, `2a < b ≤ 2^31`, and the characteristic
    polynomial `z² − (2−2α−2β)z + (1+2α−2β)` has complex roots (`4·a·2^32 > (a+b)²`), so that the invariant form `Q` is
    positive definite — uniformly for all integer `2^16 ≤ k ≤ 2^31/√2`, including the heavily rounded `k0 = 1,2,3`. -/
theorem lp2_butterworth_admissible {k a b : Int} (h : Lp2Butter k a b) : Lp2Adm a b := h.adm

/-- the state produced by `set(x)` (and a zero velocity state) is settled at `x` -/
theorem lp2_reset_settled {a b : Int} (hA : Lp2Adm a b) (x : Int) (hx : inI 32 x = true) :
    Lp2Settled a b x (lpSet x, 0) := by
  have ⟨hx0, hx1⟩ := inI_iff.mp hx
  simp only [show (32 : Nat) - 1 = 31 from rfl, Int.reducePow, Int.reduceNeg] at hx0 hx1
  have : lpSet x = x * 4294967296 := by
    unfold lpSet; rw [wrapI64_id (by omega) (by omega)]; rfl
  rw [this]; exact lp2_set_settled hA x

/-- **In the equilibrium level set the error is within `4·2^32/k + 4` LSB** (stated as `k·(|err| − 4) ≤ 4·2^32`), for
    `get()` of a settled state and for the output returned by an update between two settled states. -/
theorem lp2_settled_error {k a b x : Int} (h : Lp2Butter k a b) (hz : b ^ 2 ≤ 3 * (a * 4294967296))
    (st : Int × Int) (hs : Lp2Settled a b x st) :
    k * (|st.1 / 4294967296 - x| - 4) ≤ 4 * 4294967296 ∧
    (Lp2Settled a b x (lp2Next x a (-b) st) →
      k * (|lp2Mid x a (-b) st / 4294967296 - x| - 4) ≤ 4 * 4294967296) :=
  ⟨lp2_settled_out h hz st hs, lp2_settled_mid h hz st hs⟩

/-- **Input-to-state stability, any admissible gain pair** (`Lp2Adm a b`: `1 ≤ a`, `2a < b ≤ 2^31`, complex roots).
    If the start state lies in a safe sublevel set `V ≤ Vmax` (`Lp2Safe`: the set lies inside the overflow-free box and
    contains the equilibrium level set), then on the constant input `x`
    (1) every one of the `n` updates returns `.ok` in both build profiles (no panic, no wrap, no saturation), and
    (2) after finitely many updates the state is in the equilibrium level set and stays there for ever. -/
theorem lp2_settles_of_safe (m : Mode) {a b x Vmax : Int} (hA : Lp2Adm a b) (hS : Lp2Safe a b x Vmax)
    (st : Int × Int) (hV : lp2V a b x st ≤ Vmax) :
    (∀ n, ∃ s0 s1, lp2Iter m x a (-b) n st = .ok (s0, s1, s0 / 4294967296) ∧ lp2V a b x (s0, s1) ≤ Vmax) ∧
    ∃ N : Nat, ∀ n, N ≤ n → ∃ s0 s1 s0' s1' y,
      lp2Iter m x a (-b) n st = .ok (s0, s1, s0 / 4294967296) ∧
      lp2Update m s0 s1 x a (-b) = .ok (s0', s1', y) ∧ y = lp2Mid x a (-b) (s0, s1) / 4294967296 ∧
      (s0', s1') = lp2Next x a (-b) (s0, s1) ∧
      Lp2Settled a b x (s0, s1) ∧ Lp2Settled a b x (s0', s1') := by
  constructor
  · intro n
    exact ⟨_, _, lp2_seq_run m hA hS n st hV, lp2_seq_V hA hS n st hV⟩
  · obtain ⟨N, hN⟩ := lp2_seq_eventually hA hS st hV
    refine ⟨N, fun n hn => ?_⟩
    have hVn := lp2_seq_V hA hS n st hV
    obtain ⟨hstep, -⟩ := lp2_V_step m (lp2Seq x a (-b) n st) hA hS hVn
    refine ⟨_, _, _, _, _, lp2_seq_run m hA hS n st hV, hstep, rfl, rfl, hN n hn, ?_⟩
    have := hN (n + 1) (by omega)
    rw [lp2Seq_succ] at this
    exact this

/-- **Input-to-state stability with the sector-sharpened region, any admissible gain pair.**  As
    `lp2_settles_of_safe`, for the region `V ≤ Vmax ∧ |Ē| ≤ R` (`Lp2Safe2`, `Lp2Inv2`), whose extent in the error
    direction does not degrade near a double characteristic root. -/
theorem lp2_settles_of_safe2 (m : Mode) {a b x Vmax R : Int} (hA : Lp2Adm a b) (hS : Lp2Safe2 a b x Vmax R)
    (st : Int × Int) (hI : Lp2Inv2 a b x Vmax R st) :
    (∀ n, ∃ s0 s1, lp2Iter m x a (-b) n st = .ok (s0, s1, s0 / 4294967296) ∧ Lp2Inv2 a b x Vmax R (s0, s1)) ∧
    ∃ N : Nat, ∀ n, N ≤ n → ∃ s0 s1 s0' s1' y,
      lp2Iter m x a (-b) n st = .ok (s0, s1, s0 / 4294967296) ∧
      lp2Update m s0 s1 x a (-b) = .ok (s0', s1', y) ∧ y = lp2Mid x a (-b) (s0, s1) / 4294967296 ∧
      (s0', s1') = lp2Next x a (-b) (s0, s1) ∧
      Lp2Settled a b x (s0, s1) ∧ Lp2Settled a b x (s0', s1') := by
  constructor
  · intro n
    exact ⟨_, _, lp2_seq_run2 m hA hS n st hI, lp2_seq_inv2 hA hS n st hI⟩
  · obtain ⟨N, hN⟩ := lp2_seq_eventually2 hA hS st hI
    refine ⟨N, fun n hn => ?_⟩
    have hIn := lp2_seq_inv2 hA hS n st hI
    obtain ⟨hstep, -⟩ := lp2_inv2_step m (lp2Seq x a (-b) n st) hA hS hIn
    refine ⟨_, _, _, _, _, lp2_seq_run2 m hA hS n st hI, hstep, rfl, rfl, hN n hn, ?_⟩
    have := hN (n + 1) (by omega)
    rw [lp2Seq_succ] at this
    exact this

/-- **Parts 2 + 3 for EVERY documented Butterworth pair, levels within `±2^29`** (`_pm2p29`: the clause asks for
    `±2^30`).  `[a, -b] = [⌊k²/2^32⌋, -⌊k√2⌋]` for an integer `2^16 ≤ k ≤ 2^31/√2`; the filter is settled at a level
    `|xo| ≤ 2^29` (e.g. after `set(xo)`, `lp2_reset_settled`) and the input switches to the constant `|x| ≤ 2^29`.
    Then, in both build profiles,
    (1) no update ever panics, wraps or saturates, and at all times `|get() − x| ≤ 1.25·2^30 + 65537`;
    (2) after finitely many updates, for ever: the state is settled at `x` (so the level may be switched again),
        `|get() − x| ≤ 4·2^32/k + 4` and the returned output satisfies `|y − x| ≤ 4·2^32/k + 4`
        (stated as `k·(|err| − 4) ≤ 4·2^32`). -/
theorem lp2_level_change_pm2p29 (m : Mode) {k a b x xo : Int} (h : Lp2Butter k a b)
    (hx0 : -536870912 ≤ x) (hx1 : x ≤ 536870912) (ho0 : -536870912 ≤ xo) (ho1 : xo ≤ 536870912)
    (st : Int × Int) (hs : Lp2Settled a b xo st) :
    (∀ n, ∃ s0 s1, lp2Iter m x a (-b) n st = .ok (s0, s1, s0 / 4294967296) ∧
      |s0 / 4294967296 - x| ≤ 1342242817) ∧
    ∃ N : Nat, ∀ n, N ≤ n → ∃ s0 s1 s0' s1' y,
      lp2Iter m x a (-b) n st = .ok (s0, s1, s0 / 4294967296) ∧
      lp2Update m s0 s1 x a (-b) = .ok (s0', s1', y) ∧
      Lp2Settled a b x (s0, s1) ∧
      k * (|s0 / 4294967296 - x| - 4) ≤ 4 * 4294967296 ∧
      k * (|y - x| - 4) ≤ 4 * 4294967296 := by
  have hA := h.adm
  have ha := h.a_ge
  have hS := lp2_safe2_of_level h hx0 hx1
  have hI := lp2_settled_inv2 h hx0 hx1 ho0 ho1 st hs
  have hD5 := (lp2_disc_ge h).1
  have hG := lp2_Rk_good h
  constructor
  · intro n
    have hIn := lp2_seq_inv2 hA hS n st hI
    refine ⟨_, _, lp2_seq_run2 m hA hS n st hI, ?_⟩
    -- transient bound from |Ē| ≤ R
    have hba := lp2_b_le_a h
    have habs : |lp2Eb a b x (lp2Seq x a (-b) n st).1| * 1 ≤ lp2R2 a := by
      rw [mul_one]; exact abs_le.mpr ⟨hIn.2.1, hIn.2.2⟩
    have hout := lp2_out_abs (a := a) (b := b) (x := x) (s := (lp2Seq x a (-b) n st).1) (c := 1)
      (R := lp2R2 a) (by omega) (by have := h.b_ge; omega) (by norm_num) habs
    rw [abs_sub_comm]
    unfold lp2R2 at hout
    have h2 : (2 * a * 4294967296) * |x - (lp2Seq x a (-b) n st).1 / 4294967296|
        ≤ (2 * a * 4294967296) * 1342242817 := by nlinarith
    exact le_of_mul_le_mul_left h2 (by positivity)
  · exact (lp2_settle_core m h hS st hI).2

/-- the state produced by `set(x)` (zero velocity) is a start state -/
theorem lp2_start_reset {k a b : Int} (h : Lp2Butter k a b) (x : Int) (hx : inI 32 x = true) :
    Lp2Start a b x (lpSet x, 0) := by
  have ⟨hx0, hx1⟩ := inI_iff.mp hx
  simp only [show (32 : Nat) - 1 = 31 from rfl, Int.reducePow, Int.reduceNeg] at hx0 hx1
  have : lpSet x = x * 4294967296 := by
    unfold lpSet; rw [wrapI64_id (by omega) (by omega)]; rfl
  rw [this]; exact lp2_start_of_set h x

/-- **Parts 2 + 3 on the full level range `±2^30`, steps up to `3·2^28`** (`_step`: the clause allows steps up to
    `2^31`).  EVERY documented Butterworth pair; new level `|x| ≤ 2^30`, old level `xo` with
    `|x − xo| ≤ 3·2^28 = 0.75·2^30`; the start state is a start state at `xo` (`Lp2Start`: settled, centred error at
    most `2^19` LSB — e.g. `set(xo)`, `lp2_start_reset`).  Then in both build profiles
    (1) no update ever panics, wraps or saturates, and `|get() − x| ≤ 1006698497 < 2^30` at all times;
    (2) after finitely many updates, for ever: the state is again a start state (at `x`), `|get() − x| ≤ 4·2^32/k + 4`
        and every returned output satisfies `|y − x| ≤ 4·2^32/k + 4`. -/
theorem lp2_level_change_pm2p30_step (m : Mode) {k a b x xo : Int} (h : Lp2Butter k a b)
    (hx0 : -1073741824 ≤ x) (hx1 : x ≤ 1073741824)
    (hd0 : -805306368 ≤ x - xo) (hd1 : x - xo ≤ 805306368)
    (st : Int × Int) (hst : Lp2Start a b xo st) :
    (∀ n, ∃ s0 s1, lp2Iter m x a (-b) n st = .ok (s0, s1, s0 / 4294967296) ∧
      |s0 / 4294967296 - x| ≤ 1006698497) ∧
    ∃ N : Nat, ∀ n, N ≤ n → ∃ s0 s1 s0' s1' y,
      lp2Iter m x a (-b) n st = .ok (s0, s1, s0 / 4294967296) ∧
      lp2Update m s0 s1 x a (-b) = .ok (s0', s1', y) ∧
      Lp2Start a b x (s0, s1) ∧
      k * (|s0 / 4294967296 - x| - 4) ≤ 4 * 4294967296 ∧
      k * (|y - x| - 4) ≤ 4 * 4294967296 := by
  have hA := h.adm
  have ha := h.a_ge
  have hS := lp2_safe2_W h hx0 hx1
  have hI := lp2_settled_inv2_W h hd0 hd1 st hst
  obtain ⟨hrun, N, hN⟩ := lp2_settle_core' m h hS st hI
  constructor
  · intro n
    obtain ⟨hr, hIn⟩ := hrun n
    refine ⟨_, _, hr, ?_⟩
    have hba := lp2_b_le_a h
    have habs : |lp2Eb a b x (lp2Seq x a (-b) n st).1| * 1 ≤ lp2RW a := by
      rw [mul_one]; exact abs_le.mpr ⟨hIn.2.1, hIn.2.2⟩
    have hout := lp2_out_abs (a := a) (b := b) (x := x) (s := (lp2Seq x a (-b) n st).1) (c := 1)
      (R := lp2RW a) (by omega) (by have := h.b_ge; omega) (by norm_num) habs
    rw [abs_sub_comm]
    unfold lp2RW at hout
    have h2 : (2 * a * 4294967296) * |x - (lp2Seq x a (-b) n st).1 / 4294967296|
        ≤ (2 * a * 4294967296) * 1006698497 := by nlinarith
    exact le_of_mul_le_mul_left h2 (by positivity)
  · refine ⟨N, fun n hn => ?_⟩
    obtain ⟨s0, s1, s0', s1', y, e1, e2, ht, b1, b2⟩ := hN n hn
    exact ⟨s0, s1, s0', s1', y, e1, e2, lp2_start_of_tight h _ ht, b1, b2⟩

/-- the `set(x)` state is a start state with small velocity -/
theorem lp2_start2_reset {k a b : Int} (h : Lp2Butter k a b) (x : Int) (hx : inI 32 x = true) :
    Lp2Start2 a b x (lpSet x, 0) := by
  have ⟨hx0, hx1⟩ := inI_iff.mp hx
  simp only [show (32 : Nat) - 1 = 31 from rfl, Int.reducePow, Int.reduceNeg] at hx0 hx1
  have : lpSet x = x * 4294967296 := by
    unfold lpSet; rw [wrapI64_id (by omega) (by omega)]; rfl
  rw [this]; exact lp2_start2_of_set h x

/-- **Parts 2 + 3 on the property's full range: EVERY documented Butterworth pair, levels within `±2^30`, ALL step
    sizes up to `2^31`.**  The filter is in a start state at `|xo| ≤ 2^30` (`Lp2Start2`: settled, centred error at
    most `2^19` LSB, velocity `|s1| ≤ 8·2^32`; e.g. `set(xo)`, `lp2_start2_reset`) and the input switches to the
    constant `|x| ≤ 2^30`.  Then, in both build profiles,
    (1) no update ever panics or wraps — the saturating subtraction `x − get()` MAY clip during the first updates of
        a step of (nearly) `2^31`; this is part of the model and is covered;
    (2) after finitely many updates, for ever: the state is again a start state (at `x`),
        `|get() − x| ≤ 4·2^32/k + 4`, and every returned output satisfies `|y − x| ≤ 4·2^32/k + 4`.
    Proof: steps up to `3·2^28` by the symmetric sector-safe region; larger steps by the approach-phase argument
    (first-quadrant invariant, two-piece velocity bound, decay of the quadratic form over `⌊2^32/b⌋` steps, hand-off to
    a sector-safe region of radius `< 2^30`). -/
theorem lp2_level_change_pm2p30 (m : Mode) {k a b x xo : Int} (h : Lp2Butter k a b)
    (hx0 : -1073741824 ≤ x) (hx1 : x ≤ 1073741824) (ho0 : -1073741824 ≤ xo) (ho1 : xo ≤ 1073741824)
    (st : Int × Int) (hst : Lp2Start2 a b xo st) :
    (∀ n, ∃ s0 s1, lp2Iter m x a (-b) n st = .ok (s0, s1, s0 / 4294967296)) ∧
    ∃ N : Nat, ∀ n, N ≤ n → ∃ s0 s1 s0' s1' y,
      lp2Iter m x a (-b) n st = .ok (s0, s1, s0 / 4294967296) ∧
      lp2Update m s0 s1 x a (-b) = .ok (s0', s1', y) ∧
      Lp2Start2 a b x (s0, s1) ∧
      k * (|s0 / 4294967296 - x| - 4) ≤ 4 * 4294967296 ∧
      k * (|y - x| - 4) ≤ 4 * 4294967296 := by
  by_cases hsmall : -805306368 ≤ x - xo ∧ x - xo ≤ 805306368
  · -- small step: the symmetric wide region
    have hS := lp2_safe2_W h hx0 hx1
    have hI := lp2_settled_inv2_W h hsmall.1 hsmall.2 st hst.1
    obtain ⟨hrun, N, hN⟩ := lp2_settle_core' m h hS st hI
    refine ⟨fun n => ⟨_, _, (hrun n).1⟩, N, fun n hn => ?_⟩
    obtain ⟨s0, s1, s0', s1', y, e1, e2, ht, b1, b2⟩ := hN n hn
    exact ⟨s0, s1, s0', s1', y, e1, e2, lp2_start2_of_tight h _ ht, b1, b2⟩
  · -- large step
    have ha := h.a_ge; have hal := h.a_le; have hbl := h.b_le; have hb0 := h.hb0
    obtain ⟨sg, hsg, hd0, hd1⟩ : ∃ sg : Int, (sg = 1 ∨ sg = -1) ∧ 805306368 < sg * (x - xo) ∧
        sg * (x - xo) ≤ 2147483648 := by
      by_cases hpos : 0 ≤ x - xo
      · exact ⟨1, Or.inl rfl, by omega, by omega⟩
      · exact ⟨-1, Or.inr rfl, by omega, by omega⟩
    obtain ⟨n1, hbox, hInv⟩ := lp2_big_model h hsg hx0 hx1 ho0 ho1 hd0 hd1 st hst
    have hrunS : ∀ n, n ≤ n1 → lp2Iter m x a (-b) n st
        = .ok ((lp2SeqS x a (-b) n st).1, (lp2SeqS x a (-b) n st).2, (lp2SeqS x a (-b) n st).1 / 4294967296) :=
      fun n hn => lp2_seqS_run m x a (-b) (by omega) (by omega) (by omega) (by omega) n st
        (fun j hj => hbox j (by omega))
    have hS := bg_safe2 h hx0 hx1
    obtain ⟨hrun2, N, hN⟩ := lp2_settle_core' m h hS (lp2SeqS x a (-b) n1 st) hInv
    have hsplit : ∀ i, lp2Iter m x a (-b) (n1 + i) st = lp2Iter m x a (-b) i (lp2SeqS x a (-b) n1 st) := by
      intro i
      have := lp2Iter_add m x a (-b) n1 i st _ _ _ (hrunS n1 (le_refl _))
      simpa using this
    refine ⟨fun n => ?_, n1 + N, fun n hn => ?_⟩
    · rcases Nat.le_total n n1 with hle | hge
      · exact ⟨_, _, hrunS n hle⟩
      · obtain ⟨i, rfl⟩ : ∃ i, n = n1 + i := ⟨n - n1, by omega⟩
        rw [hsplit]; exact ⟨_, _, (hrun2 i).1⟩
    · obtain ⟨i, rfl⟩ : ∃ i, n = n1 + i := ⟨n - n1, by omega⟩
      obtain ⟨s0, s1, s0', s1', y, e1, e2, ht, b1, b2⟩ := hN i (by omega)
      rw [hsplit]
      exact ⟨s0, s1, s0', s1', y, e1, e2, lp2_start2_of_tight h _ ht, b1, b2⟩

/-- **Part 2 for all histories, `±2^29`: bounded input ⇒ no overflow, bounded output.**  EVERY documented Butterworth
    pair; the start state is settled at some level `|xo| ≤ 2^29` (e.g. `set(xo)` — `lp2_reset_settled` — or the state
    reached in `lp2_level_change_pm2p29`); `xs` is an ARBITRARY input sequence with all samples within `±2^29`
    (`lp2RunL` runs the model over the list).  Then in both build profiles the whole run returns `.ok` (no panic, no
    wrap, no saturation of the input difference), it returns one output per input, every output lies within
    `±(1.25·2^30 + 65537)`, and the final state lies in the same invariant region (so the run can be continued). -/
theorem lp2_any_input_pm2p29 (m : Mode) {k a b xo : Int} (h : Lp2Butter k a b)
    (ho0 : -536870912 ≤ xo) (ho1 : xo ≤ 536870912) (st : Int × Int) (hs : Lp2Settled a b xo st)
    (xs : List Int) (hxs : ∀ x ∈ xs, -536870912 ≤ x ∧ x ≤ 536870912) :
    ∃ st' ys, lp2RunL m a (-b) xs st = .ok (st', ys) ∧ ys.length = xs.length ∧
      (∀ y ∈ ys, -1342242817 ≤ y ∧ y ≤ 1342242817) ∧
      Lp2Inv2 a b 0 (lp2Vmax2 a) (lp2R2 a) st' := by
  have hI := lp2_settled_inv2 h (x := 0) (by norm_num) (by norm_num) ho0 ho1 st hs
  obtain ⟨st', ys, e, hI', hlen, hys⟩ := lp2_bibo_run m h xs hxs st hI
  exact ⟨st', ys, e, hlen, hys, hI'⟩

/-- **Parts 2 + 3 over all reachable states, `±2^28`.**  EVERY documented Butterworth pair; start settled at a level
    `|xo| ≤ 2^28` (e.g. `set(xo)`); then an ARBITRARY input history `xs` with all samples within `±2^28`; then the
    constant input `|x| ≤ 2^28`.  In both build profiles: the history runs without panic/wrap/saturation with all
    outputs within `±(1.25·2^29 + 65537)`; from the state `st1` it leaves behind, the constant-input run never panics,
    and after finitely many updates, for ever, the state is settled at `x`, `|get() − x| ≤ 4·2^32/k + 4` and every
    returned output satisfies `|y − x| ≤ 4·2^32/k + 4`. -/
theorem lp2_reachable_settles_pm2p28 (m : Mode) {k a b xo x : Int} (h : Lp2Butter k a b)
    (ho0 : -268435456 ≤ xo) (ho1 : xo ≤ 268435456) (st : Int × Int) (hs : Lp2Settled a b xo st)
    (xs : List Int) (hxs : ∀ z ∈ xs, -268435456 ≤ z ∧ z ≤ 268435456)
    (hx0 : -268435456 ≤ x) (hx1 : x ≤ 268435456) :
    ∃ st1 ys, lp2RunL m a (-b) xs st = .ok (st1, ys) ∧ ys.length = xs.length ∧
      (∀ y ∈ ys, -671154177 ≤ y ∧ y ≤ 671154177) ∧
      (∀ n, ∃ s0 s1, lp2Iter m x a (-b) n st1 = .ok (s0, s1, s0 / 4294967296)) ∧
      ∃ N : Nat, ∀ n, N ≤ n → ∃ s0 s1 s0' s1' y,
        lp2Iter m x a (-b) n st1 = .ok (s0, s1, s0 / 4294967296) ∧
        lp2Update m s0 s1 x a (-b) = .ok (s0', s1', y) ∧
        Lp2Settled a b x (s0, s1) ∧
        k * (|s0 / 4294967296 - x| - 4) ≤ 4 * 4294967296 ∧
        k * (|y - x| - 4) ≤ 4 * 4294967296 := by
  have hI := lp2_settled_invA h ho0 ho1 st hs
  obtain ⟨st1, ys, e, hI1, hlen, hys⟩ := lp2_bibo_runA m h xs hxs st hI
  have hS := lp2_safe2_B h hx0 hx1
  have hIB := lp2_inv2_B h hx0 hx1 st1 hI1
  obtain ⟨hrun, hev⟩ := lp2_settle_core m h hS st1 hIB
  exact ⟨st1, ys, e, hlen, hys, fun n => ⟨_, _, (hrun n).1⟩, hev⟩

/-- the full settling clause (NOT proved): all documented `k`, levels within `±2^30` -/
def lp2_settles_full : Prop :=
  ∀ (m : Mode) (k a b x xo : Int) (st : Int × Int), Lp2Butter k a b →
    -1073741824 ≤ x → x ≤ 1073741824 → -1073741824 ≤ xo → xo ≤ 1073741824 → Lp2Settled a b xo st →
    (∀ n, ∃ s0 s1, lp2Iter m x a (-b) n st = .ok (s0, s1, s0 / 4294967296)) ∧
    ∃ N : Nat, ∀ n, N ≤ n → ∃ s0 s1 s0' s1' y,
      lp2Iter m x a (-b) n st = .ok (s0, s1, s0 / 4294967296) ∧
      lp2Update m s0 s1 x a (-b) = .ok (s0', s1', y) ∧
      k * (|s0 / 4294967296 - x| - 4) ≤ 4 * 4294967296 ∧
      k * (|y - x| - 4) ≤ 4 * 4294967296

/-- the 5 % overshoot clause (NOT proved): every output after a level change from a settled state stays within
    `5 %` of the step plus the settling allowance beyond the new level -/
def lp2_overshoot_full : Prop :=
  ∀ (m : Mode) (k a b x xo : Int) (st : Int × Int) (n : Nat) (s0 s1 g s0' s1' y : Int), Lp2Butter k a b →
    -1073741824 ≤ x → x ≤ 1073741824 → -1073741824 ≤ xo → xo ≤ 1073741824 → Lp2Settled a b xo st →
    lp2Iter m x a (-b) n st = .ok (s0, s1, g) → lp2Update m s0 s1 x a (-b) = .ok (s0', s1', y) →
    (xo ≤ x → 20 * k * (y - x) ≤ k * (x - xo) + 20 * (4 * 4294967296 + 4 * k)) ∧
    (x ≤ xo → 20 * k * (x - y) ≤ k * (xo - x) + 20 * (4 * 4294967296 + 4 * k))

/-! ### non-vacuity -/

/-- `k = 2^24`: `[k²/2^32, -k√2] = [65536, -23726566]` is a documented pair with `ζ² ≤ 3/4` -/
example : Lp2Butter 16777216 65536 23726566 ∧ (23726566 : Int) ^ 2 ≤ 3 * (65536 * 4294967296) := by
  refine ⟨⟨?_, ?_, ?_, ?_, ?_, ?_, ?_⟩, ?_⟩ <;> norm_num

/-- the heavily rounded corner `k = 2^16` (`k0 = 1`) is covered as well -/
example : Lp2Butter 65536 1 92681 ∧ (92681 : Int) ^ 2 ≤ 3 * (1 * 4294967296) := by
  refine ⟨⟨?_, ?_, ?_, ?_, ?_, ?_, ?_⟩, ?_⟩ <;> norm_num

/-- the top of the documented range, `k = ⌊2^31/√2⌋` -/
example : Lp2Butter 1518500249 536870911 2147483646
    ∧ (2147483646 : Int) ^ 2 ≤ 3 * (536870911 * 4294967296) := by
  refine ⟨⟨?_, ?_, ?_, ?_, ?_, ?_, ?_⟩, ?_⟩ <;> norm_num

/-- the corner that the plain ellipsoid argument cannot reach (`k0 = 1`, `k = 92681`, discriminant `262143`) -/
example : Lp2Butter 92681 1 131070 := by constructor <;> norm_num

/-- `set(0)` then the constant input `2^29` with `k = 2^24`: never panics, and settles to within `1028` LSB -/
example : ∃ N : Nat, ∀ n, N ≤ n → ∃ s0 s1 s0' s1' y,
    lp2Iter .checked 536870912 65536 (-23726566) n (lpSet 0, 0) = .ok (s0, s1, s0 / 4294967296) ∧
    lp2Update .checked s0 s1 536870912 65536 (-23726566) = .ok (s0', s1', y) ∧
    |y - 536870912| ≤ 1028 := by
  have hB : Lp2Butter 16777216 65536 23726566 := by constructor <;> norm_num
  obtain ⟨-, N, hN⟩ := lp2_level_change_pm2p29 .checked (x := 536870912) (xo := 0) hB (by norm_num) (by norm_num)
    (by norm_num) (by norm_num) (lpSet 0, 0) (lp2_reset_settled hB.adm 0 (by decide))
  refine ⟨N, fun n hn => ?_⟩
  obtain ⟨s0, s1, s0', s1', y, e1, e2, -, -, hy⟩ := hN n hn
  exact ⟨s0, s1, s0', s1', y, e1, e2, by omega⟩

/-- `set(2^30)` then the constant input `2^30 − 3·2^28` (`k = 2^24`): full level range, never panics, settles -/
example : ∃ N : Nat, ∀ n, N ≤ n → ∃ s0 s1 s0' s1' y,
    lp2Iter .checked 268435456 65536 (-23726566) n (lpSet 1073741824, 0) = .ok (s0, s1, s0 / 4294967296) ∧
    lp2Update .checked s0 s1 268435456 65536 (-23726566) = .ok (s0', s1', y) ∧
    |y - 268435456| ≤ 1028 := by
  have hB : Lp2Butter 16777216 65536 23726566 := by constructor <;> norm_num
  obtain ⟨-, N, hN⟩ := lp2_level_change_pm2p30_step .checked (x := 268435456) (xo := 1073741824) hB
    (by norm_num) (by norm_num) (by norm_num) (by norm_num) (lpSet 1073741824, 0)
    (lp2_start_reset hB 1073741824 (by decide))
  refine ⟨N, fun n hn => ?_⟩
  obtain ⟨s0, s1, s0', s1', y, e1, e2, -, -, hy⟩ := hN n hn
  exact ⟨s0, s1, s0', s1', y, e1, e2, by omega⟩

/-- the extreme step of the clause: `set(-2^30)` then the constant `2^30` (step `2^31`, the subtraction clips in the
    first update), `k = 2^24`, checked build: never panics and settles to within `1028` LSB -/
example : (∀ n, ∃ s0 s1, lp2Iter .checked 1073741824 65536 (-23726566) n (lpSet (-1073741824), 0)
      = .ok (s0, s1, s0 / 4294967296)) ∧
    ∃ N : Nat, ∀ n, N ≤ n → ∃ s0 s1 s0' s1' y,
      lp2Iter .checked 1073741824 65536 (-23726566) n (lpSet (-1073741824), 0) = .ok (s0, s1, s0 / 4294967296) ∧
      lp2Update .checked s0 s1 1073741824 65536 (-23726566) = .ok (s0', s1', y) ∧
      |y - 1073741824| ≤ 1028 := by
  have hB : Lp2Butter 16777216 65536 23726566 := by constructor <;> norm_num
  obtain ⟨hrun, N, hN⟩ := lp2_level_change_pm2p30 .checked (x := 1073741824) (xo := -1073741824) hB
    (by norm_num) (by norm_num) (by norm_num) (by norm_num) (lpSet (-1073741824), 0)
    (lp2_start2_reset hB (-1073741824) (by decide))
  refine ⟨hrun, N, fun n hn => ?_⟩
  obtain ⟨s0, s1, s0', s1', y, e1, e2, -, -, hy⟩ := hN n hn
  exact ⟨s0, s1, s0', s1', y, e1, e2, by omega⟩

/-- an alternating full-range (within `±2^29`) input after `set(0)`, `k = 2^24`, checked build: never panics -/
example : ∃ st' ys, lp2RunL .checked 65536 (-23726566)
    [536870912, -536870912, 536870912, -536870912, 536870912, 123, -536870912] (lpSet 0, 0) = .ok (st', ys) ∧
    ys.length = 7 := by
  have hB : Lp2Butter 16777216 65536 23726566 := by constructor <;> norm_num
  obtain ⟨st', ys, e, hl, -, -⟩ := lp2_any_input_pm2p29 .checked (xo := 0) hB (by norm_num) (by norm_num)
    (lpSet 0, 0) (lp2_reset_settled hB.adm 0 (by decide))
    [536870912, -536870912, 536870912, -536870912, 536870912, 123, -536870912] (by
      intro x hx; simp only [List.mem_cons, List.mem_nil_iff, or_false] at hx
      rcases hx with rfl | rfl | rfl | rfl | rfl | rfl | rfl <;> norm_num)
  exact ⟨st', ys, e, hl⟩

end Idsp
