import IdspModel.Model.Complex
import IdspModel.Lemmas.Basic
import IdspModel.Lemmas.Eval
import Mathlib.Tactic.Linarith
/-!
Helper lemmas for C11 (lock-in mixer) and the general `Complex<i32>` helpers (`abs_sqr`, `log2`, the three
`mul_scaled` impls, saturating add/sub): products of two `i32` never leave `i64`, the only `i64` overflow of a sum
of two such products is `MIN·MIN + MIN·MIN = 2^63`.
-/
namespace Idsp

theorem lockin_i32 {x : Int} (h : inI 32 x = true) : -2147483648 ≤ x ∧ x ≤ 2147483647 := by
  have := inI_iff.mp h
  simp only [Nat.reduceSub] at this
  omega

theorem lockin_inI32 {x : Int} (h0 : -2147483648 ≤ x) (h1 : x ≤ 2147483647) : inI 32 x = true := by
  rw [inI_iff]; simp only [Nat.reduceSub]; omega

/-- `|x| ≤ A`, `|y| ≤ B` gives `|x·y| ≤ A·B` -/
theorem lockin_mul_abs {x y A B : Int} (hx0 : -A ≤ x) (hx1 : x ≤ A) (hy0 : -B ≤ y) (hy1 : y ≤ B) :
    -(A * B) ≤ x * y ∧ x * y ≤ A * B := by
  constructor
  · by_cases h : 0 ≤ x
    · nlinarith [mul_nonneg h (by linarith : 0 ≤ y + B), mul_nonneg (by linarith : 0 ≤ A - x) (by linarith : 0 ≤ B)]
    · have h' : 0 ≤ -x := by omega
      nlinarith [mul_nonneg h' (by linarith : 0 ≤ B - y), mul_nonneg (by linarith : 0 ≤ A + x) (by linarith : 0 ≤ B)]
  · by_cases h : 0 ≤ x
    · nlinarith [mul_nonneg h (by linarith : 0 ≤ B - y), mul_nonneg (by linarith : 0 ≤ A - x) (by linarith : 0 ≤ B)]
    · have h' : 0 ≤ -x := by omega
      nlinarith [mul_nonneg h' (by linarith : 0 ≤ y + B), mul_nonneg (by linarith : 0 ≤ A + x) (by linarith : 0 ≤ B)]

/-- the product of two `i32` values: it lies in `[-(2^62 - 2^31), 2^62]`, and reaches `2^62` only for `MIN·MIN` -/
theorem lockin_mul_i32 {x y : Int} (hx : inI 32 x = true) (hy : inI 32 y = true) :
    -4611686016279904256 ≤ x * y ∧ x * y ≤ 4611686018427387904 ∧
    ((x ≠ -2147483648 ∨ y ≠ -2147483648) → x * y ≤ 4611686016279904256) := by
  have ⟨x0, x1⟩ := lockin_i32 hx
  have ⟨y0, y1⟩ := lockin_i32 hy
  refine ⟨?_, ?_, ?_⟩
  · by_cases h : 0 ≤ x
    · nlinarith [mul_nonneg h (by linarith : 0 ≤ y + 2147483648)]
    · have h' : 0 ≤ -x := by omega
      nlinarith [mul_nonneg h' (by linarith : 0 ≤ 2147483647 - y)]
  · have := (lockin_mul_abs (A := 2147483648) (B := 2147483648) (x := x) (y := y)
      (by omega) (by omega) (by omega) (by omega)).2
    omega
  · intro hne
    by_cases h : 0 ≤ x
    · nlinarith [mul_nonneg h (by linarith : 0 ≤ 2147483647 - y)]
    · have h' : 0 ≤ -x := by omega
      by_cases hy' : 0 ≤ y
      · nlinarith [mul_nonneg h' hy']
      · rcases hne with hne | hne
        · have hx2 : 0 ≤ 2147483647 + x := by omega
          nlinarith [mul_nonneg hx2 (by linarith : 0 ≤ -y), mul_nonneg (by linarith : 0 ≤ (2147483647 : Int))
            (by linarith : 0 ≤ 2147483648 + y)]
        · have hy2 : 0 ≤ 2147483647 + y := by omega
          nlinarith [mul_nonneg hy2 h', mul_nonneg (by linarith : 0 ≤ (2147483647 : Int))
            (by linarith : 0 ≤ 2147483648 + x)]

/-- a square of an `i32` value lies in `[0, 2^62]` and is `2^62` only for `MIN` -/
theorem lockin_sq_i32 {x : Int} (hx : inI 32 x = true) :
    0 ≤ x * x ∧ x * x ≤ 4611686018427387904 ∧ (x ≠ -2147483648 → x * x ≤ 4611686016279904256) := by
  have h := lockin_mul_i32 hx hx
  exact ⟨mul_self_nonneg x, h.2.1, fun hne => h.2.2 (Or.inl hne)⟩

/-! ## `abs_sqr`, `log2` -/

/-- the sum of squares of a pair of `i32` other than `(MIN, MIN)` fits `i64` (it is below `2^63`) -/
theorem lockin_norm_i32 {re im : Int} (hre : inI 32 re = true) (him : inI 32 im = true)
    (h : ¬ (re = -2147483648 ∧ im = -2147483648)) :
    0 ≤ re * re + im * im ∧ re * re + im * im < 9223372036854775808 := by
  have a := lockin_sq_i32 hre
  have b := lockin_sq_i32 him
  by_cases h1 : re = -2147483648
  · have := b.2.2 (fun h2 => h ⟨h1, h2⟩); omega
  · have := a.2.2 h1; omega

theorem absSqr_eq (m : Mode) {re im : Int} (hre : inI 32 re = true) (him : inI 32 im = true)
    (h : ¬ (re = -2147483648 ∧ im = -2147483648)) :
    absSqr m re im = .ok ((re * re + im * im) / 2 ^ 31) := by
  have a := lockin_sq_i32 hre
  have b := lockin_sq_i32 him
  have n := lockin_norm_i32 hre him h
  unfold absSqr
  rw [arithI64_ok (by omega) (by omega), bind_ok', arithI64_ok (by omega) (by omega), bind_ok',
    arithI64_ok (by omega) (by omega), bind_ok']
  simp only [shr, wrapU]
  congr 1
  omega

theorem clog2_eq (m : Mode) {re im : Int} (hre : inI 32 re = true) (him : inI 32 im = true)
    (h : ¬ (re = -2147483648 ∧ im = -2147483648)) :
    clog2 m re im = .ok (-(clz 64 (re * re + im * im) : Int)) ∧
      1 ≤ clz 64 (re * re + im * im) ∧ clz 64 (re * re + im * im) ≤ 64 := by
  have a := lockin_sq_i32 hre
  have b := lockin_sq_i32 him
  have n := lockin_norm_i32 hre him h
  have hw : wrapU 64 (re * re + im * im) = re * re + im * im := by
    simp only [wrapU]; omega
  have hc : 1 ≤ clz 64 (re * re + im * im) ∧ clz 64 (re * re + im * im) ≤ 64 := by
    unfold clz
    generalize re * re + im * im = s at n
    by_cases hs : s ≤ 0
    · have e : s.toNat = 0 := by omega
      simp [hs, e]
    · simp only [hs, if_false]
      have hne : s.toNat ≠ 0 := by omega
      have : s.toNat.log2 < 63 := (Nat.log2_lt hne).mpr (by omega)
      omega
  refine ⟨?_, hc⟩
  unfold clog2
  rw [arithI64_ok (by omega) (by omega), bind_ok', arithI64_ok (by omega) (by omega), bind_ok',
    arithI64_ok (by omega) (by omega), bind_ok', hw]
  exact arithI32_ok (by omega) (by omega)

/-- `clz 64 s = 64 - k` exactly when `2^(k-1) ≤ s < 2^k` (for `1 ≤ k`) -/
theorem lockin_clz64_eq {s : Int} {k : Nat} (hk : 1 ≤ k) (hk' : k ≤ 64) (h0 : 2 ^ (k - 1) ≤ s) (h1 : s < 2 ^ k) :
    clz 64 s = 64 - k := by
  have hp := two_pow_pos (k - 1)
  have hs : ¬ s ≤ 0 := by omega
  unfold clz
  simp only [hs, if_false]
  have hne : s.toNat ≠ 0 := by omega
  have e : s.toNat.log2 = k - 1 := by
    rw [Nat.log2_eq_iff hne]
    have hk2 : k - 1 + 1 = k := by omega
    rw [hk2]
    constructor
    · have : ((2 ^ (k - 1) : Nat) : Int) ≤ s := by push_cast; exact h0
      omega
    · have : s < ((2 ^ k : Nat) : Int) := by push_cast; exact h1
      omega
  rw [e]; omega

/-! ## `mul_scaled` -/

theorem cmulScaledI32_eq (m : Mode) {re im o : Int} (hre : inI 32 re = true) (him : inI 32 im = true)
    (ho : inI 32 o = true) :
    cmulScaledI32 m re im o = .ok (wrapI 32 (o * re / 2 ^ 31), wrapI 32 (o * im / 2 ^ 31)) := by
  have a := lockin_mul_i32 ho hre
  have b := lockin_mul_i32 ho him
  unfold cmulScaledI32
  rw [arithI64_ok (by omega) (by omega), bind_ok', arithI64_ok (by omega) (by omega), bind_ok']
  rfl

/-- the quotient fits `i32` unless both factors are `MIN` -/
theorem lockin_scaled_fits {o x : Int} (ho : inI 32 o = true) (hx : inI 32 x = true)
    (h : x ≠ -2147483648 ∨ o ≠ -2147483648) :
    wrapI 32 (o * x / 2 ^ 31) = o * x / 2 ^ 31 ∧ -2147483647 ≤ o * x / 2 ^ 31 ∧ o * x / 2 ^ 31 ≤ 2147483647 := by
  have a := lockin_mul_i32 ho hx
  have := a.2.2 (by tauto)
  have h0 : -2147483647 ≤ o * x / 2 ^ 31 := by omega
  have h1 : o * x / 2 ^ 31 ≤ 2147483647 := by omega
  exact ⟨wrapI32_id (by omega) (by omega), h0, h1⟩

/-- scaling by a factor of magnitude at most `M ≤ 2^31` never increases the magnitude beyond that of the other
    operand (floor division: `-|o| ≤ result ≤ |o|`) -/
theorem lockin_scaled_le {o x : Int} (ho : inI 32 o = true) (hx0 : -2147483648 ≤ x) (hx1 : x ≤ 2147483648) :
    -(if 0 ≤ o then o else -o) ≤ o * x / 2 ^ 31 ∧ o * x / 2 ^ 31 ≤ (if 0 ≤ o then o else -o) := by
  have ⟨o0, o1⟩ := lockin_i32 ho
  by_cases h : 0 ≤ o
  · simp only [h, if_true]
    have a1 : o * x ≤ o * 2147483648 := Int.mul_le_mul_of_nonneg_left hx1 h
    have a2 : o * (-2147483648) ≤ o * x := Int.mul_le_mul_of_nonneg_left hx0 h
    omega
  · simp only [h, if_false]
    have h' : o ≤ 0 := by omega
    have a1 : o * 2147483648 ≤ o * x := Int.mul_le_mul_of_nonpos_left h' hx1
    have a2 : o * x ≤ o * (-2147483648) := Int.mul_le_mul_of_nonpos_left h' hx0
    omega

theorem cmulScaledI16_eq (m : Mode) {re im o : Int} (hre : inI 32 re = true) (him : inI 32 im = true)
    (ho0 : -32768 ≤ o) (ho1 : o ≤ 32767) :
    cmulScaledI16 m re im o = .ok ((o * (re / 2 ^ 16) + 2 ^ 14) / 2 ^ 15, (o * (im / 2 ^ 16) + 2 ^ 14) / 2 ^ 15) ∧
    (-32767 ≤ (o * (re / 2 ^ 16) + 2 ^ 14) / 2 ^ 15 ∧ (o * (re / 2 ^ 16) + 2 ^ 14) / 2 ^ 15 ≤ 32768) ∧
    (-32767 ≤ (o * (im / 2 ^ 16) + 2 ^ 14) / 2 ^ 15 ∧ (o * (im / 2 ^ 16) + 2 ^ 14) / 2 ^ 15 ≤ 32768) := by
  have ⟨r0, r1⟩ := lockin_i32 hre
  have ⟨i0, i1⟩ := lockin_i32 him
  have key : ∀ z : Int, -32768 ≤ z → z ≤ 32767 → -1073709056 ≤ o * z ∧ o * z ≤ 1073741824 := by
    intro z z0 z1
    constructor
    · by_cases h : 0 ≤ o
      · nlinarith [mul_nonneg h (by linarith : 0 ≤ z + 32768)]
      · have h' : 0 ≤ -o := by omega
        nlinarith [mul_nonneg h' (by linarith : 0 ≤ 32767 - z)]
    · have := (lockin_mul_abs (A := 32768) (B := 32768) (x := o) (y := z) (by omega) (by omega) (by omega)
        (by omega)).2
      omega
  have a := key (re / 2 ^ 16) (by omega) (by omega)
  have b := key (im / 2 ^ 16) (by omega) (by omega)
  refine ⟨?_, by omega, by omega⟩
  unfold cmulScaledI16
  simp only [shr]
  rw [arithI32_ok (by omega) (by omega), bind_ok', arithI32_ok (by omega) (by omega), bind_ok',
    arithI32_ok (by omega) (by omega), bind_ok', arithI32_ok (by omega) (by omega), bind_ok']

theorem cmulScaledC_eq (m : Mode) {a b c d : Int} (ha : inI 32 a = true) (hb : inI 32 b = true)
    (hc : inI 32 c = true) (hd : inI 32 d = true)
    (h : ¬ (a = -2147483648 ∧ b = -2147483648 ∧ c = -2147483648 ∧ d = -2147483648)) :
    cmulScaledC m a b c d =
      .ok (wrapI 32 ((a * c - b * d) / 2 ^ 31), wrapI 32 ((b * c + a * d) / 2 ^ 31)) := by
  have ac := lockin_mul_i32 ha hc
  have bd := lockin_mul_i32 hb hd
  have bc := lockin_mul_i32 hb hc
  have ad := lockin_mul_i32 ha hd
  have hs : b * c + a * d < 9223372036854775808 := by
    by_cases h1 : b = -2147483648 ∧ c = -2147483648
    · have : a ≠ -2147483648 ∨ d ≠ -2147483648 := by
        by_contra hh
        have : a = -2147483648 ∧ d = -2147483648 := by omega
        exact h ⟨this.1, h1.1, h1.2, this.2⟩
      have := ad.2.2 this; omega
    · have : b ≠ -2147483648 ∨ c ≠ -2147483648 := by omega
      have := bc.2.2 this; omega
  unfold cmulScaledC
  rw [arithI64_ok (by omega) (by omega), bind_ok', arithI64_ok (by omega) (by omega), bind_ok',
    arithI64_ok (by omega) (by omega), bind_ok', arithI64_ok (by omega) (by omega), bind_ok',
    arithI64_ok (by omega) (by omega), bind_ok', arithI64_ok (by omega) (by omega), bind_ok']
  rfl

/-! ## saturating add / sub -/

theorem lockin_satI32 (z : Int) :
    -2147483648 ≤ satI 32 z ∧ satI 32 z ≤ 2147483647 ∧
      (-2147483648 ≤ z → z ≤ 2147483647 → satI 32 z = z) ∧
      (z < -2147483648 → satI 32 z = -2147483648) ∧ (2147483647 < z → satI 32 z = 2147483647) := by
  unfold satI minI maxI
  simp only [Nat.reduceSub]
  refine ⟨?_, ?_, ?_, ?_, ?_⟩
  · split <;> (try split) <;> omega
  · split <;> (try split) <;> omega
  · intro h0 h1; split <;> (try split) <;> omega
  · intro h0; split <;> (try split) <;> omega
  · intro h0; split <;> (try split) <;> omega

end Idsp
