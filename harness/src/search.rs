//! Native oracle exploration: evaluates the *property itself* on the real implementation.
//! Output: JSON lines. `{"kind":"violation","class":..,"clause":..,"input":..,"expected":..,"observed":..}`
//! and one `{"kind":"summary",...}`.
use crate::gen::guard;
use crate::rng::Rng;
use idsp::*;
use std::collections::BTreeMap;

pub struct Report {
    pub prop: String,
    pub evaluations: u64,
    pub distinct: u64,
    pub clauses: BTreeMap<String, u64>,
    pub samples: Vec<String>,
    pub stats: BTreeMap<String, f64>,
    pub nviol: u64,
    pub per_class: BTreeMap<String, u64>,
    pub only_panics: bool,
}

pub fn jstr(s: &str) -> String {
    let mut o = String::from("\"");
    for c in s.chars() {
        match c {
            '"' => o.push_str("\\\""),
            '\\' => o.push_str("\\\\"),
            '\n' => o.push_str("\\n"),
            c => o.push(c),
        }
    }
    o.push('"');
    o
}

impl Report {
    pub fn new(prop: &str) -> Self {
        Report {
            prop: prop.into(),
            evaluations: 0,
            distinct: 0,
            clauses: BTreeMap::new(),
            samples: vec![],
            stats: BTreeMap::new(),
            nviol: 0,
            per_class: BTreeMap::new(),
            only_panics: false,
        }
    }
    /// count `n` evaluated cases for a clause
    pub fn count(&mut self, clause: &str, n: u64) {
        self.evaluations += n;
        *self.clauses.entry(clause.into()).or_insert(0) += n;
    }
    pub fn sample(&mut self, s: String) {
        if self.samples.len() < 6 {
            self.samples.push(s);
        }
    }
    pub fn stat_max(&mut self, key: &str, v: f64) {
        let e = self.stats.entry(format!("max_{}", key)).or_insert(f64::MIN);
        if v > *e {
            *e = v;
        }
    }
    pub fn violation(&mut self, class: &str, clause: &str, input: &str, expected: &str, observed: &str) {
        if self.only_panics && !(class.contains("panic") || observed.contains("PANIC") || class == "coeff-slope-radicand-negative" || class == "coeff-nonfinite"
            || (class == "coeff-alpha-exceeds-f64-precision" && (observed.contains("inf") || observed.contains("NaN")))) {
            return; // C20 is about panics (and non-finite builder output) only; value clauses belong to the other properties
        }
        self.nviol += 1;
        // print at most 40 records per class, so that a new class is never crowded out by a known one
        let k = self.per_class.entry(class.to_string()).or_insert(0);
        *k += 1;
        if *k <= 40 {
            println!(
                "{{\"kind\":\"violation\",\"class\":{},\"clause\":{},\"input\":{},\"expected\":{},\"observed\":{}}}",
                jstr(class),
                jstr(clause),
                jstr(input),
                jstr(expected),
                jstr(observed)
            );
        }
    }
    pub fn finish(&self) {
        let cl: Vec<String> = self.clauses.iter().map(|(k, v)| format!("{}:{}", jstr(k), v)).collect();
        let sm: Vec<String> = self.samples.iter().map(|s| jstr(s)).collect();
        let st: Vec<String> = self.stats.iter().map(|(k, v)| format!(",{}:{:e}", jstr(k), v)).collect();
        println!(
            "{{\"kind\":\"summary\",\"property\":{},\"evaluations\":{},\"distinct_nontrivial\":{},\"violations\":{},\"clauses\":{{{}}},\"samples\":[{}]{}}}",
            jstr(&self.prop),
            self.evaluations,
            self.distinct,
            self.nviol,
            cl.join(","),
            sm.join(","),
            st.join("")
        );
    }
}

/// hint lines are correspondence request lines (`<mode> <op> <args> => <res>`) on which model and code disagreed
pub fn read_hints(path: Option<&str>) -> Vec<Vec<String>> {
    let mut v = vec![];
    if let Some(p) = path {
        if let Ok(s) = std::fs::read_to_string(p) {
            for l in s.lines() {
                let lhs = l.split(" => ").next().unwrap_or("");
                let toks: Vec<String> = lhs.split_whitespace().skip(1).map(|t| t.to_string()).collect();
                if !toks.is_empty() {
                    v.push(toks);
                }
            }
        }
    }
    v
}

pub fn run(prop: &str, tier: &str, seed: u64, hints: Option<&str>) {
    let thorough = tier == "thorough";
    let hints = read_hints(hints);
    let mut rng = Rng::new(seed ^ 0x5ea7c4);
    let mut rep = Report::new(prop);
    // safety net: an oracle calls the crate outside `guard` only where no panic is expected on any input; if such a
    // call panics after a change to the crate, report it as a violation (with the panic's message and location)
    // instead of dying with exit status 101
    let escaped = std::panic::catch_unwind(std::panic::AssertUnwindSafe(|| {
    match prop {
        "C17" => c17(&mut rng, thorough, &hints, &mut rep),
        "C01" => c01(&mut rng, thorough, &hints, &mut rep),
        "C07" => c07(&mut rng, thorough, &hints, &mut rep),
        "C08" => c08(&mut rng, thorough, &hints, &mut rep),
        "C09" => c09(&mut rng, thorough, &hints, &mut rep),
        "C11" => c11(&mut rng, thorough, &hints, &mut rep),
        "C20" => c20(&mut rng, thorough, &hints, &mut rep),
        "C02" => c02(&mut rng, thorough, &hints, &mut rep),
        "C19" => c19(&mut rng, thorough, &hints, &mut rep),
        "C14" => c14(&mut rng, thorough, &hints, &mut rep),
        "C15" => c15(&mut rng, thorough, &hints, &mut rep),
        "C12" => c12(&mut rng, thorough, &hints, &mut rep),
        "C13" => c13(&mut rng, thorough, &hints, &mut rep),
        "C05" => c05(&mut rng, thorough, &hints, &mut rep),
        "C03" => c03(&mut rng, thorough, &hints, &mut rep),
        "C04" => c04(&mut rng, thorough, &hints, &mut rep),
        "C18" => c18(&mut rng, thorough, &hints, &mut rep),
        "C10" => c10(&mut rng, thorough, &hints, &mut rep),
        "C16" => c16(&mut rng, thorough, &hints, &mut rep),
        "C06" => c06(&mut rng, thorough, &hints, &mut rep),
        _ => {}
    }
    })).is_err();
    if escaped {
        let what = crate::LAST_PANIC.lock().map(|g| g.clone()).unwrap_or_default();
        rep.violation("escaped-panic", "no public function panics inside its documented domain (the call is made without a guard because it cannot panic on the unchanged code)", &format!("oracle {} seed {} tier {}: {}", prop, seed, tier, what), "no panic", "PANIC");
    }
    rep.finish();
}

// ------------------------------------------------------------------ C17
fn osub_check<T>(y: T, x: T, bits: u32, rep: &mut Report)
where
    T: Copy + Into<i128> + std::fmt::Display + num_traits_shim::WSub,
{
    let (d, w) = T::osub(y, x);
    let (yi, xi, di): (i128, i128, i128) = (y.into(), x.into(), d.into());
    let ok = (-1..=1).contains(&w) && yi - xi == di - (w as i128) * (1i128 << bits);
    if !ok {
        rep.violation(
            "osub",
            "y - x = d - w*2^bits, w in {-1,0,1}",
            &format!("overflowing_sub::<i{}>({}, {})", bits, y, x),
            "exact identity",
            &format!("({}, {})", d, w),
        );
    }
}

pub mod num_traits_shim {
    pub trait WSub: Sized {
        fn osub(y: Self, x: Self) -> (Self, i32);
    }
    macro_rules! imp {
        ($($t:ty)+) => {$(impl WSub for $t { fn osub(y: Self, x: Self) -> (Self, i32) { idsp::overflowing_sub(y, x) } })+};
    }
    imp!(i8 i16 i32 i64);
}

fn c17(rng: &mut Rng, thorough: bool, hints: &[Vec<String>], rep: &mut Report) {
    // overflowing_sub: i8 exhaustive
    for y in i8::MIN..=i8::MAX {
        for x in i8::MIN..=i8::MAX {
            osub_check(y, x, 8, rep);
        }
    }
    rep.count("osub-i8-exhaustive", 1 << 16);
    rep.distinct += 1 << 16;
    // i16: exhaustive in thorough, stratified in quick
    if thorough {
        for y in i16::MIN..=i16::MAX {
            for x in i16::MIN..=i16::MAX {
                osub_check(y, x, 16, rep);
            }
        }
        rep.count("osub-i16-exhaustive", 1u64 << 32);
        rep.distinct += 1u64 << 32;
    } else {
        for _ in 0..(1 << 20) {
            osub_check(rng.i16(), rng.i16(), 16, rep);
        }
        rep.count("osub-i16-sampled", 1 << 20);
    }
    let n = if thorough { 1 << 24 } else { 1 << 20 };
    for _ in 0..n {
        osub_check(rng.i32(), rng.i32(), 32, rep);
        osub_check(rng.i64(), rng.i64(), 64, rep);
    }
    rep.count("osub-i32-i64-lattice-random", 2 * n);
    rep.sample(format!("overflowing_sub(i32::MIN, 1) = {:?}", overflowing_sub(i32::MIN, 1)));
    for h in hints {
        if h[0] == "osub" && h.len() == 4 {
            let (y, x): (i128, i128) = (h[2].parse().unwrap_or(0), h[3].parse().unwrap_or(0));
            match h[1].as_str() {
                "8" => osub_check(y as i8, x as i8, 8, rep),
                "16" => osub_check(y as i16, x as i16, 16, rep),
                "32" => osub_check(y as i32, x as i32, 32, rep),
                "64" => osub_check(y as i64, x as i64, 64, rep),
                _ => {}
            }
        }
    }
    // Unwrapper: sequences
    let nseq = if thorough { 20000 } else { 2000 };
    for s in 0..nseq {
        let len = 1 + rng.below(200) as usize;
        // Unwrapper<i64> with i32 samples
        let mut u = Unwrapper::<i64>::default();
        let mut sum: i128 = 0;
        let mut prev: i32 = 0;
        let mut x: i32 = 0;
        let mut hist = vec![];
        for _ in 0..len {
            x = if rng.chance(3, 4) { x.wrapping_add(rng.i32() >> rng.below(6)) } else { rng.i32() };
            hist.push(x);
            let dx: i32 = u.update(x);
            sum += dx as i128;
            let ok = dx == x.wrapping_sub(prev) && u.y() as i128 == sum && u.y() as i32 == x && u.phase::<i32>() == x;
            if !ok {
                rep.violation("unwrapper", "increment / running sum / tracks sample", &format!("Unwrapper<i64> samples {:?}", hist), "dx = x - x_prev (wrapped), y = sum dx, y as i32 = x", &format!("dx={} y={}", dx, u.y()));
                break;
            }
            prev = x;
        }
        // Unwrapper<i32> with i16 samples (the wide type wraps too: compare modulo 2^32)
        let mut u = Unwrapper::<i32>::default();
        let mut sum: i128 = 0;
        let mut prev: i16 = 0;
        let mut x: i16 = 0;
        let mut hist = vec![];
        for _ in 0..len {
            x = if rng.chance(3, 4) { x.wrapping_add(rng.i16() >> rng.below(4)) } else { rng.i16() };
            hist.push(x);
            let dx: i16 = u.update(x);
            sum += dx as i128;
            let ok = dx == x.wrapping_sub(prev) && u.y() == sum as i32 && u.y() as i16 == x;
            if !ok {
                rep.violation("unwrapper", "increment / running sum / tracks sample", &format!("Unwrapper<i32> samples {:?}", hist), "dx = x - x_prev (wrapped), y = sum dx mod 2^32, y as i16 = x", &format!("dx={} y={}", dx, u.y()));
                break;
            }
            prev = x;
        }
        rep.count("unwrapper-sequences", 2 * len as u64);
        rep.distinct += 2;
        if s == 0 {
            rep.sample(format!("Unwrapper<i32> i16 samples {:?} -> y={}", &hist[..hist.len().min(6)], u.y()));
        }
    }
    // injected states at the boundary of the wide type: the accumulator itself wraps, nothing may panic
    for i in 0..20000 {
        let y0 = if i % 2 == 0 { i32::MAX - rng.below(70000) as i32 } else { i32::MIN + rng.below(70000) as i32 };
        let x: i16 = rng.i16();
        let mut u = Unwrapper::<i32>::verif_from_raw(y0);
        match guard(|| { let dx: i16 = u.update(x); (dx, u.y()) }) {
            None => rep.violation("unwrapper", "single step from a state near the wide type's boundary (wraps, no panic)", &format!("Unwrapper<i32>{{y:{}}}.update({}i16)", y0, x), "wrapped increment, y + dx (mod 2^32), tracks sample", "PANIC"),
            Some((dx, y)) => {
                if dx != x.wrapping_sub(y0 as i16) || y != y0.wrapping_add(dx as i32) || y as i16 != x {
                    rep.violation("unwrapper", "single step from a state near the wide type's boundary", &format!("Unwrapper<i32>{{y:{}}}.update({}i16)", y0, x), "wrapped increment, y + dx (mod 2^32), tracks sample", &format!("dx={} y={}", dx, y));
                }
            }
        }
        let y0 = if i % 2 == 0 { i64::MAX - rng.below(1 << 33) as i64 } else { i64::MIN + rng.below(1 << 33) as i64 };
        let x: i32 = rng.i32();
        let mut u = Unwrapper::<i64>::verif_from_raw(y0);
        match guard(|| { let dx: i32 = u.update(x); (dx, u.y()) }) {
            None => rep.violation("unwrapper", "single step from a state near the wide type's boundary (wraps, no panic)", &format!("Unwrapper<i64>{{y:{}}}.update({}i32)", y0, x), "wrapped increment, y + dx (mod 2^64), tracks sample", "PANIC"),
            Some((dx, y)) => {
                if dx != x.wrapping_sub(y0 as i32) || y != y0.wrapping_add(dx as i64) || y as i32 != x {
                    rep.violation("unwrapper", "single step from a state near the wide type's boundary", &format!("Unwrapper<i64>{{y:{}}}.update({}i32)", y0, x), "wrapped increment, y + dx (mod 2^64), tracks sample", &format!("dx={} y={}", dx, y));
                }
            }
        }
    }
    for _ in 0..20000 {
        // wide accumulator i128 with i64 samples, and narrow samples on i64: phase() must return the latest sample
        let mut u = Unwrapper::<i128>::default();
        let mut v = Unwrapper::<i64>::default();
        let (mut sum, mut sumv) = (0i128, 0i128);
        for _ in 0..8 {
            let x: i64 = rng.i64();
            let dx: i64 = u.update(x);
            sum += dx as i128;
            let x8: i8 = rng.i8();
            let d8: i8 = v.update(x8);
            sumv += d8 as i128;
            if u.y() != sum || u.phase::<i64>() != x || u.y() as i64 != x || v.y() as i128 != sumv || v.phase::<i8>() != x8 {
                rep.violation("unwrapper", "output reduced to the sample width equals the latest sample (other instantiations, phase())", &format!("Unwrapper<i128>/i64 sample {} ; Unwrapper<i64>/i8 sample {}", x, x8), "phase() = latest sample, y = running sum", &format!("phase={} y={} ; phase={} y={}", u.phase::<i64>(), u.y(), v.phase::<i8>(), v.y()));
                break;
            }
        }
    }
    rep.count("unwrapper-other-instantiations", 20000 * 16);
    rep.count("unwrapper-boundary-states", 40000);
    // injected-state hints
    for h in hints {
        if h[0] == "unwrap" && h.len() == 5 {
            let (y, x): (i128, i128) = (h[3].parse().unwrap_or(0), h[4].parse().unwrap_or(0));
            if h[1] == "64" {
                let mut u = Unwrapper::<i64>::verif_from_raw(y as i64);
                let dx: i32 = u.update(x as i32);
                let ok = dx == (x as i32).wrapping_sub(y as i32) && u.y() == (y as i64).wrapping_add(dx as i64) && u.y() as i32 == x as i32;
                if !ok {
                    rep.violation("unwrapper", "single step from injected state", &format!("Unwrapper<i64>{{y:{}}}.update({})", y, x), "wrapped increment, sum, tracking", &format!("dx={} y={}", dx, u.y()));
                }
            } else {
                let mut u = Unwrapper::<i32>::verif_from_raw(y as i32);
                let dx: i16 = u.update(x as i16);
                let ok = dx == (x as i16).wrapping_sub(y as i16) && u.y() == (y as i32).wrapping_add(dx as i32) && u.y() as i16 == x as i16;
                if !ok {
                    rep.violation("unwrapper", "single step from injected state", &format!("Unwrapper<i32>{{y:{}}}.update({})", y, x), "wrapped increment, sum, tracking", &format!("dx={} y={}", dx, u.y()));
                }
            }
        }
    }
    // Accu
    let nacc = if thorough { 200000 } else { 20000 };
    for _ in 0..nacc {
        let (s, st) = (rng.i32(), rng.i32());
        let n = 1 + rng.below(100) as usize;
        let Some(got) = guard(|| Accu::new(s, st).take(n).collect::<Vec<i32>>()) else {
            rep.violation("accu", "n-th item = start + n*step mod 2^32; never ends (wrapping, no panic)", &format!("Accu::new({}, {}).take({})", s, st, n), "arithmetic progression", "PANIC");
            continue;
        };
        let okl = got.len() == n;
        let okv = got.iter().enumerate().all(|(i, v)| *v == (s as i128 + i as i128 * st as i128) as i32);
        if !(okl && okv) {
            rep.violation("accu", "n-th item = start + n*step mod 2^32; never ends", &format!("Accu::new({}, {}).take({})", s, st, n), "arithmetic progression", &format!("{:?}", &got[..got.len().min(8)]));
        }
        let (s, st) = (rng.i8(), rng.i8());
        let got: Vec<i8> = guard(|| Accu::new(s, st).take(300).collect()).unwrap_or_default();
        if !(got.len() == 300 && got.iter().enumerate().all(|(i, v)| *v == (s as i128 + i as i128 * st as i128) as i8)) {
            rep.violation("accu", "n-th item = start + n*step mod 2^8; never ends", &format!("Accu::<i8>::new({}, {})", s, st), "arithmetic progression", &format!("{:?}", &got[..got.len().min(8)]));
        }
    }
    // positional access through the Iterator adaptors must see the same progression (n-th item = start + n*step)
    for _ in 0..(nacc / 10) {
        let (s, st) = (rng.i32(), rng.i32());
        let (a, b, c) = (rng.below(70) as usize, 1 + rng.below(5) as usize, 1 + rng.below(4) as usize);
        let item = |n: usize| (s as i128 + n as i128 * st as i128) as i32;
        let got = guard(|| {
            let mut it = Accu::new(s, st);
            let x = it.nth(a).unwrap();
            let y = it.next().unwrap();
            let sk: Vec<i32> = Accu::new(s, st).skip(a).take(b).collect();
            let sb: Vec<i32> = Accu::new(s, st).step_by(c).take(b).collect();
            (x, y, sk, sb)
        });
        let want = (item(a), item(a + 1), (0..b).map(|j| item(a + j)).collect::<Vec<_>>(), (0..b).map(|j| item(j * c)).collect::<Vec<_>>());
        if got.as_ref() != Some(&want) {
            rep.violation("accu", "n-th item = start + n*step mod 2^32 (through nth / skip / step_by)", &format!("Accu::new({}, {}): nth({}), next, skip({}).take({}), step_by({}).take({})", s, st, a, a, b, c, b), &format!("{:?}", want), &format!("{:?}", got));
        }
    }
    rep.count("accu-positional", nacc / 10);
    rep.count("accu", 2 * nacc);
    rep.distinct += 2 * nacc;
    let _ = guard(|| ());
}

// ------------------------------------------------------------------ C18
fn satscale_ref(lo: i32, hi: i32, shift: u32) -> Option<i64> {
    // exact clause only
    let b = 1i64 << (shift - 1);
    if (hi as i64).abs() < b {
        Some((((hi as i128) << 32) + lo as i128).div_euclid(1i128 << shift) as i64)
    } else {
        None
    }
}

fn c18_point(lo: i32, hi: i32, shift: u32, rep: &mut Report) -> Option<i32> {
    let r = guard(|| saturating_scale(lo, hi, shift));
    let inp = format!("saturating_scale({}, {}, {})", lo, hi, shift);
    match r {
        None => {
            rep.violation("satscale-panic", "never panics for a documented shift", &inp, "a value", "PANIC");
            None
        }
        Some(v) => {
            if let Some(e) = satscale_ref(lo, hi, shift) {
                if v as i64 != e {
                    rep.violation("satscale-exact", "exact inside range: floor((hi*2^32+lo)/2^shift)", &inp, &e.to_string(), &v.to_string());
                }
            } else {
                // saturated: independent of lo, sign of hi
                let v0 = guard(|| saturating_scale(0, hi, shift));
                if v0 != Some(v) {
                    rep.violation("satscale-const", "saturation value independent of lo", &inp, &format!("{:?}", v0), &v.to_string());
                }
                let sign_ok = if hi < 0 { v < 0 } else { v > 0 };
                if !sign_ok {
                    let class = if shift == 32 && hi == i32::MIN && v == 0 { "satscale-shift32-min-zero" } else { "satscale-sign" };
                    rep.violation(class, "saturation value carries the sign of hi", &inp, "same sign as hi", &v.to_string());
                }
            }
            Some(v)
        }
    }
}

fn c18_mono(lo: i32, hi: i32, lo2: i32, hi2: i32, shift: u32, rep: &mut Report) {
    // (hi, lo) <= (hi2, lo2) lexicographically
    let a = c18_point(lo, hi, shift, rep);
    let b = c18_point(lo2, hi2, shift, rep);
    if let (Some(a), Some(b)) = (a, b) {
        if a > b {
            let bnd = 1i64 << (shift - 1);
            let sat_a = (hi as i64).abs() >= bnd;
            let sat_b = (hi2 as i64).abs() >= bnd;
            let class = if shift >= 17 && (sat_a != sat_b) { "satscale-nonmonotone-clip-boundary-shift>=17" } else { "satscale-monotone" };
            rep.violation(class, "non-decreasing in (hi, lo) lexicographically",
                &format!("saturating_scale({}, {}, {}) then ({}, {}, {})", lo, hi, shift, lo2, hi2, shift),
                "first <= second", &format!("{} > {}", a, b));
        }
    }
}

fn c18(rng: &mut Rng, thorough: bool, hints: &[Vec<String>], rep: &mut Report) {
    let reps = if thorough { 4000 } else { 300 };
    for shift in 1..=32u32 {
        let b = 1i64 << (shift - 1);
        let mut his: Vec<i32> = vec![i32::MIN, i32::MIN + 1, -1, 0, 1, i32::MAX - 1, i32::MAX];
        for d in -3..=3i64 {
            for s in [b + d, -b + d] {
                if s >= i32::MIN as i64 && s <= i32::MAX as i64 {
                    his.push(s as i32);
                }
            }
        }
        for _ in 0..reps {
            his.push(rng.i32());
            his.push(rng.range(-b.min(1 << 31), b.min((1 << 31) - 1)) as i32);
        }
        let n0 = rep.evaluations;
        for &hi in &his {
            for lo in [i32::MIN, i32::MIN + 1, -1, 0, 1, i32::MAX - 1, i32::MAX, rng.i32(), rng.next() as i32] {
                c18_point(lo, hi, shift, rep);
                rep.count("exact/saturation", 1);
                // adjacent pairs
                if lo < i32::MAX {
                    c18_mono(lo, hi, lo + 1, hi, shift, rep);
                    rep.count("monotone-adjacent-lo", 1);
                }
            }
            if hi < i32::MAX {
                c18_mono(i32::MAX, hi, i32::MIN, hi + 1, shift, rep);
                let (l1, l2) = (rng.i32(), rng.i32());
                c18_mono(l1, hi, l2, hi + 1, shift, rep);
                rep.count("monotone-adjacent-hi", 2);
            }
        }
        rep.distinct += rep.evaluations - n0;
    }
    rep.sample(format!("saturating_scale(0x12345600, 0x7f, 8) = {:#x}", saturating_scale(0x1234_5600, 0x7f, 8)));
    for h in hints {
        if h[0] == "satscale" && h.len() == 4 {
            let (lo, hi, sh): (i64, i64, i64) = (h[1].parse().unwrap_or(0), h[2].parse().unwrap_or(0), h[3].parse().unwrap_or(1));
            if (1..=32).contains(&sh) {
                c18_point(lo as i32, hi as i32, sh as u32, rep);
                if (hi as i32) < i32::MAX {
                    c18_mono(i32::MAX, hi as i32, i32::MIN, hi as i32 + 1, sh as u32, rep);
                }
                if (hi as i32) > i32::MIN {
                    c18_mono(i32::MAX, hi as i32 - 1, i32::MIN, hi as i32, sh as u32, rep);
                }
            }
        }
    }
}

// ------------------------------------------------------------------ C10
fn lp1_step(s: i64, x: i32, k: i32, rep: &mut Report) -> Option<(i64, i32)> {
    let mut lp = Lowpass::<1>::verif_from_raw([s]);
    let prev = idsp::Filter::get(&lp);
    let r = guard(|| {
        let y = idsp::Filter::update(&mut lp, x, &[k]);
        (lp.verif_raw()[0], y, idsp::Filter::get(&lp))
    });
    let inp = format!("Lowpass1{{state:{}}}.update({}, [{}])", s, x, k);
    match r {
        None => {
            rep.violation("lp1-panic", "never overflows", &inp, "a value", "PANIC");
            None
        }
        Some((s2, y, g)) => {
            let (lo, hi) = (prev.min(x), prev.max(x));
            if !(lo <= y && y <= hi && lo <= g && g <= hi) {
                rep.violation("lp1-between", "output between previous output and input", &inp, &format!("in [{}, {}]", lo, hi), &format!("y={} get={}", y, g));
            }
            Some((s2, y))
        }
    }
}

fn lp2_ref(s0: i128, s1: i128, x: i32, k0: i32, k1: i32) -> (i128, i128, i128) {
    // unbounded-integer reference of the same recurrence (no wrap, saturating input difference as in the code)
    let get = s0 >> 32;
    let diff = (x as i128 - get).clamp(i32::MIN as i128, i32::MAX as i128);
    let mut d = diff * k0 as i128;
    d += (s1 >> 32) * k1 as i128;
    let s1a = s1 + d;
    let s0a = s0 + s1a;
    let y = s0a >> 32;
    (s0a + s1a, s1a + d, y)
}

fn c10(rng: &mut Rng, thorough: bool, hints: &[Vec<String>], rep: &mut Report) {
    // ---- first order: betweenness from arbitrary / reachable states
    let n = if thorough { 4_000_000 } else { 400_000 };
    let mut s = 0i64;
    for i in 0..n {
        if i % 64 == 0 {
            s = match rng.below(3) {
                0 => (rng.i32() as i64) << 32, // set()
                1 => rng.i64(),
                _ => 0,
            };
        }
        let k = match rng.below(4) {
            0 => rng.range(1, i32::MAX as i64) as i32,
            1 => 1 << rng.below(31),
            2 => i32::MAX,
            _ => ((1i64 << rng.below(31)) + rng.range(-1, 1)).clamp(1, i32::MAX as i64) as i32,
        };
        let x = if i % 3 == 0 { if rng.chance(1, 2) { i32::MIN } else { i32::MAX } } else { rng.i32() };
        if let Some((s2, _)) = lp1_step(s, x, k, rep) {
            s = s2;
        }
    }
    rep.count("lp1-between", n);
    rep.distinct += n;
    for h in hints {
        if h[0] == "lp1" && h.len() == 4 {
            let (s, x, k): (i64, i64, i64) = (h[1].parse().unwrap_or(0), h[2].parse().unwrap_or(0), h[3].parse().unwrap_or(1));
            if k >= 1 {
                lp1_step(s, x as i32, k as i32, rep);
            }
        }
    }
    // ---- first order: a constant input is reached exactly and held
    let ndc = if thorough { 60 } else { 12 };
    for _ in 0..ndc {
        let k = rng.range(1 << 16, i32::MAX as i64) as i32;
        let x = rng.i32();
        let mut lp = Lowpass::<1>::default();
        idsp::Filter::set(&mut lp, rng.i32());
        let mut steps = 0u64;
        let cap = 40 * (1u64 << 32) / k as u64 + 1000;
        let mut ok = true;
        let r = guard(|| {
            let mut last = idsp::Filter::get(&lp);
            while idsp::Filter::update(&mut lp, x, &[k]) != x && steps < cap {
                steps += 1;
                let g = idsp::Filter::get(&lp);
                // monotone approach
                if (x as i64 - g as i64).abs() > (x as i64 - last as i64).abs() {
                    ok = false;
                }
                last = g;
            }
            for _ in 0..100 {
                if idsp::Filter::update(&mut lp, x, &[k]) != x {
                    ok = false;
                }
            }
        });
        if r.is_none() || !ok || steps >= cap {
            rep.violation("lp1-dc", "constant input reached exactly and held", &format!("Lowpass1 k={} x={}", k, x), "reaches x and stays", &format!("steps={} ok={} panicked={}", steps, ok, r.is_none()));
        }
        rep.count("lp1-dc-steps", steps + 100);
        rep.distinct += 1;
    }
    // ---- second order: Butterworth settle / overshoot for levels within +-2^30
    let n2 = if thorough { 400 } else { 40 };
    for i in 0..n2 {
        let k = if i % 5 == 0 { 1i64 << (16 + rng.below(15)) } else { rng.range(1 << 16, 1518500249) };
        let kf = k as f64;
        let (k0, k1) = ((kf * kf / 4294967296.0) as i32, (-kf * std::f64::consts::SQRT_2) as i32);
        let a = rng.range(-(1 << 30), 1 << 30) as i32;
        let b = match i % 4 {
            0 => 1 << 30,
            1 => -(1 << 30),
            _ => rng.range(-(1 << 30), 1 << 30) as i32,
        };
        let mut lp = Lowpass::<2>::default();
        let tol = 4.0 * 4294967296.0 / kf + 4.0;
        let nset = (40.0 * 4294967296.0 / kf) as u64 + 100;
        let res = guard(|| {
            // settle on level a first
            for _ in 0..nset {
                idsp::Filter::update(&mut lp, a, &[k0, k1]);
            }
            let ya = idsp::Filter::get(&lp);
            let mut peak = 0f64;
            let step = b as f64 - a as f64;
            let mut y = ya;
            for _ in 0..nset {
                y = idsp::Filter::update(&mut lp, b, &[k0, k1]);
                if step != 0.0 {
                    peak = peak.max((y as f64 - b as f64) / step);
                }
            }
            (ya, y, peak)
        });
        let inp = format!("Lowpass2 k={} (k0={}, k1={}) level {} -> {}", k, k0, k1, a, b);
        match res {
            None => rep.violation("lp2-panic-within-2^30", "no overflow for levels within +-2^30", &inp, "no panic", "PANIC"),
            Some((ya, yb, peak)) => {
                rep.stat_max("lp2_settle_ratio", ((ya as f64 - a as f64).abs() / tol).max((yb as f64 - b as f64).abs() / tol));
                rep.stat_max("lp2_overshoot", peak);
                if (ya as f64 - a as f64).abs() > tol || (yb as f64 - b as f64).abs() > tol {
                    rep.violation("lp2-settle", "settles within 4*2^32/k + 4 LSB", &inp, &format!("within {}", tol), &format!("ya={} yb={}", ya, yb));
                }
                if peak > 0.05 + tol / (b as f64 - a as f64).abs().max(1.0) {
                    rep.violation("lp2-overshoot", "at most 5% overshoot", &inp, "<= 0.05", &format!("{}", peak));
                }
            }
        }
        rep.count("lp2-settle-steps", 2 * nset);
        rep.distinct += 1;
    }
    // ---- second order: every step size incl. full scale: never wraps (compare against the unbounded reference)
    let n3 = if thorough { 3000 } else { 300 };
    for i in 0..n3 {
        let k = rng.range(1 << 16, 1518500249);
        let kf = k as f64;
        let (k0, k1) = ((kf * kf / 4294967296.0) as i32, (-kf * std::f64::consts::SQRT_2) as i32);
        let from = match i % 4 { 0 => 0, 1 => i32::MIN, 2 => i32::MAX, _ => rng.i32() };
        let to = match (i / 4) % 4 { 0 => i32::MAX, 1 => i32::MIN, 2 => rng.i32(), _ => from.saturating_neg() };
        let mut lp = Lowpass::<2>::default();
        idsp::Filter::set(&mut lp, from);
        let (mut r0, mut r1) = ((from as i128) << 32, 0i128);
        let nst = ((12.0 * 4294967296.0 / kf) as usize + 50).min(200_000);
        let mut bad: Option<String> = None;
        for j in 0..nst {
            let x = to;
            let (n0, n1, ry) = lp2_ref(r0, r1, x, k0, k1);
            r0 = n0;
            r1 = n1;
            let got = guard(|| idsp::Filter::update(&mut lp, x, &[k0, k1]));
            let want = ry.clamp(i32::MIN as i128, i32::MAX as i128);
            match got {
                None => {
                    bad = Some(format!("PANIC at step {}", j));
                    break;
                }
                Some(y) => {
                    if ry < i32::MIN as i128 || ry > i32::MAX as i128 || y as i128 != ry {
                        // the true (unbounded) output left the i32 range or the state wrapped
                        if y as i128 != want {
                            bad = Some(format!("step {}: y={} but unbounded recurrence gives {} (saturated {})", j, y, ry, want));
                            break;
                        }
                    }
                }
            }
        }
        rep.count("lp2-fullscale-steps", nst as u64);
        rep.distinct += 1;
        if let Some(b) = bad {
            // known class: the target level is so close to full scale that the (<= 5%) overshoot leaves the i32 range
            // the (<= 5 %) overshoot of the step, or the truncation error at a level within 2 % of full scale,
            // takes the ideal response beyond the i32 range
            let peak = to as f64 + 0.05 * (to as f64 - from as f64);
            let class = if peak.abs() >= 0.98 * 2147483648.0 || (to as i64).abs() as f64 >= 0.98 * 2147483648.0 {
                "lp2-overflow-overshoot-beyond-i32"
            } else {
                "lp2-wrap"
            };
            rep.violation(class, "never wraps around for any step size; saturates toward the i32 range",
                &format!("Lowpass2 k={} (k0={}, k1={}) set({}) then constant {}", k, k0, k1, from, to), "saturated output", &b);
        }
    }
    rep.sample("Lowpass2 k=2^24 Butterworth: set(0) then constant i32::MAX".into());
}

// ------------------------------------------------------------------ C16
fn dsm_ref(a: &mut [u64], mem: &mut [i64], x: u32) -> i64 {
    // true MASH-1^K value in unbounded integers
    let k = a.len();
    let mut carries = vec![0i64; k];
    let mut inp = x as u64;
    for j in 0..k {
        let s = a[j] + inp;
        carries[j] = (s >> 32) as i64;
        a[j] = s & 0xffff_ffff;
        inp = a[j];
    }
    if k == 0 {
        return 0;
    }
    let mut y = carries[k - 1];
    for i in 0..k - 1 {
        let c = carries[k - 2 - i];
        let ynew = c + y - mem[i];
        mem[i] = y;
        y = ynew;
    }
    y
}

fn dsm_seq<const K: usize>(xs: &[u32], rep: &mut Report, label: &str) {
    let mut d = Dsm::<K>::default();
    let mut ra = vec![0u64; K];
    let mut rm = vec![0i64; K];
    let (mut sy, mut sx) = (0i128, 0i128);
    let bound = if K == 0 { 0i128 } else { 1i128 << (K - 1) };
    for (n, &x) in xs.iter().enumerate() {
        let want = dsm_ref(&mut ra, &mut rm, x);
        let got = guard(|| d.update(x));
        let inp = format!("Dsm::<{}> from default, inputs {:?}{}", K, &xs[..(n + 1).min(12)], if n + 1 > 12 { format!(" ... ({} total, {})", n + 1, label) } else { String::new() });
        let class_extra = if K == 0 { "dsm-k0-panic" } else if K == 8 && (want == 128) { "dsm-k8-plus128" } else { "dsm" };
        match got {
            None => {
                rep.violation(if class_extra == "dsm" { "dsm-panic" } else { class_extra }, "never panics; output is the true MASH value", &inp, &want.to_string(), "PANIC");
                return;
            }
            Some(y) => {
                if y as i64 != want {
                    rep.violation(if class_extra == "dsm" { "dsm-value" } else { class_extra }, "output is the true MASH-1^K value, never a wrapped one", &inp, &want.to_string(), &y.to_string());
                    return;
                }
                let lo = if K == 0 { 0 } else { 1 - (1i64 << (K - 1)) };
                let hi = if K == 0 { 0 } else { 1i64 << (K - 1) };
                if (y as i64) < lo || (y as i64) > hi {
                    rep.violation("dsm-range", "output within 1-2^(K-1) ..= 2^(K-1)", &inp, &format!("[{}, {}]", lo, hi), &y.to_string());
                    return;
                }
                sy += y as i128;
                sx += x as i128;
                if K >= 1 {
                    let err = (sy << 32) - sx;
                    if err.abs() > bound << 32 {
                        rep.violation("dsm-error", "accumulated error within +-2^(K-1)*2^32", &inp, &format!("|err| <= {}", bound << 32), &err.to_string());
                        return;
                    }
                }
            }
        }
    }
}

fn c16(rng: &mut Rng, thorough: bool, _hints: &[Vec<String>], rep: &mut Report) {
    // known-finding witnesses first
    dsm_seq::<0>(&[5], rep, "K=0");
    dsm_seq::<8>(&[0x00800000, 0xfb800000, 0x12800000, 0xd1800000, 0x51800000, 0x92800000, 0x7b800000, 0x80800000, 0x80000000], rep, "K=8 witness");
    rep.count("witness", 10);
    let nseq = if thorough { 40000 } else { 4000 };
    for i in 0..nseq {
        let len = 1 + rng.below(if i % 10 == 0 { 3000 } else { 200 }) as usize;
        let style = rng.below(5);
        let x0 = rng.u32();
        let bits = 1 + rng.below(4) as u32;
        let xs: Vec<u32> = (0..len)
            .map(|_| match style {
                0 => x0,
                1 => (rng.below(1 << bits) as u32) << (32 - bits),
                2 => [0u32, 0x8000_0000, 0xffff_ffff, 0x7fff_ffff, 1, 0x8000_0001][rng.below(6) as usize],
                3 => x0.wrapping_add(rng.range(-2, 2) as u32),
                _ => rng.u32(),
            })
            .collect();
        match 1 + rng.below(8) {
            1 => dsm_seq::<1>(&xs, rep, "random"),
            2 => dsm_seq::<2>(&xs, rep, "random"),
            3 => dsm_seq::<3>(&xs, rep, "random"),
            4 => dsm_seq::<4>(&xs, rep, "random"),
            5 => dsm_seq::<5>(&xs, rep, "random"),
            6 => dsm_seq::<6>(&xs, rep, "random"),
            7 => dsm_seq::<7>(&xs, rep, "random"),
            _ => dsm_seq::<8>(&xs, rep, "random"),
        }
        rep.count("dsm-sequences", len as u64);
        rep.distinct += 1;
        if i == 0 {
            rep.sample(format!("Dsm inputs {:?}", &xs[..xs.len().min(6)]));
        }
    }
    // exhaustive short sequences on a 2-bit lattice for K = 1..=8 (all 4^6 sequences)
    let depth = if thorough { 8 } else { 6 };
    let total = 4usize.pow(depth);
    for code in 0..total {
        let xs: Vec<u32> = (0..depth).map(|j| (((code >> (2 * j)) & 3) as u32) << 30).collect();
        dsm_seq::<1>(&xs, rep, "lattice");
        dsm_seq::<2>(&xs, rep, "lattice");
        dsm_seq::<3>(&xs, rep, "lattice");
        dsm_seq::<4>(&xs, rep, "lattice");
        dsm_seq::<5>(&xs, rep, "lattice");
        dsm_seq::<6>(&xs, rep, "lattice");
        dsm_seq::<7>(&xs, rep, "lattice");
        dsm_seq::<8>(&xs, rep, "lattice");
    }
    rep.count("dsm-2bit-lattice-exhaustive", (total * 8 * depth as usize) as u64);
    rep.distinct += (total * 8) as u64;
}

// ------------------------------------------------------------------ C06
fn c06_case(rng: &mut Rng, k: i32, f0: i32, scramble: usize, rep: &mut Report) {
    let mut p = if rng.chance(1, 2) {
        PLL::default()
    } else {
        PLL::verif_from_raw(rng.i32(), rng.i32(), rng.i32(), rng.i64(), rng.i64())
    };
    // arbitrary prior history
    for _ in 0..scramble {
        let inp = if rng.chance(1, 5) { None } else { Some(rng.i32()) };
        let kk = if rng.chance(1, 2) { rng.i32() } else { crate::gen::pll_gain(rng) };
        if guard(|| p.update(inp, kk)).is_none() {
            rep.violation("pll-panic", "no sequence of inputs and gains ever panics", &format!("PLL update({:?}, {})", inp, kk), "no panic", "PANIC");
            return;
        }
    }
    let start = p.verif_raw();
    let n = 64 * ((1u64 << 32) / k as u64) + 64;
    let mut x = rng.i32();
    for _ in 0..n {
        x = x.wrapping_add(f0);
        p.update(Some(x), k);
    }
    let ftol = 1i64;
    let ptol = (1i64 << 31) / k as i64 + 2;
    let extra = 3000;
    let mut worst_f = 0i64;
    let mut worst_p = 0i64;
    for j in 0..extra {
        x = x.wrapping_add(f0);
        p.update(Some(x), k);
        let fe = (p.frequency().wrapping_sub(f0) as i64).abs();
        let pe = (p.phase().wrapping_sub(x) as i64).abs();
        worst_f = worst_f.max(fe);
        worst_p = worst_p.max(pe);
        if fe > ftol || pe > ptol {
            rep.violation("pll-lock", "locked within 64*2^32/k+64 updates and stays", &format!("PLL state {:?}, k={}, f0={}, after {} + {} updates", start, k, f0, n, j), &format!("|df| <= 1, |dp| <= {}", ptol), &format!("df={} dp={}", fe, pe));
            return;
        }
    }
    rep.stat_max("pll_phase_ratio", worst_p as f64 / ptol as f64);
    rep.stat_max("pll_freq_err", worst_f as f64);
    rep.count("pll-lock-steps", n + extra as u64);
    rep.distinct += 1;
}

fn c06(rng: &mut Rng, thorough: bool, hints: &[Vec<String>], rep: &mut Report) {
    let ncase = if thorough { 300 } else { 40 };
    let kmin_log = if thorough { 10 } else { 15 };
    for i in 0..ncase {
        let k: i32 = match i % 4 {
            0 => 1 << (kmin_log + rng.below(31 - kmin_log)),
            1 => ((1i64 << (kmin_log + rng.below(31 - kmin_log))) + rng.range(-1, 1)).clamp(1 << kmin_log, i32::MAX as i64) as i32,
            2 => i32::MAX - rng.below(3) as i32,
            _ => rng.range(1 << kmin_log, i32::MAX as i64) as i32,
        };
        let f0 = match (i / 4) % 6 {
            0 => 0,
            1 => i32::MIN,
            2 => i32::MAX,
            3 => -1,
            4 => 1,
            _ => rng.i32(),
        };
        let scramble = if i % 3 == 0 { 0 } else { rng.below(200) as usize };
        c06_case(rng, k, f0, scramble, rep);
    }
    // hints: states on which model and code disagree -> run the lock experiment from there
    for h in hints.iter().take(20) {
        if h[0] == "pll" && h.len() == 8 {
            let v: Vec<i64> = h[1..6].iter().map(|t| t.parse().unwrap_or(0)).collect();
            let k: i64 = h[7].parse().unwrap_or(1 << 20);
            let k = (k.clamp(1 << 15, i32::MAX as i64)) as i32;
            let mut p = PLL::verif_from_raw(v[0] as i32, v[1] as i32, v[2] as i32, v[3], v[4]);
            let f0 = rng.i32();
            let n = 64 * ((1u64 << 32) / k as u64) + 64;
            let mut x = v[0] as i32;
            for _ in 0..n {
                x = x.wrapping_add(f0);
                p.update(Some(x), k);
            }
            let fe = (p.frequency().wrapping_sub(f0) as i64).abs();
            let pe = (p.phase().wrapping_sub(x) as i64).abs();
            if fe > 1 || pe > (1i64 << 31) / k as i64 + 2 {
                rep.violation("pll-lock", "locked within 64*2^32/k+64 updates", &format!("PLL state {:?}, k={}, f0={}", v, k, f0), "locked", &format!("df={} dp={}", fe, pe));
            }
        }
    }
    // gap clause / no panic from arbitrary states
    let n = if thorough { 2_000_000 } else { 200_000 };
    for _ in 0..n {
        let mut p = PLL::verif_from_raw(rng.i32(), rng.i32(), rng.i32(), rng.i64(), rng.i64());
        let b = p.verif_raw();
        let k = rng.i32();
        if guard(|| p.update(None, k)).is_none() {
            rep.violation("pll-panic", "never panics", &format!("PLL{:?}.update(None, {})", b, k), "no panic", "PANIC");
            continue;
        }
        let a = p.verif_raw();
        if !(a.1 == b.1.wrapping_add(b.2) && a.2 == b.2 && a.3 == b.3 && a.0 == b.0.wrapping_add(b.2) && a.4 == b.4.wrapping_add(b.3)) {
            rep.violation("pll-gap", "missing sample advances the phase estimate by exactly the frequency estimate", &format!("PLL{:?}.update(None, {})", b, k), "y0+=f0, x+=f0, y+=f", &format!("{:?}", a));
        }
        let xin = rng.i32();
        let mut q = PLL::verif_from_raw(b.0, b.1, b.2, b.3, b.4);
        if guard(|| q.update(Some(xin), k)).is_none() {
            rep.violation("pll-panic", "never panics", &format!("PLL{:?}.update(Some({}), {})", b, xin, k), "no panic", "PANIC");
        }
    }
    rep.count("pll-gap-and-panic-single-steps", 2 * n);
    rep.distinct += n;
    rep.sample("PLL k=2^24 f0=0x71f63049 from default (pinned test)".into());
}

// ------------------------------------------------------------------ parallel helper
#[derive(Default)]
pub struct Local {
    pub viol: Vec<(String, String, String, String, String)>,
    pub count: u64,
    pub maxes: BTreeMap<String, f64>,
    pub sums: BTreeMap<String, i128>,
}
impl Local {
    pub fn violation(&mut self, class: &str, clause: &str, input: String, expected: String, observed: String) {
        if self.viol.len() < 20 {
            self.viol.push((class.into(), clause.into(), input, expected, observed));
        }
    }
    pub fn max(&mut self, k: &str, v: f64) {
        let e = self.maxes.entry(k.into()).or_insert(f64::MIN);
        if v > *e {
            *e = v;
        }
    }
    pub fn sum(&mut self, k: &str, v: i128) {
        *self.sums.entry(k.into()).or_insert(0) += v;
    }
}

pub fn par<F>(nchunks: u64, f: F, rep: &mut Report) -> BTreeMap<String, i128>
where
    F: Fn(u64, &mut Local) + Sync,
{
    let nthreads = std::thread::available_parallelism().map(|n| n.get()).unwrap_or(4).min(16) as u64;
    let next = std::sync::atomic::AtomicU64::new(0);
    let locals: Vec<Local> = std::thread::scope(|sc| {
        let hs: Vec<_> = (0..nthreads)
            .map(|_| {
                sc.spawn(|| {
                    let mut l = Local::default();
                    loop {
                        let c = next.fetch_add(1, std::sync::atomic::Ordering::Relaxed);
                        if c >= nchunks {
                            break;
                        }
                        f(c, &mut l);
                    }
                    l
                })
            })
            .collect();
        hs.into_iter().map(|h| h.join().unwrap_or_default()).collect()
    });
    let mut sums = BTreeMap::new();
    for l in locals {
        for (a, b, c, d, e) in l.viol {
            rep.violation(&a, &b, &c, &d, &e);
        }
        rep.evaluations += l.count;
        for (k, v) in l.maxes {
            rep.stat_max(&k, v);
        }
        for (k, v) in l.sums {
            *sums.entry(k).or_insert(0) += v;
        }
    }
    sums
}

// ------------------------------------------------------------------ C01
const COSSIN_AMPLITUDE: f64 = 2147483648.0 - 0.85 * 32768.0;

fn c01_point(p: i32, l: &mut Local) {
    let r = guard(|| (cossin(p), cossin(p.wrapping_add(1 << 30)), cossin(!p), cossin(p ^ ((1 << 30) - 1))));
    let Some(((c, s), q, cj, mi)) = r else {
        l.violation("cossin-panic", "no panic", format!("cossin({}) or a symmetric image", p), "a value".into(), "PANIC".into());
        return;
    };
    let th = p as f64 * (std::f64::consts::PI / 2147483648.0);
    let (ec, es) = ((c as f64 / COSSIN_AMPLITUDE - th.cos()).abs(), (s as f64 / COSSIN_AMPLITUDE - th.sin()).abs());
    l.max("cossin_err", ec.max(es));
    l.max("cossin_abs", (c as f64).abs().max((s as f64).abs()));
    if ec >= 1e-5 || es >= 1e-5 {
        l.violation("cossin-accuracy", "within 1e-5 of (cos, sin)", format!("cossin({})", p), format!("({}, {})", th.cos() * COSSIN_AMPLITUDE, th.sin() * COSSIN_AMPLITUDE), format!("({}, {})", c, s));
    }
    if c == i32::MIN || s == i32::MIN {
        l.violation("cossin-range", "neither component reaches magnitude 2^31", format!("cossin({})", p), "|c|,|s| < 2^31".into(), format!("({}, {})", c, s));
        return;
    }
    if q != (-s, c) {
        l.violation("cossin-quarter", "p + 2^30 gives (-sin, cos) exactly", format!("cossin({}) vs cossin({})", p, p.wrapping_add(1 << 30)), format!("({}, {})", -s, c), format!("{:?}", q));
    }
    if cj != (c, -s) {
        l.violation("cossin-conj", "complementing the phase bits conjugates exactly", format!("cossin({}) vs cossin({})", p, !p), format!("({}, {})", c, -s), format!("{:?}", cj));
    }
    if (mi.0 as i64).abs() != (s as i64).abs() || (mi.1 as i64).abs() != (c as i64).abs() {
        l.violation("cossin-mirror", "mirroring inside a quadrant swaps cos and sin exactly", format!("cossin({}) vs cossin({})", p, p ^ ((1 << 30) - 1)), format!("magnitudes ({}, {})", s, c), format!("{:?}", mi));
    }
    l.sum("c", c as i128);
    l.sum("s", s as i128);
    l.count += 1;
}

fn c01(rng: &mut Rng, thorough: bool, hints: &[Vec<String>], rep: &mut Report) {
    let salt = rng.next();
    let sums = if thorough {
        // all 2^32 phases
        let s = par(1 << 12, |c, l| {
            for i in 0..(1u64 << 20) {
                c01_point(((c << 20) | i) as u32 as i32, l);
            }
        }, rep);
        rep.distinct += 1u64 << 32;
        rep.count("all-2^32-phases(exhaustive)", 0);
        s
    } else {
        // 2^24 phases: every 256-block once, low bits pseudo-random but closed under the half turn
        let s = par(1 << 8, |c, l| {
            for i in 0..(1u64 << 16) {
                let blk = (c << 16) | i;
                let low = ((blk & 0x7f_ffff).wrapping_mul(0x9E3779B97F4A7C15).wrapping_add(salt) >> 40) & 0xff;
                c01_point(((blk << 8) | low) as u32 as i32, l);
            }
        }, rep);
        rep.distinct += 1u64 << 24;
        rep.count("2^24-stratified-phases", 0);
        s
    };
    let (sc, ss) = (*sums.get("c").unwrap_or(&0), *sums.get("s").unwrap_or(&0));
    if sc != 0 || ss != 0 {
        rep.violation("cossin-sum", "each output sums to exactly zero over the (half-turn closed) phase set", if thorough { "all 2^32 phases" } else { "2^24 stratified phases closed under the half turn" }, "(0, 0)", &format!("({}, {})", sc, ss));
    }
    let mut l = Local::default();
    for h in hints {
        if h[0] == "cossin" && h.len() == 2 {
            if let Ok(p) = h[1].parse::<i64>() {
                c01_point(p as i32, &mut l);
                c01_point((p as i32).wrapping_add(i32::MIN), &mut l);
            }
        }
    }
    for v in [0, 1, -1, i32::MIN, i32::MAX, 1 << 29, (1 << 29) - 1, 1 << 30, -(1 << 30)] {
        c01_point(v, &mut l);
    }
    for (a, b, c, d, e) in l.viol {
        rep.violation(&a, &b, &c, &d, &e);
    }
    rep.sample(format!("cossin(0) = {:?}, cossin(1<<29) = {:?}", cossin(0), cossin(1 << 29)));
}

// ------------------------------------------------------------------ C12 / C13 (CIC)
/// N-fold self-convolution of the length-R boxcar (exact, in u128; R^N <= 65^6 fits easily)
fn cic_kernel(r: usize, n: usize) -> Vec<i128> {
    let mut h = vec![1i128];
    for _ in 0..n {
        let mut g = vec![0i128; h.len() + r - 1];
        for (i, a) in h.iter().enumerate() {
            for j in 0..r {
                g[i + j] += *a;
            }
        }
        h = g;
    }
    h
}

fn fir_at(h: &[i128], x: &[i128], t: usize) -> i128 {
    let mut acc = 0i128;
    for (k, hk) in h.iter().enumerate() {
        if k <= t {
            acc = acc.wrapping_add(hk.wrapping_mul(x[t - k]));
        }
    }
    acc
}

macro_rules! c12_case {
    ($t:ty, $w:expr, $n:expr, $rng:expr, $rep:expr) => {{
        let rng: &mut Rng = $rng;
        let rep: &mut Report = $rep;
        const NN: usize = $n;
        let rate = match rng.below(8) { 0 => 0u32, 1 => 1 << rng.below(7), _ => rng.below(65) as u32 };
        let r = rate as usize + 1;
        let h = cic_kernel(r, NN);
        let len = 1 + rng.below(6 * r as u64 + 20) as usize;
        let big = rng.chance(1, 2);
        let xs: Vec<$t> = (0..len).map(|_| if big { rng.int($w) as $t } else { rng.range(-5, 5) as $t }).collect();
        let xi: Vec<i128> = xs.iter().map(|v| *v as i128).collect();
        let mut c = Cic::<$t, NN>::new(rate);
        let inp = format!("Cic::<i{}, {}>::new({}).decimate over {:?}{}", $w, NN, rate, &xs[..xs.len().min(10)], if xs.len() > 10 { " ..." } else { "" });
        for (t, x) in xs.iter().enumerate() {
            let tick = c.tick();
            let o = c.decimate(*x);
            let expect_emit = t % r == 0;
            if o.is_some() != expect_emit || tick != expect_emit {
                rep.violation("cic-dec-emit", "emits exactly on inputs 1, R+1, 2R+1, ...; tick() predicts it", &inp, &format!("emit={} at t={}", expect_emit, t), &format!("some={} tick={}", o.is_some(), tick));
                break;
            }
            if let Some(y) = o {
                let want = fir_at(&h, &xi, t) as $t; // reduction modulo 2^bits
                let gd = guard(|| c.get_decimate());
                if y != want || gd != Some(y) {
                    rep.violation("cic-dec-fir", "output = boxcar^N FIR modulo 2^bits; get_decimate() returns it", &inp, &format!("{} at t={}", want, t), &format!("{} (get_decimate {:?}, None = PANIC)", y, gd));
                    break;
                }
                if rate == 0 && y != *x {
                    rep.violation("cic-dec-identity", "rate 0 is the identity", &inp, &x.to_string(), &y.to_string());
                    break;
                }
            }
        }
        // clear() in the middle of an output period: the filter must behave like a fresh one afterwards
        {
            let mut d = Cic::<$t, NN>::new(rate);
            for x in xs.iter().take(1 + (xs.len() / 2) % r.max(1) + r / 2) { d.decimate(*x); }
            d.clear();
            let mut fresh = Cic::<$t, NN>::new(rate);
            for (t, x) in xs.iter().enumerate() {
                let (a, b) = (d.decimate(*x), fresh.decimate(*x));
                if a != b || d.tick() != fresh.tick() {
                    rep.violation("cic-dec-clear", "after clear() the decimator emits on the 1st, (R+1)th, ... input with the FIR output", &inp, &format!("{:?} at t={}", b, t), &format!("{:?}", a));
                    break;
                }
            }
        }
        rep.count("cic-dec-samples", len as u64);
        rep.distinct += 1;
        // gain / gain_log2
        let g_exact = (r as u128).checked_pow(NN as u32);
        if let Some(ge) = g_exact {
            if ge < (1u128 << ($w - 1)) {
                if let Some(g) = guard(|| c.gain()) {
                    if g as i128 != ge as i128 {
                        rep.violation("cic-gain", "gain() = R^N", &inp, &ge.to_string(), &g.to_string());
                    }
                } else {
                    rep.violation("cic-gain", "gain() = R^N (fits, must not panic)", &inp, &ge.to_string(), "PANIC");
                }
            }
            let gl = c.gain_log2();
            let pow2 = r.is_power_of_two();
            let ok = (gl < 128 && (1u128 << gl) >= ge || gl >= 128) && (!pow2 || (gl < 128 && (1u128 << gl) == ge));
            if !ok {
                rep.violation("cic-gain-log2", "gain_log2() >= log2(gain), exact for power-of-two R", &inp, &format!("gain {}", ge), &gl.to_string());
            }
        }
    }};
}

fn c12(rng: &mut Rng, thorough: bool, _hints: &[Vec<String>], rep: &mut Report) {
    let n = if thorough { 60000 } else { 6000 };
    for _ in 0..n {
        let order = rng.below(7);
        macro_rules! byn {
            ($t:ty, $w:expr) => {
                match order {
                    0 => c12_case!($t, $w, 0, rng, rep),
                    1 => c12_case!($t, $w, 1, rng, rep),
                    2 => c12_case!($t, $w, 2, rng, rep),
                    3 => c12_case!($t, $w, 3, rng, rep),
                    4 => c12_case!($t, $w, 4, rng, rep),
                    5 => c12_case!($t, $w, 5, rng, rep),
                    _ => c12_case!($t, $w, 6, rng, rep),
                }
            };
        }
        match rng.below(5) {
            0 => byn!(i8, 8),
            1 => byn!(i16, 16),
            2 => byn!(i32, 32),
            3 => byn!(i64, 64),
            _ => byn!(i128, 128),
        }
    }
    // extreme rates: gain() = R^N exactly where it fits (R = 2^32 is the documented largest rate change)
    for rate in [u32::MAX, u32::MAX - 1, 1 << 31, (1 << 31) - 1, 65535, 65536] {
        macro_rules! gain_at {
            ($t:ty, $nn:expr) => {{
                let ge = (rate as u128 + 1).pow($nn);
                if ge < (1u128 << (<$t>::BITS - 1)) {
                    let c = Cic::<$t, $nn>::new(rate);
                    let g = guard(|| c.gain());
                    if g.map(|v| v as i128) != Some(ge as i128) {
                        rep.violation("cic-gain", "gain() = R^N (fits, must not panic)", &format!("Cic::<{}, {}>::new({}).gain()", stringify!($t), $nn, rate), &ge.to_string(), &format!("{:?} (None = PANIC)", g));
                    }
                    rep.count("cic-gain-extreme", 1);
                }
            }};
        }
        gain_at!(i64, 1);
        gain_at!(i128, 1);
        gain_at!(i128, 2);
        gain_at!(i128, 3);
        gain_at!(i64, 0);
        let c = Cic::<i128, 3>::new(rate);
        let gl = c.gain_log2();
        let ge = (rate as u128 + 1).pow(3);
        let ok = gl >= 128 || (1u128 << gl) >= ge;
        if !ok {
            rep.violation("cic-gain-log2", "gain_log2() upper bound at extreme rates", &format!("Cic::<i128,3>::new({})", rate), &format!(">= log2({})", ge), &gl.to_string());
        }
    }
    rep.sample("Cic::<i8, 3>::new(4).decimate over wrapping inputs".into());
}

macro_rules! c13_case {
    ($t:ty, $w:expr, $n:expr, $rng:expr, $rep:expr) => {{
        let rng: &mut Rng = $rng;
        let rep: &mut Report = $rep;
        const NN: usize = $n;
        let rate = match rng.below(8) { 0 => 0u32, 1 => 1 << rng.below(6), _ => rng.below(33) as u32 };
        let r = rate as usize + 1;
        let h = cic_kernel(r, NN);
        let nlow = 1 + rng.below(3 * NN as u64 + 8) as usize;
        // magnitudes small enough that nothing overflows: |x| * (2R)^N < 2^(w-2)
        let headroom = (($w - 2) as i32 - (NN as i32) * ((2 * r) as f64).log2().ceil() as i32).max(1) as u32;
        let constant = rng.chance(1, 3);
        let x0 = rng.int(headroom.min(40)) as $t;
        let low: Vec<$t> = (0..nlow).map(|_| if constant { x0 } else { rng.int(headroom.min(40)) as $t }).collect();
        let held: Vec<i128> = low.iter().flat_map(|v| std::iter::repeat(*v as i128).take(r)).collect();
        let mut c = Cic::<$t, NN>::new(rate);
        let inp = format!("Cic::<i{}, {}>::new({}).interpolate, low-rate {:?}", $w, NN, rate, &low[..low.len().min(10)]);
        let mut li = 0;
        for t in 0..held.len() {
            let tick = c.tick();
            if tick != (t % r == 0) {
                rep.violation("cic-int-tick", "tick() true exactly every R calls", &inp, &format!("{} at t={}", t % r == 0, t), &tick.to_string());
                break;
            }
            let arg = if tick { li += 1; Some(low[li - 1]) } else { None };
            match guard(|| c.interpolate(arg)) {
                None => {
                    rep.violation("cic-int-panic", "no panic when nothing overflows", &inp, "a value", &format!("PANIC at t={}", t));
                    break;
                }
                Some(y) => {
                    let want = fir_at(&h, &held, t);
                    let gi = guard(|| c.get_interpolate());
                    if y as i128 != want || gi != Some(y) {
                        rep.violation("cic-int-fir", "output = boxcar^N FIR of the held input, exactly; get_interpolate() returns it", &inp, &format!("{} at t={}", want, t), &format!("{} (get_interpolate {:?}, None = PANIC)", y, gi));
                        break;
                    }
                    if constant && t >= c.response_length() && (y as i128) != (x0 as i128) * (r as i128).pow(NN as u32) {
                        rep.violation("cic-int-const", "constant input gives x*gain after response_length outputs", &inp, &((x0 as i128) * (r as i128).pow(NN as u32)).to_string(), &y.to_string());
                        break;
                    }
                }
            }
        }
        rep.count("cic-int-samples", held.len() as u64);
        rep.distinct += 1;
        // settle_interpolate: fixed point, equals the state reached by feeding x for ever;
        // `c` has just processed an arbitrary history: settling from there must give the same state as from new()
        let mut a = if li > 0 && held.len() % r == 0 { c.clone() } else { Cic::<$t, NN>::new(rate) };
        let settled = guard(|| a.settle_interpolate(x0)).is_some();
        if !settled {
            // feeding x0 for ever from new() must overflow too, otherwise the settled state exists and fits
            let mut b = Cic::<$t, NN>::new(rate);
            let fine = (0..(NN + 2) * r).all(|t| guard(|| b.interpolate(if t % r == 0 { Some(x0) } else { None })).is_some());
            if fine {
                rep.violation("cic-settle", "settle_interpolate(x) must not panic when the settled state fits (feeding x reaches it without overflow)", &format!("Cic::<i{}, {}>::new({}).settle_interpolate({})", $w, NN, rate, x0), &format!("{:?}", b.verif_raw()), "PANIC");
            }
        }
        if settled {
            let before = a.verif_raw();
            let mut ok = true;
            for t in 0..r {
                let arg = if t == 0 { Some(x0) } else { None };
                match guard(|| a.interpolate(arg)) {
                    Some(y) => ok &= (y as i128) == (x0 as i128) * (r as i128).pow(NN as u32),
                    None => ok = false,
                }
            }
            if !ok || a.verif_raw() != before {
                rep.violation("cic-settle", "settle_interpolate(x) is the fixed point of feeding x", &format!("Cic::<i{}, {}>::new({}).settle_interpolate({})", $w, NN, rate, x0), &format!("{:?}", before), &format!("{:?}", a.verif_raw()));
            }
            let mut b = Cic::<$t, NN>::new(rate);
            let mut fine = true;
            for t in 0..(NN + 2) * r {
                let arg = if t % r == 0 { Some(x0) } else { None };
                if guard(|| b.interpolate(arg)).is_none() {
                    fine = false;
                    break;
                }
            }
            if fine && b.verif_raw() != before {
                rep.violation("cic-settle", "settle_interpolate(x) equals the state reached by feeding x", &format!("Cic::<i{}, {}>::new({}) x={}", $w, NN, rate, x0), &format!("{:?}", before), &format!("{:?}", b.verif_raw()));
            }
        }
    }};
}

fn c13(rng: &mut Rng, thorough: bool, _hints: &[Vec<String>], rep: &mut Report) {
    let n = if thorough { 60000 } else { 6000 };
    for _ in 0..n {
        let order = rng.below(6);
        macro_rules! byn {
            ($t:ty, $w:expr) => {
                match order {
                    0 => c13_case!($t, $w, 0, rng, rep),
                    1 => c13_case!($t, $w, 1, rng, rep),
                    2 => c13_case!($t, $w, 2, rng, rep),
                    3 => c13_case!($t, $w, 3, rng, rep),
                    4 => c13_case!($t, $w, 4, rng, rep),
                    _ => c13_case!($t, $w, 5, rng, rep),
                }
            };
        }
        match rng.below(3) {
            0 => byn!(i32, 32),
            1 => byn!(i64, 64),
            _ => byn!(i128, 128),
        }
    }
    rep.sample("Cic::<i64, 3>::new(7).interpolate with arbitrary low-rate sequence".into());
}

// ------------------------------------------------------------------ C05 / C03 / C04 (num, biquad)
fn floor_div(a: i128, b: i128) -> i128 {
    a.div_euclid(b)
}

macro_rules! macc_check {
    ($t:ty, $a:ty, $w:expr, $q:expr, $u:expr, $s:expr, $mn:expr, $mx:expr, $e1:expr, $l:expr) => {{
        let (u, s, mn, mx, e1): ($t, $a, $t, $t, $t) = ($u, $s, $mn, $mx, $e1);
        let one: i128 = 1i128 << $q;
        let total_c = (s as i128).checked_add((u as i128) * one + e1 as i128);
        let total = total_c.unwrap_or(0);
        let fits = total_c.is_some() && total >= <$a>::MIN as i128 && total <= <$a>::MAX as i128;
        let r = guard(|| u.macc(s, mn, mx, e1));
        let inp = format!("<i{} as Coefficient>::macc(u={}, s={}, min={}, max={}, e1={})", $w, u, s, mn, mx, e1);
        if fits {
            let yf = floor_div(total, one);
            let want_y = if yf < mn as i128 { mn as i128 } else if yf > mx as i128 { mx as i128 } else { yf };
            let want_e = total.rem_euclid(one);
            match r {
                None => $l.violation("macc-panic", "no panic when the exact total fits", inp, format!("({}, {})", want_y, want_e), "PANIC".into()),
                Some((y, e)) => {
                    if y as i128 != want_y || e as i128 != want_e {
                        $l.violation("macc-exact", "floor((s + u*ONE + e1)/ONE) clamped, remainder in [0, ONE)", inp, format!("({}, {})", want_y, want_e), format!("({}, {})", y, e));
                    }
                }
            }
        }
        $l.count += 1;
    }};
}

fn c05(rng: &mut Rng, thorough: bool, _hints: &[Vec<String>], rep: &mut Report) {
    // i8: the whole (u, s) plane x e1 lattice x limit pairs (thorough: complete e1 range)
    let limit_pairs: Vec<(i8, i8)> = vec![(i8::MIN, i8::MAX), (-4, 3), (0, 3), (-128, -125), (124, 127), (-64, 63), (4, 7)];
    let e1s: Vec<i8> = if thorough { (0..64).collect() } else { vec![0, 1, 31, 32, 63] };
    let lp = &limit_pairs;
    let es = &e1s;
    par(256, |c, l| {
        let u = c as u8 as i8;
        for s in i16::MIN..=i16::MAX {
            for &(mn, mx) in lp.iter() {
                for &e1 in es.iter() {
                    macc_check!(i8, i16, 8, 6, u, s, mn, mx, e1, l);
                }
            }
        }
    }, rep);
    rep.distinct += 256 * 65536 * (limit_pairs.len() * e1s.len()) as u64;
    rep.count("macc-i8-complete-(u,s)-plane", 0);
    // wider types: lattice + random
    let n = if thorough { 4_000_000 } else { 400_000 };
    let mut l = Local::default();
    for i in 0..n {
        macro_rules! one {
            ($t:ty, $a:ty, $w:expr, $q:expr) => {{
                let g = $w - $q;
                let u = rng.int($w) as $t;
                let s = if rng.chance(1, 2) { rng.int(2 * $w) } else { rng.int($w + $q) } as $a;
                let mut mn = rng.int($w) as $t;
                let mut mx = rng.int($w) as $t;
                if mn > mx { core::mem::swap(&mut mn, &mut mx); }
                mn &= !(((1 as $t) << g) - 1);
                mx |= ((1 as $t) << g) - 1;
                let e1 = (rng.wide() & ((1u128 << $q) - 1)) as $t;
                macc_check!($t, $a, $w, $q, u, s, mn, mx, e1, l);
                // mul_scaled / div_scaled
                let (a, b) = (rng.int($w) as $t, rng.int($w) as $t);
                let one: i128 = 1i128 << $q;
                let wm = floor_div(a as i128 * b as i128 + one / 2, one);
                if wm >= <$t>::MIN as i128 && wm <= <$t>::MAX as i128 {
                    let got = guard(|| a.mul_scaled(b));
                    if got.map(|v| v as i128) != Some(wm) {
                        l.violation("mul-scaled", "exact product over ONE rounded half-up", format!("<i{}>::mul_scaled({}, {})", $w, a, b), wm.to_string(), format!("{:?}", got));
                    }
                }
                if b != 0 {
                    let wd = (a as i128 * one) / (b as i128); // truncation toward zero
                    if wd >= <$t>::MIN as i128 && wd <= <$t>::MAX as i128 {
                        let got = guard(|| a.div_scaled(b));
                        if got.map(|v| v as i128) != Some(wd) {
                            l.violation("div-scaled", "exact quotient truncated toward zero", format!("<i{}>::div_scaled({}, {})", $w, a, b), wd.to_string(), format!("{:?}", got));
                        }
                    }
                }
                if guard(|| a.mul_scaled(<$t as Coefficient>::ONE)) != Some(a) {
                    l.violation("mul-one", "multiplying by ONE is the identity", format!("<i{}>::mul_scaled({}, ONE)", $w, a), a.to_string(), "other".into());
                }
                l.count += 3;
            }};
        }
        match i % 4 {
            0 => one!(i8, i16, 8, 6),
            1 => one!(i16, i32, 16, 14),
            2 => one!(i32, i64, 32, 30),
            _ => one!(i64, i128, 64, 62),
        }
    }
    // i8 mul/div: all pairs
    for a in i8::MIN..=i8::MAX {
        for b in i8::MIN..=i8::MAX {
            let wm = floor_div(a as i128 * b as i128 + 32, 64);
            if wm >= -128 && wm <= 127 && guard(|| a.mul_scaled(b)).map(|v| v as i128) != Some(wm) {
                l.violation("mul-scaled", "exact product over ONE rounded half-up", format!("<i8>::mul_scaled({}, {})", a, b), wm.to_string(), "other".into());
            }
            if b != 0 {
                let wd = (a as i128 * 64) / b as i128;
                if wd >= -128 && wd <= 127 && guard(|| a.div_scaled(b)).map(|v| v as i128) != Some(wd) {
                    l.violation("div-scaled", "exact quotient truncated toward zero", format!("<i8>::div_scaled({}, {})", a, b), wd.to_string(), "other".into());
                }
            }
            l.count += 2;
        }
    }
    // -2 representable, quantize nearest
    if <i8 as Coefficient>::NEG_ONE.wrapping_mul(2) != i8::MIN || <i16 as Coefficient>::NEG_ONE.wrapping_mul(2) != i16::MIN
        || <i32 as Coefficient>::NEG_ONE.wrapping_mul(2) != i32::MIN || <i64 as Coefficient>::NEG_ONE.wrapping_mul(2) != i64::MIN {
        l.violation("neg-two", "-2 is exactly representable", "NEG_ONE * 2".into(), "T::MIN".into(), "other".into());
    }
    // exactly representable values must be reproduced exactly, in every width (incl. the 2^52..2^53 binade of i64)
    for _ in 0..(n / 10) {
        let m = ((1i64 << 52) + rng.below(1 << 52) as i64) * if rng.chance(1, 2) { -1 } else { 1 };
        let v = m as f64 / 4611686018427387904.0;
        let q = <i64 as Coefficient>::quantize(v);
        if q != m {
            l.violation("quantize", "quantising a real number gives the nearest coefficient (exactly representable value)", format!("<i64>::quantize({:e}) = quantize({} / 2^62)", v, m), m.to_string(), q.to_string());
        }
        let m16 = rng.range(-32768, 32767);
        if <i16 as Coefficient>::quantize(m16 as f64 / 16384.0) as i64 != m16 {
            l.violation("quantize", "quantising a real number gives the nearest coefficient (exactly representable value)", format!("<i16>::quantize({} / 2^14)", m16), m16.to_string(), "other".into());
        }
        l.count += 2;
    }
    for _ in 0..(n / 10) {
        let v = (rng.next() as i64 as f64) / (i64::MAX as f64) * 1.99;
        let q16 = <i16 as Coefficient>::quantize(v);
        let q32 = <i32 as Coefficient>::quantize(v);
        if (q16 as f64 - v * 16384.0).abs() > 0.5 + 1e-9 || (q32 as f64 - v * 1073741824.0).abs() > 0.5 + 1e-6 {
            l.violation("quantize", "quantising a real number gives the nearest coefficient", format!("quantize({})", v), "nearest".into(), format!("{} {}", q16, q32));
        }
        l.count += 2;
    }
    for (a, b, c, d, e) in l.viol {
        rep.violation(&a, &b, &c, &d, &e);
    }
    rep.evaluations += l.count;
    rep.distinct += l.count;
    rep.count("wider-types+mul/div/quantize", 0);
    rep.sample("<i8>::macc over the complete (u, s) plane".into());
}

macro_rules! bq_exact_case {
    ($t:ty, $a:ty, $w:expr, $q:expr, $rng:expr, $rep:expr) => {{
        let rng: &mut Rng = $rng;
        let rep: &mut Report = $rep;
        let g = $w - $q;
        let one: i128 = 1i128 << $q;
        let co = |rng: &mut Rng| -> $t { if rng.chance(1, 2) { rng.int($w) as $t } else { rng.int($q + 1) as $t } };
        let ba: [$t; 5] = [co(rng), co(rng), co(rng), co(rng), co(rng)];
        let mut bq = idsp::iir::Biquad::<$t>::from(ba);
        let u = if rng.chance(1, 2) { 0 } else { rng.int($w) as $t };
        bq.set_u(u);
        let (mut mn, mut mx) = (<$t>::MIN, <$t>::MAX);
        if rng.chance(1, 2) {
            mn = rng.int($w) as $t;
            mx = rng.int($w) as $t;
            if mn > mx { core::mem::swap(&mut mn, &mut mx); }
            mn &= !(((1 as $t) << g) - 1);
            mx |= ((1 as $t) << g) - 1;
        }
        bq.set_min(mn);
        bq.set_max(mx);
        let cfg_before = bq.clone();
        let small = rng.chance(1, 2);
        let sm = |rng: &mut Rng| -> $t { if small { rng.int($w / 2) as $t } else { rng.int($w) as $t } };
        let five = rng.chance(1, 2);
        let mut xy5: [$t; 5] = [sm(rng), sm(rng), sm(rng), sm(rng), (rng.wide() & ((1u128 << $q) - 1)) as $t];
        for _ in 0..(1 + rng.below(20)) {
            let x0 = sm(rng);
            let e1: i128 = if five { xy5[4] as i128 } else { 0 };
            let prods = [ba[0] as i128 * x0 as i128, ba[1] as i128 * xy5[0] as i128, ba[2] as i128 * xy5[1] as i128, -(ba[3] as i128 * xy5[2] as i128), -(ba[4] as i128 * xy5[3] as i128)];
            let amin = <$a>::MIN as i128;
            let amax = <$a>::MAX as i128;
            // exact arithmetic in (i128 high part, remainder) is overkill: use checked i128 and a wide f64 guard
            let approx: f64 = prods.iter().map(|p| *p as f64).sum::<f64>() + u as f64 * one as f64 + e1 as f64;
            let mut partial_ok = true;
            let mut acc: Option<i128> = Some(0);
            let mut walk: i128 = 0; // wrapping walk in 128 bits = exact modulo 2^128
            for p in prods.iter() {
                walk = walk.wrapping_add(*p);
                acc = acc.and_then(|a| a.checked_add(*p));
                partial_ok &= matches!(acc, Some(a) if a >= amin && a <= amax);
            }
            let off = u as i128 * one + e1;
            let total = walk.wrapping_add(off);
            // the exact total fits iff the f64 estimate is well inside and the wrapped value is in range,
            // or the checked chain succeeded
            let exact_total = acc.and_then(|a| a.checked_add(off));
            let fits = match exact_total {
                Some(t) => t >= amin && t <= amax,
                None => approx.abs() < 1.6e38 && total >= amin && total <= amax && approx.abs() < (amax as f64) * 0.999,
            };
            let sum_fits = true;
            let _ = sum_fits;
            let before = xy5;
            let r = if five {
                guard(|| { let y = bq.update(&mut xy5, x0); (y, xy5) })
            } else {
                let mut xy4: [$t; 4] = [xy5[0], xy5[1], xy5[2], xy5[3]];
                guard(|| { let y = bq.update(&mut xy4, x0); (y, [xy4[0], xy4[1], xy4[2], xy4[3], before[4]]) })
            };
            let inp = format!("Biquad<i{}>{{ba:{:?},u:{},min:{},max:{}}}.update::<{}>({:?}, {})", $w, ba, u, mn, mx, if five { 5 } else { 4 }, &before[..if five { 5 } else { 4 }], x0);
            if bq != cfg_before {
                rep.violation("biquad-config", "update never modifies the configuration", &inp, "unchanged", "changed");
            }
            if fits {
                let yf = floor_div(total, one);
                let wy = yf.clamp(mn as i128, mx as i128);
                let we = if five { total.rem_euclid(one) } else { before[4] as i128 };
                match r {
                    None => {
                        let class = if !partial_ok { "biquad-partial-sum-overflow" } else { "biquad-panic" };
                        rep.violation(class, "no panic while the exact sum fits the accumulator", &inp, &format!("y={}", wy), "PANIC");
                        break;
                    }
                    Some((y, st)) => {
                        let want_state = [x0 as i128, before[0] as i128, wy, before[2] as i128, we];
                        let got_state: Vec<i128> = st.iter().map(|v| *v as i128).collect();
                        if y as i128 != wy || got_state != want_state {
                            rep.violation("biquad-exact", "exact clamped difference equation; state shifts", &inp, &format!("y={} state={:?}", wy, want_state), &format!("y={} state={:?}", y, got_state));
                            break;
                        }
                        if (y as i128) < mn as i128 || (y as i128) > mx as i128 {
                            rep.violation("biquad-limits", "min <= y <= max", &inp, &format!("[{}, {}]", mn, mx), &y.to_string());
                        }
                        xy5 = st;
                    }
                }
            } else {
                match r { Some((_, st)) => xy5 = st, None => break }
            }
            rep.count("biquad-int-updates", 1);
        }
        rep.distinct += 1;
    }};
}

fn c03(rng: &mut Rng, thorough: bool, _hints: &[Vec<String>], rep: &mut Report) {
    // listed witness of F-C03 (checked profile): b0 = b1 = a1 = -128, x0 = x1 = y1 = -128 on i8
    {
        let bq = idsp::iir::Biquad::<i8>::from([-128, -128, 0, -128, 0]);
        let mut xy = [-128i8, 0, -128, 0];
        let r = guard(|| bq.update(&mut xy, -128));
        if r != Some(127) {
            rep.violation("biquad-partial-sum-overflow", "no panic while the exact sum fits the accumulator", "Biquad<i8>{ba:[-128,-128,0,-128,0]}.update::<4>([-128,0,-128,0], -128)  (exact total 16384 fits i16)", "y=127", &format!("{:?}", r.map(|v| v.to_string()).unwrap_or("PANIC".into())));
        }
    }
    let n = if thorough { 400_000 } else { 40_000 };
    for i in 0..n {
        match i % 4 {
            0 => bq_exact_case!(i8, i16, 8, 6, rng, rep),
            1 => bq_exact_case!(i16, i32, 16, 14, rng, rep),
            2 => bq_exact_case!(i32, i64, 32, 30, rng, rep),
            _ => bq_exact_case!(i64, i128, 64, 62, rng, rep),
        }
    }
    // IDENTITY / HOLD / proportional for every value class
    for _ in 0..n {
        let x0 = rng.i32();
        let st = [rng.i32(), rng.i32(), rng.i32(), rng.i32()];
        let mut s = st;
        let yi = idsp::iir::Biquad::<i32>::IDENTITY.update(&mut s, x0);
        let mut s2 = st;
        let yh = idsp::iir::Biquad::<i32>::HOLD.update(&mut s2, x0);
        let k = rng.i32();
        let mut s3 = st;
        let yp = idsp::iir::Biquad::<i32>::proportional(k).update(&mut s3, x0);
        let wp = floor_div(k as i128 * x0 as i128, 1 << 30).clamp(i32::MIN as i128, i32::MAX as i128);
        if yi != x0 || yh != st[2] || yp as i128 != wp || s != [x0, st[0], yi, st[2]] {
            rep.violation("biquad-special", "IDENTITY returns x0, HOLD returns y1, proportional(k) returns k*x0/ONE", &format!("state {:?} x0={} k={}", st, x0, k), &format!("{} {} {}", x0, st[2], wp), &format!("{} {} {}", yi, yh, yp));
        }
        // floats: the same expression to rounding
        let (xf, kf) = (x0 as f64 / 65536.0, k as f64 / 1048576.0);
        let mut sf = [0.0f64; 4];
        for inf in [f64::INFINITY, f64::NEG_INFINITY] {
            let mut s8 = [0.0f64; 4];
            let mut s9 = [0.0f32; 4];
            let mut s2 = [0.0f64; 2];
            if idsp::iir::Biquad::<f64>::IDENTITY.update(&mut s8, inf) != inf || idsp::iir::Biquad::<f32>::IDENTITY.update(&mut s9, inf as f32) != inf as f32
                || idsp::iir::Biquad::<f64>::IDENTITY.update(&mut s2, inf) != inf || idsp::iir::Biquad::<f64>::HOLD.update(&mut [0.0, 0.0, inf, 0.0], 1.0) != inf {
                rep.violation("biquad-special-float", "IDENTITY returns x0 / HOLD returns y1 for every value (infinite sample, default limits)", &format!("x0 = {}", inf), &format!("{}", inf), "finite");
            }
        }
        if idsp::iir::Biquad::<f64>::IDENTITY.update(&mut sf, xf) != xf || idsp::iir::Biquad::<f64>::proportional(kf).update(&mut sf, xf) != kf * xf {
            rep.violation("biquad-special-float", "IDENTITY / proportional on f64", &format!("x0={} k={}", xf, kf), "exact", "other");
        }
        rep.count("biquad-special", 3);
    }
    // floats: DF1 expression to rounding; DF2T reproduces DF1 from rest for stable filters
    for _ in 0..(n / 10) {
        let r = 0.2 + 0.75 * (rng.below(1000) as f64 / 1000.0);
        let th = 3.0 * (rng.below(1000) as f64 / 1000.0);
        let (a1, a2) = (-2.0 * r * th.cos(), r * r);
        let b: [f64; 3] = [rng.range(-100, 100) as f64 / 50.0, rng.range(-100, 100) as f64 / 50.0, rng.range(-100, 100) as f64 / 50.0];
        let bq = idsp::iir::Biquad::<f64>::from([b[0], b[1], b[2], a1, a2]);
        let bq32 = idsp::iir::Biquad::<f32>::from([b[0] as f32, b[1] as f32, b[2] as f32, a1 as f32, a2 as f32]);
        let mut s4 = [0.0f64; 4];
        let mut s2 = [0.0f64; 2];
        let mut t4 = [0.0f32; 4];
        let mut t2 = [0.0f32; 2];
        let mut scale = 1.0f64;
        for j in 0..200 {
            let x = rng.range(-1000, 1000) as f64 / 100.0;
            let want = b[0] * x + b[1] * s4[0] + b[2] * s4[1] - a1 * s4[2] - a2 * s4[3];
            let y4 = bq.update(&mut s4, x);
            let y2 = bq.update(&mut s2, x);
            let z4 = bq32.update(&mut t4, x as f32);
            let z2 = bq32.update(&mut t2, x as f32);
            scale = scale.max(y4.abs());
            let gain = 1.0 / (1.0 - r).powi(2);
            if (y4 - want).abs() > 1e-12 * scale.max(1.0) * 50.0 || (y4 - y2).abs() > 1e-12 * scale * gain * 10.0 || ((z4 - z2) as f64).abs() > 6e-7 * scale * gain * 10.0 || ((z4 as f64) - y4).abs() > 6e-7 * scale * gain * 10.0 {
                rep.violation("biquad-float", "f32/f64 obey the same expression to rounding; DF2T from rest reproduces DF1", &format!("ba={:?} step {}", [b[0], b[1], b[2], a1, a2], j), &format!("{} (df1 f64)", y4), &format!("df2t {} f32 {} {} want {}", y2, z4, z2, want));
                break;
            }
        }
        rep.count("biquad-float-steps", 800);
        rep.distinct += 1;
    }
    // DF2T with limits that are actually reached: coefficients are multiples of 1/4, inputs small integers, so every
    // intermediate is a dyadic rational that f64 holds exactly for the 10 steps of the run - no tolerance at all
    for _ in 0..(n / 10) {
        let q = |rng: &mut Rng, m: i64| rng.range(-m, m) as f64 / 4.0;
        let c = [q(rng, 8), q(rng, 8), q(rng, 8), q(rng, 7), q(rng, 4)];
        let lim = 1.0 + rng.below(6) as f64;
        let mut bq = idsp::iir::Biquad::<f64>::from(c);
        bq.set_min(-lim);
        bq.set_max(lim);
        // summing-junction offset u: DF2T at rest is the state (u, u)
        let u = if rng.chance(1, 2) { 0.0 } else { q(rng, 8) };
        bq.set_u(u);
        let (mut s4, mut s2) = ([0.0f64; 4], [u; 2]);
        let xs: Vec<f64> = (0..10).map(|j| if j < 3 || rng.chance(1, 2) { rng.range(-12, 12) as f64 } else { 0.0 }).collect();
        let mut hit = false;
        for (j, x) in xs.iter().enumerate() {
            let y4 = bq.update(&mut s4, *x);
            let y2 = bq.update(&mut s2, *x);
            hit |= y4.abs() == lim;
            if y4 != y2 {
                rep.violation("biquad-df2t-limits", "DF2T from rest reproduces the clamped DF1 recurrence sample by sample (exact dyadic arithmetic, limits reached)", &format!("Biquad<f64> ba={:?} u={} limits +-{} inputs {:?} step {}", c, u, lim, xs, j), &y4.to_string(), &y2.to_string());
                break;
            }
        }
        rep.count(if hit { "biquad-df2t-limits[limit reached]" } else { "biquad-df2t-limits[inside]" }, 10);
        rep.distinct += 1;
    }
    rep.sample("Biquad<i8> with near-full-scale coefficients: b0=b1=a1=-128, x0=x1=y1=-128".into());
}

macro_rules! windup_case {
    ($t:ty, $w:expr, $q:expr, $nst:expr, $rng:expr, $rep:expr) => {{
        let rng: &mut Rng = $rng;
        let rep: &mut Report = $rep;
        let g = $w - $q;
        let one: $t = 1 << $q;
        // integrating / double integrating / arbitrary filters with limits
        let style = rng.below(3);
        let sc = |rng: &mut Rng| -> $t { rng.int($q) as $t };
        let ba: [$t; 5] = match style {
            0 => [sc(rng), sc(rng), 0, one.wrapping_neg(), 0],
            1 => [sc(rng), sc(rng), sc(rng), one.wrapping_neg().wrapping_mul(2), one],
            _ => [sc(rng), sc(rng), sc(rng), sc(rng), sc(rng)],
        };
        let mut bq = idsp::iir::Biquad::<$t>::from(ba);
        let mut mn = rng.int($w - 1) as $t;
        let mut mx = rng.int($w - 1) as $t;
        if mn > mx { core::mem::swap(&mut mn, &mut mx); }
        mn &= !(((1 as $t) << g) - 1);
        mx |= ((1 as $t) << g) - 1;
        bq.set_min(mn);
        bq.set_max(mx);
        let x = rng.int($w / 2 + 2) as $t;
        let start: [$t; $nst] = {
            let mut a = [0 as $t; $nst];
            for (i, v) in a.iter_mut().enumerate() { *v = if i == 4 { (rng.wide() & ((1u128 << $q) - 1)) as $t } else { rng.int($w / 2) as $t }; }
            a
        };
        // run until the output has sat on ONE limit for 2 samples (state A), keep going while it stays on that
        // limit for up to `extra` more samples (state B, same saturation episode)
        let cont = |st: &[$t; $nst]| -> Option<Vec<$t>> {
            let mut cont_rng = Rng::new(12345);
            let mut outs = vec![];
            let mut s2 = *st;
            for _ in 0..12 {
                let xi = cont_rng.int($w / 2 + 2) as $t;
                outs.push(guard(|| bq.update(&mut s2, xi))?);
            }
            Some(outs)
        };
        let run = |extra: usize| -> Option<([$t; $nst], Vec<$t>)> {
            let mut st = start;
            let mut sat = 0usize;
            let mut steps = 0;
            let mut last: Option<$t> = None;
            loop {
                let y = guard(|| bq.update(&mut st, x))?;
                steps += 1;
                if (y == mn || y == mx) && (last == Some(y) || sat == 0) { sat += 1 } else if y == mn || y == mx { sat = 1 } else { sat = 0 }
                last = Some(y);
                if sat >= 2 { break }
                if steps > 400 { return None }
            }
            let lim = last?;
            for _ in 0..extra {
                let mut probe = st;
                let y = guard(|| bq.update(&mut probe, x))?;
                if y != lim { break }
                st = probe;
            }
            let outs = cont(&st)?;
            Some((st, outs))
        };
        let l2 = 1 + rng.below(40) as usize;
        if let (Some((sa, oa)), Some((sb, ob))) = (run(0), run(l2)) {
            let same_samples = sa.iter().zip(sb.iter()).take(4).all(|(a, b)| a == b) || $nst == 2 && sa == sb;
            let inp = format!("Biquad<i{}>{{ba:{:?},min:{},max:{}}} N={} constant x={} from {:?}: L=2 vs L={}", $w, ba, mn, mx, $nst, x, start, 2 + l2);
            if $nst != 5 {
                if sa != sb || oa != ob {
                    rep.violation("biquad-windup", "state and later response do not depend on the saturation duration", &inp, &format!("{:?} {:?}", sa, oa), &format!("{:?} {:?}", sb, ob));
                }
            } else if !same_samples {
                rep.violation("biquad-windup", "stored inputs and outputs do not depend on the saturation duration", &inp, &format!("{:?}", sa), &format!("{:?}", sb));
            } else if oa != ob {
                // only the carried remainder differs
                rep.violation("biquad5-remainder-after-saturation", "response to later input bit-identical however long the saturation lasted", &inp, &format!("{:?} {:?}", sa, oa), &format!("{:?} {:?}", sb, ob));
            }
            rep.count("windup-pairs", 1);
            rep.distinct += 1;
        }
    }};
}

fn c04(rng: &mut Rng, thorough: bool, hints: &[Vec<String>], rep: &mut Report) {
    // limits clause: reuse the exact-equation sweep (it checks min <= y <= max on every fitted update)
    let n = if thorough { 200_000 } else { 20_000 };
    for i in 0..n {
        match i % 4 {
            0 => bq_exact_case!(i8, i16, 8, 6, rng, rep),
            1 => bq_exact_case!(i16, i32, 16, 14, rng, rep),
            2 => bq_exact_case!(i32, i64, 32, 30, rng, rep),
            _ => bq_exact_case!(i64, i128, 64, 62, rng, rep),
        }
    }
    let _ = hints;
    // the N = 5 remainder witness (known finding) first
    {
        let bq = idsp::iir::Biquad::<i8>::from([127, 0, 0, 0, 0]);
        let mut a = [0i8; 5];
        let mut b = [0i8; 5];
        for _ in 0..2 { bq.update(&mut a, 127); }
        for _ in 0..3 { bq.update(&mut b, 127); }
        let (ya, yb) = (bq.update(&mut a, 3), bq.update(&mut b, 3));
        if ya != yb {
            rep.violation("biquad5-remainder-after-saturation", "response to later input bit-identical however long the saturation lasted", "Biquad<i8>{ba:[127,0,0,0,0]} N=5 from rest: input 127 for L=2 vs L=3, then 3", &ya.to_string(), &yb.to_string());
        }
    }
    let m = if thorough { 100_000 } else { 10_000 };
    for i in 0..m {
        match i % 9 {
            0 => windup_case!(i8, 8, 6, 4, rng, rep),
            1 => windup_case!(i16, 16, 14, 4, rng, rep),
            2 => windup_case!(i32, 32, 30, 4, rng, rep),
            3 => windup_case!(i64, 64, 62, 4, rng, rep),
            4 => windup_case!(i16, 16, 14, 5, rng, rep),
            5 => windup_case!(i32, 32, 30, 5, rng, rep),
            6 => windup_case!(i8, 8, 6, 5, rng, rep),
            7 => windup_case!(i32, 32, 30, 2, rng, rep),
            _ => windup_case!(i16, 16, 14, 2, rng, rep),
        }
    }
    // floats with a summing-junction offset: every output within the limits, all three state forms
    for _ in 0..m {
        let ba: [f64; 5] = [rng.range(-200, 200) as f64 / 50.0, rng.range(-200, 200) as f64 / 50.0, rng.range(-100, 100) as f64 / 50.0, rng.range(-100, 100) as f64 / 60.0, rng.range(-50, 50) as f64 / 60.0];
        let mut bq = idsp::iir::Biquad::<f64>::from(ba);
        let mut bq32 = idsp::iir::Biquad::<f32>::from([ba[0] as f32, ba[1] as f32, ba[2] as f32, ba[3] as f32, ba[4] as f32]);
        let (a, b) = (rng.range(-100, 100) as f64 / 10.0, rng.range(-100, 100) as f64 / 10.0);
        let (mn, mx) = (a.min(b), a.max(b));
        let u = rng.range(-300, 300) as f64 / 10.0;
        bq.set_u(u);
        bq.set_min(mn);
        bq.set_max(mx);
        bq32.set_u(u as f32);
        bq32.set_min(mn as f32);
        bq32.set_max(mx as f32);
        let (mut s4, mut s5, mut s2) = ([0f64; 4], [0f64; 5], [0f64; 2]);
        let (mut t4, mut t5, mut t2) = ([0f32; 4], [0f32; 5], [0f32; 2]);
        for j in 0..24 {
            let mut x = rng.range(-1000, 1000) as f64 / 50.0;
            if j == 11 { x = [f64::NAN, f64::INFINITY, f64::NEG_INFINITY][rng.below(3) as usize]; }
            let ys = [bq.update(&mut s4, x), bq.update(&mut s5, x), bq.update(&mut s2, x)];
            let zs = [bq32.update(&mut t4, x as f32), bq32.update(&mut t5, x as f32), bq32.update(&mut t2, x as f32)];
            let bad = ys.iter().any(|y| !(mn <= *y && *y <= mx)) || zs.iter().any(|z| !(mn as f32 <= *z && *z <= mx as f32));
            if bad {
                rep.violation("biquad-limits-float", "min <= y <= max in all state forms and sample types (float, with offset)", &format!("Biquad<f64/f32> ba={:?} u={} limits [{}, {}] step {} x={}", ba, u, mn, mx, j, x), "within limits", &format!("{:?} {:?}", ys, zs));
                break;
            }
        }
        rep.count("float-limit-runs", 1);
    }
    // floats: limits and wind-up, bit-exact between durations
    for _ in 0..(m / 4) {
        let ki = rng.range(1, 1000) as f64 / 1000.0;
        let mut bq = idsp::iir::Biquad::<f32>::from([ki as f32, ki as f32 * 0.5, 0.0, -1.0, 0.0]);
        let (mn, mx) = (-(rng.range(1, 100) as f32), rng.range(1, 100) as f32);
        bq.set_min(mn);
        bq.set_max(mx);
        let x = rng.range(-50, 50) as f32 / 7.0;
        if x == 0.0 { continue; }
        let run = |l: usize| {
            let mut st = [0.0f32; 4];
            let mut sat = 0;
            let mut steps = 0;
            let mut last = f32::NAN;
            while sat < l && steps < 100000 {
                let y = bq.update(&mut st, x);
                if !(mn <= y && y <= mx) { return None; }
                if (y == mn || y == mx) && (last == y || sat == 0) { sat += 1 } else if y == mn || y == mx { sat = 1 } else { sat = 0 }
                last = y;
                steps += 1;
            }
            let mut outs = vec![];
            for j in 0..10 { outs.push(bq.update(&mut st, -x * (j as f32)).to_bits()); }
            Some(outs)
        };
        let (a, b) = (run(2), run(2 + rng.below(50) as usize));
        match (a, b) {
            (Some(a), Some(b)) => if a != b { rep.violation("biquad-windup-float", "f32 response bit-identical however long the saturation lasted", &format!("ki={} limits [{}, {}] x={}", ki, mn, mx, x), &format!("{:?}", a), &format!("{:?}", b)); },
            _ => rep.violation("biquad-limits-float", "f32 output within limits", &format!("ki={} limits [{}, {}] x={}", ki, mn, mx, x), "within", "outside"),
        }
        rep.count("windup-float-pairs", 1);
    }
    rep.sample("integrating Biquad<i32> (a1 = -ONE) saturating on max for L = 2 vs L = 2 + l".into());
}

// ------------------------------------------------------------------ C02
const LSB: f64 = std::f64::consts::PI / 2147483648.0;

fn wrap32(d: i64) -> i64 {
    ((d + (1 << 31)).rem_euclid(1 << 32)) - (1 << 31)
}

fn c02_point(y: i32, x: i32, l: &mut Local) {
    let inp = format!("atan2({}, {})", y, x);
    let Some(r) = guard(|| atan2(y, x)) else {
        l.violation("atan2-panic", "no input makes it panic or overflow", inp, "a value".into(), "PANIC".into());
        return;
    };
    l.count += 1;
    if x == 0 && y == 0 {
        if r != 0 {
            l.violation("atan2-zero", "atan2(0, 0) is 0", inp, "0".into(), r.to_string());
        }
        return;
    }
    // accuracy
    let want = (y as f64).atan2(x as f64);
    let mut err = (r as f64 * LSB - want).abs();
    if err > std::f64::consts::PI {
        err = 2.0 * std::f64::consts::PI - err;
    }
    let tol = (1.5e-5f64).max(1.0 / (x as f64).abs().max((y as f64).abs()));
    l.max("atan2_err_over_tol", err / tol);
    if err > tol {
        l.violation("atan2-accuracy", "within max(1.5e-5, 1/max(|x|,|y|)) rad", inp.clone(), format!("{} rad", want), format!("{} ({} rad)", r, r as f64 * LSB));
    }
    // quadrant (to within 1 LSB at the axes)
    let neg_ok = if y < 0 { r <= 0 } else { r >= -1 };
    let neg_ok = neg_ok && (y == 0 || x == 0 || ((r < 0) == (y < 0)));
    let mag = (r as i64).abs();
    let quarter_ok = if x >= 0 { mag <= (1 << 30) + 1 } else { mag >= (1 << 30) - 1 };
    let quarter_ok = quarter_ok && (x == 0 || y == 0 || ((mag <= (1 << 30)) == (x >= 0)));
    if !neg_ok || !quarter_ok {
        l.violation("atan2-quadrant", "negative exactly when y < 0; |r| <= quarter turn exactly when x >= 0", inp.clone(), "correct quadrant".into(), r.to_string());
    }
    // reflections (skip MIN operands: -MIN saturates)
    if y != i32::MIN && x != i32::MIN {
        let on_line = |cond: bool| if cond { "atan2-mirror-line" } else { "atan2-reflect" };
        if let Some(rx) = guard(|| atan2(-y, x)) {
            if wrap32(rx as i64 + r as i64).abs() > 1 {
                l.violation(on_line(y == 0), "reflection about the x axis reflects the result to within 1 LSB", format!("atan2({}, {}) vs atan2({}, {})", y, x, -y, x), format!("{}", -(r as i64)), rx.to_string());
            }
        }
        if let Some(ry) = guard(|| atan2(y, -x)) {
            if wrap32(ry as i64 + r as i64 - (1 << 31)).abs() > 1 {
                l.violation(on_line(x == 0), "reflection about the y axis reflects the result to within 1 LSB", format!("atan2({}, {}) vs atan2({}, {})", y, x, y, -x), format!("{}", wrap32((1i64 << 31) - r as i64)), ry.to_string());
            }
        }
        if let Some(rd) = guard(|| atan2(x, y)) {
            if wrap32(rd as i64 + r as i64 - (1 << 30)).abs() > 1 {
                l.violation(on_line((x as i64).abs() == (y as i64).abs()), "reflection about the diagonal reflects the result to within 1 LSB", format!("atan2({}, {}) vs atan2({}, {})", y, x, x, y), format!("{}", wrap32((1i64 << 30) - r as i64)), rd.to_string());
            }
        }
    }
}

fn c02(rng: &mut Rng, thorough: bool, hints: &[Vec<String>], rep: &mut Report) {
    // complete small square (incl. the repaired (3,3) class) and random/lattice pairs
    let side: i64 = if thorough { 1 << 11 } else { 1 << 8 };
    par((2 * side + 1) as u64, |c, l| {
        let y = c as i64 - side;
        for x in -side..=side {
            c02_point(y as i32, x as i32, l);
        }
    }, rep);
    rep.distinct += ((2 * side + 1) * (2 * side + 1)) as u64;
    rep.count("complete-small-square", 0);
    let n: u64 = if thorough { 1 << 26 } else { 1 << 21 };
    let seed = rng.next();
    par(256, |c, l| {
        let mut r = Rng::new(seed ^ (c << 20));
        for _ in 0..(n / 256) {
            let (y, x) = crate::gen::atan2_pair(&mut r);
            c02_point(y, x, l);
        }
    }, rep);
    rep.distinct += n;
    rep.count("lattice/near-axis/near-diagonal/power-of-two/random pairs", 0);
    // first-octant triangle, complete, in thorough
    if thorough {
        par(1 << 14, |c, l| {
            let x = c as i32 + 1;
            for y in 0..=x {
                c02_point(y, x, l);
            }
        }, rep);
        rep.count("first-octant-triangle-to-2^14-complete", 0);
    }
    let mut l = Local::default();
    for (y, x) in [(3, 3), (-3, 3), (3, -3), (-3, -3), (5, 5), (i32::MIN, i32::MIN), (i32::MIN, 0), (0, i32::MIN), (i32::MAX, i32::MAX), (i32::MIN, i32::MAX), (1, i32::MAX), (i32::MAX, 1)] {
        c02_point(y, x, &mut l);
    }
    for h in hints {
        if (h[0] == "atan2" || h[0] == "arg") && h.len() == 3 {
            if let (Ok(a), Ok(b)) = (h[1].parse::<i64>(), h[2].parse::<i64>()) {
                if h[0] == "atan2" { c02_point(a as i32, b as i32, &mut l) } else { c02_point(b as i32, a as i32, &mut l) }
            }
        }
        if h[0] == "divi" && h.len() == 3 {
            if let (Ok(a), Ok(b)) = (h[1].parse::<i64>(), h[2].parse::<i64>()) {
                c02_point(a as i32, b as i32, &mut l);
                c02_point(b as i32, a as i32, &mut l);
            }
        }
    }
    for (a, b, c, d, e) in l.viol {
        rep.violation(&a, &b, &c, &d, &e);
    }
    rep.evaluations += l.count;
    rep.sample(format!("atan2(3, 3) = {:?}, atan2(0, 2) = {:?}", guard(|| atan2(3, 3)), guard(|| atan2(0, 2))));
}

// ------------------------------------------------------------------ C19
fn c19_point(p: i32, l: &mut Local) {
    let Some((z, back, a2, lg)) = guard(|| {
        let z = Complex::<i32>::from_angle(p);
        (z, z.arg(), z.abs_sqr(), z.log2())
    }) else {
        l.violation("polar-panic", "no panic", format!("from_angle({}) / arg / abs_sqr / log2", p), "values".into(), "PANIC".into());
        return;
    };
    l.count += 1;
    let d = wrap32(back as i64 - p as i64).abs();
    l.max("polar_roundtrip_lsb", d as f64);
    if d > 15038 {
        l.violation("polar-roundtrip", "arg(from_angle(p)) = p to within 15038 LSB (mod 2^32)", format!("p = {}", p), p.to_string(), back.to_string());
    }
    let rel = 1.0 - a2 as f64 / 2147483648.0;
    l.max("polar_abs_sqr_deficit", rel);
    if !(a2 < (1u32 << 31) && rel <= 5e-5) {
        l.violation("polar-abs-sqr", "squared magnitude below 2^31 by a relative 5e-5 at most", format!("from_angle({}) = {:?}", p, z), "in [2^31(1-5e-5), 2^31)".into(), a2.to_string());
    }
    if lg != -2 {
        l.violation("polar-log2", "reported log2 is -2", format!("from_angle({}) = {:?}", p, z), "-2".into(), lg.to_string());
    }
}

fn c19(rng: &mut Rng, thorough: bool, hints: &[Vec<String>], rep: &mut Report) {
    let salt = rng.next();
    if thorough {
        par(1 << 12, |c, l| {
            for i in 0..(1u64 << 20) {
                c19_point(((c << 20) | i) as u32 as i32, l);
            }
        }, rep);
        rep.distinct += 1u64 << 32;
        rep.count("all-2^32-phases(exhaustive)", 0);
    } else {
        par(1 << 8, |c, l| {
            for i in 0..(1u64 << 16) {
                let blk = (c << 16) | i;
                let low = (blk.wrapping_mul(0x9E3779B97F4A7C15).wrapping_add(salt) >> 40) & 0xff;
                c19_point(((blk << 8) | low) as u32 as i32, l);
            }
        }, rep);
        rep.distinct += 1u64 << 24;
        rep.count("2^24-stratified-phases", 0);
    }
    let mut l = Local::default();
    for v in [0, 1, -1, i32::MIN, i32::MAX, 1 << 29, (1 << 29) - 1, 1 << 30, -(1 << 30), (1 << 31 - 1) - 1] {
        c19_point(v, &mut l);
    }
    for h in hints {
        if h[0] == "cossin" && h.len() == 2 {
            if let Ok(p) = h[1].parse::<i64>() {
                c19_point(p as i32, &mut l);
            }
        }
    }
    for (a, b, c, d, e) in l.viol {
        rep.violation(&a, &b, &c, &d, &e);
    }
    rep.sample(format!("arg(from_angle(12345678)) = {}", Complex::<i32>::from_angle(12345678).arg()));
}

// ------------------------------------------------------------------ C14 / C15 (half-band filters)
use idsp::hbf::{Filter as HF, HbfDec, HbfDecCascade, HbfInt, HbfIntCascade, HBF_TAPS, HBF_TAPS_98};

fn bits32(v: &[f32]) -> Vec<u32> {
    v.iter().map(|x| x.to_bits()).collect()
}

/// run a filter over `x` cut into `blocks` (input lengths), in place or not; returns concatenated output or None on panic
fn run_blocks<F: HF<Item = f32>>(f: &mut F, x: &[f32], blocks: &[usize], inplace: bool, up: usize, down: usize) -> Option<Vec<f32>> {
    let mut out = vec![];
    let mut pos = 0;
    for &b in blocks {
        let xin = &x[pos..pos + b];
        pos += b;
        let olen = b * up / down;
        let r = guard(|| {
            if inplace {
                let mut y = vec![0f32; b.max(olen)];
                y[..b].copy_from_slice(xin);
                f.process_block(None, &mut y[..b.max(olen)]).to_vec()
            } else {
                let mut y = vec![0f32; olen];
                f.process_block(Some(xin), &mut y).to_vec()
            }
        })?;
        if r.len() != olen {
            return None;
        }
        out.extend_from_slice(&r);
    }
    Some(out)
}

macro_rules! c14_stage {
    ($rng:expr, $rep:expr, $taps:expr, $m:expr, $extra:expr) => {{
        let rng: &mut Rng = $rng;
        let rep: &mut Report = $rep;
        const M: usize = $m;
        const N: usize = 2 * M - 1 + $extra;
        let taps: &[f32; M] = $taps;
        for dec in [true, false] {
            let (g, mx) = if dec { HbfDec::<f32, M, N>::new(taps).block_size() } else { HbfInt::<f32, M, N>::new(taps).block_size() };
            let unit = if dec { g } else { g / 2 };
            let maxin = if dec { mx } else { mx / 2 };
            let total = unit * rng.below(4 * (maxin / unit) as u64 + 2) as usize;
            let x = crate::gen::f32_stream(rng, total);
            let p1 = crate::gen::partition(rng, total, unit, maxin);
            let p2 = crate::gen::partition(rng, total, unit, maxin);
            let (ip1, ip2) = (rng.chance(1, 2), rng.chance(1, 2));
            let (o1, o2) = if dec {
                (run_blocks(&mut HbfDec::<f32, M, N>::new(taps), &x, &p1, ip1, 1, 2), run_blocks(&mut HbfDec::<f32, M, N>::new(taps), &x, &p2, ip2, 1, 2))
            } else {
                (run_blocks(&mut HbfInt::<f32, M, N>::new(taps), &x, &p1, ip1, 2, 1), run_blocks(&mut HbfInt::<f32, M, N>::new(taps), &x, &p2, ip2, 2, 1))
            };
            let inp = format!("{}<f32, {}, {}> stream of {} items, blocks {:?} (in-place {}) vs {:?} (in-place {})", if dec { "HbfDec" } else { "HbfInt" }, M, N, total, &p1[..p1.len().min(12)], ip1, &p2[..p2.len().min(12)], ip2);
            match (o1, o2) {
                (Some(a), Some(b)) => {
                    let want_len = if dec { total / 2 } else { total * 2 };
                    if a.len() != want_len || bits32(&a) != bits32(&b) {
                        let k = a.iter().zip(b.iter()).position(|(u, v)| u.to_bits() != v.to_bits());
                        rep.violation("hbf-partition", "bit-identical for every admissible partition and in-place/separate", &inp, &format!("len {}", want_len), &format!("lens {} {} first diff at {:?}", a.len(), b.len(), k));
                    }
                }
                _ => rep.violation("hbf-panic", "no admissible block makes it panic; returned length = in/2 or in*2", &inp, "outputs", "PANIC or wrong length"),
            }
            rep.count("hbf-stage-partition-pairs", 1);
            rep.distinct += 1;
        }
    }};
}

fn c14(rng: &mut Rng, thorough: bool, _hints: &[Vec<String>], rep: &mut Report) {
    let n = if thorough { 4000 } else { 300 };
    for _ in 0..n {
        match rng.below(10) {
            0 => c14_stage!(rng, rep, &HBF_TAPS.0, 23, 32),
            1 => c14_stage!(rng, rep, &HBF_TAPS.1, 9, 16),
            2 => c14_stage!(rng, rep, &HBF_TAPS.2, 5, 8),
            3 => c14_stage!(rng, rep, &HBF_TAPS.3, 4, 3),
            4 => c14_stage!(rng, rep, &HBF_TAPS.4, 3, 1),
            5 => c14_stage!(rng, rep, &HBF_TAPS_98.0, 15, 20),
            6 => c14_stage!(rng, rep, &HBF_TAPS_98.1, 6, 5),
            7 => c14_stage!(rng, rep, &HBF_TAPS_98.2, 3, 2),
            8 => c14_stage!(rng, rep, &HBF_TAPS_98.4, 2, 7),
            _ => c14_stage!(rng, rep, &HBF_TAPS_98.3, 3, 64),
        }
    }
    // cascades (in place only), depths 0..=4
    let m = if thorough { 1500 } else { 150 };
    for _ in 0..m {
        let depth = rng.below(5) as usize;
        for dec in [true, false] {
            let mut a = HbfDecCascade::default();
            a.set_depth(depth);
            let mut b = HbfIntCascade::default();
            b.set_depth(depth);
            let (g, mx) = if dec { a.block_size() } else { b.block_size() };
            let mx = mx.min(1 << 12);
            let (unit, maxin) = if dec { (g, mx) } else { (1, mx / g) };
            let total = unit * rng.below(3 * (maxin / unit) as u64 + 2) as usize;
            let x = crate::gen::f32_stream(rng, total);
            let p1 = crate::gen::partition(rng, total, unit, maxin);
            let p2 = crate::gen::partition(rng, total, unit, maxin);
            let (o1, o2) = if dec {
                let mut a2 = HbfDecCascade::default();
                a2.set_depth(depth);
                (run_blocks(&mut a, &x, &p1, true, 1, 1 << depth), run_blocks(&mut a2, &x, &p2, true, 1, 1 << depth))
            } else {
                let mut b2 = HbfIntCascade::default();
                b2.set_depth(depth);
                (run_blocks(&mut b, &x, &p1, true, 1 << depth, 1), run_blocks(&mut b2, &x, &p2, true, 1 << depth, 1))
            };
            let inp = format!("{} depth {} stream of {} items, blocks {:?} vs {:?}", if dec { "HbfDecCascade" } else { "HbfIntCascade" }, depth, total, &p1[..p1.len().min(12)], &p2[..p2.len().min(12)]);
            match (o1, o2) {
                (Some(u), Some(v)) => {
                    let want_len = if dec { total >> depth } else { total << depth };
                    if u.len() != want_len || bits32(&u) != bits32(&v) {
                        rep.violation("hbf-partition", "cascade output bit-identical for every admissible partition", &inp, &format!("len {}", want_len), &format!("lens {} {}", u.len(), v.len()));
                    }
                }
                _ => rep.violation("hbf-panic", "no admissible block makes it panic; returned length = in >> depth or in << depth", &inp, "outputs", "PANIC or wrong length"),
            }
            rep.count("hbf-cascade-partition-pairs", 1);
            rep.distinct += 1;
        }
    }
    rep.sample("HbfDec<f32, 23, 77> random stream cut two ways (empty, 2-item and maximal blocks), in place vs separate".into());
}

/// impulse response of the interpolating cascade (high rate) via the implementation
fn int_impulse(depth: usize) -> Vec<f32> {
    let mut h = HbfIntCascade::default();
    h.set_depth(depth);
    let k = 1usize << depth;
    let r = h.response_length();
    let nlow = (r + 1 + k - 1) / k + 4;
    let mut x = vec![0.0f32; nlow * k];
    x[0] = 1.0;
    // feed in blocks respecting the maximum
    let maxlow = h.block_size().1.min(1 << 10) / k;
    let mut out = vec![];
    let mut i = 0;
    let low: Vec<f32> = (0..nlow).map(|j| if j == 0 { 1.0 } else { 0.0 }).collect();
    while i < nlow {
        let b = maxlow.min(nlow - i).max(1);
        let mut y = vec![0f32; b * k];
        y[..b].copy_from_slice(&low[i..i + b]);
        out.extend_from_slice(h.process_block(None, &mut y));
        i += b;
    }
    out
}

/// impulse response of the decimating cascade (high rate), assembled from all input phases
fn dec_impulse(depth: usize, len: usize) -> Vec<f32> {
    let k = 1usize << depth;
    let nout = len / k + 6;
    let mut hfull = vec![0f32; nout * k];
    for p in 0..k {
        let mut h = HbfDecCascade::default();
        h.set_depth(depth);
        let mut y = vec![0f32; nout * k];
        y[p] = 1.0;
        let maxb = h.block_size().1.min(1 << 10);
        let mut out = vec![];
        let mut i = 0;
        while i < y.len() {
            let b = maxb.min(y.len() - i);
            let mut blk = y[i..i + b].to_vec();
            out.extend_from_slice(h.process_block(None, &mut blk));
            i += b;
        }
        // every stage's output i sits at input time 2i+1, so cascade output m sits at high-rate time m*k + (k-1):
        // out[m] = h[m*k + k - 1 - p]
        for (m, v) in out.iter().enumerate() {
            let j = m * k + k - 1 - p;
            if j < hfull.len() {
                hfull[j] = *v;
            }
        }
    }
    hfull
}

fn response_db(h: &[f64], f: f64) -> f64 {
    // f in cycles per (high-rate) sample
    let (mut re, mut im) = (0f64, 0f64);
    for (n, v) in h.iter().enumerate() {
        let ph = -2.0 * std::f64::consts::PI * f * n as f64;
        re += v * ph.cos();
        im += v * ph.sin();
    }
    10.0 * (re * re + im * im).log10()
}

fn c15(rng: &mut Rng, thorough: bool, _hints: &[Vec<String>], rep: &mut Report) {
    // --- stage = symmetric FIR (to float rounding), arbitrary streams
    macro_rules! fir_stage {
        ($taps:expr, $m:expr) => {{
            const M: usize = $m;
            const N: usize = 2 * M - 1 + 64;
            let taps: &[f32; M] = $taps;
            let mut full = vec![0f64; 4 * M - 1];
            for (i, t) in taps.iter().enumerate() {
                full[2 * i] = *t as f64;
                full[4 * M - 2 - 2 * i] = *t as f64;
            }
            full[2 * M - 1] = 1.0;
            let x = crate::gen::f32_stream(rng, 128);
            let scale: f64 = x.iter().map(|v| v.abs() as f64).fold(1e-30, f64::max);
            let conv = |sig: &[f64], t: i64| -> f64 { full.iter().enumerate().map(|(j, c)| { let i = t - j as i64; if i >= 0 && (i as usize) < sig.len() { c * sig[i as usize] } else { 0.0 } }).sum() };
            // decimator
            let mut d = HbfDec::<f32, M, N>::new(taps);
            let mut y = x.clone();
            let yd = d.process_block(None, &mut y).to_vec();
            let xs: Vec<f64> = x.iter().map(|v| *v as f64).collect();
            for (i, v) in yd.iter().enumerate() {
                let want = 0.5 * conv(&xs, 2 * i as i64 + 1);
                if (*v as f64 - want).abs() > 2e-6 * scale {
                    rep.violation("hbf-fir", "stage output = symmetric FIR (halved, decimated by two)", &format!("HbfDec<f32, {}, {}> output {}", M, N, i), &want.to_string(), &v.to_string());
                    break;
                }
            }
            // interpolator
            let mut it = HbfInt::<f32, M, N>::new(taps);
            let mut y = vec![0f32; 128];
            y[..64].copy_from_slice(&x[..64]);
            let yi = it.process_block(None, &mut y).to_vec();
            // the same blocks with a SEPARATE input slice must give the same items (decimator and interpolator)
            {
                let mut it2 = HbfInt::<f32, M, N>::new(taps);
                let mut y2 = vec![0f32; 128];
                let yi2 = it2.process_block(Some(&x[..64]), &mut y2).to_vec();
                let mut d2 = HbfDec::<f32, M, N>::new(taps);
                let mut yd2 = vec![0f32; 64];
                let yd2 = d2.process_block(Some(&x), &mut yd2).to_vec();
                if yi2.iter().map(|v| v.to_bits()).ne(yi.iter().map(|v| v.to_bits())) || yd2.iter().map(|v| v.to_bits()).ne(yd.iter().map(|v| v.to_bits())) {
                    let k = (0..yi.len()).find(|k| yi[*k].to_bits() != yi2[*k].to_bits());
                    rep.violation("hbf-fir", "stage output = symmetric FIR, identical for in-place and separate-buffer processing", &format!("Hbf stage <f32, {}, {}> process_block(Some(x), y) vs in place, stream style of 128 samples, first differing interpolator output {:?}", M, N, k), "bit-identical", "different");
                }
            }
            let mut stuffed = vec![0f64; 128];
            for i in 0..64 { stuffed[2 * i] = x[i] as f64; }
            for (m, v) in yi.iter().enumerate() {
                let want = conv(&stuffed, m as i64);
                if (*v as f64 - want).abs() > 2e-6 * scale {
                    rep.violation("hbf-fir", "stage output = symmetric FIR applied to the zero-stuffed input", &format!("HbfInt<f32, {}, {}> output {}", M, N, m), &want.to_string(), &v.to_string());
                    break;
                }
            }
            rep.count("hbf-fir-stage-outputs", (yd.len() + yi.len()) as u64);
            rep.distinct += 2;
        }};
    }
    let reps = if thorough { 200 } else { 20 };
    for _ in 0..reps {
        fir_stage!(&HBF_TAPS.0, 23);
        fir_stage!(&HBF_TAPS.1, 9);
        fir_stage!(&HBF_TAPS.2, 5);
        fir_stage!(&HBF_TAPS.3, 4);
        fir_stage!(&HBF_TAPS.4, 3);
        fir_stage!(&HBF_TAPS_98.0, 15);
        fir_stage!(&HBF_TAPS_98.1, 6);
        fir_stage!(&HBF_TAPS_98.2, 3);
        fir_stage!(&HBF_TAPS_98.3, 3);
        fir_stage!(&HBF_TAPS_98.4, 2);
    }
    // --- cascades = composition of the stage FIRs on arbitrary streams (dense AND sparse) cut into arbitrary
    //     admissible blocks: reference computed in f64 from the published taps, stage by stage
    {
        fn full_kernel(taps: &[f32]) -> Vec<f64> {
            let m = taps.len();
            let mut full = vec![0f64; 4 * m - 1];
            for (i, t) in taps.iter().enumerate() {
                full[2 * i] = *t as f64;
                full[4 * m - 2 - 2 * i] = *t as f64;
            }
            full[2 * m - 1] = 1.0;
            full
        }
        fn conv_at(full: &[f64], sig: &[f64], t: i64) -> f64 {
            full.iter().enumerate().map(|(j, c)| { let i = t - j as i64; if i >= 0 && (i as usize) < sig.len() { c * sig[i as usize] } else { 0.0 } }).sum()
        }
        let stage_taps: [&[f32]; 4] = [&HBF_TAPS.0, &HBF_TAPS.1, &HBF_TAPS.2, &HBF_TAPS.3];
        let runs = if thorough { 400 } else { 60 };
        for run in 0..runs {
            let depth = 1 + (run % 4) as usize;
            let k = 1usize << depth;
            let sparse = run % 3 != 0;
            // decimating cascade: high-rate stream of `nlow * k` samples
            let nlow = 24 + rng.below(40) as usize;
            let n = nlow * k;
            let mut x = crate::gen::f32_stream(rng, n);
            if sparse {
                // isolated samples separated by long runs of exact zeros (idle stretches)
                let keep = 1 + rng.below(6) as usize;
                let pos: Vec<usize> = (0..keep).map(|_| rng.below(n as u64) as usize).collect();
                for (i, v) in x.iter_mut().enumerate() { if !pos.contains(&i) { *v = 0.0; } else if *v == 0.0 { *v = 1.0; } }
            }
            let scale: f64 = x.iter().map(|v| v.abs() as f64).fold(1e-30, f64::max);
            let mut sig: Vec<f64> = x.iter().map(|v| *v as f64).collect();
            for j in (0..depth).rev() {
                let full = full_kernel(stage_taps[j]);
                sig = (0..sig.len() / 2).map(|i| 0.5 * conv_at(&full, &sig, 2 * i as i64 + 1)).collect();
            }
            let mut h = HbfDecCascade::default();
            h.set_depth(depth);
            let parts = crate::gen::partition(rng, n, k, h.block_size().1.min(n.max(k)));
            let mut out: Vec<f32> = vec![];
            let mut i = 0;
            for b in parts.iter() {
                let mut blk = x[i..i + b].to_vec();
                out.extend_from_slice(h.process_block(None, &mut blk));
                i += b;
            }
            let inp = format!("HbfDecCascade depth {} {} stream of {} samples, blocks {:?}", depth, if sparse { "sparse" } else { "dense" }, n, &parts[..parts.len().min(12)]);
            if out.len() != sig.len() {
                rep.violation("hbf-cascade-fir", "decimating cascade returns one output per 2^depth inputs", &inp, &sig.len().to_string(), &out.len().to_string());
            } else if let Some(m) = (0..out.len()).find(|m| (out[*m] as f64 - sig[*m]).abs() > 4e-6 * scale * depth as f64) {
                rep.violation("hbf-cascade-fir", "cascade output = composition of the published stage FIRs (to float rounding), independent of how the stream is cut", &format!("{} output {}", inp, m), &sig[m].to_string(), &out[m].to_string());
            }
            // interpolating cascade: low-rate stream
            let nl = 8 + rng.below(24) as usize;
            let mut xl = crate::gen::f32_stream(rng, nl);
            if sparse {
                let keep = 1 + rng.below(3) as usize;
                let pos: Vec<usize> = (0..keep).map(|_| rng.below(nl as u64) as usize).collect();
                for (i, v) in xl.iter_mut().enumerate() { if !pos.contains(&i) { *v = 0.0; } else if *v == 0.0 { *v = 1.0; } }
            }
            let scale: f64 = xl.iter().map(|v| v.abs() as f64).fold(1e-30, f64::max);
            let mut sig: Vec<f64> = xl.iter().map(|v| *v as f64).collect();
            for j in 0..depth {
                let full = full_kernel(stage_taps[j]);
                let mut stuffed = vec![0f64; 2 * sig.len()];
                for (i, v) in sig.iter().enumerate() { stuffed[2 * i] = *v; }
                sig = (0..stuffed.len()).map(|m| conv_at(&full, &stuffed, m as i64)).collect();
            }
            let mut h = HbfIntCascade::default();
            h.set_depth(depth);
            let maxlow = (h.block_size().1 / k).max(1);
            let parts = crate::gen::partition(rng, nl, 1, maxlow.min(nl));
            let mut out: Vec<f32> = vec![];
            let mut i = 0;
            for b in parts.iter() {
                let mut y = vec![0f32; b * k];
                y[..*b].copy_from_slice(&xl[i..i + b]);
                out.extend_from_slice(h.process_block(None, &mut y));
                i += b;
            }
            let inp = format!("HbfIntCascade depth {} {} stream of {} low-rate samples, blocks {:?}", depth, if sparse { "sparse" } else { "dense" }, nl, &parts[..parts.len().min(12)]);
            if out.len() != sig.len() {
                rep.violation("hbf-cascade-fir", "interpolating cascade returns 2^depth outputs per input", &inp, &sig.len().to_string(), &out.len().to_string());
            } else if let Some(m) = (0..out.len()).find(|m| (out[*m] as f64 - sig[*m]).abs() > 4e-6 * scale * k as f64) {
                rep.violation("hbf-cascade-fir", "cascade output = composition of the published stage FIRs (to float rounding), independent of how the stream is cut", &format!("{} output {}", inp, m), &sig[m].to_string(), &out[m].to_string());
            }
            rep.count("hbf-cascade-fir-streams", 2);
            rep.distinct += 2;
        }
    }
    // --- cascades: impulse response spec
    let grid = if thorough { 1 << 15 } else { 1 << 12 };
    for depth in 1..=4usize {
        let mut hc = HbfIntCascade::default();
        hc.set_depth(depth);
        let r = hc.response_length();
        let k = 1usize << depth;
        for dir in 0..2 {
            let h: Vec<f32> = if dir == 0 { int_impulse(depth) } else { dec_impulse(depth, r + 1) };
            let name = if dir == 0 { "HbfIntCascade" } else { "HbfDecCascade" };
            let inp = format!("{} depth {} impulse response (response_length {})", name, depth, r);
            // spans exactly r + 1 samples; zero afterwards
            let first_nz = h.iter().position(|v| *v != 0.0);
            let last_nz = h.iter().rposition(|v| *v != 0.0);
            if first_nz != Some(0) || last_nz != Some(r) {
                rep.violation("hbf-span", "impulse response spans exactly response_length()+1 high-rate samples, exactly zero afterwards", &inp, &format!("[0, {}]", r), &format!("{:?}..{:?}", first_nz, last_nz));
            }
            // exactly symmetric
            let sym = (0..=r).all(|i| h[i].to_bits() == h[r - i].to_bits() || (h[i] == h[r - i]));
            if !sym {
                let bad = (0..=r).find(|&i| h[i] != h[r - i]);
                rep.violation("hbf-symmetry", "impulse response exactly symmetric (linear phase)", &inp, "h[i] == h[r-i]", &format!("first asymmetric index {:?}", bad));
            }
            // DC gain, ripple, attenuation (f relative to the LOW rate: high-rate frequency = f / 2^depth)
            let norm = if dir == 0 { k as f64 } else { 1.0 };
            let hd: Vec<f64> = h[..=r.min(h.len() - 1)].iter().map(|v| *v as f64 / norm).collect();
            let dc: f64 = hd.iter().sum();
            rep.stat_max("hbf_dc_err", (dc - 1.0).abs());
            if (dc - 1.0).abs() > 1e-6 {
                rep.violation("hbf-dc", "unity DC gain", &inp, "1", &dc.to_string());
            }
            let mut ripple = 0f64;
            let mut stop = -400f64;
            for gi in 0..=grid {
                let f_low = gi as f64 / grid as f64 * (k as f64 / 2.0); // 0 .. high-rate Nyquist in units of the low rate
                let db = response_db(&hd, f_low / k as f64);
                if f_low <= 0.4 {
                    ripple = ripple.max(db.abs());
                } else if f_low >= 0.6 {
                    stop = stop.max(db);
                }
            }
            rep.stat_max("hbf_passband_ripple_db", ripple);
            rep.stat_max("hbf_stopband_db", stop);
            if ripple > 3e-6 {
                rep.violation("hbf-ripple", "at most 3e-6 dB ripple up to 0.4 of the low sample rate", &inp, "<= 3e-6 dB", &ripple.to_string());
            }
            if stop > -138.0 {
                rep.violation("hbf-stopband", "at least 138 dB attenuation beyond 0.6 of the low sample rate", &inp, "<= -138 dB", &stop.to_string());
            }
            rep.count("hbf-cascade-response-grid-points", grid as u64 + 1);
            rep.distinct += 1;
        }
        // zero after response_length further outputs of zero input, from a random state (decimator)
        let mut d = HbfDecCascade::default();
        d.set_depth(depth);
        let blk = d.block_size().1.min(1 << 10);
        let mut y: Vec<f32> = crate::gen::f32_stream(rng, blk);
        d.process_block(None, &mut y);
        let mut zo = vec![];
        for _ in 0..((1 << 11) / blk).max(1) {
            let mut z = vec![0.0f32; blk];
            zo.extend_from_slice(d.process_block(None, &mut z));
        }
        let n = d.response_length();
        if zo[n..].iter().any(|v| *v != 0.0) {
            rep.violation("hbf-zero-after", "after response_length() outputs of zero input every output is exactly zero", &format!("HbfDecCascade depth {}", depth), "all zero", "non-zero");
        }
    }
    rep.sample("HbfIntCascade depth 4 impulse response: 907 samples, symmetric".into());
}

// ------------------------------------------------------------------ C07 (RPLL)
/// returns (worst relative frequency error, worst phase error in turns) over the last `tail` updates
fn rpll_run(dt2: u32, sf: u32, sp: u32, p: i64, off: i64, t0: i64, tail: u64, start: Option<(i32, u32, u32, i32)>) -> Option<(f64, f64)> {
    let n = (1u64 << (sf - dt2 + 5)) + (1u64 << (sp - dt2 + 5));
    let mut r = match start {
        None => RPLL::new(dt2),
        Some((x, ff, f, y)) => RPLL::verif_from_raw(dt2, x, ff, f, y),
    };
    let mut next = t0 + off;
    let mut time = t0;
    let (mut wf, mut wp) = (0f64, 0f64);
    let ftrue = (1u128 << (32 + dt2)) as f64 / p as f64;
    for i in 0..(n + tail) {
        let ts = if time >= next {
            let t = next;
            next += p;
            Some(t as i32)
        } else {
            None
        };
        let (y, f) = guard(|| r.update(ts, sf, sp))?;
        if (y, f) != (r.phase(), r.frequency()) {
            return None;
        }
        if i >= n {
            let ef = ((f as f64) - ftrue).abs() / ftrue;
            let ph = ((time - (next - p)) as f64 / p as f64).rem_euclid(1.0);
            let yt = y as u32 as f64 / 4294967296.0;
            let mut ep = (yt - ph).abs();
            if ep > 0.5 {
                ep = 1.0 - ep;
            }
            wf = wf.max(ef);
            wp = wp.max(ep);
        }
        time += 1 << dt2;
    }
    Some((wf, wp))
}

fn c07(rng: &mut Rng, thorough: bool, _hints: &[Vec<String>], rep: &mut Report) {
    let ncfg = if thorough { 3000 } else { 300 };
    let max_span = if thorough { 17 } else { 13 }; // sf - dt2: the run takes 2^(sf-dt2+6) updates
    let mut cfgs = vec![];
    // the listed witness first
    cfgs.push((8u32, 23u32, 22u32, 990i64, 351i64));
    cfgs.push((2u32, 3u32, 2u32, 6i64, 1i64)); // listed edge-of-region witness (never locks)
    for i in 0..ncfg {
        let dt2 = 2 + rng.below(10) as u32;
        let sf = (dt2 + 1 + rng.below(max_span as u64) as u32).min(30);
        let sp = if rng.chance(1, 2) { sf } else { sf - 1 };
        if sp < dt2 {
            continue;
        }
        let lo = (1i64 << dt2) + 1;
        let hi = (1i64 << sf).min(1i64 << (sp + 1)) - 1;
        if hi < lo {
            continue;
        }
        let p = match i % 5 {
            0 => lo,
            1 => hi,
            2 => ((1i64 << (dt2 + 1 + rng.below((sf - dt2) as u64) as u32)) + rng.range(-1, 1)).clamp(lo, hi),
            _ => rng.range(lo, hi),
        };
        let off = match i % 3 { 0 => 0, 1 => p - 1, _ => rng.range(0, p - 1) };
        cfgs.push((dt2, sf, sp, p, off));
    }
    let seeds: Vec<u64> = cfgs.iter().map(|_| rng.next()).collect();
    let cfgs_ref = &cfgs;
    let seeds_ref = &seeds;
    par(cfgs.len() as u64, |c, l| {
        let (dt2, sf, sp, p, off) = cfgs_ref[c as usize];
        // start time so that timestamps cross the i32 boundary during the run, aligned to 2^dt2
        let n = (1i64 << (sf - dt2 + 5)) + (1i64 << (sp - dt2 + 5));
        // half of the runs cross the boundary during acquisition, the other half 1000 updates after the stated
        // settling time (inside the window in which the estimates must "stay there")
        let cross = if c % 2 == 0 { n / 2 } else { n + 1000 };
        let t0 = ((i32::MAX as i64) - cross * (1 << dt2) + (seeds_ref[c as usize] % 500) as i64 * (1 << dt2)) & !((1i64 << dt2) - 1);
        // a quarter of the runs: the offset is chosen so that one reference edge falls EXACTLY on the wrap point
        // (timestamp i32::MIN), after the stated settling time
        let off = if c % 4 == 1 { ((1i64 << 31) - t0).rem_euclid(p) } else { off };
        let inp = format!("RPLL::new({}) shift_frequency={} shift_phase={} period={} offset={} t0={}", dt2, sf, sp, p, off, t0);
        l.count += 1;
        match rpll_run(dt2, sf, sp, p, off, t0, 2000, None) {
            None => l.violation("rpll-panic", "no panic within the timing contract; returned pair equals the getters", inp, "values".into(), "PANIC or pair != getters".into()),
            Some((wf, wp)) => {
                if wf <= 1e-5 && wp <= 1e-3 {
                    return;
                }
                let pf = p as f64;
                let good = pf >= 1.5 * (1u64 << dt2) as f64 && pf <= 0.6 * ((1u64 << sf).min(1u64 << (sp + 1))) as f64;
                let e_p = 1.02 * 2f64.powi(sf as i32 + sp as i32 - dt2 as i32 - 33) / pf + 1e-3;
                let e_f = 2.0 * 2f64.powi(sf as i32 - dt2 as i32 - 33) + 1e-5;
                let class = if !good {
                    "rpll-edge-of-admissible-region"
                } else if wp <= e_p && wf <= e_f {
                    "rpll-deadband-offset"
                } else {
                    "rpll-lock"
                };
                l.violation(class, "frequency within 1e-5 relative and phase within 1e-3 turns after 2^(sf-dt2+5)+2^(sp-dt2+5) updates", inp, format!("ef <= 1e-5, ep <= 1e-3 (dead-band envelopes {:.3e}, {:.3e})", e_f, e_p), format!("ef={:.3e} ep={:.3e}", wf, wp));
            }
        }
    }, rep);
    rep.distinct += cfgs.len() as u64;
    rep.count("rpll-admissible-configurations", 0);
    // contract: returned pair = getters, arbitrary states, None inputs never panic under the asserts
    let n = if thorough { 2_000_000 } else { 200_000 };
    for _ in 0..n {
        let dt2 = rng.below(12) as u32;
        let sf = dt2 + 1 + rng.below(19) as u32;
        let sp = if rng.chance(1, 2) { sf } else { sf - 1 };
        let mut r = RPLL::verif_from_raw(dt2, rng.i32(), rng.u32(), rng.u32(), rng.i32());
        let (_, x0, _, _, _) = r.verif_raw();
        // non-negative timestamp step (the contract) or None
        let inp = if rng.chance(1, 2) { None } else { Some(x0.wrapping_add(rng.range(0, i32::MAX as i64) as i32)) };
        let before = r.verif_raw();
        match guard(|| r.update(inp, sf, sp)) {
            None => rep.violation("rpll-panic", "no panic within the timing contract", &format!("RPLL{:?}.update({:?}, {}, {})", before, inp, sf, sp), "a value", "PANIC"),
            Some(o) => {
                if o != (r.phase(), r.frequency()) {
                    rep.violation("rpll-getters", "returned pair equals the phase and frequency getters", &format!("RPLL{:?}.update({:?}, {}, {})", before, inp, sf, sp), &format!("{:?}", (r.phase(), r.frequency())), &format!("{:?}", o));
                }
            }
        }
    }
    rep.count("rpll-single-steps", n);
    rep.sample("RPLL::new(8) sf=23 sp=22 period=990 offset=351 (listed dead-band witness)".into());
}

// ------------------------------------------------------------------ C08 (PID builder)
fn cplx_div(a: (f64, f64), b: (f64, f64)) -> (f64, f64) {
    let d = b.0 * b.0 + b.1 * b.1;
    ((a.0 * b.0 + a.1 * b.1) / d, (a.1 * b.0 - a.0 * b.1) / d)
}
fn poly2(c: [f64; 3], w: (f64, f64)) -> (f64, f64) {
    // c0 + c1 w + c2 w^2
    let w2 = (w.0 * w.0 - w.1 * w.1, 2.0 * w.0 * w.1);
    (c[0] + c[1] * w.0 + c[2] * w2.0, c[1] * w.1 + c[2] * w2.1)
}

fn c08(rng: &mut Rng, thorough: bool, _hints: &[Vec<String>], rep: &mut Report) {
    use idsp::iir::{Action, Order, PidBuilder};
    let acts = [Action::I2, Action::I, Action::P, Action::D, Action::D2];
    let n = if thorough { 400_000 } else { 40_000 };
    for i in 0..n {
        let dec = |rng: &mut Rng| -> f64 { 10f64.powi(rng.range(-9, 9) as i32) * (1.0 + rng.below(900) as f64 / 100.0) };
        let period = 10f64.powi(rng.range(-6, 2) as i32) * (1.0 + rng.below(9) as f64);
        let (order, oi) = [(Order::P, 2usize), (Order::I, 1), (Order::I2, 0)][rng.below(3) as usize];
        let sign = if rng.chance(1, 4) { -1.0 } else { 1.0 };
        let mut b = PidBuilder::<f64>::default();
        let mut gains = [0f64; 5];
        let mut limits = [f64::INFINITY; 5];
        let nolim = i % 3 == 0;
        for j in 0..5 {
            if rng.chance(1, 2) { gains[j] = sign * dec(rng); }
            if !nolim && rng.chance(1, 3) { limits[j] = sign * dec(rng); }
        }
        let _ = &acts;
        crate::gen::pid_setup(rng, &mut b, period, order, &gains, &limits);
        let inp = format!("PidBuilder period={} order={:?} gains={:?} limits={:?}", period, order, gains, limits);
        let c: [f64; 5] = b.build();
        // expected g_i, l_i
        let mut g = [0f64; 3];
        let mut l = [0f64; 3];
        for j in 0..3 {
            let idx = oi + j;
            let z = period.powi(2 - idx as i32);
            g[j] = gains[idx] * z;
            l[j] = if idx == 2 { 1.0 } else { g[j] / limits[idx] };
        }
        let lsum = l[0] + l[1] + l[2];
        if c.iter().all(|v| v.is_finite()) && lsum.abs() > 1e-12 {
            // transfer function at a few frequencies
            for _ in 0..3 {
                let w = std::f64::consts::PI * (rng.below(1000) as f64 + 0.5) / 1000.0;
                let zi = (w.cos(), -w.sin());
                let d = (1.0 - zi.0, -zi.1);
                let d2 = (d.0 * d.0 - d.1 * d.1, 2.0 * d.0 * d.1);
                let num = (g[0] + g[1] * d.0 + g[2] * d2.0, g[1] * d.1 + g[2] * d2.1);
                let den = (l[0] + l[1] * d.0 + l[2] * d2.0, l[1] * d.1 + l[2] * d2.1);
                let hb = poly2([c[0], c[1], c[2]], zi);
                let ha = poly2([1.0, c[3], c[4]], zi);
                // compare cross-multiplied to avoid poles: hb * den == num * ha
                let lhs = (hb.0 * den.0 - hb.1 * den.1, hb.0 * den.1 + hb.1 * den.0);
                let rhs = (num.0 * ha.0 - num.1 * ha.1, num.0 * ha.1 + num.1 * ha.0);
                let scale = (hb.0.hypot(hb.1) * den.0.hypot(den.1)).max(num.0.hypot(num.1) * ha.0.hypot(ha.1)).max(1e-300);
                let mag_terms = (c[0].abs() + c[1].abs() + c[2].abs()) * (l[0].abs() + 2.0 * l[1].abs() + 4.0 * l[2].abs()) + (g[0].abs() + 2.0 * g[1].abs() + 4.0 * g[2].abs()) * (1.0 + c[3].abs() + c[4].abs());
                if (lhs.0 - rhs.0).hypot(lhs.1 - rhs.1) > 1e-9 * scale.max(mag_terms * 1e-3) {
                    rep.violation("pid-transfer", "coefficients realise (g0+g1 D+g2 D^2)/(l0+l1 D+l2 D^2)", &format!("{} at w={}", inp, w), &format!("{:?}", cplx_div(num, den)), &format!("{:?}", cplx_div(hb, ha)));
                    break;
                }
            }
            rep.count("pid-transfer-points", 3);
        }
        if nolim {
            let want: [f64; 2] = match oi { 2 => [0.0, 0.0], 1 => [-1.0, 0.0], _ => [-2.0, 1.0] };
            let c32: Option<[f32; 5]> = guard(|| b.build());
            let ok64 = c[3] == want[0] && c[4] == want[1];
            let ok32 = c32.map(|c| c[3] as f64 == want[0] && c[4] as f64 == want[1]).unwrap_or(false);
            if !ok64 || !ok32 {
                rep.violation("pid-kernel", "no limits: feedback coefficients are exactly the integrator kernel (floats)", &inp, &format!("{:?}", want), &format!("{:?} {:?}", &c[3..], c32.map(|c| [c[3], c[4]])));
            }
            macro_rules! ik {
                ($t:ty, $q:expr) => {{
                    if let Some(ci) = guard(|| b.build::<$t>()) {
                        let one: i128 = 1i128 << $q;
                        let wi: [i128; 2] = match oi { 2 => [0, 0], 1 => [-one, 0], _ => [-2 * one, one] };
                        if ci[3] as i128 != wi[0] || ci[4] as i128 != wi[1] {
                            rep.violation("pid-kernel", "no limits: feedback coefficients are exactly the integrator kernel (fixed point)", &format!("{} as {}", inp, stringify!($t)), &format!("{:?}", wi), &format!("{:?}", &ci[3..]));
                        }
                    }
                }};
            }
            ik!(i16, 14);
            ik!(i32, 30);
            ik!(i64, 62);
            rep.count("pid-kernel", 5);
        }
        // order P, lone proportional gain builds exactly Biquad::proportional
        if i % 7 == 0 {
            let gp = sign * dec(rng).min(1.9);
            let mut p = PidBuilder::<f64>::default();
            p.order(Order::P).gain(Action::P, gp).period(period);
            let bi: idsp::iir::Biquad<i32> = guard(|| p.build::<i32>()).map(|c| c.into()).unwrap_or_default();
            let bf: idsp::iir::Biquad<f32> = p.build::<f32>().into();
            if bi != idsp::iir::Biquad::proportional(<i32 as Coefficient>::quantize(gp)) || bf != idsp::iir::Biquad::proportional(gp as f32) {
                rep.violation("pid-proportional", "order P with a lone proportional gain builds exactly Biquad::proportional", &format!("gain {} period {}", gp, period), "Biquad::proportional(quantize g)", &format!("{:?} {:?}", bi, bf));
            }
            rep.count("pid-proportional", 2);
        }
        rep.distinct += 1;
    }
    // `Pid::build` (and `BiquadRepr::Pid`) is `PidBuilder` fed with b_scale-scaled, P-signed gains AND limits
    {
        use idsp::iir::Pid;
        let m = if thorough { 50_000 } else { 5_000 };
        for i in 0..m {
            let dec = |rng: &mut Rng| -> f64 { 10f64.powi(rng.range(-4, 3) as i32) * (1.0 + rng.below(900) as f64 / 100.0) };
            let period = 10f64.powi(rng.range(-3, 0) as i32) * (1.0 + rng.below(9) as f64);
            let b_scale = if i % 4 == 0 { 1.0 } else { dec(rng) };
            let y_scale = dec(rng);
            let order = [Order::P, Order::I, Order::I2][rng.below(3) as usize];
            let mut pid = Pid::<f64>::default();
            *pid.order = order;
            let p = dec(rng) * if rng.chance(1, 4) { -1.0 } else { 1.0 };
            let mut bld = PidBuilder::<f64>::default();
            bld.period(period).order(order);
            for j in 0..5 {
                let g = if j == 2 { p } else if rng.chance(1, 2) { dec(rng) } else { 0.0 };
                let l = if rng.chance(1, 2) { f64::INFINITY } else { dec(rng) * 10.0 };
                *pid.gain.value[j] = g;
                *pid.limit.value[j] = l;
                bld.gain(acts[j], b_scale * g.copysign(p)).limit(acts[j], b_scale * l.copysign(p));
            }
            let want: [f64; 5] = bld.build();
            let got = *pid.build::<f64, f64>(period, b_scale, y_scale).ba();
            if want.iter().all(|v| v.is_finite()) && got.iter().zip(want.iter()).any(|(a, b)| a.to_bits() != b.to_bits()) {
                rep.violation("pid-repr", "Pid::build realises the requested gains and gain limits in machine units (b_scale applies to gains and limits alike)", &format!("Pid order={:?} gains={:?} limits={:?} .build(period={}, b_scale={}, y_scale={})", order, pid.gain.value.map(|v| *v), pid.limit.value.map(|v| *v), period, b_scale, y_scale), &format!("{:?}", want), &format!("{:?}", got));
            }
            rep.count("pid-repr", 1);
        }
    }
    // "quantise the normalised gains, then expand with integer derivative kernels": for fixed-point coefficients the
    // three individually quantised gains / normalised limits are recovered EXACTLY from the built coefficients
    // (g2 = b2, g1 = -(b1 + 2 b2), g0 = b0 + b1 + b2; likewise for the feedback side with a0 = ONE implied) and
    // each must be the quantisation of gain_i * period^(2-i) / (l0 + l1 + l2) computed in the builder's float type,
    // for BOTH builder float types and coefficient types that resolve gains far below the largest one
    macro_rules! gains_individually {
        ($T:ty, $C:ty, $q:expr, $i:expr) => {{
            let dec = |rng: &mut Rng| -> $T { (10.0 as $T).powi(rng.range(-9, 5) as i32) * (1.0 + rng.below(900) as $T / 100.0) };
            let period: $T = (10.0 as $T).powi(rng.range(-3, 1) as i32) * (1.0 + rng.below(9) as $T);
            let (order, oi) = [(Order::P, 2usize), (Order::I, 1), (Order::I2, 0)][rng.below(3) as usize];
            let sign: $T = if rng.chance(1, 4) { -1.0 } else { 1.0 };
            let mut gains = [0.0 as $T; 5];
            let mut limits = [<$T>::INFINITY; 5];
            for j in 0..5 {
                if rng.chance(2, 3) { gains[j] = sign * dec(rng); }
                if $i % 2 == 0 && rng.chance(1, 3) { limits[j] = sign * dec(rng) * 1e3; }
            }
            let mut b = PidBuilder::<$T>::default();
            b.period(period).order(order);
            for j in 0..5 { b.gain(acts[j], gains[j]).limit(acts[j], limits[j]); }
            // reference, in the builder's float type and in the code's order of operations
            let mut z = period.powi(-(oi as i32));
            let mut gl = [[0.0 as $T; 2]; 3];
            for j in (0..3).rev() {
                let idx = oi + j;
                gl[j][0] = gains[idx] * z;
                gl[j][1] = if idx == 2 { 1.0 } else { gl[j][0] / limits[idx] };
                z = z * period;
            }
            let a0i = 1.0 / (gl[0][1] + gl[1][1] + gl[2][1]);
            let one = (1i128 << $q) as f64;
            let lim = 1.9 * one; // stay clear of the saturating cast and of coefficient-sum overflow
            let wantf: Vec<[f64; 2]> = gl.iter().map(|p| [(p[0] * a0i) as f64 * one, (p[1] * a0i) as f64 * one]).collect();
            let fits = a0i.is_finite() && wantf.iter().all(|p| p[0].abs() < lim / 4.0 && p[1] >= 0.0 && p[1] <= 1.0001 * one);
            // documented coefficient overflow (wraps silently in release): decide it from the reference's own quantised values
            let rq: Vec<[i128; 2]> = wantf.iter().map(|p| [p[0].round() as i128, p[1].round() as i128]).collect();
            // margin: the implementation's quantised values may differ from the reference's by the float rounding of the
            // normalisation, so a sum within that distance of the type's range may overflow on one side only
            let (tmin, tmax) = (<$C>::MIN as i128, <$C>::MAX as i128);
            let inside = |v: i128| { let m = 8 + ((v.unsigned_abs() as f64) * 64.0 * (<$T>::EPSILON as f64)) as i128; v >= tmin + m && v <= tmax - m };
            let no_overflow = fits && [rq[0][0] + rq[1][0] + rq[2][0], -(rq[1][0] + 2 * rq[2][0]), rq[2][0], -(rq[1][1] + 2 * rq[2][1]), rq[2][1], rq[0][1] + rq[1][1] + rq[2][1]].iter().all(|v| inside(*v))
                // the exact integrator kernels sit ON the boundary (a1 = -2 ONE = MIN) and are fine
                || fits && wantf.iter().all(|p| p[1] == 0.0 || p[1] == one) && [rq[0][0] + rq[1][0] + rq[2][0], -(rq[1][0] + 2 * rq[2][0])].iter().all(|v| inside(*v));
            if no_overflow {
                let inp = format!("PidBuilder::<{}> period={} order={:?} gains={:?} limits={:?} .build::<{}>()", stringify!($T), period, order, gains, limits, stringify!($C));
                match guard(|| b.build::<$C>()) {
                    // documented: "Will panic in debug mode on fixed point coefficient overflow" (e.g. a1 = -(l1 + 2 l2)
                    // just below -2 ONE when the normalisation 1/(1 + tiny) rounds to 1 in f32): not part of the property
                    None => rep.count("pid-gains-individually-skipped-documented-overflow", 1),
                    Some(c) => {
                        let c: Vec<i128> = c.iter().map(|v| *v as i128).collect();
                        let onei = 1i128 << $q;
                        // b = [b0, b1, b2], a = [ONE (implied), a1, a2]
                        let gq = [c[0] + c[1] + c[2], -(c[1] + 2 * c[2]), c[2]];
                        let lq = [onei + c[3] + c[4], -(c[3] + 2 * c[4]), c[4]];
                        for j in 0..3 {
                            for (k, got) in [(0usize, gq[j]), (1usize, lq[j])] {
                                let w = wantf[j][k];
                                // the recovered l0 is ONE - (l1 + l2), not a quantised value of its own: error relative to ONE
                                let slack = 2.0 + (if k == 1 && j == 0 { one } else { w.abs() }) * 16.0 * (<$T>::EPSILON as f64);
                                if (got as f64 - w).abs() > slack {
                                    rep.violation("pid-gains-individually", "each period-scaled gain / normalised limit is quantised on its own and expanded with the integer kernels [1], [1,-1], [1,-2,1]", &format!("{} ({} {})", inp, if k == 0 { "gain" } else { "limit" }, j), &format!("{:.1} (+-{:.1}) LSB", w, slack), &got.to_string());
                                }
                            }
                        }
                    }
                }
                rep.count(concat!("pid-gains-individually[", stringify!($T), "->", stringify!($C), "]"), 1);
            }
        }};
    }
    let m = if thorough { 200_000 } else { 20_000 };
    for i in 0..m {
        gains_individually!(f32, i32, 30, i);
        gains_individually!(f32, i64, 62, i);
        gains_individually!(f64, i32, 30, i);
        gains_individually!(f64, i64, 62, i);
        gains_individually!(f32, i16, 14, i);
    }
    rep.sample("PidBuilder period=1 I=1e-3 P=1 D=1e2 limit I=1e3 D=1e1 (crate unit test)".into());
}

// ------------------------------------------------------------------ C09 (filter builders)
fn hz(ba: &[[f64; 3]; 2], zi: (f64, f64)) -> ((f64, f64), (f64, f64)) {
    (poly2(ba[0], zi), poly2(ba[1], zi))
}

fn c09(rng: &mut Rng, thorough: bool, _hints: &[Vec<String>], rep: &mut Report) {
    let n = if thorough { 1_000_000 } else { 100_000 };
    for i in 0..n {
        let (mut f0, mut shape, mut sk, mut sv, mut gain, mut shelf) = crate::gen::coeff_params(rng);
        let mut typ = rng.below(9);
        if i == 0 {
            // listed witness of F-C09-b: steep slope at a large shelf gain
            (f0, shape, sk, sv, gain, shelf, typ) = (0.1, idsp::iir::Shape::Slope(2.0), 2, 2.0, 1.0, 100.0, 6);
        } else if i == 1 {
            // listed witness of F-C09-c: a bandwidth of tens of octaves
            (f0, shape, sk, sv, gain, shelf, typ) = (0.40, idsp::iir::Shape::Bandwidth(44.3), 1, 44.3, 1.0, 1.0, 0);
        }
        let w0 = std::f64::consts::TAU * f0;
        let mut f = idsp::iir::Filter::<f64>::default();
        crate::gen::coeff_setup_f0(rng, &mut f, Some(f0), w0, shape, gain, shelf);
        let ba = crate::gen::coeff_build(&f, typ);
        let names = ["lowpass", "highpass", "bandpass", "allpass", "notch", "peaking", "lowshelf", "highshelf", "iho"];
        let inp = format!("Filter f0={} shape={:?} gain={} shelf={} .{}()", f0, shape, gain, shelf, names[typ as usize]);
        rep.count("coeff-configs", 1);
        let finite = ba.iter().flatten().all(|v| v.is_finite());
        if !finite {
            // steep slope at large |log shelf|: the cookbook radicand is negative
            let a = shelf.sqrt();
            let steep = sk == 2 && sv * (a - 1.0) * (a - 1.0) >= (shelf + 1.0) * (1.0 - 1e-9);
            // bandwidths of tens of octaves: sinh overflows f64 (same root cause as the precision finding)
            let sinh_arg = std::f64::consts::LN_2 / 2.0 * sv * w0 / w0.sin();
            let huge = sk == 1 && sinh_arg > 36.0;
            rep.violation(if steep { "coeff-slope-radicand-negative" } else if huge { "coeff-alpha-exceeds-f64-precision" } else { "coeff-nonfinite" }, "finite coefficients for in-range parameters", &inp, "finite", &format!("{:?}", ba));
            continue;
        }
        let qi = {
            // inverse Q as the model defines it
            match sk {
                0 => 1.0 / sv,
                1 => 2.0 * (std::f64::consts::LN_2 / 2.0 * sv * w0 / w0.sin()).sinh(),
                _ => { let a = shelf.sqrt(); ((a + 1.0 / a) * (1.0 / sv - 1.0) + 2.0).sqrt() }
            }
        };
        let dc = hz(&ba, (1.0, 0.0));
        let ny = hz(&ba, (-1.0, 0.0));
        let c0 = hz(&ba, (w0.cos(), -w0.sin()));
        let mag = |h: ((f64, f64), (f64, f64))| (h.0 .0.hypot(h.0 .1)) / (h.1 .0.hypot(h.1 .1));
        let gdc = dc.0 .0 / dc.1 .0;
        let gny = ny.0 .0 / ny.1 .0;
        // rounding: 1 +- alpha loses alpha*eps absolutely; the DC / Nyquist denominators are 2 -+ 2 cos w0
        let alpha = 0.5 * w0.sin() * qi;
        let amp = 1e-6 + 1e-15 * alpha * (1.0 + 1.0 / (1.0 - w0.cos()) + 1.0 / (1.0 + w0.cos())) * (1.0 + shelf.sqrt() + 1.0 / shelf.sqrt());
        if alpha * 2.220446049250313e-16 >= 0.25 * (1.0 - w0.cos().abs()) {
            // the rounding error of 1 +- alpha (alpha * 2^-52) reaches the Jury margin a0 + a2 - |a1| = 2 - 2|cos w0|:
            // in f64 the poles are no longer provably inside the unit circle (for alpha >= 2^53: a2 = -a0 exactly)
            rep.violation("coeff-alpha-exceeds-f64-precision", "poles strictly inside the unit circle (f64 coefficients)", &inp, "|a2| < a0", &format!("alpha = {:e}, a = {:?}", alpha, ba[1]));
            continue;
        }
        let close = |a: f64, b: f64| (a - b).abs() <= amp * a.abs().max(b.abs()).max(1e-300);
        // numerically "zero": relative to the size of the terms that cancel
        let numscale = (ba[0][0].abs() + ba[0][1].abs() + ba[0][2].abs()).max(1e-300);
        let zero = |v: f64| v.abs() <= 1e-9 * numscale;
        let g = gain;
        let ok = match typ {
            0 => close(gdc, g) && zero(ny.0 .0) && close(mag(c0), g.abs() / qi),
            1 => close(gny, g) && zero(dc.0 .0) && close(mag(c0), g.abs() / qi),
            2 => zero(dc.0 .0) && zero(ny.0 .0) && close(mag(c0), g.abs()),
            3 => {
                let w = rng.below(10000) as f64 / 10000.0 * std::f64::consts::PI;
                close(mag(hz(&ba, (w.cos(), -w.sin()))), g.abs()) && close(gdc, g) && close(gny, g)
            }
            4 => close(gdc, g) && close(gny, g) && (c0.0 .0.hypot(c0.0 .1) <= 1e-9 * numscale),
            5 => close(gdc, g) && close(gny, g) && close(mag(c0), g.abs() * shelf),
            6 => close(gdc, g * shelf) && close(gny, g),
            7 => close(gdc, g) && close(gny, g * shelf),
            _ => (ba[1][0] + ba[1][1] + ba[1][2]).abs() <= 1e-12 * ba[1][0].abs() && close(gny, g * shelf),
        };
        if !ok {
            rep.violation("coeff-response", "defining response identities at DC / Nyquist / f0", &inp, "identities", &format!("H(1)={} H(-1)={} |H(f0)|={} qi={}", gdc, gny, mag(c0), qi));
        }
        // poles strictly inside the unit circle (Jury); iho: the non-DC pole
        let (a0, a1, a2) = (ba[1][0], ba[1][1], ba[1][2]);
        let stable = if typ == 8 { a0 > 0.0 && a2.abs() < a0 } else { a0 > 0.0 && a2.abs() < a0 && a1.abs() < a0 + a2 };
        if !stable {
            rep.violation("coeff-stability", "both poles strictly inside the unit circle", &inp, "|a2| < a0, |a1| < a0 + a2", &format!("{:?}", ba[1]));
        }
        // gain is a pure output scale, incl. its sign
        if i % 4 == 0 {
            let k = if rng.chance(1, 2) { -1.0 } else { 0.5 + rng.below(100) as f64 / 10.0 };
            let mut f2 = idsp::iir::Filter::<f64>::default();
            crate::gen::coeff_setup(rng, &mut f2, w0, shape, gain * k, shelf);
            let bb = crate::gen::coeff_build(&f2, typ);
            let poles_same = (0..3).all(|j| bb[1][j].to_bits() == ba[1][j].to_bits());
            let scaled = (0..3).all(|j| (bb[0][j] - k * ba[0][j]).abs() <= 1e-12 * (k * ba[0][j]).abs().max(numscale * k.abs() * 1e-3));
            if !poles_same || !scaled {
                rep.violation("coeff-gain-scale", "gain is a pure output scale and leaves the poles untouched", &format!("{} vs gain*{}", inp, k), &format!("a={:?}", ba[1]), &format!("a={:?} b={:?} vs {:?}", bb[1], bb[0], ba[0]));
            }
            rep.count("coeff-gain-scale", 1);
        }
        // conversion: nearest representable, invariant (1 LSB) under common scaling
        if i % 4 == 1 && (ba[0].iter().chain(ba[1][1..].iter())).all(|v| (v / a0).abs() < 1.99) {
            let bi = idsp::iir::Biquad::<i32>::from(&ba);
            let c = 0.1 + rng.below(1000) as f64 / 10.0;
            let sc = [[ba[0][0] * c, ba[0][1] * c, ba[0][2] * c], [ba[1][0] * c, ba[1][1] * c, ba[1][2] * c]];
            let bs = idsp::iir::Biquad::<i32>::from(&sc);
            let flat = [ba[0][0], ba[0][1], ba[0][2], ba[1][1], ba[1][2]];
            for j in 0..5 {
                let exact = flat[j] / a0 * 1073741824.0;
                if (bi.ba()[j] as f64 - exact).abs() > 0.5 + 1e-6 || (bi.ba()[j] as i64 - bs.ba()[j] as i64).abs() > 1 {
                    rep.violation("coeff-quantize", "divide by a0, round to nearest; invariant to within 1 LSB under common scaling", &format!("{} scale {}", inp, c), &format!("{}", exact), &format!("{} / {}", bi.ba()[j], bs.ba()[j]));
                    break;
                }
            }
            rep.count("coeff-quantize", 5);
            // Q2.62: v * 2^62 is exact in f64; at or above 2^52 it is already an integer and must come back unchanged
            let a0i = 1.0 / a0;
            if let Some(b64) = guard(|| idsp::iir::Biquad::<i64>::from(&ba)) {
                for j in 0..5 {
                    let v = flat[j] * a0i * 4611686018427387904.0;
                    let got = b64.ba()[j];
                    let bad = if v.abs() >= 4503599627370496.0 { v.abs() < 9.2e18 && got != v as i64 } else { (got as f64 - v).abs() > 0.5 };
                    if bad {
                        rep.violation("coeff-quantize", "divide by a0, round each coefficient to the nearest representable value (Q2.62)", &format!("{} coefficient {}", inp, j), &format!("{:.1}", v), &got.to_string());
                        break;
                    }
                }
                rep.count("coeff-quantize-i64", 5);
            }
            // the serialisable representation: BiquadRepr::Ba normalises by a0 exactly like Biquad::from
            {
                use idsp::iir::{Ba, BiquadRepr};
                let mut r = Ba::<f64>::default();
                *r.ba = ba;
                let via = guard(|| BiquadRepr::<f64, i32>::Ba(r).build::<f64>(1.0, 1.0, 1.0));
                if via.as_ref().map(|b| *b.ba()) != Some(*bi.ba()) {
                    rep.violation("coeff-quantize", "BiquadRepr::Ba divides by a0 and rounds like Biquad::from (invariant under a common factor)", &format!("{} as BiquadRepr::Ba (a0 = {})", inp, a0), &format!("{:?}", bi.ba()), &format!("{:?}", via.map(|b| *b.ba())));
                }
                rep.count("coeff-quantize-repr", 1);
            }
            // BiquadRepr::Filter (gains in dB, absolute frequency, any builder intermediate type I) is the same filter
            // as Filter + Biquad::from: same arithmetic, so bit for bit
            if i % 8 == 1 {
                use idsp::iir::{BiquadRepr, FilterRepr, Typ};
                let typs = [Typ::Lowpass, Typ::Highpass, Typ::Bandpass, Typ::Allpass, Typ::Notch, Typ::Peaking, Typ::Lowshelf, Typ::Highshelf, Typ::IHo];
                let (gdb, sdb) = (rng.range(-300, 300) as f64 / 10.0, rng.range(-200, 200) as f64 / 10.0);
                let period = 1.0 / (1u64 << rng.below(20)) as f64;
                let freq = f0 / period;
                let mut fr = FilterRepr::<f64>::default();
                crate::gen::set_leaf(&mut fr, "/typ", typs[typ as usize]);
                crate::gen::set_leaf(&mut fr, "/frequency", freq);
                crate::gen::set_leaf(&mut fr, "/gain", gdb);
                crate::gen::set_leaf(&mut fr, "/shelf", sdb);
                crate::gen::set_leaf(&mut fr, "/shape", shape);
                let mut fd = idsp::iir::Filter::<f64>::default();
                fd.gain_db(gdb).critical_frequency(freq * period).shelf_db(sdb).set_shape(shape);
                let bad = crate::gen::coeff_build(&fd, typ);
                if bad.iter().flatten().all(|v| v.is_finite()) && (bad[0].iter().chain(bad[1][1..].iter())).all(|v| (v / bad[1][0]).abs() < 1.99) {
                    let want64 = *idsp::iir::Biquad::<i64>::from(&bad).ba();
                    let want32 = *idsp::iir::Biquad::<i32>::from(&bad).ba();
                    let r = BiquadRepr::<f64, i64>::Filter(fr.clone());
                    let g1 = guard(|| *r.build::<f32>(period, 1.0, 1.0).ba());
                    let g2 = guard(|| *r.build::<f64>(period, 1.0, 1.0).ba());
                    let g3 = guard(|| *BiquadRepr::<f64, i32>::Filter(fr.clone()).build::<f32>(period, 1.0, 1.0).ba());
                    if g1 != Some(want64) || g2 != Some(want64) || g3 != Some(want32) {
                        rep.violation("coeff-repr-filter", "BiquadRepr::Filter builds the same coefficients as Filter + Biquad::from, for every builder intermediate type", &format!("FilterRepr typ={} f0={} (frequency {} x period {}) shape={:?} gain {} dB shelf {} dB", names[typ as usize], f0, freq, period, shape, gdb, sdb), &format!("{:?} / {:?}", want64, want32), &format!("I=f32: {:?}, I=f64: {:?}, i32/I=f32: {:?}", g1, g2, g3));
                    }
                    rep.count("coeff-repr-filter", 3);
                }
            }
        }
        rep.distinct += 1;
    }
    rep.sample("Filter f0=0.1 Q=0.707 gain=1000 .lowpass()".into());
}

// ------------------------------------------------------------------ C11 (Lockin)
fn c11(rng: &mut Rng, thorough: bool, hints: &[Vec<String>], rep: &mut Report) {
    let _ = hints;
    let ncfg = if thorough { 400 } else { 48 };
    let mut cfgs = vec![];
    for i in 0..ncfg {
        let a = match i % 4 { 0 => 1i64 << 23, 1 => 1i64 << 30, _ => rng.range(1 << 23, 1 << 30) } as f64;
        let theta = rng.below(1 << 20) as f64 / (1 << 20) as f64 * std::f64::consts::TAU;
        let fr = 0.05 + 0.4 * (rng.below(1 << 16) as f64 / 65536.0);
        let k = match i % 3 { 0 => 1i64 << 20, 1 => 1i64 << 25, _ => rng.range(1 << 20, 1 << 25) } as f64;
        let mut p0 = rng.next() as i32;
        let mut fr = fr;
        if i % 6 == 5 {
            // the LO visits the same 2^j angles (incl. 0, +-pi/2, pi) again and again
            let j = 2 + rng.below(4) as u32;
            let lo = ((0.05 * (1u32 << j) as f64).ceil() as u64).max(1);
            let hi = (0.45 * (1u32 << j) as f64).floor() as u64;
            let m = (lo + rng.below(hi - lo + 1)) | if j > 2 { 0 } else { 0 };
            fr = m as f64 / (1u32 << j) as f64;
            p0 = ((rng.below(1 << j) as u32) << (32 - j)) as i32;
        }
        cfgs.push((a, theta, fr, k, p0));
    }
    let cr = &cfgs;
    par(cfgs.len() as u64, |c, l| {
        let (a, theta, fr, k, p0) = cr[c as usize];
        let (k0, k1) = ((k * k / 4294967296.0) as i32, (-k * std::f64::consts::SQRT_2) as i32);
        let df = (fr * 4294967296.0) as i64 as i32;
        let mut li = Lockin::<Lowpass<2>>::default();
        let mut lq = Lockin::<Lowpass<2>>::default();
        let n = (40.0 * 4294967296.0 / k) as usize;
        let navg = 1 << 14;
        let mut ph = p0;
        let (mut sre, mut sim) = (0f64, 0f64);
        let mut same = true;
        let r = guard(|| {
            for j in 0..(n + navg) {
                ph = ph.wrapping_add(df);
                let x = (a * ((ph as f64) * std::f64::consts::PI / 2147483648.0 + theta).cos()).round() as i32;
                let y = li.update(x, ph, &[k0, k1]);
                let y2 = lq.update_iq(x, Complex::<i32>::from_angle(ph), &[k0, k1]);
                same &= y == y2;
                if j >= n {
                    sre += y.re as f64;
                    sim += y.im as f64;
                }
            }
        });
        let inp = format!("Lockin<Lowpass2> A={} theta={} f={} k={} (k0={}, k1={}) start phase {}", a, theta, fr, k, k0, k1, p0);
        l.count += (n + navg) as u64;
        if r.is_none() {
            l.violation("lockin-panic", "no panic for any sample", inp, "values".into(), "PANIC".into());
            return;
        }
        if !same {
            l.violation("lockin-iq", "update_iq with the LO sample gives exactly the same output as update with its phase", inp.clone(), "equal".into(), "different".into());
        }
        let (mre, mim) = (sre / navg as f64, sim / navg as f64);
        let mag = mre.hypot(mim);
        let ang = mim.atan2(mre);
        let mut da = (ang + theta).rem_euclid(std::f64::consts::TAU);
        if da > std::f64::consts::PI {
            da -= std::f64::consts::TAU;
        }
        let emag = (mag / (a / 2.0) - 1.0).abs();
        l.max("lockin_mag_relerr", emag);
        l.max("lockin_angle_err", da.abs());
        if emag > 1e-3 || da.abs() > 2e-4 {
            // small amplitudes: the second-order lowpass's static truncation error (~ sqrt2*2^32/k LSB) against A/2
            let bound = 3.0 * 4294967296.0 / (k * a);
            let class = if a < 33554432.0 && emag <= 1e-3 && da.abs() <= bound { "lockin-angle-small-amplitude" } else { "lockin-recovery" };
            l.violation(class, "magnitude A/2 within 1e-3 relative, angle -theta within 2e-4 rad", inp, format!("|mag err| <= 1e-3, |angle err| <= 2e-4 (small-amplitude envelope {:.3e})", bound), format!("mag err {:.3e}, angle err {:.3e}", emag, da));
        }
    }, rep);
    rep.distinct += cfgs.len() as u64;
    rep.count("lockin-configurations", 0);
    // equality clause from arbitrary filter states / samples / LO phases (single steps)
    let n = if thorough { 2_000_000 } else { 200_000 };
    for _ in 0..n {
        let st = [[rng.i64() >> 2, rng.i64() >> 2], [rng.i64() >> 2, rng.i64() >> 2]];
        let (x, p) = (rng.i32(), rng.i32());
        let k = rng.range(1 << 20, 1 << 25) as f64;
        let (k0, k1) = ((k * k / 4294967296.0) as i32, (-k * std::f64::consts::SQRT_2) as i32);
        let mut a = Lockin::<Lowpass<2>>::verif_from_raw([Lowpass::verif_from_raw(st[0]), Lowpass::verif_from_raw(st[1])]);
        let mut b = Lockin::<Lowpass<2>>::verif_from_raw([Lowpass::verif_from_raw(st[0]), Lowpass::verif_from_raw(st[1])]);
        let ra = guard(|| a.update(x, p, &[k0, k1]));
        let rb = guard(|| b.update_iq(x, Complex::<i32>::from_angle(p), &[k0, k1]));
        if ra != rb {
            rep.violation("lockin-iq", "update_iq with the LO sample gives exactly the same output as update with its phase", &format!("state {:?} sample {} phase {} k=[{}, {}]", st, x, p, k0, k1), &format!("{:?}", ra), &format!("{:?}", rb));
        }
    }
    rep.count("lockin-iq-single-steps", n);
    // mixer exactness (proved for the model): floor(sample * lo / 2^31) componentwise, on the sample lattice
    let mix = |x: i32, lo: Complex<i32>, rep: &mut Report| {
        let got = guard(|| lo.mul_scaled(x));
        let want = (((x as i128 * lo.re as i128) >> 31) as i32, ((x as i128 * lo.im as i128) >> 31) as i32);
        if got.map(|z| (z.re, z.im)) != Some(want) {
            rep.violation("lockin-mixer", "mixer = floor(sample * lo / 2^31) componentwise, no overflow", &format!("Complex({}, {}).mul_scaled({}i32)", lo.re, lo.im, x), &format!("{:?}", want), &format!("{:?}", got));
        }
    };
    for i in 0..n {
        let x = match i % 4 { 0 => 1 << 30, 1 => -(1 << 30), 2 => ((1i64 << (23 + rng.below(8))) as i32).wrapping_mul(if rng.chance(1, 2) { 1 } else { -1 }), _ => rng.i32() };
        let lo = Complex::<i32>::from_angle(rng.next() as i32);
        mix(x, lo, rep);
    }
    for h in hints {
        if h[0] == "cmul_i32" && h.len() == 4 {
            if let (Ok(a), Ok(b), Ok(c)) = (h[1].parse::<i64>(), h[2].parse::<i64>(), h[3].parse::<i64>()) {
                if !(a as i32 == i32::MIN && c as i32 == i32::MIN) && !(b as i32 == i32::MIN && c as i32 == i32::MIN) {
                    mix(c as i32, Complex::new(a as i32, b as i32), rep);
                }
            }
        }
    }
    rep.count("lockin-mixer-single-steps", n);
    rep.sample("Lockin A=2^23 k=2^21: angle error 3.8e-4 rad (listed small-amplitude finding)".into());
}

// ------------------------------------------------------------------ C20 (no panic inside the documented domains)
fn c20(rng: &mut Rng, thorough: bool, hints: &[Vec<String>], rep: &mut Report) {
    if crate::MODE != 'C' {
        // the property is about builds with overflow checks and debug assertions
        rep.count("release-profile-not-applicable", 1);
        rep.sample("C20 is evaluated in the checked profile only".into());
        return;
    }
    rep.only_panics = true;
    // the union of the other properties' oracles (their panic clauses are what matters here), plus the entry
    // points no other property anchors
    let before = rep.evaluations;
    c01(rng, false, hints, rep);
    c02(rng, false, hints, rep);
    c19(rng, false, hints, rep);
    c06(rng, false, hints, rep);
    c07(rng, false, hints, rep);
    c10(rng, false, hints, rep);
    c11(rng, false, hints, rep);
    c12(rng, false, hints, rep);
    c13(rng, false, hints, rep);
    c14(rng, false, hints, rep);
    c16(rng, false, hints, rep);
    c17(rng, false, hints, rep);
    c18(rng, false, hints, rep);
    c03(rng, false, hints, rep);
    c09(rng, false, hints, rep);
    c08(rng, false, hints, rep);
    let _ = before;
    // Sweep iteration from any (rate, state); Sweep::fit for finite arguments with harmonics, cycles >= 1
    let n = if thorough { 20_000_000 } else { 2_000_000 };
    for i in 0..n {
        let (rate, state) = (rng.i32(), if i % 5 == 0 { i64::MAX - rng.below(1 << 33) as i64 } else { rng.i64() });
        let mut s = Sweep::new(rate, state);
        if guard(|| { s.next(); s.next(); }).is_none() {
            rep.violation("sweep-panic", "Sweep iteration from any (rate, state) never panics", &format!("Sweep::new({}, {}).next()", rate, state), "Some(state)", "PANIC");
        }
    }
    rep.count("sweep-next", 2 * n);
    for _ in 0..(n / 10) {
        let stop = rng.below(1000) as f32 / 1000.0 * 0.6 - 0.05;
        let harmonics = 1.0 + (rng.below(1 << 20) as f32) / if rng.chance(1, 2) { 1.0 } else { 1000.0 };
        let cycles = 1.0 + (rng.below(1 << 24) as f32) * if rng.chance(1, 4) { 1e6 } else { 1e-3 };
        let r = guard(|| Sweep::fit(stop, harmonics, cycles));
        match r {
            None => rep.violation("sweep-fit-panic", "Sweep::fit for finite arguments with harmonics, cycles >= 1 never panics", &format!("Sweep::fit({}, {}, {})", stop, harmonics, cycles), "Ok/Err", "PANIC"),
            Some(Ok(mut s)) => {
                let ok = guard(|| { let _ = (s.rate(), s.delay(2.0), s.octave(), s.decade(), s.state(), s.cycles(), s.continuous(1.0), s.inverse_filter(0.1)); for _ in 0..4 { s.next(); } }).is_some();
                if !ok {
                    rep.violation("sweep-panic", "Sweep helpers never panic", &format!("Sweep::fit({}, {}, {})", stop, harmonics, cycles), "values", "PANIC");
                }
            }
            Some(Err(_)) => {}
        }
    }
    rep.count("sweep-fit", n / 10);
    // AccuOsc over a Sweep
    for _ in 0..1000 {
        let mut o = AccuOsc::new(Sweep::new(rng.i32(), rng.i64()));
        if guard(|| { for _ in 0..16 { o.next(); } }).is_none() {
            rep.violation("accuosc-panic", "AccuOsc iteration never panics", "AccuOsc::from(Sweep::new(..))", "values", "PANIC");
        }
    }
    // complex helpers except both components MIN
    for _ in 0..(n / 4) {
        let (a, b, c, d) = (rng.i32(), rng.i32(), rng.i32(), rng.i32());
        let z = Complex::new(a, b);
        let w = Complex::new(c, d);
        let both_min = |z: Complex<i32>| z.re == i32::MIN && z.im == i32::MIN;
        let r = guard(|| {
            if !both_min(z) {
                let _ = (z.abs_sqr(), z.log2());
            }
            let _ = (z.arg(), z.saturating_add(w), z.saturating_sub(w), z.mul_scaled(c), z.mul_scaled(d as i16));
            if !(both_min(z) && both_min(w)) {
                let _ = z.mul_scaled(w);
            }
        });
        if r.is_none() {
            rep.violation("complex-panic", "complex helpers never panic (except operands with both components i32::MIN)", &format!("{:?} {:?}", z, w), "values", "PANIC");
        }
    }
    rep.count("complex-helpers", n / 4);
    // svf: `Svf` has no public constructor (serde only); not reachable from this harness
    // Nyquist / Repeat / Cascade filters
    for _ in 0..(n / 20) {
        let mut ny = Nyquist::default();
        let x = rng.i32();
        if guard(|| { idsp::Filter::update(&mut ny, x, &()); idsp::Filter::update(&mut ny, rng.i32(), &()); idsp::Filter::set(&mut ny, x); idsp::Filter::update(&mut ny, x, &()); idsp::Filter::update(&mut ny, rng.i32(), &()); idsp::Filter::get(&ny) }).is_none() {
            rep.violation("filter-panic", "Nyquist filter never panics", &format!("Nyquist.update({})", x), "values", "PANIC");
        }
    }
    rep.sample("Sweep::new(1, i64::MAX).next(); Complex(MIN, 5).abs_sqr(); Dsm::<0>::update(5)".into());
}

