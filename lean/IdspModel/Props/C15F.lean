import IdspModel.Lemmas.FloatModelHbfTaps
import IdspModel.Props.C15
/-!
# C15 (floating point clause) — "the same numbers for the running f32 code", with the rounding inside the theorem

Model: `IdspModel/Model/Hbf.lean` (`SymFir::get`, `HbfDec` / `HbfInt::process_block`, uninterpreted operations),
instantiated over `ℝ` with the STANDARD MODEL of floating point arithmetic `FlModel u`
(`Lemmas/FloatModel.lean`: every `+`, `×` returns the exact result times `(1+δ)`, `|δ| ≤ u`; `u = 2^-24` for binary32,
`2^-53` for binary64, round to nearest, no overflow/underflow).  The operations are `FlModel.fhbfOps`:
`add = fadd`, `mul = fmul`, `sum` = Rust's `Iterator::sum` for floats = left fold of `fadd` from (minus) zero,
`half x = fmul (1/2) x` (`0.5 * x`).  `gam u k = (1+u)^k − 1 ≤ k·u/(1 − k·u)` is the relative error of `k` roundings.

Evaluation order of one `SymFir` output on a window `w` of `2M` items (read off `firTap`): the pair sums
`w[l] + w[2M−1−l]` are formed first, multiplied by `taps[l]`, and accumulated left to right starting from zero.
Hence product `l` passes through `M − l + 2` roundings: the OUTERMOST (smallest) taps see the most roundings, the
innermost (largest) the fewest.  The decimator adds the even-phase sample and halves: two more roundings.
The interpolator's odd outputs are copies of input samples: no rounding.

Exact reference: `Props/C15.lean` at `R = ℝ` — `symfir_window_sum`, `hbfdec_is_decimated_convolution`,
`hbfint_is_convolution_of_zero_stuffed`, i.e. `firAt taps w n = Σ_{j<4M−1} h[j]·w(n−j)` with the full half-band FIR
`h = hbfFir taps`, `Σ_j |h[j]| = 1 + 2·Σ_l |t_l|`; `fhbfExactOps = ringOps (1/2 * ·)`.
Because the filters are FIR and the state holds INPUT samples only, rounding errors do not accumulate over time:
the bounds below hold for every output sample of every run, with no dependence on the run length.

Definitions used in the statements (`Lemmas/FloatModelHbfRun.lean`, `FloatModelHbfTaps.lean`):
* `fhbfDecBound u taps w n = ½·(γ2·|w(n−(2M−1))| + Σ_l γ_{M−l+4}·|(w(n−(4M−2−2l)) + w(n−2l))·t_l|)`
* `fhbfIntBound u taps w n = Σ_l γ_{M−l+2}·|(w(n−(4M−2−2l)) + w(n−2l))·t_l|`
* `fhbfTapNorm taps = Σ_l |t_l|`; `fhbfTapsR j` = the published tap set `HBF_TAPS.j` (exact binary32 values) as reals;
  `fhbfDecConst j = 11, 8, 7, 7, 6`, `fhbfIntConst j = 14, 9, 7, 7, 6` for `j = 0..4` (`M = 23, 9, 5, 4, 3`).

REMARK (combination with `Props/C15spec.lean`).  `C15spec` certifies ripple `≤ 2e-6 dB` / attenuation `≥ 140 dB` for the
exact convolution with the published taps.  By `fhbf_dec_published_f32` / `fhbf_int_published_f32` the output of a
stage evaluated in binary32 differs from that exact convolution by at most `c_j·2^-24·max|x|` (`c_j ≤ 14`, i.e.
`≤ 8.4e-7·max|x|`, about `−121 dB` relative to full scale), sample by sample, for every input.  So the published
figures hold for the f32 evaluation up to this additive, input-proportional term: e.g. a stop-band tone of amplitude
`A` leaves the single f32 stage with amplitude at most `(1e-7 + 14·2^-24)·A`.  For a cascade the per-stage terms add
up after amplification by the later stages' `ℓ1` gains (`≤ ½·(1 + 2Σ|t|) < 1.73` per decimator stage): with stage
errors `ε_j·max|x_j|` and gains `g_j`, two stages give `ε_B·(g_A + ε_A) + g_B·ε_A`; this cascade composition is NOT
formalised here.
-/
namespace Idsp
open Finset

variable {u : ℝ} (M : FlModel u)

/-! ## 1. One output of the symmetric FIR -/

/-- **`fhbf_symfir_error`** — one output of `SymFir::get` on a window `win` of `2M` items, any tap list: the float
    evaluation in the code's order differs from the exact value `Σ_l (win[l] + win[2M−1−l])·taps[l]`
    (`symfir_window_sum`) by at most `Σ_l γ_{M−l+2}·|(win[l] + win[2M−1−l])·taps[l]|`. -/
theorem fhbf_symfir_error (taps win : List ℝ) (hw : win.length = 2 * taps.length) :
    |firTap M.fhbfOps taps win - firTap fhbfExactOps taps win| ≤
      ∑ l ∈ range taps.length, gam u (taps.length - l + 2) *
        |(win.getD l 0 + win.getD (2 * taps.length - 1 - l) 0) * taps.getD l 0| := by
  rw [show firTap fhbfExactOps taps win = _ from symfir_window_sum _ taps win hw]
  exact (M.fhbf_firTap_near taps win hw).1

/-- uniform form: `γ_{M+2}·Σ_l |taps[l]|·|win[l] + win[2M−1−l]|` -/
theorem fhbf_symfir_error_uniform (taps win : List ℝ) (hw : win.length = 2 * taps.length) :
    |firTap M.fhbfOps taps win - firTap fhbfExactOps taps win| ≤
      gam u (taps.length + 2) *
        ∑ l ∈ range taps.length, |taps.getD l 0| * |win.getD l 0 + win.getD (2 * taps.length - 1 - l) 0| := by
  refine (fhbf_symfir_error M taps win hw).trans ?_
  refine (fhbf_sum_gam_le M.u_nonneg taps.length (taps.length + 2) (fun l => taps.length - l + 2) _
    (fun l _ => by omega) (fun l => abs_nonneg _)).trans (le_of_eq ?_)
  congr 1
  refine Finset.sum_congr rfl fun l _ => ?_
  rw [abs_mul, mul_comm]

/-! ## 2. One output sample of the decimator and of the interpolator (single-sample core) -/

/-- **`fhbf_dec_output_error`** — the decimator's output expression `half(even + fir)` for an even-phase sample
    `ev` and an odd-phase window `win`: within `½·(γ2·|ev| + Σ_l γ_{M−l+4}·|(win[l] + win[2M−1−l])·taps[l]|)` of
    the exact `½·(ev + Σ_l (win[l] + win[2M−1−l])·taps[l])`. -/
theorem fhbf_dec_output_error (taps win : List ℝ) (hw : win.length = 2 * taps.length) (ev : ℝ) :
    |M.fhbfOps.half (M.fhbfOps.add ev (firTap M.fhbfOps taps win)) -
        fhbfExactOps.half (fhbfExactOps.add ev (firTap fhbfExactOps taps win))| ≤
      1 / 2 * (gam u 2 * |ev| + ∑ l ∈ range taps.length, gam u (taps.length - l + 4) *
        |(win.getD l 0 + win.getD (2 * taps.length - 1 - l) 0) * taps.getD l 0|) := by
  rw [show firTap fhbfExactOps taps win = _ from symfir_window_sum _ taps win hw]
  exact (M.fhbf_dec_near taps win hw ev).1

/-- **`fhbf_int_output_error`** — the interpolator's two phases: the FIR phase is one `SymFir` output (bound of
    `fhbf_symfir_error`); the centre-tap phase is a stored input sample, the same in every arithmetic
    (`intSpec_getElem` holds for arbitrary operations).  From history `h` (`2M−1` items) and new items `x`,
    outputs `2i` and `2i+1`: -/
theorem fhbf_int_output_error (taps h x : List ℝ) (hm : 1 ≤ taps.length) (h1 : h.length = 2 * taps.length - 1)
    (i : Nat) (hi : i < x.length) :
    |(hbfIntSpec M.fhbfOps taps h x)[2 * i]'(by rw [intSpec_length _ _ _ _ hm h1]; omega) -
        (hbfIntSpec fhbfExactOps taps h x)[2 * i]'(by rw [intSpec_length _ _ _ _ hm h1]; omega)| ≤
      ∑ l ∈ range taps.length, gam u (taps.length - l + 2) *
        |((((h ++ x).drop i).take (2 * taps.length)).getD l 0 +
          (((h ++ x).drop i).take (2 * taps.length)).getD (2 * taps.length - 1 - l) 0) * taps.getD l 0| ∧
    (hbfIntSpec M.fhbfOps taps h x)[2 * i + 1]'(by rw [intSpec_length _ _ _ _ hm h1]; omega) =
      (hbfIntSpec fhbfExactOps taps h x)[2 * i + 1]'(by rw [intSpec_length _ _ _ _ hm h1]; omega) := by
  obtain ⟨g1, g2⟩ := intSpec_getElem M.fhbfOps taps h x hm h1 i hi
  obtain ⟨x1, x2⟩ := intSpec_getElem fhbfExactOps taps h x hm h1 i hi
  rw [g1, g2, x1, x2]
  refine ⟨fhbf_symfir_error M taps _ ?_, rfl⟩
  simp [h1]; omega

/-! ## 3. Block level: every output of every run from the zero state -/

/-- **`fhbf_dec_run_error`** — `HbfDec::new` + any sequence of admissible `process_block` calls under the rounding
    model: output `i` of the run exists and is within `fhbfDecBound` (per-term) of the exact run's output `i`,
    which is `½·Σ_j h[j]·X(2i+1−j)` (`hbfdec_is_decimated_convolution`), `X` = the concatenated input. -/
theorem fhbf_dec_run_error (n : Nat) (taps : List ℝ) (hm : 1 ≤ taps.length) (hn : 2 * taps.length ≤ n)
    (bs : List (List ℝ)) (adm : ∀ b ∈ bs, (HbfDec.new M.fhbfOps n taps).Adm b) (i : Nat)
    (hi : i < bs.flatten.length / 2) :
    ∃ y, ((HbfDec.new M.fhbfOps n taps).run M.fhbfOps bs).2.flatten[i]? = some y ∧
      ((HbfDec.new fhbfExactOps n taps).run fhbfExactOps bs).2.flatten[i]? =
        some (1 / 2 * firAt taps (zext bs.flatten) (2 * i + 1)) ∧
      |y - 1 / 2 * firAt taps (zext bs.flatten) (2 * i + 1)| ≤
        fhbfDecBound u taps (zext bs.flatten) (2 * i + 1) := by
  obtain ⟨y, h1, h2⟩ := M.fhbf_dec_run_near n taps hm hn bs adm i hi
  refine ⟨y, h1, ?_, h2⟩
  exact hbfdec_is_decimated_convolution (fun x : ℝ => 1 / 2 * x) n taps hm hn bs
    (fun b hb => (fhbf_dec_adm_iff _ _ n taps b).mp (adm b hb)) i hi

/-- **`fhbf_int_run_error`** — `HbfInt::new` + any admissible blocks: output `k` of the rounded run is within
    `fhbfIntBound` of the exact run's output `Σ_j h[j]·V(k−j)` (`V` the zero-stuffed input,
    `hbfint_is_convolution_of_zero_stuffed`) for even `k`, and EQUAL to it for odd `k`. -/
theorem fhbf_int_run_error (n : Nat) (taps : List ℝ) (hm : 1 ≤ taps.length) (hn : 2 * taps.length ≤ n)
    (bs : List (List ℝ)) (adm : ∀ b ∈ bs, (HbfInt.new M.fhbfOps n taps).Adm b) (k : Nat)
    (hk : k < 2 * bs.flatten.length) :
    ∃ y, ((HbfInt.new M.fhbfOps n taps).run M.fhbfOps bs).2.flatten[k]? = some y ∧
      ((HbfInt.new fhbfExactOps n taps).run fhbfExactOps bs).2.flatten[k]? =
        some (firAt taps (zstuff bs.flatten) k) ∧
      |y - firAt taps (zstuff bs.flatten) k| ≤
        if k % 2 = 0 then fhbfIntBound u taps (zstuff bs.flatten) k else 0 := by
  obtain ⟨y, h1, h2⟩ := M.fhbf_int_run_near n taps hm hn bs adm k hk
  refine ⟨y, h1, ?_, h2⟩
  exact hbfint_is_convolution_of_zero_stuffed (fun x : ℝ => 1 / 2 * x) n taps hm hn bs
    (fun b hb => (fhbf_int_adm_iff _ _ n taps b).mp (adm b hb)) k hk

/-! ## 4. Uniform bounds `γ_K·(Σ|h|)·max|x|` -/

/-- **decimator, uniform**: if every input sample has `|x| ≤ B`, every output of every run is within
    `γ_{M+4}·(½ + Σ_l|t_l|)·B = γ_{M+4}·(½·Σ_j|h[j]|)·B` of the exact decimated convolution (`K = M + 4`). -/
theorem fhbf_dec_run_error_uniform (n : Nat) (taps : List ℝ) (hm : 1 ≤ taps.length) (hn : 2 * taps.length ≤ n)
    (bs : List (List ℝ)) (adm : ∀ b ∈ bs, (HbfDec.new M.fhbfOps n taps).Adm b) (B : ℝ)
    (hB : ∀ x ∈ bs.flatten, |x| ≤ B) (i : Nat) (hi : i < bs.flatten.length / 2) :
    ∃ y, ((HbfDec.new M.fhbfOps n taps).run M.fhbfOps bs).2.flatten[i]? = some y ∧
      |y - 1 / 2 * firAt taps (zext bs.flatten) (2 * i + 1)| ≤
        gam u (taps.length + 4) * ((1 / 2 + fhbfTapNorm taps) * B) := by
  obtain ⟨y, h1, -, h2⟩ := fhbf_dec_run_error M n taps hm hn bs adm i hi
  have hne : bs.flatten ≠ [] := by intro h; rw [h] at hi; simp at hi
  obtain ⟨x0, hx0⟩ := List.exists_mem_of_ne_nil _ hne
  have hB0 : 0 ≤ B := (abs_nonneg _).trans (hB x0 hx0)
  exact ⟨y, h1, h2.trans (fhbfDecBound_le M.u_nonneg taps _ B (fhbf_zext_abs_le _ B hB0 hB) _)⟩

/-- **interpolator, uniform**: every output of every run is within `γ_{M+2}·2Σ_l|t_l|·B = γ_{M+2}·(Σ_j|h[j]| − 1)·B`
    of the exact convolution of the zero-stuffed input (`K = M + 2`; odd outputs are exact). -/
theorem fhbf_int_run_error_uniform (n : Nat) (taps : List ℝ) (hm : 1 ≤ taps.length) (hn : 2 * taps.length ≤ n)
    (bs : List (List ℝ)) (adm : ∀ b ∈ bs, (HbfInt.new M.fhbfOps n taps).Adm b) (B : ℝ)
    (hB : ∀ x ∈ bs.flatten, |x| ≤ B) (k : Nat) (hk : k < 2 * bs.flatten.length) :
    ∃ y, ((HbfInt.new M.fhbfOps n taps).run M.fhbfOps bs).2.flatten[k]? = some y ∧
      |y - firAt taps (zstuff bs.flatten) k| ≤ gam u (taps.length + 2) * (2 * fhbfTapNorm taps * B) := by
  obtain ⟨y, h1, -, h2⟩ := fhbf_int_run_error M n taps hm hn bs adm k hk
  have hne : bs.flatten ≠ [] := by intro h; rw [h] at hk; simp at hk
  obtain ⟨x0, hx0⟩ := List.exists_mem_of_ne_nil _ hne
  have hB0 : 0 ≤ B := (abs_nonneg _).trans (hB x0 hx0)
  refine ⟨y, h1, h2.trans ?_⟩
  split
  · exact fhbfIntBound_le M.u_nonneg taps _ B (fhbf_zstuff_abs_le _ B hB0 hB) _
  · have := gam_nonneg M.u_nonneg (taps.length + 2)
    have := fhbfTapNorm_nonneg taps
    positivity

/-! ## 5. The five published tap sets in binary32 (`u = 2^-24`) -/

theorem fhbf_f32_small (j : ℕ) (s : ℕ) (hs : s ≤ 4) :
    (((fhbfTapsR j).length + s : ℕ) : ℝ) * ((((fhbfTapsR j).length + s : ℕ) : ℝ) + 1) * (1 / 2 ^ 24) ≤ 1 := by
  have h := (fhbfTapsR_length_le j).2
  have h1 : (((fhbfTapsR j).length + s : ℕ) : ℝ) ≤ 27 := by exact_mod_cast (by omega : (fhbfTapsR j).length + s ≤ 27)
  have h0 : (0 : ℝ) ≤ (((fhbfTapsR j).length + s : ℕ) : ℝ) := Nat.cast_nonneg _
  have : (((fhbfTapsR j).length + s : ℕ) : ℝ) * ((((fhbfTapsR j).length + s : ℕ) : ℝ) + 1) ≤ 27 * 28 := by nlinarith
  norm_num at this ⊢
  linarith

/-- **decimator stage with the published taps `HBF_TAPS.j` evaluated in binary32**: every output of every run from
    the zero state is within `c_j·2^-24·max|x|` of the exact decimated convolution with the exact tap values,
    `c_j = 11, 8, 7, 7, 6` for `j = 0..4` (per-term count: the large inner taps see few roundings). -/
theorem fhbf_dec_published_f32 (F : FlModel (1 / 2 ^ 24)) (j n : Nat) (hn : 2 * (fhbfTapsR j).length ≤ n)
    (bs : List (List ℝ)) (adm : ∀ b ∈ bs, (HbfDec.new F.fhbfOps n (fhbfTapsR j)).Adm b) (B : ℝ)
    (hB : ∀ x ∈ bs.flatten, |x| ≤ B) (i : Nat) (hi : i < bs.flatten.length / 2) :
    ∃ y, ((HbfDec.new F.fhbfOps n (fhbfTapsR j)).run F.fhbfOps bs).2.flatten[i]? = some y ∧
      |y - 1 / 2 * firAt (fhbfTapsR j) (zext bs.flatten) (2 * i + 1)| ≤ (fhbfDecConst j : ℚ) / 2 ^ 24 * B := by
  obtain ⟨y, h1, -, h2⟩ := fhbf_dec_run_error F n (fhbfTapsR j) (fhbfTapsR_length_le j).1 hn bs adm i hi
  have hne : bs.flatten ≠ [] := by intro h; rw [h] at hi; simp at hi
  obtain ⟨x0, hx0⟩ := List.exists_mem_of_ne_nil _ hne
  have hB0 : 0 ≤ B := (abs_nonneg _).trans (hB x0 hx0)
  refine ⟨y, h1, h2.trans ?_⟩
  refine (fhbfDecBound_le_weighted F.u_nonneg (fhbfTapsR j) (fhbf_f32_small j 4 le_rfl) _ B
    (fhbf_zext_abs_le _ B hB0 hB) _).trans ?_
  have hc := fhbfDecConst_ok_real j
  have : (1 : ℝ) / 2 ^ 24 * B * (3 / 2 + fhbfWnorm (fhbfTapsR j) 5) ≤
      1 / 2 ^ 24 * B * ((fhbfDecConst j : ℚ) : ℝ) :=
    mul_le_mul_of_nonneg_left hc (by positivity)
  refine this.trans (le_of_eq ?_)
  ring

/-- **interpolator stage with the published taps in binary32**: every output within `c_j·2^-24·max|x|` of the exact
    convolution of the zero-stuffed input, `c_j = 14, 9, 7, 7, 6` (odd outputs are exact). -/
theorem fhbf_int_published_f32 (F : FlModel (1 / 2 ^ 24)) (j n : Nat) (hn : 2 * (fhbfTapsR j).length ≤ n)
    (bs : List (List ℝ)) (adm : ∀ b ∈ bs, (HbfInt.new F.fhbfOps n (fhbfTapsR j)).Adm b) (B : ℝ)
    (hB : ∀ x ∈ bs.flatten, |x| ≤ B) (k : Nat) (hk : k < 2 * bs.flatten.length) :
    ∃ y, ((HbfInt.new F.fhbfOps n (fhbfTapsR j)).run F.fhbfOps bs).2.flatten[k]? = some y ∧
      |y - firAt (fhbfTapsR j) (zstuff bs.flatten) k| ≤ (fhbfIntConst j : ℚ) / 2 ^ 24 * B := by
  obtain ⟨y, h1, -, h2⟩ := fhbf_int_run_error F n (fhbfTapsR j) (fhbfTapsR_length_le j).1 hn bs adm k hk
  have hne : bs.flatten ≠ [] := by intro h; rw [h] at hk; simp at hk
  obtain ⟨x0, hx0⟩ := List.exists_mem_of_ne_nil _ hne
  have hB0 : 0 ≤ B := (abs_nonneg _).trans (hB x0 hx0)
  have hc := fhbfIntConst_ok_real j
  have hwn : 0 ≤ fhbfWnorm (fhbfTapsR j) 3 := by
    rw [← fhbf_wsum_eq]; exact Finset.sum_nonneg fun _ _ => by positivity
  have hcpos : (0 : ℝ) ≤ ((fhbfIntConst j : ℚ) : ℝ) := le_trans (by positivity) hc
  refine ⟨y, h1, h2.trans ?_⟩
  split
  · refine (fhbfIntBound_le_weighted F.u_nonneg (fhbfTapsR j) (fhbf_f32_small j 2 (by norm_num)) _ B
      (fhbf_zstuff_abs_le _ B hB0 hB) _).trans ?_
    have : (1 : ℝ) / 2 ^ 24 * B * (2 * fhbfWnorm (fhbfTapsR j) 3) ≤
        1 / 2 ^ 24 * B * ((fhbfIntConst j : ℚ) : ℝ) :=
      mul_le_mul_of_nonneg_left hc (by positivity)
    refine this.trans (le_of_eq ?_)
    ring
  · positivity

/-! ## 6. Non-vacuity -/

/-- the model has instances for every `u ≥ 0` (exact arithmetic; the round-up toy model), in particular `u = 2^-24` -/
noncomputable example : FlModel (1 / 2 ^ 24) := FlModel.exact _ (by positivity)
noncomputable example : FlModel (1 / 2 ^ 24) := FlModel.roundUp _ (by positivity)

/-- **the per-term bound of `fhbf_symfir_error` is attained**: in the round-up model (every operation rounds by the
    full factor `1 + u`), on any window whose products `(win[l] + win[2M−1−l])·taps[l]` are all non-negative, the
    error EQUALS `Σ_l γ_{M−l+2}·|(win[l] + win[2M−1−l])·taps[l]|`; so the count of roundings per term is exact. -/
theorem fhbf_symfir_error_tight (u : ℝ) (hu : 0 ≤ u) (taps win : List ℝ) (hw : win.length = 2 * taps.length)
    (hpos : ∀ l, l < taps.length → 0 ≤ (win.getD l 0 + win.getD (2 * taps.length - 1 - l) 0) * taps.getD l 0) :
    firTap (FlModel.roundUp u hu).fhbfOps taps win - firTap fhbfExactOps taps win =
      ∑ l ∈ range taps.length, gam u (taps.length - l + 2) *
        |(win.getD l 0 + win.getD (2 * taps.length - 1 - l) 0) * taps.getD l 0| := by
  rw [show firTap fhbfExactOps taps win = _ from symfir_window_sum _ taps win hw]
  exact fhbf_firTap_roundUp u hu taps win hw hpos

/-- the hypotheses of the run-level theorems are satisfiable: the Rust configuration of the lowest-rate decimator
    stage (`M = 23`, `N = 2·23 − 1 + 64`) accepts every block of even length up to 128, and the interpolator
    (`N = 2·23 − 1 + 64`) every block of up to 64 items, under any rounding model -/
example (F : FlModel (1 / 2 ^ 24)) (b : List ℝ) (h1 : b.length % 2 = 0) (h2 : b.length ≤ 128) :
    2 * (fhbfTapsR 0).length ≤ 2 * 23 - 1 + 64 ∧ (HbfDec.new F.fhbfOps (2 * 23 - 1 + 64) (fhbfTapsR 0)).Adm b := by
  have hl : (fhbfTapsR 0).length = 23 := by rw [fhbfTapsR_length]; decide
  refine ⟨by omega, h1, ?_⟩
  simp only [HbfDec.blockMax, HbfDec.new, SymFir.new, List.length_replicate, hl]
  omega

example (F : FlModel (1 / 2 ^ 24)) (b : List ℝ) (h2 : b.length ≤ 64) :
    (HbfInt.new F.fhbfOps (2 * 23 - 1 + 64) (fhbfTapsR 0)).Adm b := by
  have hl : (fhbfTapsR 0).length = 23 := by rw [fhbfTapsR_length]; decide
  simp only [HbfInt.Adm, HbfInt.blockMax, HbfInt.new, SymFir.new, List.length_replicate, hl]
  omega

/-- a concrete tight instance: `u = 1/4`, taps `[1, 2]`, window `[1, 1, 1, 1]`: exact value `6`, rounded value
    `6 + γ4·2 + γ3·4` -/
example : firTap (FlModel.roundUp (1 / 4) (by norm_num)).fhbfOps [1, 2] [1, 1, 1, 1] - 6 =
    gam (1 / 4) 4 * 2 + gam (1 / 4) 3 * 4 := by
  simp only [firTap, FlModel.fhbfOps, FlModel.roundUp, gam, List.length_cons, List.length_nil, List.take, List.drop,
    List.reverse_cons, List.reverse_nil, List.nil_append, List.cons_append, List.zip_cons_cons, List.zip_nil_right,
    List.map_cons, List.map_nil, List.foldl_cons, List.foldl_nil]
  norm_num

/-- in the exact instance the rounded evaluation IS the exact one on every window (left fold = `List.sum`) -/
example (u : ℝ) (hu : 0 ≤ u) (taps win : List ℝ) :
    firTap (FlModel.exact u hu).fhbfOps taps win = firTap fhbfExactOps taps win := by
  simp only [firTap, FlModel.fhbfOps, FlModel.exact, fhbfExactOps, ringOps]
  exact (List.sum_eq_foldl).symm

end Idsp
