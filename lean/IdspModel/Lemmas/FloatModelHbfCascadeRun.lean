import IdspModel.Lemmas.FloatModelHbfCascade
/-!
  The model's default half-band cascades (`HbfDecCascade::default()` / `HbfIntCascade::default()` + `set_depth(d)`)
  with the published taps over `ℝ`, for arbitrary operations, and their reduction to chains of fresh stages.
-/
namespace Idsp
open Finset

/-- stage `j` is `HbfDec::<f32, M_j, {2·M_j − 1 + 64·2^j}>::new(&HBF_TAPS.j)`, `M = 23, 9, 5, 4` -/
noncomputable def fhbfDecCascade (o : Ops ℝ) (d : ℕ) : HbfDecCascade ℝ :=
  ⟨d, [HbfDec.new o (2 * 23 - 1 + 64) (fhbfTapsR 0), HbfDec.new o (2 * 9 - 1 + 64 * 2) (fhbfTapsR 1),
       HbfDec.new o (2 * 5 - 1 + 64 * 4) (fhbfTapsR 2), HbfDec.new o (2 * 4 - 1 + 64 * 8) (fhbfTapsR 3)]⟩

noncomputable def fhbfIntCascade (o : Ops ℝ) (d : ℕ) : HbfIntCascade ℝ :=
  ⟨d, [HbfInt.new o (2 * 23 - 1 + 64) (fhbfTapsR 0), HbfInt.new o (2 * 9 - 1 + 64 * 2) (fhbfTapsR 1),
       HbfInt.new o (2 * 5 - 1 + 64 * 4) (fhbfTapsR 2), HbfInt.new o (2 * 4 - 1 + 64 * 8) (fhbfTapsR 3)]⟩

theorem fhbfTapsR_lengths :
    (fhbfTapsR 0).length = 23 ∧ (fhbfTapsR 1).length = 9 ∧ (fhbfTapsR 2).length = 5 ∧ (fhbfTapsR 3).length = 4 := by
  simp only [fhbfTapsR_length]
  decide

theorem fhbfDecCascade_wf (o : Ops ℝ) (d : ℕ) (hd : d ≤ 4) : (fhbfDecCascade o d).WF := by
  obtain ⟨l0, l1, l2, l3⟩ := fhbfTapsR_lengths
  constructor
  · simpa [fhbfDecCascade] using hd
  · intro s hs
    simp only [fhbfDecCascade, List.mem_cons, List.not_mem_nil, or_false] at hs
    rcases hs with rfl | rfl | rfl | rfl <;> apply HbfDec.new_wf <;> simp [l0, l1, l2, l3]

theorem fhbfIntCascade_wf (o : Ops ℝ) (d : ℕ) (hd : d ≤ 4) : (fhbfIntCascade o d).WF := by
  obtain ⟨l0, l1, l2, l3⟩ := fhbfTapsR_lengths
  constructor
  · simpa [fhbfIntCascade] using hd
  · intro s hs
    simp only [fhbfIntCascade, List.mem_cons, List.not_mem_nil, or_false] at hs
    rcases hs with rfl | rfl | rfl | rfl <;> apply HbfInt.new_wf <;> simp [l0, l1, l2, l3]

/-- `block_size().1` of the four stages: `2·64·2^j`, whatever the operations -/
theorem fhbfDecCascade_blockMax (o : Ops ℝ) (d : ℕ) :
    (fhbfDecCascade o d).stages.map HbfDec.blockMax = [128, 256, 512, 1024] := by
  obtain ⟨l0, l1, l2, l3⟩ := fhbfTapsR_lengths
  simp [fhbfDecCascade, HbfDec.blockMax, HbfDec.new, SymFir.new, l0, l1, l2, l3, -List.reduceReplicate]

theorem fhbfIntCascade_blockMax (o : Ops ℝ) (d : ℕ) :
    (fhbfIntCascade o d).stages.map HbfInt.blockMax = [128, 256, 512, 1024] := by
  obtain ⟨l0, l1, l2, l3⟩ := fhbfTapsR_lengths
  simp [fhbfIntCascade, HbfInt.blockMax, HbfInt.new, SymFir.new, l0, l1, l2, l3, -List.reduceReplicate]

/-- admissibility of a block does not depend on the operations -/
theorem fhbfDecCascade_adm_iff (o o' : Ops ℝ) (d : ℕ) (x : List ℝ) :
    (fhbfDecCascade o d).Adm x ↔ (fhbfDecCascade o' d).Adm x := by
  have h1 := fhbfDecCascade_blockMax o d
  have h2 := fhbfDecCascade_blockMax o' d
  have d1 : (fhbfDecCascade o d).depth = d := rfl
  have d2 : (fhbfDecCascade o' d).depth = d := rfl
  simp only [HbfDecCascade.Adm, HbfDecCascade.active, List.map_reverse, List.map_take, h1, h2, d1, d2]

theorem fhbfIntCascade_adm_iff (o o' : Ops ℝ) (d : ℕ) (x : List ℝ) :
    (fhbfIntCascade o d).Adm x ↔ (fhbfIntCascade o' d).Adm x := by
  have h1 := fhbfIntCascade_blockMax o d
  have h2 := fhbfIntCascade_blockMax o' d
  have d1 : (fhbfIntCascade o d).depth = d := rfl
  have d2 : (fhbfIntCascade o' d).depth = d := rfl
  simp only [HbfIntCascade.Adm, HbfIntCascade.active, List.map_take, h1, h2, d1, d2]

/-- every high-rate block whose length is a multiple of `2^d` and at most `64·2^d` is admissible (`block_size()`) -/
theorem fhbfDecCascade_adm (o : Ops ℝ) (d : ℕ) (hd : d ≤ 4) (x : List ℝ) (hg : 2 ^ d ∣ x.length)
    (hx : x.length ≤ 64 * 2 ^ d) : (fhbfDecCascade o d).Adm x := by
  have hb := fhbfDecCascade_blockMax o d
  simp only [HbfDecCascade.Adm, HbfDecCascade.active, List.map_reverse, List.map_take, hb]
  have : d = 0 ∨ d = 1 ∨ d = 2 ∨ d = 3 ∨ d = 4 := by omega
  have hdep : (fhbfDecCascade o d).depth = d := rfl
  rw [hdep]
  rcases this with rfl | rfl | rfl | rfl | rfl <;> simp [decAdmL] <;> omega

/-- every low-rate block of at most 64 items is admissible for the interpolating cascade -/
theorem fhbfIntCascade_adm (o : Ops ℝ) (d : ℕ) (hd : d ≤ 4) (x : List ℝ) (hx : x.length ≤ 64) :
    (fhbfIntCascade o d).Adm x := by
  have hb := fhbfIntCascade_blockMax o d
  simp only [HbfIntCascade.Adm, HbfIntCascade.active, List.map_take, hb]
  have : d = 0 ∨ d = 1 ∨ d = 2 ∨ d = 3 ∨ d = 4 := by omega
  have hdep : (fhbfIntCascade o d).depth = d := rfl
  rw [hdep]
  rcases this with rfl | rfl | rfl | rfl | rfl <;> simp [intAdmL] <;> omega

theorem fhbf_dec_new_absT (o : Ops ℝ) (hz : o.zero = 0) (n j : ℕ) (hn : 2 * (fhbfTapsR j).length ≤ n) :
    (HbfDec.new o n (fhbfTapsR j)).absT = fhbfDecAbs j := by
  simp only [HbfDec.absT, HbfDec.new_abs o n _ hn, hz, fhbfDecAbs]
  rfl

theorem fhbf_int_new_absT (o : Ops ℝ) (hz : o.zero = 0) (n j : ℕ) (hn : 2 * (fhbfTapsR j).length ≤ n) :
    (HbfInt.new o n (fhbfTapsR j)).absT = fhbfIntAbs j := by
  simp only [HbfInt.absT, HbfInt.new_abs o n _ hn, hz, fhbfIntAbs]
  rfl

/-- the active stages of the decimating cascade in application order are fresh stages `d−1, …, 0` -/
theorem fhbfDecCascade_active (o : Ops ℝ) (hz : o.zero = 0) (d : ℕ) (hd : d ≤ 4) :
    (fhbfDecCascade o d).active.map HbfDec.absT = (List.range d).reverse.map fhbfDecAbs := by
  obtain ⟨l0, l1, l2, l3⟩ := fhbfTapsR_lengths
  have a0 := fhbf_dec_new_absT o hz (2 * 23 - 1 + 64) 0 (by omega)
  have a1 := fhbf_dec_new_absT o hz (2 * 9 - 1 + 64 * 2) 1 (by omega)
  have a2 := fhbf_dec_new_absT o hz (2 * 5 - 1 + 64 * 4) 2 (by omega)
  have a3 := fhbf_dec_new_absT o hz (2 * 4 - 1 + 64 * 8) 3 (by omega)
  have : d = 0 ∨ d = 1 ∨ d = 2 ∨ d = 3 ∨ d = 4 := by omega
  rcases this with rfl | rfl | rfl | rfl | rfl <;>
    simp [HbfDecCascade.active, fhbfDecCascade, a0, a1, a2, a3, List.range, List.range.loop]

/-- the active stages of the interpolating cascade in application order are fresh stages `0, …, d−1` -/
theorem fhbfIntCascade_active (o : Ops ℝ) (hz : o.zero = 0) (d : ℕ) (hd : d ≤ 4) :
    (fhbfIntCascade o d).active.map HbfInt.absT = (List.range d).map fhbfIntAbs := by
  obtain ⟨l0, l1, l2, l3⟩ := fhbfTapsR_lengths
  have a0 := fhbf_int_new_absT o hz (2 * 23 - 1 + 64) 0 (by omega)
  have a1 := fhbf_int_new_absT o hz (2 * 9 - 1 + 64 * 2) 1 (by omega)
  have a2 := fhbf_int_new_absT o hz (2 * 5 - 1 + 64 * 4) 2 (by omega)
  have a3 := fhbf_int_new_absT o hz (2 * 4 - 1 + 64 * 8) 3 (by omega)
  have : d = 0 ∨ d = 1 ∨ d = 2 ∨ d = 3 ∨ d = 4 := by omega
  rcases this with rfl | rfl | rfl | rfl | rfl <;>
    simp [HbfIntCascade.active, fhbfIntCascade, a0, a1, a2, a3, List.range, List.range.loop]

/-- the accumulated constants, in units of `2^-24`, rounded up: decimating cascade `11, 30, 57, 94`, interpolating
    cascade `14, 49, 111, 217` for depth `1..4` (the interpolating cascade's exact gain is `2^d`, so relative to its
    output level these are `7, 12.3, 13.9, 13.6`) -/
def fhbfDecCascadeConst : ℕ → ℚ
  | 0 => 0 | 1 => 11 | 2 => 30 | 3 => 57 | _ => 94
def fhbfIntCascadeConst : ℕ → ℚ
  | 0 => 0 | 1 => 14 | 2 => 49 | 3 => 111 | _ => 217

theorem fhbfDecCascadeConst_ok (d : ℕ) (hd : d ≤ 4) :
    (fhbfDecChainErrQ (List.range d).reverse (1, 0)).2 ≤ fhbfDecCascadeConst d / 2 ^ 24 := by
  have : d = 0 ∨ d = 1 ∨ d = 2 ∨ d = 3 ∨ d = 4 := by omega
  rcases this with rfl | rfl | rfl | rfl | rfl <;> decide +kernel

theorem fhbfIntCascadeConst_ok (d : ℕ) (hd : d ≤ 4) :
    (fhbfIntChainErrQ (List.range d) (1, 0)).2 ≤ fhbfIntCascadeConst d / 2 ^ 24 := by
  have : d = 0 ∨ d = 1 ∨ d = 2 ∨ d = 3 ∨ d = 4 := by omega
  rcases this with rfl | rfl | rfl | rfl | rfl <;> decide +kernel

end Idsp
