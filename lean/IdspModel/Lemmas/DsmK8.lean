import IdspModel.Lemmas.Dsm
/-!
Helper lemmas for C16 at the boundary order `K = 8` (and uniformly for all `1 ≤ K ≤ 8`): the packed carry word may
wrap into the `i8` sign bit, and the very last subtraction of the differentiator fold may reach `+128`.
-/
namespace Idsp

theorem dsm_wrapI8_mul_two (D : Int) : wrapI 8 (wrapI 8 D * 2) = wrapI 8 (D * 2) := by
  obtain ⟨k, hk⟩ := wrapI_eq_sub 8 D
  rw [hk, show (D - k * 2 ^ 8) * 2 = D * 2 + (-2 * k) * 2 ^ 8 by omega, wrapI_add_mul]

/-- the packed carry word for every `K` (no length restriction): the reversed carry list, reduced to `i8` -/
theorem dsmAccs_wrap (as : List Int) (x : Int) (acc : List Int) :
    dsmAccs as x (wrapI 8 (dsmOfBits acc)) =
      (dsmNewAccs as x, wrapI 8 (dsmOfBits ((dsmCarries as x).reverse ++ acc))) := by
  induction as generalizing x acc with
  | nil => simp [dsmAccs, dsmNewAccs, dsmCarries]
  | cons a as ih =>
    simp only [dsmAccs, dsmNewAccs, dsmCarries, List.reverse_cons, List.append_assoc,
      List.singleton_append]
    have hd : wrapI 8 (wrapI 8 (wrapI 8 (dsmOfBits acc) * 2) + b2i (decide (a + x ≥ 2 ^ 32)))
        = wrapI 8 (dsmOfBits (b2i (decide (a + x ≥ 2 ^ 32)) :: acc)) := by
      rw [dsm_wrapI8_mul_two, wrapI_add_wrapI_left]
      congr 1
      simp only [dsmOfBits]; omega
    rw [hd, ih]

theorem dsm_two_pow_succ_mul (n : Nat) (t : Int) : (2 : Int) ^ (n + 1) * t = 2 * (2 ^ n * t) := by
  rw [Int.pow_succ, Int.mul_comm (2 ^ n) 2, Int.mul_assoc]

/-- the site string of the only arithmetic that can overflow -/
def dsmSubSite : String := "dsm.rs:51 (d & 1) + y - *c"

/-- the differentiator fold, all levels up to 7 (`K ≤ 8`), carry word possibly sign-extended (`t`): the
    unbounded specification keeps the invariant and the range; the model returns it exactly unless the exact
    output is `+128`, in which case the checked build panics and the release build returns `-128` together with
    the exact memories. -/
theorem dsmDiffs_gen (i : Nat) (b0 : Int) (bs cs : List Int) (y t : Int)
    (hbits : DsmIsBits (b0 :: bs)) (hlen : cs.length = bs.length + 1) (hmem : DsmMemInv i cs)
    (hy : 1 - 2 ^ i ≤ y ∧ y ≤ 2 ^ i) (hy8 : inI 8 y = true) (hi : i + bs.length ≤ 7) :
    DsmMemInv i (dsmDiffSpec bs cs y).1 ∧
    1 - 2 ^ (i + bs.length) ≤ (dsmDiffSpec bs cs y).2 ∧ (dsmDiffSpec bs cs y).2 ≤ 2 ^ (i + bs.length) ∧
    ((dsmDiffSpec bs cs y).2 ≤ 127 → ∀ m,
      dsmDiffs m bs.length cs (dsmOfBits (b0 :: bs) - 2 ^ (bs.length + 1) * t) y = .ok (dsmDiffSpec bs cs y)) ∧
    ((dsmDiffSpec bs cs y).2 = 128 →
      dsmDiffs .checked bs.length cs (dsmOfBits (b0 :: bs) - 2 ^ (bs.length + 1) * t) y = .error ⟨dsmSubSite⟩ ∧
      dsmDiffs .release bs.length cs (dsmOfBits (b0 :: bs) - 2 ^ (bs.length + 1) * t) y
        = .ok ((dsmDiffSpec bs cs y).1, -128)) := by
  induction bs generalizing i b0 cs y with
  | nil =>
    have h7 : (2 : Int) ^ (8 - 1) = 128 := by decide
    have := inI_iff.mp hy8
    refine ⟨hmem, by simpa [dsmDiffSpec] using hy.1, by simpa [dsmDiffSpec] using hy.2, ?_, ?_⟩
    · intro _ m; simp [dsmDiffs, dsmDiffSpec]
    · intro h; simp only [dsmDiffSpec] at h; omega
  | cons b bs ih =>
    match cs, hlen, hmem with
    | c :: cs, hlen, hmem =>
      have hcs : cs ≠ [] := by
        intro h; subst h; simp at hlen
      obtain ⟨_, hc, hmem'⟩ := hmem
      have hc := hc hcs
      have hb0 := hbits.head
      have hb := hbits.tail.head
      have hi6 : i ≤ 6 := by simp at hi; omega
      have hp1 : (1 : Int) ≤ 2 ^ i := by have := two_pow_mono (Nat.zero_le i); simpa using this
      have hp6 : (2 : Int) ^ i ≤ 2 ^ 6 := two_pow_mono hi6
      have h6 : (2 : Int) ^ 6 = 64 := by decide
      have h7 : (2 : Int) ^ (8 - 1) = 128 := by decide
      have hs : (2 : Int) ^ (i + 1) = 2 * 2 ^ i := by rw [Int.pow_succ]; omega
      have ht : inI 8 (b + y) = true := by rw [inI_iff]; omega
      have hyin : inI 8 y = true := by rw [inI_iff]; omega
      have hy'r : 1 - 2 ^ (i + 1) ≤ b + y - c ∧ b + y - c ≤ 2 ^ (i + 1) := by omega
      -- the carry word after one shift
      have hd : dsmOfBits (b0 :: b :: bs) - 2 ^ ((b :: bs).length + 1) * t
          = b0 + 2 * (dsmOfBits (b :: bs) - 2 ^ (bs.length + 1) * t) := by
        rw [List.length_cons, dsm_two_pow_succ_mul]; simp only [dsmOfBits]; omega
      have hshr : shr (dsmOfBits (b0 :: b :: bs) - 2 ^ ((b :: bs).length + 1) * t) 1
          = dsmOfBits (b :: bs) - 2 ^ (bs.length + 1) * t := by
        rw [hd]; simp only [shr]; omega
      have hmod : (dsmOfBits (b :: bs) - 2 ^ (bs.length + 1) * t) % 2 = b := by
        rw [dsm_two_pow_succ_mul]; simp only [dsmOfBits]; omega
      have hidx : i + 1 + bs.length = i + (b :: bs).length := by simp; omega
      simp only [List.length_cons] at hshr
      by_cases h128 : b + y - c ≤ 127
      · have hy' : inI 8 (b + y - c) = true := by rw [inI_iff]; omega
        obtain ⟨e1, e2, e3, e4, e5⟩ := ih (i + 1) b cs (b + y - c) hbits.tail (by simpa using hlen)
          hmem' hy'r hy' (by simp at hi ⊢; omega)
        rw [hidx] at e2 e3
        refine ⟨⟨hyin, fun _ => hy, e1⟩, e2, e3, ?_, ?_⟩
        · intro hle m
          simp only [dsmDiffSpec] at hle
          simp only [List.length_cons, dsmDiffs, hshr, hmod, arithI_ok_of_in ht,
            arithI_ok_of_in hy', bind, Except.bind, e4 hle m, dsmDiffSpec]
        · intro heq
          simp only [dsmDiffSpec] at heq
          obtain ⟨f1, f2⟩ := e5 heq
          simp only [List.length_cons, dsmDiffs, hshr, hmod, arithI_ok_of_in ht,
            arithI_ok_of_in hy', bind, Except.bind, f1, f2, dsmDiffSpec]
          exact ⟨trivial, trivial⟩
      · -- the exact value reaches +128: only possible in the very last iteration of `K = 8`
        have hi6' : i = 6 := by
          rcases (by omega : i ≤ 5 ∨ i = 6) with h | h
          · have : (2 : Int) ^ i ≤ 2 ^ 5 := two_pow_mono h
            have : (2 : Int) ^ 5 = 32 := by decide
            omega
          · exact h
        subst hi6'
        have hbs : bs = [] := by
          cases bs with
          | nil => rfl
          | cons _ _ => simp at hi; omega
        subst hbs
        match cs, hcs, hlen with
        | [l], _, _ =>
          have hv : b + y - c = 128 := by omega
          have hnot : inI 8 (b + y - c) = false := by rw [hv]; decide
          have h7' : (2 : Int) ^ (6 + [b].length) = 128 := by
            show (2 : Int) ^ 7 = 128
            decide
          have hck : arithI .checked 8 "dsm.rs:51 (d & 1) + y - *c" (b + y - c) = .error ⟨dsmSubSite⟩ := by
            simp [arithI, hnot, dsmSubSite]
          have hrl : arithI .release 8 "dsm.rs:51 (d & 1) + y - *c" (b + y - c) = .ok (-128) := by
            rw [hv]; rfl
          simp only [List.length_nil] at hshr hmod
          refine ⟨⟨hyin, fun _ => hy, hmem'⟩, ?_, ?_, ?_, ?_⟩
          · simp only [dsmDiffSpec, h7', hv]; omega
          · simp only [dsmDiffSpec, h7', hv]; omega
          · intro hle; simp only [dsmDiffSpec, hv] at hle; omega
          · intro _
            simp only [List.length_cons, List.length_nil, dsmDiffs, hshr, hmod, arithI_ok_of_in ht, hck, hrl,
              bind, Except.bind, dsmDiffSpec]
            exact ⟨trivial, trivial⟩
/-- One step for every order `1 ≤ K ≤ 8` and every state satisfying the invariant. -/
theorem dsm_update_gen (s : Dsm) (x : Int) (hK1 : 1 ≤ s.a.length) (hK8 : s.a.length ≤ 8) (hs : DsmInv s) :
    DsmInv (dsmStepSpec s x).1 ∧
    1 - 2 ^ (s.a.length - 1) ≤ (dsmStepSpec s x).2 ∧ (dsmStepSpec s x).2 ≤ 2 ^ (s.a.length - 1) ∧
    ((dsmStepSpec s x).2 ≤ 127 → ∀ m, Dsm.update m s x = .ok (dsmStepSpec s x)) ∧
    ((dsmStepSpec s x).2 = 128 →
      Dsm.update .checked s x = .error ⟨dsmSubSite⟩ ∧
      Dsm.update .release s x = .ok ((dsmStepSpec s x).1, -128)) := by
  obtain ⟨hl, ha, hm⟩ := hs
  have hacc := dsmAccs_wrap s.a x []
  rw [show wrapI 8 (dsmOfBits []) = 0 by decide, List.append_nil] at hacc
  have hrl : (dsmCarries s.a x).reverse.length = s.a.length := by simp [dsmCarries_length]
  have hrb : DsmIsBits (dsmCarries s.a x).reverse :=
    fun b hb => dsmCarries_bits s.a x b (List.mem_reverse.mp hb)
  simp only [dsmStepSpec, Dsm.update]
  rw [hacc]
  generalize (dsmCarries s.a x).reverse = rc at *
  match rc, hrl, hrb with
  | [], hrl, _ => simp at hrl; omega
  | b0 :: bs, hrl, hrb =>
    have hn : bs.length = s.a.length - 1 := by simp at hrl; omega
    have hb0 := hrb.head
    -- the packed word: sign-extended only for K = 8
    have hN := dsmOfBits_bound hrb
    obtain ⟨t, ht⟩ : ∃ t : Int, wrapI 8 (dsmOfBits (b0 :: bs)) = dsmOfBits (b0 :: bs) - 2 ^ (bs.length + 1) * t := by
      by_cases h8 : bs.length + 1 = 8
      · obtain ⟨k, hk⟩ := wrapI_eq_sub 8 (dsmOfBits (b0 :: bs))
        exact ⟨k, by rw [hk, h8, Int.mul_comm]⟩
      · refine ⟨0, ?_⟩
        have hp : (2 : Int) ^ (b0 :: bs).length ≤ 2 ^ 7 := two_pow_mono (by simp; omega)
        have h7 : (2 : Int) ^ 7 = 128 := by decide
        rw [Int.mul_zero, Int.sub_zero]
        apply wrapI_of_in (by decide)
        rw [inI_iff]
        have h7' : (2 : Int) ^ (8 - 1) = 128 := by decide
        omega
    have hmod : (dsmOfBits (b0 :: bs) - 2 ^ (bs.length + 1) * t) % 2 = b0 := by
      rw [dsm_two_pow_succ_mul]; simp only [dsmOfBits]; omega
    have hb8 : inI 8 b0 = true := by rcases hb0 with rfl | rfl <;> decide
    obtain ⟨e1, e2, e3, e4, e5⟩ := dsmDiffs_gen 0 b0 bs s.c b0 t hrb (by omega) hm
      (by simp; omega) hb8 (by omega)
    have htn : (if (s.a.length : Int) ≥ 1 then (s.a.length : Int) - 1 else 0).toNat = bs.length := by
      split <;> omega
    rw [Nat.zero_add, hn] at e2 e3
    simp only [bind, Except.bind, htn, ht, hmod, dsmMash]
    refine ⟨⟨?_, dsmNewAccs_range _ _, e1⟩, e2, e3, ?_, ?_⟩
    · rw [dsmDiffSpec_length _ _ _ (by omega), dsmNewAccs_length, hl]
    · intro hle m; rw [e4 hle m]
    · intro heq
      obtain ⟨f1, f2⟩ := e5 heq
      rw [f1, f2]
      exact ⟨rfl, rfl⟩

/-- whole sequences, `1 ≤ K ≤ 8`: the unbounded specification keeps the invariant, its outputs are in range -/
theorem dsmSpecRun_inv (s : Dsm) (xs : List Int) (hK1 : 1 ≤ s.a.length) (hK8 : s.a.length ≤ 8)
    (hs : DsmInv s) :
    DsmInv (dsmSpecRun s xs).1 ∧ (dsmSpecRun s xs).1.a.length = s.a.length ∧
    (dsmSpecRun s xs).2.length = xs.length ∧
    ∀ y ∈ (dsmSpecRun s xs).2, 1 - 2 ^ (s.a.length - 1) ≤ y ∧ y ≤ 2 ^ (s.a.length - 1) := by
  induction xs generalizing s with
  | nil => exact ⟨hs, rfl, rfl, fun y hy => by cases hy⟩
  | cons x xs ih =>
    obtain ⟨e1, e2, e3, _, _⟩ := dsm_update_gen s x hK1 hK8 hs
    have hl := dsmStepSpec_length s x
    obtain ⟨f1, f2, f3, f4⟩ := ih (dsmStepSpec s x).1 (by omega) (by omega) e1
    refine ⟨f1, by rw [← hl]; exact f2, by simp [dsmSpecRun, f3], ?_⟩
    intro y hy
    simp only [dsmSpecRun, List.mem_cons] at hy
    rcases hy with rfl | hy
    · exact ⟨e2, e3⟩
    · have := f4 y hy
      rwa [hl] at this

/-- the error identity of the unbounded specification, `1 ≤ K ≤ 8` -/
theorem dsmSpecRun_err_gen (s : Dsm) (xs : List Int) (hK1 : 1 ≤ s.a.length) (hK8 : s.a.length ≤ 8)
    (hs : DsmInv s) (hxs : ∀ x ∈ xs, 0 ≤ x ∧ x < 2 ^ 32) :
    2 ^ 32 * (dsmSpecRun s xs).2.sum - xs.sum = dsmErr (dsmSpecRun s xs).1 - dsmErr s := by
  induction xs generalizing s with
  | nil => simp [dsmSpecRun]
  | cons x xs ih =>
    obtain ⟨e2, _, _, _, _⟩ := dsm_update_gen s x hK1 hK8 hs
    have hl := dsmStepSpec_length s x
    have h1 := dsmStepSpec_err s x hK1 hs (hxs x List.mem_cons_self)
    have h2 := ih (dsmStepSpec s x).1 (by omega) (by omega) e2
      (fun z hz => hxs z (List.mem_cons_of_mem _ hz))
    simp only [dsmSpecRun, List.sum_cons, Int.mul_add]
    omega

/-- the release build, `1 ≤ K ≤ 8`: exact state, outputs reduced to `i8` -/
theorem dsm_run_release_gen (s : Dsm) (xs : List Int) (hK1 : 1 ≤ s.a.length) (hK8 : s.a.length ≤ 8)
    (hs : DsmInv s) :
    Dsm.run .release s xs = .ok ((dsmSpecRun s xs).1, (dsmSpecRun s xs).2.map (wrapI 8)) := by
  induction xs generalizing s with
  | nil => rfl
  | cons x xs ih =>
    obtain ⟨e1, e2, e3, e4, e5⟩ := dsm_update_gen s x hK1 hK8 hs
    have hl := dsmStepSpec_length s x
    have f := ih (dsmStepSpec s x).1 (by omega) (by omega) e1
    have hp : (2 : Int) ^ (s.a.length - 1) ≤ 2 ^ 7 := two_pow_mono (by omega)
    have h7 : (2 : Int) ^ 7 = 128 := by decide
    have h7' : (2 : Int) ^ (8 - 1) = 128 := by decide
    by_cases h : (dsmStepSpec s x).2 ≤ 127
    · have hw : wrapI 8 (dsmStepSpec s x).2 = (dsmStepSpec s x).2 :=
        wrapI_of_in (by decide) (by rw [inI_iff]; omega)
      simp only [Dsm.run, e4 h .release, f, bind, Except.bind, dsmSpecRun, List.map_cons, hw]
    · have h128 : (dsmStepSpec s x).2 = 128 := by omega
      have hw : wrapI 8 (dsmStepSpec s x).2 = -128 := by rw [h128]; decide
      simp only [Dsm.run, (e5 h128).2, f, bind, Except.bind, dsmSpecRun, List.map_cons, hw]

/-- the checked build, `1 ≤ K ≤ 8`: panics (at the subtraction) as soon as an exact output is `+128` -/
theorem dsm_run_checked_gen (s : Dsm) (xs : List Int) (hK1 : 1 ≤ s.a.length) (hK8 : s.a.length ≤ 8)
    (hs : DsmInv s) :
    ((∀ y ∈ (dsmSpecRun s xs).2, y ≠ 128) → Dsm.run .checked s xs = .ok (dsmSpecRun s xs)) ∧
    ((∃ y ∈ (dsmSpecRun s xs).2, y = 128) → Dsm.run .checked s xs = .error ⟨dsmSubSite⟩) := by
  induction xs generalizing s with
  | nil => exact ⟨fun _ => rfl, fun ⟨y, hy, _⟩ => by cases hy⟩
  | cons x xs ih =>
    obtain ⟨e1, e2, e3, e4, e5⟩ := dsm_update_gen s x hK1 hK8 hs
    have hl := dsmStepSpec_length s x
    obtain ⟨f1, f2⟩ := ih (dsmStepSpec s x).1 (by omega) (by omega) e1
    have hp : (2 : Int) ^ (s.a.length - 1) ≤ 2 ^ 7 := two_pow_mono (by omega)
    have h7 : (2 : Int) ^ 7 = 128 := by decide
    constructor
    · intro hall
      have h : (dsmStepSpec s x).2 ≤ 127 := by
        have := hall (dsmStepSpec s x).2 (by simp [dsmSpecRun])
        omega
      have := f1 (fun y hy => hall y (by simp [dsmSpecRun, hy]))
      simp only [Dsm.run, e4 h .checked, this, bind, Except.bind, dsmSpecRun]
    · rintro ⟨y, hy, rfl⟩
      by_cases h : (dsmStepSpec s x).2 = 128
      · simp only [Dsm.run, (e5 h).1, bind, Except.bind]
      · have hle : (dsmStepSpec s x).2 ≤ 127 := by omega
        simp only [dsmSpecRun, List.mem_cons] at hy
        rcases hy with hy | hy
        · exact absurd hy.symm h
        · simp only [Dsm.run, e4 hle .checked, f2 ⟨128, hy, rfl⟩, bind, Except.bind]

end Idsp
