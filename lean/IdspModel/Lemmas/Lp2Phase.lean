import IdspModel.Lemmas.Lp2Lyap
/-!
# Second-order lowpass: the first-quadrant phase of a large step (abstract centred sequences)

`Lp2Rel a b U e s e' s'`: one step of the centred recursion with a disturbance bounded by `U`.
`lp2_phase1`: while the centred error stays above `U/a`, the velocity keeps the sign that reduces the error, is bounded
by the terminal velocity `S`, and the error decreases monotonically by at most `2S` per step.
`lp2Q_iss_t`: the input-to-state inequality with a free Cauchy–Schwarz parameter `t = tn/td` (contraction factor
`(1+t)·det A`, arbitrarily close to `det A`).
-/
namespace Idsp
set_option linter.unusedVariables false

def Lp2Rel (a b U e s e' s' : Int) : Prop :=
  ∃ u : Int, u ^ 2 ≤ U ^ 2 ∧
    4294967296 * e' = (4294967296 - 2 * a) * e - (2 * 4294967296 - 2 * b) * s - 2 * u ∧
    4294967296 * s' = 2 * a * e + (4294967296 - 2 * b) * s + 2 * u

theorem Lp2Rel.neg {a b U e s e' s' : Int} (h : Lp2Rel a b U e s e' s') : Lp2Rel a b U (-e) (-s) (-e') (-s') := by
  obtain ⟨u, hu, h1, h2⟩ := h
  exact ⟨-u, by simpa using hu, by linarith, by linarith⟩

theorem Lp2Rel.sum {a b U e s e' s' : Int} (h : Lp2Rel a b U e s e' s') : e' = e - (s + s') := by
  obtain ⟨u, -, h1, h2⟩ := h
  have : 4294967296 * e' = 4294967296 * (e - (s + s')) := by linarith
  exact Int.eq_of_mul_eq_mul_left (by norm_num) this

theorem lp2_phase1 {a b U : Int} (ha : 0 < a) (hb0 : 0 < b) (hb1 : b ≤ 2147483648) (hU : 0 ≤ U)
    (e s : Nat → Int) (hrel : ∀ n, Lp2Rel a b U (e n) (s n) (e (n + 1)) (s (n + 1)))
    (S0 S : Int) (h00 : -S0 ≤ s 0) (h01 : s 0 ≤ S0) (hS0 : 0 ≤ S0) (hS0S : S0 ≤ S)
    (hS : a * (e 0 + S0) + U ≤ b * S) (hbig : 4294967296 * S0 + 2 * U ≤ 2 * a * e 0) :
    ∀ n : Nat, (∀ j, j < n → U ≤ a * e j) →
      (1 ≤ n → 0 ≤ s n) ∧ -S0 ≤ s n ∧ s n ≤ S ∧ e n ≤ e 0 + S0 ∧ e 0 - S0 - 2 * n * S ≤ e n := by
  intro n
  induction n with
  | zero => intro _; exact ⟨by omega, h00, by omega, by omega, by simp; omega⟩
  | succ n ih =>
    intro hj
    obtain ⟨ihs0, ihs1, ihs2, ihe1, ihe2⟩ := ih (fun j hjn => hj j (by omega))
    have hen := hj n (by omega)
    obtain ⟨u, hu, h1, h2⟩ := hrel n
    obtain ⟨hu0, hu1⟩ := abs_le_of_sq_le_sq' hu hU
    have hsum := (hrel n).sum
    have hMb : (0 : Int) ≤ 4294967296 - 2 * b := by omega
    have hs'0 : 0 ≤ s (n + 1) := by
      have : 0 ≤ 4294967296 * s (n + 1) := by
        rcases Nat.eq_zero_or_pos n with rfl | hn
        · have h3 : (4294967296 - 2 * b) * (-S0) ≤ (4294967296 - 2 * b) * s 0 :=
            mul_le_mul_of_nonneg_left h00 hMb
          have h4 : 0 ≤ b * S0 := by positivity
          nlinarith
        · have h3 : 0 ≤ (4294967296 - 2 * b) * s n := mul_nonneg hMb (ihs0 hn)
          nlinarith
      exact nonneg_of_mul_nonneg_right this (by norm_num)
    have hs'S : s (n + 1) ≤ S := by
      have h3 : (4294967296 - 2 * b) * s n ≤ (4294967296 - 2 * b) * S := mul_le_mul_of_nonneg_left ihs2 hMb
      have h4 : a * e n ≤ a * (e 0 + S0) := mul_le_mul_of_nonneg_left ihe1 (le_of_lt ha)
      have : 4294967296 * s (n + 1) ≤ 4294967296 * S := by nlinarith
      exact le_of_mul_le_mul_left this (by norm_num)
    refine ⟨fun _ => hs'0, by omega, hs'S, ?_, ?_⟩
    · rcases Nat.eq_zero_or_pos n with rfl | hn
      · rw [hsum]; omega
      · have := ihs0 hn; rw [hsum]; omega
    · rw [hsum]; push_cast; nlinarith

/-- the first-quadrant phase lasts at least as long as `2nS ≤ e₀ − S₀ − thr` -/
theorem lp2_phase1_len {a b U : Int} (ha : 0 < a) (hb0 : 0 < b) (hb1 : b ≤ 2147483648) (hU : 0 ≤ U)
    (e s : Nat → Int) (hrel : ∀ n, Lp2Rel a b U (e n) (s n) (e (n + 1)) (s (n + 1)))
    (S0 S thr : Int) (h00 : -S0 ≤ s 0) (h01 : s 0 ≤ S0) (hS0 : 0 ≤ S0) (hS0S : S0 ≤ S)
    (hS : a * (e 0 + S0) + U ≤ b * S) (hbig : 4294967296 * S0 + 2 * U ≤ 2 * a * e 0)
    (hthr : U ≤ a * thr) :
    ∀ n : Nat, 2 * n * S ≤ e 0 - S0 - thr →
      thr ≤ e n ∧ (1 ≤ n → 0 ≤ s n) ∧ -S0 ≤ s n ∧ s n ≤ S ∧ e n ≤ e 0 + S0 := by
  intro n
  induction n using Nat.strongRecOn with
  | _ n ih =>
    intro hn
    have hS' : 0 ≤ S := by omega
    have hprev : ∀ j, j < n → U ≤ a * e j := by
      intro j hj
      have h2 : 2 * (j : Int) * S ≤ 2 * (n : Int) * S := by
        have : (j : Int) ≤ n := by exact_mod_cast Nat.le_of_lt hj
        nlinarith
      have := (ih j hj (by omega)).1
      have := mul_le_mul_of_nonneg_left this (le_of_lt ha)
      omega
    obtain ⟨p1, p2, p3, p4, p5⟩ := lp2_phase1 ha hb0 hb1 hU e s hrel S0 S h00 h01 hS0 hS0S hS hbig n hprev
    exact ⟨by omega, p1, p2, p3, p4⟩

/-- input-to-state inequality with a free parameter `t = tn/td` -/
theorem lp2Q_iss_t {a b : Int} (ha : 0 < a) (hD : 0 ≤ lp2Disc a b) (tn td : Int) (E s E' s' u : Int)
    (hE : 4294967296 * E' = (4294967296 - 2 * a) * E - (2 * 4294967296 - 2 * b) * s - 2 * u)
    (hs : 4294967296 * s' = 2 * a * E + (4294967296 - 2 * b) * s + 2 * u) :
    tn * td * (4294967296 ^ 2 * lp2Q a b E' s')
      ≤ tn * (tn + td) * (4294967296 * (4294967296 + 2 * a - 2 * b) * lp2Q a b E s)
        + td * (tn + td) * (4 * 4294967296 * u ^ 2) := by
  have hsc := lp2Q_scale a b 4294967296 E' s'
  rw [hE, hs] at hsc
  have hlin := lp2Q_linear a b E s
  have hid : tn * (tn + td) * lp2Q a b ((4294967296 - 2 * a) * E - (2 * 4294967296 - 2 * b) * s)
        (2 * a * E + (4294967296 - 2 * b) * s)
      + td * (tn + td) * (4 * 4294967296 * u ^ 2)
      - tn * td * lp2Q a b ((4294967296 - 2 * a) * E - (2 * 4294967296 - 2 * b) * s - 2 * u)
          (2 * a * E + (4294967296 - 2 * b) * s + 2 * u)
      = lp2Q a b (tn * ((4294967296 - 2 * a) * E - (2 * 4294967296 - 2 * b) * s) + td * (2 * u))
          (tn * (2 * a * E + (4294967296 - 2 * b) * s) - td * (2 * u)) := by
    unfold lp2Q; ring
  have hnn := lp2Q_nonneg ha hD
    (tn * ((4294967296 - 2 * a) * E - (2 * 4294967296 - 2 * b) * s) + td * (2 * u))
    (tn * (2 * a * E + (4294967296 - 2 * b) * s) - td * (2 * u))
  rw [← hid, hlin, hsc] at hnn
  linarith

end Idsp
