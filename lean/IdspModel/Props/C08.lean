import IdspModel.Lemmas.PidTransfer
import IdspModel.Lemmas.PidKernel
import IdspModel.Lemmas.PidSign
import Mathlib.Tactic.NormNum
import Mathlib.Algebra.Order.Round
import Mathlib.Data.Rat.Floor
import Mathlib.Data.Complex.Basic
/-!
# C08 — `PidBuilder::build` realises the stated transfer function; exact integrator kernels without limits

Model: `pidGl` / `pidBuild` in `IdspModel/Model/Coeff.lean` (`src/iir/pid.rs`).  Scalars are an arbitrary field `K`
(`fieldOps K`: exact arithmetic, IEEE rounding NOT modelled); an unset gain limit (`+∞` in the code) is `none`.
`gain = [I2, I, P, D, D2]`, `order`: 2 = P, 1 = I, 0 = I2.  Output `(b0, b1, b2, a1, a2)`; `w` stands for `z⁻¹`.

Property theorems only (helper lemmas live in `IdspModel/Lemmas/Pid*.lean`).
-/
namespace Idsp

variable {K : Type} [Field K]

/-! ### the period-scaled gains `g_i` and normalised limits `l_i` for each order -/

/-- order P: slots are the P, D, D2 actions, `g = [gain_P, gain_D/period, gain_D2/period²]`,
    `l = [1, g1/limit_D, g2/limit_D2]` (`limGain g none = 0`, `limGain g (some lim) = g/lim`) -/
theorem pid_gains_order_P (period : K) (hp : period ≠ 0) (k0 k1 k2 k3 k4 : K) (m0 m1 m2 m3 m4 : Option K) :
    pidGl (fieldOps K) period 2 [k0, k1, k2, k3, k4] [m0, m1, m2, m3, m4] =
      [(k2, 1), (k3 / period, limGain (k3 / period) m3),
       (k4 / period ^ 2, limGain (k4 / period ^ 2) m4)] :=
  pidGl_order_P period hp k0 k1 k2 k3 k4 m0 m1 m2 m3 m4

/-- order I: slots are the I, P, D actions, `g = [gain_I·period, gain_P, gain_D/period]`,
    `l = [g0/limit_I, 1, g2/limit_D]` -/
theorem pid_gains_order_I (period : K) (hp : period ≠ 0) (k0 k1 k2 k3 k4 : K) (m0 m1 m2 m3 m4 : Option K) :
    pidGl (fieldOps K) period 1 [k0, k1, k2, k3, k4] [m0, m1, m2, m3, m4] =
      [(k1 * period, limGain (k1 * period) m1), (k2, 1), (k3 / period, limGain (k3 / period) m3)] :=
  pidGl_order_I period hp k0 k1 k2 k3 k4 m0 m1 m2 m3 m4

/-- order I2: slots are the I2, I, P actions, `g = [gain_I2·period², gain_I·period, gain_P]`,
    `l = [g0/limit_I2, g1/limit_I, 1]` -/
theorem pid_gains_order_I2 (period : K) (k0 k1 k2 k3 k4 : K) (m0 m1 m2 m3 m4 : Option K) :
    pidGl (fieldOps K) period 0 [k0, k1, k2, k3, k4] [m0, m1, m2, m3, m4] =
      [(k0 * period ^ 2, limGain (k0 * period ^ 2) m0), (k1 * period, limGain (k1 * period) m1), (k2, 1)] :=
  pidGl_order_I2 period k0 k1 k2 k3 k4 m0 m1 m2 m3 m4

/-- With matching gain/limit signs (`signOK`: every set limit of a relevant non-P action is non-zero and
    `gain·limit ≥ 0`) and a positive period, the normalisation `L = l0 + l1 + l2` is at least 1, in particular
    non-zero: the hypothesis `L ≠ 0` of the transfer theorems below is then automatic. -/
theorem pid_lsum_ge_one [LinearOrder K] [IsStrictOrderedRing K] (period : K) (hp : 0 < period)
    (order : Nat) (ho : order ≤ 2) (k0 k1 k2 k3 k4 : K) (m0 m1 m2 m3 m4 : Option K)
    (hs : ∀ i, order ≤ i → i ≤ order + 2 → i ≠ 2 →
      signOK ([k0, k1, k2, k3, k4].getD i 0) ([m0, m1, m2, m3, m4].getD i none))
    (g0 l0 g1 l1 g2 l2 : K)
    (hgl : pidGl (fieldOps K) period order [k0, k1, k2, k3, k4] [m0, m1, m2, m3, m4]
      = [(g0, l0), (g1, l1), (g2, l2)]) :
    1 ≤ l0 + l1 + l2 := by
  have hp0 : period ≠ 0 := ne_of_gt hp
  have hp1 : 0 ≤ period := le_of_lt hp
  have hp2 : 0 ≤ period ^ 2 := pow_nonneg hp1 2
  have s0 := hs 0; have s1 := hs 1; have s3 := hs 3; have s4 := hs 4
  obtain rfl | rfl | rfl : order = 0 ∨ order = 1 ∨ order = 2 := by omega
  · rw [pidGl_order_I2] at hgl
    simp only [List.cons.injEq, Prod.mk.injEq, and_true] at hgl
    obtain ⟨⟨_, rfl⟩, ⟨_, rfl⟩, _, rfl⟩ := hgl
    have a := limGain_nonneg hp2 (s0 (by omega) (by omega) (by omega))
    have b := limGain_nonneg hp1 (s1 (by omega) (by omega) (by omega))
    simp only [List.getD_cons_zero, List.getD_cons_succ] at a b
    linarith
  · rw [pidGl_order_I _ hp0] at hgl
    simp only [List.cons.injEq, Prod.mk.injEq, and_true] at hgl
    obtain ⟨⟨_, rfl⟩, ⟨_, rfl⟩, _, rfl⟩ := hgl
    have a := limGain_nonneg hp1 (s1 (by omega) (by omega) (by omega))
    have b := limGain_div_nonneg hp1 (s3 (by omega) (by omega) (by omega))
    simp only [List.getD_cons_zero, List.getD_cons_succ] at a b
    linarith
  · rw [pidGl_order_P _ hp0] at hgl
    simp only [List.cons.injEq, Prod.mk.injEq, and_true] at hgl
    obtain ⟨⟨_, rfl⟩, ⟨_, rfl⟩, _, rfl⟩ := hgl
    have a := limGain_div_nonneg hp1 (s3 (by omega) (by omega) (by omega))
    have b := limGain_div_nonneg hp2 (s4 (by omega) (by omega) (by omega))
    simp only [List.getD_cons_zero, List.getD_cons_succ] at a b
    linarith

/-! ### transfer function -/

/-- **Transfer function, numerator and denominator polynomials.**  Exact coefficients (`C = T = K`: `quantize = id`,
    plain `+`, kernel entry times coefficient = field product).  For every order, period, gain and limit lists: let
    `(g_j, l_j)` be the three entries of `pidGl` (made explicit by `pid_gains_order_*`) and assume
    `L = l0 + l1 + l2 ≠ 0`.  Then for every `w` (`= z⁻¹`) in every field `A` that `K` maps into (`f = RingHom.id`
    for `w ∈ K`; `ℝ → ℂ` for points on the unit circle, i.e. every frequency), with `D = 1 - w`:
    `b0 + b1 w + b2 w² = (g0 + g1 D + g2 D²)/L` and `1 + a1 w + a2 w² = (l0 + l1 D + l2 D²)/L`
    (the dropped `a0` is exactly 1).
    The identity is relative to the entries of `pidGl`, so it needs no hypothesis on `order`, list lengths, `period`
    or the limits; the model's `pidGl` is a faithful image of the code for `order ≤ 2`, five gains/limits,
    `period ≠ 0` and set limits `≠ 0` (Lean's `g/0 = 0` is not IEEE's `±∞`/NaN): see `pid_gains_order_*` and
    `pid_transfer_signs` for the statements under exactly those preconditions. -/
theorem pid_transfer {A : Type} [Field A] (f : K →+* A) (period : K) (order : Nat) (gain : List K)
    (limit : List (Option K)) (g0 l0 g1 l1 g2 l2 : K)
    (hgl : pidGl (fieldOps K) period order gain limit = [(g0, l0), (g1, l1), (g2, l2)])
    (hL : l0 + l1 + l2 ≠ 0) (b0 b1 b2 a1 a2 : K)
    (hb : pidBuild (fieldOps K) id 0 (· + ·) (fun k x => (k : K) * x) period order gain limit
      = (b0, b1, b2, a1, a2)) (w : A) :
    f b0 + f b1 * w + f b2 * w ^ 2
        = (f g0 + f g1 * (1 - w) + f g2 * (1 - w) ^ 2) / f (l0 + l1 + l2) ∧
    1 + f a1 * w + f a2 * w ^ 2
        = (f l0 + f l1 * (1 - w) + f l2 * (1 - w) ^ 2) / f (l0 + l1 + l2) :=
  pid_polys f period order gain limit g0 l0 g1 l1 g2 l2 hgl hL b0 b1 b2 a1 a2 hb w

/-- **Transfer function.**  Same setting:
    `H(w) = (b0 + b1 w + b2 w²)/(1 + a1 w + a2 w²) = (g0 + g1 D + g2 D²)/(l0 + l1 D + l2 D²)`, `D = 1 - w`
    (meaningful wherever the denominator polynomial is non-zero; at a pole both sides are Lean's `x/0 = 0`). -/
theorem pid_transfer_ratio {A : Type} [Field A] (f : K →+* A) (period : K) (order : Nat) (gain : List K)
    (limit : List (Option K)) (g0 l0 g1 l1 g2 l2 : K)
    (hgl : pidGl (fieldOps K) period order gain limit = [(g0, l0), (g1, l1), (g2, l2)])
    (hL : l0 + l1 + l2 ≠ 0) (b0 b1 b2 a1 a2 : K)
    (hb : pidBuild (fieldOps K) id 0 (· + ·) (fun k x => (k : K) * x) period order gain limit
      = (b0, b1, b2, a1, a2)) (w : A) :
    (f b0 + f b1 * w + f b2 * w ^ 2) / (1 + f a1 * w + f a2 * w ^ 2)
      = (f g0 + f g1 * (1 - w) + f g2 * (1 - w) ^ 2) / (f l0 + f l1 * (1 - w) + f l2 * (1 - w) ^ 2) := by
  obtain ⟨hn, hd⟩ := pid_polys f period order gain limit g0 l0 g1 l1 g2 l2 hgl hL b0 b1 b2 a1 a2 hb w
  rw [hn, hd, div_div_div_cancel_right₀ ((map_ne_zero f).mpr hL)]

/-- **Transfer function with the builder's own preconditions and no side condition left.**  Order P, I or I2,
    five gains and five limits, positive period, matching signs (`signOK`: relevant set limits are non-zero and
    `gain·limit ≥ 0`; an ignored limit, e.g. the P limit, is unconstrained): then `L ≥ 1` and both polynomial
    identities of `pid_transfer` hold at every `w`. -/
theorem pid_transfer_signs [LinearOrder K] [IsStrictOrderedRing K] {A : Type} [Field A] (f : K →+* A)
    (period : K) (hp : 0 < period) (order : Nat) (ho : order ≤ 2) (k0 k1 k2 k3 k4 : K)
    (m0 m1 m2 m3 m4 : Option K)
    (hs : ∀ i, order ≤ i → i ≤ order + 2 → i ≠ 2 →
      signOK ([k0, k1, k2, k3, k4].getD i 0) ([m0, m1, m2, m3, m4].getD i none))
    (g0 l0 g1 l1 g2 l2 : K)
    (hgl : pidGl (fieldOps K) period order [k0, k1, k2, k3, k4] [m0, m1, m2, m3, m4]
      = [(g0, l0), (g1, l1), (g2, l2)]) (b0 b1 b2 a1 a2 : K)
    (hb : pidBuild (fieldOps K) id 0 (· + ·) (fun k x => (k : K) * x) period order [k0, k1, k2, k3, k4]
      [m0, m1, m2, m3, m4] = (b0, b1, b2, a1, a2)) (w : A) :
    1 ≤ l0 + l1 + l2 ∧
    f b0 + f b1 * w + f b2 * w ^ 2
        = (f g0 + f g1 * (1 - w) + f g2 * (1 - w) ^ 2) / f (l0 + l1 + l2) ∧
    1 + f a1 * w + f a2 * w ^ 2
        = (f l0 + f l1 * (1 - w) + f l2 * (1 - w) ^ 2) / f (l0 + l1 + l2) := by
  have hL := pid_lsum_ge_one period hp order ho k0 k1 k2 k3 k4 m0 m1 m2 m3 m4 hs g0 l0 g1 l1 g2 l2 hgl
  have hL0 : l0 + l1 + l2 ≠ 0 := by
    intro h; rw [h] at hL; exact absurd hL (by norm_num)
  exact ⟨hL, pid_polys f period order _ _ g0 l0 g1 l1 g2 l2 hgl hL0 b0 b1 b2 a1 a2 hb w⟩

/-- **At every frequency**: real coefficients, `w = z⁻¹` any complex number (e.g. `exp (-iω)`) at which the
    denominator does not vanish; casts `ℝ → ℂ` are written `↑`. -/
theorem pid_transfer_complex (period : ℝ) (order : Nat) (gain : List ℝ) (limit : List (Option ℝ))
    (g0 l0 g1 l1 g2 l2 : ℝ)
    (hgl : pidGl (fieldOps ℝ) period order gain limit = [(g0, l0), (g1, l1), (g2, l2)])
    (hL : l0 + l1 + l2 ≠ 0) (b0 b1 b2 a1 a2 : ℝ)
    (hb : pidBuild (fieldOps ℝ) id 0 (· + ·) (fun k x => (k : ℝ) * x) period order gain limit
      = (b0, b1, b2, a1, a2)) (w : ℂ) :
    ((b0 : ℂ) + b1 * w + b2 * w ^ 2) / (1 + a1 * w + a2 * w ^ 2)
      = ((g0 : ℂ) + g1 * (1 - w) + g2 * (1 - w) ^ 2) / ((l0 : ℂ) + l1 * (1 - w) + l2 * (1 - w) ^ 2) :=
  pid_transfer_ratio Complex.ofRealHom period order gain limit g0 l0 g1 l1 g2 l2 hgl hL b0 b1 b2 a1 a2 hb w

/-- The default order I with a positive period and matching signs, everything explicit and no side condition
    left: `g = [gain_I·period, gain_P, gain_D/period]`, `l = [g0/limit_I, 1, g2/limit_D]`. -/
theorem pid_transfer_order_I [LinearOrder K] [IsStrictOrderedRing K] (period : K) (hp : 0 < period)
    (k0 k1 k2 k3 k4 : K) (m0 m1 m2 m3 m4 : Option K) (h1 : signOK k1 m1) (h3 : signOK k3 m3)
    (b0 b1 b2 a1 a2 : K)
    (hb : pidBuild (fieldOps K) id 0 (· + ·) (fun k x => (k : K) * x) period 1 [k0, k1, k2, k3, k4]
      [m0, m1, m2, m3, m4] = (b0, b1, b2, a1, a2)) (w : K) :
    let g0 := k1 * period; let g1 := k2; let g2 := k3 / period
    let l0 := limGain g0 m1; let l1 := (1 : K); let l2 := limGain g2 m3
    1 ≤ l0 + l1 + l2 ∧
    b0 + b1 * w + b2 * w ^ 2 = (g0 + g1 * (1 - w) + g2 * (1 - w) ^ 2) / (l0 + l1 + l2) ∧
    1 + a1 * w + a2 * w ^ 2 = (l0 + l1 * (1 - w) + l2 * (1 - w) ^ 2) / (l0 + l1 + l2) := by
  intro g0 g1 g2 l0 l1 l2
  have hgl := pidGl_order_I period (ne_of_gt hp) k0 k1 k2 k3 k4 m0 m1 m2 m3 m4
  have hL : 1 ≤ l0 + l1 + l2 := by
    refine pid_lsum_ge_one period hp 1 (by omega) k0 k1 k2 k3 k4 m0 m1 m2 m3 m4 ?_ _ _ _ _ _ _ hgl
    intro i hi1 hi2 hi3
    obtain rfl | rfl : i = 1 ∨ i = 3 := by omega
    · exact h1
    · exact h3
  refine ⟨hL, ?_⟩
  have hL0 : l0 + l1 + l2 ≠ 0 := by
    intro h; rw [h] at hL; exact absurd hL (by norm_num)
  exact pid_polys (RingHom.id K) period 1 _ _ g0 l0 g1 l1 g2 l2 hgl hL0 b0 b1 b2 a1 a2 hb w

/-! ### no gain limits: exact integrator kernel in every coefficient type -/

section
variable {γ : Type} {quantize : K → γ} {gzero : γ} {gadd : γ → γ → γ} {gmulInt : Int → γ → γ}

/-- **Exact kernel.**  `γ` is ANY coefficient type with operations satisfying `PidCoeffLaws`
    (`0 + x = x`, `x + 0 = x`, `k·0 = 0`, `0·x = 0`, `1·x = x`) and `quantize` ANY function with
    `quantize 0 = 0`; write `ONE = quantize 1`.  When all five limits are unset, for all gains and every non-zero
    period the feedback pair `(a1, a2)` is `(0, 0)` for order P, `(-1·ONE, 0)` for order I and
    `(-2·ONE, ONE)` for order I2: independent of gains and period, the poles sit exactly on `z = 1`. -/
theorem pid_exact_kernel (laws : PidCoeffLaws gzero gadd gmulInt) (hq0 : quantize 0 = gzero)
    (period : K) (hp : period ≠ 0) (k0 k1 k2 k3 k4 : K) :
    (pidBuild (fieldOps K) quantize gzero gadd gmulInt period 2 [k0, k1, k2, k3, k4]
        [none, none, none, none, none]).2.2.2 = (gzero, gzero) ∧
    (pidBuild (fieldOps K) quantize gzero gadd gmulInt period 1 [k0, k1, k2, k3, k4]
        [none, none, none, none, none]).2.2.2 = (gmulInt (-1) (quantize 1), gzero) ∧
    (pidBuild (fieldOps K) quantize gzero gadd gmulInt period 0 [k0, k1, k2, k3, k4]
        [none, none, none, none, none]).2.2.2 = (gmulInt (-2) (quantize 1), quantize 1) := by
  rw [pidBuild_noLimit_P laws hq0 period hp, pidBuild_noLimit_I laws hq0 period hp,
    pidBuild_noLimit_I2 laws hq0 period]
  exact ⟨rfl, rfl, rfl⟩

/-- **Lone proportional gain.**  Order P, only the P gain `g` set, no limits: the result is
    `[quantize g, 0, 0, 0, 0]`, i.e. the coefficient array of `Biquad::proportional(quantize g)`
    (over a field `a0i = 1` and `g·1 = g` are exact). -/
theorem pid_order_p_lone_gain (laws : PidCoeffLaws gzero gadd gmulInt) (hq0 : quantize 0 = gzero)
    (period : K) (hp : period ≠ 0) (g : K) :
    pidBuild (fieldOps K) quantize gzero gadd gmulInt period 2 [0, 0, g, 0, 0] [none, none, none, none, none]
      = (quantize g, gzero, gzero, gzero, gzero) := by
  rw [pidBuild_noLimit_P laws hq0 period hp]
  simp [hq0, laws.add_zero, laws.mul_zero]

end

/-- **Exact kernel, fixed point.**  Integer coefficients with `ONE = 2^q` (any `quantize : K → ℤ` with
    `quantize 0 = 0`, `quantize 1 = 2^q`, e.g. `round (x·2^q)`): the feedback pairs are `(0, 0)`, `(-ONE, 0)`,
    `(-2·ONE, ONE)`; and `ONE`, `-ONE`, `-2·ONE = -2^(q+1) = MIN` are representable in the signed `q+2`-bit type
    (`i8/Q6`, `i16/Q14`, `i32/Q30`, `i64/Q62`), so the integer arithmetic of the code neither overflows nor wraps
    on them. -/
theorem pid_exact_kernel_int (q : Nat) (quantize : K → Int) (hq0 : quantize 0 = 0) (hq1 : quantize 1 = 2 ^ q)
    (period : K) (hp : period ≠ 0) (k0 k1 k2 k3 k4 : K) :
    ((pidBuild (fieldOps K) quantize 0 (· + ·) (fun k x => k * x) period 2 [k0, k1, k2, k3, k4]
        [none, none, none, none, none]).2.2.2 = (0, 0) ∧
     (pidBuild (fieldOps K) quantize 0 (· + ·) (fun k x => k * x) period 1 [k0, k1, k2, k3, k4]
        [none, none, none, none, none]).2.2.2 = (-(2 ^ q), 0) ∧
     (pidBuild (fieldOps K) quantize 0 (· + ·) (fun k x => k * x) period 0 [k0, k1, k2, k3, k4]
        [none, none, none, none, none]).2.2.2 = (-2 * 2 ^ q, 2 ^ q)) ∧
    inI (q + 2) (2 ^ q) = true ∧ inI (q + 2) (-(2 ^ q)) = true ∧ inI (q + 2) (-2 * 2 ^ q) = true ∧
    -2 * 2 ^ q = minI (q + 2) := by
  refine ⟨?_, kernel_representable q⟩
  have h := pid_exact_kernel pidCoeffLaws_int hq0 period hp k0 k1 k2 k3 k4
  rw [hq1] at h
  simpa using h

/-! ### non-vacuity: concrete instances -/

/-- the crate's unit test `pid` (period 1, I gain 1e-3, P gain 1, D gain 1e2, I limit 1e3, D limit 1e1, order I),
    exact rational coefficients -/
example :
    pidBuild (fieldOps ℚ) id 0 (· + ·) (fun k x => (k : ℚ) * x) 1 1 [0, 1 / 1000, 1, 100, 0]
      [none, some 1000, none, some 10, none]
    = (101001000 / 11000001, -201000000 / 11000001, 100000000 / 11000001,
       -21000000 / 11000001, 10000000 / 11000001) := by
  have h := pid_coeffs (1 : ℚ) 1 _ _ _ _ _ _ _ _
    (pidGl_order_I (1 : ℚ) one_ne_zero 0 (1 / 1000) 1 100 0 none (some 1000) none (some 10) none)
  rw [pidBuildExact] at h
  rw [h]
  norm_num

/-- these agree with the expected values of the unit test to better than `1e-8` -/
example :
    |(101001000 / 11000001 : ℚ) - 9.18190826| < 1e-8 ∧ |(-201000000 / 11000001 : ℚ) - (-18.27272561)| < 1e-8 ∧
    |(100000000 / 11000001 : ℚ) - 9.09090826| < 1e-8 ∧ |(-21000000 / 11000001 : ℚ) - (-1.90909074)| < 1e-8 ∧
    |(10000000 / 11000001 : ℚ) - 0.90909083| < 1e-8 := by
  refine ⟨?_, ?_, ?_, ?_, ?_⟩ <;> · rw [abs_lt]; constructor <;> norm_num

/-- the hypotheses of `pid_transfer` / `pid_lsum_ge_one` hold for that configuration: signs match, `L = 11.000001` -/
example : signOK (1 / 1000 : ℚ) (some 1000) ∧ signOK (100 : ℚ) (some 10) ∧
    limGain ((1 / 1000 : ℚ) * 1) (some 1000) + 1 + limGain ((100 : ℚ) / 1) (some 10) = 11000001 / 1000000 := by
  refine ⟨⟨by norm_num, by norm_num⟩, ⟨by norm_num, by norm_num⟩, ?_⟩
  norm_num

/-- the real fixed point quantiser `round (x · 2^q)` satisfies the hypotheses of `pid_exact_kernel_int` -/
example (q : Nat) : (fun x : ℚ => round (x * 2 ^ q)) 0 = 0 ∧ (fun x : ℚ => round (x * 2 ^ q)) 1 = 2 ^ q := by
  constructor
  · simp
  · simp only [one_mul]
    have : ((2 : ℚ) ^ q) = ((2 ^ q : ℕ) : ℚ) := by push_cast; rfl
    rw [this, round_natCast]; push_cast; rfl

/-- order I2 without limits in `i32` (`q = 30`), with the real quantiser and non-trivial gains: feedback is exactly
    `[-2^31, 2^30]` -/
example :
    (pidBuild (fieldOps ℚ) (fun x : ℚ => round (x * 2 ^ 30)) 0 (· + ·) (fun k x => k * x) (1 / 1000) 0
      [3, 1 / 7, 5 / 100, 0, 0] [none, none, none, none, none]).2.2.2 = (-2147483648, 1073741824) := by
  have h := (pid_exact_kernel_int (K := ℚ) 30 (fun x : ℚ => round (x * 2 ^ 30)) (by simp)
    (by simp only [one_mul]; exact_mod_cast round_natCast (α := ℚ) (2 ^ 30))
    (1 / 1000) (by norm_num) 3 (1 / 7) (5 / 100) 0 0).1.2.2
  rw [h]; norm_num

/-- `PidBuilder::default().gain(Action::P, 3.0).order(Order::P).build() = Biquad::proportional(3.0)` (doc test),
    exact arithmetic -/
example :
    pidBuild (fieldOps ℚ) id 0 (· + ·) (fun k x => (k : ℚ) * x) 1 2 [0, 0, 3, 0, 0] [none, none, none, none, none]
      = (3, 0, 0, 0, 0) :=
  pid_order_p_lone_gain (pidCoeffLaws_field ℚ) rfl 1 one_ne_zero 3

end Idsp
