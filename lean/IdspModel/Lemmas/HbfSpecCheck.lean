import Mathlib.Analysis.SpecialFunctions.Trigonometric.Basic
import Mathlib.Tactic.Ring
import Mathlib.Tactic.Linarith
import Mathlib.Tactic.Positivity
/-!
A reflective (kernel-evaluated) bound checker for products of half-band amplitude responses, and its soundness.

One stage with integer taps `t_i = tp_i - tm_i` over `2^E` (innermost first) has the amplitude
`ampN E ts θ = 1 + 2·Σ_i t_i·cos((2i+1)θ)/2^E`.  With `c = cos θ` in a cell `[lo, hi]/2^B`, centre `n/2^B`,
`2^B·c = n + v`, `|v| ≤ ρ`, the scaled Chebyshev values `S_k = 2^(Bk)·cos(kθ)` are polynomials in `v` with integer
coefficients (`S_{k+1} = 2(n+v)S_k - 4^B S_{k-1}`), hence so is `2^(E+B·deg)·ampN`.  The checker computes that
polynomial EXACTLY (no rounding anywhere) and bounds it by `a₀ ± Σ_{k≥1}|a_k|ρ^k`.

To make the kernel evaluation cheap, every polynomial is kept as a difference of two polynomials with natural
coefficients, and each of those is held as ONE natural number, its value at `2^K` (Kronecker substitution); the
coefficients are read off as base-`2^K` digits at the end.  `K` is chosen from the value of the same recurrence at
`1` (the coefficient sum), which guarantees that no coefficient reaches `2^K`.  The recurrence is written once over
an abstract operation record `POps` and instantiated with coefficient lists (only in proofs), naturals (kernel) and
reals (semantics); `POps.IsHom` transports between them.

Cascades: stage `j` of a depth-`d` cascade sees the angle `2^(d-1-j)·φ`; cells are mapped by `c ↦ 2c²-1` with outward
rounding (`sqmap`).  `bisectAbs` / `bisectPos` bisect a cell until the product bound meets the target.
-/
namespace Idsp
namespace HbfSpec

/-! ### abstract polynomial operations -/

/-- operations on "polynomials in one variable with natural coefficients": sum, scalar multiple, multiplication by
    the variable, `0`, `1` -/
structure POps (α : Type) where
  add : α → α → α
  sc : ℕ → α → α
  sh : α → α
  zero : α
  one : α

variable {α β : Type}

/-- `(np - nm + v)·(s.1 - s.2)` as a difference -/
def mulLin (o : POps α) (np nm : ℕ) (s : α × α) : α × α :=
  (o.add (o.add (o.sc np s.1) (o.sc nm s.2)) (o.sh s.1), o.add (o.add (o.sc np s.2) (o.sc nm s.1)) (o.sh s.2))

/-- `S_{k+1} = 2(n+v)·S_k - 4^B·S_{k-1}` -/
def chebStep (o : POps α) (B np nm : ℕ) (sm s : α × α) : α × α :=
  let t := mulLin o np nm s
  (o.add (o.sc 2 t.1) (o.sc (4 ^ B) sm.2), o.add (o.sc 2 t.2) (o.sc (4 ^ B) sm.1))

/-- accumulate `2·t_i·2^(B·(deg-k))·S_k` over the odd `k`; `sm, s = S_{k-1}, S_k` -/
def stLoop (o : POps α) (B np nm : ℕ) : List (ℕ × ℕ) → (sm s acc : α × α) → α × α
  | [], _, _, acc => acc
  | t :: ts, sm, s, acc =>
    let s2 := chebStep o B np nm sm s
    let s3 := chebStep o B np nm s s2
    let c := 2 * 2 ^ (B * (2 * ts.length))
    stLoop o B np nm ts s2 s3
      (o.add acc.1 (o.add (o.sc (c * t.1) s.1) (o.sc (c * t.2) s.2)),
       o.add acc.2 (o.add (o.sc (c * t.1) s.2) (o.sc (c * t.2) s.1)))

/-- `2^(E+B·deg)·(1 + 2Σ t_i cos((2i+1)θ)/2^E)` as a difference of two polynomials in `v` -/
def stRun (o : POps α) (B E np nm : ℕ) (ts : List (ℕ × ℕ)) : α × α :=
  stLoop o B np nm ts (o.one, o.zero) (mulLin o np nm (o.one, o.zero))
    (o.sc (2 ^ (E + B * (2 * ts.length - 1))) o.one, o.zero)

/-- a map commuting with the operations -/
structure POps.IsHom (o : POps α) (o' : POps β) (f : α → β) : Prop where
  add : ∀ p q, f (o.add p q) = o'.add (f p) (f q)
  sc : ∀ a p, f (o.sc a p) = o'.sc a (f p)
  sh : ∀ p, f (o.sh p) = o'.sh (f p)
  zero : f o.zero = o'.zero
  one : f o.one = o'.one

/-- apply a map to both components -/
def pm (f : α → β) (s : α × α) : β × β := (f s.1, f s.2)

theorem hom_mulLin {o : POps α} {o' : POps β} {f : α → β} (h : o.IsHom o' f) (np nm : ℕ) (s : α × α) :
    pm f (mulLin o np nm s) = mulLin o' np nm (pm f s) := by
  simp [mulLin, pm, h.add, h.sc, h.sh]

theorem hom_chebStep {o : POps α} {o' : POps β} {f : α → β} (h : o.IsHom o' f) (B np nm : ℕ) (sm s : α × α) :
    pm f (chebStep o B np nm sm s) = chebStep o' B np nm (pm f sm) (pm f s) := by
  simp only [chebStep, ← hom_mulLin h]
  simp [pm, h.add, h.sc]

theorem hom_stLoop {o : POps α} {o' : POps β} {f : α → β} (h : o.IsHom o' f) (B np nm : ℕ)
    (ts : List (ℕ × ℕ)) (sm s acc : α × α) :
    pm f (stLoop o B np nm ts sm s acc) =
      stLoop o' B np nm ts (pm f sm) (pm f s) (pm f acc) := by
  induction ts generalizing sm s acc with
  | nil => rfl
  | cons t ts ih =>
    simp only [stLoop]
    rw [ih]
    simp only [hom_chebStep h]
    congr 1
    simp [pm, h.add, h.sc]

theorem hom_stRun {o : POps α} {o' : POps β} {f : α → β} (h : o.IsHom o' f) (B E np nm : ℕ)
    (ts : List (ℕ × ℕ)) :
    pm f (stRun o B E np nm ts) = stRun o' B E np nm ts := by
  simp only [stRun]
  rw [hom_stLoop h, hom_mulLin h]
  simp [pm, h.sc, h.one, h.zero]


/-! ### coefficient lists -/

/-- sum of two coefficient lists -/
def ladd : List ℕ → List ℕ → List ℕ
  | [], q => q
  | p, [] => p
  | a :: p, b :: q => (a + b) :: ladd p q

/-- coefficient lists (lowest degree first) -/
def listOps : POps (List ℕ) := ⟨ladd, fun a p => p.map (a * ·), fun p => 0 :: p, [], [1]⟩

/-- naturals: the value of a polynomial at `b` -/
def natOps (b : ℕ) : POps ℕ := ⟨Nat.add, Nat.mul, Nat.mul b, 0, 1⟩

/-- reals: the value of a polynomial at `v` -/
def realOps (v : ℝ) : POps ℝ := ⟨(· + ·), fun a y => (a : ℝ) * y, fun y => v * y, 0, 1⟩

section lev
variable {S : Type} [CommSemiring S]

/-- value of a coefficient list at `x` -/
def lev (l : List ℕ) (x : S) : S := l.foldr (fun a acc => (a : S) + x * acc) 0

@[simp] theorem lev_nil (x : S) : lev [] x = 0 := rfl
@[simp] theorem lev_cons (a : ℕ) (l : List ℕ) (x : S) : lev (a :: l) x = (a : S) + x * lev l x := rfl

theorem lev_ladd (p q : List ℕ) (x : S) : lev (ladd p q) x = lev p x + lev q x := by
  induction p generalizing q with
  | nil => simp [ladd]
  | cons a p ih =>
    cases q with
    | nil => simp [ladd]
    | cons b q => simp [ladd, ih]; ring

theorem lev_map_mul (a : ℕ) (p : List ℕ) (x : S) : lev (p.map (a * ·)) x = (a : S) * lev p x := by
  induction p with
  | nil => simp
  | cons b p ih => simp [ih]; ring

end lev

theorem listOps_hom_nat (b : ℕ) : listOps.IsHom (natOps b) (fun l => lev l b) where
  add p q := by simp [listOps, natOps, lev_ladd]
  sc a p := by simp [listOps, natOps, lev_map_mul]
  sh p := by simp [listOps, natOps]
  zero := by simp [listOps, natOps]
  one := by simp [listOps, natOps]

theorem listOps_hom_real (v : ℝ) : listOps.IsHom (realOps v) (fun l => lev l v) where
  add p q := by simp [listOps, realOps, lev_ladd]
  sc a p := by simp [listOps, realOps, lev_map_mul]
  sh p := by simp [listOps, realOps]
  zero := by simp [listOps, realOps]
  one := by simp [listOps, realOps]

/-! ### real semantics of the recurrence -/

/-- the represented value -/
def dv (s : ℝ × ℝ) : ℝ := s.1 - s.2

theorem dv_mulLin (v : ℝ) (np nm : ℕ) (s : ℝ × ℝ) :
    dv (mulLin (realOps v) np nm s) = ((np : ℝ) - nm + v) * dv s := by
  simp only [mulLin, realOps, dv]; ring

theorem dv_chebStep (v : ℝ) (B np nm : ℕ) (sm s : ℝ × ℝ) :
    dv (chebStep (realOps v) B np nm sm s) = 2 * ((np : ℝ) - nm + v) * dv s - 4 ^ B * dv sm := by
  have h := dv_mulLin v np nm s
  simp only [chebStep, realOps, dv, mulLin] at h ⊢
  push_cast
  linarith

/-- `Σ_i (tp_i - tm_i)·cos((k+2i)θ)` -/
noncomputable def cosSum : List (ℕ × ℕ) → ℕ → ℝ → ℝ
  | [], _, _ => 0
  | t :: ts, k, θ => ((t.1 : ℝ) - t.2) * Real.cos (k * θ) + cosSum ts (k + 2) θ

theorem cos_succ_succ (k : ℕ) (θ : ℝ) :
    Real.cos (((k + 2 : ℕ) : ℝ) * θ) = 2 * Real.cos θ * Real.cos (((k + 1 : ℕ) : ℝ) * θ) - Real.cos ((k : ℝ) * θ) := by
  have e1 : ((k + 2 : ℕ) : ℝ) * θ = ((k + 1 : ℕ) : ℝ) * θ + θ := by push_cast; ring
  have e2 : (k : ℝ) * θ = ((k + 1 : ℕ) : ℝ) * θ - θ := by push_cast; ring
  rw [e1, e2, Real.cos_add, Real.cos_sub]; ring

theorem dv_stLoop (v θ : ℝ) (B np nm : ℕ) (hc : (np : ℝ) - nm + v = 2 ^ B * Real.cos θ)
    (ts : List (ℕ × ℕ)) (k : ℕ) (sm s acc : ℝ × ℝ)
    (hsm : dv sm = 2 ^ (B * k) * Real.cos ((k : ℝ) * θ))
    (hs : dv s = 2 ^ (B * (k + 1)) * Real.cos (((k + 1 : ℕ) : ℝ) * θ)) :
    dv (stLoop (realOps v) B np nm ts sm s acc) =
      dv acc + 2 ^ (B * (k + 2 * ts.length - 1)) * (2 * cosSum ts (k + 1) θ) := by
  induction ts generalizing k sm s acc with
  | nil => simp [stLoop, cosSum]
  | cons t ts ih =>
    have h2 : dv (chebStep (realOps v) B np nm sm s) = 2 ^ (B * (k + 2)) * Real.cos (((k + 2 : ℕ) : ℝ) * θ) := by
      rw [dv_chebStep, hc, hs, hsm, cos_succ_succ]
      have : (4:ℝ) ^ B = 2 ^ B * 2 ^ B := by rw [← mul_pow]; norm_num
      rw [this]
      have e1 : (2:ℝ) ^ (B * (k + 1)) = 2 ^ (B * k) * 2 ^ B := by rw [← pow_add]; ring_nf
      have e2 : (2:ℝ) ^ (B * (k + 2)) = 2 ^ (B * k) * 2 ^ B * 2 ^ B := by rw [← pow_add, ← pow_add]; ring_nf
      rw [e1, e2]; ring
    have h3 : dv (chebStep (realOps v) B np nm s (chebStep (realOps v) B np nm sm s)) =
        2 ^ (B * (k + 2 + 1)) * Real.cos (((k + 2 + 1 : ℕ) : ℝ) * θ) := by
      rw [dv_chebStep, hc, hs, h2, cos_succ_succ (k + 1)]
      have : (4:ℝ) ^ B = 2 ^ B * 2 ^ B := by rw [← mul_pow]; norm_num
      rw [this]
      have e1 : (2:ℝ) ^ (B * (k + 2)) = 2 ^ (B * (k + 1)) * 2 ^ B := by rw [← pow_add]; ring_nf
      have e2 : (2:ℝ) ^ (B * (k + 2 + 1)) = 2 ^ (B * (k + 1)) * 2 ^ B * 2 ^ B := by rw [← pow_add, ← pow_add]; ring_nf
      rw [e1, e2]; ring
    simp only [stLoop]
    rw [ih (k + 2) _ _ _ h2 h3]
    simp only [cosSum, List.length_cons]
    have e3 : k + 2 + 2 * ts.length - 1 = k + 2 * (ts.length + 1) - 1 := by omega
    have e4 : (2:ℝ) ^ (B * (k + 2 * (ts.length + 1) - 1)) = 2 ^ (B * (2 * ts.length)) * 2 ^ (B * (k + 1)) := by
      rw [← pow_add]; congr 1
      have : k + 2 * (ts.length + 1) - 1 = 2 * ts.length + (k + 1) := by omega
      rw [this]; ring
    rw [e3, e4]
    simp only [dv, realOps] at hs ⊢
    push_cast
    have hs' : s.1 = s.2 + 2 ^ (B * (k + 1)) * Real.cos (((k : ℝ) + 1) * θ) := by
      have := hs; push_cast at this; linarith
    rw [hs']
    ring

/-- amplitude of one stage with integer taps over `2^E` (innermost first) -/
noncomputable def ampN (E : ℕ) (ts : List (ℕ × ℕ)) (θ : ℝ) : ℝ := 1 + 2 * cosSum ts 1 θ / 2 ^ E

theorem dv_stRun (v θ : ℝ) (B E np nm : ℕ) (hc : (np : ℝ) - nm + v = 2 ^ B * Real.cos θ) (ts : List (ℕ × ℕ)) :
    dv (stRun (realOps v) B E np nm ts) = 2 ^ (E + B * (2 * ts.length - 1)) * ampN E ts θ := by
  simp only [stRun]
  rw [dv_stLoop v θ B np nm hc ts 0]
  · simp only [dv, realOps, ampN]
    have e : (2:ℝ) ^ (E + B * (2 * ts.length - 1)) = 2 ^ E * 2 ^ (B * (2 * ts.length - 1)) := by rw [pow_add]
    have e0 : 0 + 2 * ts.length - 1 = 2 * ts.length - 1 := by omega
    rw [e, e0]
    have hE : (2:ℝ) ^ E ≠ 0 := by positivity
    field_simp
    push_cast
    ring
  · simp [dv, realOps]
  · rw [dv_mulLin, hc]; simp [dv, realOps]


/-! ### digits -/

/-- the `m` lowest base-`2^K` digits -/
def digits (K : ℕ) : ℕ → ℕ → List ℕ
  | 0, _ => []
  | m + 1, X => X % 2 ^ K :: digits K m (X / 2 ^ K)

theorem digits_length (K m X : ℕ) : (digits K m X).length = m := by
  induction m generalizing X with
  | zero => rfl
  | succ m ih => simp [digits, ih]

theorem digits_zero (K m : ℕ) : digits K m 0 = List.replicate m 0 := by
  induction m with
  | zero => rfl
  | succ m ih => simp [digits, ih, List.replicate_succ]

/-- digits of the value at `2^K` of a list with coefficients below `2^K` are the coefficients, zero-padded -/
theorem digits_lev (K : ℕ) (l : List ℕ) (hl : ∀ a ∈ l, a < 2 ^ K) (m : ℕ) (hm : l.length ≤ m) :
    digits K m (lev l (2 ^ K : ℕ)) = l ++ List.replicate (m - l.length) 0 := by
  induction l generalizing m with
  | nil => simp [digits_zero]
  | cons a l ih =>
    obtain ⟨m', rfl⟩ : ∃ m', m = m' + 1 := ⟨m - 1, by simp at hm; omega⟩
    have ha : a < 2 ^ K := hl a (by simp)
    have hpos : 0 < 2 ^ K := by positivity
    simp only [digits, lev_cons, Nat.cast_id]
    rw [Nat.add_mul_mod_self_left, Nat.mod_eq_of_lt ha, Nat.add_mul_div_left _ _ hpos, Nat.div_eq_of_lt ha,
      Nat.zero_add, ih (fun b hb => hl b (by simp [hb])) m' (by simpa using hm)]
    simp

theorem lev_append_zeros {S : Type} [CommSemiring S] (l : List ℕ) (k : ℕ) (x : S) :
    lev (l ++ List.replicate k 0) x = lev l x := by
  induction l with
  | nil =>
    induction k with
    | zero => simp
    | succ k ih =>
      simp only [List.nil_append, lev_nil] at ih ⊢
      simp [List.replicate_succ, ih]
  | cons a l ih => simp [ih]

theorem le_lev_one (l : List ℕ) : ∀ a ∈ l, a ≤ lev l (1 : ℕ) := by
  induction l with
  | nil => simp
  | cons b l ih =>
    intro a ha
    simp only [lev_cons, Nat.cast_id, one_mul]
    rcases List.mem_cons.mp ha with h | h
    · omega
    · have := ih a h; omega

/-! ### lengths -/

/-- length bound for both components -/
def plen (s : List ℕ × List ℕ) (k : ℕ) : Prop := s.1.length ≤ k ∧ s.2.length ≤ k

theorem ladd_length (p q : List ℕ) : (ladd p q).length = max p.length q.length := by
  induction p generalizing q with
  | nil => simp [ladd]
  | cons a p ih =>
    cases q with
    | nil => simp [ladd]
    | cons b q => simp [ladd, ih]

theorem plen_mulLin (np nm : ℕ) (s : List ℕ × List ℕ) (k : ℕ) (h : plen s k) :
    plen (mulLin listOps np nm s) (k + 1) := by
  obtain ⟨h1, h2⟩ := h
  simp only [plen, mulLin, listOps, ladd_length, List.length_map, List.length_cons]
  omega

theorem plen_chebStep (B np nm : ℕ) (sm s : List ℕ × List ℕ) (k : ℕ) (hm : plen sm (k + 1)) (h : plen s k) :
    plen (chebStep listOps B np nm sm s) (k + 1) := by
  obtain ⟨h1, h2⟩ := plen_mulLin np nm s k h
  obtain ⟨h3, h4⟩ := hm
  simp only [plen, chebStep] at *
  simp only [listOps, ladd_length, List.length_map] at *
  omega

theorem plen_stLoop (B np nm : ℕ) (ts : List (ℕ × ℕ)) (k : ℕ) (sm s acc : List ℕ × List ℕ)
    (hsm : plen sm (k + 1)) (hs : plen s (k + 2)) (hacc : plen acc (k + 2)) :
    plen (stLoop listOps B np nm ts sm s acc) (k + 2 * ts.length + 2) := by
  induction ts generalizing k sm s acc with
  | nil => simpa [stLoop] using hacc
  | cons t ts ih =>
    have h2 : plen (chebStep listOps B np nm sm s) (k + 2 + 1) :=
      plen_chebStep B np nm sm s (k + 2) ⟨by have := hsm.1; omega, by have := hsm.2; omega⟩ hs
    have h3 : plen (chebStep listOps B np nm s (chebStep listOps B np nm sm s)) (k + 2 + 2) :=
      plen_chebStep B np nm s _ (k + 3) ⟨by have := hs.1; omega, by have := hs.2; omega⟩ h2
    simp only [stLoop]
    have hacc' : plen (listOps.add acc.1 (listOps.add (listOps.sc (2 * 2 ^ (B * (2 * ts.length)) * t.1) s.1)
        (listOps.sc (2 * 2 ^ (B * (2 * ts.length)) * t.2) s.2)),
       listOps.add acc.2 (listOps.add (listOps.sc (2 * 2 ^ (B * (2 * ts.length)) * t.1) s.2)
        (listOps.sc (2 * 2 ^ (B * (2 * ts.length)) * t.2) s.1))) (k + 2 + 2) := by
      obtain ⟨a1, a2⟩ := hacc
      obtain ⟨s1, s2⟩ := hs
      simp only [plen, listOps, ladd_length, List.length_map]
      omega
    have := ih (k + 2) _ _ _ h2 h3 hacc'
    simp only [List.length_cons]
    have e : k + 2 * (ts.length + 1) + 2 = k + 2 + 2 * ts.length + 2 := by omega
    rw [e]; exact this

theorem plen_stRun (B E np nm : ℕ) (ts : List (ℕ × ℕ)) :
    plen (stRun listOps B E np nm ts) (2 * ts.length + 2) := by
  have := plen_stLoop B np nm ts 0 (listOps.one, listOps.zero) (mulLin listOps np nm (listOps.one, listOps.zero))
    (listOps.sc (2 ^ (E + B * (2 * ts.length - 1))) listOps.one, listOps.zero)
    (by simp [plen, listOps]) (plen_mulLin np nm _ 1 (by simp [plen, listOps])) (by simp [plen, listOps])
  simpa [stRun] using this

/-! ### the deviation bound -/

/-- `Σ_k |a_k - b_k|·ρ^k` -/
def absTail (ρ : ℕ) : List ℕ → List ℕ → ℕ
  | a :: p, b :: q => ((a - b) + (b - a)) + ρ * absTail ρ p q
  | _, _ => 0

theorem abs_lev_sub_le (ρ : ℕ) (v : ℝ) (hv : |v| ≤ ρ) (p q : List ℕ) (h : p.length = q.length) :
    |lev p v - lev q v| ≤ (absTail ρ p q : ℕ) := by
  induction p generalizing q with
  | nil =>
    cases q with
    | nil => simp [absTail]
    | cons b q => simp at h
  | cons a p ih =>
    cases q with
    | nil => simp at h
    | cons b q =>
      have ih' := ih q (by simpa using h)
      simp only [lev_cons, absTail]
      have e : (a : ℝ) + v * lev p v - ((b : ℝ) + v * lev q v) = ((a : ℝ) - b) + v * (lev p v - lev q v) := by ring
      rw [e]
      have h1 : |(a : ℝ) - b| = (((a - b) + (b - a) : ℕ) : ℝ) := by
        rcases le_total a b with hab | hab
        · rw [Nat.sub_eq_zero_of_le hab, Nat.zero_add, Nat.cast_sub hab, abs_sub_comm]
          exact abs_of_nonneg (by simpa using (Nat.cast_le (α := ℝ)).mpr hab)
        · rw [Nat.sub_eq_zero_of_le hab, Nat.add_zero, Nat.cast_sub hab]
          exact abs_of_nonneg (by simpa using (Nat.cast_le (α := ℝ)).mpr hab)
      calc |((a : ℝ) - b) + v * (lev p v - lev q v)|
          ≤ |(a : ℝ) - b| + |v * (lev p v - lev q v)| := abs_add_le _ _
        _ = |(a : ℝ) - b| + |v| * |lev p v - lev q v| := by rw [abs_mul]
        _ ≤ |(a : ℝ) - b| + (ρ : ℝ) * (absTail ρ p q : ℕ) := by
            have := mul_le_mul hv ih' (abs_nonneg _) (Nat.cast_nonneg ρ)
            linarith
        _ = _ := by rw [h1]; push_cast; ring


/-! ### one stage on one cell -/

/-- integer bounds `(a, b)` of `2^(E + B·deg)·ampN E ts θ` (`deg = 2·|ts| - 1`) valid whenever `2^B·cos θ ∈ [lo, hi]` -/
def stageBnd (B E : ℕ) (ts : List (ℕ × ℕ)) (lo hi : ℤ) : ℤ × ℤ :=
  let n := (lo + hi) / 2
  let ρ := (max (hi - n) (n - lo)).toNat
  let np := n.toNat
  let nm := (-n).toNat
  let s := stRun (natOps 1) B E np nm ts
  let K := Nat.log2 (s.1 + s.2) + 1
  let X := stRun (natOps (2 ^ K)) B E np nm ts
  let dp := digits K (2 * ts.length + 2) X.1
  let dm := digits K (2 * ts.length + 2) X.2
  let R : ℤ := ((ρ * absTail ρ dp.tail dm.tail : ℕ) : ℤ)
  ((dp.headD 0 : ℤ) - (dm.headD 0 : ℤ) - R, (dp.headD 0 : ℤ) - (dm.headD 0 : ℤ) + R)

theorem lev_head_tail {S : Type} [CommSemiring S] (l : List ℕ) (x : S) :
    lev l x = (l.headD 0 : S) + x * lev l.tail x := by
  cases l <;> simp

theorem stageBnd_sound (B E : ℕ) (ts : List (ℕ × ℕ)) (lo hi : ℤ) (θ : ℝ)
    (h1 : (lo : ℝ) ≤ 2 ^ B * Real.cos θ) (h2 : 2 ^ B * Real.cos θ ≤ hi) :
    ((stageBnd B E ts lo hi).1 : ℝ) ≤ 2 ^ (E + B * (2 * ts.length - 1)) * ampN E ts θ ∧
    2 ^ (E + B * (2 * ts.length - 1)) * ampN E ts θ ≤ ((stageBnd B E ts lo hi).2 : ℝ) := by
  -- names for the intermediate values
  set n : ℤ := (lo + hi) / 2 with hn
  set ρ : ℕ := (max (hi - n) (n - lo)).toNat with hρ
  set np : ℕ := n.toNat with hnp
  set nm : ℕ := (-n).toNat with hnm
  set v : ℝ := 2 ^ B * Real.cos θ - n with hv
  have hnr : (np : ℝ) - nm = n := by
    have := Int.toNat_sub_toNat_neg n
    rw [← hnp, ← hnm] at this
    exact_mod_cast this
  have hc : (np : ℝ) - nm + v = 2 ^ B * Real.cos θ := by rw [hnr, hv]; ring
  have hvρ : |v| ≤ ρ := by
    have q1 : hi - n ≤ (ρ : ℤ) := le_trans (le_max_left _ _) (Int.self_le_toNat _)
    have q2 : n - lo ≤ (ρ : ℤ) := le_trans (le_max_right _ _) (Int.self_le_toNat _)
    have m1 : (hi : ℝ) - n ≤ ρ := by exact_mod_cast q1
    have m2 : (n : ℝ) - lo ≤ ρ := by exact_mod_cast q2
    rw [abs_le, hv]; constructor <;> linarith
  -- the true coefficient lists
  set L := stRun listOps B E np nm ts with hL
  have H1 := hom_stRun (listOps_hom_nat 1) B E np nm ts
  have H2 := fun K => hom_stRun (listOps_hom_nat (2 ^ K)) B E np nm ts
  have H3 := hom_stRun (listOps_hom_real v) B E np nm ts
  rw [← hL] at H1 H3
  simp only [pm] at H1 H3
  obtain ⟨l1, l2⟩ := plen_stRun B E np nm ts
  rw [← hL] at l1 l2
  set s := stRun (natOps 1) B E np nm ts with hs
  set K : ℕ := Nat.log2 (s.1 + s.2) + 1 with hK
  have hlt : s.1 + s.2 < 2 ^ K := Nat.lt_log2_self
  have c1 : ∀ a ∈ L.1, a < 2 ^ K := by
    intro a ha
    have := le_lev_one L.1 a ha
    have e : lev L.1 (1 : ℕ) = s.1 := by rw [← H1]
    omega
  have c2 : ∀ a ∈ L.2, a < 2 ^ K := by
    intro a ha
    have := le_lev_one L.2 a ha
    have e : lev L.2 (1 : ℕ) = s.2 := by rw [← H1]
    omega
  have HK := H2 K
  rw [← hL] at HK
  simp only [pm] at HK
  set X := stRun (natOps (2 ^ K)) B E np nm ts with hX
  have d1 : digits K (2 * ts.length + 2) X.1 = L.1 ++ List.replicate (2 * ts.length + 2 - L.1.length) 0 := by
    rw [← HK]; exact digits_lev K L.1 c1 _ l1
  have d2 : digits K (2 * ts.length + 2) X.2 = L.2 ++ List.replicate (2 * ts.length + 2 - L.2.length) 0 := by
    rw [← HK]; exact digits_lev K L.2 c2 _ l2
  set dp := digits K (2 * ts.length + 2) X.1 with hdp
  set dm := digits K (2 * ts.length + 2) X.2 with hdm
  -- the value
  have hval : 2 ^ (E + B * (2 * ts.length - 1)) * ampN E ts θ = lev dp v - lev dm v := by
    rw [← dv_stRun v θ B E np nm hc ts, ← H3, d1, d2, lev_append_zeros, lev_append_zeros]; rfl
  have hlen : dp.tail.length = dm.tail.length := by
    simp [hdp, hdm, digits_length]
  have hb := abs_lev_sub_le ρ v hvρ dp.tail dm.tail hlen
  have hR : |v * (lev dp.tail v - lev dm.tail v)| ≤ ((ρ * absTail ρ dp.tail dm.tail : ℕ) : ℝ) := by
    rw [abs_mul]; push_cast
    exact mul_le_mul hvρ hb (abs_nonneg _) (Nat.cast_nonneg ρ)
  have hst : stageBnd B E ts lo hi =
      ((dp.headD 0 : ℤ) - (dm.headD 0 : ℤ) - ((ρ * absTail ρ dp.tail dm.tail : ℕ) : ℤ),
       (dp.headD 0 : ℤ) - (dm.headD 0 : ℤ) + ((ρ * absTail ρ dp.tail dm.tail : ℕ) : ℤ)) := rfl
  rw [hst, hval, lev_head_tail dp v, lev_head_tail dm v]
  obtain ⟨r1, r2⟩ := abs_le.mp hR
  push_cast at r1 r2 ⊢
  constructor <;> nlinarith [r1, r2]

/-! ### the angle-doubling map on cells -/

/-- image of the cell `[lo, hi]/2^B` under `c ↦ 2c² - 1`, rounded outwards to the grid -/
def sqmap (B : ℕ) (lo hi : ℤ) : ℤ × ℤ :=
  let a := if 0 ≤ lo then lo * lo else if hi ≤ 0 then hi * hi else 0
  let b := if 0 ≤ lo then hi * hi else if hi ≤ 0 then lo * lo else max (lo * lo) (hi * hi)
  ((2 * a - 4 ^ B) / 2 ^ B, -((-(2 * b - 4 ^ B)) / 2 ^ B))

theorem sqmap_sound (B : ℕ) (lo hi : ℤ) (θ : ℝ)
    (h1 : (lo : ℝ) ≤ 2 ^ B * Real.cos θ) (h2 : 2 ^ B * Real.cos θ ≤ hi) :
    ((sqmap B lo hi).1 : ℝ) ≤ 2 ^ B * Real.cos (2 * θ) ∧ 2 ^ B * Real.cos (2 * θ) ≤ ((sqmap B lo hi).2 : ℝ) := by
  set y : ℝ := 2 ^ B * Real.cos θ with hy
  set a : ℤ := if 0 ≤ lo then lo * lo else if hi ≤ 0 then hi * hi else 0 with ha
  set b : ℤ := if 0 ≤ lo then hi * hi else if hi ≤ 0 then lo * lo else max (lo * lo) (hi * hi) with hb
  have hab : (a : ℝ) ≤ y * y ∧ y * y ≤ (b : ℝ) := by
    by_cases c1 : 0 ≤ lo
    · have : (0:ℝ) ≤ lo := by exact_mod_cast c1
      rw [ha, hb, if_pos c1, if_pos c1]; push_cast
      constructor <;> nlinarith
    · by_cases c2 : hi ≤ 0
      · have : (hi:ℝ) ≤ 0 := by exact_mod_cast c2
        rw [ha, hb, if_neg c1, if_neg c1, if_pos c2, if_pos c2]; push_cast
        constructor <;> nlinarith
      · rw [ha, hb, if_neg c1, if_neg c1, if_neg c2, if_neg c2]
        have l0 : (lo:ℝ) < 0 := by exact_mod_cast (not_le.mp c1)
        have h0 : (0:ℝ) < hi := by exact_mod_cast (not_le.mp c2)
        refine ⟨by push_cast; nlinarith, ?_⟩
        have m1 : ((lo * lo : ℤ) : ℝ) ≤ ((max (lo * lo) (hi * hi) : ℤ) : ℝ) := by exact_mod_cast le_max_left _ _
        have m2 : ((hi * hi : ℤ) : ℝ) ≤ ((max (lo * lo) (hi * hi) : ℤ) : ℝ) := by exact_mod_cast le_max_right _ _
        push_cast at m1 m2 ⊢
        rcases le_total 0 y with hy0 | hy0
        · nlinarith
        · nlinarith
  have hp : (0:ℝ) < 2 ^ B := by positivity
  have h4 : (4:ℝ) ^ B = 2 ^ B * 2 ^ B := by rw [← mul_pow]; norm_num
  have hcos : 2 ^ B * (2 ^ B * Real.cos (2 * θ)) = 2 * (y * y) - 4 ^ B := by
    rw [Real.cos_two_mul, h4, hy]; ring
  have hne : (2 ^ B : ℤ) ≠ 0 := by positivity
  have f1 := Int.ediv_mul_le (2 * a - 4 ^ B) hne
  have f2 := Int.ediv_mul_le (-(2 * b - 4 ^ B)) hne
  have g1 : (((2 * a - 4 ^ B) / 2 ^ B : ℤ) : ℝ) * 2 ^ B ≤ 2 * a - 4 ^ B := by exact_mod_cast f1
  have g2 : (((-(2 * b - 4 ^ B)) / 2 ^ B : ℤ) : ℝ) * 2 ^ B ≤ -(2 * b - 4 ^ B) := by exact_mod_cast f2
  have hs : sqmap B lo hi = ((2 * a - 4 ^ B) / 2 ^ B, -((-(2 * b - 4 ^ B)) / 2 ^ B)) := rfl
  rw [hs]
  constructor
  · have : (((2 * a - 4 ^ B) / 2 ^ B : ℤ) : ℝ) * 2 ^ B ≤ (2 ^ B * Real.cos (2 * θ)) * 2 ^ B := by
      nlinarith [hab.1]
    exact le_of_mul_le_mul_right this hp
  · have : (2 ^ B * Real.cos (2 * θ)) * 2 ^ B ≤ ((-((-(2 * b - 4 ^ B)) / 2 ^ B) : ℤ) : ℝ) * 2 ^ B := by
      push_cast
      nlinarith [hab.2]
    exact le_of_mul_le_mul_right this hp


/-! ### cascades -/

/-- product of the halved stage amplitudes; the first stage of the list sees `φ`, the next `2φ`, … -/
noncomputable def cascAmp : List (ℕ × List (ℕ × ℕ)) → ℝ → ℝ
  | [], _ => 1
  | st :: rest, φ => ampN st.1 st.2 φ / 2 * cascAmp rest (2 * φ)

/-- `(num, den)` with `|cascAmp st φ| ≤ num/den` whenever `2^B·cos φ ∈ [lo, hi]` -/
def cascAbs (B : ℕ) : List (ℕ × List (ℕ × ℕ)) → ℤ → ℤ → ℕ × ℕ
  | [], _, _ => (1, 1)
  | st :: rest, lo, hi =>
    let ab := stageBnd B st.1 st.2 lo hi
    let lh := sqmap B lo hi
    let nd := cascAbs B rest lh.1 lh.2
    (max ab.1.natAbs ab.2.natAbs * nd.1, 2 ^ (st.1 + 1 + B * (2 * st.2.length - 1)) * nd.2)

theorem cascAbs_sound (B : ℕ) (st : List (ℕ × List (ℕ × ℕ))) (lo hi : ℤ) (φ : ℝ)
    (h1 : (lo : ℝ) ≤ 2 ^ B * Real.cos φ) (h2 : 2 ^ B * Real.cos φ ≤ hi) :
    0 < (cascAbs B st lo hi).2 ∧ |cascAmp st φ| * (cascAbs B st lo hi).2 ≤ (cascAbs B st lo hi).1 := by
  induction st generalizing lo hi φ with
  | nil => simp [cascAbs, cascAmp]
  | cons s rest ih =>
    obtain ⟨a1, a2⟩ := stageBnd_sound B s.1 s.2 lo hi φ h1 h2
    obtain ⟨q1, q2⟩ := sqmap_sound B lo hi φ h1 h2
    obtain ⟨i1, i2⟩ := ih _ _ (2 * φ) q1 q2
    simp only [cascAbs, cascAmp]
    set ab := stageBnd B s.1 s.2 lo hi
    set nd := cascAbs B rest (sqmap B lo hi).1 (sqmap B lo hi).2
    set sc : ℝ := 2 ^ (s.1 + B * (2 * s.2.length - 1)) with hsc
    have hscp : 0 < sc := by positivity
    refine ⟨by positivity, ?_⟩
    have hA : |sc * ampN s.1 s.2 φ| ≤ ((max ab.1.natAbs ab.2.natAbs : ℕ) : ℝ) := by
      have := abs_le_max_abs_abs a1 a2
      have e1 : ((ab.1.natAbs : ℕ) : ℝ) = |(ab.1 : ℝ)| := by
        rw [← Int.cast_abs, Nat.cast_natAbs]
      have e2 : ((ab.2.natAbs : ℕ) : ℝ) = |(ab.2 : ℝ)| := by
        rw [← Int.cast_abs, Nat.cast_natAbs]
      rw [Nat.cast_max, e1, e2]; exact this
    have e : (((2 ^ (s.1 + 1 + B * (2 * s.2.length - 1)) * nd.2 : ℕ)) : ℝ) = 2 * sc * nd.2 := by
      push_cast; rw [hsc]; ring
    rw [e, abs_mul, abs_div, abs_of_pos (by norm_num : (0:ℝ) < 2)]
    rw [abs_mul, abs_of_pos hscp] at hA
    push_cast
    have hnd : (0:ℝ) ≤ nd.1 := Nat.cast_nonneg _
    calc |ampN s.1 s.2 φ| / 2 * |cascAmp rest (2 * φ)| * (2 * sc * nd.2)
        = (sc * |ampN s.1 s.2 φ|) * (|cascAmp rest (2 * φ)| * nd.2) := by ring
      _ ≤ (max (ab.1.natAbs : ℝ) (ab.2.natAbs : ℝ)) * nd.1 := by
          apply mul_le_mul _ i2 (by positivity) (by positivity)
          simpa using hA

/-- `(ok, lo', hi', den)`: if `ok` then `lo'/den ≤ cascAmp st φ ≤ hi'/den` whenever `2^B·cos φ ∈ [lo, hi]`
    (`ok` records that every stage is certified non-negative on its cell) -/
def cascPos (B : ℕ) : List (ℕ × List (ℕ × ℕ)) → ℤ → ℤ → Bool × ℕ × ℕ × ℕ
  | [], _, _ => (true, 1, 1, 1)
  | st :: rest, lo, hi =>
    let ab := stageBnd B st.1 st.2 lo hi
    let lh := sqmap B lo hi
    let r := cascPos B rest lh.1 lh.2
    (decide (0 ≤ ab.1) && r.1, ab.1.toNat * r.2.1, ab.2.toNat * r.2.2.1,
      2 ^ (st.1 + 1 + B * (2 * st.2.length - 1)) * r.2.2.2)

theorem cascPos_sound (B : ℕ) (st : List (ℕ × List (ℕ × ℕ))) (lo hi : ℤ) (φ : ℝ)
    (h1 : (lo : ℝ) ≤ 2 ^ B * Real.cos φ) (h2 : 2 ^ B * Real.cos φ ≤ hi)
    (hok : (cascPos B st lo hi).1 = true) :
    0 < (cascPos B st lo hi).2.2.2 ∧
    ((cascPos B st lo hi).2.1 : ℝ) ≤ cascAmp st φ * (cascPos B st lo hi).2.2.2 ∧
    cascAmp st φ * (cascPos B st lo hi).2.2.2 ≤ ((cascPos B st lo hi).2.2.1 : ℝ) := by
  induction st generalizing lo hi φ with
  | nil => simp [cascPos, cascAmp]
  | cons s rest ih =>
    obtain ⟨a1, a2⟩ := stageBnd_sound B s.1 s.2 lo hi φ h1 h2
    obtain ⟨q1, q2⟩ := sqmap_sound B lo hi φ h1 h2
    simp only [cascPos, Bool.and_eq_true, decide_eq_true_eq] at hok
    obtain ⟨i0, i1, i2⟩ := ih _ _ (2 * φ) q1 q2 hok.2
    simp only [cascPos, cascAmp]
    set ab := stageBnd B s.1 s.2 lo hi
    set r := cascPos B rest (sqmap B lo hi).1 (sqmap B lo hi).2
    set sc : ℝ := 2 ^ (s.1 + B * (2 * s.2.length - 1)) with hsc
    have hscp : 0 < sc := by positivity
    have hab0 : (0:ℝ) ≤ ab.1 := by exact_mod_cast hok.1
    have e1 : ((ab.1.toNat : ℕ) : ℝ) = ab.1 := by
      have : ((ab.1.toNat : ℕ) : ℤ) = ab.1 := Int.toNat_of_nonneg hok.1
      exact_mod_cast this
    have hab2 : (0:ℤ) ≤ ab.2 := by
      have : (ab.1 : ℝ) ≤ ab.2 := le_trans a1 a2
      have : ab.1 ≤ ab.2 := by exact_mod_cast this
      omega
    have e2 : ((ab.2.toNat : ℕ) : ℝ) = ab.2 := by
      have : ((ab.2.toNat : ℕ) : ℤ) = ab.2 := Int.toNat_of_nonneg hab2
      exact_mod_cast this
    have e : (((2 ^ (s.1 + 1 + B * (2 * s.2.length - 1)) * r.2.2.2 : ℕ)) : ℝ) = 2 * sc * r.2.2.2 := by
      push_cast; rw [hsc]; ring
    refine ⟨by positivity, ?_, ?_⟩
    · rw [e]; push_cast; rw [e1]
      have hr1 : (0:ℝ) ≤ r.2.1 := Nat.cast_nonneg _
      calc (ab.1 : ℝ) * r.2.1 ≤ (sc * ampN s.1 s.2 φ) * (cascAmp rest (2 * φ) * r.2.2.2) :=
            mul_le_mul a1 i1 hr1 (le_trans hab0 a1)
        _ = _ := by ring
    · rw [e]; push_cast; rw [e2]
      have hA0 : 0 ≤ sc * ampN s.1 s.2 φ := le_trans hab0 a1
      have hC0 : 0 ≤ cascAmp rest (2 * φ) * r.2.2.2 := le_trans (Nat.cast_nonneg _) i1
      calc ampN s.1 s.2 φ / 2 * cascAmp rest (2 * φ) * (2 * sc * r.2.2.2)
          = (sc * ampN s.1 s.2 φ) * (cascAmp rest (2 * φ) * r.2.2.2) := by ring
        _ ≤ (ab.2 : ℝ) * r.2.2.1 := mul_le_mul a2 i2 hC0 (le_trans hA0 a2)

/-! ### bisection -/

/-- `|cascAmp st φ| ≤ tn/td` on the cell `[lo, hi]/2^B`, certified on a bisection tree of depth ≤ `fuel` -/
def bisectAbs (B : ℕ) (st : List (ℕ × List (ℕ × ℕ))) (tn td : ℕ) : ℕ → ℤ → ℤ → Bool
  | 0, lo, hi => decide ((cascAbs B st lo hi).1 * td ≤ tn * (cascAbs B st lo hi).2)
  | f + 1, lo, hi =>
    if (cascAbs B st lo hi).1 * td ≤ tn * (cascAbs B st lo hi).2 then true
    else bisectAbs B st tn td f lo ((lo + hi) / 2) && bisectAbs B st tn td f ((lo + hi) / 2) hi

theorem leaf_abs (B : ℕ) (st : List (ℕ × List (ℕ × ℕ))) (tn td : ℕ) (htd : 0 < td) (lo hi : ℤ) (φ : ℝ)
    (h1 : (lo : ℝ) ≤ 2 ^ B * Real.cos φ) (h2 : 2 ^ B * Real.cos φ ≤ hi)
    (h : (cascAbs B st lo hi).1 * td ≤ tn * (cascAbs B st lo hi).2) :
    |cascAmp st φ| ≤ (tn : ℝ) / td := by
  obtain ⟨p, q⟩ := cascAbs_sound B st lo hi φ h1 h2
  have hd : (0:ℝ) < (cascAbs B st lo hi).2 := by exact_mod_cast p
  have ht : (0:ℝ) < td := by exact_mod_cast htd
  have h' : ((cascAbs B st lo hi).1 : ℝ) * td ≤ tn * (cascAbs B st lo hi).2 := by exact_mod_cast h
  rw [le_div_iff₀ ht]
  have : |cascAmp st φ| * td * (cascAbs B st lo hi).2 ≤ tn * (cascAbs B st lo hi).2 := by
    calc |cascAmp st φ| * td * (cascAbs B st lo hi).2 = |cascAmp st φ| * (cascAbs B st lo hi).2 * td := by ring
      _ ≤ (cascAbs B st lo hi).1 * td := mul_le_mul_of_nonneg_right q ht.le
      _ ≤ _ := h'
  exact le_of_mul_le_mul_right this hd

theorem split_cell (lo hi : ℤ) (y : ℝ) (h1 : (lo : ℝ) ≤ y) (h2 : y ≤ hi) :
    ((lo : ℝ) ≤ y ∧ y ≤ (((lo + hi) / 2 : ℤ) : ℝ)) ∨ ((((lo + hi) / 2 : ℤ) : ℝ) ≤ y ∧ y ≤ hi) := by
  rcases le_total y (((lo + hi) / 2 : ℤ) : ℝ) with h | h
  · exact Or.inl ⟨h1, h⟩
  · exact Or.inr ⟨h, h2⟩

theorem bisectAbs_sound (B : ℕ) (st : List (ℕ × List (ℕ × ℕ))) (tn td : ℕ) (htd : 0 < td) (fuel : ℕ)
    (lo hi : ℤ) (h : bisectAbs B st tn td fuel lo hi = true) (φ : ℝ)
    (h1 : (lo : ℝ) ≤ 2 ^ B * Real.cos φ) (h2 : 2 ^ B * Real.cos φ ≤ hi) :
    |cascAmp st φ| ≤ (tn : ℝ) / td := by
  induction fuel generalizing lo hi with
  | zero =>
    simp only [bisectAbs, decide_eq_true_eq] at h
    exact leaf_abs B st tn td htd lo hi φ h1 h2 h
  | succ f ih =>
    simp only [bisectAbs] at h
    split at h
    · next hc => exact leaf_abs B st tn td htd lo hi φ h1 h2 hc
    · simp only [Bool.and_eq_true] at h
      rcases split_cell lo hi _ h1 h2 with ⟨a, b⟩ | ⟨a, b⟩
      · exact ih _ _ h.1 a b
      · exact ih _ _ h.2 a b

/-- `tl/td ≤ cascAmp st φ ≤ th/td` on the cell `[lo, hi]/2^B`, certified on a bisection tree of depth ≤ `fuel` -/
def leafPos (B : ℕ) (st : List (ℕ × List (ℕ × ℕ))) (tl th td : ℕ) (lo hi : ℤ) : Bool :=
  (cascPos B st lo hi).1 && decide (tl * (cascPos B st lo hi).2.2.2 ≤ (cascPos B st lo hi).2.1 * td) &&
    decide ((cascPos B st lo hi).2.2.1 * td ≤ th * (cascPos B st lo hi).2.2.2)

def bisectPos (B : ℕ) (st : List (ℕ × List (ℕ × ℕ))) (tl th td : ℕ) : ℕ → ℤ → ℤ → Bool
  | 0, lo, hi => leafPos B st tl th td lo hi
  | f + 1, lo, hi =>
    if leafPos B st tl th td lo hi then true
    else bisectPos B st tl th td f lo ((lo + hi) / 2) && bisectPos B st tl th td f ((lo + hi) / 2) hi

theorem leaf_pos (B : ℕ) (st : List (ℕ × List (ℕ × ℕ))) (tl th td : ℕ) (htd : 0 < td) (lo hi : ℤ) (φ : ℝ)
    (h1 : (lo : ℝ) ≤ 2 ^ B * Real.cos φ) (h2 : 2 ^ B * Real.cos φ ≤ hi)
    (h : leafPos B st tl th td lo hi = true) :
    (tl : ℝ) / td ≤ cascAmp st φ ∧ cascAmp st φ ≤ (th : ℝ) / td := by
  simp only [leafPos, Bool.and_eq_true, decide_eq_true_eq] at h
  obtain ⟨⟨hok, hl⟩, hh⟩ := h
  obtain ⟨p, q1, q2⟩ := cascPos_sound B st lo hi φ h1 h2 hok
  have hd : (0:ℝ) < (cascPos B st lo hi).2.2.2 := by exact_mod_cast p
  have ht : (0:ℝ) < td := by exact_mod_cast htd
  have hl' : (tl : ℝ) * (cascPos B st lo hi).2.2.2 ≤ (cascPos B st lo hi).2.1 * td := by exact_mod_cast hl
  have hh' : ((cascPos B st lo hi).2.2.1 : ℝ) * td ≤ th * (cascPos B st lo hi).2.2.2 := by exact_mod_cast hh
  constructor
  · rw [div_le_iff₀ ht]
    have : (tl : ℝ) * (cascPos B st lo hi).2.2.2 ≤ cascAmp st φ * td * (cascPos B st lo hi).2.2.2 := by
      calc (tl : ℝ) * (cascPos B st lo hi).2.2.2 ≤ (cascPos B st lo hi).2.1 * td := hl'
        _ ≤ cascAmp st φ * (cascPos B st lo hi).2.2.2 * td := mul_le_mul_of_nonneg_right q1 ht.le
        _ = _ := by ring
    exact le_of_mul_le_mul_right this hd
  · rw [le_div_iff₀ ht]
    have : cascAmp st φ * td * (cascPos B st lo hi).2.2.2 ≤ th * (cascPos B st lo hi).2.2.2 := by
      calc cascAmp st φ * td * (cascPos B st lo hi).2.2.2 = cascAmp st φ * (cascPos B st lo hi).2.2.2 * td := by ring
        _ ≤ (cascPos B st lo hi).2.2.1 * td := mul_le_mul_of_nonneg_right q2 ht.le
        _ ≤ _ := hh'
    exact le_of_mul_le_mul_right this hd

theorem bisectPos_sound (B : ℕ) (st : List (ℕ × List (ℕ × ℕ))) (tl th td : ℕ) (htd : 0 < td) (fuel : ℕ)
    (lo hi : ℤ) (h : bisectPos B st tl th td fuel lo hi = true) (φ : ℝ)
    (h1 : (lo : ℝ) ≤ 2 ^ B * Real.cos φ) (h2 : 2 ^ B * Real.cos φ ≤ hi) :
    (tl : ℝ) / td ≤ cascAmp st φ ∧ cascAmp st φ ≤ (th : ℝ) / td := by
  induction fuel generalizing lo hi with
  | zero =>
    simp only [bisectPos] at h
    exact leaf_pos B st tl th td htd lo hi φ h1 h2 h
  | succ f ih =>
    simp only [bisectPos] at h
    split at h
    · next hc => exact leaf_pos B st tl th td htd lo hi φ h1 h2 hc
    · simp only [Bool.and_eq_true] at h
      rcases split_cell lo hi _ h1 h2 with ⟨a, b⟩ | ⟨a, b⟩
      · exact ih _ _ h.1 a b
      · exact ih _ _ h.2 a b

end HbfSpec
end Idsp
