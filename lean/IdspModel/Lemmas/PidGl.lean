import IdspModel.Model.Coeff
import Mathlib.Tactic.Ring
import Mathlib.Tactic.FieldSimp
import Mathlib.Algebra.Field.Basic
/-!
# `PidBuilder::build`: unfolding of the model over a field

`fieldOps K` instantiates the operation record `FOps` at an arbitrary field `K` (exact arithmetic: IEEE rounding is
not modelled).  `pidBuild_unfold` writes `pidBuild` as five explicit sums; `pidGl_order_*` spell out the
period-scaled gains and limit-normalised gains of the three relevant actions for each order.
-/
namespace Idsp

/-- `FOps` of a field; the transcendental entries are irrelevant for `pidBuild` (dummy values) -/
def fieldOps (K : Type) [Field K] : FOps K where
  add := (· + ·)
  sub := (· - ·)
  mul := (· * ·)
  div := (· / ·)
  neg := (- ·)
  ofNat := fun n => (n : K)
  half := 1 / 2
  ln2 := 0
  sqrt := fun _ => 0
  sin := fun _ => 0
  cos := fun _ => 0
  sinh := fun _ => 0

/-- limit-normalised gain `g / limit`; an unset limit (`+∞` in the code, `g/∞ = 0`) gives 0 -/
def limGain {K : Type} [Field K] (g : K) : Option K → K
  | some lim => g / lim
  | none => 0

@[simp] theorem limGain_none {K : Type} [Field K] (g : K) : limGain g none = 0 := rfl
@[simp] theorem limGain_some {K : Type} [Field K] (g lim : K) : limGain g (some lim) = g / lim := rfl

/-- `pidGl` always returns exactly three pairs (for any order and any list arguments) -/
theorem pidGl_three {α : Type} (o : FOps α) (period : α) (order : Nat) (gain : List α) (limit : List (Option α)) :
    ∃ g0 l0 g1 l1 g2 l2, pidGl o period order gain limit = [(g0, l0), (g1, l1), (g2, l2)] :=
  ⟨_, _, _, _, _, _, rfl⟩

/-- `pidBuild` written out: with `(g_j, l_j)` the entries of `pidGl`, `a0i = 1/(0 + l0 + l1 + l2)`,
    `G_j = quantize (g_j·a0i)`, `L_j = quantize (l_j·a0i)` the five outputs are the kernel-weighted sums. -/
theorem pidBuild_unfold {α γ : Type} (o : FOps α) (quantize : α → γ) (gzero : γ) (gadd : γ → γ → γ)
    (gmulInt : Int → γ → γ) (period : α) (order : Nat) (gain : List α) (limit : List (Option α))
    (g0 l0 g1 l1 g2 l2 : α) (h : pidGl o period order gain limit = [(g0, l0), (g1, l1), (g2, l2)]) :
    pidBuild o quantize gzero gadd gmulInt period order gain limit =
      let a0i := o.div (o.ofNat 1) (o.add (o.add (o.add (o.ofNat 0) l0) l1) l2)
      let G0 := quantize (o.mul g0 a0i)
      let G1 := quantize (o.mul g1 a0i)
      let G2 := quantize (o.mul g2 a0i)
      let L0 := quantize (o.mul l0 a0i)
      let L1 := quantize (o.mul l1 a0i)
      let L2 := quantize (o.mul l2 a0i)
      (gadd (gadd (gadd gzero (gmulInt 1 G0)) (gmulInt 1 G1)) (gmulInt 1 G2),
       gadd (gadd (gadd gzero (gmulInt 0 G0)) (gmulInt (-1) G1)) (gmulInt (-2) G2),
       gadd (gadd (gadd gzero (gmulInt 0 G0)) (gmulInt 0 G1)) (gmulInt 1 G2),
       gadd (gadd (gadd gzero (gmulInt 0 L0)) (gmulInt (-1) L1)) (gmulInt (-2) L2),
       gadd (gadd (gadd gzero (gmulInt 0 L0)) (gmulInt 0 L1)) (gmulInt 1 L2)) := by
  simp only [pidBuild, h]
  rfl

variable {K : Type} [Field K]

/-- order P (2): the actions are P, D, D2 with gains scaled by `1, 1/period, 1/period²` -/
theorem pidGl_order_P (period : K) (hp : period ≠ 0) (k0 k1 k2 k3 k4 : K) (m0 m1 m2 m3 m4 : Option K) :
    pidGl (fieldOps K) period 2 [k0, k1, k2, k3, k4] [m0, m1, m2, m3, m4] =
      [(k2, 1), (k3 / period, limGain (k3 / period) m3),
       (k4 / period ^ 2, limGain (k4 / period ^ 2) m4)] := by
  have e0 : k2 * (period⁻¹ * period⁻¹ * period * period) = k2 := by field_simp
  have e1 : k3 * (period⁻¹ * period⁻¹ * period) = k3 / period := by field_simp
  have e2 : k4 * (period⁻¹ * period⁻¹) = k4 / period ^ 2 := by field_simp
  simp only [pidGl, fieldOps, List.zipIdx, List.replicate, List.foldl, Nat.cast_one, one_mul, one_div,
    mul_inv_rev]
  cases m3 <;> cases m4 <;> simp [e0, e1, e2]

/-- order I (1): the actions are I, P, D with gains scaled by `period, 1, 1/period` -/
theorem pidGl_order_I (period : K) (hp : period ≠ 0) (k0 k1 k2 k3 k4 : K) (m0 m1 m2 m3 m4 : Option K) :
    pidGl (fieldOps K) period 1 [k0, k1, k2, k3, k4] [m0, m1, m2, m3, m4] =
      [(k1 * period, limGain (k1 * period) m1), (k2, 1), (k3 / period, limGain (k3 / period) m3)] := by
  have e1 : k2 * (period⁻¹ * period) = k2 := by field_simp
  have e2 : k3 * period⁻¹ = k3 / period := by field_simp
  simp only [pidGl, fieldOps, List.zipIdx, List.replicate, List.foldl, Nat.cast_one, one_mul, one_div]
  cases m1 <;> cases m3 <;> simp [e1, e2]

/-- order I2 (0): the actions are I2, I, P with gains scaled by `period², period, 1` (here `period = 0` is
    harmless) -/
theorem pidGl_order_I2 (period : K) (k0 k1 k2 k3 k4 : K) (m0 m1 m2 m3 m4 : Option K) :
    pidGl (fieldOps K) period 0 [k0, k1, k2, k3, k4] [m0, m1, m2, m3, m4] =
      [(k0 * period ^ 2, limGain (k0 * period ^ 2) m0), (k1 * period, limGain (k1 * period) m1), (k2, 1)] := by
  have e0 : k0 * (period * period) = k0 * period ^ 2 := by ring
  simp only [pidGl, fieldOps, List.zipIdx, List.replicate, List.foldl, Nat.cast_one, one_div]
  cases m0 <;> cases m1 <;> simp [e0]

end Idsp
