import IdspModel.Lemmas.NumRun
/-!
# C04 — a fixed-point Biquad's output never leaves the limits, and saturation leaves no wind-up

Model: `IdspModel/Model/Biquad.lean` (`Biquad::update::<N>` of `src/iir/biquad.rs` for the fixed-point sample
types), parametric in the sample width `w` and fractional bits `q` (instances `(8,6) (16,14) (32,30) (64,62)`).
"Aligned limits" are the two `debug_assert`s of `macc`: `mn % 2^G = 0`, `mx % 2^G = 2^G - 1`, `G = w - q`.
A theorem with hypothesis `… = .ok (st, y)` speaks about every call that returns (does not panic) — in the
`.release` profile that is every call.  Property theorems only.
-/
namespace Idsp

/-- **N = 4 output within limits** (either profile, every state, every input, every coefficient set): with aligned
    in-range limits `mn ≤ mx`, every returning update gives `mn ≤ y ≤ mx`. -/
theorem update4_in_limits (m : Mode) (w q : Nat) (hw : 0 < w) (hq : q ≤ w) (c : BiquadCfg)
    (hmn : inI w c.mn = true) (hmx : inI w c.mx = true) (hal : c.aligned w q) (hle : c.mn ≤ c.mx)
    (xy : Int × Int × Int × Int) (x0 : Int) (st : Int × Int × Int × Int) (y : Int)
    (h : biquadUpdate4 m w q c xy x0 = .ok (st, y)) : c.mn ≤ y ∧ y ≤ c.mx := by
  obtain ⟨x1, x2, y1, y2⟩ := xy
  have ⟨hy, _⟩ := biquadUpdate4_ok_inv hw h
  rw [hy, maccPost_eq hw hq (total_in hw q c ..) hmn hmx hal.1 hal.2]
  exact clip_bounds hle

/-- **N = 5 (noise shaping) output within limits**, same hypotheses; the remainder word may be anything. -/
theorem update5_in_limits (m : Mode) (w q : Nat) (hw : 0 < w) (hq : q ≤ w) (c : BiquadCfg)
    (hmn : inI w c.mn = true) (hmx : inI w c.mx = true) (hal : c.aligned w q) (hle : c.mn ≤ c.mx)
    (xy : Int × Int × Int × Int × Int) (x0 : Int) (st : Int × Int × Int × Int × Int) (y : Int)
    (h : biquadUpdate5 m w q c xy x0 = .ok (st, y)) : c.mn ≤ y ∧ y ≤ c.mx := by
  obtain ⟨x1, x2, y1, y2, e1⟩ := xy
  have ⟨hy, _⟩ := biquadUpdate5_ok_inv hw h
  rw [hy, maccPost_eq hw hq (total_in hw q c ..) hmn hmx hal.1 hal.2]
  exact clip_bounds hle

/-- **N = 2 (transposed form) output within limits**: needs only `mn ≤ mx` (a plain `clip`, no alignment). -/
theorem update2_in_limits (m : Mode) (w q : Nat) (c : BiquadCfg) (hle : c.mn ≤ c.mx)
    (st : Int × Int) (x0 : Int) (st' : Int × Int) (y : Int)
    (h : biquadUpdate2 m w q c st x0 = .ok (st', y)) : c.mn ≤ y ∧ y ≤ c.mx := by
  obtain ⟨s0, s1⟩ := st
  obtain ⟨⟨p0, t, _, _, rfl⟩, _⟩ := biquadUpdate2_ok_inv h
  exact clip_bounds hle

/-- With overflow checks and debug assertions on, a returning N = 4 / N = 5 update has passed the two alignment
    assertions, so the alignment hypothesis can be dropped in the `.checked` profile. -/
theorem update45_in_limits_checked (w q : Nat) (hw : 0 < w) (hq : q ≤ w) (c : BiquadCfg)
    (hmn : inI w c.mn = true) (hmx : inI w c.mx = true) (hle : c.mn ≤ c.mx) (x0 y : Int) :
    (∀ xy st, biquadUpdate4 .checked w q c xy x0 = .ok (st, y) → c.mn ≤ y ∧ y ≤ c.mx) ∧
    (∀ xy st, biquadUpdate5 .checked w q c xy x0 = .ok (st, y) → c.mn ≤ y ∧ y ≤ c.mx) :=
  ⟨fun xy st h => update4_in_limits .checked w q hw hq c hmn hmx (biquadUpdate4_checked_aligned h) hle xy x0 st y h,
   fun xy st h => update5_in_limits .checked w q hw hq c hmn hmx (biquadUpdate5_checked_aligned h) hle xy x0 st y h⟩

/-- the alignment hypothesis is necessary in the release profile (where the assertions are compiled out):
    `mn = 1` is not aligned on `i8` and the output `0` falls below it -/
example : biquadUpdate4 .release 8 6 ⟨64, 0, 0, 0, 0, 0, 1, 127⟩ (0, 0, 0, 0) 0 = .ok ((0, 0, 0, 0), 0) := by
  decide

/-- **Every output of every run is within the limits** (all three state forms): folding the update over ANY
    input list from ANY state, every element of the output list of a returning run satisfies `mn ≤ y ≤ mx`. -/
theorem run_in_limits (m : Mode) (w q : Nat) (hw : 0 < w) (hq : q ≤ w) (c : BiquadCfg)
    (hmn : inI w c.mn = true) (hmx : inI w c.mx = true) (hal : c.aligned w q) (hle : c.mn ≤ c.mx)
    (xs : List Int) :
    (∀ st stf ys, runR (biquadUpdate4 m w q c) st xs = .ok (stf, ys) → ∀ y ∈ ys, c.mn ≤ y ∧ y ≤ c.mx) ∧
    (∀ st stf ys, runR (biquadUpdate5 m w q c) st xs = .ok (stf, ys) → ∀ y ∈ ys, c.mn ≤ y ∧ y ≤ c.mx) ∧
    (∀ st stf ys, runR (biquadUpdate2 m w q c) st xs = .ok (stf, ys) → ∀ y ∈ ys, c.mn ≤ y ∧ y ≤ c.mx) :=
  ⟨fun _ _ _ h => runR_all (fun st x st' y => update4_in_limits m w q hw hq c hmn hmx hal hle st x st' y) h,
   fun _ _ _ h => runR_all (fun st x st' y => update5_in_limits m w q hw hq c hmn hmx hal hle st x st' y) h,
   fun _ _ _ h => runR_all (fun st x st' y => update2_in_limits m w q c hle st x st' y) h⟩

/-- non-vacuity: a saturating run on `i8` (gain 1.98, input 127, limits ±(100|3)) -/
example : runR (biquadUpdate4 .checked 8 6 ⟨127, 0, 0, 0, 0, 0, -100, 103⟩) (0, 0, 0, 0) [127, -128, 5] =
    .ok ((5, -128, 9, -100), [103, -100, 9]) := by decide

/-- **N = 4: the state after two steps is the two inputs and the two outputs** — nothing else is remembered. -/
theorem state4_after_two (m : Mode) (w q : Nat) (hw : 0 < w) (c : BiquadCfg)
    (st0 st1 st2 : Int × Int × Int × Int) (xa xb ya yb : Int)
    (ha : biquadUpdate4 m w q c st0 xa = .ok (st1, ya)) (hb : biquadUpdate4 m w q c st1 xb = .ok (st2, yb)) :
    st2 = (xb, xa, yb, ya) := by
  obtain ⟨x1, x2, y1, y2⟩ := st0
  obtain ⟨_, rfl⟩ := biquadUpdate4_ok_inv hw ha
  obtain ⟨_, rfl⟩ := biquadUpdate4_ok_inv hw hb
  rfl

/-- **No wind-up, N = 4.**  If, under constant input `x` held for `L ≥ 2` samples from ANY state, the last two
    outputs both equal `lim` (in particular: the output sat on a limit), the state is exactly `(x, x, lim, lim)`,
    independent of `L` and of the earlier history. -/
theorem no_windup4 (m : Mode) (w q : Nat) (hw : 0 < w) (c : BiquadCfg) (st sf : Int × Int × Int × Int)
    (L : Nat) (hL : 2 ≤ L) (x lim : Int) (ys : List Int)
    (h : runR (biquadUpdate4 m w q c) st (List.replicate L x) = .ok (sf, ys ++ [lim, lim])) :
    sf = (x, x, lim, lim) := by
  rw [replicate_two_le hL] at h
  obtain ⟨st0, st1, ha, hb⟩ := runR_last_two h rfl
  exact state4_after_two m w q hw c st0 st1 sf x x lim lim ha hb

/-- **Immediate recovery, N = 4.**  Two saturation episodes of different lengths `L1, L2 ≥ 2` (even from different
    initial states) end in the SAME state, so the response (new state and output, or panic) to any later input
    sequence is identical. -/
theorem no_windup4_recovery (m : Mode) (w q : Nat) (hw : 0 < w) (c : BiquadCfg)
    (stA stB sA sB : Int × Int × Int × Int) (L1 L2 : Nat) (h1 : 2 ≤ L1) (h2 : 2 ≤ L2) (x lim : Int)
    (ysA ysB : List Int)
    (hA : runR (biquadUpdate4 m w q c) stA (List.replicate L1 x) = .ok (sA, ysA ++ [lim, lim]))
    (hB : runR (biquadUpdate4 m w q c) stB (List.replicate L2 x) = .ok (sB, ysB ++ [lim, lim])) :
    sA = sB ∧ ∀ zs, runR (biquadUpdate4 m w q c) sA zs = runR (biquadUpdate4 m w q c) sB zs := by
  have e1 := no_windup4 m w q hw c stA sA L1 h1 x lim ysA hA
  have e2 := no_windup4 m w q hw c stB sB L2 h2 x lim ysB hB
  subst e1 e2
  exact ⟨rfl, fun _ => rfl⟩

/-- non-vacuity: saturation for 2 and for 4 samples on `i8` ends in the same state -/
example : runR (biquadUpdate4 .checked 8 6 ⟨127, 0, 0, -64, 0, 0, -128, 127⟩) (0, 0, 0, 0) (List.replicate 2 127) =
      .ok ((127, 127, 127, 127), [] ++ [127, 127]) ∧
    runR (biquadUpdate4 .checked 8 6 ⟨127, 0, 0, -64, 0, 0, -128, 127⟩) (0, 0, 0, 0) (List.replicate 4 127) =
      .ok ((127, 127, 127, 127), [127, 127] ++ [127, 127]) := by decide

/-- **No wind-up, N = 5, stored samples only.**  Under the same hypotheses the four stored samples are
    `(x, x, lim, lim)`; the fifth word (the carried remainder) is NOT determined by them. -/
theorem no_windup5_partial (m : Mode) (w q : Nat) (hw : 0 < w) (c : BiquadCfg)
    (st sf : Int × Int × Int × Int × Int) (L : Nat) (hL : 2 ≤ L) (x lim : Int) (ys : List Int)
    (h : runR (biquadUpdate5 m w q c) st (List.replicate L x) = .ok (sf, ys ++ [lim, lim])) :
    ∃ e, sf = (x, x, lim, lim, e) := by
  rw [replicate_two_le hL] at h
  obtain ⟨⟨x1, x2, y1, y2, e1⟩, ⟨x1', x2', y1', y2', e1'⟩, ha, hb⟩ := runR_last_two h rfl
  obtain ⟨_, ha'⟩ := biquadUpdate5_ok_inv hw ha
  cases ha'
  obtain ⟨_, rfl⟩ := biquadUpdate5_ok_inv hw hb
  exact ⟨_, rfl⟩

/-- **Recovery, N = 5, given equal remainders**: two saturation episodes that also end with the same remainder
    word are in the same state and respond identically. -/
theorem no_windup5_recovery_partial (m : Mode) (w q : Nat) (hw : 0 < w) (c : BiquadCfg)
    (stA stB sA sB : Int × Int × Int × Int × Int) (L1 L2 : Nat) (h1 : 2 ≤ L1) (h2 : 2 ≤ L2) (x lim : Int)
    (ysA ysB : List Int)
    (hA : runR (biquadUpdate5 m w q c) stA (List.replicate L1 x) = .ok (sA, ysA ++ [lim, lim]))
    (hB : runR (biquadUpdate5 m w q c) stB (List.replicate L2 x) = .ok (sB, ysB ++ [lim, lim]))
    (he : sA.2.2.2.2 = sB.2.2.2.2) :
    sA = sB ∧ ∀ zs, runR (biquadUpdate5 m w q c) sA zs = runR (biquadUpdate5 m w q c) sB zs := by
  obtain ⟨eA, rfl⟩ := no_windup5_partial m w q hw c stA sA L1 h1 x lim ysA hA
  obtain ⟨eB, rfl⟩ := no_windup5_partial m w q hw c stB sB L2 h2 x lim ysB hB
  simp only at he
  subst he
  exact ⟨rfl, fun _ => rfl⟩

/-- the full-strength statement for N = 5 as literally claimed ("the response to any later input is bit-identical
    however long the saturation lasted") -/
def no_windup5_full : Prop :=
  ∀ (m : Mode) (w q : Nat) (c : BiquadCfg) (stA stB sA sB : Int × Int × Int × Int × Int) (L1 L2 : Nat)
    (x lim z : Int) (ysA ysB : List Int) (rA rB : (Int × Int × Int × Int × Int) × Int),
    0 < w → q ≤ w → 2 ≤ L1 → 2 ≤ L2 →
    runR (biquadUpdate5 m w q c) stA (List.replicate L1 x) = .ok (sA, ysA ++ [lim, lim]) →
    runR (biquadUpdate5 m w q c) stB (List.replicate L2 x) = .ok (sB, ysB ++ [lim, lim]) →
    biquadUpdate5 m w q c sA z = .ok rA → biquadUpdate5 m w q c sB z = .ok rB → rA.2 = rB.2

/-- **FALSE for N = 5**: witness on `i8`, `b0 = 127` (gain 1.98), limits = type range, from the zero state: input
    `127` saturates the output at `127`; after 2 samples the remainder is `2`, after 3 samples it is `3`, and the
    next input `3` then yields `5` resp. `6`.  The noise-shaping remainder keeps integrating during saturation
    (modulo `ONE`), so the recovery differs by one LSB depending on the saturation length. -/
theorem no_windup5_full_false : ¬ no_windup5_full := by
  intro h
  have := h .checked 8 6 ⟨127, 0, 0, 0, 0, 0, -128, 127⟩ (0, 0, 0, 0, 0) (0, 0, 0, 0, 0)
    (127, 127, 127, 127, 2) (127, 127, 127, 127, 3) 2 3 127 127 3 [] [127]
    ((3, 127, 5, 127, 63), 5) ((3, 127, 6, 127, 0), 6)
    (by decide) (by decide) (by decide) (by decide) (by decide) (by decide) (by decide) (by decide)
  exact absurd this (by decide)

/-- **N = 2: the state after two steps is a function of the two inputs and two outputs only.**  Two computations
    from arbitrary states that see the same last two inputs and produce the same last two outputs end in the same
    state (the new second word depends on `(x, y)` only, the new first word on the old second word and `(x, y)`). -/
theorem state2_after_two (m : Mode) (w q : Nat) (c : BiquadCfg) (a0 a1 a2 b0 b1 b2 : Int × Int)
    (xa xb ya yb : Int)
    (hA1 : biquadUpdate2 m w q c a0 xa = .ok (a1, ya)) (hA2 : biquadUpdate2 m w q c a1 xb = .ok (a2, yb))
    (hB1 : biquadUpdate2 m w q c b0 xa = .ok (b1, ya)) (hB2 : biquadUpdate2 m w q c b1 xb = .ok (b2, yb)) :
    a2 = b2 := by
  obtain ⟨a00, a01⟩ := a0
  obtain ⟨a10, a11⟩ := a1
  obtain ⟨b00, b01⟩ := b0
  obtain ⟨b10, b11⟩ := b1
  have n1 := df2tNext_snd (biquadUpdate2_ok_inv hA1).2
  have n2 := df2tNext_snd (biquadUpdate2_ok_inv hB1).2
  have e : a11 = b11 := by
    have := n1.symm.trans n2
    simpa using this
  subst e
  have := (biquadUpdate2_ok_inv hA2).2.symm.trans (biquadUpdate2_ok_inv hB2).2
  simpa using this

/-- **No wind-up, N = 2.**  Two episodes of constant input `x` of lengths `L1, L2 ≥ 2` whose last two outputs equal
    `lim` end in the same state and respond identically to any continuation. -/
theorem no_windup2 (m : Mode) (w q : Nat) (c : BiquadCfg) (stA stB sA sB : Int × Int)
    (L1 L2 : Nat) (h1 : 2 ≤ L1) (h2 : 2 ≤ L2) (x lim : Int) (ysA ysB : List Int)
    (hA : runR (biquadUpdate2 m w q c) stA (List.replicate L1 x) = .ok (sA, ysA ++ [lim, lim]))
    (hB : runR (biquadUpdate2 m w q c) stB (List.replicate L2 x) = .ok (sB, ysB ++ [lim, lim])) :
    sA = sB ∧ ∀ zs, runR (biquadUpdate2 m w q c) sA zs = runR (biquadUpdate2 m w q c) sB zs := by
  rw [replicate_two_le h1] at hA
  rw [replicate_two_le h2] at hB
  obtain ⟨a0, a1, hA1, hA2⟩ := runR_last_two hA rfl
  obtain ⟨b0, b1, hB1, hB2⟩ := runR_last_two hB rfl
  have := state2_after_two m w q c a0 a1 sA b0 b1 sB x x lim lim hA1 hA2 hB1 hB2
  subst this
  exact ⟨rfl, fun _ => rfl⟩

/-- non-vacuity for N = 2 on `i8`: saturation at `mx = 30` for 2 and for 3 samples -/
example : runR (biquadUpdate2 .checked 8 6 ⟨127, 10, 5, -32, 7, 3, -100, 30⟩) (0, 0) (List.replicate 2 20) =
      .ok ((20, 2), [] ++ [30, 30]) ∧
    runR (biquadUpdate2 .checked 8 6 ⟨127, 10, 5, -32, 7, 3, -100, 30⟩) (0, 0) (List.replicate 3 20) =
      .ok ((20, 2), [30] ++ [30, 30]) := by decide

end Idsp
