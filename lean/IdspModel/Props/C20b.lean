import IdspModel.Props.C20
import IdspModel.Props.C05q
import IdspModel.Props.C09
import IdspModel.Props.C10lp2
import IdspModel.Props.C11rec
/-!
# C20, second half — the remaining public entry points

`Props/C20.lean` collects the no-panic statements for cossin, atan2, the polar helpers, abs_sqr/log2, the complex
multiplies, PLL, RPLL, `Lowpass<1>`, saturating_scale, Dsm `K ≤ 7`, the CIC interpolator (contract), macc,
mul/div_scaled and `Sweep::next`, plus three proved negations.  This file completes the table with SHORT COROLLARIES
of theorems of the other property files, one per entry point, in the uniform shape

    for all arguments in the documented domain,  `f .checked args = .ok _`
    (runs: every prefix of the run / every number of updates returns `.ok`).

Three kinds of entry appear:
* entry points whose model is an `R`-valued function (`Except Panic`): the corollary is `∃ v, f .checked … = .ok v`;
* entry points whose Rust code uses wrapping / saturating operations only, and whose model is therefore a TOTAL PURE
  function (`overflowingSub`, `unwrapperUpdate`, `accuNext`, `Cic.decimate`, `csatAdd`, `csatSub`): "cannot panic" is
  the type of the model (validated by the differential tests in the `checked` profile); the corollary records the
  accompanying range fact (all results are values of the declared integer type), which is what the existing
  theorems give;
* the half-band filters, whose model works on lists with total `take`/`drop`: the corollary states the numeric
  preconditions under which every slice expression of the Rust code is in range, at EVERY call of an admissible run.

Nothing new is proved here; where the source theorem has extra hypotheses they are kept visible.  The table at the end
of the file lists entry point → theorem → domain → source theorem, and the entry points for which the development
contains NO no-panic theorem.
-/
namespace Idsp
set_option linter.unusedVariables false

/-! ## 1. unwrapping tools (`unwrap.rs`, `accu.rs`) -/

/-- `overflowing_sub::<T>(y, x)`, every signed width `w ≥ 1`, every pair of `T` values: `wrapping_sub` and two
    comparisons (total model); the difference is a `T` value and the wrap indicator is `-1`, `0` or `1`. -/
theorem c20b_overflowing_sub (w : Nat) (hw : 0 < w) (y x : Int) (hy : inI w y = true) (hx : inI w x = true) :
    inI w (overflowingSub w y x).1 = true ∧
    ((overflowingSub w y x).2 = -1 ∨ (overflowingSub w y x).2 = 0 ∨ (overflowingSub w y x).2 = 1) := by
  obtain ⟨h1, -, h3⟩ := overflowing_sub_exact w hw y x hy hx
  exact ⟨h3, h1⟩

/-- `Unwrapper::<Q>::update(x)`, accumulator width `wq`, sample width `1 ≤ wp ≤ wq`, ANY accumulator value and every
    sample: wrapping operations only (total model); the new accumulator is a `Q` value, the returned increment a
    sample-type value. -/
theorem c20b_unwrapper_update (wq wp : Nat) (hp : 0 < wp) (hpq : wp ≤ wq) (y x : Int) (hx : inI wp x = true) :
    inI wq (unwrapperUpdate wq wp y x).1 = true ∧ inI wp (unwrapperUpdate wq wp y x).2 = true := by
  obtain ⟨h1, h2, -⟩ := unwrapper_step wq wp hp hpq y x hx
  exact ⟨h2 ▸ wrapI_in (by omega) _, h1 ▸ wrapI_in hp _⟩

/-- `Accu::<T>::next()`, every width `w ≥ 1`, every start value of the type, ANY step, every number of calls: the
    iterator is total (always `Some`, which is how the model is typed) and every item is a `T` value. -/
theorem c20b_accu_next (w : Nat) (hw : 0 < w) (start step : Int) (n : Nat) (hs : inI w start = true) :
    inI w (accuNth w start step n).2 = true := by
  rw [accu_nth w hw start step n hs]; exact wrapI_in hw _

/-! ## 2. CIC (`cic.rs`) -/

/-- `Cic::decimate`, every order, every rate, every width `w ≥ 1`, every input list from the zero state: all
    arithmetic is wrapping (total model); one result per call, and every emitted value is a sample-type value. -/
theorem c20b_cic_decimate (w n rate : Nat) (hw : 0 < w) (xs : List Int) (hx : ∀ x ∈ xs, inI w x = true) :
    (Cic.decimateList w (Cic.new n rate) xs).2.length = xs.length ∧
    ∀ v, some v ∈ (Cic.decimateList w (Cic.new n rate) xs).2 → inI w v = true := by
  rw [decimate_outputs w n rate hw xs hx]
  refine ⟨by simp, fun v hv => ?_⟩
  obtain ⟨t, -, ht⟩ := List.mem_map.mp hv
  split at ht
  · cases ht; exact wrapI_in hw _
  · cases ht

/-- `Cic::gain()`: returns (both profiles) whenever `rate`, `rate + 1` and `(rate+1)^N` are representable in the
    sample type; otherwise the plain `+`/`pow` overflow (a genuine data overflow: the gain does not fit). -/
theorem c20b_cic_gain (w : Nat) (hw : 0 < w) (s : Cic) (hr : inI w s.rate = true)
    (h1 : inI w (s.rate + 1) = true) (h2 : inI w ((s.rate + 1) ^ s.order) = true) :
    ∃ v, s.gain .checked w = .ok v :=
  ⟨_, gain_ok .checked w hw s hr h1 h2⟩

/-- `Cic::interpolate` driven by `tick()` from the zero state: if all comb outputs and integrator contents of the
    exact (unbounded) recursion fit the sample type, a run of ANY length returns `.ok` (complements
    `c20_cic_interpolate`: the only possible panics are data overflows). -/
theorem c20b_cic_interpolate_fits (w n rate : Nat) (hr : rate < 2 ^ 32) (v : Nat → Int)
    (hc : ∀ (m : Int) (j : Nat), 1 ≤ j → j ≤ n → inI w (opPow (seqD 1) j (ext v) m) = true)
    (hi : ∀ (i : Int) (j : Nat), 1 ≤ j → j ≤ n →
      inI w (opPow seqS j (seqHold (rate + 1) (opPow (seqD 1) n (ext v))) i) = true)
    (t : Nat) :
    ∃ r, Cic.interpAuto .checked w (Cic.new n rate) v t = .ok r := by
  obtain ⟨s, k, ys, h⟩ := interpolate_ok_of_fits w n rate hr v hc hi t; exact ⟨_, h⟩

/-! ## 3. `Lowpass<2>` (`lowpass.rs`) -/

/-- `Lowpass::<2>::update`, EVERY documented Butterworth pair `[a, -b] = [⌊k²/2^32⌋, -⌊k√2⌋]`, start state settled at
    a level within `±2^29`, ANY input sequence with all samples within `±2^29`: every prefix of the run returns
    `.ok`. -/
theorem c20b_lowpass2_any_input_pm2p29 {k a b xo : Int} (h : Lp2Butter k a b)
    (ho0 : -536870912 ≤ xo) (ho1 : xo ≤ 536870912) (st : Int × Int) (hs : Lp2Settled a b xo st)
    (xs : List Int) (hxs : ∀ x ∈ xs, -536870912 ≤ x ∧ x ≤ 536870912) :
    ∀ pre, pre <+: xs → ∃ v, lp2RunL .checked a (-b) pre st = .ok v := by
  intro pre hp
  obtain ⟨st', ys, e, -⟩ :=
    lp2_any_input_pm2p29 .checked h ho0 ho1 st hs pre (fun x hx => hxs x (hp.subset hx))
  exact ⟨_, e⟩

/-- the same after `set(xo)` (zero velocity), `|xo| ≤ 2^29` -/
theorem c20b_lowpass2_any_input_after_set {k a b xo : Int} (h : Lp2Butter k a b)
    (ho0 : -536870912 ≤ xo) (ho1 : xo ≤ 536870912)
    (xs : List Int) (hxs : ∀ x ∈ xs, -536870912 ≤ x ∧ x ≤ 536870912) :
    ∀ pre, pre <+: xs → ∃ v, lp2RunL .checked a (-b) pre (lpSet xo, 0) = .ok v :=
  c20b_lowpass2_any_input_pm2p29 h ho0 ho1 _
    (lp2_reset_settled h.adm xo (by rw [inI_iff]; constructor <;> norm_num <;> omega)) xs hxs

/-- `Lowpass::<2>::update`, EVERY documented Butterworth pair, a step between two levels within `±2^30` (every step
    size up to `2^31`), from a start state at the old level (`Lp2Start2`, e.g. `set(xo)`: `lp2_start2_reset`): every
    number of updates on the new level returns `.ok`.  (By `lp2_level_change_pm2p30` the state is eventually a start
    state at the new level again, so the level may be switched again and again.) -/
theorem c20b_lowpass2_level_change_pm2p30 {k a b x xo : Int} (h : Lp2Butter k a b)
    (hx0 : -1073741824 ≤ x) (hx1 : x ≤ 1073741824) (ho0 : -1073741824 ≤ xo) (ho1 : xo ≤ 1073741824)
    (st : Int × Int) (hst : Lp2Start2 a b xo st) :
    ∀ n, ∃ v, lp2Iter .checked x a (-b) n st = .ok v := by
  intro n
  obtain ⟨s0, s1, e⟩ := (lp2_level_change_pm2p30 .checked h hx0 hx1 ho0 ho1 st hst).1 n
  exact ⟨_, e⟩

/-- the unconditional clause of C20, "`Lowpass` for any sample": every documented Butterworth pair, every `i32`
    sample, from the zero state (`= set(0)`) -/
def c20b_lowpass2_any_sample_full : Prop :=
  ∀ (k a b x : Int) (n : Nat), Lp2Butter k a b → inI 32 x = true →
    ∃ v, lp2Iter .checked x a (-b) n (0, 0) = .ok v

/-- … is FALSE for `Lowpass<2>` (F-C10, `c20_neg_lowpass2`): `k = 459273616`, constant input `i32::MAX`, 15th
    update.  The theorems above are the proved part of the clause (`±2^29` for arbitrary sequences, `±2^30` for
    level changes). -/
theorem c20b_lowpass2_any_sample_full_false : ¬ c20b_lowpass2_any_sample_full := by
  intro hall
  have hB : Lp2Butter 459273616 49111492 649510976 := by constructor <;> norm_num
  obtain ⟨v, hv⟩ := hall 459273616 49111492 649510976 (2 ^ 31 - 1) 15 hB (by decide)
  obtain ⟨e, he⟩ := c20_neg_lowpass2
  rw [he] at hv; cases hv

/-! ## 4. `Lockin<Lowpass<2>>` (`lockin.rs`) -/

/-- one `Lockin::update` with ANY `i32` sample and phase: the lock-in adds no panic site of its own — if the two
    `Lowpass<2>` updates fed with the exact mixer products return, so does the lock-in update. -/
theorem c20b_lockin_step (a0 a1 b0 b1 x p k0 k1 c s : Int) (hp : inI 32 p = true) (hx : inI 32 x = true)
    (h : cossin .checked p = .ok (c, s)) (r1 r2 : Int × Int × Int)
    (h1 : lp2Update .checked a0 a1 (x * c / 2 ^ 31) k0 k1 = .ok r1)
    (h2 : lp2Update .checked b0 b1 (x * s / 2 ^ 31) k0 k1 = .ok r2) :
    ∃ v, lockinUpdate .checked (a0, a1, b0, b1) x p k0 k1 = .ok v := by
  obtain ⟨u0, u1, u2⟩ := r1
  obtain ⟨v0, v1, v2⟩ := r2
  rw [lockin_step .checked a0 a1 b0 b1 x p k0 k1 c s hp hx h, h1, h2]
  exact ⟨_, rfl⟩

/-- the lock-in run of C11: tone `A·cos(φ_n + θ)` (rounded to within 1) with `0 ≤ A ≤ 2^30`, reference frequency
    word `0.05 ≤ F/2^32 ≤ 0.45` (`LkSetup`), documented Butterworth pair with `2^20 ≤ k ≤ 2^25`, from the zero state:
    EVERY update returns `.ok`. -/
theorem c20b_lockin_run {k a b : Int} (hB : Lp2Butter k a b) (hk0 : 2 ^ 20 ≤ k) (hk1 : k ≤ 2 ^ 25)
    {A θ : ℝ} (hA0 : 0 ≤ A) (hA1 : A ≤ 2 ^ 30) {p0 F : Int} {x p : ℕ → Int} (h : LkSetup A θ p0 F x p) :
    ∃ st : ℕ → Int × Int × Int × Int, st 0 = (0, 0, 0, 0) ∧
      ∀ n, ∃ y, lockinUpdate .checked (st n) (x n) (p n) a (-b) = .ok (st (n + 1), y) := by
  obtain ⟨st, yI, yQ, h0, hrun, -⟩ := lockin_recovery_window_sum .checked hB hk0 hk1 hA0 hA1 h
  exact ⟨st, h0, fun n => ⟨_, hrun n⟩⟩

/-! ## 5. `Dsm<K>` (`dsm.rs`) -/

/-- `Dsm::<0>` (after the `fix:` commit for the `K - 1` underflow): every input, every run. -/
theorem c20b_dsm_k0 (xs : List Int) : ∃ v, Dsm.run .checked (Dsm.default 0) xs = .ok v :=
  ⟨_, (dsm_k0_zero .checked).2 xs⟩

/-- `Dsm::<K>`, `0 ≤ K ≤ 7`, from ANY state satisfying the invariant (not only `default()`), every input list. -/
theorem c20b_dsm_from_state (s : Dsm) (xs : List Int) (hK7 : s.a.length ≤ 7) (hs : DsmInv s) :
    ∃ v, Dsm.run .checked s xs = .ok v := by
  obtain ⟨sf, ys, h, -⟩ := dsm_range_from s xs hK7 hs; exact ⟨_, h⟩

/-- `Dsm::<K>`, `1 ≤ K ≤ 8` (so including the documented order 8), any state satisfying the invariant: the run
    returns `.ok` EXACTLY when no exact (unbounded MASH) output equals `+128` — always for `K ≤ 7`; for `K = 8` the
    value `+128` is reachable (`c20_neg_dsm8`). -/
theorem c20b_dsm_upto8 (s : Dsm) (xs : List Int) (hK1 : 1 ≤ s.a.length) (hK8 : s.a.length ≤ 8) (hs : DsmInv s) :
    (∃ v, Dsm.run .checked s xs = .ok v) ↔ ∀ y ∈ (dsmSpecRun s xs).2, y ≠ 128 := by
  obtain ⟨-, h1, h2, -, -⟩ := dsm_run_upto8 s xs hK1 hK8 hs
  constructor
  · rintro ⟨v, hv⟩ y hy heq
    rw [h2 ⟨y, hy, heq⟩] at hv; cases hv
  · exact fun h => ⟨_, h1 h⟩

/-- the same from `Dsm::<K>::default()` -/
theorem c20b_dsm_default_upto8 (K : Nat) (hK1 : 1 ≤ K) (hK8 : K ≤ 8) (xs : List Int) :
    (∃ v, Dsm.run .checked (Dsm.default K) xs = .ok v) ↔ ∀ y ∈ (dsmSpecRun (Dsm.default K) xs).2, y ≠ 128 :=
  c20b_dsm_upto8 _ xs (by simpa [Dsm.default] using hK1) (by simpa [Dsm.default] using hK8) (dsm_default_inv K)

/-! ## 6. half-band filters within `block_size()` (`hbf.rs`)

The model's `take`/`drop`/`splice` are total, so the model itself cannot exhibit an index panic.  What C14 proves, and
what is restated here per call of a run, are the numeric facts that make every slice expression of the Rust code
in range: well-formedness of the state (`M ≥ 1`, equal buffer lengths `N ≥ 2M`) is an invariant of admissible runs,
`block_size()` does not change, and for a well-formed state and an admissible block all slice bounds are within the
buffers. -/
section hbf
variable {α : Type}

/-- `HbfDec::process_block`, any carrier: after ANY list `pre` of admissible blocks (even length `≤ block_size().1`),
    at the next admissible block `b` (`k = b.len()/2`): the state is well-formed, `b` is still admissible for it,
    exactly `k` items are returned, `even[M-1..][..k]` and `copy_within(k..k+M-1, 0)` are in range
    (`M-1+k ≤ N`), `odd.x[2M-1..][..k]` and `keep_state(k)` are in range (`2M-1+k ≤ N`), and `windows(2M)` yields at
    least `k` items (no `zip` is cut short). -/
theorem c20b_hbfdec_call (o : Ops α) (d : HbfDec α) (wf : d.WF) (pre : List (List α)) (b : List α)
    (adm : ∀ c ∈ pre, d.Adm c) (admb : d.Adm b) (d' : HbfDec α) (hd : d' = (d.run o pre).1) :
    d'.WF ∧ d'.Adm b ∧ (d'.process o b).2.length = b.length / 2 ∧
    d'.odd.taps.length - 1 + b.length / 2 ≤ d'.even.length ∧
    2 * d'.odd.taps.length - 1 + b.length / 2 ≤ d'.odd.x.length ∧
    b.length / 2 ≤ ((d'.odd.load (odds b)).get o).length := by
  subst hd
  obtain ⟨-, -, wf', -, hbm, -⟩ := hbfdec_blocks_spec o d wf pre adm
  have adm' : ((d.run o pre).1).Adm b := ⟨admb.1, by rw [hbm]; exact admb.2⟩
  obtain ⟨h1, -, -, h4, h5, -, -, h8⟩ := hbfdec_output_length_in_range o _ wf' b adm'
  exact ⟨wf', adm', h1, h4, h5, h8⟩

/-- `HbfInt::process_block`, any carrier: after ANY list of admissible blocks (`2·len ≤ block_size().1`), at the next
    admissible block `b` (`k = b.len()`): well-formed state, `b` admissible, exactly `2k` items returned,
    `fir.x[2M-1..][..k]` / `keep_state(k)` (`2M-1+k ≤ N`) and `fir.x[M..][..k]` (`M+k ≤ N`) in range, and
    `windows(2M)` yields at least `k` items. -/
theorem c20b_hbfint_call (o : Ops α) (d : HbfInt α) (wf : d.WF) (pre : List (List α)) (b : List α)
    (adm : ∀ c ∈ pre, d.Adm c) (admb : d.Adm b) (d' : HbfInt α) (hd : d' = (d.run o pre).1) :
    d'.WF ∧ d'.Adm b ∧ (d'.process o b).2.length = 2 * b.length ∧
    2 * d'.fir.taps.length - 1 + b.length ≤ d'.fir.x.length ∧
    d'.fir.taps.length + b.length ≤ d'.fir.x.length ∧
    b.length ≤ ((d'.fir.load b).get o).length := by
  subst hd
  obtain ⟨-, -, wf', -, hbm, -⟩ := hbfint_blocks_spec o d wf pre adm
  have adm' : ((d.run o pre).1).Adm b := by unfold HbfInt.Adm at admb ⊢; rw [hbm]; exact admb
  obtain ⟨h1, h2, h3, -, h5⟩ := hbfint_output_length_in_range o _ wf' b adm'
  exact ⟨wf', adm', h1, h2, h3, h5⟩

/-- `HbfDecCascade::process_block`, any depth `≤` number of stages: over ANY list of admissible blocks (`c.Adm`;
    `hbfdec_cascade_adm_of_block_size`: a multiple of `2^depth` that is at most `block_size().1` is admissible) the
    cascade stays well-formed with the same depth and the same `block_size()` at every stage, and call `j` returns
    `len(block j)/2^depth` items (the `debug_assert_eq!(y.len(), n >> depth)` holds at every call). -/
theorem c20b_hbfdec_cascade_run (o : Ops α) (c : HbfDecCascade α) (wf : c.WF) (bs : List (List α))
    (adm : ∀ b ∈ bs, c.Adm b) :
    (c.run o bs).1.WF ∧ (c.run o bs).1.depth = c.depth ∧
    (c.run o bs).1.stages.map HbfDec.blockMax = c.stages.map HbfDec.blockMax ∧
    (c.run o bs).2.map List.length = bs.map (fun b => b.length / 2 ^ c.depth) := by
  obtain ⟨-, -, h3, -, h5, h6, h7⟩ := hbfdec_cascade_blocks_spec o c wf bs adm
  exact ⟨h5, h3, h6, h7⟩

/-- `HbfIntCascade::process_block`: likewise (`hbfint_cascade_adm_of_block_size`: `n·2^depth ≤ block_size().1`);
    call `j` returns `len(block j)·2^depth` items (the `debug_assert_eq!(n, y.len())` holds at every call). -/
theorem c20b_hbfint_cascade_run (o : Ops α) (c : HbfIntCascade α) (wf : c.WF) (bs : List (List α))
    (adm : ∀ b ∈ bs, c.Adm b) :
    (c.run o bs).1.WF ∧ (c.run o bs).1.depth = c.depth ∧
    (c.run o bs).1.stages.map HbfInt.blockMax = c.stages.map HbfInt.blockMax ∧
    (c.run o bs).2.map List.length = bs.map (fun b => b.length * 2 ^ c.depth) := by
  obtain ⟨-, -, h3, -, h5, h6, h7⟩ := hbfint_cascade_blocks_spec o c wf bs adm
  exact ⟨h5, h3, h6, h7⟩

end hbf

/-! ## 7. fixed-point `Biquad::update::<4>` / `<5>` (`iir/biquad.rs`) -/

/-- `Biquad::update::<4>`, checked profile, widths `(w, q)`: in-range configuration with aligned limits, in-range state
    and input; returns `.ok` when every left-to-right partial sum and the total `T = sum + u·ONE` fit the `2w`-bit
    accumulator.  ("The exact total fits" alone is NOT enough: `c20_neg_biquad_partial_sum`.) -/
theorem c20b_biquad_update4 (w q : Nat) (hw : 0 < w) (hq : q ≤ w) (c : BiquadCfg)
    (hc : c.inRange w) (hal : c.aligned w q) (x0 x1 x2 y1 y2 : Int)
    (hx0 : inI w x0 = true) (hx1 : inI w x1 = true) (hx2 : inI w x2 = true)
    (hy1 : inI w y1 = true) (hy2 : inI w y2 = true)
    (hp : c.partialFit w x0 x1 x2 y1 y2)
    (hT : inI (2 * w) (c.sum x0 x1 x2 y1 y2 + c.u * 2 ^ q) = true) :
    ∃ v, biquadUpdate4 .checked w q c (x1, x2, y1, y2) x0 = .ok v :=
  ⟨_, update4_exact .checked w q hw hq c hc hal x0 x1 x2 y1 y2 hx0 hx1 hx2 hy1 hy2 hp hT⟩

/-- `Biquad::update::<5>` (noise shaping), checked profile: likewise with the stored remainder `0 ≤ e1 < ONE` (an
    invariant of runs from the zero state: `run5_remainder_range`) and `T = sum + u·ONE + e1`. -/
theorem c20b_biquad_update5 (w q : Nat) (hw : 0 < w) (hq : q ≤ w) (c : BiquadCfg)
    (hc : c.inRange w) (hal : c.aligned w q) (x0 x1 x2 y1 y2 e1 : Int)
    (hx0 : inI w x0 = true) (hx1 : inI w x1 = true) (hx2 : inI w x2 = true)
    (hy1 : inI w y1 = true) (hy2 : inI w y2 = true) (he0 : 0 ≤ e1) (he1 : e1 < 2 ^ q)
    (hp : c.partialFit w x0 x1 x2 y1 y2)
    (hT : inI (2 * w) (c.sum x0 x1 x2 y1 y2 + c.u * 2 ^ q + e1) = true) :
    ∃ v, biquadUpdate5 .checked w q c (x1, x2, y1, y2, e1) x0 = .ok v :=
  ⟨_, update5_exact .checked w q hw hq c hc hal x0 x1 x2 y1 y2 e1 hx0 hx1 hx2 hy1 hy2 he0 he1 hp hT⟩

/-- release profile (overflow checks and debug assertions off): `update::<4>` and `update::<5>` return for ANY
    configuration, state and input whatsoever (the value is exact when the total fits: `update45_release_exact`). -/
theorem c20b_biquad_release (w q : Nat) (hw : 0 < w) (c : BiquadCfg) (x0 x1 x2 y1 y2 e1 : Int) :
    (∃ v, biquadUpdate4 .release w q c (x1, x2, y1, y2) x0 = .ok v) ∧
    (∃ v, biquadUpdate5 .release w q c (x1, x2, y1, y2, e1) x0 = .ok v) := by
  constructor
  · unfold biquadUpdate4
    simp only
    rw [← bind_assoc, acc_macc_release hw, ok_bind]
    exact ⟨_, rfl⟩
  · unfold biquadUpdate5
    simp only
    rw [← bind_assoc, acc_macc_release hw, ok_bind]
    exact ⟨_, rfl⟩

/-! ## 8. coefficient glue (`num.rs` `quantize`, `iir/coefficients.rs`, `Biquad::from`) — specification level

The builders and `quantize` are floating-point code; their model is over `ℝ` (C09) resp. the real specification
`quantizeR` of the saturating float → integer cast (C05q).  Floating-point arithmetic cannot panic; the statements
that correspond to "no panic" are: the rounded value always lands in the integer type (saturation instead of
overflow), and the divisor `a0` of `Biquad::from` is non-zero. -/

/-- `quantize::<C>(v)` for every real `v` (any magnitude) and every `(w, q)`: the result is a `w`-bit value (the
    `as` cast saturates). -/
theorem c20b_quantize (w q : ℕ) (v : ℝ) : inI w (quantizeR w q v) = true := (quant_saturates w q v).1

/-- `Biquad::<T>::from(&builder output)` for every builder (`typ`: lowpass … I/HO) with `0 < w0 < π`, `shelf > 0`,
    `qi > 0` (any `gain`): the leading denominator coefficient is positive (the `recip` is of a non-zero number) and
    all five quantised coefficients are values of the `w`-bit type. -/
theorem c20b_coeff_from (w q : ℕ) (f : FilterCfg ℝ) (h : f.Valid) (typ : Nat) :
    0 < (f.build realOps typ).2.1 ∧
    inI w (biquadFromBa realOps (quantizeR w q) (f.build realOps typ)).1 = true ∧
    inI w (biquadFromBa realOps (quantizeR w q) (f.build realOps typ)).2.1 = true ∧
    inI w (biquadFromBa realOps (quantizeR w q) (f.build realOps typ)).2.2.1 = true ∧
    inI w (biquadFromBa realOps (quantizeR w q) (f.build realOps typ)).2.2.2.1 = true ∧
    inI w (biquadFromBa realOps (quantizeR w q) (f.build realOps typ)).2.2.2.2 = true := by
  rw [biquadFromBa_div]
  exact ⟨(build_divisors_ne_zero f h typ).2.2.2, c20b_quantize w q _, c20b_quantize w q _, c20b_quantize w q _,
    c20b_quantize w q _, c20b_quantize w q _⟩

/-! ## 9. remaining `Complex<i32>` helpers (`complex.rs`) -/

/-- `Complex::from_angle(p)`: every `i32` phase (it is `cossin`). -/
theorem c20b_from_angle (p : Int) (hp : inI 32 p = true) : ∃ v, fromAngle .checked p = .ok v := c20_cossin p hp

/-- `Complex::arg()`: EVERY `Complex<i32>`, not only unit vectors (it is `atan2(im, re)`). -/
theorem c20b_carg (re im : Int) (hr : inI 32 re = true) (hi : inI 32 im = true) :
    ∃ v, carg .checked re im = .ok v := c20_atan2 im re hi hr

/-- `saturating_add` / `saturating_sub` on `Complex<i32>`: ANY operands (total model); all four result components
    are `i32` values. -/
theorem c20b_csat (a b c d : Int) :
    inI 32 (csatAdd a b c d).1 = true ∧ inI 32 (csatAdd a b c d).2 = true ∧
    inI 32 (csatSub a b c d).1 = true ∧ inI 32 (csatSub a b c d).2 = true := by
  obtain ⟨h1, h2, h3, h4, -⟩ := csat_add_sub_range a b c d
  exact ⟨h1, h2, h3, h4⟩

/-! ## non-vacuity: the hypotheses of the corollaries are satisfiable -/

/-- `Lowpass<2>`, `k = 2^24`, `set(-2^29)` then an alternating ±2^29 input: every prefix returns -/
example : ∀ pre, pre <+: [536870912, -536870912, 123, 536870912] →
    ∃ v, lp2RunL .checked 65536 (-23726566) pre (lpSet (-536870912), 0) = .ok v :=
  c20b_lowpass2_any_input_after_set (k := 16777216) (by constructor <;> norm_num) (by norm_num) (by norm_num) _
    (by intro x hx; simp only [List.mem_cons, List.mem_nil_iff, or_false] at hx
        rcases hx with rfl | rfl | rfl | rfl <;> norm_num)

/-- `Lowpass<2>`, `k = 2^24`: the extreme level change `set(-2^30)` → constant `2^30` -/
example : ∀ n, ∃ v, lp2Iter .checked 1073741824 65536 (-23726566) n (lpSet (-1073741824), 0) = .ok v :=
  c20b_lowpass2_level_change_pm2p30 (k := 16777216) (xo := -1073741824) (by constructor <;> norm_num)
    (by norm_num) (by norm_num) (by norm_num) (by norm_num) _
    (lp2_start2_reset (k := 16777216) (by constructor <;> norm_num) (-1073741824) (by decide))

/-- `Dsm::<8>`: the eight steering inputs of the `K = 8` witness are on the `.ok` side of `c20b_dsm_default_upto8` -/
example : ∀ y ∈ (dsmSpecRun (Dsm.default 8) dsmK8Inputs).2, y ≠ 128 :=
  (c20b_dsm_default_upto8 8 (by decide) (by decide) dsmK8Inputs).mp ⟨_, dsm_k8_overflow_witness.1⟩

/-- `HbfDec::<_, 1, 5>` (the pinned unit-test shape): a block of 4 then a full block of 8 -/
example : (((HbfDec.new intOps 5 [1]).run intOps [[1, 2, 3, 4]]).1.process intOps [1, 2, 3, 4, 5, 6, 7, 8]).2.length
    = 4 :=
  (c20b_hbfdec_call intOps (HbfDec.new intOps 5 [1]) (HbfDec.new_wf _ _ _ (by simp) (by simp)) [[1, 2, 3, 4]]
    [1, 2, 3, 4, 5, 6, 7, 8] (by intro c hc; simp only [List.mem_singleton] at hc; subst hc; exact ⟨by decide, by decide⟩)
    ⟨by decide, by decide⟩ _ rfl).2.2.1

/-- `Biquad::update::<5>` on `i8`/Q2.6: a generic coefficient set whose partial sums all fit -/
example : ∃ v, biquadUpdate5 .checked 8 6 ⟨20, 40, 20, -70, 25, 3, -128, 127⟩ (50, -30, 60, 10, 17) 90 = .ok v :=
  c20b_biquad_update5 8 6 (by decide) (by decide) _ (by unfold BiquadCfg.inRange; decide)
    (by unfold BiquadCfg.aligned; decide) 90 50 (-30) 60 10 17 (by decide) (by decide) (by decide) (by decide)
    (by decide) (by decide) (by decide) (by unfold BiquadCfg.partialFit; decide) (by decide)

/-!
## Table: entry point → theorem → domain → source theorem

| Rust entry point | theorem | domain | source |
|---|---|---|---|
| `overflowing_sub::<T>` | `c20b_overflowing_sub` | every width ≥ 1, all pairs | `overflowing_sub_exact` (C17) |
| `Unwrapper::update` | `c20b_unwrapper_update` | `1 ≤ wp ≤ wq`, any accumulator, every sample | `unwrapper_step` (C17) |
| `Unwrapper::phase`, `wraps` | — (pure wrapping getters `unwrapperPhase`, `unwrapperWraps`, no theorem) | | |
| `Accu::next` | `c20b_accu_next` | every width ≥ 1, any step, every `n` | `accu_nth` (C17) |
| `saturating_scale` | `c20_saturating_scale` (C20) | `1 ≤ shift ≤ 32` | `sat_scale_total` (C18) |
| `Cic::decimate` | `c20b_cic_decimate` | every order/rate/width, every input list, zero state | `decimate_outputs` (C12) |
| `Cic::gain` | `c20b_cic_gain` | `rate`, `rate+1`, `(rate+1)^N` representable | `gain_ok` (C12) |
| `Cic::gain_log2`, `response_length`, `tick`, `get_decimate`, `get_interpolate`, `clear` | — (pure, total by type; value: `gainLog2_bound`) | | C12 |
| `Cic::interpolate` | `c20_cic_interpolate` (C20), `c20b_cic_interpolate_fits` | tick-driven, zero state; `.ok` when the exact recursion fits | `interpolate_contract_never_panics`, `interpolate_ok_of_fits` (C13) |
| `Lowpass<1>::update` | `c20_lowpass1` (C20) | every state/sample/gain | `lp1_between` (C10) |
| `Lowpass<2>::update` | `c20b_lowpass2_any_input_pm2p29`, `…_after_set` | Butterworth pair, settled start, ALL sequences within ±2^29, every prefix | `lp2_any_input_pm2p29`, `lp2_reset_settled` (C10lp2) |
| `Lowpass<2>::update` | `c20b_lowpass2_level_change_pm2p30` | Butterworth pair, level changes within ±2^30, every `n` | `lp2_level_change_pm2p30` (C10lp2) |
| `Lowpass<2>::update`, "any sample" | `c20b_lowpass2_any_sample_full_false` (NEGATION) | — | `c20_neg_lowpass2` / `lp2_fullscale_overflow_witness` (C10) |
| `Lockin::update` (one step) | `c20b_lockin_step` | any sample/phase; `.ok` iff the two lowpass updates are | `lockin_step` (C11) |
| `Lockin::update` (run) | `c20b_lockin_run` | tone `A ≤ 2^30`, `0.05 ≤ f ≤ 0.45`, `2^20 ≤ k ≤ 2^25`, zero state, every update | `lockin_recovery_window_sum` (C11rec) |
| `Dsm::<0>` | `c20b_dsm_k0` | every input list | `dsm_k0_zero` (C16) |
| `Dsm::<K>`, `K ≤ 7` | `c20_dsm` (C20), `c20b_dsm_from_state` | every input list, every invariant state | `dsm_range`, `dsm_range_from` (C16) |
| `Dsm::<8>` | `c20b_dsm_upto8`, `c20b_dsm_default_upto8` | `.ok` iff no exact output is `+128` | `dsm_run_upto8` (C16); negation `c20_neg_dsm8` |
| `HbfDec::process_block` | `c20b_hbfdec_call` | every call of an admissible run | `hbfdec_blocks_spec`, `hbfdec_output_length_in_range` (C14) |
| `HbfInt::process_block` | `c20b_hbfint_call` | every call of an admissible run | `hbfint_blocks_spec`, `hbfint_output_length_in_range` (C14) |
| `HbfDecCascade::process_block` | `c20b_hbfdec_cascade_run` | admissible runs (⇐ `block_size()`: `hbfdec_cascade_adm_of_block_size`) | `hbfdec_cascade_blocks_spec` (C14) |
| `HbfIntCascade::process_block` | `c20b_hbfint_cascade_run` | admissible runs (⇐ `block_size()`: `hbfint_cascade_adm_of_block_size`) | `hbfint_cascade_blocks_spec` (C14) |
| `Biquad::update::<4>` checked | `c20b_biquad_update4` | every partial sum and the total fit | `update4_exact` (C03); negation `c20_neg_biquad_partial_sum` |
| `Biquad::update::<5>` checked | `c20b_biquad_update5` | same, remainder `0 ≤ e1 < ONE` | `update5_exact` (C03) |
| `Biquad::update::<4/5>` release | `c20b_biquad_release` | everything | `acc_macc_release` (Lemmas/NumBiquad) |
| `quantize` | `c20b_quantize` | every real (spec level) | `quant_saturates` (C05q) |
| builders + `Biquad::from` | `c20b_coeff_from` | `0 < w0 < π`, `shelf > 0`, `qi > 0` (spec level, over ℝ) | `build_divisors_ne_zero`, `biquadFromBa_div` (C09), `quant_saturates` (C05q) |
| `Complex::from_angle` | `c20b_from_angle` | every phase | `cossin_total` (C01) |
| `Complex::arg` | `c20b_carg` | every operand | `atan2_never_panics` (C02) |
| `Complex::saturating_add/sub` | `c20b_csat` | every operand | `csat_add_sub_range` (C11) |
| `abs_sqr`, `log2`, `mul_scaled` ×3, polar helpers | `c20_abs_sqr_log2`, `c20_cmul`, `c20_cmul_complex`, `c20_polar` (C20) | | C11, C19 |

## Entry points with NO no-panic theorem in the development (the gap, explicitly)

* `Biquad::update::<2>` on the fixed-point types (`biquadUpdate2`, DF2T; plain `+`/`-` on `T`): only conditional
  statements exist ("if it returns, the output is within the limits": `update2_in_limits`, `no_windup2`, C04); no
  sufficient condition for `.ok` is proved.
* `Biquad::forward_gain`, `input_offset`, `set_input_offset` (`biquadForwardGain`, `biquadInputOffset`,
  `biquadSetInputOffset`, Model/Filter.lean): modelled, no theorem.
* `Nyquist`, `Repeat<Lowpass<1>>`, `Cascade<Lowpass<1>, Nyquist>` (`nyquistUpdate`, `repeatLp1Update`,
  `cascadeLp1NyqUpdate`) and `AccuOsc::next` (`accuOscNext`): modelled, exercised by the driver only, no theorem.
* `Cic::settle_interpolate`: only "IF it returns, the state is the fixed point" (`settle_fixed_point`, C13); no
  sufficient condition for `.ok` (it needs `gain()` and `x·gain` representable).
* `Cic::interpolate` from an arbitrary (non-zero) state, `Cic::decimate` range facts from an arbitrary state: the
  theorems start from `Cic::new`.
* `Unwrapper::wraps`, `Unwrapper::phase`: pure wrapping getters, no theorem (nothing to prove beyond the type).
* `Lowpass<2>` between the proved domains and the clause: arbitrary sequences with samples in `(2^29, 2^31)`, and
  gains that are not Butterworth pairs — open; the unconditional clause is false.
* `Lockin` for inputs that are not a tone of the C11 setting (arbitrary `i32` samples): reduces by
  `c20b_lockin_step` to `Lowpass<2>` on the mixer products, for which only the domains above are proved.
* `Lowpass<N>` for `N ≥ 3`, `Biquad::update::<3>`, cascades with `x = Some(..)` (`unimplemented!()` arms), `svf`,
  `Sweep::fit` and the float helpers of `Sweep`, `PidBuilder::build` as floating-point code (C08 is algebraic, over a
  field): not modelled as `R`-valued functions — covered, if at all, by the native `checked`-profile sweep only.
* the floating-point `Biquad` (`fbiquadUpdate*`) and the float HBF instances: total by type (IEEE arithmetic cannot
  panic); no statement needed, none made.
-/

end Idsp
