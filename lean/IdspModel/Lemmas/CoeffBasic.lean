import IdspModel.Model.Coeff
import Mathlib.Analysis.SpecialFunctions.Trigonometric.Basic
import Mathlib.Analysis.SpecialFunctions.Log.Basic
import Mathlib.Analysis.Real.Sqrt
import Mathlib.Tactic.FieldSimp
import Mathlib.Tactic.Ring
import Mathlib.Tactic.Linarith
import Mathlib.Tactic.Positivity
import Mathlib.Tactic.NormNum
/-!
# Coefficient builders (`src/iir/coefficients.rs`) over the real numbers: basic facts

`realOps` instantiates the operation record of the model at `ℝ`.  The nine builders are rewritten into plain
real-arithmetic normal forms (`lowpass_eq` …), the elementary trigonometric facts on `(0, π)` are collected and
`qi > 0` is proved for the three shape parametrisations.
-/
namespace Idsp
open Real

/-- the model's scalar operations at `ℝ` (exact arithmetic, real `sqrt`/`sin`/`cos`/`sinh`, `ln2 = log 2`) -/
noncomputable def realOps : FOps ℝ where
  add := (· + ·)
  sub := (· - ·)
  mul := (· * ·)
  div := (· / ·)
  neg := fun x => -x
  ofNat := fun n => (n : ℝ)
  half := 1 / 2
  ln2 := Real.log 2
  sqrt := Real.sqrt
  sin := Real.sin
  cos := Real.cos
  sinh := Real.sinh

@[simp] theorem realOps_add (a b : ℝ) : realOps.add a b = a + b := rfl
@[simp] theorem realOps_sub (a b : ℝ) : realOps.sub a b = a - b := rfl
@[simp] theorem realOps_mul (a b : ℝ) : realOps.mul a b = a * b := rfl
@[simp] theorem realOps_div (a b : ℝ) : realOps.div a b = a / b := rfl
@[simp] theorem realOps_neg (a : ℝ) : realOps.neg a = -a := rfl
@[simp] theorem realOps_ofNat (n : Nat) : realOps.ofNat n = (n : ℝ) := rfl
@[simp] theorem realOps_half : realOps.half = 1 / 2 := rfl
@[simp] theorem realOps_ln2 : realOps.ln2 = Real.log 2 := rfl
@[simp] theorem realOps_sqrt (a : ℝ) : realOps.sqrt a = Real.sqrt a := rfl
@[simp] theorem realOps_sin (a : ℝ) : realOps.sin a = Real.sin a := rfl
@[simp] theorem realOps_cos (a : ℝ) : realOps.cos a = Real.cos a := rfl
@[simp] theorem realOps_sinh (a : ℝ) : realOps.sinh a = Real.sinh a := rfl

/-- inverse Q of a configuration over `ℝ` -/
noncomputable abbrev FilterCfg.qiR (f : FilterCfg ℝ) : ℝ := f.qi realOps
/-- `cos w0` -/
noncomputable abbrev FilterCfg.cosR (f : FilterCfg ℝ) : ℝ := Real.cos f.frequency
/-- `alpha = sin w0 / 2 * qi` -/
noncomputable def FilterCfg.alphaR (f : FilterCfg ℝ) : ℝ := 1 / 2 * Real.sin f.frequency * f.qi realOps

theorem fcosAlpha_eq (f : FilterCfg ℝ) : f.fcosAlpha realOps = (f.cosR, f.alphaR) := by
  simp [FilterCfg.fcosAlpha, FilterCfg.alphaR]

/-! ### `qi` for the three shapes -/

theorem qi_q (w g sh Q : ℝ) : (FilterCfg.mk w g sh (.q Q)).qi realOps = 1 / Q := by
  simp [FilterCfg.qi]

theorem qi_bandwidth (w g sh bw : ℝ) :
    (FilterCfg.mk w g sh (.bandwidth bw)).qi realOps = 2 * Real.sinh (Real.log 2 / 2 * bw * w / Real.sin w) := by
  simp [FilterCfg.qi]

theorem qi_slope (w g sh s : ℝ) :
    (FilterCfg.mk w g sh (.slope s)).qi realOps
      = Real.sqrt ((Real.sqrt sh + 1 / Real.sqrt sh) * (1 / s - 1) + 2) := by
  simp [FilterCfg.qi]

/-- `qi` (hence `alpha`, hence every denominator coefficient) does not depend on the gain field -/
theorem qi_gain (f : FilterCfg ℝ) (g : ℝ) : ({ f with gain := g } : FilterCfg ℝ).qi realOps = f.qi realOps := by
  cases f with
  | mk w g0 sh shape => cases shape <;> simp [FilterCfg.qi]

theorem alphaR_gain (f : FilterCfg ℝ) (g : ℝ) : ({ f with gain := g } : FilterCfg ℝ).alphaR = f.alphaR := by
  simp only [FilterCfg.alphaR, qi_gain]

/-! ### elementary facts on `(0, π)` -/

theorem sin_pos_of_mem {w : ℝ} (h0 : 0 < w) (hp : w < π) : 0 < Real.sin w :=
  Real.sin_pos_of_pos_of_lt_pi h0 hp

theorem sin_ne_zero_of_mem {w : ℝ} (h0 : 0 < w) (hp : w < π) : Real.sin w ≠ 0 :=
  (sin_pos_of_mem h0 hp).ne'

theorem cos_lt_one_of_mem {w : ℝ} (h0 : 0 < w) (hp : w < π) : Real.cos w < 1 := by
  have hs := sin_pos_of_mem h0 hp
  have := Real.sin_sq_add_cos_sq w
  nlinarith [Real.cos_le_one w]

theorem neg_one_lt_cos_of_mem {w : ℝ} (h0 : 0 < w) (hp : w < π) : -1 < Real.cos w := by
  have hs := sin_pos_of_mem h0 hp
  have := Real.sin_sq_add_cos_sq w
  nlinarith [Real.neg_one_le_cos w]

theorem sinh_pos_of_pos {x : ℝ} (hx : 0 < x) : 0 < Real.sinh x := by
  rw [Real.sinh_eq]
  have : Real.exp (-x) < Real.exp x := Real.exp_lt_exp.mpr (by linarith)
  linarith

/-! ### `qi > 0` -/

/-- `Shape::Q(Q)`, `Q > 0` -/
theorem qi_pos_q (w g sh Q : ℝ) (hQ : 0 < Q) : 0 < (FilterCfg.mk w g sh (.q Q)).qi realOps := by
  rw [qi_q]; positivity

/-- `Shape::Bandwidth(bw)`, `bw > 0`, `0 < w0 < π` -/
theorem qi_pos_bandwidth (w g sh bw : ℝ) (h0 : 0 < w) (hp : w < π) (hbw : 0 < bw) :
    0 < (FilterCfg.mk w g sh (.bandwidth bw)).qi realOps := by
  rw [qi_bandwidth]
  have hs := sin_pos_of_mem h0 hp
  have hl : 0 < Real.log 2 := Real.log_pos one_lt_two
  have : 0 < Real.log 2 / 2 * bw * w / Real.sin w := by positivity
  have := sinh_pos_of_pos this
  linarith

/-- the radicand of the slope formula in closed form: `((A²+1) − s (A−1)²) / (A s)` -/
theorem slope_radicand_eq (A s : ℝ) (hA : 0 < A) (hs : 0 < s) :
    (A + 1 / A) * (1 / s - 1) + 2 = ((A ^ 2 + 1) - s * (A - 1) ^ 2) / (A * s) := by
  field_simp
  ring

/-- exact positivity condition of the radicand: `s (A−1)² < A²+1` -/
theorem slope_radicand_pos_iff (A s : ℝ) (hA : 0 < A) (hs : 0 < s) :
    0 < (A + 1 / A) * (1 / s - 1) + 2 ↔ s * (A - 1) ^ 2 < A ^ 2 + 1 := by
  rw [slope_radicand_eq A s hA hs]
  have hAs : 0 < A * s := by positivity
  rw [div_pos_iff_of_pos_right hAs]
  constructor <;> intro h <;> linarith

/-- `Shape::Slope(s)`: `qi > 0` exactly when the radicand `(A + 1/A)(1/s − 1) + 2` is positive (`A = √shelf`) -/
theorem qi_pos_slope_iff (w g sh s : ℝ) :
    0 < (FilterCfg.mk w g sh (.slope s)).qi realOps ↔
      0 < (Real.sqrt sh + 1 / Real.sqrt sh) * (1 / s - 1) + 2 := by
  rw [qi_slope, Real.sqrt_pos]

/-- `Shape::Slope(s)` with `shelf > 0`, `s > 0`: `qi > 0` iff `s (√shelf − 1)² < shelf + 1` -/
theorem qi_pos_slope_iff' (w g sh s : ℝ) (hsh : 0 < sh) (hs : 0 < s) :
    0 < (FilterCfg.mk w g sh (.slope s)).qi realOps ↔ s * (Real.sqrt sh - 1) ^ 2 < sh + 1 := by
  rw [qi_pos_slope_iff, slope_radicand_pos_iff _ _ (Real.sqrt_pos.mpr hsh) hs, Real.sq_sqrt hsh.le]

/-- `Shape::Slope(s)` with `0 < s ≤ 1` and `shelf > 0`: always `qi > 0` (indeed `qi ≥ √2`) -/
theorem qi_pos_slope_le_one (w g sh s : ℝ) (hsh : 0 < sh) (hs : 0 < s) (hs1 : s ≤ 1) :
    0 < (FilterCfg.mk w g sh (.slope s)).qi realOps := by
  rw [qi_pos_slope_iff' w g sh s hsh hs]
  have hA := Real.sqrt_pos.mpr hsh
  have hsq := Real.sq_sqrt hsh.le
  nlinarith [sq_nonneg (Real.sqrt sh - 1)]

/-- the radicand is strictly negative (floating point: `sqrt` returns NaN, every coefficient is NaN) exactly when
    `s (A−1)² > A²+1` -/
theorem slope_radicand_neg_iff (A s : ℝ) (hA : 0 < A) (hs : 0 < s) :
    (A + 1 / A) * (1 / s - 1) + 2 < 0 ↔ A ^ 2 + 1 < s * (A - 1) ^ 2 := by
  rw [slope_radicand_eq A s hA hs]
  have hAs : 0 < A * s := by positivity
  rw [div_neg_iff]
  constructor
  · rintro (⟨_, h⟩ | ⟨h, _⟩)
    · linarith
    · linarith
  · intro h; right; exact ⟨by linarith, hAs⟩

theorem alphaR_pos (f : FilterCfg ℝ) (h0 : 0 < f.frequency) (hp : f.frequency < π) (hq : 0 < f.qi realOps) :
    0 < f.alphaR := by
  have := sin_pos_of_mem h0 hp
  unfold FilterCfg.alphaR
  positivity

/-! ### real-arithmetic normal forms of the builders -/

theorem lowpass_eq (f : FilterCfg ℝ) : f.lowpass realOps =
    ((f.gain * (1 / 2) * (1 - f.cosR), 2 * (f.gain * (1 / 2) * (1 - f.cosR)), f.gain * (1 / 2) * (1 - f.cosR)),
     (1 + f.alphaR, -2 * f.cosR, 1 - f.alphaR)) := by
  simp [FilterCfg.lowpass, fcosAlpha_eq]

theorem highpass_eq (f : FilterCfg ℝ) : f.highpass realOps =
    ((f.gain * (1 / 2) * (1 + f.cosR), -2 * (f.gain * (1 / 2) * (1 + f.cosR)), f.gain * (1 / 2) * (1 + f.cosR)),
     (1 + f.alphaR, -2 * f.cosR, 1 - f.alphaR)) := by
  simp [FilterCfg.highpass, fcosAlpha_eq]

theorem bandpass_eq (f : FilterCfg ℝ) : f.bandpass realOps =
    ((f.gain * f.alphaR, 0, -(f.gain * f.alphaR)), (1 + f.alphaR, -2 * f.cosR, 1 - f.alphaR)) := by
  simp [FilterCfg.bandpass, fcosAlpha_eq]

theorem notch_eq (f : FilterCfg ℝ) : f.notch realOps =
    ((f.gain, -2 * f.cosR * f.gain, f.gain), (1 + f.alphaR, -2 * f.cosR, 1 - f.alphaR)) := by
  simp [FilterCfg.notch, fcosAlpha_eq]

theorem allpass_eq (f : FilterCfg ℝ) : f.allpass realOps =
    (((1 - f.alphaR) * f.gain, -2 * f.cosR * f.gain, (1 + f.alphaR) * f.gain),
     (1 + f.alphaR, -2 * f.cosR, 1 - f.alphaR)) := by
  simp [FilterCfg.allpass, fcosAlpha_eq]

theorem peaking_eq (f : FilterCfg ℝ) : f.peaking realOps =
    (((1 + f.alphaR * √f.shelf) * f.gain, -2 * f.cosR * f.gain, (1 - f.alphaR * √f.shelf) * f.gain),
     (1 + f.alphaR / √f.shelf, -2 * f.cosR, 1 - f.alphaR / √f.shelf)) := by
  simp [FilterCfg.peaking, fcosAlpha_eq]

theorem lowshelf_eq (f : FilterCfg ℝ) : f.lowshelf realOps =
    ((√f.shelf * f.gain * (√f.shelf + 1 - (√f.shelf - 1) * f.cosR + 2 * √√f.shelf * f.alphaR),
      2 * √f.shelf * f.gain * (√f.shelf - 1 - (√f.shelf + 1) * f.cosR),
      √f.shelf * f.gain * (√f.shelf + 1 - (√f.shelf - 1) * f.cosR - 2 * √√f.shelf * f.alphaR)),
     (√f.shelf + 1 + (√f.shelf - 1) * f.cosR + 2 * √√f.shelf * f.alphaR,
      -2 * (√f.shelf - 1 + (√f.shelf + 1) * f.cosR),
      √f.shelf + 1 + (√f.shelf - 1) * f.cosR - 2 * √√f.shelf * f.alphaR)) := by
  simp [FilterCfg.lowshelf, fcosAlpha_eq]

theorem highshelf_eq (f : FilterCfg ℝ) : f.highshelf realOps =
    ((√f.shelf * f.gain * (√f.shelf + 1 + (√f.shelf - 1) * f.cosR + 2 * √√f.shelf * f.alphaR),
      -2 * √f.shelf * f.gain * (√f.shelf - 1 + (√f.shelf + 1) * f.cosR),
      √f.shelf * f.gain * (√f.shelf + 1 + (√f.shelf - 1) * f.cosR - 2 * √√f.shelf * f.alphaR)),
     (√f.shelf + 1 - (√f.shelf - 1) * f.cosR + 2 * √√f.shelf * f.alphaR,
      2 * (√f.shelf - 1 - (√f.shelf + 1) * f.cosR),
      √f.shelf + 1 - (√f.shelf - 1) * f.cosR - 2 * √√f.shelf * f.alphaR)) := by
  simp [FilterCfg.highshelf, fcosAlpha_eq]

theorem iho_eq (f : FilterCfg ℝ) : f.iho realOps =
    ((f.gain * (1 + f.alphaR), -2 * f.gain * f.cosR, f.gain * (1 - f.alphaR)),
     ((1 + f.cosR) / (2 * f.shelf) + 1 / 2 * Real.sin f.frequency, -2 * ((1 + f.cosR) / (2 * f.shelf)),
      (1 + f.cosR) / (2 * f.shelf) - 1 / 2 * Real.sin f.frequency)) := by
  simp [FilterCfg.iho, fcosAlpha_eq]

end Idsp
