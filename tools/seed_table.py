#!/usr/bin/env python3
"""Prints the markdown table of seeded breakages (from seeded/*/meta.json) for DESIGN.md section 10."""
import glob, json, os
rows = []
for f in sorted(glob.glob(os.path.join(os.path.dirname(__file__), "..", "seeded", "*", "meta.json"))):
    m = json.load(open(f))
    v = m.get("validation", {})
    name = v.get("name", os.path.basename(os.path.dirname(f)))
    summ = (m.get("summary") or "").replace("\n", " ").replace("|", "/")
    needs = (m.get("needs") or "").replace("\n", " ").replace("|", "/")
    if len(summ) > 230: summ = summ[:227] + "..."
    if len(needs) > 200: needs = needs[:197] + "..."
    res = []
    for p, c in v.get("checks", {}).items():
        how = "caught"
        if c.get("detected"):
            if any("no-failing-input-found" in l for l in c.get("lines", [])):
                how = "caught (proof/correspondence only, no failing input found)"
            else:
                how = "caught with failing input"
        else:
            how = "MISSED" if c.get("exit") == 0 else f"exit {c.get('exit')}"
        res.append(f"{p}: {how}")
    rows.append(f"| {name} | {summ} | {needs} | {'; '.join(res)} |")
print("| seed | change | needs | checks |\n|---|---|---|---|")
print("\n".join(rows))
