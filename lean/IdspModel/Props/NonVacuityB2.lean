import IdspModel.Props.C19
import IdspModel.Props.C08
import IdspModel.Props.C15
import IdspModel.Props.C15F
/-!
# Non-vacuity audit, part B2 — `C19`, `C08`, `C15`, `C15F`

Same conventions as `NonVacuityB1.lean`: one common witness for ALL hypotheses of each property theorem; skipped
theorems are listed per file with the reason.  Findings are collected in `NonVacuityB.lean`.
-/
namespace Idsp
open Finset
set_option linter.unusedVariables false

/-! ## C19 -/

/-- the unit vector of the generic phase `123456789` and its polar data -/
theorem nvB_polar : fromAngle .checked 123456789 = .ok (2112528415, 385746234) ∧
    carg .checked 2112528415 385746234 = .ok 123454055 ∧
    absSqr .checked 2112528415 385746234 = .ok 2147432631 ∧
    clog2 .checked 2112528415 385746234 = .ok (-2) := by decide +kernel

/-- the round trip at that phase, at the first-octant field `128·964506` below it, and at `i32::MIN` (the wrap at
    `±π`: the returned angle is positive, `2147478432`) -/
theorem nvB_polar_rt : polarRoundtrip .checked 123456789 = .ok 123454055 ∧
    polarRoundtrip .checked (128 * 964506) = .ok 123454055 ∧
    fromAngle .checked (-2147483648) = .ok (-2147454703, 1898) ∧
    carg .checked (-2147454703) 1898 = .ok 2147478432 := by decide +kernel

/-- non-vacuity of `polar_log2` -/
example : ∃ p c s l : Int, inI 32 p = true ∧ fromAngle .checked p = .ok (c, s) ∧ clog2 .checked c s = .ok l :=
  ⟨_, _, _, _, by decide, nvB_polar.1, nvB_polar.2.2.2⟩

/-- non-vacuity of `polar_abs_sqr` -/
example : ∃ p c s a : Int, inI 32 p = true ∧ fromAngle .checked p = .ok (c, s) ∧ absSqr .checked c s = .ok a :=
  ⟨_, _, _, _, by decide, nvB_polar.1, nvB_polar.2.2.1⟩

/-- non-vacuity of `polar_off_mirror_lines` -/
example : ∃ p c s : Int, inI 32 p = true ∧ fromAngle .checked p = .ok (c, s) := ⟨_, _, _, by decide, nvB_polar.1⟩

/-- non-vacuity of `polar_roundtrip_quarter_turn`, `polar_roundtrip_half_turn`, `polar_roundtrip_conj`,
    `polar_roundtrip_mirror` (also instantiated by the example `C19.lean:234`) -/
example : ∃ p r : Int, inI 32 p = true ∧ polarRoundtrip .checked p = .ok r := ⟨_, _, by decide, nvB_polar_rt.1⟩

/-- non-vacuity of `polar_roundtrip_low7`: two different phases of the same block of 128 -/
example : ∃ p p' : Int, inI 32 p = true ∧ inI 32 p' = true ∧ p / 128 = p' / 128 :=
  ⟨123456789, 123456800, by decide, by decide, by decide⟩

/-- non-vacuity of `polar_roundtrip_reduction`: `K = 15038`, the hypothesis on the `2^22` fields is
    `polar_roundtrip_fields` (complete kernel evaluation) -/
example : ∃ K : Int, K < 2 ^ 31 ∧ ∀ f, 0 ≤ f → f < 2 ^ 22 → ∀ r, polarRoundtrip .checked (128 * f) = .ok r →
    -K + 127 ≤ r - 128 * f ∧ r - 128 * f ≤ K := ⟨15038, by decide, polar_roundtrip_fields⟩

/-- non-vacuity of `polar_roundtrip_full_of_fields`: its hypothesis IS the theorem `polar_roundtrip_fields` -/
example : ∀ f, 0 ≤ f → f < 2 ^ 22 → ∀ r, polarRoundtrip .checked (128 * f) = .ok r →
    -15038 + 127 ≤ r - 128 * f ∧ r - 128 * f ≤ 15038 := polar_roundtrip_fields

/-- non-vacuity of `polar_roundtrip_fields`: the field `f = 964506` (phase `123456768`) -/
example : ∃ f r : Int, 0 ≤ f ∧ f < 2 ^ 22 ∧ polarRoundtrip .checked (128 * f) = .ok r :=
  ⟨964506, _, by decide, by decide, nvB_polar_rt.2.1⟩

/-- non-vacuity of `polar_roundtrip`: the phase `i32::MIN`, where the difference wraps (`r − p = 2^32 − 5217`) -/
example : ∃ p c s r : Int, inI 32 p = true ∧ fromAngle .checked p = .ok (c, s) ∧ carg .checked c s = .ok r :=
  ⟨-2147483648, _, _, _, by decide, nvB_polar_rt.2.2.1, nvB_polar_rt.2.2.2⟩

/-! ### C19: skipped
* no hypotheses: `polar_roundtrip_structure`, `polar_roundtrip_full_holds`.
* only the range fact `inI 32 p = true`: `polar_total`, `polar_roundtrip_total`, and the private helpers
  `from_angle_val`, `roundtrip_eq` (the private `val_of_ok` has the hypothesis set of `polar_off_mirror_lines`).
* `polarRoundtrip`, `polar_roundtrip_full` are definitions.
-/

/-! ## C08 -/

/-- the crate's unit test `pid` over `ℝ` (period 1, order I, I gain 1e-3, P gain 1, D gain 1e2, I limit 1e3,
    D limit 1e1): the three `pidGl` entries -/
theorem nvB_pid_gl : pidGl (fieldOps ℝ) 1 1 [0, 1 / 1000, 1, 100, 0] [none, some 1000, none, some 10, none] =
    [(1 / 1000 * 1, limGain (1 / 1000 * 1) (some 1000)), (1, 1), (100 / 1, limGain (100 / 1) (some 10))] :=
  pidGl_order_I (1 : ℝ) one_ne_zero 0 (1 / 1000) 1 100 0 none (some 1000) none (some 10) none

/-- non-vacuity of `pid_transfer`, `pid_transfer_ratio` (at `K = ℝ`) and `pid_transfer_complex`: the unit test
    configuration, `L = 11.000001 ≠ 0`, coefficients from `pid_coeffs` -/
example : ∃ (period : ℝ) (order : Nat) (gain : List ℝ) (limit : List (Option ℝ)) (g0 l0 g1 l1 g2 l2 b0 b1 b2 a1 a2 : ℝ),
    pidGl (fieldOps ℝ) period order gain limit = [(g0, l0), (g1, l1), (g2, l2)] ∧ l0 + l1 + l2 ≠ 0 ∧
    pidBuild (fieldOps ℝ) id 0 (· + ·) (fun k x => (k : ℝ) * x) period order gain limit = (b0, b1, b2, a1, a2) :=
  ⟨_, _, _, _, _, _, _, _, _, _, _, _, _, _, _, nvB_pid_gl, by norm_num [limGain],
    pid_coeffs (1 : ℝ) 1 _ _ _ _ _ _ _ _ nvB_pid_gl⟩

/-- the sign hypothesis for the unit test configuration -/
theorem nvB_pid_signs : ∀ i, 1 ≤ i → i ≤ 1 + 2 → i ≠ 2 →
    signOK (([0, 1 / 1000, 1, 100, 0] : List ℝ).getD i 0) (([none, some 1000, none, some 10, none] : List (Option ℝ)).getD i none) := by
  intro i h1 h2 h3
  obtain rfl | rfl : i = 1 ∨ i = 3 := by omega
  · exact ⟨by norm_num, by norm_num⟩
  · exact ⟨by norm_num, by norm_num⟩

/-- non-vacuity of `pid_lsum_ge_one`: the unit test configuration (`K = ℝ`) -/
example : ∃ (period : ℝ) (order : Nat) (k0 k1 k2 k3 k4 : ℝ) (m0 m1 m2 m3 m4 : Option ℝ) (g0 l0 g1 l1 g2 l2 : ℝ),
    0 < period ∧ order ≤ 2 ∧
    (∀ i, order ≤ i → i ≤ order + 2 → i ≠ 2 →
      signOK ([k0, k1, k2, k3, k4].getD i 0) ([m0, m1, m2, m3, m4].getD i none)) ∧
    pidGl (fieldOps ℝ) period order [k0, k1, k2, k3, k4] [m0, m1, m2, m3, m4] = [(g0, l0), (g1, l1), (g2, l2)] :=
  ⟨1, 1, _, _, _, _, _, _, _, _, _, _, _, _, _, _, _, _, one_pos, by decide, nvB_pid_signs, nvB_pid_gl⟩

/-- non-vacuity of `pid_transfer_signs`: the unit test configuration (`K = ℝ`) -/
example : ∃ (period : ℝ) (order : Nat) (k0 k1 k2 k3 k4 : ℝ) (m0 m1 m2 m3 m4 : Option ℝ)
    (g0 l0 g1 l1 g2 l2 b0 b1 b2 a1 a2 : ℝ), 0 < period ∧ order ≤ 2 ∧
    (∀ i, order ≤ i → i ≤ order + 2 → i ≠ 2 →
      signOK ([k0, k1, k2, k3, k4].getD i 0) ([m0, m1, m2, m3, m4].getD i none)) ∧
    pidGl (fieldOps ℝ) period order [k0, k1, k2, k3, k4] [m0, m1, m2, m3, m4] = [(g0, l0), (g1, l1), (g2, l2)] ∧
    pidBuild (fieldOps ℝ) id 0 (· + ·) (fun k x => (k : ℝ) * x) period order [k0, k1, k2, k3, k4]
      [m0, m1, m2, m3, m4] = (b0, b1, b2, a1, a2) :=
  ⟨1, 1, _, _, _, _, _, _, _, _, _, _, _, _, _, _, _, _, _, _, _, _, _, one_pos, by decide, nvB_pid_signs, nvB_pid_gl,
    pid_coeffs (1 : ℝ) 1 _ _ _ _ _ _ _ _ nvB_pid_gl⟩

/-- non-vacuity of `pid_transfer_order_I`: NEGATIVE gains with negative limits (signs match), period `1/1000`,
    `K = ℚ` -/
example : ∃ (period k0 k1 k2 k3 k4 : ℚ) (m0 m1 m2 m3 m4 : Option ℚ) (b0 b1 b2 a1 a2 : ℚ), 0 < period ∧
    signOK k1 m1 ∧ signOK k3 m3 ∧
    pidBuild (fieldOps ℚ) id 0 (· + ·) (fun k x => (k : ℚ) * x) period 1 [k0, k1, k2, k3, k4]
      [m0, m1, m2, m3, m4] = (b0, b1, b2, a1, a2) :=
  ⟨1 / 1000, 0, -2, -1 / 3, -1 / 50, 0, none, some (-400), some 5, some (-7), none, _, _, _, _, _, by norm_num,
    ⟨by norm_num, by norm_num⟩, ⟨by norm_num, by norm_num⟩,
    pid_coeffs (1 / 1000 : ℚ) 1 _ _ _ _ _ _ _ _
      (pidGl_order_I (1 / 1000 : ℚ) (by norm_num) 0 (-2) (-1 / 3) (-1 / 50) 0 none (some (-400)) (some 5) (some (-7)) none)⟩

/-- non-vacuity of `pid_exact_kernel`, `pid_order_p_lone_gain`: `i32`/Q30 fixed point with the real quantiser
    `round(x·2^30)`, period `1/1000` -/
example : ∃ (quantize : ℚ → Int) (gzero : Int) (gadd : Int → Int → Int) (gmulInt : Int → Int → Int) (period : ℚ),
    PidCoeffLaws gzero gadd gmulInt ∧ quantize 0 = gzero ∧ period ≠ 0 :=
  ⟨fun x => round (x * 2 ^ 30), _, _, _, 1 / 1000, pidCoeffLaws_int, by simp, by norm_num⟩

/-- non-vacuity of `pid_exact_kernel_int`: `q = 30`, the real quantiser, period `1/1000` -/
example : ∃ (q : Nat) (quantize : ℚ → Int) (period : ℚ), quantize 0 = 0 ∧ quantize 1 = 2 ^ q ∧ period ≠ 0 :=
  ⟨30, fun x => round (x * 2 ^ 30), 1 / 1000, by simp,
    by simp only [one_mul]; exact_mod_cast round_natCast (α := ℚ) (2 ^ 30), by norm_num⟩

/-! ### C08: skipped
* no hypotheses: `pid_gains_order_I2`.
* only the independent fact `period ≠ 0`: `pid_gains_order_P`, `pid_gains_order_I`.
* (`pid_exact_kernel_int`, `pid_order_p_lone_gain` also have the instances `C08.lean:275`, `C08.lean:285`.)
-/

/-! ## C15 -/

/-- the integer operations satisfy the zero laws (named copy of the anonymous example `C15.lean:160`) -/
theorem nvB_zeroLaws_int : ZeroLaws intOps := by
  refine ⟨by decide, ?_, ?_, by decide⟩
  · intro t; show (0 : Int) * t = 0; simp
  · intro n; show (List.replicate n (0 : Int)).foldl (· + ·) 0 = 0
    induction n with
    | zero => rfl
    | succ n ih => simpa [List.replicate_succ] using ih

/-- a decimator stage (`M = 2` taps `[3, -5]`, `N = 9`) in a NON-zero state -/
def nvB_dec : HbfDec Int := ⟨[5, -3, 2, 7, 1, 0, 4, 4, 9], ⟨[1, 2, 3, 4, 5, 6, 7, 8, 9], [3, -5]⟩⟩
theorem nvB_dec_wf : nvB_dec.WF := ⟨by decide, by decide, by decide⟩

/-- a second decimator stage (`M = 1` tap `[2]`, `N = 7`) in a non-zero state -/
def nvB_dec1 : HbfDec Int := ⟨[1, -1, 1, -1, 6, 6, 6], ⟨[9, 8, 7, 6, 5, 4, 3], [2]⟩⟩
theorem nvB_dec1_wf : nvB_dec1.WF := ⟨by decide, by decide, by decide⟩

/-- an interpolator stage (`M = 2`, `N = 9`) in a non-zero state, and a second one (`M = 1`, `N = 7`) -/
def nvB_int : HbfInt Int := ⟨⟨[1, 2, 3, 4, 5, 6, 7, 8, 9], [3, -5]⟩⟩
theorem nvB_int_wf : nvB_int.WF := ⟨by decide, by decide⟩
def nvB_int1 : HbfInt Int := ⟨⟨[9, 8, 7, 6, 5, 4, 3], [2]⟩⟩
theorem nvB_int1_wf : nvB_int1.WF := ⟨by decide, by decide⟩

/-- two zero blocks of lengths 4 and 6 -/
def nvB_zblocks : List (List Int) := [[0, 0, 0, 0], [0, 0, 0, 0, 0, 0]]
theorem nvB_zblocks_zero : ∀ b ∈ nvB_zblocks, ∀ a ∈ b, a = intOps.zero := by decide

/-- non-vacuity of `symfir_window_sum`: `M = 2`, a window of 4 items (`R = ℤ`) -/
example : ∃ taps win : List Int, win.length = 2 * taps.length := ⟨[3, -5], [1, 2, 3, 4], rfl⟩

/-- non-vacuity of `hbfdec_is_decimated_convolution`: `R = ℤ`, `half = (· / 2)`, `N = 9`, taps `[3, -5]`, two non-zero
    blocks of lengths 4 and 6, output index `i = 3` (in the second block) -/
example : ∃ (hf : Int → Int) (n : Nat) (taps : List Int) (bs : List (List Int)) (i : Nat), 1 ≤ taps.length ∧
    2 * taps.length ≤ n ∧ (∀ b ∈ bs, (HbfDec.new (ringOps hf) n taps).Adm b) ∧ i < bs.flatten.length / 2 :=
  ⟨(· / 2), 9, [3, -5], [[2, 0, -1, 7], [1, 1, 4, -6, 0, 9]], 3, by decide, by decide, by
    intro b hb; simp only [List.mem_cons, List.not_mem_nil, or_false] at hb
    rcases hb with rfl | rfl <;> exact ⟨by decide, by decide⟩, by decide⟩

/-- non-vacuity of `hbfint_is_convolution_of_zero_stuffed`: same stage shape, blocks of lengths 2 and 3, output `m = 7` -/
example : ∃ (hf : Int → Int) (n : Nat) (taps : List Int) (bs : List (List Int)) (m : Nat), 1 ≤ taps.length ∧
    2 * taps.length ≤ n ∧ (∀ b ∈ bs, (HbfInt.new (ringOps hf) n taps).Adm b) ∧ m < 2 * bs.flatten.length :=
  ⟨(· / 2), 9, [3, -5], [[2, -1], [1, 4, -6]], 7, by decide, by decide, by
    intro b hb; simp only [List.mem_cons, List.not_mem_nil, or_false] at hb
    rcases hb with rfl | rfl <;> (show 2 * _ ≤ _; decide), by decide⟩

/-- non-vacuity of `hbfdec_zero_after_response_length_class`: integer operations, `Z x := x = 0`, the NON-zero state
    `nvB_dec`, zero blocks of lengths 4 and 6 -/
example : ∃ (o : Ops Int) (Z : Int → Prop) (d : HbfDec Int) (bs : List (List Int)), d.WF ∧ ZeroLike o Z d.odd.taps ∧
    (∀ b ∈ bs, d.Adm b) ∧ (∀ b ∈ bs, ∀ a ∈ b, Z a) :=
  ⟨intOps, _, nvB_dec, nvB_zblocks, nvB_dec_wf, nvB_zeroLaws_int.zeroLike _, by
    intro b hb; simp only [nvB_zblocks, List.mem_cons, List.not_mem_nil, or_false] at hb
    rcases hb with rfl | rfl <;> exact ⟨by decide, by decide⟩, nvB_zblocks_zero⟩

/-- non-vacuity of `hbfdec_zero_after_response_length`: the same -/
example : ∃ (o : Ops Int) (d : HbfDec Int) (bs : List (List Int)), ZeroLaws o ∧ d.WF ∧ (∀ b ∈ bs, d.Adm b) ∧
    (∀ b ∈ bs, ∀ a ∈ b, a = o.zero) :=
  ⟨intOps, nvB_dec, nvB_zblocks, nvB_zeroLaws_int, nvB_dec_wf, by
    intro b hb; simp only [nvB_zblocks, List.mem_cons, List.not_mem_nil, or_false] at hb
    rcases hb with rfl | rfl <;> exact ⟨by decide, by decide⟩, nvB_zblocks_zero⟩

/-- non-vacuity of `hbfint_zero_after_response_length_class`: the non-zero interpolator state `nvB_int` -/
example : ∃ (o : Ops Int) (Z : Int → Prop) (d : HbfInt Int) (bs : List (List Int)), d.WF ∧ ZeroLike o Z d.fir.taps ∧
    (∀ b ∈ bs, d.Adm b) ∧ (∀ b ∈ bs, ∀ a ∈ b, Z a) :=
  ⟨intOps, _, nvB_int, nvB_zblocks, nvB_int_wf, nvB_zeroLaws_int.zeroLike _, by
    intro b hb; simp only [nvB_zblocks, List.mem_cons, List.not_mem_nil, or_false] at hb
    rcases hb with rfl | rfl <;> (show 2 * _ ≤ _; decide), nvB_zblocks_zero⟩

/-- non-vacuity of `hbfint_zero_after_response_length`: the same -/
example : ∃ (o : Ops Int) (d : HbfInt Int) (bs : List (List Int)), ZeroLaws o ∧ d.WF ∧ (∀ b ∈ bs, d.Adm b) ∧
    (∀ b ∈ bs, ∀ a ∈ b, a = o.zero) :=
  ⟨intOps, nvB_int, nvB_zblocks, nvB_zeroLaws_int, nvB_int_wf, by
    intro b hb; simp only [nvB_zblocks, List.mem_cons, List.not_mem_nil, or_false] at hb
    rcases hb with rfl | rfl <;> (show 2 * _ ≤ _; decide), nvB_zblocks_zero⟩

/-- non-vacuity of `hbfdec_cascade_zero_after_response_length`: a depth-2 cascade of the two non-zero stages, zero
    blocks of lengths 12, 8, 12 (each stage sees admissible blocks; 8 outputs, `response_length() = 3`) -/
example : ∃ (o : Ops Int) (Z : Int → Prop) (c : HbfDecCascade Int) (bs : List (List Int)), c.WF ∧
    (∀ s ∈ c.active, ZeroLike o Z s.odd.taps) ∧ (∀ b ∈ bs, c.Adm b) ∧ (∀ b ∈ bs, ∀ a ∈ b, Z a) :=
  ⟨intOps, _, ⟨2, [nvB_dec, nvB_dec1]⟩,
    [[0, 0, 0, 0, 0, 0, 0, 0, 0, 0, 0, 0], [0, 0, 0, 0, 0, 0, 0, 0], [0, 0, 0, 0, 0, 0, 0, 0, 0, 0, 0, 0]],
    ⟨by decide, by
      intro s hs; simp only [List.mem_cons, List.not_mem_nil, or_false] at hs
      rcases hs with rfl | rfl
      · exact nvB_dec_wf
      · exact nvB_dec1_wf⟩,
    fun s _ => nvB_zeroLaws_int.zeroLike _, by
      intro b hb; simp only [List.mem_cons, List.not_mem_nil, or_false] at hb
      rcases hb with rfl | rfl | rfl <;>
        simp [HbfDecCascade.Adm, HbfDecCascade.active, decAdmL, HbfDec.blockMax, nvB_dec, nvB_dec1],
    by decide⟩

/-- non-vacuity of `hbfint_cascade_zero_after_response_length`: a depth-2 cascade of the two non-zero interpolator
    stages, zero blocks of lengths 1 and 3 -/
example : ∃ (o : Ops Int) (Z : Int → Prop) (c : HbfIntCascade Int) (bs : List (List Int)), c.WF ∧
    (∀ s ∈ c.active, ZeroLike o Z s.fir.taps) ∧ (∀ b ∈ bs, c.Adm b) ∧ (∀ b ∈ bs, ∀ a ∈ b, Z a) :=
  ⟨intOps, _, ⟨2, [nvB_int1, nvB_int]⟩, [[0], [0, 0, 0]],
    ⟨by decide, by
      intro s hs; simp only [List.mem_cons, List.not_mem_nil, or_false] at hs
      rcases hs with rfl | rfl
      · exact nvB_int1_wf
      · exact nvB_int_wf⟩,
    fun s _ => nvB_zeroLaws_int.zeroLike _, by
      intro b hb; simp only [List.mem_cons, List.not_mem_nil, or_false] at hb
      rcases hb with rfl | rfl <;>
        simp [HbfIntCascade.Adm, HbfIntCascade.active, intAdmL, HbfInt.blockMax, nvB_int, nvB_int1],
    by decide⟩

/-! ### C15: skipped
* only the range fact `1 ≤ taps.length`: `hbf_fir_shape`, `hbf_fir_sum_three_parts`.
-/

/-! ## C15F -/

/-- the round-up toy model of binary32 (`u = 2^-24`): every operation errs by the full factor `1 + u` -/
noncomputable def nvB_fl32 : FlModel (1 / 2 ^ 24) := FlModel.roundUp _ (by positivity)

/-- two non-zero real blocks of lengths 4 and 6 are admissible for a decimator stage with `N = 9`, `M = 2` -/
theorem nvB_fdec_adm (M : FlModel (1 / 2 ^ 24)) : ∀ b ∈ ([[2, 0, -1, 7], [1, 1 / 3, 4, -6, 0, 9]] : List (List ℝ)),
    (HbfDec.new M.fhbfOps 9 [1 / 4, -1 / 2]).Adm b := by
  intro b hb; simp only [List.mem_cons, List.not_mem_nil, or_false] at hb
  rcases hb with rfl | rfl <;> simp [HbfDec.Adm, HbfDec.blockMax, HbfDec.new, SymFir.new]

theorem nvB_fint_adm (M : FlModel (1 / 2 ^ 24)) : ∀ b ∈ ([[2, -1], [1 / 3, 4, -6]] : List (List ℝ)),
    (HbfInt.new M.fhbfOps 9 [1 / 4, -1 / 2]).Adm b := by
  intro b hb; simp only [List.mem_cons, List.not_mem_nil, or_false] at hb
  rcases hb with rfl | rfl <;> simp [HbfInt.Adm, HbfInt.blockMax, HbfInt.new, SymFir.new]

theorem nvB_fdec_bound : ∀ x ∈ ([[2, 0, -1, 7], [1, 1 / 3, 4, -6, 0, 9]] : List (List ℝ)).flatten, |x| ≤ 9 := by
  intro x hx
  simp only [List.flatten_cons, List.flatten_nil, List.cons_append, List.nil_append, List.append_nil, List.mem_cons,
    List.not_mem_nil, or_false] at hx
  rcases hx with rfl | rfl | rfl | rfl | rfl | rfl | rfl | rfl | rfl | rfl <;> norm_num [abs_le]

theorem nvB_fint_bound : ∀ x ∈ ([[2, -1], [1 / 3, 4, -6]] : List (List ℝ)).flatten, |x| ≤ 6 := by
  intro x hx
  simp only [List.flatten_cons, List.flatten_nil, List.cons_append, List.nil_append, List.append_nil, List.mem_cons,
    List.not_mem_nil, or_false] at hx
  rcases hx with rfl | rfl | rfl | rfl | rfl <;> norm_num [abs_le]

/-- non-vacuity of `fhbf_symfir_error`, `fhbf_symfir_error_uniform`, `fhbf_dec_output_error`: round-up model of
    binary32, `M = 2` taps, a window of 4 non-zero items -/
example : ∃ (u : ℝ) (M : FlModel u) (taps win : List ℝ), win.length = 2 * taps.length :=
  ⟨_, nvB_fl32, [1 / 4, -1 / 2], [1, -2, 3, 5], rfl⟩

/-- non-vacuity of `fhbf_int_output_error`: history of `2M − 1 = 3` items, two new items, output pair `i = 1` -/
example : ∃ (u : ℝ) (M : FlModel u) (taps h x : List ℝ) (i : Nat), 1 ≤ taps.length ∧ h.length = 2 * taps.length - 1 ∧
    i < x.length := ⟨_, nvB_fl32, [1 / 4, -1 / 2], [1, 2, 3], [4, 5], 1, by decide, rfl, by decide⟩

/-- non-vacuity of `fhbf_dec_run_error`: `N = 9`, `M = 2`, blocks of lengths 4 and 6, output `i = 3` -/
example : ∃ (u : ℝ) (M : FlModel u) (n : Nat) (taps : List ℝ) (bs : List (List ℝ)) (i : Nat), 1 ≤ taps.length ∧
    2 * taps.length ≤ n ∧ (∀ b ∈ bs, (HbfDec.new M.fhbfOps n taps).Adm b) ∧ i < bs.flatten.length / 2 :=
  ⟨_, nvB_fl32, 9, _, _, 3, by decide, by decide, nvB_fdec_adm _, by decide⟩

/-- non-vacuity of `fhbf_int_run_error`: blocks of lengths 2 and 3, output `k = 7` -/
example : ∃ (u : ℝ) (M : FlModel u) (n : Nat) (taps : List ℝ) (bs : List (List ℝ)) (k : Nat), 1 ≤ taps.length ∧
    2 * taps.length ≤ n ∧ (∀ b ∈ bs, (HbfInt.new M.fhbfOps n taps).Adm b) ∧ k < 2 * bs.flatten.length :=
  ⟨_, nvB_fl32, 9, _, _, 7, by decide, by decide, nvB_fint_adm _, by decide⟩

/-- non-vacuity of `fhbf_dec_run_error_uniform`: the same run, `B = 9` -/
example : ∃ (u : ℝ) (M : FlModel u) (n : Nat) (taps : List ℝ) (bs : List (List ℝ)) (B : ℝ) (i : Nat),
    1 ≤ taps.length ∧ 2 * taps.length ≤ n ∧ (∀ b ∈ bs, (HbfDec.new M.fhbfOps n taps).Adm b) ∧
    (∀ x ∈ bs.flatten, |x| ≤ B) ∧ i < bs.flatten.length / 2 :=
  ⟨_, nvB_fl32, 9, _, _, 9, 3, by decide, by decide, nvB_fdec_adm _, nvB_fdec_bound, by decide⟩

/-- non-vacuity of `fhbf_int_run_error_uniform`: the same run, `B = 6` -/
example : ∃ (u : ℝ) (M : FlModel u) (n : Nat) (taps : List ℝ) (bs : List (List ℝ)) (B : ℝ) (k : Nat),
    1 ≤ taps.length ∧ 2 * taps.length ≤ n ∧ (∀ b ∈ bs, (HbfInt.new M.fhbfOps n taps).Adm b) ∧
    (∀ x ∈ bs.flatten, |x| ≤ B) ∧ k < 2 * bs.flatten.length :=
  ⟨_, nvB_fl32, 9, _, _, 6, 7, by decide, by decide, nvB_fint_adm _, nvB_fint_bound, by decide⟩

theorem nvB_taps1_len : (fhbfTapsR 1).length = 9 := by rw [fhbfTapsR_length]; decide

/-- non-vacuity of `fhbf_dec_published_f32`: the published taps `HBF_TAPS.1` (`M = 9`) with the Rust buffer length
    `N = 2·9 − 1 + 128`, blocks of lengths 4 and 6, `B = 9`, output `i = 3` -/
example : ∃ (F : FlModel (1 / 2 ^ 24)) (j n : Nat) (bs : List (List ℝ)) (B : ℝ) (i : Nat),
    2 * (fhbfTapsR j).length ≤ n ∧ (∀ b ∈ bs, (HbfDec.new F.fhbfOps n (fhbfTapsR j)).Adm b) ∧
    (∀ x ∈ bs.flatten, |x| ≤ B) ∧ i < bs.flatten.length / 2 := by
  refine ⟨nvB_fl32, 1, 2 * 9 - 1 + 128, [[2, 0, -1, 7], [1, 1 / 3, 4, -6, 0, 9]], 9, 3, by rw [nvB_taps1_len]; decide,
    ?_, nvB_fdec_bound, by decide⟩
  intro b hb; simp only [List.mem_cons, List.not_mem_nil, or_false] at hb
  rcases hb with rfl | rfl <;>
    simp [HbfDec.Adm, HbfDec.blockMax, HbfDec.new, SymFir.new, nvB_taps1_len]

/-- non-vacuity of `fhbf_int_published_f32`: the same stage shape, blocks of lengths 2 and 3, `B = 6`, output `k = 7` -/
example : ∃ (F : FlModel (1 / 2 ^ 24)) (j n : Nat) (bs : List (List ℝ)) (B : ℝ) (k : Nat),
    2 * (fhbfTapsR j).length ≤ n ∧ (∀ b ∈ bs, (HbfInt.new F.fhbfOps n (fhbfTapsR j)).Adm b) ∧
    (∀ x ∈ bs.flatten, |x| ≤ B) ∧ k < 2 * bs.flatten.length := by
  refine ⟨nvB_fl32, 1, 2 * 9 - 1 + 128, [[2, -1], [1 / 3, 4, -6]], 6, 7, by rw [nvB_taps1_len]; decide,
    ?_, nvB_fint_bound, by decide⟩
  intro b hb; simp only [List.mem_cons, List.not_mem_nil, or_false] at hb
  rcases hb with rfl | rfl <;>
    simp [HbfInt.Adm, HbfInt.blockMax, HbfInt.new, SymFir.new, nvB_taps1_len]

/-- non-vacuity of `fhbf_symfir_error_tight`: `u = 1/4`, taps `[1, 2]`, window `[1, 1, 1, 1]` (the instance evaluated in
    `C15F.lean:264`): all products `(win[l] + win[3−l])·taps[l] = 2, 4` are non-negative -/
example : ∃ (u : ℝ) (taps win : List ℝ), 0 ≤ u ∧ win.length = 2 * taps.length ∧
    ∀ l, l < taps.length → 0 ≤ (win.getD l 0 + win.getD (2 * taps.length - 1 - l) 0) * taps.getD l 0 := by
  refine ⟨1 / 4, [1, 2], [1, 1, 1, 1], by norm_num, rfl, fun l hl => ?_⟩
  have hl' : l < 2 := hl
  obtain rfl | rfl : l = 0 ∨ l = 1 := by omega
  all_goals norm_num

/-! ### C15F: skipped
* `fhbf_f32_small` — only the range fact `s ≤ 4`.
* (all theorems of the file additionally take `M : FlModel u`, a structure and not a proposition; instances:
  `FlModel.exact`, `FlModel.roundUp`, `C15F.lean:232–233`.  See the findings in `NonVacuityB.lean`.)
-/

end Idsp
