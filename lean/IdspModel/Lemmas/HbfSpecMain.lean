import IdspModel.Lemmas.HbfSpecStop1
import IdspModel.Lemmas.HbfSpecStop2
import IdspModel.Lemmas.HbfSpecStop3
import IdspModel.Lemmas.HbfSpecStop4
import IdspModel.Lemmas.HbfSpecPass
import Mathlib.Analysis.SpecialFunctions.Log.Base
import Mathlib.Analysis.Complex.ExponentialBounds
import Mathlib.Analysis.SpecialFunctions.Pow.Real
/-!
Pass-band and stop-band bounds of `hbfCascadeGain d` for `d = 1..4` from the kernel-evaluated certificates, and the
conversion of multiplicative bounds into decibels.
-/
namespace Idsp
namespace HbfSpec
open Real

theorem stopband_bound (d : ℕ) (h1 : 1 ≤ d) (h4 : d ≤ 4) (f : ℝ) (hf1 : 3 / 5 ≤ f) (hf2 : f ≤ 2 ^ (d - 1)) :
    |hbfCascadeGain d f| ≤ 1 / 10 ^ 7 := by
  rw [gain_eq_cascAmp d h1 h4]
  obtain ⟨u0, u1, u2, u3⟩ := stop_edge
  have key : ∀ (k : ℕ) (u : ℝ) (hi : ℤ), cos (π * (3 / 5) / 2 ^ k) ≤ u → 2 ^ 24 * u ≤ hi → f ≤ 2 ^ k →
      bisectAbs 24 (hbfStages (k + 1)) 1 (10 ^ 7) 30 (-(2 ^ 24)) hi = true →
      |cascAmp (hbfStages (k + 1)) (π * f / 2 ^ k)| ≤ 1 / 10 ^ 7 := by
    intro k u hi hu hhi hfk hb
    obtain ⟨c1, c2⟩ := stop_cell k u hi hu hhi f hf1 hfk
    have := bisectAbs_sound 24 _ 1 (10 ^ 7) (by positivity) 30 _ _ hb _ c1 c2
    refine le_trans this (le_of_eq ?_)
    norm_num
  interval_cases d
  · exact key 0 _ _ u0 (by norm_num) hf2 stopCheck1
  · exact key 1 _ _ u1 (by norm_num) hf2 stopCheck2
  · exact key 2 _ _ u2 (by norm_num) hf2 stopCheck3
  · exact key 3 _ _ u3 (by norm_num) hf2 stopCheck4

theorem passband_bound (d : ℕ) (h1 : 1 ≤ d) (h4 : d ≤ 4) (f : ℝ) (hf1 : 0 ≤ f) (hf2 : f ≤ 2 / 5) :
    1 - 23 / 10 ^ 8 ≤ hbfCascadeGain d f ∧ hbfCascadeGain d f ≤ 1 + 23 / 10 ^ 8 := by
  rw [gain_eq_cascAmp d h1 h4]
  obtain ⟨l0, l1, l2, l3⟩ := pass_edge
  have key : ∀ (k : ℕ) (l : ℝ) (lo : ℤ), l ≤ cos (π * (2 / 5) / 2 ^ k) → (lo : ℝ) ≤ 2 ^ 24 * l →
      bisectPos 24 (hbfStages (k + 1)) 999999770 1000000230 (10 ^ 9) 30 lo (2 ^ 24) = true →
      1 - 23 / 10 ^ 8 ≤ cascAmp (hbfStages (k + 1)) (π * f / 2 ^ k) ∧
        cascAmp (hbfStages (k + 1)) (π * f / 2 ^ k) ≤ 1 + 23 / 10 ^ 8 := by
    intro k l lo hl hlo hb
    obtain ⟨c1, c2⟩ := pass_cell k l lo hl hlo f hf1 hf2
    have := bisectPos_sound 24 _ 999999770 1000000230 (10 ^ 9) (by positivity) 30 _ _ hb _ c1 c2
    constructor
    · refine le_trans ?_ this.1; norm_num
    · refine le_trans this.2 ?_; norm_num
  interval_cases d
  · exact key 0 _ _ l0 (by norm_num) passCheck1
  · exact key 1 _ _ l1 (by norm_num) passCheck2
  · exact key 2 _ _ l2 (by norm_num) passCheck3
  · exact key 3 _ _ l3 (by norm_num) passCheck4

/-! ### decibels -/

theorem log_ten_gt : (2.3024 : ℝ) < log 10 := by
  have h2 := log_two_gt_d9
  have e1 : log 1024 = 10 * log 2 := by
    rw [show (1024 : ℝ) = 2 ^ (10 : ℕ) by norm_num, log_pow]; norm_num
  have e2 : log 1000 = 3 * log 10 := by
    rw [show (1000 : ℝ) = 10 ^ (3 : ℕ) by norm_num, log_pow]; norm_num
  have e3 : log 1024 = log 1000 + log 1.024 := by
    rw [← log_mul (by norm_num) (by norm_num)]; norm_num
  have e4 : log 1.024 ≤ 1.024 - 1 := log_le_sub_one_of_pos (by norm_num)
  linarith

/-- a gain within `2.3e-7` of unity is within `2e-6 dB` of `0 dB` -/
theorem db_pass {g : ℝ} (h1 : 1 - 23 / 10 ^ 8 ≤ g) (h2 : g ≤ 1 + 23 / 10 ^ 8) : |20 * logb 10 g| ≤ 2 / 10 ^ 6 := by
  have hg : 0 < g := by linarith [show (0:ℝ) < 1 - 23 / 10 ^ 8 by norm_num]
  have hl := log_ten_gt
  have hl0 : 0 < log 10 := by linarith
  have up : log g ≤ 23 / 10 ^ 8 := by linarith [log_le_sub_one_of_pos hg]
  have lo : -(23001 / 10 ^ 11) ≤ log g := by
    have := one_sub_inv_le_log_of_pos hg
    have hinv : g⁻¹ ≤ (1 - 23 / 10 ^ 8)⁻¹ := inv_anti₀ (by norm_num) h1
    have : (1 - 23 / 10 ^ 8 : ℝ)⁻¹ ≤ 1 + 23001 / 10 ^ 11 := by norm_num
    linarith
  rw [logb, abs_le]
  constructor
  · rw [← mul_div_assoc, le_div_iff₀ hl0]; nlinarith
  · rw [← mul_div_assoc, div_le_iff₀ hl0]; nlinarith

/-- a non-zero gain of at most `1e-7` in absolute value is at most `-140 dB` -/
theorem db_stop {g : ℝ} (hg : g ≠ 0) (h : |g| ≤ 1 / 10 ^ 7) : 20 * logb 10 |g| ≤ -140 := by
  have hpos : 0 < |g| := abs_pos.mpr hg
  have key : logb 10 |g| ≤ -((7 : ℕ) : ℝ) := by
    rw [logb_le_iff_le_rpow (by norm_num) hpos]
    refine le_trans h (le_of_eq ?_)
    rw [rpow_neg (by norm_num), rpow_natCast]
    norm_num
  push_cast at key
  linarith

end HbfSpec
end Idsp
