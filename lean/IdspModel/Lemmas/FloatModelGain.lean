import IdspModel.Lemmas.FloatModelBiquad
import Mathlib.Algebra.BigOperators.Group.Finset.Basic
import Mathlib.Algebra.Order.BigOperators.Group.Finset
import Mathlib.Algebra.BigOperators.Ring.Finset
/-!
  Propagation of per-step rounding errors through the (unclamped) recurrence: if two output sequences obey
  `y n = b0·x n + b1·x (n−1) + b2·x (n−2) − a1·y (n−1) − a2·y (n−2) + u + ε n` (zero pre-history) with different
  `ε`, their difference is the convolution of `ε₂ − ε₁` with the impulse response `h` of `1/(1 + a1 z⁻¹ + a2 z⁻²)`,
  hence bounded by `(Σ|h|)·(E₁ + E₂)`.  Plus the sequence view (`seqSt`, `seqOut`) of the float biquad runs.
-/
namespace Idsp
open Finset

/-- impulse response of the recursive part `1/(1 + a1 z⁻¹ + a2 z⁻²)` -/
def impulse (a1 a2 : ℝ) : ℕ → ℝ
  | 0 => 1
  | 1 => -a1
  | n + 2 => -a1 * impulse a1 a2 (n + 1) - a2 * impulse a1 a2 n

/-- `f (n − j)`, zero before the start of the sequence -/
def prev (f : ℕ → ℝ) (j n : ℕ) : ℝ := if j ≤ n then f (n - j) else 0

theorem prev_succ (f : ℕ → ℝ) (j n : ℕ) : prev f (j + 1) (n + 1) = prev f j n := by
  unfold prev
  simp only [Nat.add_le_add_iff_right, Nat.add_sub_add_right]

theorem prev_zero_of_pos (f : ℕ → ℝ) {j : ℕ} (h : 0 < j) : prev f j 0 = 0 := by
  unfold prev
  rw [if_neg (by omega)]

theorem prev_zero_idx (f : ℕ → ℝ) (n : ℕ) : prev f 0 n = f n := by
  unfold prev
  simp

theorem prev_one_succ (f : ℕ → ℝ) (n : ℕ) : prev f 1 (n + 1) = f n := by
  rw [prev_succ, prev_zero_idx]

theorem prev_two_succ_succ (f : ℕ → ℝ) (n : ℕ) : prev f 2 (n + 2) = f n := by
  rw [prev_succ, prev_succ, prev_zero_idx]

theorem prev_sub (f g : ℕ → ℝ) (j n : ℕ) : prev (fun i => f i - g i) j n = prev f j n - prev g j n := by
  unfold prev
  split <;> simp

theorem lin_rec_conv (a1 a2 : ℝ) (d ε : ℕ → ℝ) (h0 : d 0 = ε 0) (h1 : d 1 = ε 1 - a1 * d 0)
    (h2 : ∀ n, d (n + 2) = ε (n + 2) - a1 * d (n + 1) - a2 * d n) (n : ℕ) :
    d n = ∑ k ∈ range (n + 1), impulse a1 a2 k * ε (n - k) := by
  have key : ∀ n, (d n = ∑ k ∈ range (n + 1), impulse a1 a2 k * ε (n - k)) ∧
      (d (n + 1) = ∑ k ∈ range (n + 2), impulse a1 a2 k * ε (n + 1 - k)) := by
    intro n
    induction n with
    | zero =>
      constructor
      · simp [impulse, h0]
      · simp [Finset.sum_range_succ, impulse, h1, h0]; ring
    | succ n ih =>
      refine ⟨ih.2, ?_⟩
      rw [h2 n, ih.1, ih.2]
      rw [Finset.sum_range_succ' _ (n + 2), Finset.sum_range_succ' _ (n + 1)]
      rw [Finset.sum_range_succ' _ (n + 1)]
      simp only [impulse, Nat.add_sub_add_right, Nat.sub_zero]
      have e : ∀ k, (-a1 * impulse a1 a2 (k + 1) - a2 * impulse a1 a2 k) * ε (n - k) =
          -(a1 * (impulse a1 a2 (k + 1) * ε (n - k))) - a2 * (impulse a1 a2 k * ε (n - k)) := fun k => by ring
      simp only [e, Finset.sum_sub_distrib, Finset.sum_neg_distrib, ← Finset.mul_sum]
      ring
  exact (key n).1

/-- a sequence driven through the recursive part by `ε` is bounded by the ℓ1 gain times the bound on `ε` -/
theorem lin_rec_bound (a1 a2 : ℝ) (d ε : ℕ → ℝ)
    (h : ∀ n, d n = ε n - a1 * prev d 1 n - a2 * prev d 2 n) (N : ℕ) (E G : ℝ)
    (hE : ∀ n, n ≤ N → |ε n| ≤ E) (hG : ∑ k ∈ range (N + 1), |impulse a1 a2 k| ≤ G) :
    |d N| ≤ G * E := by
  have h0 : d 0 = ε 0 := by
    rw [h 0, prev_zero_of_pos d (by norm_num), prev_zero_of_pos d (by norm_num)]; ring
  have h1 : d 1 = ε 1 - a1 * d 0 := by
    rw [h 1, prev_one_succ, prev_succ, prev_zero_of_pos d (by norm_num)]; ring
  have h2 : ∀ n, d (n + 2) = ε (n + 2) - a1 * d (n + 1) - a2 * d n := by
    intro n
    rw [h (n + 2), prev_one_succ, prev_two_succ_succ]
  rw [lin_rec_conv a1 a2 d ε h0 h1 h2 N]
  have hE0 : 0 ≤ E := le_trans (abs_nonneg _) (hE 0 (Nat.zero_le _))
  calc |∑ k ∈ range (N + 1), impulse a1 a2 k * ε (N - k)|
      ≤ ∑ k ∈ range (N + 1), |impulse a1 a2 k * ε (N - k)| := Finset.abs_sum_le_sum_abs _ _
    _ ≤ ∑ k ∈ range (N + 1), |impulse a1 a2 k| * E := by
        refine Finset.sum_le_sum fun k _ => ?_
        rw [abs_mul]
        exact mul_le_mul_of_nonneg_left (hE _ (Nat.sub_le _ _)) (abs_nonneg _)
    _ = (∑ k ∈ range (N + 1), |impulse a1 a2 k|) * E := by rw [Finset.sum_mul]
    _ ≤ G * E := mul_le_mul_of_nonneg_right hG hE0

/-- the exact (unclamped) recurrence value at sample `n` on the histories `x`, `y` (zero before the start) -/
def recVal (k : ExactCfg ℝ) (x y : ℕ → ℝ) (n : ℕ) : ℝ :=
  k.b0 * x n + k.b1 * prev x 1 n + k.b2 * prev x 2 n - k.a1 * prev y 1 n - k.a2 * prev y 2 n + k.u

/-- two sequences that obey the same recurrence on their own past up to residuals bounded by `E1`, `E2` differ
    by at most `G·(E1 + E2)`, `G ≥ Σ_{k ≤ N} |h k|` -/
theorem two_runs_close (k : ExactCfg ℝ) (x y1 y2 : ℕ → ℝ) (N : ℕ) (E1 E2 G : ℝ)
    (h1 : ∀ n, n ≤ N → |y1 n - recVal k x y1 n| ≤ E1) (h2 : ∀ n, n ≤ N → |y2 n - recVal k x y2 n| ≤ E2)
    (hG : ∑ j ∈ range (N + 1), |impulse k.a1 k.a2 j| ≤ G) :
    |y2 N - y1 N| ≤ G * (E1 + E2) := by
  have := lin_rec_bound k.a1 k.a2 (fun n => y2 n - y1 n)
    (fun n => (y2 n - recVal k x y2 n) - (y1 n - recVal k x y1 n)) ?_ N (E1 + E2) G ?_ hG
  · exact this
  · intro n
    simp only [prev_sub, recVal]
    ring
  · intro n hn
    have := (abs_sub (y2 n - recVal k x y2 n) (y1 n - recVal k x y1 n)).trans (add_le_add (h2 n hn) (h1 n hn))
    linarith

/-! ### sequences generated by a step function -/

/-- state before sample `n` -/
def seqSt {σ : Type} (step : σ → ℝ → σ × ℝ) (st : σ) (x : ℕ → ℝ) : ℕ → σ
  | 0 => st
  | n + 1 => (step (seqSt step st x n) (x n)).1

/-- output at sample `n` -/
def seqOut {σ : Type} (step : σ → ℝ → σ × ℝ) (st : σ) (x : ℕ → ℝ) (n : ℕ) : ℝ :=
  (step (seqSt step st x n) (x n)).2

/-- `seqOut` lists the outputs of the list run `runP` on the first `n` inputs -/
theorem runP_seq {σ : Type} (step : σ → ℝ → σ × ℝ) (st : σ) (x : ℕ → ℝ) (n : ℕ) :
    runP step st ((List.range n).map x) = (seqSt step st x n, (List.range n).map (seqOut step st x)) := by
  induction n with
  | zero => rfl
  | succ n ih =>
    rw [List.range_succ, List.map_append, List.map_append, runP_append, ih]
    rfl

/-- a clamp result strictly inside the limits is the unclamped value -/
theorem rclip_eq_of_strict {mn mx v : ℝ} (h1 : mn < rclip mn mx v) (h2 : rclip mn mx v < mx) :
    rclip mn mx v = v := by
  unfold rclip at h1 h2 ⊢
  have a : max v mn < mx := by
    rcases min_choice (max v mn) mx with h | h
    · rw [h] at h2; exact h2
    · rw [h] at h2; exact absurd h2 (lt_irrefl _)
  rw [min_eq_left a.le] at h1 ⊢
  rcases max_choice v mn with h | h
  · exact h
  · rw [h] at h1; exact absurd h1 (lt_irrefl _)

namespace FlModel

variable {u : ℝ} (M : FlModel u)

/-- the state of the rounded four-element form IS its own history -/
theorem df1_seqSt (c : FBiquadCfg ℝ) (x : ℕ → ℝ) (n : ℕ) :
    seqSt (fbiquadUpdate4 M.ops c) (0, 0, 0, 0) x n =
      (prev x 1 n, prev x 2 n, prev (seqOut (fbiquadUpdate4 M.ops c) (0, 0, 0, 0) x) 1 n,
        prev (seqOut (fbiquadUpdate4 M.ops c) (0, 0, 0, 0) x) 2 n) := by
  induction n with
  | zero => simp [seqSt, prev_zero_of_pos]
  | succ n ih =>
    have e : seqSt (fbiquadUpdate4 M.ops c) (0, 0, 0, 0) x (n + 1) =
        (x n, (seqSt (fbiquadUpdate4 M.ops c) (0, 0, 0, 0) x n).1,
          seqOut (fbiquadUpdate4 M.ops c) (0, 0, 0, 0) x n,
          (seqSt (fbiquadUpdate4 M.ops c) (0, 0, 0, 0) x n).2.2.1) := rfl
    rw [e, ih]
    simp only [prev_succ, prev_zero_idx]

/-- every output of the rounded four-element run from rest: exact recurrence on its own past plus a bounded
    error, inside the clamp -/
theorem df1_seq_inside (c : FBiquadCfg ℝ) (x : ℕ → ℝ) (n : ℕ) :
    let y := seqOut (fbiquadUpdate4 M.ops c) (0, 0, 0, 0) x
    ∃ e, |e| ≤ df1Bound u c (x n) (prev x 1 n) (prev x 2 n) (prev y 1 n) (prev y 2 n) ∧
      y n = rclip c.mn c.mx (recVal c.toExact x y n + e) := by
  intro y
  have hy : y n = (fbiquadUpdate4 M.ops c (seqSt (fbiquadUpdate4 M.ops c) (0, 0, 0, 0) x n) (x n)).2 := rfl
  rw [M.df1_seqSt c x n, M.fbiquadUpdate4_eq] at hy
  obtain ⟨e, he, h⟩ := (M.fbiquadJunction_near c (x n) (prev x 1 n) (prev x 2 n) (prev y 1 n) (prev y 2 n)).inside
  refine ⟨e, ?_, ?_⟩
  · rw [gam_one] at he; exact he
  · rw [hy]
    show rclip c.mn c.mx (M.fadd c.u (fbiquadSum M.ops c (x n) (prev x 1 n) (prev x 2 n) (prev y 1 n) (prev y 2 n))) = _
    rw [h]
    rfl

/-- every output of the rounded two-element run started at `(u, u)` (the state corresponding to the four-element
    form at rest): exact recurrence on its own past plus a bounded error, inside the clamp -/
theorem df2t_seq_inside (c : FBiquadCfg ℝ) (x : ℕ → ℝ) (n : ℕ) :
    let y := seqOut (fbiquadUpdate2 M.ops c) (c.u, c.u) x
    ∃ e, |e| ≤ df2tBound u c (x n) (prev x 1 n) (prev x 2 n) (prev y 1 n) (prev y 2 n) ∧
      y n = rclip c.mn c.mx (recVal c.toExact x y n + e) := by
  intro y
  have hu := M.u_nonneg
  have g13 := gam_mono hu (show 1 ≤ 5 by norm_num)
  have g35 := gam_mono hu (show 3 ≤ 5 by norm_num)
  have g0 := gam_nonneg hu
  match n with
  | 0 =>
    obtain ⟨⟨hy, hn⟩, -⟩ := M.df2t_first_two_near c c.u c.u (x 0) (x 1)
    obtain ⟨e, he, h⟩ := hn.inside
    refine ⟨e, ?_, ?_⟩
    · refine he.trans ?_
      simp only [df2tBound, prev_zero_of_pos, Nat.lt_add_one, Nat.zero_lt_two, mul_zero, abs_zero, add_zero]
      have := mul_le_mul_of_nonneg_right g13 (abs_nonneg c.u)
      linarith
    · have : y 0 = (fbiquadUpdate2 M.ops c (c.u, c.u) (x 0)).2 := rfl
      rw [this, hy, h]
      simp only [recVal, FBiquadCfg.toExact, prev_zero_of_pos, Nat.lt_add_one, Nat.zero_lt_two, mul_zero, add_zero,
        sub_zero]
  | 1 =>
    obtain ⟨-, hy, hn⟩ := M.df2t_first_two_near c c.u c.u (x 0) (x 1)
    obtain ⟨e, he, h⟩ := hn.inside
    have y0 : y 0 = (fbiquadUpdate2 M.ops c (c.u, c.u) (x 0)).2 := rfl
    have p1 : prev y 1 1 = y 0 := prev_one_succ y 0
    have p2 : prev y 2 1 = 0 := by rw [prev_succ, prev_zero_of_pos y (by norm_num)]
    have q1 : prev x 1 1 = x 0 := prev_one_succ x 0
    have q2 : prev x 2 1 = 0 := by rw [prev_succ, prev_zero_of_pos x (by norm_num)]
    refine ⟨e, ?_, ?_⟩
    · refine he.trans ?_
      simp only [df2tBound, p1, p2, q1, q2, mul_zero, abs_zero, add_zero, ← y0]
      have := mul_le_mul_of_nonneg_right g35 (abs_nonneg c.u)
      linarith
    · have : y 1 = (fbiquadUpdate2 M.ops c (fbiquadUpdate2 M.ops c (c.u, c.u) (x 0)).1 (x 1)).2 := rfl
      rw [this, hy, h]
      simp only [recVal, FBiquadCfg.toExact, p1, p2, q1, q2, mul_zero, add_zero, sub_zero, ← y0]
  | n + 2 =>
    obtain ⟨hy, hn⟩ := M.df2t_third_near c (seqSt (fbiquadUpdate2 M.ops c) (c.u, c.u) x n) (x n) (x (n + 1))
      (x (n + 2))
    obtain ⟨e, he, h⟩ := hn.inside
    have ya : y n = (fbiquadUpdate2 M.ops c (seqSt (fbiquadUpdate2 M.ops c) (c.u, c.u) x n) (x n)).2 := rfl
    have yb : y (n + 1) = (fbiquadUpdate2 M.ops c
      (fbiquadUpdate2 M.ops c (seqSt (fbiquadUpdate2 M.ops c) (c.u, c.u) x n) (x n)).1 (x (n + 1))).2 := rfl
    have yc : y (n + 2) = (fbiquadUpdate2 M.ops c (fbiquadUpdate2 M.ops c
      (fbiquadUpdate2 M.ops c (seqSt (fbiquadUpdate2 M.ops c) (c.u, c.u) x n) (x n)).1 (x (n + 1))).1
        (x (n + 2))).2 := rfl
    refine ⟨e, ?_, ?_⟩
    · rw [prev_one_succ, prev_two_succ_succ, prev_one_succ, prev_two_succ_succ, ya, yb]
      exact he
    · rw [yc, hy, h]
      simp only [recVal, FBiquadCfg.toExact, prev_one_succ, prev_two_succ_succ, ya, yb]

end FlModel

end Idsp
