import IdspModel.Lemmas.Lp2Time
import IdspModel.Lemmas.Lp2TimeF
import IdspModel.Lemmas.Lp2Core
/-!
# Explicit settling time from a sector-safe region

`lp2_settled_time`: the equilibrium level set is reached after `L1·m1` plain updates, `m1 ≥ (2^32−b)/(b−2a)`,
`2^L1 >` the start value of `b(b−2a)·V`.  `lp2_tight_time`: from there the tight region is reached after at most
`L2·m2` more updates, `m2 ≥ 11b/a`, `2^L2·Rk ≥` the start error.  `lp2_settle_core_time`: the consequences.
-/
namespace Idsp
set_option linter.unusedVariables false

/-- the excess over the equilibrium level contracts by `(2^32+2a−2b)/(2^32−b)` per update -/
theorem lp2_W_rec {a b : Int} (hA : Lp2Adm a b) (x : Int) (st : Int × Int) :
    (4294967296 - b) * (b * (b - 2 * a) * lp2V a b x (lp2Next x a (-b) st) - 4 * (4294967296 - b) * lp2U a b ^ 2)
      ≤ (4294967296 + 2 * a - 2 * b) * (b * (b - 2 * a) * lp2V a b x st - 4 * (4294967296 - b) * lp2U a b ^ 2) := by
  obtain ⟨ha0, ha1, hba, hb1, hD⟩ := hA
  have ha : 0 < a := by omega
  have hb : 0 < b := by omega
  obtain ⟨u, hu, hrE, hrs⟩ := lp2_centered_rec x a b st ha hb
  have h := lp2Q_iss ha (le_of_lt hD) _ _ _ _ u hrE hrs
  have h2 : 4 * (4294967296 - b) * u ^ 2 ≤ 4 * (4294967296 - b) * lp2U a b ^ 2 :=
    mul_le_mul_of_nonneg_left hu (by omega)
  have h3 := mul_le_mul_of_nonneg_left h (show (0 : Int) ≤ b - 2 * a by omega)
  have h4 := mul_le_mul_of_nonneg_left h2 (show (0 : Int) ≤ b - 2 * a by omega)
  unfold lp2V
  nlinarith

/-- explicit time to the equilibrium level set -/
theorem lp2_settled_time {a b x Vmax : Int} (hA : Lp2Adm a b) (st : Int × Int) (hV : lp2V a b x st ≤ Vmax)
    (L1 m1 : Nat) (hL1 : b * (b - 2 * a) * Vmax < 2 ^ L1) (hm1 : 4294967296 - b ≤ m1 * (b - 2 * a)) :
    ∀ n, L1 * m1 ≤ n → Lp2Settled a b x (lp2Seq x a (-b) n st) := by
  have ha0 := hA.ha0; have hba := hA.hba; have hb1 := hA.hb1
  set W : Nat → Int := fun n => b * (b - 2 * a) * lp2V a b x (lp2Seq x a (-b) n st)
    - 4 * (4294967296 - b) * lp2U a b ^ 2 with hWdef
  have hW : ∀ n, (4294967296 - b) * W (n + 1) ≤ (4294967296 + 2 * a - 2 * b) * W n := by
    intro n
    simp only [hWdef, lp2Seq_succ]
    exact lp2_W_rec hA x _
  have hp : (0 : Int) < 4294967296 - b := by omega
  have hq0 : (0 : Int) ≤ 4294967296 + 2 * a - 2 * b := by omega
  have hqp : 4294967296 + 2 * a - 2 * b ≤ 4294967296 - b := by omega
  have hm : 4294967296 - b ≤ (m1 : Int) * ((4294967296 - b) - (4294967296 + 2 * a - 2 * b)) := by
    have : (4294967296 - b) - (4294967296 + 2 * a - 2 * b) = b - 2 * a := by ring
    rw [this]; exact hm1
  have ht := lp2_time_W hq0 hqp hp W hW m1 hm L1
  have hbb : 0 < b * (b - 2 * a) := by apply mul_pos <;> omega
  have hW0 : max (W 0) 0 < 2 ^ L1 := by
    have h1 : W 0 ≤ b * (b - 2 * a) * Vmax := by
      simp only [hWdef, lp2Seq]
      have := mul_le_mul_of_nonneg_left hV (le_of_lt hbb)
      have : 0 ≤ 4 * (4294967296 - b) * lp2U a b ^ 2 := by positivity
      linarith
    have h2 : (0 : Int) < 2 ^ L1 := by positivity
    exact max_lt (by linarith) h2
  have hneg : W (L1 * m1) ≤ 0 := by
    by_contra hc
    have hc' : 1 ≤ W (L1 * m1) := by omega
    have : (2 : Int) ^ L1 * 1 ≤ 2 ^ L1 * W (L1 * m1) := mul_le_mul_of_nonneg_left hc' (by positivity)
    linarith
  intro n hn
  obtain ⟨j, rfl⟩ : ∃ j, n = L1 * m1 + j := ⟨n - L1 * m1, by omega⟩
  have := lp2_W_stay hq0 hp W hW (L1 * m1) hneg j
  simp only [hWdef] at this
  unfold Lp2Settled
  linarith

/-- in the settled region, while the centred error is above `Rk` it decreases by at least `a·Ē/(11b)` per update -/
theorem lp2_tight_dec {k a b x : Int} (h : Lp2Butter k a b) (st : Int × Int)
    (hs : Lp2Settled a b x st)
    (h0 : lp2Rk k a < lp2Eb a b x st.1) (h1 : lp2Rk k a < lp2Eb a b x (lp2Next x a (-b) st).1) :
    a * lp2Eb a b x st.1 ≤ 11 * b * (lp2Eb a b x st.1 - lp2Eb a b x (lp2Next x a (-b) st).1) := by
  have ha := h.a_ge; have hbg := h.b_ge; have hbl := h.b_le; have hba := h.two_a_lt
  have hA := h.adm
  have hbb : 0 < b * (b - 2 * a) := by apply mul_pos <;> omega
  have hG := lp2_Rk_good h
  have hG' := lp2_Rk_good' h
  have hD5 := (lp2_disc_ge h).1
  obtain ⟨hs', -, -, hstep⟩ := lp2_tight_step st hA hD5 hG hs
  have hR0 := hG.hR0
  -- Vs ≤ (10/11)·a·Rk²
  have hVs : 11 * lp2Vs a b ≤ 10 * (a * lp2Rk k a ^ 2) := by
    have hc : (0 : Int) < 4294967296 - b + a := by omega
    have h2 : 10 * (a * (4294967296 - b) * lp2Rk k a ^ 2) ≤ (4294967296 - b + a) * (10 * (a * lp2Rk k a ^ 2)) := by
      have : 0 ≤ a * (a * lp2Rk k a ^ 2) := by positivity
      nlinarith
    have : (4294967296 - b + a) * (11 * lp2Vs a b) ≤ (4294967296 - b + a) * (10 * (a * lp2Rk k a ^ 2)) := by
      linarith
    exact le_of_mul_le_mul_left this hc
  -- lower bound of the velocity at a settled state with Ē > Rk
  have vel : ∀ t : Int × Int, Lp2Settled a b x t → lp2Rk k a < lp2Eb a b x t.1 →
      a * lp2Eb a b x t.1 ≤ 11 * (b - a) * (2 * a * t.2) := by
    intro t hts hte
    have hV := (lp2_settled_iff hbb).mp hts
    unfold lp2V lp2Q at hV
    generalize lp2Eb a b x t.1 = E at *
    generalize 2 * a * t.2 = s at *
    have hE0 : 0 < E := by omega
    have hE2 : lp2Rk k a ^ 2 ≤ E ^ 2 := pow_le_pow_left₀ hR0 (le_of_lt hte) 2
    have hs2 : 0 ≤ (4294967296 - b) * s ^ 2 := mul_nonneg (by omega) (sq_nonneg s)
    -- 11(b−a)·E·s ≥ 11aE² − 11Vs ≥ aE²
    have h5 : a * E ^ 2 ≤ 11 * ((b - a) * E * s) := by
      have : 10 * (a * lp2Rk k a ^ 2) ≤ 10 * (a * E ^ 2) := by
        have := mul_le_mul_of_nonneg_left hE2 (show (0 : Int) ≤ a by omega); linarith
      linarith
    have h6 : E * (a * E) ≤ E * (11 * (b - a) * s) := by nlinarith
    exact le_of_mul_le_mul_left h6 hE0
  have v0 := vel st hs h0
  have v1 := vel _ hs' h1
  have hE1pos : 0 < lp2Eb a b x (lp2Next x a (-b) st).1 := by omega
  have hs1nn : 0 ≤ 2 * a * (lp2Next x a (-b) st).2 := by
    have : 0 ≤ 11 * (b - a) * (2 * a * (lp2Next x a (-b) st).2) := le_trans (by positivity) v1
    have hpos : (0 : Int) < 11 * (b - a) := by omega
    exact nonneg_of_mul_nonneg_right this hpos
  have hs0nn : 0 ≤ 2 * a * st.2 := by
    have hE0pos : 0 < lp2Eb a b x st.1 := by omega
    have : 0 ≤ 11 * (b - a) * (2 * a * st.2) := le_trans (by positivity) v0
    exact nonneg_of_mul_nonneg_right this (by omega)
  rw [hstep]
  have : 11 * (b - a) * (2 * a * st.2) ≤ 11 * b * (2 * a * st.2) := by nlinarith
  have : 0 ≤ 11 * b * (2 * a * (lp2Next x a (-b) st).2) := by positivity
  nlinarith

/-- explicit time from a settled state to the tight region -/
theorem lp2_tight_time {k a b x : Int} (h : Lp2Butter k a b) (st : Int × Int) (hs : Lp2Settled a b x st)
    (L2 m2 : Nat) (hE0 : -(2 ^ L2 * lp2Rk k a) ≤ lp2Eb a b x st.1) (hE1 : lp2Eb a b x st.1 ≤ 2 ^ L2 * lp2Rk k a)
    (hm2 : 11 * b ≤ m2 * a) :
    ∃ n, n ≤ L2 * m2 ∧ Lp2Tight a b x (lp2Rk k a) (lp2Seq x a (-b) n st) := by
  have ha := h.a_ge; have hbg := h.b_ge
  have hA := h.adm
  have hG := lp2_Rk_good h
  have hD5 := (lp2_disc_ge h).1
  have hR0 := hG.hR0
  -- settled along the run
  have hset : ∀ n, Lp2Settled a b x (lp2Seq x a (-b) n st) := by
    intro n
    induction n with
    | zero => exact hs
    | succ n ih => rw [lp2Seq_succ]; exact (lp2_tight_step _ hA hD5 hG ih).1
  by_cases hin : -(lp2Rk k a) ≤ lp2Eb a b x st.1 ∧ lp2Eb a b x st.1 ≤ lp2Rk k a
  · exact ⟨0, by omega, hs, hin.1, hin.2⟩
  rcases lt_or_ge (lp2Rk k a) (lp2Eb a b x st.1) with hpos | hnpos
  · -- positive side
    set e : Nat → Int := fun n => lp2Eb a b x (lp2Seq x a (-b) n st).1 with he
    have hsecL : ∀ n, -(lp2Rk k a) ≤ e (n + 1) ∨ e n ≤ e (n + 1) := by
      intro n; simp only [he, lp2Seq_succ]
      exact (lp2_tight_step _ hA hD5 hG (hset n)).2.1
    have hdec : ∀ n, lp2Rk k a < e n → lp2Rk k a < e (n + 1) → a * e n ≤ 11 * b * (e n - e (n + 1)) := by
      intro n h0 h1; simp only [he, lp2Seq_succ] at h0 h1 ⊢
      exact lp2_tight_dec h _ (hset n) h0 h1
    obtain ⟨n, hn, h1, h2⟩ := lp2_enter_time_pos (by omega) (by omega) hR0 e hsecL hdec m2 hm2 L2 0
      (by simpa [he, lp2Seq] using hpos) (by simpa [he, lp2Seq] using hE1)
    exact ⟨n, by omega, hset n, h1, h2⟩
  · -- negative side: mirror
    have hneg : lp2Eb a b x st.1 < -(lp2Rk k a) := by omega
    set e : Nat → Int := fun n => -(lp2Eb a b x (lp2Seq x a (-b) n st).1) with he
    have hsecL : ∀ n, -(lp2Rk k a) ≤ e (n + 1) ∨ e n ≤ e (n + 1) := by
      intro n; simp only [he, lp2Seq_succ]
      have := (lp2_tight_step _ hA hD5 hG (hset n)).2.2.1
      rcases this with h | h
      · left; omega
      · right; omega
    have hdec : ∀ n, lp2Rk k a < e n → lp2Rk k a < e (n + 1) → a * e n ≤ 11 * b * (e n - e (n + 1)) := by
      intro n h0 h1
      simp only [he, lp2Seq_succ] at h0 h1 ⊢
      -- mirrored version of lp2_tight_dec
      have hbl := h.b_le; have hba := h.two_a_lt
      have hbb : 0 < b * (b - 2 * a) := by apply mul_pos <;> omega
      have hG' := lp2_Rk_good' h
      obtain ⟨hs', -, -, hstep⟩ := lp2_tight_step (lp2Seq x a (-b) n st) hA hD5 hG (hset n)
      have hVs : 11 * lp2Vs a b ≤ 10 * (a * lp2Rk k a ^ 2) := by
        have hc : (0 : Int) < 4294967296 - b + a := by omega
        have h2 : 10 * (a * (4294967296 - b) * lp2Rk k a ^ 2) ≤ (4294967296 - b + a) * (10 * (a * lp2Rk k a ^ 2)) := by
          have : 0 ≤ a * (a * lp2Rk k a ^ 2) := by positivity
          nlinarith
        have : (4294967296 - b + a) * (11 * lp2Vs a b) ≤ (4294967296 - b + a) * (10 * (a * lp2Rk k a ^ 2)) := by
          linarith
        exact le_of_mul_le_mul_left this hc
      have vel : ∀ t : Int × Int, Lp2Settled a b x t → lp2Rk k a < -(lp2Eb a b x t.1) →
          a * (-(lp2Eb a b x t.1)) ≤ 11 * (b - a) * (-(2 * a * t.2)) := by
        intro t hts hte
        have hV := (lp2_settled_iff hbb).mp hts
        unfold lp2V lp2Q at hV
        generalize lp2Eb a b x t.1 = E at *
        generalize 2 * a * t.2 = s at *
        have hE0 : 0 < -E := by omega
        have hE2 : lp2Rk k a ^ 2 ≤ E ^ 2 := by
          have := pow_le_pow_left₀ hR0 (le_of_lt hte) 2
          have e2 : (-E) ^ 2 = E ^ 2 := by ring
          linarith
        have hs2 : 0 ≤ (4294967296 - b) * s ^ 2 := mul_nonneg (by omega) (sq_nonneg s)
        have h5 : a * E ^ 2 ≤ 11 * ((b - a) * E * s) := by
          have : 10 * (a * lp2Rk k a ^ 2) ≤ 10 * (a * E ^ 2) := by
            have := mul_le_mul_of_nonneg_left hE2 (show (0 : Int) ≤ a by omega); linarith
          linarith
        have h6 : (-E) * (a * (-E)) ≤ (-E) * (11 * (b - a) * (-s)) := by nlinarith
        exact le_of_mul_le_mul_left h6 hE0
      have v0 := vel _ (hset n) h0
      have v1 := vel _ hs' h1
      have hs1nn : 0 ≤ -(2 * a * (lp2Next x a (-b) (lp2Seq x a (-b) n st)).2) := by
        have : 0 ≤ 11 * (b - a) * (-(2 * a * (lp2Next x a (-b) (lp2Seq x a (-b) n st)).2)) :=
          le_trans (by nlinarith) v1
        exact nonneg_of_mul_nonneg_right this (by omega)
      have hs0nn : 0 ≤ -(2 * a * (lp2Seq x a (-b) n st).2) := by
        have : 0 ≤ 11 * (b - a) * (-(2 * a * (lp2Seq x a (-b) n st).2)) := le_trans (by nlinarith) v0
        exact nonneg_of_mul_nonneg_right this (by omega)
      rw [hstep]
      nlinarith
    obtain ⟨n, hn, h1, h2⟩ := lp2_enter_time_pos (by omega) (by omega) hR0 e hsecL hdec m2 hm2 L2 0
      (by simp only [he, lp2Seq]; omega) (by simp only [he, lp2Seq]; omega)
    simp only [he] at h1 h2
    exact ⟨n, by omega, hset n, by omega, by omega⟩

end Idsp
