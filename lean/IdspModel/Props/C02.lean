import IdspModel.Lemmas.Atan2Main
/-!
# C02 — `atan2`: no panic, quadrant-correct and reflection-symmetric

Property theorems only (helpers: `IdspModel/Lemmas/Atan2*.lean`).  The statements hold for ALL `i32` operand
pairs; they are stated for the checked-mode model `atan2 .checked` (overflow checks and debug assertions on), and
`atan2_release_eq_checked` shows that the release build computes the same value.

History: on the original code `atan2 (±3) (±3)` panicked (checked) / was 1.87 rad off (release), because `divi`
rounds the divisor down and produced the quotient `1.5·2^16` for `y = x = 3`, which overflowed `x * x` in `atani`.
The defect was repaired upstream (commit "fix: atan2(±3, ±3) overflowed in atani": the quotient is clamped to
`1 << 16` in `divi`); the model follows the repaired code and the theorems below carry no guard any more.

Finding that remains (true of the repaired code as well): on a mirror line the literal reflection clause of C02
fails (`*_full_false`): `atan2 0 x = 5215` for every `x ≥ 2` (`atan2_axis_offset`), `atan2 2 2 = 2^29 + 2599`.
Off the mirror lines the reflections are exact complements, i.e. reflections to within one LSB.
The numeric accuracy against the real arctangent is not treated here.
-/
namespace Idsp

/-! ## 1. `divi`: the quotient field -/

/-- For every first-octant operand pair `0 ≤ y ≤ x < 2^31`, `divi` does not panic (in particular
    `x += (1 << (15 - z)) - 1` does not overflow) and returns the same value in both build modes.  `x ≤ 1` gives
    `0`.  Otherwise the result is `q·2^15 + 2^14` with a quotient field `0 ≤ q ≤ 2^16` (no exception on the
    diagonal any more: the quotient is clamped), and `q = 0` on the axis `y = 0`. -/
theorem divi_quotient_bound {y x : Int} (hy : 0 ≤ y) (hyx : y ≤ x) (hx : x < 2 ^ 31) :
    (x ≤ 1 ∧ ∀ m, divi m y x = .ok 0) ∨
    (2 ≤ x ∧ ∃ q : Int, (∀ m, divi m y x = .ok (q * 2 ^ 15 + 2 ^ 14)) ∧ 0 ≤ q ∧ q ≤ 2 ^ 16 ∧
      (y = 0 → q = 0)) :=
  divi_spec hy hyx hx

/-- the formerly defective pair: the raw quotient `3·2^15 / 1 = 1.5·2^16` is clamped to `2^16` -/
example : divi .checked 3 3 = .ok (2 ^ 16 * 2 ^ 15 + 2 ^ 14) := by decide +kernel
/-- the clamp is also active away from tiny operands (raw quotient `2^16 + 1`), and the bound `2^16` is attained
    without it (`(2,2)`) -/
example : divi .checked 131074 131074 = .ok (2 ^ 16 * 2 ^ 15 + 2 ^ 14) := by decide +kernel
example : divi .checked 2 2 = .ok (2 ^ 16 * 2 ^ 15 + 2 ^ 14) := by decide +kernel
example : divi .checked 1000 3000 = .ok (21845 * 2 ^ 15 + 2 ^ 14) := by decide +kernel

/-! ## 2. `atani` on every quotient field (complete kernel-evaluated table, 65 537 points) -/

/-- For EVERY quotient field `q ≤ 2^16` (all that `divi` can produce), `atani` at `q·2^15 + 2^14` does not
    overflow in any intermediate (checked mode returns `ok`, and the release build returns the same value), and
    the value lies in `[5215, 2^29 + 2599]`, so it is `< 2^30`. -/
theorem atani_range (q : Nat) (hq : q ≤ 65536) :
    ∃ r : Int, (∀ m, atani m ((q : Int) * 2 ^ 15 + 2 ^ 14) = .ok r) ∧ 5215 ≤ r ∧ r ≤ 2 ^ 29 + 2599 := by
  obtain ⟨r, hr, _, h1⟩ := atanQ_ok q hq
  exact ⟨r, atani_all_modes hr, atanQ_mono (Nat.zero_le q) hq atanQ_0 hr, h1⟩

/-- `atani` is non-decreasing over the whole table -/
theorem atani_mono {q q' : Nat} (h : q ≤ q') (h' : q' ≤ 65536) {r r' : Int}
    (hr : atani .checked ((q : Int) * 2 ^ 15 + 2 ^ 14) = .ok r)
    (hr' : atani .checked ((q' : Int) * 2 ^ 15 + 2 ^ 14) = .ok r') : r ≤ r' :=
  atanQ_mono h h' hr hr'

/-- `atani 0 = 0` (the value `divi` returns when the larger operand is `≤ 1`) -/
theorem atani_at_zero : atani .checked 0 = .ok 0 := atani_zero

/-- whenever the checked build of `atani` returns a value (for any argument at all), the release build returns
    the same value: the release build never wraps silently where the checked build would not panic -/
theorem atani_release_eq_checked {x v : Int} (h : atani .checked x = .ok v) : atani .release x = .ok v :=
  atani_release h

/-- the ends of the table -/
example : atani .checked (0 * 2 ^ 15 + 2 ^ 14) = .ok 5215 := atanQ_0
example : atani .checked (65536 * 2 ^ 15 + 2 ^ 14) = .ok (2 ^ 29 + 2599) := atanQ_65536
/-- outside the range that `divi` now produces, `atani` does overflow: the old quotient of `(3,3)` -/
example : atani .checked (98304 * 2 ^ 15 + 2 ^ 14) = .error ⟨"atan2.rs:22 x * x"⟩ := by decide +kernel

/-! ## 3. totality -/

/-- No input makes `atan2` panic or overflow: for EVERY `i32` pair the checked model returns a value, and it is
    an `i32`. -/
theorem atan2_total {y x : Int} (hy : inI 32 y = true) (hx : inI 32 x = true) :
    ∃ r, atan2 .checked y x = .ok r ∧ inI 32 r = true := by
  obtain ⟨r0, _, h0, h1, _, _, _, hv⟩ := atan2_val hy hx
  refine ⟨_, hv .checked, ?_⟩
  unfold atanMax at h1
  rw [inI_iff]
  simp only [unfoldOct, Nat.reduceSub]
  split <;> split <;> split <;> omega

/-- `atan2` never panics (checked build), for every `i32` pair -/
theorem atan2_never_panics {y x : Int} (hy : inI 32 y = true) (hx : inI 32 x = true) (e : Panic) :
    atan2 .checked y x ≠ .error e := by
  obtain ⟨r, hr, _⟩ := atan2_total hy hx
  rw [hr]; intro h; cases h

/-- The release build (wrapping arithmetic, no debug assertions) returns exactly the value of the checked build,
    for every `i32` pair: no operation wraps. -/
theorem atan2_release_eq_checked {y x : Int} (hy : inI 32 y = true) (hx : inI 32 x = true) :
    atan2 .release y x = atan2 .checked y x := by
  obtain ⟨r0, _, _, _, _, _, _, hv⟩ := atan2_val hy hx
  rw [hv .release, hv .checked]

/-- `atan2(0, 0) = 0` -/
theorem atan2_zero_zero : atan2 .checked 0 0 = .ok 0 := by decide +kernel

/-- the formerly defective pairs `(±3, ±3)`: now the diagonal value `2^29 + 2599` in each quadrant, in both
    build modes (before the fix: panic in the checked build, `-738580716` etc. in the release build) -/
theorem atan2_repaired_witness :
    atan2 .checked 3 3 = .ok (2 ^ 29 + 2599) ∧ atan2 .checked 3 (-3) = .ok (2 ^ 31 - 1 - (2 ^ 29 + 2599)) ∧
    atan2 .checked (-3) 3 = .ok (-1 - (2 ^ 29 + 2599)) ∧
    atan2 .checked (-3) (-3) = .ok (-(2 ^ 31) + (2 ^ 29 + 2599)) ∧
    atan2 .release 3 3 = .ok (2 ^ 29 + 2599) := by decide +kernel

/-- `i32::MIN` operands are handled by saturation (examples; they are instances of `atan2_total`) -/
example : atan2 .checked (-2 ^ 31) (-2 ^ 31) = .ok (-1610615353) := by decide +kernel
example : atan2 .checked (-2 ^ 31) 0 = .ok (-1073736609) := by decide +kernel
example : atan2 .checked 0 (-2 ^ 31) = .ok 2147478432 := by decide +kernel
example : atan2 .checked (-2 ^ 31) (2 ^ 31 - 1) = .ok (-536868296) := by decide +kernel
/-- the hypotheses of `atan2_total` are satisfiable at a non-trivial point -/
example : inI 32 (-2 ^ 31) = true ∧ inI 32 (2 ^ 31 - 1) = true := by decide
/-- small diagonal points (tolerance `1/max(|x|,|y|)` rad): `(1,1) ↦ 0`, all others `2^29 + 2599` -/
example : atan2 .checked 1 1 = .ok 0 ∧ atan2 .checked 2 2 = .ok (2 ^ 29 + 2599) ∧
    atan2 .checked 5 5 = .ok (2 ^ 29 + 2599) := by decide +kernel

/-! ## 4. the XOR re-expansion -/

/-- For a first-octant value `0 ≤ r < 2^30`, XOR with each of the eight reachable masks, reinterpreted as `i32`,
    is the corresponding composition of complements. -/
theorem atan2_xor_masks {r : Int} (h0 : 0 ≤ r) (h1 : r < 2 ^ 30) :
    wrapI 32 (xorU32 r 0) = r ∧
    wrapI 32 (xorU32 r (2 ^ 30 - 1)) = 2 ^ 30 - 1 - r ∧
    wrapI 32 (xorU32 r (2 ^ 31 - 1)) = 2 ^ 31 - 1 - r ∧
    wrapI 32 (xorU32 r (2 ^ 30)) = 2 ^ 30 + r ∧
    wrapI 32 (xorU32 r (2 ^ 32 - 1)) = -1 - r ∧
    wrapI 32 (xorU32 r (2 ^ 32 - 2 ^ 30)) = -(2 ^ 30) + r ∧
    wrapI 32 (xorU32 r (2 ^ 31)) = -(2 ^ 31) + r ∧
    wrapI 32 (xorU32 r (2 ^ 31 + 2 ^ 30 - 1)) = -(2 ^ 30) - 1 - r := by
  have m0 : octMask false false false = 0 := by decide
  have m1 : octMask false false true = 2 ^ 30 - 1 := by decide
  have m2 : octMask false true false = 2 ^ 31 - 1 := by decide
  have m3 : octMask false true true = 2 ^ 30 := by decide
  have m4 : octMask true false false = 2 ^ 32 - 1 := by decide
  have m5 : octMask true false true = 2 ^ 32 - 2 ^ 30 := by decide
  have m6 : octMask true true false = 2 ^ 31 := by decide
  have m7 : octMask true true true = 2 ^ 31 + 2 ^ 30 - 1 := by decide
  have u := fun ny nx sw => xor_unfold h0 h1 ny nx sw
  have u0 := u false false false
  have u1 := u false false true
  have u2 := u false true false
  have u3 := u false true true
  have u4 := u true false false
  have u5 := u true false true
  have u6 := u true true false
  have u7 := u true true true
  rw [m0] at u0; rw [m1] at u1; rw [m2] at u2; rw [m3] at u3
  rw [m4] at u4; rw [m5] at u5; rw [m6] at u6; rw [m7] at u7
  simp only [unfoldOct, if_true, Bool.false_eq_true, if_false] at u0 u1 u2 u3 u4 u5 u6 u7
  refine ⟨u0, u1, u2, ?_, u4, ?_, ?_, ?_⟩
  · rw [u3]; omega
  · rw [u5]; omega
  · rw [u6]; omega
  · rw [u7]; omega

/-- The masks `atan2` reaches are exactly those eight (by sign of `y`, sign of `x`, swap). -/
example : octMask false false false = 0 ∧ octMask false false true = 2 ^ 30 - 1 ∧
    octMask false true false = 2 ^ 31 - 1 ∧ octMask false true true = 2 ^ 30 ∧
    octMask true false false = 2 ^ 32 - 1 ∧ octMask true false true = 2 ^ 32 - 2 ^ 30 ∧
    octMask true true false = 2 ^ 31 ∧ octMask true true true = 2 ^ 31 + 2 ^ 30 - 1 := by decide

/-! ## 5. quadrant correctness (exact, no LSB slack needed) -/

/-- The four quadrants with their exact value ranges (the boundaries are strict: the result never sits on the
    wrong side of an axis, not even by one LSB). -/
theorem atan2_quadrant {y x r : Int} (hy : inI 32 y = true) (hx : inI 32 x = true)
    (h : atan2 .checked y x = .ok r) :
    (0 ≤ y → 0 ≤ x → 0 ≤ r ∧ r < 2 ^ 30) ∧
    (0 ≤ y → x < 0 → 2 ^ 30 < r ∧ r < 2 ^ 31) ∧
    (y < 0 → 0 ≤ x → -(2 ^ 30) ≤ r ∧ r < 0) ∧
    (y < 0 → x < 0 → -(2 ^ 31) ≤ r ∧ r < -(2 ^ 30) - 1) := by
  obtain ⟨r0, _, h0, h1, _, h5, _, hv⟩ := atan2_val hy hx
  have hr : r = _ := Except.ok.inj (h.symm.trans (hv .checked))
  have ⟨y0, y1⟩ := satAbs_range hy
  have ⟨x0, x1⟩ := satAbs_range hx
  have hsx := satAbs_of_in hx
  have hmax := Int.max_def (satAbs y) (satAbs x)
  unfold atanMax at h1
  have hsw : x < 0 → satAbs x < satAbs y → 5215 ≤ r0 := by
    intro hx0 hlt
    have hx1 : 1 ≤ satAbs x := by rw [hsx]; simp only [hx0, if_true]; split <;> omega
    exact h5 (by split at hmax <;> omega)
  subst hr
  refine ⟨fun hy0 hx0 => ?_, fun hy0 hx0 => ?_, fun hy0 hx0 => ?_, fun hy0 hx0 => ?_⟩
  · have ny : ¬ y < 0 := by omega
    have nx : ¬ x < 0 := by omega
    by_cases hlt : satAbs x < satAbs y <;>
      simp only [ny, nx, hlt, unfoldOct, decide_true, decide_false, if_true, if_false,
        Bool.false_eq_true] <;> omega
  · have ny : ¬ y < 0 := by omega
    have h5' := hsw hx0
    by_cases hlt : satAbs x < satAbs y <;>
      simp only [ny, hx0, hlt, unfoldOct, decide_true, decide_false, if_true, if_false,
        Bool.false_eq_true] <;> omega
  · have nx : ¬ x < 0 := by omega
    by_cases hlt : satAbs x < satAbs y <;>
      simp only [hy0, nx, hlt, unfoldOct, decide_true, decide_false, if_true, if_false,
        Bool.false_eq_true] <;> omega
  · have h5' := hsw hx0
    by_cases hlt : satAbs x < satAbs y <;>
      simp only [hy0, hx0, hlt, unfoldOct, decide_true, decide_false, if_true, if_false,
        Bool.false_eq_true] <;> omega

/-- The result is negative exactly when `y < 0`. -/
theorem atan2_sign {y x r : Int} (hy : inI 32 y = true) (hx : inI 32 x = true)
    (h : atan2 .checked y x = .ok r) : r < 0 ↔ y < 0 := by
  have := atan2_quadrant hy hx h
  omega

/-- The magnitude is at most a quarter turn exactly when `x ≥ 0`: `-2^30 ≤ r < 2^30 ↔ 0 ≤ x`. -/
theorem atan2_half_plane {y x r : Int} (hy : inI 32 y = true) (hx : inI 32 x = true)
    (h : atan2 .checked y x = .ok r) : (-(2 ^ 30) ≤ r ∧ r < 2 ^ 30) ↔ 0 ≤ x := by
  have := atan2_quadrant hy hx h
  omega

/-- On the positive x axis the result is the constant offset `5215` LSB (`≈ 7.6e-6` rad: inside the accuracy
    tolerance of C02, but not within 1 LSB of the axis), for EVERY `x ≥ 2`. -/
theorem atan2_axis_offset {x : Int} (h2 : 2 ≤ x) (hx : x < 2 ^ 31) : atan2 .checked 0 x = .ok 5215 := by
  have hx' : inI 32 x = true := by rw [inI_iff]; simp only [Nat.reduceSub]; omega
  obtain ⟨r0, _, _, _, _, _, h6, hv⟩ := atan2_val (y := 0) (by decide) hx'
  have s0 : satAbs 0 = 0 := by decide
  have sx : satAbs x = x := by rw [satAbs_of_in hx']; split <;> omega
  rw [s0, sx] at h6 hv
  have hmin := Int.min_def 0 x
  have hmax := Int.max_def 0 x
  have : r0 = 5215 := h6 (by split at hmin <;> omega) (by split at hmax <;> omega)
  rw [hv .checked, this]
  have d2 : decide (x < 0) = false := by simp; omega
  simp [unfoldOct, d2]

/-! ## 6. reflections (exact complements off the mirror line) -/

/-- Reflection about the x axis, `y ≠ 0` (and `-y` representable, i.e. `y ≠ i32::MIN`):
    `atan2(-y, x) = -1 - atan2(y, x)` — the exact reflection `-r`, to within one LSB. -/
theorem atan2_reflect_x_axis {y x r : Int} (hy : inI 32 y = true) (hny : inI 32 (-y) = true)
    (hx : inI 32 x = true) (hy0 : y ≠ 0) (h : atan2 .checked y x = .ok r) :
    atan2 .checked (-y) x = .ok (-1 - r) := by
  have hs := satAbs_neg hy hny
  obtain ⟨r0, e0, _, _, _, _, _, hv⟩ := atan2_val hy hx
  obtain ⟨r0', e0', _, _, _, _, _, hv'⟩ := atan2_val hny hx
  have e0c := e0' .checked
  rw [oct0_neg_y _ _ hy hny] at e0c
  have : r0' = r0 := Except.ok.inj (e0c.symm.trans (e0 .checked))
  subst this
  have hr : r = _ := Except.ok.inj (h.symm.trans (hv .checked))
  rw [hv' .checked, hr, hs]
  congr 1
  simp only [unfoldOct]
  by_cases hy1 : y < 0
  · have : ¬ (-y < 0) := by omega
    simp only [hy1, this, decide_true, decide_false, if_true, Bool.false_eq_true, if_false]; omega
  · have : -y < 0 := by omega
    simp only [hy1, this, decide_true, decide_false, if_true, Bool.false_eq_true, if_false]

/-- Reflection about the y axis, `x ≠ 0` (and `x ≠ i32::MIN`): `atan2(y, -x) = 2^31 - 1 - atan2(y, x)` reduced
    to `i32` — the exact reflection `2^31 - r` (half a turn minus `r`), to within one LSB. -/
theorem atan2_reflect_y_axis {y x r : Int} (hy : inI 32 y = true) (hx : inI 32 x = true)
    (hnx : inI 32 (-x) = true) (hx0 : x ≠ 0) (h : atan2 .checked y x = .ok r) :
    atan2 .checked y (-x) = .ok (wrapI 32 (2 ^ 31 - 1 - r)) ∧
    (0 ≤ y → atan2 .checked y (-x) = .ok (2 ^ 31 - 1 - r)) ∧
    (y < 0 → atan2 .checked y (-x) = .ok (-(2 ^ 31) - 1 - r)) := by
  have hs := satAbs_neg hx hnx
  obtain ⟨r0, e0, h0, h1, _, _, _, hv⟩ := atan2_val hy hx
  obtain ⟨r0', e0', _, _, _, _, _, hv'⟩ := atan2_val hy hnx
  have e0c := e0' .checked
  rw [oct0_neg_x _ _ hx hnx] at e0c
  have : r0' = r0 := Except.ok.inj (e0c.symm.trans (e0 .checked))
  subst this
  have hr : r = _ := Except.ok.inj (h.symm.trans (hv .checked))
  unfold atanMax at h1
  rw [hv' .checked, hr, hs]
  have key : ∀ (ny sw : Bool) (a b : Bool), a = !b →
      unfoldOct ny a sw r0' = (if ny then -(2 ^ 31) - 1 - unfoldOct ny b sw r0'
        else 2 ^ 31 - 1 - unfoldOct ny b sw r0') := by
    intro ny sw a b hab
    subst hab
    cases ny <;> cases b <;> cases sw <;> simp [unfoldOct] <;> omega
  have hflag : decide (-x < 0) = !decide (x < 0) := by
    by_cases hx1 : x < 0
    · have : ¬ (-x < 0) := by omega
      rw [decide_eq_true hx1, decide_eq_false this]; rfl
    · have : -x < 0 := by omega
      rw [decide_eq_false hx1, decide_eq_true this]; rfl
  have hk := key (decide (y < 0)) (decide (satAbs x < satAbs y)) _ _ hflag
  have hrange0 : ∀ ny nx sw : Bool, -(2 ^ 31) ≤ unfoldOct ny nx sw r0' ∧ unfoldOct ny nx sw r0' < 2 ^ 31 ∧
      (ny = true → unfoldOct ny nx sw r0' < 0) ∧ (ny = false → 0 ≤ unfoldOct ny nx sw r0') := by
    intro ny nx sw
    cases ny <;> cases nx <;> cases sw <;> simp [unfoldOct] <;> omega
  have hrange : -(2 ^ 31) ≤ unfoldOct (decide (y < 0)) (decide (x < 0)) (decide (satAbs x < satAbs y)) r0' ∧
      unfoldOct (decide (y < 0)) (decide (x < 0)) (decide (satAbs x < satAbs y)) r0' < 2 ^ 31 ∧
      (y < 0 → unfoldOct (decide (y < 0)) (decide (x < 0)) (decide (satAbs x < satAbs y)) r0' < 0) ∧
      (0 ≤ y → 0 ≤ unfoldOct (decide (y < 0)) (decide (x < 0)) (decide (satAbs x < satAbs y)) r0') := by
    obtain ⟨a, b, c, d⟩ := hrange0 (decide (y < 0)) (decide (x < 0)) (decide (satAbs x < satAbs y))
    exact ⟨a, b, fun hy1 => c (decide_eq_true hy1), fun hy1 => d (decide_eq_false (by omega))⟩
  generalize unfoldOct (decide (y < 0)) (decide (x < 0)) (decide (satAbs x < satAbs y)) r0' = v at hk hrange
  rw [hk]
  obtain ⟨v0, v1, vneg, vpos⟩ := hrange
  refine ⟨?_, ?_, ?_⟩
  · congr 1
    by_cases hy1 : y < 0
    · have := vneg hy1
      simp only [hy1, decide_true, if_true, wrapI, Nat.reduceSub]; omega
    · have := vpos (by omega)
      simp only [hy1, decide_false, Bool.false_eq_true, if_false, wrapI, Nat.reduceSub]; omega
  · intro hy1
    have : ¬ y < 0 := by omega
    simp only [this, decide_false, Bool.false_eq_true, if_false]
  · intro hy1
    simp only [hy1, decide_true, if_true]

/-- Reflection about the diagonal, `|y| ≠ |x|`: `atan2(x, y) = 2^30 - 1 - atan2(y, x)` reduced to `i32` — the
    exact reflection `2^30 - r` (a quarter turn minus `r`), to within one LSB. -/
theorem atan2_reflect_diagonal {y x r : Int} (hy : inI 32 y = true) (hx : inI 32 x = true)
    (hne : satAbs y ≠ satAbs x) (h : atan2 .checked y x = .ok r) :
    atan2 .checked x y = .ok (wrapI 32 (2 ^ 30 - 1 - r)) := by
  obtain ⟨r0, e0, h0, h1, _, _, _, hv⟩ := atan2_val hy hx
  obtain ⟨r0', e0', _, _, _, _, _, hv'⟩ := atan2_val hx hy
  have e0c := e0' .checked
  rw [oct0_swap] at e0c
  have : r0' = r0 := Except.ok.inj (e0c.symm.trans (e0 .checked))
  subst this
  have hr : r = _ := Except.ok.inj (h.symm.trans (hv .checked))
  unfold atanMax at h1
  rw [hv' .checked, hr]
  congr 1
  have hflag : decide (satAbs y < satAbs x) = !decide (satAbs x < satAbs y) := by
    by_cases hlt : satAbs x < satAbs y
    · have : ¬ satAbs y < satAbs x := by omega
      rw [decide_eq_true hlt, decide_eq_false this]; rfl
    · have : satAbs y < satAbs x := by omega
      rw [decide_eq_false hlt, decide_eq_true this]; rfl
  rw [hflag]
  generalize decide (y < 0) = ny
  generalize decide (x < 0) = nx
  generalize decide (satAbs x < satAbs y) = sw
  cases ny <;> cases nx <;> cases sw <;> simp [unfoldOct, wrapI] <;> omega

/-- `i32::MIN` has no negation; by saturation it behaves like `-i32::MAX`:
    `atan2(MIN, x) = -1 - atan2(MAX, x)` for every `x`. -/
theorem atan2_min_saturates {x r : Int} (hx : inI 32 x = true) (h : atan2 .checked (2 ^ 31 - 1) x = .ok r) :
    atan2 .checked (-(2 ^ 31)) x = .ok (-1 - r) := by
  have hmax : inI 32 (2 ^ 31 - 1) = true := by decide
  have hmin : inI 32 (-(2 ^ 31)) = true := by decide
  have s1 : satAbs (2 ^ 31 - 1) = 2 ^ 31 - 1 := by decide
  have s2 : satAbs (-(2 ^ 31)) = 2 ^ 31 - 1 := by decide
  obtain ⟨r0, e0, _, _, _, _, _, hv⟩ := atan2_val hmax hx
  obtain ⟨r0', e0', _, _, _, _, _, hv'⟩ := atan2_val hmin hx
  have e : oct0 .checked (-(2 ^ 31)) x = oct0 .checked (2 ^ 31 - 1) x := by unfold oct0; rw [s1, s2]
  have e0c := e0' .checked
  rw [e] at e0c
  have : r0' = r0 := Except.ok.inj (e0c.symm.trans (e0 .checked))
  subst this
  have hr : r = _ := Except.ok.inj (h.symm.trans (hv .checked))
  have d1 : decide ((-(2 ^ 31) : Int) < 0) = true := by decide
  have d2 : decide ((2 ^ 31 - 1 : Int) < 0) = false := by decide
  rw [hv' .checked, hr, s1, s2, d1, d2]
  simp only [unfoldOct, if_true, Bool.false_eq_true, if_false]

/-- All four half-axes (`a ≥ 2`): the result is the axis angle displaced by the constant `5215` LSB towards the
    interior of the octant that the code folds the point into. -/
theorem atan2_axes {a : Int} (h2 : 2 ≤ a) (ha : a < 2 ^ 31) :
    atan2 .checked 0 a = .ok 5215 ∧ atan2 .checked a 0 = .ok (2 ^ 30 - 1 - 5215) ∧
    atan2 .checked 0 (-a) = .ok (2 ^ 31 - 1 - 5215) ∧ atan2 .checked (-a) 0 = .ok (-(2 ^ 30) + 5215) := by
  have ia : inI 32 a = true := by rw [inI_iff]; simp only [Nat.reduceSub]; omega
  have ina : inI 32 (-a) = true := by rw [inI_iff]; simp only [Nat.reduceSub]; omega
  have i0 : inI 32 0 = true := by decide
  have s0 : satAbs 0 = 0 := by decide
  have sa : satAbs a = a := by rw [satAbs_of_in ia]; split <;> omega
  have h0 := atan2_axis_offset h2 ha
  have h1 := atan2_reflect_diagonal i0 ia (by rw [s0, sa]; omega) h0
  have w : wrapI 32 (2 ^ 30 - 1 - 5215) = 2 ^ 30 - 1 - 5215 := by decide
  rw [w] at h1
  have h3 := (atan2_reflect_y_axis i0 ia ina (by omega) h0).2.1 (by omega)
  have h4 := atan2_reflect_x_axis ia ina i0 (by omega) h1
  refine ⟨h0, h1, h3, ?_⟩
  rw [h4]; congr 1

/-- the hypotheses of the reflection theorems are satisfiable, and the conclusions are non-trivial -/
example : atan2 .checked 1000 3000 = .ok 219940176 ∧ atan2 .checked (-1000) 3000 = .ok (-1 - 219940176) ∧
    atan2 .checked 1000 (-3000) = .ok (2 ^ 31 - 1 - 219940176) ∧
    atan2 .checked 3000 1000 = .ok (2 ^ 30 - 1 - 219940176) := by decide +kernel

/-! ### the literal reflection clause fails on the mirror lines (known finding) -/

/-- reflection about the x axis to within one LSB, for all inputs (the literal C02 clause) … -/
def atan2_reflect_x_axis_full : Prop :=
  ∀ y x r r' : Int, inI 32 y = true → inI 32 (-y) = true → inI 32 x = true →
    atan2 .checked y x = .ok r → atan2 .checked (-y) x = .ok r' → -1 ≤ r + r' ∧ r + r' ≤ 1

/-- … fails on the axis itself: `atan2(0, 2) = 5215`, which is its own mirror image -/
theorem atan2_reflect_x_axis_full_false : ¬ atan2_reflect_x_axis_full := by
  intro h
  have e : atan2 .checked 0 2 = .ok 5215 := by decide +kernel
  have := h 0 2 5215 5215 (by decide) (by decide) (by decide) e e
  omega

/-- reflection about the y axis to within one LSB, for all inputs … -/
def atan2_reflect_y_axis_full : Prop :=
  ∀ y x r r' : Int, inI 32 y = true → inI 32 x = true → inI 32 (-x) = true →
    atan2 .checked y x = .ok r → atan2 .checked y (-x) = .ok r' →
    -1 ≤ wrapI 32 (r + r' - 2 ^ 31) ∧ wrapI 32 (r + r' - 2 ^ 31) ≤ 1

/-- … fails on the y axis: `atan2(2, 0) = 2^30 - 1 - 5215` -/
theorem atan2_reflect_y_axis_full_false : ¬ atan2_reflect_y_axis_full := by
  intro h
  have e : atan2 .checked 2 0 = .ok 1073736608 := by decide +kernel
  have := h 2 0 1073736608 1073736608 (by decide) (by decide) (by decide) e e
  have w : wrapI 32 (1073736608 + 1073736608 - 2 ^ 31) = -10432 := by decide
  rw [w] at this
  omega

/-- reflection about the diagonal to within one LSB, for all inputs … -/
def atan2_reflect_diagonal_full : Prop :=
  ∀ y x r r' : Int, inI 32 y = true → inI 32 x = true →
    atan2 .checked y x = .ok r → atan2 .checked x y = .ok r' →
    -1 ≤ wrapI 32 (r + r' - 2 ^ 30) ∧ wrapI 32 (r + r' - 2 ^ 30) ≤ 1

/-- … fails on the diagonal: `atan2(2, 2) = 2^29 + 2599` -/
theorem atan2_reflect_diagonal_full_false : ¬ atan2_reflect_diagonal_full := by
  intro h
  have e : atan2 .checked 2 2 = .ok 536873511 := by decide +kernel
  have := h 2 2 536873511 536873511 (by decide) (by decide) e e
  have w : wrapI 32 (536873511 + 536873511 - 2 ^ 30) = 5198 := by decide
  rw [w] at this
  omega

end Idsp
