import IdspModel.Lemmas.NumMul
/-!
# C05 — the fixed-point accumulate-and-quantise primitive, scaled multiplication and division are exact

Model: `IdspModel/Model/Num.lean` (`impl_int!(T, U, A, Q)` of `src/num.rs`), parametric in the sample width `w`
and the number of fractional bits `q`; `ONE = 2^q`, `G = w - q` guard bits, accumulator `2w` bits.
The four instances are `(w, q) = (8,6), (16,14), (32,30), (64,62)`; every theorem below is proved for all
`0 < w`, `q ≤ w` (resp. `0 < q < w`), which covers them (see the `example`s).
`Int` `/` and `%` are floor division and non-negative remainder for the positive divisor `2^q`.
Property theorems only (helper lemmas live in `IdspModel/Lemmas/Num*.lean`).
-/
namespace Idsp

/-- `clip` is the mathematical clamp: the result lies within `[mn, mx]` when `mn ≤ mx`, and values already
    inside are returned unchanged. -/
theorem clip_spec (x mn mx : Int) :
    (mn ≤ mx → mn ≤ clip x mn mx ∧ clip x mn mx ≤ mx) ∧ (mn ≤ x → x ≤ mx → clip x mn mx = x) := by
  unfold clip
  constructor
  · intro h; split <;> [skip; split] <;> omega
  · intro h1 h2; rw [if_neg (by omega), if_neg (by omega)]

/-- **macc is exact** (either build profile `m`).  For an in-range offset `u`, aligned in-range limits, a previous
    remainder `0 ≤ e1 < ONE` and an accumulator input `s` such that the exact total `T = s + u·ONE + e1` fits the
    `2w`-bit accumulator, `macc` returns `(clamp(⌊T/ONE⌋, mn, mx), T mod ONE)`: the remainder is in `[0, ONE)` and
    `⌊T/ONE⌋·ONE + remainder = T`, so the quantisation error is carried forward exactly.
    (`mn ≤ mx` is not needed for this equation; with it the output lies in `[mn, mx]`, see `clip_spec`.) -/
theorem macc_exact (m : Mode) (w q : Nat) (hw : 0 < w) (hq : q ≤ w) (u s mn mx e1 : Int)
    (hu : inI w u = true) (hmn : inI w mn = true) (hmx : inI w mx = true)
    (amn : mn % 2 ^ (w - q) = 0) (amx : mx % 2 ^ (w - q) = 2 ^ (w - q) - 1)
    (he0 : 0 ≤ e1) (he1 : e1 < 2 ^ q) (hT : inI (2 * w) (s + u * 2 ^ q + e1) = true) :
    let T := s + u * 2 ^ q + e1
    macc m w q u s mn mx e1 = .ok (clip (T / 2 ^ q) mn mx, T % 2 ^ q) ∧
    0 ≤ T % 2 ^ q ∧ T % 2 ^ q < 2 ^ q ∧ T / 2 ^ q * 2 ^ q + T % 2 ^ q = T := by
  intro T
  have hP := two_pow_pos q
  refine ⟨macc_eq_of_fit m hw hq hu hmn hmx amn amx he0 he1 hT, Int.emod_nonneg _ (by omega),
    Int.emod_lt_of_pos _ hP, ?_⟩
  have := Int.emod_add_mul_ediv T (2 ^ q)
  rw [Int.mul_comm] at this; omega

/-- `macc_exact` spelled out for the four sample types of the crate (i8/Q2.6, i16/Q2.14, i32/Q2.30, i64/Q2.62) -/
theorem macc_exact_instances (m : Mode) (w q : Nat)
    (hwq : (w, q) = (8, 6) ∨ (w, q) = (16, 14) ∨ (w, q) = (32, 30) ∨ (w, q) = (64, 62)) (u s mn mx e1 : Int)
    (hu : inI w u = true) (hmn : inI w mn = true) (hmx : inI w mx = true)
    (amn : mn % 2 ^ 2 = 0) (amx : mx % 2 ^ 2 = 2 ^ 2 - 1)
    (he0 : 0 ≤ e1) (he1 : e1 < 2 ^ q) (hT : inI (2 * w) (s + u * 2 ^ q + e1) = true) :
    macc m w q u s mn mx e1 =
      .ok (clip ((s + u * 2 ^ q + e1) / 2 ^ q) mn mx, (s + u * 2 ^ q + e1) % 2 ^ q) := by
  rcases hwq with h | h | h | h <;> cases h <;>
    exact (macc_exact m _ _ (by decide) (by decide) u s mn mx e1 hu hmn hmx amn amx he0 he1 hT).1

/-- the four instances satisfy the side conditions of `macc_exact`; a non-trivial concrete evaluation:
    `u = 5, s = 100, e1 = 35` on `i8`: `T = 100 + 320 + 35 = 455 = 7·64 + 7`. -/
example : (0 < 8 ∧ 6 ≤ 8) ∧ (0 < 16 ∧ 14 ≤ 16) ∧ (0 < 32 ∧ 30 ≤ 32) ∧ (0 < 64 ∧ 62 ≤ 64) := by decide
example : macc .checked 8 6 5 100 (-128) 127 35 = .ok (7, 7) := by decide
example : macc .checked 8 6 5 20000 (-128) 127 35 = .ok (127, (20000 + 320 + 35) % 64) := by decide

/-- **Release profile, wrapping accumulation.**  With overflow checks off the accumulation `s += …` wraps, so for
    EVERY `s` (no fit hypothesis) the result is the clamp/remainder of the total reduced to `2w` bits. -/
theorem macc_release_wrap (w q : Nat) (hw : 0 < w) (hq : q ≤ w) (u s mn mx e1 : Int)
    (hu : inI w u = true) (hmn : inI w mn = true) (hmx : inI w mx = true)
    (amn : mn % 2 ^ (w - q) = 0) (amx : mx % 2 ^ (w - q) = 2 ^ (w - q) - 1)
    (he0 : 0 ≤ e1) (he1 : e1 < 2 ^ q) :
    let T := wrapI (2 * w) (s + u * 2 ^ q + e1)
    macc .release w q u s mn mx e1 = .ok (clip (T / 2 ^ q) mn mx, T % 2 ^ q) := by
  intro T
  rw [macc_release hw, maccOff_eq hw hq hu he0 he1, ← Int.add_assoc,
    maccPost_eq hw hq (wrapI_in (by omega) _) hmn hmx amn amx]

/-- **Checked profile panics when the total does not fit**: with overflow checks on, the accumulation
    `s += …` panics if `s + u·ONE + e1` leaves the accumulator range (complementing `macc_exact`). -/
theorem macc_checked_overflow (w q : Nat) (hw : 0 < w) (hq : q ≤ w) (u s mn mx e1 : Int)
    (hu : inI w u = true) (he0 : 0 ≤ e1) (he1 : e1 < 2 ^ q)
    (hT : inI (2 * w) (s + u * 2 ^ q + e1) = false) :
    macc .checked w q u s mn mx e1 = .error ⟨"num.rs:104 s +="⟩ := by
  rw [macc_unfold, maccOff_eq hw hq hu he0 he1, ← Int.add_assoc]
  simp [arithI, hT, bind, Except.bind]

/-- **Arbitrary `e1`** (not a remainder, e.g. a user-initialised fifth state word).  The offset term is then
    `(u >> G)·2^w + ((u mod 2^G)·ONE  bit-or  (e1 mod 2^w))`: `e1` is read as an UNSIGNED `w`-bit number and
    combined by a genuine bitwise or with the two low guard bits of `u`.  With that total `T` fitting, the result
    is again `(clamp(⌊T/ONE⌋), T mod ONE)`. -/
theorem macc_any_e1 (m : Mode) (w q : Nat) (hw : 0 < w) (hq : q ≤ w) (u s mn mx e1 : Int)
    (hu : inI w u = true) (hmn : inI w mn = true) (hmx : inI w mx = true)
    (amn : mn % 2 ^ (w - q) = 0) (amx : mx % 2 ^ (w - q) = 2 ^ (w - q) - 1)
    (hT : inI (2 * w) (s + (u / 2 ^ (w - q) * 2 ^ w + lorU (u % 2 ^ (w - q) * 2 ^ q) (e1 % 2 ^ w))) = true) :
    let T := s + (u / 2 ^ (w - q) * 2 ^ w + lorU (u % 2 ^ (w - q) * 2 ^ q) (e1 % 2 ^ w))
    macc m w q u s mn mx e1 = .ok (clip (T / 2 ^ q) mn mx, T % 2 ^ q) := by
  intro T
  have : maccOff w q u e1 = u / 2 ^ (w - q) * 2 ^ w + lorU (u % 2 ^ (w - q) * 2 ^ q) (e1 % 2 ^ w) :=
    macc_offset_general w q hw hq u e1 hu
  rw [macc_unfold, this, arithI_ok_of_in hT]
  simp only [amn, amx, decide_true, dbgAssert_true, bind, Except.bind]
  rw [maccPost_eq hw hq hT hmn hmx amn amx]

/-- a negative `e1` acts as a large positive one: `e1 = -1` on `i8` contributes `255/64`, not `-1/64` -/
example : macc .checked 8 6 0 0 (-128) 127 (-1) = .ok (3, 63) := by decide

/-- **Scaled multiplication** (either profile): for in-range operands the accumulator never overflows and the
    result is the exact product over `ONE` rounded half-up (`⌊(a·b + ONE/2)/ONE⌋`) reduced to `w` bits; it IS that
    value whenever the value is representable. -/
theorem mul_scaled_exact (m : Mode) (w q : Nat) (hq0 : 0 < q) (hq : q < w) (a b : Int)
    (ha : inI w a = true) (hb : inI w b = true) :
    mulScaled m w q a b = .ok (wrapI w ((a * b + 2 ^ (q - 1)) / 2 ^ q)) ∧
    (inI w ((a * b + 2 ^ (q - 1)) / 2 ^ q) = true →
      mulScaled m w q a b = .ok ((a * b + 2 ^ (q - 1)) / 2 ^ q)) := by
  have h := mulScaled_eq m hq0 hq ha hb
  exact ⟨h, fun hin => by rw [h, wrapI_of_in (by omega) hin]⟩

/-- `ONE/2` really is half of `ONE`, so the rounding above is round-half-up -/
theorem half_one (q : Nat) (hq0 : 0 < q) : 2 * (2 : Int) ^ (q - 1) = 2 ^ q := (two_pow_succ_pred hq0).symm

/-- the product over `ONE` is not always representable (then the result wraps): `(-2.0)·(-2.0) = 4.0` on `i8` -/
example : mulScaled .checked 8 6 (-128) (-128) = .ok 0 := by decide

/-- **Multiplying by `ONE` is the identity** for every in-range value, in both operand orders. -/
theorem mul_scaled_one (m : Mode) (w q : Nat) (hq0 : 0 < q) (hq : q < w) (x : Int) (hx : inI w x = true) :
    mulScaled m w q x (oneQ q) = .ok x ∧ mulScaled m w q (oneQ q) x = .ok x := by
  have hw : 0 < w := by omega
  have hP := two_pow_pos q
  have hr := two_pow_pos (q - 1)
  have h2 := two_pow_succ_pred hq0
  have hin1 := inI_mul_one (Nat.le_of_lt hq) hx
  have hin2 : inI (2 * w) (2 ^ (q - 1) + x * 2 ^ q) = true := by
    have ⟨h0, h1⟩ := inI_iff.mp hx
    have hle : (2 : Int) ^ q ≤ 2 ^ w := two_pow_mono (Nat.le_of_lt hq)
    have hH := two_pow_pos (w - 1)
    rw [inI_iff, two_pow_two_mul_pred hw]
    constructor <;> nlinarith
  have hv : (2 ^ (q - 1) + x * 2 ^ q) / 2 ^ q = x := by
    rw [Int.add_mul_ediv_right _ _ (by omega), half_div hq0]; omega
  have h1 : mulScaled m w q x (oneQ q) = .ok x := by
    unfold mulScaled oneQ
    rw [arithI_ok_of_in hin1, ok_bind, arithI_ok_of_in hin2, ok_bind]
    show Except.ok (wrapI w ((2 ^ (q - 1) + x * 2 ^ q) / 2 ^ q)) = _
    rw [hv, wrapI_of_in hw hx]
  refine ⟨h1, ?_⟩
  unfold mulScaled oneQ at h1 ⊢
  rwa [Int.mul_comm]

/-- **Scaled division**: a zero divisor panics (in every profile); for a non-zero divisor and in-range dividend
    the result is the exact quotient `a·ONE / b` truncated toward zero, reduced to `w` bits, and IS the truncated
    quotient whenever that is representable. -/
theorem div_scaled_exact (w q : Nat) (hw : 0 < w) (hq : q ≤ w) (a b : Int) (ha : inI w a = true) :
    (b = 0 → divScaled w q a b = .error ⟨"num.rs:131 division by zero"⟩) ∧
    (b ≠ 0 → divScaled w q a b = .ok (wrapI w (Int.tdiv (a * 2 ^ q) b))) ∧
    (b ≠ 0 → inI w (Int.tdiv (a * 2 ^ q) b) = true → divScaled w q a b = .ok (Int.tdiv (a * 2 ^ q) b)) := by
  refine ⟨fun h => by simp [divScaled, h], fun h => divScaled_eq hw hq ha h, fun h hin => ?_⟩
  rw [divScaled_eq hw hq ha h, wrapI_of_in hw hin]

/-- truncation toward zero, not floor: `-1/3` in Q2.6 is `-64/3 → -21` -/
example : divScaled 8 6 (-1) 3 = .ok (-21) ∧ divScaled 8 6 1 (-3) = .ok (-21) := by decide
/-- an unrepresentable quotient wraps: `1.0 / (1/64)` on `i8` -/
example : divScaled 8 6 64 1 = .ok 0 := by decide

/-- **`-2` is exactly representable** with two guard bits: `-2·ONE` is the type minimum (so in range), while `+2·ONE`
    is not representable; and `2·NEG_ONE` computed at the type width gives `-2·ONE` without wrapping. -/
theorem neg_two_representable (w q : Nat) (hq : q + 2 = w) :
    -2 * (2 : Int) ^ q = minI w ∧ inI w (-2 * 2 ^ q) = true ∧ inI w (2 * 2 ^ q) = false ∧
    wrapI w (2 * negOneQ q) = -(2 ^ (q + 1)) := by
  have hw : w - 1 = q + 1 := by omega
  have hP := two_pow_pos q
  have h1 : (2 : Int) ^ (q + 1) = 2 ^ q * 2 := Int.pow_succ ..
  have hmin : -2 * (2 : Int) ^ q = minI w := by unfold minI; rw [hw, h1]; omega
  have hin : inI w (-2 * 2 ^ q) = true := by rw [inI_iff, hw, h1]; omega
  refine ⟨hmin, hin, ?_, ?_⟩
  · simp only [inI, hw, h1, Bool.and_eq_false_iff, decide_eq_false_iff_not]; right; omega
  · unfold negOneQ
    rw [show 2 * -(2 : Int) ^ q = -2 * 2 ^ q by omega, wrapI_of_in (by omega) hin, h1]; omega

/-- the four instances -/
example : inI 8 (-2 * 2 ^ 6) = true ∧ inI 16 (-2 * 2 ^ 14) = true ∧ inI 32 (-2 * 2 ^ 30) = true ∧
    inI 64 (-2 * 2 ^ 62) = true := by decide

end Idsp
