import IdspModel.Rust
import IdspModel.Model.CossinTable
/-! Model of `src/cossin.rs`. -/
namespace Idsp

def cossinDepth : Nat := 7
def alignMsb : Nat := 15
def PI4 : Int := 51471

/-- the first-octant core: input is the 22-bit field `(phase << 3) >> 10` (0 ≤ field < 2^22);
    returns the un-mapped `(cos, sin)`. All intermediate products fit `i32` (proved in Props). -/
def cossinCore (m : Mode) (field : Int) : R (Int × Int) := do
  let lookup := cossinTable.getD (shr field alignMsb).toNat 0
  let ph0 := field % 2 ^ alignMsb
  let ph ← arithI m 32 "cossin.rs:35 phase -= 1 << (ALIGN_MSB - 1)" (ph0 - 2 ^ (alignMsb - 1))
  let p ← arithI m 32 "cossin.rs:44 phase * PI4" (ph * PI4)
  let dphi := shr p 16
  let cos0 ← arithI m 32 "cossin.rs:48 (lookup & 0xffff) as i32 + (1 << 16)" (lookup % 2 ^ 16 + 2 ^ 16)
  let sin0 := wrapI 32 (shr lookup 16)
  let pc ← arithI m 32 "cossin.rs:51 sin * dphi" (sin0 * dphi)
  let dcos := shr pc cossinDepth
  let ps ← arithI m 32 "cossin.rs:52 cos * dphi" (cos0 * dphi)
  let dsin := shr ps (cossinDepth + 1)
  let cos ← arithI m 32 "cossin.rs:54 (cos << 14) - dcos" (wrapI 32 (cos0 * 2 ^ (alignMsb - 1)) - dcos)
  let sin ← arithI m 32 "cossin.rs:55 (sin << 15) + dsin" (wrapI 32 (sin0 * 2 ^ alignMsb) + dsin)
  .ok (cos, sin)

/-- bit `i` of the unsigned image of a 32-bit word -/
def bitU32 (x : Int) (i : Nat) : Bool := decide ((shr (wrapU 32 x) i) % 2 = 1)

def cossin (m : Mode) (phase : Int) : R (Int × Int) := do
  -- phase = !phase when bit 29 is set
  let ph := if bitU32 phase 29 then -phase - 1 else phase
  -- (((phase as u32) << 3) >> 10)
  let field := shr (wrapU 32 (wrapU 32 ph * 8)) 10
  let (c, s) ← cossinCore m field
  -- octant ^= octant >> 1   (gray code of the top three bits)
  let o := wrapU 32 phase
  let b31 := bitU32 o 31
  let b30 := bitU32 o 30 != bitU32 o 31
  let b29 := bitU32 o 29 != bitU32 o 30
  let (c, s) := if b29 then (s, c) else (c, s)
  let c ← if b30 then arithI m 32 "cossin.rs:63 cos = -cos" (-c) else pure c
  let s ← if b31 then arithI m 32 "cossin.rs:66 sin = -sin" (-s) else pure s
  .ok (c, s)

end Idsp
