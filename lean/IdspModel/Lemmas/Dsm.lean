import IdspModel.Model.Dsm
import IdspModel.Lemmas.Basic
/-!
Helper definitions and lemmas for C16 (`Dsm`, MASH-1^K delta-sigma modulator).  Core Lean only.

* `dsmNewAccs` / `dsmCarries`: the accumulator chain as pure functions; `dsmAccs_eq`: for `K ≤ 7` the packed
  carry word `d` of the model is the little-endian number `dsmOfBits` of the reversed carry list (no i8 wrap).
* `dsmDiffSpec` / `dsmMash` / `dsmStepSpec`: the differentiator fold in unbounded integers without any range
  check; `dsmDiffs_ok`, `dsm_update_ok`: under the range invariant `DsmInv` the model never leaves `i8`, hence
  returns exactly the unbounded value in both modes and preserves the invariant.
* `mashU`: the MASH recursion by index; `dsmDiffSpec_mashU`: the fold computes it.
* `dsmErr`, `dsmStepSpec_err`, `dsmErr_bound`: the telescoping error potential.
* `Dsm.run`, `dsmSpecRun`, `dsm_run_ok`, `dsmSpecRun_err`, `dsm_run_append`: whole input sequences.
* `dsmOutRange`, `dsm_update_k0`, `dsm_run_k0`, `dsmSpecRun_k0`, `dsmInv_k0`: the degenerate order `K = 0`
  (model after the upstream fix "Dsm::<0>::update underflowed on K - 1": `take(K.saturating_sub(1))`).
-/
namespace Idsp

/-- little-endian value of a bit list -/
def dsmOfBits : List Int → Int
  | [] => 0
  | b :: bs => b + 2 * dsmOfBits bs

def DsmIsBits (l : List Int) : Prop := ∀ b ∈ l, b = 0 ∨ b = 1

theorem DsmIsBits.cons {b : Int} {l : List Int} (hb : b = 0 ∨ b = 1) (h : DsmIsBits l) : DsmIsBits (b :: l) := by
  intro z hz
  rcases List.mem_cons.mp hz with rfl | hz
  · exact hb
  · exact h z hz

theorem DsmIsBits.tail {b : Int} {l : List Int} (h : DsmIsBits (b :: l)) : DsmIsBits l :=
  fun z hz => h z (List.mem_cons_of_mem _ hz)

theorem DsmIsBits.head {b : Int} {l : List Int} (h : DsmIsBits (b :: l)) : b = 0 ∨ b = 1 :=
  h b List.mem_cons_self

theorem dsmOfBits_bound {l : List Int} (h : DsmIsBits l) : 0 ≤ dsmOfBits l ∧ dsmOfBits l < 2 ^ l.length := by
  induction l with
  | nil => simp [dsmOfBits]
  | cons b bs ih =>
    have := ih h.tail
    have hb := h.head
    simp only [dsmOfBits, List.length_cons, Int.pow_succ]
    omega

theorem dsm_b2i_bit (p : Bool) : b2i p = 0 ∨ b2i p = 1 := by
  cases p <;> simp [b2i]

/-- new accumulators of the chain (exact `mod 2^32`) -/
def dsmNewAccs : List Int → Int → List Int
  | [], _ => []
  | a :: as, x => wrapU 32 (a + x) :: dsmNewAccs as (wrapU 32 (a + x))

/-- carries of the chain, first stage first -/
def dsmCarries : List Int → Int → List Int
  | [], _ => []
  | a :: as, x => b2i (decide (a + x ≥ 2 ^ 32)) :: dsmCarries as (wrapU 32 (a + x))

theorem dsmCarries_length (as : List Int) (x : Int) : (dsmCarries as x).length = as.length := by
  induction as generalizing x with
  | nil => rfl
  | cons a as ih => simp [dsmCarries, ih]

theorem dsmNewAccs_length (as : List Int) (x : Int) : (dsmNewAccs as x).length = as.length := by
  induction as generalizing x with
  | nil => rfl
  | cons a as ih => simp [dsmNewAccs, ih]

theorem dsmCarries_bits (as : List Int) (x : Int) : DsmIsBits (dsmCarries as x) := by
  induction as generalizing x with
  | nil => intro b hb; cases hb
  | cons a as ih => exact DsmIsBits.cons (dsm_b2i_bit _) (ih _)

theorem dsmAccs_eq (as : List Int) (x : Int) (acc : List Int) (hacc : DsmIsBits acc)
    (hlen : as.length + acc.length ≤ 7) :
    dsmAccs as x (dsmOfBits acc) = (dsmNewAccs as x, dsmOfBits ((dsmCarries as x).reverse ++ acc)) := by
  induction as generalizing x acc with
  | nil => simp [dsmAccs, dsmNewAccs, dsmCarries]
  | cons a as ih =>
    simp only [dsmAccs, dsmNewAccs, dsmCarries, List.reverse_cons, List.append_assoc,
      List.singleton_append]
    have hb := dsmOfBits_bound hacc
    have hc := dsm_b2i_bit (decide (a + x ≥ 2 ^ 32))
    have hp : (2 : Int) ^ acc.length ≤ 2 ^ 6 := two_pow_mono (by simp at hlen; omega)
    have h7 : (2 : Int) ^ (8 - 1) = 128 := by decide
    have h8 : (2 : Int) ^ 8 = 256 := by decide
    have h6 : (2 : Int) ^ 6 = 64 := by decide
    have hd : wrapI 8 (wrapI 8 (dsmOfBits acc * 2) + b2i (decide (a + x ≥ 2 ^ 32)))
        = dsmOfBits (b2i (decide (a + x ≥ 2 ^ 32)) :: acc) := by
      simp only [wrapI, dsmOfBits, h7, h8]
      omega
    rw [hd, ih _ _ (DsmIsBits.cons hc hacc) (by simp at hlen ⊢; omega)]
/-! ### the differentiator fold -/

/-- the differentiator fold in unbounded integers, no range checks: `bs` are the remaining carry bits
    (stage `K-1` first), `cs` the remaining memories, `y` the running value. -/
def dsmDiffSpec : List Int → List Int → Int → List Int × Int
  | [], cs, y => (cs, y)
  | _ :: _, [], y => ([], y)
  | b :: bs, c :: cs, y =>
    ((y :: (dsmDiffSpec bs cs (b + y - c)).1), (dsmDiffSpec bs cs (b + y - c)).2)

/-- range invariant of the differentiator memories from level `i` on: every memory is an `i8`, and every
    memory except the last (which the code never touches) lies in `1 - 2^i ..= 2^i` at its level `i`. -/
def DsmMemInv : Nat → List Int → Prop
  | _, [] => True
  | i, c :: cs => inI 8 c = true ∧ (cs ≠ [] → 1 - 2 ^ i ≤ c ∧ c ≤ 2 ^ i) ∧ DsmMemInv (i + 1) cs

theorem dsmDiffSpec_length (bs cs : List Int) (y : Int) (h : cs.length = bs.length + 1) :
    (dsmDiffSpec bs cs y).1.length = cs.length := by
  induction bs generalizing cs y with
  | nil => rfl
  | cons b bs ih =>
    match cs, h with
    | c :: cs, h =>
      simp only [dsmDiffSpec, List.length_cons]
      rw [ih cs _ (by simpa using h)]

theorem dsmOfBits_shr {b : Int} {bs : List Int} (hb : b = 0 ∨ b = 1) : shr (dsmOfBits (b :: bs)) 1 = dsmOfBits bs := by
  simp only [shr, dsmOfBits]; omega

theorem dsmOfBits_mod {b : Int} {bs : List Int} (hb : b = 0 ∨ b = 1) : dsmOfBits (b :: bs) % 2 = b := by
  simp only [dsmOfBits]; omega

theorem dsmDiffs_ok (m : Mode) (i : Nat) (b0 : Int) (bs cs : List Int) (y : Int)
    (hbits : DsmIsBits (b0 :: bs)) (hlen : cs.length = bs.length + 1) (hmem : DsmMemInv i cs)
    (hy : 1 - 2 ^ i ≤ y ∧ y ≤ 2 ^ i) (hi : i + bs.length ≤ 6) :
    dsmDiffs m bs.length cs (dsmOfBits (b0 :: bs)) y = .ok (dsmDiffSpec bs cs y) ∧
    DsmMemInv i (dsmDiffSpec bs cs y).1 ∧
    1 - 2 ^ (i + bs.length) ≤ (dsmDiffSpec bs cs y).2 ∧ (dsmDiffSpec bs cs y).2 ≤ 2 ^ (i + bs.length) := by
  induction bs generalizing i b0 cs y with
  | nil =>
    refine ⟨?_, hmem, by simpa [dsmDiffSpec] using hy.1, by simpa [dsmDiffSpec] using hy.2⟩
    simp [dsmDiffs, dsmDiffSpec]
  | cons b bs ih =>
    match cs, hlen, hmem with
    | c :: cs, hlen, hmem =>
      have hcs : cs ≠ [] := by
        intro h; subst h; simp at hlen
      obtain ⟨_, hc, hmem'⟩ := hmem
      have hc := hc hcs
      have hb0 := hbits.head
      have hb := hbits.tail.head
      have hi5 : i ≤ 5 := by simp at hi; omega
      have hp1 : (1 : Int) ≤ 2 ^ i := by have := two_pow_mono (Nat.zero_le i); simpa using this
      have hp5 : (2 : Int) ^ i ≤ 2 ^ 5 := two_pow_mono hi5
      have h5 : (2 : Int) ^ 5 = 32 := by decide
      have h7 : (2 : Int) ^ (8 - 1) = 128 := by decide
      have hs : (2 : Int) ^ (i + 1) = 2 * 2 ^ i := by rw [Int.pow_succ]; omega
      have ht : inI 8 (b + y) = true := by rw [inI_iff]; omega
      have hy' : inI 8 (b + y - c) = true := by rw [inI_iff]; omega
      have hyin : inI 8 y = true := by rw [inI_iff]; omega
      have := ih (i + 1) b cs (b + y - c) hbits.tail (by simpa using hlen) hmem' (by omega)
        (by simp at hi ⊢; omega)
      obtain ⟨e1, e2, e3, e4⟩ := this
      have hidx : i + 1 + bs.length = i + (b :: bs).length := by simp; omega
      rw [hidx] at e3 e4
      refine ⟨?_, ⟨hyin, fun _ => hy, e2⟩, e3, e4⟩
      simp only [List.length_cons, dsmDiffs, dsmOfBits_shr hb0, dsmOfBits_mod hb, arithI_ok_of_in ht,
        arithI_ok_of_in hy', bind, Except.bind, e1, dsmDiffSpec]
/-! ### one update step -/

/-- the exact differentiator result from the reversed carry list (last stage first) -/
def dsmMash : List Int → List Int → List Int × Int
  | [], cs => (cs, 0)
  | b0 :: bs, cs => dsmDiffSpec bs cs b0

/-- specification of one step in unbounded integers -/
def dsmStepSpec (s : Dsm) (x : Int) : Dsm × Int :=
  (⟨dsmNewAccs s.a x, (dsmMash (dsmCarries s.a x).reverse s.c).1⟩, (dsmMash (dsmCarries s.a x).reverse s.c).2)

/-- state invariant -/
def DsmInv (s : Dsm) : Prop :=
  s.c.length = s.a.length ∧ (∀ a ∈ s.a, 0 ≤ a ∧ a < 2 ^ 32) ∧ DsmMemInv 0 s.c

theorem dsmNewAccs_range (as : List Int) (x : Int) : ∀ a ∈ dsmNewAccs as x, 0 ≤ a ∧ a < 2 ^ 32 := by
  induction as generalizing x with
  | nil => intro a ha; cases ha
  | cons a0 as ih =>
    intro a ha
    simp only [dsmNewAccs, List.mem_cons] at ha
    rcases ha with rfl | ha
    · simp only [wrapU]
      exact ⟨Int.emod_nonneg _ (by decide), Int.emod_lt_of_pos _ (by decide)⟩
    · exact ih _ a ha

theorem dsm_update_ok (m : Mode) (s : Dsm) (x : Int) (hK1 : 1 ≤ s.a.length) (hK7 : s.a.length ≤ 7)
    (hs : DsmInv s) :
    Dsm.update m s x = .ok (dsmStepSpec s x) ∧ DsmInv (dsmStepSpec s x).1 ∧
    1 - 2 ^ (s.a.length - 1) ≤ (dsmStepSpec s x).2 ∧ (dsmStepSpec s x).2 ≤ 2 ^ (s.a.length - 1) := by
  obtain ⟨hl, ha, hm⟩ := hs
  have hacc := dsmAccs_eq s.a x [] (by intro b hb; cases hb) (by simpa using hK7)
  have hrl : (dsmCarries s.a x).reverse.length = s.a.length := by simp [dsmCarries_length]
  have hrb : DsmIsBits (dsmCarries s.a x).reverse :=
    fun b hb => dsmCarries_bits s.a x b (List.mem_reverse.mp hb)
  simp only [dsmStepSpec, Dsm.update]
  change dsmAccs s.a x 0 = _ at hacc
  rw [hacc, List.append_nil]
  generalize (dsmCarries s.a x).reverse = rc at *
  match rc, hrl, hrb with
  | [], hrl, _ => simp at hrl; omega
  | b0 :: bs, hrl, hrb =>
    have hn : bs.length = s.a.length - 1 := by simp at hrl; omega
    have hb0 := hrb.head
    obtain ⟨e1, e2, e3, e4⟩ := dsmDiffs_ok m 0 b0 bs s.c b0 hrb (by omega) hm
      (by simp; omega) (by omega)
    have htn : (if (s.a.length : Int) ≥ 1 then (s.a.length : Int) - 1 else 0).toNat = bs.length := by
      split <;> omega
    simp only [bind, Except.bind, htn, dsmOfBits_mod hb0, e1, dsmMash]
    rw [Nat.zero_add, hn] at e3 e4
    refine ⟨trivial, ⟨?_, dsmNewAccs_range _ _, e2⟩, e3, e4⟩
    rw [dsmDiffSpec_length _ _ _ (by omega), dsmNewAccs_length, hl]
/-! ### release mode agrees with checked mode whenever the latter does not panic (all states, no invariant) -/

theorem dsmDiffs_release_of_checked (n : Nat) (cs : List Int) (d y : Int) (r : List Int × Int)
    (h : dsmDiffs .checked n cs d y = .ok r) : dsmDiffs .release n cs d y = .ok r := by
  induction n generalizing cs d y r with
  | zero => simpa [dsmDiffs] using h
  | succ n ih =>
    cases cs with
    | nil => simpa [dsmDiffs] using h
    | cons c cs =>
      simp only [dsmDiffs, bind, Except.bind] at h ⊢
      by_cases ht : inI 8 (shr d 1 % 2 + y) = true
      · simp only [arithI_ok_of_in ht] at h ⊢
        by_cases hy : inI 8 (shr d 1 % 2 + y - c) = true
        · simp only [arithI_ok_of_in hy] at h ⊢
          cases hr : dsmDiffs .checked n cs (shr d 1) (shr d 1 % 2 + y - c) with
          | error e => rw [hr] at h; cases h
          | ok r' => rw [hr] at h; rw [ih _ _ _ _ hr]; exact h
        · simp [arithI, hy] at h
      · simp [arithI, ht] at h

theorem dsm_release_of_checked (s : Dsm) (x : Int) (r : Dsm × Int)
    (h : Dsm.update .checked s x = .ok r) : Dsm.update .release s x = .ok r := by
  simp only [Dsm.update, bind, Except.bind] at h ⊢
  cases hr : dsmDiffs .checked (if (s.a.length : Int) ≥ 1 then (s.a.length : Int) - 1 else 0).toNat s.c
      (dsmAccs s.a x 0).2 ((dsmAccs s.a x 0).2 % 2) with
  | error e => rw [hr] at h; cases h
  | ok r' => rw [hr] at h; rw [dsmDiffs_release_of_checked _ _ _ _ _ hr]; exact h

/-! ### the MASH recursion by index -/

/-- the exact MASH recursion, indexed by the distance `i` from the last stage (`u_i = w_{K-i}`):
    `u_0 = c_K`, `u_{i+1} = c_{K-1-i} + u_i - (previous step's u_i)`; `rc` is the carry list with the last
    stage first, `mem` holds the previous step's `u_0, u_1, …`.  Unbounded integers. -/
def mashU (rc mem : List Int) : Nat → Int
  | 0 => rc.getD 0 0
  | i + 1 => rc.getD (i + 1) 0 + mashU rc mem i - mem.getD i 0

theorem mashU_shift (b0 b : Int) (bs : List Int) (c : Int) (cs : List Int) (i : Nat) :
    mashU (b0 :: b :: bs) (c :: cs) (i + 1) = mashU ((b + b0 - c) :: bs) cs i := by
  induction i with
  | zero => simp [mashU]
  | succ i ih => rw [mashU, ih]; simp [mashU]

theorem dsmDiffSpec_mashU (b0 : Int) (bs cs : List Int) (hlen : cs.length = bs.length + 1) :
    (dsmDiffSpec bs cs b0).2 = mashU (b0 :: bs) cs bs.length ∧
    (∀ i, i < bs.length → (dsmDiffSpec bs cs b0).1.getD i 0 = mashU (b0 :: bs) cs i) ∧
    (dsmDiffSpec bs cs b0).1.getD bs.length 0 = cs.getD bs.length 0 := by
  induction bs generalizing b0 cs with
  | nil => simp [dsmDiffSpec, mashU]
  | cons b bs ih =>
    match cs, hlen with
    | c :: cs, hlen =>
      obtain ⟨e1, e2, e3⟩ := ih (b + b0 - c) cs (by simpa using hlen)
      simp only [dsmDiffSpec, List.length_cons]
      refine ⟨?_, ?_, ?_⟩
      · rw [mashU_shift, e1]
      · intro i hi
        cases i with
        | zero => simp [mashU]
        | succ i => rw [mashU_shift, ← e2 i (by simpa using hi)]; simp
      · simpa using e3

/-! ### the telescoping identity -/

/-- the second-to-last element (`mem[K-2]`), `0` if there is none -/
def dsmSndLast : List Int → Int
  | [] => 0
  | [_] => 0
  | [w, _] => w
  | _ :: c :: c' :: cs => dsmSndLast (c :: c' :: cs)

theorem dsmSndLast_cons (a : Int) (l : List Int) (h : 2 ≤ l.length) : dsmSndLast (a :: l) = dsmSndLast l := by
  match l, h with
  | c :: c' :: cs, _ => simp [dsmSndLast]

theorem dsmSndLast_eq_getD (l : List Int) (h : 2 ≤ l.length) : dsmSndLast l = l.getD (l.length - 2) 0 := by
  induction l with
  | nil => simp at h
  | cons a l ih =>
    match l, h with
    | [w], _ => simp [dsmSndLast]
    | c :: c' :: cs, _ =>
      have e1 : (a :: c :: c' :: cs).length - 2 = cs.length + 1 := by simp
      have e2 : (c :: c' :: cs).length - 2 = cs.length := by simp
      rw [dsmSndLast_cons _ _ (by simp), ih (by simp), e1, e2, List.getD_cons_succ]

theorem dsmDiffSpec_out (bs : List Int) (c1 : Int) (cs : List Int) (y : Int)
    (hlen : cs.length = bs.length + 2) :
    (dsmDiffSpec (bs ++ [c1]) cs y).2 = c1 + dsmSndLast (dsmDiffSpec (bs ++ [c1]) cs y).1 - dsmSndLast cs := by
  induction bs generalizing cs y with
  | nil =>
    match cs, hlen with
    | [c, l], _ => simp [dsmDiffSpec, dsmSndLast]
  | cons b bs ih =>
    match cs, hlen with
    | c :: cs, hlen =>
      have hl : cs.length = bs.length + 2 := by simpa using hlen
      have hl' : (dsmDiffSpec (bs ++ [c1]) cs (b + y - c)).1.length = cs.length :=
        dsmDiffSpec_length _ _ _ (by simp; omega)
      simp only [List.cons_append, dsmDiffSpec]
      rw [dsmSndLast_cons _ _ (by omega), dsmSndLast_cons _ _ (by omega), ih cs _ hl]

theorem dsmMash_out (r : List Int) (c1 : Int) (cs : List Int) (hlen : cs.length = r.length + 1) :
    (dsmMash (r ++ [c1]) cs).2 = c1 + dsmSndLast (dsmMash (r ++ [c1]) cs).1 - dsmSndLast cs := by
  match r, hlen with
  | [], hlen =>
    match cs, hlen with
    | [l], _ => simp [dsmMash, dsmDiffSpec, dsmSndLast]
  | b0 :: bs, hlen =>
    simp only [List.cons_append, dsmMash]
    exact dsmDiffSpec_out bs c1 cs b0 (by simpa using hlen)

theorem DsmMemInv_sndLast (i : Nat) (cs : List Int) (h : DsmMemInv i cs) (hl : 2 ≤ cs.length) :
    1 - 2 ^ (i + cs.length - 2) ≤ dsmSndLast cs ∧ dsmSndLast cs ≤ 2 ^ (i + cs.length - 2) := by
  induction cs generalizing i with
  | nil => simp at hl
  | cons c cs ih =>
    match cs, hl, h with
    | [l], _, h =>
      obtain ⟨_, h, _⟩ := h
      simpa [dsmSndLast] using h (by simp)
    | c' :: c'' :: cs, _, h =>
      obtain ⟨_, _, h⟩ := h
      have := ih (i + 1) h (by simp)
      rw [dsmSndLast_cons _ _ (by simp)]
      have e : i + 1 + (c' :: c'' :: cs).length - 2 = i + (c :: c' :: c'' :: cs).length - 2 := by
        simp only [List.length_cons]; omega
      rwa [e] at this

/-- `Φ`: the newest second-stage partial result `w_2`, held in `mem[K-2]` (`0` for `K = 1`) -/
def dsmPhi (s : Dsm) : Int := if 2 ≤ s.c.length then s.c.getD (s.c.length - 2) 0 else 0

theorem dsmPhi_eq (s : Dsm) : dsmPhi s = dsmSndLast s.c := by
  unfold dsmPhi
  split
  · next h => rw [dsmSndLast_eq_getD _ h]
  · next h =>
    match hc : s.c, h with
    | [], _ => rfl
    | [_], _ => rfl
    | _ :: _ :: _, h => simp at h

/-- the accumulated-error potential: a function of the state alone -/
def dsmErr (s : Dsm) : Int := 2 ^ 32 * dsmPhi s - s.a.headD 0

theorem dsmStepSpec_err (s : Dsm) (x : Int) (hK1 : 1 ≤ s.a.length) (hs : DsmInv s)
    (hx : 0 ≤ x ∧ x < 2 ^ 32) :
    2 ^ 32 * (dsmStepSpec s x).2 - x = dsmErr (dsmStepSpec s x).1 - dsmErr s := by
  obtain ⟨hl, ha, hm⟩ := hs
  obtain ⟨sa, sc⟩ := s
  simp only at hl ha hm hK1
  match sa, hK1 with
  | a1 :: as, _ =>
    have ha1 := ha a1 List.mem_cons_self
    simp only [dsmErr, dsmPhi_eq, dsmStepSpec, dsmCarries, dsmNewAccs, List.reverse_cons, List.headD_cons]
    rw [dsmMash_out _ _ _ (by simp [dsmCarries_length]; simpa using hl)]
    have h32 : (2 : Int) ^ 32 = 4294967296 := by decide
    simp only [wrapU, b2i, h32, decide_eq_true_eq] at *
    split <;> omega

theorem dsmErr_bound (s : Dsm) (hK1 : 1 ≤ s.a.length) (hs : DsmInv s) :
    -(2 ^ (s.a.length - 1) * 2 ^ 32) ≤ dsmErr s ∧ dsmErr s ≤ 2 ^ (s.a.length - 1) * 2 ^ 32 := by
  obtain ⟨hl, ha, hm⟩ := hs
  obtain ⟨sa, sc⟩ := s
  simp only at hl ha hm hK1
  match sa, hK1 with
  | a1 :: as, _ =>
    have ha1 := ha a1 List.mem_cons_self
    have h32 : (2 : Int) ^ 32 = 4294967296 := by decide
    simp only [dsmErr, dsmPhi_eq, List.headD_cons, List.length_cons, Nat.add_sub_cancel, h32] at *
    by_cases h2 : 2 ≤ sc.length
    · have := DsmMemInv_sndLast 0 sc hm h2
      have e : as.length = (0 + sc.length - 2) + 1 := by omega
      rw [e, Int.pow_succ]
      have := two_pow_pos (0 + sc.length - 2)
      generalize (2 : Int) ^ (0 + sc.length - 2) = P at *
      omega
    · cases sc with
      | nil => simp at hl
      | cons l sc =>
        cases sc with
        | nil =>
          have : as.length = 0 := by simpa using hl.symm
          simp only [this, dsmSndLast]
          omega
        | cons l' sc => simp at h2
/-! ### whole input sequences -/

/-- feed a list of inputs, collecting the outputs; any panic aborts -/
def Dsm.run (m : Mode) : Dsm → List Int → R (Dsm × List Int)
  | s, [] => .ok (s, [])
  | s, x :: xs => do
    let (s', y) ← Dsm.update m s x
    let (sf, ys) ← Dsm.run m s' xs
    .ok (sf, y :: ys)

/-- `Dsm::<K>::default()` -/
def Dsm.default (K : Nat) : Dsm := ⟨List.replicate K 0, List.replicate K 0⟩

/-- iterate the unbounded-integer step specification -/
def dsmSpecRun : Dsm → List Int → Dsm × List Int
  | s, [] => (s, [])
  | s, x :: xs =>
    ((dsmSpecRun (dsmStepSpec s x).1 xs).1, (dsmStepSpec s x).2 :: (dsmSpecRun (dsmStepSpec s x).1 xs).2)

theorem dsmStepSpec_length (s : Dsm) (x : Int) : (dsmStepSpec s x).1.a.length = s.a.length := by
  simp [dsmStepSpec, dsmNewAccs_length]

theorem dsmInv_default (K : Nat) : DsmInv (Dsm.default K) := by
  refine ⟨by simp [Dsm.default], ?_, ?_⟩
  · intro a ha
    have : a = 0 := by simpa [Dsm.default] using (List.mem_replicate.mp ha).2
    subst this; decide
  · simp only [Dsm.default]
    generalize 0 = i
    induction K generalizing i with
    | zero => trivial
    | succ K ih =>
      rw [List.replicate_succ]
      refine ⟨by decide, fun _ => ?_, ih _⟩
      have := two_pow_pos i
      omega

theorem dsmErr_default (K : Nat) : dsmErr (Dsm.default K) = 0 := by
  rw [dsmErr, dsmPhi_eq]
  have h1 : (Dsm.default K).a.headD 0 = 0 := by
    cases K <;> simp [Dsm.default, List.replicate_succ]
  have h2 : ∀ n, dsmSndLast (List.replicate n 0) = 0 := by
    intro n
    induction n with
    | zero => rfl
    | succ n ih =>
      match n, ih with
      | 0, _ => rfl
      | 1, _ => rfl
      | n + 2, ih =>
        rw [List.replicate_succ, dsmSndLast_cons _ _ (by simp)]; exact ih
  rw [h1]; simp only [Dsm.default]; rw [h2]; decide

theorem dsm_run_ok (m : Mode) (s : Dsm) (xs : List Int) (hK1 : 1 ≤ s.a.length) (hK7 : s.a.length ≤ 7)
    (hs : DsmInv s) :
    Dsm.run m s xs = .ok (dsmSpecRun s xs) ∧ DsmInv (dsmSpecRun s xs).1 ∧
    (dsmSpecRun s xs).1.a.length = s.a.length ∧ (dsmSpecRun s xs).2.length = xs.length ∧
    ∀ y ∈ (dsmSpecRun s xs).2, 1 - 2 ^ (s.a.length - 1) ≤ y ∧ y ≤ 2 ^ (s.a.length - 1) := by
  induction xs generalizing s with
  | nil => exact ⟨rfl, hs, rfl, rfl, fun y hy => by cases hy⟩
  | cons x xs ih =>
    obtain ⟨e1, e2, e3, e4⟩ := dsm_update_ok m s x hK1 hK7 hs
    have hl := dsmStepSpec_length s x
    obtain ⟨f1, f2, f3, f4, f5⟩ := ih (dsmStepSpec s x).1 (by omega) (by omega) e2
    refine ⟨?_, f2, by rw [← hl]; exact f3, by simp [dsmSpecRun, f4], ?_⟩
    · simp only [Dsm.run, e1, f1, bind, Except.bind, dsmSpecRun]
    · intro y hy
      simp only [dsmSpecRun, List.mem_cons] at hy
      rcases hy with rfl | hy
      · exact ⟨e3, e4⟩
      · have := f5 y hy
        rwa [hl] at this

theorem dsmSpecRun_err (s : Dsm) (xs : List Int) (hK1 : 1 ≤ s.a.length) (hK7 : s.a.length ≤ 7)
    (hs : DsmInv s) (hxs : ∀ x ∈ xs, 0 ≤ x ∧ x < 2 ^ 32) :
    2 ^ 32 * (dsmSpecRun s xs).2.sum - xs.sum = dsmErr (dsmSpecRun s xs).1 - dsmErr s := by
  induction xs generalizing s with
  | nil => simp [dsmSpecRun]
  | cons x xs ih =>
    obtain ⟨_, e2, _, _⟩ := dsm_update_ok .checked s x hK1 hK7 hs
    have hl := dsmStepSpec_length s x
    have h1 := dsmStepSpec_err s x hK1 hs (hxs x List.mem_cons_self)
    have h2 := ih (dsmStepSpec s x).1 (by omega) (by omega) e2
      (fun z hz => hxs z (List.mem_cons_of_mem _ hz))
    simp only [dsmSpecRun, List.sum_cons, Int.mul_add]
    omega

theorem dsm_run_append (m : Mode) (s : Dsm) (xs zs : List Int) :
    Dsm.run m s (xs ++ zs) = (do
      let (s1, ys) ← Dsm.run m s xs
      let (s2, ys') ← Dsm.run m s1 zs
      .ok (s2, ys ++ ys')) := by
  induction xs generalizing s with
  | nil =>
    simp only [List.nil_append, Dsm.run, bind, Except.bind]
    cases Dsm.run m s zs <;> rfl
  | cons x xs ih =>
    simp only [List.cons_append, Dsm.run, bind, Except.bind]
    cases Dsm.update m s x with
    | error e => rfl
    | ok r =>
      simp only [ih, bind, Except.bind]
      cases Dsm.run m r.1 xs with
      | error e => rfl
      | ok r1 =>
        simp only
        cases Dsm.run m r1.1 zs <;> rfl

/-! ### the degenerate order `K = 0` (no stage at all) -/

/-- the claimed output range: `0` for `K = 0`, `1 - 2^(K-1) ..= 2^(K-1)` otherwise -/
def dsmOutRange (K : Nat) (y : Int) : Prop :=
  if K = 0 then y = 0 else 1 - 2 ^ (K - 1) ≤ y ∧ y ≤ 2 ^ (K - 1)

theorem dsmOutRange_pos {K : Nat} (hK : 1 ≤ K) (y : Int) :
    dsmOutRange K y ↔ 1 - 2 ^ (K - 1) ≤ y ∧ y ≤ 2 ^ (K - 1) := by
  unfold dsmOutRange
  rw [if_neg (by omega)]

theorem dsm_update_k0 (m : Mode) (x : Int) : Dsm.update m ⟨[], []⟩ x = .ok (⟨[], []⟩, 0) := by
  simp only [Dsm.update, dsmAccs, bind, Except.bind]
  rfl

theorem dsm_run_k0 (m : Mode) (xs : List Int) :
    Dsm.run m ⟨[], []⟩ xs = .ok (⟨[], []⟩, List.replicate xs.length 0) := by
  induction xs with
  | nil => rfl
  | cons x xs ih => simp only [Dsm.run, dsm_update_k0, ih, bind, Except.bind, List.length_cons,
      List.replicate_succ]

theorem dsmSpecRun_k0 (xs : List Int) :
    dsmSpecRun ⟨[], []⟩ xs = (⟨[], []⟩, List.replicate xs.length 0) := by
  induction xs with
  | nil => rfl
  | cons x xs ih =>
    have h : dsmStepSpec ⟨[], []⟩ x = (⟨[], []⟩, 0) := rfl
    simp only [dsmSpecRun, h, ih, List.length_cons, List.replicate_succ]

theorem dsmInv_k0 (s : Dsm) (hs : DsmInv s) (hK : s.a.length = 0) : s = ⟨[], []⟩ := by
  obtain ⟨a, c⟩ := s
  have ha : a = [] := List.eq_nil_of_length_eq_zero hK
  have hc : c = [] := List.eq_nil_of_length_eq_zero (by rw [hs.1]; exact hK)
  subst ha hc
  rfl

/-! ### index-explicit forms used by the property statements -/


theorem DsmMemInv_iff (j : Nat) (cs : List Int) :
    DsmMemInv j cs ↔ ∀ i, i < cs.length →
      inI 8 (cs.getD i 0) = true ∧ (i + 1 < cs.length → 1 - 2 ^ (j + i) ≤ cs.getD i 0 ∧ cs.getD i 0 ≤ 2 ^ (j + i)) := by
  induction cs generalizing j with
  | nil => simp [DsmMemInv]
  | cons c cs ih =>
    simp only [DsmMemInv, ih, List.length_cons]
    constructor
    · rintro ⟨h1, h2, h3⟩ i hi
      cases i with
      | zero =>
        refine ⟨by simpa using h1, fun hl => ?_⟩
        have : cs ≠ [] := by intro h; subst h; simp at hl
        simpa using h2 this
      | succ i =>
        have := h3 i (by omega)
        rw [List.getD_cons_succ, show j + (i + 1) = j + 1 + i by omega]
        exact ⟨this.1, fun hl => this.2 (by omega)⟩
    · intro h
      refine ⟨by simpa using (h 0 (by omega)).1, fun hne => ?_, fun i hi => ?_⟩
      · have : 0 + 1 < cs.length + 1 := by
          cases cs with
          | nil => exact absurd rfl hne
          | cons _ _ => simp
        simpa using (h 0 (by omega)).2 this
      · have := h (i + 1) (by omega)
        rw [List.getD_cons_succ, show j + (i + 1) = j + 1 + i by omega] at this
        exact ⟨this.1, fun hl => this.2 (by omega)⟩

theorem dsmMash_mashU (rc cs : List Int) (hlen : cs.length = rc.length) (hpos : 1 ≤ rc.length) :
    (dsmMash rc cs).2 = mashU rc cs (rc.length - 1) ∧
    (∀ i, i + 1 < rc.length → (dsmMash rc cs).1.getD i 0 = mashU rc cs i) ∧
    (dsmMash rc cs).1.getD (rc.length - 1) 0 = cs.getD (rc.length - 1) 0 ∧
    (dsmMash rc cs).1.length = cs.length := by
  match rc, hpos with
  | b0 :: bs, _ =>
    have hl : cs.length = bs.length + 1 := by simpa using hlen
    obtain ⟨e1, e2, e3⟩ := dsmDiffSpec_mashU b0 bs cs hl
    simp only [dsmMash, List.length_cons, Nat.add_sub_cancel]
    exact ⟨e1, fun i hi => e2 i (by omega), e3, dsmDiffSpec_length _ _ _ hl⟩

theorem dsm_chain_exact (a : Int) (as : List Int) (x : Int) (ha : 0 ≤ a ∧ a < 2 ^ 32) (hx : 0 ≤ x ∧ x < 2 ^ 32) :
    dsmCarries (a :: as) x = ((a + x) / 2 ^ 32) :: dsmCarries as ((a + x) % 2 ^ 32) ∧
    dsmNewAccs (a :: as) x = ((a + x) % 2 ^ 32) :: dsmNewAccs as ((a + x) % 2 ^ 32) ∧
    0 ≤ (a + x) % 2 ^ 32 ∧ (a + x) % 2 ^ 32 < 2 ^ 32 := by
  have h32 : (2 : Int) ^ 32 = 4294967296 := by decide
  simp only [dsmCarries, dsmNewAccs, wrapU, b2i, h32, decide_eq_true_eq] at *
  refine ⟨?_, trivial, by omega, by omega⟩
  congr 1
  split <;> omega

end Idsp
