import IdspModel.Lemmas.PolarSym
import IdspModel.Lemmas.PolarTable
import IdspModel.Props.C01
/-!
# C19 — polar round trip: `from_angle`, then `arg` / `abs_sqr` / `log2`

Property theorems only (helpers: `IdspModel/Lemmas/PolarNorm.lean`, `Polar.lean`, `PolarSym.lean`, `Lockin.lean`,
the table `PolarTab*.lean` / `PolarTable.lean`; `cossin` facts from C01, `atan2` facts from C02).

Proved for ALL `2^32` phases: nothing panics and the release build agrees; `log2 = -2`;
`2^31·(1 - 5e-5) ≤ abs_sqr < 2^31`; no unit vector lies on an axis or a diagonal; the wrapped round-trip error
`arg(from_angle p) - p` is reproduced exactly by quarter turns and negated exactly by conjugation and by the
in-quadrant mirror, so its maximum over all phases is its maximum over the `2^22` first-octant fields; and on those
`2^22` fields the error lies in `[-14911, 15038]` by COMPLETE kernel evaluation (32 generated chunk files
`Lemmas/PolarTabNNN.lean`, `decide +kernel` on a verified fast evaluator; no `native_decide`).  Hence
`polar_roundtrip`: the wrapped round-trip error is at most 15038 LSB (`2.2e-5` rad) in magnitude for all `2^32`
phases (`polar_roundtrip_full_holds`).
-/
namespace Idsp

/-- `Complex::from_angle(p).arg()` -/
def polarRoundtrip (m : Mode) (p : Int) : R Int := do
  let (c, s) ← fromAngle m p
  carg m c s

private theorem from_angle_val (m : Mode) {p : Int} (hp : inI 32 p = true) : fromAngle m p = .ok (cossinVal p) :=
  cossin_eq_val m hp

private theorem val_of_ok {p c s : Int} (hp : inI 32 p = true) (h : fromAngle .checked p = .ok (c, s)) :
    cossinVal p = (c, s) := by
  rw [from_angle_val .checked hp] at h
  exact Except.ok.inj h

private theorem roundtrip_eq {p : Int} (hp : inI 32 p = true) : polarRoundtrip .checked p = polarR p := by
  unfold polarRoundtrip polarR carg
  rw [from_angle_val .checked hp]; rfl

/-! ## 1. totality -/

/-- For every `i32` phase `p`: `from_angle(p)` returns a pair `(c, s)`, and `arg`, `abs_sqr` and `log2` of that pair
    all return (no panic with overflow checks and debug assertions on), with an `i32` angle, a `u32` squared
    magnitude and an `i32` logarithm; the release build returns the same four values. -/
theorem polar_total (p : Int) (hp : inI 32 p = true) :
    ∃ c s r a l, fromAngle .checked p = .ok (c, s) ∧ carg .checked c s = .ok r ∧
      absSqr .checked c s = .ok a ∧ clog2 .checked c s = .ok l ∧
      inI 32 c = true ∧ inI 32 s = true ∧ inI 32 r = true ∧ inU 32 a = true ∧ inI 32 l = true ∧
      fromAngle .release p = .ok (c, s) ∧ carg .release c s = .ok r ∧
      absSqr .release c s = .ok a ∧ clog2 .release c s = .ok l := by
  obtain ⟨ic, is, _, _, _, _, _⟩ := polar_val_facts p
  obtain ⟨c0, c1, s0, s1⟩ := cossinVal_range p
  obtain ⟨r, hr, ir⟩ := atan2_total is ic
  have hmin : ¬ ((cossinVal p).1 = -2147483648 ∧ (cossinVal p).2 = -2147483648) := by omega
  have n := lockin_norm_i32 ic is hmin
  obtain ⟨hl, l0, l1⟩ := clog2_eq .checked ic is hmin
  refine ⟨(cossinVal p).1, (cossinVal p).2, r, _, _, from_angle_val .checked hp, hr, absSqr_eq .checked ic is hmin,
    hl, ic, is, ir, ?_, lockin_inI32 (by omega) (by omega), from_angle_val .release hp, ?_,
    absSqr_eq .release ic is hmin, (clog2_eq .release ic is hmin).1⟩
  · rw [inU_iff]; omega
  · show atan2 .release _ _ = .ok r
    rw [atan2_release_eq_checked is ic]; exact hr

/-! ## 2. magnitude -/

/-- The reported `log2` of every unit vector is `-2`, i.e. `2^61 ≤ c² + s² < 2^62` for every phase. -/
theorem polar_log2 (p : Int) (hp : inI 32 p = true) (c s l : Int)
    (h : fromAngle .checked p = .ok (c, s)) (hl : clog2 .checked c s = .ok l) :
    l = -2 ∧ 2 ^ 61 ≤ c * c + s * s ∧ c * c + s * s < 2 ^ 62 := by
  have hv := val_of_ok hp h
  obtain ⟨ic, is, _⟩ := polar_val_facts p
  obtain ⟨c0, c1, s0, s1⟩ := cossinVal_range p
  obtain ⟨n0, n1⟩ := cossinVal_norm_tight p
  rw [hv] at ic is c0 c1 s0 s1 n0 n1
  simp only at ic is c0 c1 s0 s1 n0 n1
  have hmin : ¬ (c = -2147483648 ∧ s = -2147483648) := by omega
  rw [(clog2_eq .checked ic is hmin).1] at hl
  have hz := lockin_clz64_eq (k := 62) (by omega) (by omega) (by omega) n1
  rw [hz] at hl
  exact ⟨(Except.ok.inj hl).symm, by omega, n1⟩

/-- The reported squared magnitude `a` of every unit vector is below `2^31` by a relative `5e-5` at most:
    `2^31·(1 - 5e-5) ≤ a < 2^31` (`a ≥ 2147376274 = ⌈2^31·(1 - 5e-5)⌉`), for EVERY phase; the sum of squares itself
    satisfies `2147376274·2^31 ≤ c² + s² < 2^62`.  (Measured extremes: `2147387466 ≤ a ≤ 2147466024`.) -/
theorem polar_abs_sqr (p : Int) (hp : inI 32 p = true) (c s a : Int)
    (h : fromAngle .checked p = .ok (c, s)) (ha : absSqr .checked c s = .ok a) :
    2147376274 ≤ a ∧ a < 2 ^ 31 ∧ 2 ^ 31 * 99995 ≤ a * 100000 ∧
    a = (c * c + s * s) / 2 ^ 31 ∧ 2147376274 * 2 ^ 31 ≤ c * c + s * s ∧ c * c + s * s < 2 ^ 62 := by
  have hv := val_of_ok hp h
  obtain ⟨ic, is, _⟩ := polar_val_facts p
  obtain ⟨c0, c1, s0, s1⟩ := cossinVal_range p
  obtain ⟨n0, n1⟩ := cossinVal_norm_tight p
  rw [hv] at ic is c0 c1 s0 s1 n0 n1
  simp only at ic is c0 c1 s0 s1 n0 n1
  have hmin : ¬ (c = -2147483648 ∧ s = -2147483648) := by omega
  rw [absSqr_eq .checked ic is hmin] at ha
  obtain rfl := Except.ok.inj ha
  refine ⟨by omega, by omega, by omega, rfl, n0, n1⟩

/-- Every unit vector is strictly off both axes and both diagonals: `c ≠ 0`, `s ≠ 0`, `|c| ≠ |s|` for all phases
    (this is why the `atan2` reflections below are exact everywhere). -/
theorem polar_off_mirror_lines (p : Int) (hp : inI 32 p = true) (c s : Int)
    (h : fromAngle .checked p = .ok (c, s)) : c ≠ 0 ∧ s ≠ 0 ∧ c ≠ s ∧ c ≠ -s := by
  have hv := val_of_ok hp h
  have := cossinVal_off p
  rw [hv] at this
  exact this

/-! ## 3. structure of the round trip -/

/-- `from_angle(p).arg()` is `atan2(sin, cos)` of the `cossin` pair (definitional) -/
theorem polar_roundtrip_structure (m : Mode) (p : Int) :
    polarRoundtrip m p = (cossin m p).bind (fun (c, s) => atan2 m s c) := rfl

/-- the round trip returns an `i32` angle for every phase, the same in both builds -/
theorem polar_roundtrip_total (p : Int) (hp : inI 32 p = true) :
    ∃ r, polarRoundtrip .checked p = .ok r ∧ polarRoundtrip .release p = .ok r ∧ inI 32 r = true := by
  obtain ⟨c, s, r, _, _, h1, h2, _, _, _, _, ir, _, _, h3, h4, _, _⟩ := polar_total p hp
  refine ⟨r, ?_, ?_, ir⟩
  · unfold polarRoundtrip; rw [h1]; exact h2
  · unfold polarRoundtrip; rw [h3]; exact h4

/-- Quarter turn: `arg(from_angle(p + 2^30)) = arg(from_angle(p)) + 2^30` (both wrapping), so the wrapped round-trip
    error is reproduced EXACTLY (constant 0 LSB), for every phase. -/
theorem polar_roundtrip_quarter_turn (p : Int) (hp : inI 32 p = true) (r : Int)
    (h : polarRoundtrip .checked p = .ok r) :
    polarRoundtrip .checked (wrapI 32 (p + 2 ^ 30)) = .ok (wrapI 32 (r + 2 ^ 30)) ∧
    wrapI 32 (wrapI 32 (r + 2 ^ 30) - wrapI 32 (p + 2 ^ 30)) = wrapI 32 (r - p) := by
  rw [roundtrip_eq hp] at h
  rw [roundtrip_eq (wrapI_in (by decide) _)]
  obtain ⟨r', h1, h2⟩ := polarErr_quarter h
  have := polarR_quarter h
  rw [this] at h1
  obtain rfl := Except.ok.inj h1
  exact ⟨this, h2⟩

/-- Half turn: likewise `arg(from_angle(p + 2^31)) = arg(from_angle(p)) + 2^31`, same error. -/
theorem polar_roundtrip_half_turn (p : Int) (hp : inI 32 p = true) (r : Int)
    (h : polarRoundtrip .checked p = .ok r) :
    polarRoundtrip .checked (wrapI 32 (p + 2 ^ 31)) = .ok (wrapI 32 (r + 2 ^ 31)) ∧
    wrapI 32 (wrapI 32 (r + 2 ^ 31) - wrapI 32 (p + 2 ^ 31)) = wrapI 32 (r - p) := by
  have hq := wrapI_in (w := 32) (by decide) (p + 2 ^ 30)
  obtain ⟨h1, _⟩ := polar_roundtrip_quarter_turn p hp r h
  obtain ⟨h2, _⟩ := polar_roundtrip_quarter_turn _ hq _ h1
  have ep : wrapI 32 (wrapI 32 (p + 2 ^ 30) + 2 ^ 30) = wrapI 32 (p + 2 ^ 31) := by
    rw [wrapI_add_wrapI_left]; congr 1; omega
  have er : wrapI 32 (wrapI 32 (r + 2 ^ 30) + 2 ^ 30) = wrapI 32 (r + 2 ^ 31) := by
    rw [wrapI_add_wrapI_left]; congr 1; omega
  rw [ep, er] at h2
  refine ⟨h2, ?_⟩
  rw [wrapI_sub_wrapI_left, wrapI_sub_wrapI_right]; congr 1; omega

/-- Conjugation (`p ↦ !p = -1 - p`): `arg(from_angle(!p)) = !arg(from_angle(p))` exactly, so the wrapped error is
    negated EXACTLY (constant 0 LSB), for every phase. -/
theorem polar_roundtrip_conj (p : Int) (hp : inI 32 p = true) (r : Int)
    (h : polarRoundtrip .checked p = .ok r) :
    polarRoundtrip .checked (-p - 1) = .ok (-1 - r) ∧ (-1 - r) - (-p - 1) = -(r - p) := by
  have hq : inI 32 (-p - 1) = true := by have := lockin_i32 hp; exact lockin_inI32 (by omega) (by omega)
  rw [roundtrip_eq hp] at h
  rw [roundtrip_eq hq]
  exact ⟨polarR_conj h, by omega⟩

/-- In-quadrant mirror (`p ↦ p ^ 0x3fff_ffff`, see C01): the wrapped error is negated exactly (mod `2^32`). -/
theorem polar_roundtrip_mirror (p : Int) (hp : inI 32 p = true) (r : Int)
    (h : polarRoundtrip .checked p = .ok r) :
    ∃ r', polarRoundtrip .checked (cossinMirror p) = .ok r' ∧
      wrapI 32 (r' - cossinMirror p) = wrapI 32 (-(r - p)) := by
  rw [roundtrip_eq hp] at h
  rw [roundtrip_eq (cossinMirror_in hp)]
  exact polarErr_mirror hp h

/-- `cossin` ignores the low 7 phase bits, so within a block of 128 phases the returned angle is constant -/
theorem polar_roundtrip_low7 (p p' : Int) (hp : inI 32 p = true) (hp' : inI 32 p' = true)
    (h : p / 128 = p' / 128) : polarRoundtrip .checked p = polarRoundtrip .checked p' := by
  rw [roundtrip_eq hp, roundtrip_eq hp']; unfold polarR; rw [cossinVal_of_div h]

/-- the 15038 LSB claim of C19 (wrapped round-trip error at most `2.2e-5` rad for every phase); proved below
    (`polar_roundtrip_full_holds`) -/
def polar_roundtrip_full : Prop :=
  ∀ p, inI 32 p = true → ∀ r, polarRoundtrip .checked p = .ok r →
    -15038 ≤ wrapI 32 (r - p) ∧ wrapI 32 (r - p) ≤ 15038

/-- Reduction (proved): for any bound `K < 2^31`, if the error bound holds at the `2^22` phases `128·f`
    (`0 ≤ f < 2^22`, the first octant with the ignored low bits cleared) in the form
    `-K + 127 ≤ arg(from_angle(128 f)) - 128 f ≤ K`, then `|wrapped error| ≤ K` holds at ALL `2^32` phases.
    With `K = 15038` the conclusion is `polar_roundtrip_full`. -/
theorem polar_roundtrip_reduction (K : Int) (hK : K < 2 ^ 31)
    (h : ∀ f, 0 ≤ f → f < 2 ^ 22 → ∀ r, polarRoundtrip .checked (128 * f) = .ok r →
      -K + 127 ≤ r - 128 * f ∧ r - 128 * f ≤ K) :
    ∀ p, inI 32 p = true → ∀ r, polarRoundtrip .checked p = .ok r →
      -K ≤ wrapI 32 (r - p) ∧ wrapI 32 (r - p) ≤ K := by
  intro p hp r hr
  rw [roundtrip_eq hp] at hr
  refine polarBnd_reduce hK (fun p0 h0 h1 r0 hr0 => ?_) hp r hr
  have hin : inI 32 (128 * (p0 / 128)) = true := lockin_inI32 (by omega) (by omega)
  have e : polarR p0 = polarR (128 * (p0 / 128)) := by
    unfold polarR; rw [cossinVal_of_div (p := p0) (q := 128 * (p0 / 128)) (by omega)]
  rw [e, ← roundtrip_eq hin] at hr0
  have := h (p0 / 128) (by omega) (by omega) r0 hr0
  rw [wrapI32_id (by omega) (by omega)]
  omega

/-- … in particular the full claim follows from (and is equivalent in strength to) the `2^22`-point statement -/
theorem polar_roundtrip_full_of_fields
    (h : ∀ f, 0 ≤ f → f < 2 ^ 22 → ∀ r, polarRoundtrip .checked (128 * f) = .ok r →
      -15038 + 127 ≤ r - 128 * f ∧ r - 128 * f ≤ 15038) : polar_roundtrip_full :=
  polar_roundtrip_reduction 15038 (by decide) h

/-- The `2^22`-point statement, by complete kernel evaluation (see `Lemmas/PolarTable.lean`): at every first-octant
    phase `128·f` the returned angle is within `[-14911, 15038]` LSB of the phase. -/
theorem polar_roundtrip_fields (f : Int) (h0 : 0 ≤ f) (h1 : f < 2 ^ 22) (r : Int)
    (h : polarRoundtrip .checked (128 * f) = .ok r) : -15038 + 127 ≤ r - 128 * f ∧ r - 128 * f ≤ 15038 := by
  have hin : inI 32 (128 * f) = true := lockin_inI32 (by omega) (by omega)
  rw [roundtrip_eq hin] at h
  have := polarR_field_bound f h0 h1 r h
  omega

/-- the full claim holds -/
theorem polar_roundtrip_full_holds : polar_roundtrip_full :=
  polar_roundtrip_full_of_fields polar_roundtrip_fields

/-- **C19, round trip**: for EVERY 32-bit phase `p`, converting it to a unit complex number `(c, s)` and back to an
    angle `r` returns `p` to within 15038 LSB (`2.2e-5` rad), the difference being taken modulo `2^32` (so the wrap
    at `±π` is handled). -/
theorem polar_roundtrip (p : Int) (hp : inI 32 p = true) (c s r : Int)
    (h : fromAngle .checked p = .ok (c, s)) (hr : carg .checked c s = .ok r) :
    -15038 ≤ wrapI 32 (r - p) ∧ wrapI 32 (r - p) ≤ 15038 := by
  refine polar_roundtrip_full_holds p hp r ?_
  unfold polarRoundtrip; rw [h]; exact hr

/-! ### non-vacuity: concrete evaluations (tests, not part of the property) -/

/-- phase 0 and its images: error `-5216` at `0`, `+5216` at the conjugate `-1` … -/
example : polarRoundtrip .checked 0 = .ok (-5216) ∧ polarRoundtrip .checked (-1) = .ok 5215 := by decide +kernel
/-- a generic phase with its conjugate, quarter turn and mirror image: errors `-2734, +2734, -2734, +2734` -/
example : polarRoundtrip .checked 123456789 = .ok 123454055 ∧
    polarRoundtrip .checked (-123456789 - 1) = .ok (-1 - 123454055) ∧
    polarRoundtrip .checked (123456789 + 2 ^ 30) = .ok (123454055 + 2 ^ 30) ∧
    polarRoundtrip .checked (2 ^ 30 - 1 - 123456789) = .ok (2 ^ 30 - 1 - 123454055) := by decide +kernel
/-- the wrap at ±π: `from_angle(i32::MAX).arg()` is negative, the wrapped difference is `+5216` -/
example : polarRoundtrip .checked (2 ^ 31 - 1) = .ok (-2147478433) ∧
    wrapI 32 (-2147478433 - (2 ^ 31 - 1)) = 5216 := by decide +kernel
/-- magnitude at phase 0 (the largest components) and at the octant boundary -/
example : absSqr .checked 2147454703 (-1898) = .ok 2147425758 ∧ clog2 .checked 2147454703 (-1898) = .ok (-2) ∧
    absSqr .checked 1518488231 1518478556 = .ok 2147435970 := by decide +kernel

end Idsp
