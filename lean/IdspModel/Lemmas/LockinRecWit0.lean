import IdspModel.Lemmas.LockinRecInt
import Mathlib.Algebra.BigOperators.Field
/-!
# Lock-in recovery, counterexample to the full clause: an accumulating fold that the kernel can evaluate in chunks

`wSpec a b xI xQ n` = (state of the I lowpass, state of the Q lowpass, sum of the first `n` I outputs, sum of the
first `n` Q outputs) in terms of the specification functions `lkSeq`, `lkOut`.  `wFrom … j n S` runs `n` updates
number `j, j+1, …` from `S` (tail-recursive in the index, so that it can be evaluated chunk by chunk with `decide`).
-/
namespace Idsp

abbrev WSt := (Int × Int) × (Int × Int) × Int × Int

def wStep (a b xi xq : Int) (S : WSt) : WSt :=
  (lp2Next xi a (-b) S.1, lp2Next xq a (-b) S.2.1, S.2.2.1 + lp2Mid xi a (-b) S.1 / 4294967296,
    S.2.2.2 + lp2Mid xq a (-b) S.2.1 / 4294967296)

def wFrom (a b : Int) (xI xQ : ℕ → Int) : ℕ → ℕ → WSt → WSt
  | _, 0, S => S
  | j, n + 1, S => wFrom a b xI xQ (j + 1) n (wStep a b (xI j) (xQ j) S)

def wSpec (a b : Int) (xI xQ : ℕ → Int) (n : ℕ) : WSt :=
  (lkSeq a b xI n, lkSeq a b xQ n, ∑ i ∈ Finset.range n, lkOut a b xI i, ∑ i ∈ Finset.range n, lkOut a b xQ i)

theorem wSpec_succ (a b : Int) (xI xQ : ℕ → Int) (n : ℕ) :
    wStep a b (xI n) (xQ n) (wSpec a b xI xQ n) = wSpec a b xI xQ (n + 1) := by
  simp only [wStep, wSpec, Finset.sum_range_succ, lkSeq, lkOut]

theorem wFrom_spec (a b : Int) (xI xQ : ℕ → Int) (n : ℕ) : ∀ j : ℕ,
    wFrom a b xI xQ j n (wSpec a b xI xQ j) = wSpec a b xI xQ (j + n) := by
  induction n with
  | zero => intro j; rfl
  | succ n ih =>
    intro j
    rw [wFrom, wSpec_succ, ih (j + 1)]
    congr 1; omega

/-- one chunk: from the specification state at `j` to the one at `j + n` -/
theorem wFrom_chunk (a b : Int) (xI xQ : ℕ → Int) (j n : ℕ) (S S' : WSt)
    (hS : wSpec a b xI xQ j = S) (h : wFrom a b xI xQ j n S = S') : wSpec a b xI xQ (j + n) = S' := by
  rw [← wFrom_spec, hS, h]

/-- the witness: mixer outputs for `A = 2^23`, `θ = π/4`, `p0 = 0`, `F = 2^30` (see `LockinRecWit.lean`) -/
def wCI (n : ℕ) : Int := match n % 4 with | 0 => 5931562 | 1 => -6 | 2 => 5931562 | _ => -6
def wCQ (n : ℕ) : Int := match n % 4 with | 0 => -6 | 1 => -5931563 | 2 => -6 | _ => -5931563

end Idsp
