#!/usr/bin/env python3
"""
model_mutants.py <n-per-file> <seed>      (measurement, not a check)

Generator-quality test from the MODEL side: mutate the executable Lean model (Model/*.lean, Rust.lean) in a scratch copy
of the lake project, rebuild the compiled driver, and replay a corpus of op lines produced by the real crate. A mutant
that the corpus does not distinguish from the original ("survivor") is either an equivalent mutant or a branch of the
model that the correspondence generators do not reach. Survivors are listed for inspection; nothing is asserted.
Scratch: /tmp/mutlean (copy of /verif/lean incl. build products), corpus: /tmp/me/ops_small.txt.
"""
import os, random, re, subprocess, sys, json
N, SEED = int(sys.argv[1]), int(sys.argv[2])
ROOT = "/tmp/mutlean"
ORIG = "/verif/lean"
CORPUS = "/tmp/me/ops_small.txt"
random.seed(SEED)
files = sorted(f for f in os.listdir(f"{ORIG}/IdspModel/Model") if f.endswith(".lean") and f != "CossinTable.lean")
files = [f"IdspModel/Model/{f}" for f in files] + ["IdspModel/Rust.lean"]
OPS = [(r" < ", " ≤ "), (r" ≤ ", " < "), (r" ≥ ", " > "), (r" > ", " ≥ "), (r" \+ ", " - "), (r" - ", " + "),
       (r" && ", " || "), (r" \|\| ", " && "), (r" == ", " != "), (r"\b(\d{1,3})\b", None), (r" \* ", " + "), (r" / ", " % ")]
def sites(src):
    out = []
    incomment = 0
    for ln, line in enumerate(src.split("\n")):
        code = line.split("--")[0]
        if "/-" in line: incomment += line.count("/-")
        if incomment:
            if "-/" in line: incomment -= line.count("-/")
            continue
        if not code.strip() or code.lstrip().startswith(("import", "namespace", "end", "open", "section", "variable", "local infix", "structure", "inductive", "deriving", "abbrev", "instance")):
            continue
        if " : " in code and ":=" not in code and not code.lstrip().startswith(("if", "let", "|", "else", "match", "(", "some", "then")):
            continue  # signature line
        # string literals (the source-location labels of the panic sites) are not code: mask them
        masked = re.sub(r'"[^"]*"', lambda mm: "\x00" * len(mm.group(0)), code)
        for pat, repl in OPS:
            for m in re.finditer(pat, masked):
                out.append((ln, m.start(), m.end(), pat, repl, m.group(0)))
    return out
results = []
for f in files:
    src = open(f"{ORIG}/{f}").read()
    ss = sites(src)
    random.shuffle(ss)
    done = 0
    for (ln, a, b, pat, repl, tok) in ss:
        if done >= N: break
        lines = src.split("\n")
        new_tok = repl if repl is not None else str(int(tok) + 1)
        lines[ln] = lines[ln][:a] + new_tok + lines[ln][b:]
        open(f"{ROOT}/{f}", "w").write("\n".join(lines))
        p = subprocess.run(["lake", "build", "idsp_model"], cwd=ROOT, stdout=subprocess.PIPE, stderr=subprocess.STDOUT, text=True)
        if p.returncode != 0:
            continue  # does not compile / termination proof fails: not a mutant
        q = subprocess.run(f"{ROOT}/.lake/build/bin/idsp_model < {CORPUS} | tail -1", shell=True, stdout=subprocess.PIPE, text=True)
        m = re.search(r"mismatches=(\d+) unparsed=(\d+)", q.stdout)
        killed = bool(m) and (int(m.group(1)) + int(m.group(2)) > 0)
        results.append({"file": f, "line": ln + 1, "from": tok, "to": new_tok, "text": src.split("\n")[ln].strip()[:140], "killed": killed, "mismatches": int(m.group(1)) if m else None})
        print(("KILLED  " if killed else "SURVIVED"), f, ln + 1, repr(tok), "->", repr(new_tok), "|", src.split("\n")[ln].strip()[:110], flush=True)
        done += 1
    open(f"{ROOT}/{f}", "w").write(src)
subprocess.run(["lake", "build", "idsp_model"], cwd=ROOT, stdout=subprocess.DEVNULL, stderr=subprocess.DEVNULL)
k = sum(r["killed"] for r in results)
print(f"mutants {len(results)} killed {k} survived {len(results) - k}")
json.dump(results, open("/tmp/me/model_mutants.json", "w"), indent=1)
