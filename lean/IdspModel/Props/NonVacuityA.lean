import IdspModel.Props.C09
import IdspModel.Props.C16
import IdspModel.Props.C03
import IdspModel.Props.C04
import IdspModel.Props.C13
import IdspModel.Props.C12
import IdspModel.Props.C14
import IdspModel.Props.C06
import IdspModel.Props.C10
/-!
# Non-vacuity audit, part A: C09, C16, C03, C04, C13, C12, C14, C06, C10

For every property theorem of these files whose hypotheses are more than independent range facts on free variables
and which is not already followed by a discharging `example` in its own file: ONE common concrete witness of all its
hypotheses.  A theorem whose hypotheses no value satisfies would prove nothing; none was found in these nine files
(see the end of `NonVacuity.lean` for the overall list).  Per file, the theorems that were skipped are named with the
reason.  Auxiliary definitions are prefixed `nvA_`.
-/
namespace Idsp
open Real Complex

/-! ## C09

Skipped — no hypotheses: `valid_slope_full_false`, `polyZi_on_circle`, `build_gain_scale`, `build_gain_neg`,
`slope_original_poles_move`, `biquadFromBa_div`, `quantize_nearest`.  Skipped — independent range facts on free
variables (`0 < w < π`, `0 < sh`, `0 < Q`, …), instantiated by the three `example`s after `slope_radicand_neg` in
`C09.lean`: `w0_mem`, `valid_q`, `valid_bandwidth`, `valid_slope_iff`, `valid_slope_iff_radicand`,
`valid_slope_partial`, `slope_radicand_neg`, `slope_original_radicand_neg`. -/

/-- a documented-style configuration: `f0 = 0.1` (`w0 = 2π/10`), gain `−3`, shelf `4`, `Shape::Q(1/√2 ≈ 0.7)`
    (here `Q = 7/10`) -/
theorem nvA_filterCfg_valid : (FilterCfg.mk (2 * π * (1 / 10)) (-3) 4 (.q (7 / 10)) : FilterCfg ℝ).Valid :=
  valid_q _ _ _ _ (w0_mem _ (by norm_num) (by norm_num)).1 (w0_mem _ (by norm_num) (by norm_num)).2
    (by norm_num) (by norm_num)

/-- non-vacuity of `lowpass_response`, `highpass_response`, `bandpass_response`, `notch_response`,
    `allpass_response`, `peaking_response`: the configuration above (negative gain) -/
example : ∃ f : FilterCfg ℝ, f.Valid ∧ f.gain < 0 := ⟨_, nvA_filterCfg_valid, by norm_num⟩
/-- non-vacuity of `build_jury`, `build_poles_in_disc`, `build_divisors_ne_zero`: the same configuration, peaking
    filter (type index 5) -/
example : ∃ (f : FilterCfg ℝ) (typ : Nat), f.Valid ∧ typ < 8 := ⟨_, 5, nvA_filterCfg_valid, by decide⟩
/-- non-vacuity of `lowshelf_response`, `highshelf_response`, `iho_response` -/
example : ∃ f : FilterCfg ℝ, 0 < f.frequency ∧ f.frequency < π ∧ 0 < f.shelf :=
  ⟨_, nvA_filterCfg_valid.w_pos, nvA_filterCfg_valid.w_lt, nvA_filterCfg_valid.shelf_pos⟩

/-- non-vacuity of `jury_roots_in_disc'`: `z² − z + 1/4`, double root `z = 1/2` -/
example : ∃ (a0 a1 a2 : ℝ) (z : ℂ), 0 < a0 ∧ |a2| < a0 ∧ |a1| < a0 + a2 ∧
    (a0 : ℂ) * z ^ 2 + (a1 : ℂ) * z + (a2 : ℂ) = 0 :=
  ⟨1, -1, 1 / 4, 1 / 2, by norm_num, by norm_num [abs_lt], by norm_num [abs_lt], by norm_num⟩

/-- non-vacuity of `iho_poles'`: the configuration above and the integrator pole `z = 1`, which IS a root of the I/HO
    denominator (`iho_dc_den`) -/
example : ∃ (f : FilterCfg ℝ) (z : ℂ), 0 < f.frequency ∧ f.frequency < π ∧ 0 < f.shelf ∧
    (((f.iho realOps).2.1 : ℝ) : ℂ) * z ^ 2 + (((f.iho realOps).2.2.1 : ℝ) : ℂ) * z
      + (((f.iho realOps).2.2.2 : ℝ) : ℂ) = 0 := by
  refine ⟨_, 1, nvA_filterCfg_valid.w_pos, nvA_filterCfg_valid.w_lt, nvA_filterCfg_valid.shelf_pos, ?_⟩
  have h := iho_dc_den (FilterCfg.mk (2 * π * (1 / 10)) (-3) 4 (.q (7 / 10)) : FilterCfg ℝ)
  rw [polyZi_one] at h
  have h' := Complex.ofReal_eq_zero.mp h
  rw [one_pow, mul_one, mul_one]
  exact_mod_cast h'

/-- non-vacuity of `quantize_close`: Q30, `v = 1/2`, `v' = 1/2 + 2^-31` (half an LSB apart) -/
example : ∃ (Q : Nat) (v v' : ℝ), v ≠ v' ∧ |v - v'| < 1 / 2 ^ Q :=
  ⟨30, 1 / 2, 1 / 2 + 1 / 2 ^ 31, by norm_num, by norm_num [abs_lt]⟩

/-- non-vacuity of `biquadFromBa_scale` (also instantiated by the `example` after `quantize_close` in `C09.lean`):
    scale factor `-2`, `a0 = 4` -/
example : ∃ (c : ℝ) (ba : BA ℝ), c ≠ 0 ∧ c ≠ 1 ∧ ba.2.1 ≠ 0 := ⟨-2, ((1, 2, 1), (4, -3, 1)), by norm_num, by norm_num, by norm_num⟩

/-! ## C16

Skipped — no hypotheses or a single bound `K ≤ 7`: `dsmInv_explicit`, `dsm_default_inv`, `dsmOutRange_iff`,
`dsm_k0_zero`, `dsm_run_prefix`, `dsm_range`, `dsm_range_upto7`, `dsm_k8_overflow_witness`, `dsm_range_full_false`,
`dsm_range_release_full_false`.  Skipped — independent range facts: `dsm_chain_exact_step`. -/

/-- the `K = 3` state reached from `Dsm::<3>::default()` after the doc-test input `0x87654321` twice (see the
    `example` after `dsm_mash_run`) satisfies the invariant -/
theorem nvA_dsm3_inv : DsmInv ⟨[248153666, 2519714147, 496307332], [1, 1, 0]⟩ := by
  rw [dsmInv_explicit]; decide

/-- non-vacuity of `dsm_range_step`, `dsm_range_from`, `dsm_mash_run`, `dsm_mash`, `dsm_err_bound`,
    `dsm_step_upto8`, `dsm_run_upto8` (`K ≤ 8` there): the reachable `K = 3` state above -/
example : ∃ s : Dsm, 1 ≤ s.a.length ∧ s.a.length ≤ 7 ∧ DsmInv s :=
  ⟨⟨[248153666, 2519714147, 496307332], [1, 1, 0]⟩, by decide, by decide, nvA_dsm3_inv⟩

/-- non-vacuity of `dsm_error_step`, `dsm_error_identity_from`: the same state, the doc-test input again -/
example : ∃ (s : Dsm) (x : Int) (xs : List Int), 1 ≤ s.a.length ∧ s.a.length ≤ 7 ∧ DsmInv s ∧
    (0 ≤ x ∧ x < 2 ^ 32) ∧ xs ≠ [] ∧ ∀ x ∈ xs, 0 ≤ x ∧ x < 2 ^ 32 :=
  ⟨⟨[248153666, 2519714147, 496307332], [1, 1, 0]⟩, 0x87654321, [0x87654321, 0xffffffff, 1],
    by decide, by decide, nvA_dsm3_inv, by decide, by decide, by decide⟩

/-- non-vacuity of `dsm_release_eq_checked`: first doc-test step of `Dsm::<3>` in the checked build -/
example : ∃ (s : Dsm) (x : Int) (r : Dsm × Int), Dsm.update .checked s x = .ok r :=
  ⟨Dsm.default 3, 0x87654321, _, rfl⟩

/-- non-vacuity of `dsm_error_identity`, `dsm_const_input_mean`, `dsm_error_identity_exact_upto8`:
    `K = 3`, three non-trivial `u32` inputs -/
example : ∃ (K : Nat) (xs : List Int), 1 ≤ K ∧ K ≤ 7 ∧ xs ≠ [] ∧ ∀ x ∈ xs, 0 ≤ x ∧ x < 2 ^ 32 :=
  ⟨3, [0x87654321, 0xffffffff, 1], by decide, by decide, by decide, by decide⟩

/-- non-vacuity of `dsm_step_upto8`, `dsm_run_upto8` at the boundary order `K = 8` (including the inner
    hypothesis `(dsmStepSpec s x).2 = 128` of the panic branch): the reachable state `dsmK8State` -/
example : ∃ (s : Dsm) (x : Int), 1 ≤ s.a.length ∧ s.a.length ≤ 8 ∧ DsmInv s ∧ (dsmStepSpec s x).2 = 128 :=
  ⟨dsmK8State, 0x80000000, by decide, by decide, dsm_k8_overflow_witness.2.1, dsm_k8_overflow_witness.2.2.2.2.1⟩

/-! ## C03

Skipped — no hypotheses (or only `k.u = 0`): `update4_partial_sum_overflow_witness`, `update4_exact_checked_full_false`,
`df2t_third_output`, `df2t_run_of_df1`, `df2t_eq_df1_from_rest`, `df2t_eq_df1_from_rest_zero_offset`,
`df2t_run_recurrence`.  Skipped — independent range facts, each followed by a concrete `example` in `C03.lean`:
`proportional_exact`, `identity_returns_x0`, `hold_returns_y1`. -/

/-- the `i32`/Q2.30 Butterworth low-pass `f0 = 0.1`, `Q = 1/√2` (`b = [72429549, 144859098, 72429549]`,
    `a1 = -1227265970`, `a2 = 443242341`), offset `1000`, limits the type range -/
def nvA_lp32 : BiquadCfg := ⟨72429549, 144859098, 72429549, -1227265970, 443242341, 1000, -2147483648, 2147483647⟩

theorem nvA_lp32_inRange : nvA_lp32.inRange 32 := by unfold BiquadCfg.inRange nvA_lp32; decide
theorem nvA_lp32_aligned : nvA_lp32.aligned 32 30 := by unfold BiquadCfg.aligned nvA_lp32; decide

/-- non-vacuity of `update4_exact`, `update5_exact`: `i32`/Q2.30, the low-pass above, full-scale input and a
    non-trivial state and remainder; every partial sum and both totals fit `i64` -/
example : ∃ (w q : Nat) (c : BiquadCfg) (x0 x1 x2 y1 y2 e1 : Int), 0 < w ∧ q ≤ w ∧ c.inRange w ∧ c.aligned w q ∧
    inI w x0 = true ∧ inI w x1 = true ∧ inI w x2 = true ∧ inI w y1 = true ∧ inI w y2 = true ∧ 0 ≤ e1 ∧ e1 < 2 ^ q ∧
    c.partialFit w x0 x1 x2 y1 y2 ∧
    inI (2 * w) (c.sum x0 x1 x2 y1 y2 + c.u * 2 ^ q) = true ∧
    inI (2 * w) (c.sum x0 x1 x2 y1 y2 + c.u * 2 ^ q + e1) = true :=
  ⟨32, 30, nvA_lp32, 2147483647, -2000000000, 1234567890, 1500000000, -2147483648, 123456789,
    by decide, by decide, nvA_lp32_inRange, nvA_lp32_aligned, by decide, by decide, by decide, by decide, by decide,
    by decide, by decide, by unfold BiquadCfg.partialFit nvA_lp32; decide, by decide, by decide⟩

/-- non-vacuity of `update45_release_exact`: the configuration of `update4_partial_sum_overflow_witness` (`i8`/Q2.6,
    `b0 = b1 = a1 = -2.0`, `x0 = x1 = y1 = -128`): a partial sum wraps but the exact total `16384 + 5` fits `i16` -/
example : ∃ (w q : Nat) (c : BiquadCfg) (x0 x1 x2 y1 y2 e1 : Int), 0 < w ∧ q ≤ w ∧ inI w c.u = true ∧
    inI w c.mn = true ∧ inI w c.mx = true ∧ c.aligned w q ∧ 0 ≤ e1 ∧ e1 < 2 ^ q ∧
    inI (2 * w) (c.sum x0 x1 x2 y1 y2 + c.u * 2 ^ q + e1) = true ∧ inI (2 * w) (c.b0 * x0 + c.b1 * x1) = false :=
  ⟨8, 6, ⟨-128, -128, 0, -128, 0, 0, -128, 127⟩, -128, -128, 0, -128, 0, 5, by decide, by decide, by decide, by decide,
    by decide, by unfold BiquadCfg.aligned; decide, by decide, by decide, by decide, by decide⟩

/-- non-vacuity of `update45_checked_exact_of_ok` (outer range facts and the inner hypothesis "the checked update
    returns") and of `update5_remainder_range`: a generic low-pass-like coefficient set on `i8` -/
example : ∃ (m : Mode) (w q : Nat) (c : BiquadCfg) (xy st : Int × Int × Int × Int × Int) (x0 y : Int),
    m = .checked ∧ 0 < w ∧ q ≤ w ∧ inI w c.u = true ∧ inI w c.mn = true ∧ inI w c.mx = true ∧
    0 ≤ xy.2.2.2.2 ∧ xy.2.2.2.2 < 2 ^ q ∧ biquadUpdate5 m w q c xy x0 = .ok (st, y) :=
  ⟨.checked, 8, 6, ⟨20, 40, 20, -70, 25, 3, -128, 127⟩, (50, -30, 60, 10, 17), (90, 50, 114, 60, 63), 90, 114,
    rfl, by decide, by decide, by decide, by decide, by decide, by decide, by decide, by decide⟩

/-- non-vacuity of `run5_remainder_range`: the same filter run over three inputs from a state with remainder `17` -/
example : ∃ (m : Mode) (w q : Nat) (c : BiquadCfg) (st sf : Int × Int × Int × Int × Int) (xs ys : List Int),
    0 < w ∧ (0 ≤ st.2.2.2.2 ∧ st.2.2.2.2 < 2 ^ q) ∧ runR (biquadUpdate5 m w q c) st xs = .ok (sf, ys) ∧ xs ≠ [] :=
  ⟨.checked, 8, 6, ⟨20, 40, 20, -70, 25, 3, -128, 127⟩, (50, -30, 60, 10, 17), (33, -20, 124, 127, 11), [90, -20, 33],
    [114, 127, 124], by decide, by decide, by decide, by decide⟩

/-- non-vacuity of `proportional_exact_of_representable`: `i32`/Q2.30, `k = 1.5`, `x0 = 10^9`: the scaled product
    `1.5·10^9` is representable -/
example : ∃ (w q : Nat) (k : Int) (x0 x1 x2 y1 y2 : Int), 0 < q ∧ q < w ∧ inI w k = true ∧
    inI w x0 = true ∧ inI w x1 = true ∧ inI w x2 = true ∧ inI w y1 = true ∧ inI w y2 = true ∧
    inI w (k * x0 / 2 ^ q) = true :=
  ⟨32, 30, 1610612736, 1000000000, 5, -7, 11, -13, by decide, by decide, by decide, by decide, by decide,
    by decide, by decide, by decide, by decide⟩

/-! ## C04

Skipped — no hypotheses: `no_windup5_full_false`.  Skipped — followed in `C04.lean` by an `example` that instantiates
all hypotheses (`hw` aside): `no_windup4_recovery`, `no_windup2`.  `update45_in_limits_checked`: the outer hypotheses are
those of `update4_in_limits` minus alignment; its inner hypotheses are the returning checked updates below. -/

/-- non-vacuity of `update4_in_limits` (and of the inner hypothesis of `update45_in_limits_checked`): `i8`/Q2.6,
    gain 1.98, aligned limits `-100 ..= 103`, input 127 saturates at `103` -/
example : ∃ (m : Mode) (w q : Nat) (c : BiquadCfg) (xy : Int × Int × Int × Int) (x0 : Int)
    (st : Int × Int × Int × Int) (y : Int), 0 < w ∧ q ≤ w ∧ inI w c.mn = true ∧ inI w c.mx = true ∧
    c.aligned w q ∧ c.mn ≤ c.mx ∧ biquadUpdate4 m w q c xy x0 = .ok (st, y) :=
  ⟨.checked, 8, 6, ⟨127, 0, 0, 0, 0, 0, -100, 103⟩, (0, 0, 0, 0), 127, (127, 0, 103, 0), 103,
    by decide, by decide, by decide, by decide, by unfold BiquadCfg.aligned; decide, by decide, by decide⟩

/-- non-vacuity of `update5_in_limits`: a generic low-pass-like coefficient set on `i8`, non-zero state and remainder -/
example : ∃ (m : Mode) (w q : Nat) (c : BiquadCfg) (xy : Int × Int × Int × Int × Int) (x0 : Int)
    (st : Int × Int × Int × Int × Int) (y : Int), 0 < w ∧ q ≤ w ∧ inI w c.mn = true ∧ inI w c.mx = true ∧
    c.aligned w q ∧ c.mn ≤ c.mx ∧ biquadUpdate5 m w q c xy x0 = .ok (st, y) :=
  ⟨.checked, 8, 6, ⟨20, 40, 20, -70, 25, 3, -128, 127⟩, (50, -30, 60, 10, 17), 90, (90, 50, 114, 60, 63), 114,
    by decide, by decide, by decide, by decide, by unfold BiquadCfg.aligned; decide, by decide, by decide⟩

/-- non-vacuity of `update2_in_limits`: transposed form on `i8`, limits `-100 ..= 30`, non-zero state -/
example : ∃ (m : Mode) (w q : Nat) (c : BiquadCfg) (st : Int × Int) (x0 : Int) (st' : Int × Int) (y : Int),
    c.mn ≤ c.mx ∧ biquadUpdate2 m w q c st x0 = .ok (st', y) :=
  ⟨.checked, 8, 6, ⟨127, 10, 5, -32, 7, 3, -100, 30⟩, (7, -9), 20, (9, 2), 30, by decide, by decide⟩

/-- non-vacuity of `run_in_limits` (outer hypotheses and all three inner run hypotheses with the same `c`, `xs`) -/
example : ∃ (m : Mode) (w q : Nat) (c : BiquadCfg) (xs : List Int), 0 < w ∧ q ≤ w ∧ inI w c.mn = true ∧
    inI w c.mx = true ∧ c.aligned w q ∧ c.mn ≤ c.mx ∧
    (∃ st stf ys, runR (biquadUpdate4 m w q c) st xs = .ok (stf, ys) ∧ ys ≠ []) ∧
    (∃ st stf ys, runR (biquadUpdate5 m w q c) st xs = .ok (stf, ys) ∧ ys ≠ []) ∧
    (∃ st stf ys, runR (biquadUpdate2 m w q c) st xs = .ok (stf, ys) ∧ ys ≠ []) :=
  ⟨.checked, 8, 6, ⟨127, 0, 0, 0, 0, 0, -100, 103⟩, [127, -128, 5],
    by decide, by decide, by decide, by decide, by unfold BiquadCfg.aligned; decide, by decide,
    ⟨(0, 0, 0, 0), (5, -128, 9, -100), [103, -100, 9], by decide, by decide⟩,
    ⟨(0, 0, 0, 0, 0), (5, -128, 9, -100, 60), [103, -100, 9], by decide, by decide⟩,
    ⟨(0, 0), (0, 0), [-4, 2, 10], by decide, by decide⟩⟩
/-- non-vacuity of `state4_after_two`: two consecutive returning updates from a non-zero state -/
example : ∃ (m : Mode) (w q : Nat) (c : BiquadCfg) (st0 st1 st2 : Int × Int × Int × Int) (xa xb ya yb : Int),
    0 < w ∧ biquadUpdate4 m w q c st0 xa = .ok (st1, ya) ∧ biquadUpdate4 m w q c st1 xb = .ok (st2, yb) :=
  ⟨.checked, 8, 6, ⟨127, 0, 0, 0, 0, 0, -100, 103⟩, (3, 4, 5, 6), (127, 3, 103, 5), (-128, 127, -100, 103),
    127, -128, 103, -100, by decide, by decide, by decide⟩

/-- non-vacuity of `no_windup4`: saturation at `127` for `L = 4` samples (gain 1.98, `a1 = -1.0`) -/
example : ∃ (m : Mode) (w q : Nat) (c : BiquadCfg) (st sf : Int × Int × Int × Int) (L : Nat) (x lim : Int)
    (ys : List Int), 0 < w ∧ 2 ≤ L ∧
    runR (biquadUpdate4 m w q c) st (List.replicate L x) = .ok (sf, ys ++ [lim, lim]) :=
  ⟨.checked, 8, 6, ⟨127, 0, 0, -64, 0, 0, -128, 127⟩, (0, 0, 0, 0), (127, 127, 127, 127), 4, 127, 127, [127, 127],
    by decide, by decide, by decide⟩

/-- non-vacuity of `no_windup5_partial`: the saturation episode of `no_windup5_full_false` -/
example : ∃ (m : Mode) (w q : Nat) (c : BiquadCfg) (st sf : Int × Int × Int × Int × Int) (L : Nat) (x lim : Int)
    (ys : List Int), 0 < w ∧ 2 ≤ L ∧
    runR (biquadUpdate5 m w q c) st (List.replicate L x) = .ok (sf, ys ++ [lim, lim]) :=
  ⟨.checked, 8, 6, ⟨127, 0, 0, 0, 0, 0, -128, 127⟩, (0, 0, 0, 0, 0), (127, 127, 127, 127, 3), 3, 127, 127, [127],
    by decide, by decide, by decide⟩

/-- non-vacuity of `no_windup5_recovery_partial`: episodes of DIFFERENT lengths 2 and 3 from different states
    (remainders `0` and `63`) that end with the same remainder `2` -/
example : ∃ (m : Mode) (w q : Nat) (c : BiquadCfg) (stA stB sA sB : Int × Int × Int × Int × Int) (L1 L2 : Nat)
    (x lim : Int) (ysA ysB : List Int), 0 < w ∧ 2 ≤ L1 ∧ 2 ≤ L2 ∧ L1 ≠ L2 ∧
    runR (biquadUpdate5 m w q c) stA (List.replicate L1 x) = .ok (sA, ysA ++ [lim, lim]) ∧
    runR (biquadUpdate5 m w q c) stB (List.replicate L2 x) = .ok (sB, ysB ++ [lim, lim]) ∧
    sA.2.2.2.2 = sB.2.2.2.2 :=
  ⟨.checked, 8, 6, ⟨127, 0, 0, 0, 0, 0, -128, 127⟩, (0, 0, 0, 0, 0), (0, 0, 0, 0, 63), (127, 127, 127, 127, 2),
    (127, 127, 127, 127, 2), 2, 3, 127, 127, [], [127], by decide, by decide, by decide, by decide, by decide,
    by decide, rfl⟩

/-- non-vacuity of `state2_after_two`: transposed form on `i8`, two computations from DIFFERENT states `(0,0)` and
    `(7,-9)` seeing inputs `20, 20` and producing `30, 30` (saturated at `mx = 30`) -/
example : ∃ (m : Mode) (w q : Nat) (c : BiquadCfg) (a0 a1 a2 b0 b1 b2 : Int × Int) (xa xb ya yb : Int), a0 ≠ b0 ∧
    biquadUpdate2 m w q c a0 xa = .ok (a1, ya) ∧ biquadUpdate2 m w q c a1 xb = .ok (a2, yb) ∧
    biquadUpdate2 m w q c b0 xa = .ok (b1, ya) ∧ biquadUpdate2 m w q c b1 xb = .ok (b2, yb) :=
  ⟨.checked, 8, 6, ⟨127, 10, 5, -32, 7, 3, -100, 30⟩, (0, 0), (18, 2), (20, 2), (7, -9), (9, 2), (20, 2),
    20, 20, 30, 30, by decide, by decide, by decide, by decide, by decide⟩

/-! ## C13

Skipped — no hypotheses: `stepResp_shape`.  Skipped — the only hypothesis is the value of one state field
(`s.tick = false` / `s.tick = true`), instantiated by the last two `example`s of `C13.lean`:
`interpolate_some_off_tick_checked_panics`, `interpolate_none_on_tick_checked_panics`. -/

/-- non-vacuity of `interpolate_contract_never_panics`: `i16`, `N = 3`, rate 7 (gain 512), constant input 100
    overflows the last integrator (`100·512 > 32767`) -/
example : ∃ (w n rate : Nat) (v : Nat → Int) (t : Nat) (p : Panic), rate < 2 ^ 32 ∧
    Cic.interpAuto .checked w (Cic.new n rate) v t = .error p :=
  ⟨16, 3, 7, fun _ => 100, 32, ⟨"cic.rs:141 *i += x"⟩, by decide, by decide⟩

/-- non-vacuity of `interpolate_tick_period`, `interpolate_eq_fir`, `interpolate_eq_fir_sum`: `i32`, `N = 3`, rate 7,
    low-rate samples `1000, 1000, -500, …`, 20 calls (state and outputs non-trivial), index `i = 18` -/
example : ∃ (w n rate : Nat) (v : Nat → Int) (t : Nat) (s : Cic) (k : Nat) (ys : List Int) (i : Nat), rate < 2 ^ 32 ∧
    Cic.interpAuto .checked w (Cic.new n rate) v t = .ok (s, k, ys) ∧ i < t :=
  ⟨32, 3, 7, fun k => if k < 2 then 1000 else -500, 20,
    { rate := 7, index := 4, zoh := -500, combs := [-500, -1500, -1500], integrators := [-10000, -9000, 478000] }, 3,
    [1000, 4000, 10000, 20000, 35000, 56000, 84000, 120000, 162000, 208000, 256000, 304000, 350000, 392000, 428000,
     456000, 475500, 486000, 487000, 478000], 18, by decide, by decide, by decide⟩

/-- the run used below: `i32`, `N = 3`, rate 7, constant input 1000, `4·8 = 32` calls -/
theorem nvA_cic_const_run : Cic.interpAuto .checked 32 (Cic.new 3 7) (fun _ => 1000) (4 * (7 + 1)) =
    .ok ({ rate := 7, index := 0, zoh := 0, combs := [1000, 0, 0], integrators := [0, 0, 512000] }, 4,
      [1000, 4000, 10000, 20000, 35000, 56000, 84000, 120000, 162000, 208000, 256000, 304000, 350000, 392000, 428000,
       456000, 477000, 492000, 502000, 508000, 511000, 512000, 512000, 512000, 512000, 512000, 512000, 512000, 512000,
       512000, 512000, 512000]) := by decide

/-- non-vacuity of `interpolate_constant`, `interpolate_constant_settled`: the run above, index `i = 25 ≥
    response_length() = 21` -/
example : ∃ (w n rate : Nat) (x : Int) (t : Nat) (s : Cic) (k : Nat) (ys : List Int) (i : Nat), rate < 2 ^ 32 ∧
    Cic.interpAuto .checked w (Cic.new n rate) (fun _ => x) t = .ok (s, k, ys) ∧ i < t ∧
    (Cic.new n rate).responseLength ≤ i :=
  ⟨32, 3, 7, 1000, 32, _, _, _, 25, by decide, nvA_cic_const_run, by decide, by decide⟩

/-- non-vacuity of `settle_eq_run_from_zero`, `run_from_zero_settles`: `K = 4 = n + 1` periods, and
    `settle_interpolate(1000)` returns -/
example : ∃ (w n rate : Nat) (x : Int) (K : Nat) (s : Cic) (k : Nat) (ys : List Int) (s' : Cic), 0 < w ∧ rate < 2 ^ 32 ∧
    inI w rate = true ∧ n + 1 ≤ K ∧
    Cic.interpAuto .checked w (Cic.new n rate) (fun _ => x) (K * (rate + 1)) = .ok (s, k, ys) ∧
    (Cic.new n rate).settleInterpolate .checked w x = .ok s' :=
  ⟨32, 3, 7, 1000, 4, _, _, _, _, by decide, by decide, by decide, by decide, nvA_cic_const_run,
    (by decide : (Cic.new 3 7).settleInterpolate .checked 32 1000 =
      .ok { rate := 7, index := 0, zoh := 0, combs := [1000, 0, 0], integrators := [0, 0, 512000] })⟩

/-- non-vacuity of `settle_fixed_point`, `settle_fixed_point_gain`: `s = Cic::<i32, 3>::new(7)`, `x = 1000` -/
example : ∃ (w rate : Nat) (s s' : Cic) (x : Int), 0 < w ∧ rate < 2 ^ 32 ∧ inI w rate = true ∧ s.rate = rate ∧
    inI w x = true ∧ s.settleInterpolate .checked w x = .ok s' :=
  ⟨32, 7, Cic.new 3 7, { rate := 7, index := 0, zoh := 0, combs := [1000, 0, 0], integrators := [0, 0, 512000] }, 1000,
    by decide, by decide, by decide, by decide, by decide, by decide⟩

/-- non-vacuity of `interpolate_level_change`: `1000` for `K = 3` low-rate samples (`3·8 = 24 ≥ 21`), then `-500`;
    40 calls, index `i = 30` (in the middle of the transition) -/
example : ∃ (w n rate : Nat) (x0 x1 : Int) (K t : Nat) (s : Cic) (k : Nat) (ys : List Int) (i : Nat), rate < 2 ^ 32 ∧
    rate * n ≤ K * (rate + 1) ∧
    Cic.interpAuto .checked w (Cic.new n rate) (twoLevel K x0 x1) t = .ok (s, k, ys) ∧ i < t ∧ K * (rate + 1) ≤ i :=
  ⟨32, 3, 7, 1000, -500, 3, 40,
    { rate := 7, index := 0, zoh := 3000, combs := [-500, 0, 1500], integrators := [12000, -42000, -172000] }, 5,
    [1000, 4000, 10000, 20000, 35000, 56000, 84000, 120000, 162000, 208000, 256000, 304000, 350000, 392000, 428000,
     456000, 477000, 492000, 502000, 508000, 511000, 512000, 512000, 512000, 510500, 506000, 497000, 482000, 459500,
     428000, 386000, 332000, 269000, 200000, 128000, 56000, -13000, -76000, -130000, -172000], 30,
    by decide, by decide, by decide, by decide, by decide⟩

/-- non-vacuity of `getInterpolate_eq_last`: a `None` call in the middle of a period -/
example : ∃ (m : Mode) (w : Nat) (s s' : Cic) (inp : Option Int) (y : Int), s.interpolate m w inp = .ok (s', y) :=
  ⟨.checked, 32,
    ({ rate := 7, index := 4, zoh := -500, combs := [-500, -1500, -1500], integrators := [-10000, -9000, 478000] } : Cic),
    ({ rate := 7, index := 3, zoh := -500, combs := [-500, -1500, -1500], integrators := [-10500, -19500, 458500] } : Cic),
    none, 458500, by decide⟩

/-- uniformly bounded sequences (auxiliary for the witness of `interpolate_ok_of_fits`) -/
def nvA_Bnd (M : Int) (y : Int → Int) : Prop := ∀ t, -M ≤ y t ∧ y t ≤ M

theorem nvA_bnd_seqD (R : Nat) {M : Int} {y : Int → Int} (h : nvA_Bnd M y) : nvA_Bnd (2 * M) (seqD R y) := by
  intro t
  have h1 := h t
  have h2 := h (t - R)
  unfold seqD
  omega

theorem nvA_bnd_seqB (R : Nat) {M : Int} {y : Int → Int} (h : nvA_Bnd M y) : nvA_Bnd (R * M) (seqB R y) := by
  intro t
  unfold seqB
  constructor
  · have := sumTo_le (n := R) (f := fun _ => -M) (g := fun i => y (t - i)) (fun i _ => (h _).1)
    rw [sumTo_const] at this
    rw [show -((R : Int) * M) = R * -M by rw [Int.mul_neg]]
    exact this
  · have := sumTo_le (n := R) (f := fun i => y (t - i)) (g := fun _ => M) (fun i _ => (h _).2)
    rw [sumTo_const] at this
    exact this

theorem nvA_bnd_step : nvA_Bnd 1000 (stepSeq 1000) := by
  intro t; unfold stepSeq; split <;> omega

/-- non-vacuity of `interpolate_ok_of_fits`: `i32`, `N = 3`, rate 7 (`R = 8`), constant low-rate input `1000`: every
    exact comb output is within `±8000` and every exact integrator content within `±512000`, at all times -/
example : ∃ (w n rate : Nat) (v : Nat → Int), rate < 2 ^ 32 ∧ v 0 ≠ 0 ∧
    (∀ (m : Int) (j : Nat), 1 ≤ j → j ≤ n → inI w (opPow (seqD 1) j (ext v) m) = true) ∧
    (∀ (i : Int) (j : Nat), 1 ≤ j → j ≤ n →
      inI w (opPow seqS j (seqHold (rate + 1) (opPow (seqD 1) n (ext v))) i) = true) := by
  refine ⟨32, 3, 7, fun _ => 1000, by decide, by decide, ?_, ?_⟩
  · intro m j h1 h3
    rw [ext_const]
    have b1 := nvA_bnd_seqD 1 nvA_bnd_step
    have b2 := nvA_bnd_seqD 1 b1
    have b3 := nvA_bnd_seqD 1 b2
    obtain rfl | rfl | rfl : j = 1 ∨ j = 2 ∨ j = 3 := by omega
    · have := b1 m; exact inI_iff.mpr ⟨by simp only [opPow]; omega, by simp only [opPow]; omega⟩
    · have := b2 m; exact inI_iff.mpr ⟨by simp only [opPow]; omega, by simp only [opPow]; omega⟩
    · have := b3 m; exact inI_iff.mpr ⟨by simp only [opPow]; omega, by simp only [opPow]; omega⟩
  · intro i j h1 h3
    rw [ext_const, seqHold_opPow_D_one (by decide), seqHold_stepSeq (by decide)]
    have c0 := causal_stepSeq 1000
    have c1 := causal_seqD 8 c0
    have c2 := causal_seqD 8 c1
    have d1 := nvA_bnd_seqD 8 nvA_bnd_step
    have d2 := nvA_bnd_seqD 8 d1
    obtain rfl | rfl | rfl : j = 1 ∨ j = 2 ∨ j = 3 := by omega
    · show inI 32 (opPow seqS 1 (opPow (seqD 8) 1 (seqD 8 (seqD 8 (stepSeq 1000)))) i) = true
      rw [opPow_S_D 8 1 c2]
      have := nvA_bnd_seqB 8 d2 i
      exact inI_iff.mpr ⟨by simp only [opPow]; omega, by simp only [opPow]; omega⟩
    · show inI 32 (opPow seqS 2 (opPow (seqD 8) 2 (seqD 8 (stepSeq 1000))) i) = true
      rw [opPow_S_D 8 2 c1]
      have := nvA_bnd_seqB 8 (nvA_bnd_seqB 8 d1) i
      exact inI_iff.mpr ⟨by simp only [opPow]; omega, by simp only [opPow]; omega⟩
    · rw [opPow_S_D 8 3 c0]
      have := nvA_bnd_seqB 8 (nvA_bnd_seqB 8 (nvA_bnd_seqB 8 nvA_bnd_step)) i
      exact inI_iff.mpr ⟨by simp only [opPow]; omega, by simp only [opPow]; omega⟩

/-! ## C12

Skipped — a single range fact (`0 ≤ s.index`): `decimate_tick_iff_some`.  `decimate_rate0_identity` (hypotheses: `0 < w`
and all samples in range) is followed by the `identity_dec` `example` in `C12.lean`. -/

/-- non-vacuity of `decimate_exact_when_fits` (and of `decimate_outputs`, `decimate_emit_times`, `decimate_eq_fir`,
    `decimate_tick`, `getDecimate_eq`, whose hypotheses are a subset): `i16`, `N = 3`, rate 7 (gain 512), 25 samples of
    constant input 60; the output `m = 3` (call 24, settled: `60·512 = 30720`) fits `i16` -/
example : ∃ (w n rate : Nat) (xs : List Int) (m : Nat), 0 < w ∧ (∀ x ∈ xs, inI w x = true) ∧
    m * (rate + 1) < xs.length ∧
    inI w (fir (cicKernel (rate + 1) n) (ext (streamOf xs)) ((m * (rate + 1) : Nat) : Int)) = true ∧
    fir (cicKernel (rate + 1) n) (ext (streamOf xs)) ((m * (rate + 1) : Nat) : Int) = 30720 :=
  ⟨16, 3, 7, List.replicate 25 60, 3, by decide, by decide, by decide, by decide +kernel, by decide +kernel⟩

/-- non-vacuity of `gain_eq`, `gain_eq_general`: `Cic::<i16, 3>::new(7).gain() = 512` -/
example : ∃ (w : Nat) (s : Cic) (g : Int), 0 < w ∧ inI w s.rate = true ∧ s.gain .checked w = .ok g :=
  ⟨16, Cic.new 3 7, 512, by decide, by decide, by decide⟩

/-- non-vacuity of `gain_ok`: the same filter: `rate = 7`, `R = 8`, `R^3 = 512` all fit `i16` -/
example : ∃ (w : Nat) (s : Cic), 0 < w ∧ inI w s.rate = true ∧ inI w (s.rate + 1) = true ∧
    inI w ((s.rate + 1) ^ s.order) = true :=
  ⟨16, Cic.new 3 7, by decide, by decide, by decide, by decide⟩

/-- non-vacuity of `gainLog2_bound`, `gainLog2_exact`: rate 7, `R = 8 = 2^3` -/
example : ∃ (s : Cic) (rate k : Nat), s.rate = rate ∧ rate < 2 ^ 32 ∧ rate + 1 = 2 ^ k :=
  ⟨Cic.new 3 7, 7, 3, by decide, by decide, by decide⟩

/-! ## C14

`hbfdec_cascade_adm_of_block_size` and `hbfint_cascade_adm_of_block_size` are instantiated (all hypotheses, Rust-shaped
cascade at depth 4) by the last `example`s of `C14.lean`; they are restated here with a name (`nvA_rustDec4_adm`,
`nvA_rustInt4_adm`) because the cascade witnesses below need them.  Every other theorem of `C14.lean` gets a witness with
NON-ZERO filter history. -/

/-- a decimator stage with NON-ZERO history: `HbfDec` with taps `[3, -5]` (`M = 2`), buffers of length 9, after the
    block `[1, …, 6]` -/
def nvA_dec9 : HbfDec Int := ((HbfDec.new intOps 9 [3, -5]).process intOps [1, 2, 3, 4, 5, 6]).1
/-- the same taps and history in longer buffers (length 13) -/
def nvA_dec13 : HbfDec Int := ((HbfDec.new intOps 13 [3, -5]).process intOps [1, 2, 3, 4, 5, 6]).1

theorem nvA_dec9_wf : nvA_dec9.WF := ⟨by decide, by decide, by decide⟩
theorem nvA_dec13_wf : nvA_dec13.WF := ⟨by decide, by decide, by decide⟩

/-- non-vacuity of `hbfdec_process_refines`, `hbfdec_output_length_in_range`: non-zero history `([5], [2, 4, 6])`, a
    non-empty admissible block -/
example : ∃ (d : HbfDec Int) (x : List Int), d.WF ∧ d.Adm x ∧ x ≠ [] ∧ d.abs = ([5], [2, 4, 6]) :=
  ⟨nvA_dec9, [7, 8, 9, 10], nvA_dec9_wf, ⟨by decide, by decide⟩, by decide, by decide⟩

/-- non-vacuity of `hbfdec_spec_item`: `M = 2`, histories of lengths `1` and `3`, block of 4, item `i = 1` -/
example : ∃ (taps he ho x : List Int) (i : Nat), 1 ≤ taps.length ∧ he.length = taps.length - 1 ∧
    ho.length = 2 * taps.length - 1 ∧ i < x.length / 2 :=
  ⟨[3, -5], [5], [2, 4, 6], [7, 8, 9, 10], 1, by decide, by decide, by decide, by decide⟩

/-- non-vacuity of `hbfdec_depends_only_on_history`: two DIFFERENT states (buffer lengths 9 and 13) with the same
    taps and the same non-zero history, a block admissible for both -/
example : ∃ (d1 d2 : HbfDec Int) (x : List Int), d1.even.length ≠ d2.even.length ∧ d1.WF ∧ d2.WF ∧ d1.odd.taps = d2.odd.taps ∧
    d1.abs = d2.abs ∧ d1.Adm x ∧ d2.Adm x :=
  ⟨nvA_dec9, nvA_dec13, [7, 8, 9, 10], by decide, nvA_dec9_wf, nvA_dec13_wf, by decide, by decide,
    ⟨by decide, by decide⟩, ⟨by decide, by decide⟩⟩

/-- non-vacuity of `hbfdec_blocks_spec`, `hbfdec_partition_invariant`: two different partitions (one with an empty
    block) of the same 10 samples, all blocks admissible (`block_size().1 = 12`) -/
example : ∃ (d : HbfDec Int) (bs1 bs2 : List (List Int)), d.WF ∧ bs1 ≠ bs2 ∧ bs1.flatten = bs2.flatten ∧
    (∀ b ∈ bs1, d.Adm b) ∧ (∀ b ∈ bs2, d.Adm b) := by
  refine ⟨nvA_dec9, [[1, 2], [], [3, 4, 5, 6, 7, 8], [9, 10]], [[1, 2, 3, 4, 5, 6, 7, 8, 9, 10]], nvA_dec9_wf,
    by decide, by decide, ?_, ?_⟩
  · intro b hb
    simp only [List.mem_cons, List.not_mem_nil, or_false] at hb
    rcases hb with rfl | rfl | rfl | rfl <;> exact ⟨by decide, by decide⟩
  · intro b hb
    simp only [List.mem_cons, List.not_mem_nil, or_false] at hb
    subst hb; exact ⟨by decide, by decide⟩

/-- non-vacuity of `hbfdec_block_append` -/
example : ∃ (d : HbfDec Int) (b1 b2 : List Int), d.WF ∧ b1 ≠ [] ∧ b2 ≠ [] ∧ d.Adm b1 ∧ d.Adm b2 ∧ d.Adm (b1 ++ b2) :=
  ⟨nvA_dec9, [7, 8], [9, 10, 11, 12], nvA_dec9_wf, by decide, by decide, ⟨by decide, by decide⟩,
    ⟨by decide, by decide⟩, ⟨by decide, by decide⟩⟩

/-- an interpolator stage with non-zero history: taps `[3, -5]`, buffer length 9, after the block `[1, 2, 3, 4]` -/
def nvA_int9 : HbfInt Int := ((HbfInt.new intOps 9 [3, -5]).process intOps [1, 2, 3, 4]).1
def nvA_int13 : HbfInt Int := ((HbfInt.new intOps 13 [3, -5]).process intOps [1, 2, 3, 4]).1
theorem nvA_int9_wf : nvA_int9.WF := ⟨by decide, by decide⟩
theorem nvA_int13_wf : nvA_int13.WF := ⟨by decide, by decide⟩

/-- non-vacuity of `hbfint_process_refines`, `hbfint_output_length_in_range` -/
example : ∃ (d : HbfInt Int) (x : List Int), d.WF ∧ d.Adm x ∧ x ≠ [] ∧ d.abs = [2, 3, 4] :=
  ⟨nvA_int9, [5, 6, 7], nvA_int9_wf, (by decide : 2 * 3 ≤ nvA_int9.blockMax), by decide, by decide⟩

/-- non-vacuity of `hbfint_spec_item` -/
example : ∃ (taps h x : List Int) (i : Nat), 1 ≤ taps.length ∧ h.length = 2 * taps.length - 1 ∧ i < x.length :=
  ⟨[3, -5], [2, 3, 4], [5, 6, 7], 2, by decide, by decide, by decide⟩

/-- non-vacuity of `hbfint_depends_only_on_history` -/
example : ∃ (d1 d2 : HbfInt Int) (x : List Int), d1.fir.x.length ≠ d2.fir.x.length ∧ d1.WF ∧ d2.WF ∧ d1.fir.taps = d2.fir.taps ∧
    d1.abs = d2.abs ∧ d1.Adm x ∧ d2.Adm x :=
  ⟨nvA_int9, nvA_int13, [5, 6, 7], by decide, nvA_int9_wf, nvA_int13_wf, by decide, by decide,
    (by decide : 2 * 3 ≤ nvA_int9.blockMax), (by decide : 2 * 3 ≤ nvA_int13.blockMax)⟩

/-- non-vacuity of `hbfint_blocks_spec`, `hbfint_partition_invariant` (`block_size().1 = 12`, i.e. `≤ 6` inputs) -/
example : ∃ (d : HbfInt Int) (bs1 bs2 : List (List Int)), d.WF ∧ bs1 ≠ bs2 ∧ bs1.flatten = bs2.flatten ∧
    (∀ b ∈ bs1, d.Adm b) ∧ (∀ b ∈ bs2, d.Adm b) := by
  refine ⟨nvA_int9, [[1, 2], [], [3, 4, 5], [6]], [[1, 2, 3, 4, 5, 6]], nvA_int9_wf, by decide, by decide, ?_, ?_⟩
  · intro b hb
    simp only [List.mem_cons, List.not_mem_nil, or_false] at hb
    rcases hb with rfl | rfl | rfl | rfl <;> (show 2 * _ ≤ nvA_int9.blockMax) <;> decide
  · intro b hb
    simp only [List.mem_cons, List.not_mem_nil, or_false] at hb
    subst hb; show 2 * _ ≤ nvA_int9.blockMax; decide

/-- non-vacuity of `hbfint_block_append` -/
example : ∃ (d : HbfInt Int) (b1 b2 : List Int), d.WF ∧ b1 ≠ [] ∧ b2 ≠ [] ∧ d.Adm b1 ∧ d.Adm b2 ∧ d.Adm (b1 ++ b2) :=
  ⟨nvA_int9, [5], [6, 7, 8], nvA_int9_wf, by decide, by decide, (by decide : 2 * 1 ≤ nvA_int9.blockMax),
    (by decide : 2 * 3 ≤ nvA_int9.blockMax), (by decide : 2 * 4 ≤ nvA_int9.blockMax)⟩

/-- `block_size()`-conforming blocks are admissible for the Rust-shaped decimator cascade at depth 4 (this is the
    anonymous `example` at the end of `C14.lean`, named) -/
theorem nvA_rustDec4_adm (x : List Int) (hg : 2 ^ 4 ∣ x.length) (hm : x.length ≤ 1024) : (rustShapeDec 4).Adm x := by
  apply hbfdec_cascade_adm_of_block_size (rustShapeDec 4) (rustShapeDec_wf 4 (by omega)) _ x hg
  · intro _
    simpa [rustShapeDec, HbfDec.blockMax, HbfDec.new, SymFir.new, -List.reduceReplicate] using hm
  · intro j hj
    have hj' : j + 1 < 4 := hj
    match j, hj' with
    | 0, _ => simp [rustShapeDec, HbfDec.blockMax, HbfDec.new, SymFir.new, -List.reduceReplicate]
    | 1, _ => simp [rustShapeDec, HbfDec.blockMax, HbfDec.new, SymFir.new, -List.reduceReplicate]
    | 2, _ => simp [rustShapeDec, HbfDec.blockMax, HbfDec.new, SymFir.new, -List.reduceReplicate]

theorem nvA_rustInt4_adm (x : List Int) (hm : x.length * 2 ^ 4 ≤ 1024) : (rustShapeInt 4).Adm x := by
  apply hbfint_cascade_adm_of_block_size (rustShapeInt 4) (rustShapeInt_wf 4 (by omega)) _ x
  · intro _
    simpa [rustShapeInt, HbfInt.blockMax, HbfInt.new, SymFir.new, -List.reduceReplicate] using hm
  · intro j hj
    have hj' : j + 1 < 4 := hj
    match j, hj' with
    | 0, _ => simp [rustShapeInt, HbfInt.blockMax, HbfInt.new, SymFir.new, -List.reduceReplicate]
    | 1, _ => simp [rustShapeInt, HbfInt.blockMax, HbfInt.new, SymFir.new, -List.reduceReplicate]
    | 2, _ => simp [rustShapeInt, HbfInt.blockMax, HbfInt.new, SymFir.new, -List.reduceReplicate]

/-- 48 non-constant samples -/
def nvA_ramp48 : List Int := (List.range 48).map (fun n : Nat => (n : Int) * (n : Int) - 100)

/-- non-vacuity of `hbfdec_cascade_blocks_spec`, `hbfdec_cascade_output_length`,
    `hbfdec_cascade_partition_invariant`: the Rust-shaped cascade (`M = 23, 9, 5, 4`) at depth 4, 48 samples cut as
    `16 + 32` and as one block of `48` -/
example : ∃ (c : HbfDecCascade Int) (bs1 bs2 : List (List Int)), c.WF ∧ bs1.length ≠ bs2.length ∧
    bs1.flatten = bs2.flatten ∧ bs2.flatten.length = 48 ∧ (∀ b ∈ bs1, c.Adm b) ∧ (∀ b ∈ bs2, c.Adm b) := by
  refine ⟨rustShapeDec 4, [nvA_ramp48.take 16, nvA_ramp48.drop 16], [nvA_ramp48], rustShapeDec_wf 4 (by decide),
    by decide, by simp, by decide, ?_, ?_⟩
  · intro b hb
    simp only [List.mem_cons, List.not_mem_nil, or_false] at hb
    rcases hb with rfl | rfl <;> exact nvA_rustDec4_adm _ (by decide) (by decide)
  · intro b hb
    simp only [List.mem_cons, List.not_mem_nil, or_false] at hb
    subst hb; exact nvA_rustDec4_adm _ (by decide) (by decide)

/-- non-vacuity of `hbfint_cascade_blocks_spec`, `hbfint_cascade_output_length`,
    `hbfint_cascade_partition_invariant`: the Rust-shaped interpolator cascade at depth 4 (`≤ 64` inputs per block) -/
example : ∃ (c : HbfIntCascade Int) (bs1 bs2 : List (List Int)), c.WF ∧ bs1.length ≠ bs2.length ∧
    bs1.flatten = bs2.flatten ∧ bs2.flatten.length = 48 ∧ (∀ b ∈ bs1, c.Adm b) ∧ (∀ b ∈ bs2, c.Adm b) := by
  refine ⟨rustShapeInt 4, [nvA_ramp48.take 5, nvA_ramp48.drop 5], [nvA_ramp48], rustShapeInt_wf 4 (by decide),
    by decide, by simp, by decide, ?_, ?_⟩
  · intro b hb
    simp only [List.mem_cons, List.not_mem_nil, or_false] at hb
    rcases hb with rfl | rfl <;> exact nvA_rustInt4_adm _ (by decide)
  · intro b hb
    simp only [List.mem_cons, List.not_mem_nil, or_false] at hb
    subst hb; exact nvA_rustInt4_adm _ (by decide)

/-! ## C06

Skipped — no hypotheses: `pll_gap`.  Skipped — independent range facts: `pll_mul_fits`, `pll_freq_decoupled`. -/

/-- non-vacuity of `pll_total`, `pll_gap_iter`: the state after the pinned `mini` update
    (`update(Some(0x10000), 1 << 24)` from default) is in range; a further in-range sample -/
example : ∃ (s : PLL) (x : Option Int), s ≠ PLL.default ∧ s.inRange ∧ x ≠ none ∧ ∀ v, x = some v → inI 32 v = true :=
  ⟨PLL.default.update (some 0x10000) (2 ^ 24), some 0x20000, by decide, by decide, by decide,
    fun v hv => by cases hv; decide⟩

/-- non-vacuity of `pll_freq_descent`, each of the five inner case hypotheses: `k = 2^24` and residues with high word
    `G = 0x12345678 ≥ 1`, `G = 0`, `G = -5`, `G = -2^31` -/
example : ∃ (k g1 g2 g3 g4 : Int), 2 ^ 8 ≤ k ∧ k < 2 ^ 31 ∧
    (-2 ^ 63 ≤ g1 ∧ g1 < 2 ^ 63 ∧ 0 ≤ g1 / 2 ^ 32 ∧ 1 ≤ g1 / 2 ^ 32) ∧
    (-2 ^ 63 ≤ g2 ∧ g2 < 2 ^ 63 ∧ g2 / 2 ^ 32 = 0 ∧ g2 ≠ 0) ∧
    (-2 ^ 63 ≤ g3 ∧ g3 < 2 ^ 63 ∧ -2 ^ 31 < g3 / 2 ^ 32 ∧ g3 / 2 ^ 32 < 0) ∧
    (-2 ^ 63 ≤ g4 ∧ g4 < 2 ^ 63 ∧ g4 / 2 ^ 32 = -2 ^ 31) :=
  ⟨2 ^ 24, 0x123456789abcdef0, 0x12345678, -5 * 2 ^ 32 + 7, -2 ^ 63 + 12345, by decide, by decide, by decide, by decide,
    by decide, by decide⟩

/-- non-vacuity of `pll_locked_bounds`, `pll_locked_invariant`: the locked state of the `example` after
    `pll_locked_invariant`, together with the range facts (`k = 2^24`, `F = 0x71f63049`) -/
example : ∃ (k F : Int) (s : PLL), 2 ^ 8 ≤ k ∧ k < 2 ^ 31 ∧ inI 32 F = true ∧ Locked k F s :=
  ⟨2 ^ 24, 0x71f63049, ⟨1000, 1009, 0x71f63049, 0x71f63049 * 2 ^ 32 + 0x12345678,
    (1000 + 10) * 2 ^ 32 - 20 * 2 ^ 24 + 77⟩, by decide, by decide, by decide, by decide⟩

/-- non-vacuity of `pll_locks_sharp`, `pll_locks`, `pll_C06`: `k = 2^24`, the `converge` test's frequency, a
    non-default in-range start state, `n = 16448 = 64·(2^32/2^24) + 64 ≥ 65·(2^31/2^24) + 69 = 8389` -/
example : ∃ (k F x1 : Int) (s : PLL) (n : Nat), 2 ^ 8 ≤ k ∧ k < 2 ^ 31 ∧ inI 32 F = true ∧ inI 32 x1 = true ∧
    s.inRange ∧ 65 * (2 ^ 31 / k) + 69 ≤ (n : Int) ∧ 64 * (2 ^ 32 / k) + 64 ≤ (n : Int) ∧
    64 * (2 ^ 32 / k) + 64 ≤ (n : Int) + 1 :=
  ⟨2 ^ 24, 0x71f63049, -0x12345678, PLL.default.update (some 0x10000) (2 ^ 24), 16448, by decide, by decide, by decide,
    by decide, by decide, by decide, by decide, by decide⟩

/-! ## C10

Skipped — independent range facts on free variables (every `i64` state, every `i32` input, every `1 ≤ k ≤ 2^31−1`;
instantiated by the `example` at the end of `C10.lean`): `lp1_step`, `lp1_between`, `lp1_dc_reaches`, `lp_set_get`.
Skipped — no hypotheses: `lp2_fullscale_overflow_witness`. -/

/-- non-vacuity of `lp1_dc_fixed`: `k = 2^24`, raw state `1000·2^32 + 12345` (so `get() = 1000`), input `1000` -/
example : ∃ (s x k : Int), inI 64 s = true ∧ inI 32 x = true ∧ 1 ≤ k ∧ k ≤ 2 ^ 31 - 1 ∧ lpGet s = x :=
  ⟨1000 * 2 ^ 32 + 12345, 1000, 2 ^ 24, by decide, by decide, by decide, by decide, by decide⟩

/-- non-vacuity of `lp2_step_linear`, `lp2_fixed_point_iff`: Butterworth `k = 459273616`
    (`[k0, k1] = [49111492, -649510976]`), the state reached from `set(0)` after 5 updates with constant input `10^6`
    (a NON-resting state: `s1 ≠ 0`, `get() = 375249 ≠ x`), all seven no-overflow side conditions -/
example : ∃ (s0 s1 x k0 k1 d : Int), inI 64 s0 = true ∧ inI 32 x = true ∧ k0 ≠ 0 ∧ s1 ≠ 0 ∧
    d = satI 32 (x - s0 / 4294967296) * k0 + s1 / 4294967296 * k1 ∧
    inI 64 (satI 32 (x - s0 / 4294967296) * k0) = true ∧ inI 64 (s1 / 4294967296 * k1) = true ∧
    inI 64 d = true ∧ inI 64 (s1 + d) = true ∧ inI 64 (s0 + (s1 + d)) = true ∧
    inI 64 (s0 + 2 * (s1 + d)) = true ∧ inI 64 (s1 + 2 * d) = true :=
  ⟨1611683805840416, 228189107695520, 1000000, 49111492, -649510976, _, by decide, by decide, by decide, by decide, rfl,
    by decide, by decide, by decide, by decide, by decide, by decide, by decide⟩

/-- … and the resting side of `lp2_fixed_point_iff`: `s1 = 0`, `get() = x = 10^6` satisfies the same side conditions -/
example : ∃ (s0 s1 x k0 k1 : Int), inI 64 s0 = true ∧ inI 32 x = true ∧ k0 ≠ 0 ∧ (s1 = 0 ∧ s0 / 4294967296 = x) ∧
    inI 64 (satI 32 (x - s0 / 4294967296) * k0) = true ∧ inI 64 (s1 / 4294967296 * k1) = true ∧
    inI 64 (satI 32 (x - s0 / 4294967296) * k0 + s1 / 4294967296 * k1) = true ∧
    inI 64 (s1 + (satI 32 (x - s0 / 4294967296) * k0 + s1 / 4294967296 * k1)) = true ∧
    inI 64 (s0 + (s1 + (satI 32 (x - s0 / 4294967296) * k0 + s1 / 4294967296 * k1))) = true ∧
    inI 64 (s0 + 2 * (s1 + (satI 32 (x - s0 / 4294967296) * k0 + s1 / 4294967296 * k1))) = true ∧
    inI 64 (s1 + 2 * (satI 32 (x - s0 / 4294967296) * k0 + s1 / 4294967296 * k1)) = true :=
  ⟨1000000 * 2 ^ 32 + 777, 0, 1000000, 49111492, -649510976, by decide, by decide, by decide, by decide, by decide,
    by decide, by decide, by decide, by decide, by decide, by decide⟩

end Idsp
