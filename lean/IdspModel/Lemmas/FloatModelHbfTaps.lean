import IdspModel.Lemmas.FloatModelHbfRun
import IdspModel.Lemmas.HbfSpecTaps
import Mathlib.Data.Rat.Cast.Order
/-!
  The published tap sets `HBF_TAPS` (`Lemmas/HbfSpecTaps.lean`) as real lists, their weighted norms
  `Σ_l (M − l + s)·|t_l|` (term `l` weighted by the number of roundings it passes through) evaluated by the kernel
  over `ℚ`, and the resulting numeric rounding constants for `u = 2^-24`.
-/
namespace Idsp
open Finset

/-- `Σ_l (M − l + s)·|t_l|` by recursion on the list (`M − l − 1` items follow item `l`) -/
def fhbfWnormQ : List ℚ → ℕ → ℚ
  | [], _ => 0
  | t :: ts, s => ((ts.length + 1 + s : ℕ) : ℚ) * |t| + fhbfWnormQ ts s

noncomputable def fhbfWnorm : List ℝ → ℕ → ℝ
  | [], _ => 0
  | t :: ts, s => ((ts.length + 1 + s : ℕ) : ℝ) * |t| + fhbfWnorm ts s

theorem fhbfWnorm_cast (taps : List ℚ) (s : ℕ) :
    fhbfWnorm (taps.map (Rat.cast : ℚ → ℝ)) s = ((fhbfWnormQ taps s : ℚ) : ℝ) := by
  induction taps with
  | nil => simp [fhbfWnorm, fhbfWnormQ]
  | cons t ts ih =>
    simp only [List.map_cons, fhbfWnorm, fhbfWnormQ, ih, List.length_map]
    push_cast
    rfl

theorem fhbf_wsum_eq (taps : List ℝ) (s : ℕ) :
    ∑ l ∈ range taps.length, ((taps.length - l + s : ℕ) : ℝ) * |taps.getD l 0| = fhbfWnorm taps s := by
  induction taps with
  | nil => simp [fhbfWnorm]
  | cons t ts ih =>
    rw [List.length_cons, Finset.sum_range_succ', fhbfWnorm, ← ih]
    simp only [Nat.add_sub_add_right, List.getD_cons_succ, List.getD_cons_zero, Nat.sub_zero]
    rw [add_comm]

/-- the published tap set `j` (`j = 0..4`: 23, 9, 5, 4, 3 taps) as real numbers -/
noncomputable def fhbfTapsR (j : ℕ) : List ℝ := (hbfTapsQ j).map (Rat.cast : ℚ → ℝ)

theorem fhbfTapsR_length (j : ℕ) : (fhbfTapsR j).length = (hbfTapsQ j).length := by simp [fhbfTapsR]

/-- per-term weighted form of the decimator bound: with `γ_k ≤ (k+1)·u`,
    `fhbfDecBound ≤ u·max|x|·(3/2 + Σ_l (M − l + 5)·|t_l|)` -/
theorem fhbfDecBound_le_weighted {u : ℝ} (hu : 0 ≤ u) (taps : List ℝ)
    (hK : ((taps.length + 4 : ℕ) : ℝ) * (((taps.length + 4 : ℕ) : ℝ) + 1) * u ≤ 1)
    (w : ℤ → ℝ) (B : ℝ) (hw : ∀ k, |w k| ≤ B) (n : ℤ) :
    fhbfDecBound u taps w n ≤ u * B * (3 / 2 + fhbfWnorm taps 5) := by
  have hB : 0 ≤ B := (abs_nonneg _).trans (hw 0)
  have hg : ∀ K : ℕ, K ≤ taps.length + 4 → gam u K ≤ ((K : ℝ) + 1) * u := by
    intro K hKle
    refine fhbf_gam_le_succ_mul hu K (le_trans ?_ hK)
    have h1 : (K : ℝ) ≤ ((taps.length + 4 : ℕ) : ℝ) := by exact_mod_cast hKle
    have h0 : (0 : ℝ) ≤ K := Nat.cast_nonneg K
    refine mul_le_mul_of_nonneg_right ?_ hu
    nlinarith
  have h2 : gam u 2 * |w (n - (2 * taps.length - 1))| ≤ 3 * u * B := by
    have := hg 2 (by omega)
    have h3 : gam u 2 ≤ 3 * u := by push_cast at this; linarith
    exact mul_le_mul h3 (hw _) (abs_nonneg _) (by positivity)
  have h1 : ∑ l ∈ range taps.length, gam u (taps.length - l + 4) *
      |(w (n - (4 * taps.length - 2 - 2 * l)) + w (n - 2 * l)) * taps.getD l 0| ≤
      2 * (u * B) * fhbfWnorm taps 5 := by
    rw [← fhbf_wsum_eq, Finset.mul_sum]
    refine Finset.sum_le_sum fun l hl => ?_
    have hl' := Finset.mem_range.mp hl
    have a := hg (taps.length - l + 4) (by omega)
    have b := fhbf_pair_term_le w B hw (n - (4 * taps.length - 2 - 2 * l)) (n - 2 * l) (taps.getD l 0)
    have c : ((taps.length - l + 4 : ℕ) : ℝ) + 1 = ((taps.length - l + 5 : ℕ) : ℝ) := by push_cast; ring
    rw [c] at a
    have hpos : (0 : ℝ) ≤ ((taps.length - l + 5 : ℕ) : ℝ) * u := by positivity
    calc gam u (taps.length - l + 4) * |(w (n - (4 * taps.length - 2 - 2 * l)) + w (n - 2 * l)) * taps.getD l 0|
        ≤ (((taps.length - l + 5 : ℕ) : ℝ) * u) * (2 * B * |taps.getD l 0|) :=
          mul_le_mul a b (abs_nonneg _) hpos
      _ = 2 * (u * B) * (((taps.length - l + 5 : ℕ) : ℝ) * |taps.getD l 0|) := by ring
  unfold fhbfDecBound
  nlinarith

/-- per-term weighted form of the interpolator bound: `fhbfIntBound ≤ u·max|x|·2·Σ_l (M − l + 3)·|t_l|` -/
theorem fhbfIntBound_le_weighted {u : ℝ} (hu : 0 ≤ u) (taps : List ℝ)
    (hK : ((taps.length + 2 : ℕ) : ℝ) * (((taps.length + 2 : ℕ) : ℝ) + 1) * u ≤ 1)
    (w : ℤ → ℝ) (B : ℝ) (hw : ∀ k, |w k| ≤ B) (n : ℤ) :
    fhbfIntBound u taps w n ≤ u * B * (2 * fhbfWnorm taps 3) := by
  have hB : 0 ≤ B := (abs_nonneg _).trans (hw 0)
  have hg : ∀ K : ℕ, K ≤ taps.length + 2 → gam u K ≤ ((K : ℝ) + 1) * u := by
    intro K hKle
    refine fhbf_gam_le_succ_mul hu K (le_trans ?_ hK)
    have h1 : (K : ℝ) ≤ ((taps.length + 2 : ℕ) : ℝ) := by exact_mod_cast hKle
    have h0 : (0 : ℝ) ≤ K := Nat.cast_nonneg K
    refine mul_le_mul_of_nonneg_right ?_ hu
    nlinarith
  unfold fhbfIntBound
  rw [← fhbf_wsum_eq, Finset.mul_sum, Finset.mul_sum]
  refine Finset.sum_le_sum fun l hl => ?_
  have hl' := Finset.mem_range.mp hl
  have a := hg (taps.length - l + 2) (by omega)
  have b := fhbf_pair_term_le w B hw (n - (4 * taps.length - 2 - 2 * l)) (n - 2 * l) (taps.getD l 0)
  have c : ((taps.length - l + 2 : ℕ) : ℝ) + 1 = ((taps.length - l + 3 : ℕ) : ℝ) := by push_cast; ring
  rw [c] at a
  have hpos : (0 : ℝ) ≤ ((taps.length - l + 3 : ℕ) : ℝ) * u := by positivity
  calc gam u (taps.length - l + 2) * |(w (n - (4 * taps.length - 2 - 2 * l)) + w (n - 2 * l)) * taps.getD l 0|
      ≤ (((taps.length - l + 3 : ℕ) : ℝ) * u) * (2 * B * |taps.getD l 0|) :=
        mul_le_mul a b (abs_nonneg _) hpos
    _ = u * B * (2 * (((taps.length - l + 3 : ℕ) : ℝ) * |taps.getD l 0|)) := by ring

/-- the numeric constants: `3/2 + Σ_l (M − l + 5)|t_l|` (decimator) and `2·Σ_l (M − l + 3)|t_l|` (interpolator) for the
    five published tap sets, rounded up to integers -/
def fhbfDecConst : ℕ → ℚ
  | 0 => 11 | 1 => 8 | 2 => 7 | 3 => 7 | _ => 6
def fhbfIntConst : ℕ → ℚ
  | 0 => 14 | 1 => 9 | 2 => 7 | 3 => 7 | _ => 6

set_option maxRecDepth 4000 in
theorem fhbfDecConst_ok (j : ℕ) : 3 / 2 + fhbfWnormQ (hbfTapsQ j) 5 ≤ fhbfDecConst j := by
  match j with
  | 0 => decide +kernel
  | 1 => decide +kernel
  | 2 => decide +kernel
  | 3 => decide +kernel
  | n + 4 =>
    show 3 / 2 + fhbfWnormQ hbfTapsQ4 5 ≤ 6
    decide +kernel

set_option maxRecDepth 4000 in
theorem fhbfIntConst_ok (j : ℕ) : 2 * fhbfWnormQ (hbfTapsQ j) 3 ≤ fhbfIntConst j := by
  match j with
  | 0 => decide +kernel
  | 1 => decide +kernel
  | 2 => decide +kernel
  | 3 => decide +kernel
  | n + 4 =>
    show 2 * fhbfWnormQ hbfTapsQ4 3 ≤ 6
    decide +kernel

theorem fhbfDecConst_ok_real (j : ℕ) : 3 / 2 + fhbfWnorm (fhbfTapsR j) 5 ≤ ((fhbfDecConst j : ℚ) : ℝ) := by
  rw [fhbfTapsR, fhbfWnorm_cast]
  have h : ((3 / 2 + fhbfWnormQ (hbfTapsQ j) 5 : ℚ) : ℝ) ≤ ((fhbfDecConst j : ℚ) : ℝ) :=
    Rat.cast_le.mpr (fhbfDecConst_ok j)
  push_cast at h
  exact h

theorem fhbfIntConst_ok_real (j : ℕ) : 2 * fhbfWnorm (fhbfTapsR j) 3 ≤ ((fhbfIntConst j : ℚ) : ℝ) := by
  rw [fhbfTapsR, fhbfWnorm_cast]
  have h : ((2 * fhbfWnormQ (hbfTapsQ j) 3 : ℚ) : ℝ) ≤ ((fhbfIntConst j : ℚ) : ℝ) :=
    Rat.cast_le.mpr (fhbfIntConst_ok j)
  push_cast at h
  exact h

/-- every published tap set has at most 23 taps -/
theorem fhbfTapsR_length_le (j : ℕ) : 1 ≤ (fhbfTapsR j).length ∧ (fhbfTapsR j).length ≤ 23 := by
  rw [fhbfTapsR_length]
  match j with
  | 0 => decide
  | 1 => decide
  | 2 => decide
  | 3 => decide
  | n + 4 =>
    show 1 ≤ hbfTapsQ4.length ∧ hbfTapsQ4.length ≤ 23
    decide

end Idsp
