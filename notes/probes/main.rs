use idsp::*;
use std::panic::catch_unwind;
fn main() {
    std::panic::set_hook(Box::new(|_| {}));
    println!("atan2(3,3) = {:?}", catch_unwind(|| atan2(3, 3)));
    println!("atan2(1,1) = {:?}", catch_unwind(|| atan2(1, 1)));
    println!("atan2(2,2) = {:?}", catch_unwind(|| atan2(2, 2)));
    println!("atan2(1,0) = {:?}", catch_unwind(|| atan2(1, 0)));
    println!("atan2(MIN,MIN) = {:?}", catch_unwind(|| atan2(i32::MIN, i32::MIN)));
    println!("atan2(MAX,MAX) = {:?}", catch_unwind(|| atan2(i32::MAX, i32::MAX)));
    println!("dsm0 = {:?}", catch_unwind(|| Dsm::<0>::default().update(5)));
    println!("sat32 = {:?}", catch_unwind(|| saturating_scale(-5, 7, 32)));
    println!("sat32min = {:?}", catch_unwind(|| saturating_scale(-5, i32::MIN, 32)));
    println!("sat24 a = {:?}", saturating_scale(i32::MIN, -(1<<23)+1, 24));
    println!("sat24 b = {:?}", saturating_scale(0, -(1<<23), 24));
    println!("sweep = {:?}", catch_unwind(|| Sweep::new(1, i64::MAX).next()));
    println!("lp2 = {:?}", catch_unwind(|| { let mut l = Lowpass2::default(); let k=[ ((1i64<<24)*(1i64<<24) >> 32) as i32, -(((1i64<<24) as f64)*2f64.sqrt()) as i32]; let mut m=0; for _ in 0..100000 { m = m.max(l.update(i32::MAX, &k)); } m }));
    // dsm8
    println!("dsm8 = {:?}", catch_unwind(|| { let mut d = Dsm::<8>::default(); let mut mx=i8::MIN; let mut mn=i8::MAX; let mut s=12345u32; for _ in 0..10_000_000 { s = s.wrapping_mul(1664525).wrapping_add(1013904223); let y=d.update(s); mx=mx.max(y); mn=mn.min(y);} (mn,mx)}));
    let f = iir::Filter::<f64>::default().critical_frequency(0.1).gain(-2.0).shelf_slope(2.0).shelf(4.0).lowshelf();
    println!("slope neg gain {:?}", f);
    let f = iir::Filter::<f64>::default().critical_frequency(0.1).gain(2.0).shelf_slope(2.0).shelf(4.0).lowshelf();
    println!("slope gain 2 {:?}", f);
    let f = iir::Filter::<f64>::default().critical_frequency(0.1).gain(1.0).shelf_slope(2.0).shelf(4.0).lowshelf();
    println!("slope gain 1 {:?}", f);
}
