import IdspModel.Lemmas.Lp2BigNum
/-!
# Second-order lowpass, large steps: the decay certificate for `N = ⌊2^32/b⌋ ≥ 3`
-/
namespace Idsp
set_option linter.unusedVariables false

theorem bg_NK {k a b N : Int} (h : Lp2Butter k a b) (hN0 : 0 ≤ N) (hbN : b * N ≤ 4294967296) :
    N * bgK a b ≤ a ^ 3 * 4294967296 ^ 2 * 1000000000000000 := by
  have ha := h.a_ge; have hbg := h.b_ge; have hbl := h.b_le; have haMb := h.aM_le_bsq
  obtain ⟨hK0, -, hK1⟩ := bg_K_spec h
  obtain ⟨-, hUC2⟩ := bg_UC_le h
  have hUC0 : 0 ≤ bgUC a b ^ 2 := sq_nonneg _
  -- b²M·(N K) = (bN)(bM·K) ≤ M·(4(b+32M)UC² + bM)
  have h1 : (b * N) * (b * 4294967296 * bgK a b)
      ≤ 4294967296 * (4 * (b + 32 * 4294967296) * bgUC a b ^ 2 + b * 4294967296) := by
    have hx : 0 ≤ b * 4294967296 * bgK a b := by positivity
    calc (b * N) * (b * 4294967296 * bgK a b) ≤ 4294967296 * (b * 4294967296 * bgK a b) :=
          mul_le_mul_of_nonneg_right hbN hx
      _ ≤ _ := mul_le_mul_of_nonneg_left hK1 (by norm_num)
  have h2 : 4 * (b + 32 * 4294967296) * bgUC a b ^ 2 ≤ 132 * 4294967296 * bgUC a b ^ 2 := by
    have : 4 * (b + 32 * 4294967296) ≤ 132 * 4294967296 := by omega
    exact mul_le_mul_of_nonneg_right this hUC0
  have h3 : 132 * 4294967296 * bgUC a b ^ 2 ≤ 132 * 4294967296 * (a ^ 4 * 4294967296 ^ 2 * 4964986650625) :=
    mul_le_mul_of_nonneg_left hUC2 (by norm_num)
  have h4 : (a * 4294967296) * 4294967296 * (a ^ 3 * 4294967296 ^ 2 * 1000000000000000)
      ≤ b ^ 2 * 4294967296 * (a ^ 3 * 4294967296 ^ 2 * 1000000000000000) := by
    have := mul_le_mul_of_nonneg_right haMb (show (0 : Int) ≤ 4294967296 * (a ^ 3 * 4294967296 ^ 2 * 1000000000000000) by positivity)
    linarith
  have hfin : b ^ 2 * 4294967296 * (N * bgK a b)
      ≤ b ^ 2 * 4294967296 * (a ^ 3 * 4294967296 ^ 2 * 1000000000000000) := by
    have e1 : b ^ 2 * 4294967296 * (N * bgK a b) = (b * N) * (b * 4294967296 * bgK a b) := by ring
    have ha4 : 1 ≤ a ^ 4 := one_le_pow₀ ha
    have hbM2 : 4294967296 * (b * 4294967296) ≤ a ^ 4 * 4294967296 ^ 4 := by nlinarith
    have e2 : (a * 4294967296) * 4294967296 * (a ^ 3 * 4294967296 ^ 2 * 1000000000000000)
        = a ^ 4 * 4294967296 ^ 4 * 1000000000000000 := by ring
    have e3 : 4294967296 * (132 * 4294967296 * (a ^ 4 * 4294967296 ^ 2 * 4964986650625))
        = a ^ 4 * 4294967296 ^ 4 * 655378237882500 := by ring
    have hq : 0 ≤ a ^ 4 * 4294967296 ^ 4 := by positivity
    nlinarith
  exact le_of_mul_le_mul_left hfin (by positivity)

/-- **the decay certificate** for `N ≥ 3` (`3b ≤ 2^32`, i.e. `k ≤ 1012333499`) -/
theorem bg_V {k a b e0 s0 : Int} {N : Nat} (h : Lp2Butter k a b) (hb3 : 3 * b ≤ 4294967296) (hN3 : 3 ≤ N)
    (hbN : b * N ≤ 4294967296)
    (he0 : 2 * a * 4294967296 * 804782080 ≤ e0) (he1 : e0 ≤ 2 * a * 4294967296 * 2148007936)
    (hs0 : -bgS0 a ≤ s0) (hs1 : s0 ≤ bgS0 a) :
    (32 * 4294967296 + b) * (4 * (N : Int) ^ 2) * (536870912 + 1) * lp2Q a b e0 s0
      + (31 * 4294967296 + b) * (5 * (N : Int) - 1) ^ 2 * (536870912 + 1 - N) * (N * bgK a b)
    ≤ (31 * 4294967296 + b) * (5 * (N : Int) - 1) ^ 2 * (536870912 + 1 - N) * bgVH a b := by
  have ha := h.a_ge; have hbg := h.b_ge
  have hNi : (3 : Int) ≤ N := by exact_mod_cast hN3
  have hNle : (N : Int) ≤ 46481 := by
    by_contra hc
    have : b * 46482 ≤ b * N := mul_le_mul_of_nonneg_left (by omega) (by omega)
    omega
  obtain ⟨hV00, hV0⟩ := bg_V0 h he0 he1 hs0 hs1
  have hNK := bg_NK h (show (0 : Int) ≤ N by omega) hbN
  obtain ⟨-, hVH⟩ := bg_VH_spec h hb3
  generalize lp2Q a b e0 s0 = V0 at *
  generalize bgVH a b = VH at *
  generalize (N : Int) * bgK a b = NK at *
  -- 100·cR ≤ 19·cL
  have f1 : 31 * (32 * 4294967296 + b) ≤ 32 * (31 * 4294967296 + b) := by omega
  have f2 : 49 * (4 * (N : Int) ^ 2) ≤ 9 * (5 * (N : Int) - 1) ^ 2 := by
    have : (14 * (N : Int)) ^ 2 ≤ (3 * (5 * (N : Int) - 1)) ^ 2 := pow_le_pow_left₀ (by omega) (by omega) 2
    nlinarith
  have f3 : 10000 * ((536870912 : Int) + 1) ≤ 10002 * (536870912 + 1 - N) := by omega
  have hcL0 : 0 ≤ (31 * 4294967296 + b) * (5 * (N : Int) - 1) ^ 2 * (536870912 + 1 - N) := by
    have : (0 : Int) ≤ 536870912 + 1 - N := by omega
    have : (0 : Int) ≤ 31 * 4294967296 + b := by omega
    positivity
  have hcR : 100 * ((32 * 4294967296 + b) * (4 * (N : Int) ^ 2) * (536870912 + 1))
      ≤ 19 * ((31 * 4294967296 + b) * (5 * (N : Int) - 1) ^ 2 * (536870912 + 1 - N)) := by
    have g1 : (31 * (32 * 4294967296 + b)) * (49 * (4 * (N : Int) ^ 2))
        ≤ (32 * (31 * 4294967296 + b)) * (9 * (5 * (N : Int) - 1) ^ 2) :=
      mul_le_mul f1 f2 (by positivity) (by omega)
    have g2 : (31 * (32 * 4294967296 + b)) * (49 * (4 * (N : Int) ^ 2)) * (10000 * ((536870912 : Int) + 1))
        ≤ (32 * (31 * 4294967296 + b)) * (9 * (5 * (N : Int) - 1) ^ 2) * (10002 * (536870912 + 1 - N)) :=
      mul_le_mul g1 f3 (by norm_num) (by have : (0 : Int) ≤ 31 * 4294967296 + b := by omega
                                         positivity)
    have e1 : (31 * (32 * 4294967296 + b)) * (49 * (4 * (N : Int) ^ 2)) * (10000 * ((536870912 : Int) + 1))
        = 15190000 * ((32 * 4294967296 + b) * (4 * (N : Int) ^ 2) * (536870912 + 1)) := by ring
    have e2 : (32 * (31 * 4294967296 + b)) * (9 * (5 * (N : Int) - 1) ^ 2) * (10002 * (536870912 + 1 - N))
        = 2880576 * ((31 * 4294967296 + b) * (5 * (N : Int) - 1) ^ 2 * (536870912 + 1 - N)) := by ring
    linarith
  generalize (32 * 4294967296 + b) * (4 * (N : Int) ^ 2) * (536870912 + 1) = cR at *
  generalize (31 * 4294967296 + b) * (5 * (N : Int) - 1) ^ 2 * (536870912 + 1 - N) = cL at *
  generalize a ^ 3 * 4294967296 ^ 2 = P at *
  have hP0 : 0 ≤ P := by nlinarith
  -- cR·V0 ≤ 0.19·cL·V0 ≤ cL·P·3.5093e18
  have s1 : 100 * (cR * V0) ≤ 19 * (cL * V0) := by
    have := mul_le_mul_of_nonneg_right hcR hV00; linarith
  have s2 : 1000 * (cL * V0) ≤ cL * (P * 18470000000000000000000) := by
    have := mul_le_mul_of_nonneg_left hV0 hcL0; linarith
  have s3 : cL * NK ≤ cL * (P * 1000000000000000) := mul_le_mul_of_nonneg_left hNK hcL0
  have s4 : cL * (P * 4250000000000000000) ≤ cL * VH := mul_le_mul_of_nonneg_left hVH hcL0
  have hcLP : 0 ≤ cL * P := mul_nonneg hcL0 hP0
  nlinarith

/-- the level `bgVH` lies above the equilibrium level of the decay recursion (`tn = b`, `td = 32·2^32`) -/
theorem bg_level {k a b : Int} (h : Lp2Butter k a b) :
    b * (b + 32 * 4294967296) * (4294967296 * (4294967296 + 2 * a - 2 * b))
        ≤ b * (32 * 4294967296) * 4294967296 ^ 2 ∧
    (b * (32 * 4294967296) * 4294967296 ^ 2) * bgK a b
      ≤ (b * (32 * 4294967296) * 4294967296 ^ 2
          - b * (b + 32 * 4294967296) * (4294967296 * (4294967296 + 2 * a - 2 * b))) * bgVH a b := by
  have ha := h.a_ge; have hbg := h.b_ge; have hbl := h.b_le; have hal := h.a_le; have haMb := h.aM_le_bsq
  have haM : 2 * (a * 4294967296) ≤ (b + 1) ^ 2 := by
    have := h.ha0; have := h.hb2; nlinarith
  obtain ⟨hK0, -, hK1⟩ := bg_K_spec h
  obtain ⟨-, hUC2⟩ := bg_UC_le h
  obtain ⟨-, hVH⟩ := bg_VH_spec' h
  -- X' ≥ 47·b·M
  have hX : 47 * (b * 4294967296)
      ≤ 32 * 4294967296 * 4294967296 - (b + 32 * 4294967296) * (4294967296 + 2 * a - 2 * b) := by
    have e1 : a * b ≤ 536870912 * b := mul_le_mul_of_nonneg_right hal (by omega)
    have e2 : b * b ≤ 2147483648 * b := mul_le_mul_of_nonneg_right (by omega) (by omega)
    nlinarith
  have hAB : b * (32 * 4294967296) * 4294967296 ^ 2
        - b * (b + 32 * 4294967296) * (4294967296 * (4294967296 + 2 * a - 2 * b))
      = (b * 4294967296) * (32 * 4294967296 * 4294967296 - (b + 32 * 4294967296) * (4294967296 + 2 * a - 2 * b)) := by
    ring
  have hbM0 : 0 ≤ b * 4294967296 := by positivity
  have hABlow : 47 * (b * 4294967296) * (b * 4294967296)
      ≤ b * (32 * 4294967296) * 4294967296 ^ 2
        - b * (b + 32 * 4294967296) * (4294967296 * (4294967296 + 2 * a - 2 * b)) := by
    rw [hAB]
    have := mul_le_mul_of_nonneg_left hX hbM0
    linarith
  constructor
  · have : 0 ≤ 47 * (b * 4294967296) * (b * 4294967296) := by positivity
    linarith
  · generalize b * (32 * 4294967296) * 4294967296 ^ 2
        - b * (b + 32 * 4294967296) * (4294967296 * (4294967296 + 2 * a - 2 * b)) = AB at *
    have hAB0 : 0 ≤ AB := le_trans (by positivity) hABlow
    -- A·K ≤ 32M·(132M·UC² + bM²)
    have hUC0 : 0 ≤ bgUC a b ^ 2 := sq_nonneg _
    have t1 : (b * (32 * 4294967296) * 4294967296 ^ 2) * bgK a b
        ≤ 32 * 4294967296 ^ 2 * (132 * 4294967296 * (a ^ 4 * 4294967296 ^ 2 * 4964986650625) + b * 4294967296) := by
      have e : (b * (32 * 4294967296) * 4294967296 ^ 2) * bgK a b
          = 32 * 4294967296 ^ 2 * (b * 4294967296 * bgK a b) := by ring
      rw [e]
      apply mul_le_mul_of_nonneg_left _ (by norm_num)
      have h2 : 4 * (b + 32 * 4294967296) * bgUC a b ^ 2 ≤ 132 * 4294967296 * bgUC a b ^ 2 := by
        have : 4 * (b + 32 * 4294967296) ≤ 132 * 4294967296 := by omega
        exact mul_le_mul_of_nonneg_right this hUC0
      have h3 : 132 * 4294967296 * bgUC a b ^ 2 ≤ 132 * 4294967296 * (a ^ 4 * 4294967296 ^ 2 * 4964986650625) :=
        mul_le_mul_of_nonneg_left hUC2 (by norm_num)
      linarith
    -- AB·VH ≥ 47·b²M²·a³M²·4.25e18 ≥ 47·a⁴M⁵·4.25e18
    have t2 : 47 * (a * 4294967296) * 4294967296 ^ 2 * (a ^ 3 * 4294967296 ^ 2 * 3600000000000000000) ≤ AB * bgVH a b := by
      have hP0 : 0 ≤ a ^ 3 * 4294967296 ^ 2 * 3600000000000000000 := by positivity
      have u1 : 47 * (a * 4294967296) * 4294967296 ^ 2 ≤ 47 * (b * 4294967296) * (b * 4294967296) := by nlinarith
      calc 47 * (a * 4294967296) * 4294967296 ^ 2 * (a ^ 3 * 4294967296 ^ 2 * 3600000000000000000)
          ≤ 47 * (b * 4294967296) * (b * 4294967296) * (a ^ 3 * 4294967296 ^ 2 * 3600000000000000000) :=
            mul_le_mul_of_nonneg_right u1 hP0
        _ ≤ AB * (a ^ 3 * 4294967296 ^ 2 * 3600000000000000000) := mul_le_mul_of_nonneg_right hABlow hP0
        _ ≤ AB * bgVH a b := mul_le_mul_of_nonneg_left hVH hAB0
    have ha4 : 1 ≤ a ^ 4 := one_le_pow₀ ha
    have hq : 0 ≤ a ^ 4 * 4294967296 ^ 4 := by positivity
    have e5 : 47 * (a * 4294967296) * 4294967296 ^ 2 * (a ^ 3 * 4294967296 ^ 2 * 3600000000000000000)
        = a ^ 4 * 4294967296 ^ 4 * (4294967296 * 169200000000000000000) := by ring
    have e6 : 32 * 4294967296 ^ 2 * (132 * 4294967296 * (a ^ 4 * 4294967296 ^ 2 * 4964986650625) + b * 4294967296)
        = a ^ 4 * 4294967296 ^ 4 * (4294967296 * 20972103612240000) + 32 * b * 4294967296 ^ 3 := by ring
    have e7 : 32 * b * 4294967296 ^ 3 ≤ a ^ 4 * 4294967296 ^ 4 * 16 := by nlinarith
    nlinarith

end Idsp
