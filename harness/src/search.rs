pub fn run(_prop: &str, _tier: &str, _seed: u64, _hints: Option<&str>) {
    println!("{{}}");
}
