import IdspModel.Lemmas.Quantize
import IdspModel.Lemmas.FloatModel
/-!
# `quantize` evaluated in floating point, under the explicit rounding model

`QuantFl u` = the standard model with the IEEE exactness law (`FlModelX u`, `Lemmas/FloatModel.lean`) plus the
operation `round` of `f32`/`f64`, which IEEE 754 (`roundToIntegralTiesToAway`) makes EXACT on every finite float: its
result is always representable (a float of magnitude `≥ 2^(p−1)` already is an integer, and every integer of
magnitude `≤ 2^p` is a float).  These are hypotheses (structure fields), not axioms; `QuantFl.exact` and
`QuantFl.roundOutside` are instances.

The float → integer `as` cast is `quantCast w x = satI w (trunc x)` (truncate toward zero, saturate; the `NaN → 0` arm
does not exist over `ℝ`).  The float pipeline of `quantize` is `quantizeFl M w q v = cast (round (fl(v × 2^q)))`.
Power-of-two scaling is exact in binary floating point unless it overflows or underflows: in the model this is
`mul_exact` with `rep (2^q)` (true for `q ≤ 127`) and `rep (v·2^q)` (no overflow/underflow) as explicit hypotheses.
-/
namespace Idsp

/-- the rounding model with the exact `round` operation of IEEE 754 -/
structure QuantFl (u : ℝ) extends FlModelX u where
  /-- `f32::round` / `f64::round` -/
  fround : ℝ → ℝ
  /-- `round` of a finite float is the exact round-half-away integer (always representable) -/
  round_exact : ∀ x, rep x → fround x = ((roundHalfAway x : ℤ) : ℝ)

/-- truncation toward zero (the first half of a float → int `as` cast) -/
noncomputable def quantTrunc (x : ℝ) : ℤ := if 0 ≤ x then ⌊x⌋ else ⌈x⌉

/-- Rust's saturating float → `w`-bit signed integer `as` cast on the reals -/
noncomputable def quantCast (w : ℕ) (x : ℝ) : ℤ := satI w (quantTrunc x)

theorem quantTrunc_intCast (k : ℤ) : quantTrunc (k : ℝ) = k := by
  unfold quantTrunc
  split
  · exact Int.floor_intCast k
  · exact Int.ceil_intCast k

theorem quantCast_intCast (w : ℕ) (k : ℤ) : quantCast w (k : ℝ) = satI w k := by
  unfold quantCast; rw [quantTrunc_intCast]

/-- the floating point evaluation of `quantize`: `(value * (1 << Q).as_()).round().as_()` -/
noncomputable def quantizeFl {u : ℝ} (M : QuantFl u) (w q : ℕ) (v : ℝ) : ℤ :=
  quantCast w (M.fround (M.fmul v (2 ^ q)))

theorem quantizeFl_eq_aux {u : ℝ} (M : QuantFl u) (w q : ℕ) (v : ℝ) (hv : M.rep v) (h2 : M.rep (2 ^ q))
    (hp : M.rep (v * 2 ^ q)) : quantizeFl M w q v = quantizeR w q v := by
  unfold quantizeFl quantizeR
  rw [M.mul_exact v (2 ^ q) hv h2 hp, M.round_exact _ hp, quantCast_intCast]

/-- exact arithmetic, every real representable -/
noncomputable def QuantFl.exact (u : ℝ) (hu : 0 ≤ u) : QuantFl u where
  toFlModelX := FlModelX.exact u hu
  fround x := ((roundHalfAway x : ℤ) : ℝ)
  round_exact _ _ := rfl

/-- a genuinely rounding instance: exact on the set `S`, relative error `u` outside (see `FlModelX.roundOutside`);
    `round` is only specified on `S` (it returns `0` elsewhere) -/
noncomputable def QuantFl.roundOutside (u : ℝ) (hu : 0 ≤ u) (S : ℝ → Prop) (h0 : S 0) (h1 : S 1)
    (hneg : ∀ x, S x → S (-x)) : QuantFl u := by
  classical
  exact
  { toFlModelX := FlModelX.roundOutside u hu S h0 h1 hneg
    fround := fun x => if S x then ((roundHalfAway x : ℤ) : ℝ) else 0
    round_exact := fun x hx => by
      have hx' : S x := hx
      simp [hx'] }

/-- the grid of multiples of `2^-10` (a toy "float format" for the non-vacuity examples) -/
def quantGrid (x : ℝ) : Prop := ∃ n : ℤ, x = (n : ℝ) / 1024

theorem quantGrid_zero : quantGrid 0 := ⟨0, by norm_num⟩
theorem quantGrid_one : quantGrid 1 := ⟨1024, by norm_num⟩
theorem quantGrid_neg (x : ℝ) (h : quantGrid x) : quantGrid (-x) := by
  obtain ⟨n, rfl⟩ := h
  exact ⟨-n, by push_cast; ring⟩

end Idsp
