import IdspModel.Lemmas.Lp2BigNum2
/-!
# Second-order lowpass, large steps: the decay certificate `V_N ≤ bgVH` for every documented pair

`N = ⌊2^32/b⌋`.  For `N ≥ 3` (`3b ≤ 2^32`) the Bernoulli bounds of `lp2_pow_bound` suffice (`bg_V`); for `N = 2`
(`2^32/3 < b ≤ 2^31`, the top of the `k` range) the two contraction factors are multiplied out exactly and bounded
factor by factor (`bg_cert2`).
-/
namespace Idsp
set_option linter.unusedVariables false

theorem lp2_VN_le {cL cR BN AN bMN VN V0 VH NK : Int} (hcL : 0 < cL) (hAN : 0 < AN) (hbMN : 0 < bMN)
    (hV00 : 0 ≤ V0) (hd : bMN * AN * VN ≤ bMN * BN * V0 + NK * (bMN * AN))
    (hpow : cL * BN ≤ cR * AN) (hV : cR * V0 + cL * NK ≤ cL * VH) : VN ≤ VH := by
  have h1 : cL * (bMN * AN * VN) ≤ cL * (bMN * BN * V0 + NK * (bMN * AN)) :=
    mul_le_mul_of_nonneg_left hd (le_of_lt hcL)
  have h2 : bMN * V0 * (cL * BN) ≤ bMN * V0 * (cR * AN) :=
    mul_le_mul_of_nonneg_left hpow (by positivity)
  have h3 : bMN * AN * (cR * V0 + cL * NK) ≤ bMN * AN * (cL * VH) :=
    mul_le_mul_of_nonneg_left hV (by positivity)
  have e1 : cL * (bMN * AN * VN) = (cL * (bMN * AN)) * VN := by ring
  have e2 : cL * (bMN * BN * V0 + NK * (bMN * AN)) = bMN * V0 * (cL * BN) + cL * NK * (bMN * AN) := by ring
  have e3 : bMN * AN * (cR * V0 + cL * NK) = bMN * V0 * (cR * AN) + cL * NK * (bMN * AN) := by ring
  have e4 : bMN * AN * (cL * VH) = (cL * (bMN * AN)) * VH := by ring
  have h4 : (cL * (bMN * AN)) * VN ≤ (cL * (bMN * AN)) * VH := by linarith only [h1, h2, h3, e1, e2, e3, e4]
  exact le_of_mul_le_mul_left h4 (by positivity)

/-- certificate, `N ≥ 3` -/
theorem bg_cert3 {k a b e0 s0 VN : Int} {N : Nat} (h : Lp2Butter k a b) (hb3 : 3 * b ≤ 4294967296)
    (hbN : b * N ≤ 4294967296) (hNb : 4294967296 < b * (N + 1))
    (he0 : 2 * a * 4294967296 * 804782080 ≤ e0) (he1 : e0 ≤ 2 * a * 4294967296 * 2148007936)
    (hs0 : -bgS0 a ≤ s0) (hs1 : s0 ≤ bgS0 a)
    (hd : (b * (32 * 4294967296) * 4294967296 ^ 2) ^ N * VN
        ≤ (b * (b + 32 * 4294967296) * (4294967296 * (4294967296 + 2 * a - 2 * b))) ^ N * lp2Q a b e0 s0
          + N * bgK a b * (b * (32 * 4294967296) * 4294967296 ^ 2) ^ N) :
    VN ≤ bgVH a b := by
  have ha := h.a_ge; have hbg := h.b_ge; have hbl := h.b_le
  have hb0 : 0 < b := by omega
  have hN3 : 3 ≤ N := by
    have : b * 3 < b * ((N : Int) + 1) := by linarith
    have := lt_of_mul_lt_mul_left this (le_of_lt hb0)
    omega
  have hNle : N ≤ 65536 := by
    by_contra hc
    have : (65537 : Int) ≤ N := by exact_mod_cast (by omega : 65537 ≤ N)
    have : b * 65537 ≤ b * N := mul_le_mul_of_nonneg_left this (le_of_lt hb0)
    omega
  have hpow := lp2_pow_bound (a := a) (b := b) (N := N) (by omega) hNle hb0 hbl hbN hNb (by omega)
    (by have := h.ha0; have := h.hb2; nlinarith)
  have hV := bg_V (N := N) h hb3 hN3 hbN he0 he1 hs0 hs1
  have hV00 := (bg_V0 h he0 he1 hs0 hs1).1
  have eA : b * (32 * 4294967296) * 4294967296 ^ 2 = (b * 4294967296) * (32 * 4294967296 * 4294967296) := by ring
  have eB : b * (b + 32 * 4294967296) * (4294967296 * (4294967296 + 2 * a - 2 * b))
      = (b * 4294967296) * ((b + 32 * 4294967296) * (4294967296 + 2 * a - 2 * b)) := by ring
  rw [eA, eB, mul_pow, mul_pow (b * 4294967296)] at hd
  have hNi3 : (3 : Int) ≤ N := by exact_mod_cast hN3
  have hNi6 : (N : Int) ≤ 65536 := by exact_mod_cast hNle
  have hcL : 0 < (31 * 4294967296 + b) * (5 * (N : Int) - 1) ^ 2 * (536870912 + 1 - N) :=
    mul_pos (mul_pos (by omega) (pow_pos (by omega) 2)) (by omega)
  refine lp2_VN_le hcL (AN := (32 * 4294967296 * 4294967296 : Int) ^ N) (by positivity)
    (bMN := (b * 4294967296) ^ N) (by positivity) hV00 ?_ hpow hV
  linarith only [hd]

/-- `(det·2^32)²·(2^32−b+a) ≤ 0.2141·2^64·(2^32−b)` for `2^32/3 < b ≤ 2^31` -/
theorem bg_star {a b t : Int} (ht : 4294967296 - b = t) (ht0 : 2147483648 ≤ t) (ht1 : 3 * t < 2 * 4294967296)
    (ha : 1 ≤ a) (haM : 2 * (a * 4294967296) ≤ (b + 1) ^ 2) (hB2 : 0 ≤ 4294967296 + 2 * a - 2 * b) :
    10000 * ((4294967296 + 2 * a - 2 * b) ^ 2 * (t + a)) ≤ 2141 * (4294967296 ^ 2 * t) := by
  have hb' : b = 4294967296 - t := by omega
  have hMB2 : 4294967296 * (4294967296 + 2 * a - 2 * b) ≤ t ^ 2 + 2 * b + 1 := by
    have e : t ^ 2 + 2 * b + 1 = 4294967296 ^ 2 - 2 * b * 4294967296 + (b + 1) ^ 2 := by rw [← ht]; ring
    have e2 : 4294967296 * (4294967296 + 2 * a - 2 * b)
        = 4294967296 ^ 2 - 2 * b * 4294967296 + 2 * (a * 4294967296) := by ring
    linarith only [haM, e, e2]
  generalize 4294967296 + 2 * a - 2 * b = B2 at *
  have s1 : (4294967296 * B2) ^ 2 ≤ (t ^ 2 + 2 * b + 1) ^ 2 :=
    pow_le_pow_left₀ (mul_nonneg (by norm_num) hB2) hMB2 2
  have ht2 : (2147483648 : Int) ^ 2 ≤ t ^ 2 := pow_le_pow_left₀ (by norm_num) ht0 2
  have s2 : 536870912 * (t ^ 2 + 2 * b + 1) ≤ 536870913 * t ^ 2 := by
    have : 536870912 * (2 * b + 1) ≤ (2147483648 : Int) ^ 2 := by omega
    linarith only [this, ht2]
  have hb0 : 0 ≤ b := by omega
  have hW0 : 0 ≤ t ^ 2 + 2 * b + 1 := by nlinarith [sq_nonneg t]
  have s3 : (536870912 * (t ^ 2 + 2 * b + 1)) ^ 2 ≤ (536870913 * t ^ 2) ^ 2 :=
    pow_le_pow_left₀ (mul_nonneg (by norm_num) hW0) s2 2
  have hta0 : 0 ≤ t + a := by omega
  -- Z²·M²·B2² ≤ (Z+1)²·t⁴
  have s4 : 536870912 ^ 2 * (4294967296 ^ 2 * B2 ^ 2) ≤ 536870913 ^ 2 * t ^ 4 := by
    have e1 : 536870912 ^ 2 * (4294967296 ^ 2 * B2 ^ 2) = 536870912 ^ 2 * (4294967296 * B2) ^ 2 := by ring
    have e2 : (536870912 * (t ^ 2 + 2 * b + 1)) ^ 2 = 536870912 ^ 2 * (t ^ 2 + 2 * b + 1) ^ 2 := by ring
    have e3 : (536870913 * t ^ 2) ^ 2 = 536870913 ^ 2 * t ^ 4 := by ring
    have := mul_le_mul_of_nonneg_left s1 (show (0 : Int) ≤ 536870912 ^ 2 by norm_num)
    linarith only [this, e1, e2, e3, s3]
  have s5 : 536870912 ^ 2 * (4294967296 ^ 2 * B2 ^ 2) * (t + a) ≤ 536870913 ^ 2 * t ^ 4 * (t + a) :=
    mul_le_mul_of_nonneg_right s4 hta0
  -- 2M(t+a) ≤ 1.4445 M², 27 t³ ≤ 8 M³
  have h4 : 20000 * (4294967296 * (t + a)) ≤ 14445 * 4294967296 ^ 2 := by
    have e1 : (b + 1) ^ 2 = t ^ 2 - 2 * t + 4294967297 ^ 2 - 2 * 4294967296 * t := by rw [hb']; ring
    have e2 : (3 * t) ^ 2 ≤ (2 * 4294967296) ^ 2 := pow_le_pow_left₀ (by omega) (by omega) 2
    have e3 : (3 * t) ^ 2 = 9 * t ^ 2 := by ring
    have e4 : 20000 * (4294967296 * (t + a)) = 20000 * 4294967296 * t + 10000 * (2 * (a * 4294967296)) := by ring
    linarith only [haM, e1, e2, e3, e4, ht0]
  have ht3 : 27 * t ^ 3 ≤ 8 * 4294967296 ^ 3 := by
    have h33 : (3 * t) ^ 3 ≤ (2 * 4294967296) ^ 3 := pow_le_pow_left₀ (by omega) (by omega) 3
    have e5 : (3 * t) ^ 3 = 27 * t ^ 3 := by ring
    have e6 : (2 * 4294967296 : Int) ^ 3 = 8 * 4294967296 ^ 3 := by ring
    linarith only [h33, e5, e6]
  have s6 : (27 * t ^ 3) * (20000 * (4294967296 * (t + a))) ≤ (8 * 4294967296 ^ 3) * (14445 * 4294967296 ^ 2) :=
    mul_le_mul ht3 h4 (by positivity) (by positivity)
  have s7 : t * ((27 * t ^ 3) * (20000 * (4294967296 * (t + a))))
      ≤ t * ((8 * 4294967296 ^ 3) * (14445 * 4294967296 ^ 2)) :=
    mul_le_mul_of_nonneg_left s6 (by omega)
  -- combine
  have key : (536870912 ^ 2 * 4294967296 ^ 2 * (540000 * 4294967296)) * (10000 * (B2 ^ 2 * (t + a)))
      ≤ (536870912 ^ 2 * 4294967296 ^ 2 * (540000 * 4294967296)) * (2141 * (4294967296 ^ 2 * t)) := by
    have e1 : (536870912 ^ 2 * 4294967296 ^ 2 * (540000 * 4294967296)) * (10000 * (B2 ^ 2 * (t + a)))
        = (10000 * 540000 * 4294967296) * (536870912 ^ 2 * (4294967296 ^ 2 * B2 ^ 2) * (t + a)) := by ring
    have e2 : (10000 * 540000 * 4294967296) * (536870913 ^ 2 * t ^ 4 * (t + a))
        = (10000 * 536870913 ^ 2) * (t * ((27 * t ^ 3) * (20000 * (4294967296 * (t + a))))) := by ring
    have e3 : (10000 * 536870913 ^ 2) * (t * ((8 * 4294967296 ^ 3) * (14445 * 4294967296 ^ 2)))
        = (10000 * 536870913 ^ 2 * 115560) * (4294967296 ^ 5 * t) := by ring
    have e4 : (536870912 ^ 2 * 4294967296 ^ 2 * (540000 * 4294967296)) * (2141 * (4294967296 ^ 2 * t))
        = (536870912 ^ 2 * 540000 * 2141) * (4294967296 ^ 5 * t) := by ring
    have u1 := mul_le_mul_of_nonneg_left s5 (show (0 : Int) ≤ 10000 * 540000 * 4294967296 by norm_num)
    have u2 := mul_le_mul_of_nonneg_left s7 (show (0 : Int) ≤ 10000 * 536870913 ^ 2 by norm_num)
    have u3 : (10000 * 536870913 ^ 2 * 115560 : Int) * (4294967296 ^ 5 * t)
        ≤ (536870912 ^ 2 * 540000 * 2141) * (4294967296 ^ 5 * t) :=
      mul_le_mul_of_nonneg_right (by norm_num) (by positivity)
    linarith only [e1, e2, e3, e4, u1, u2, u3]
  exact le_of_mul_le_mul_left key (by norm_num)

/-- the algebra behind `bg_cert2` on abstract atoms -/
theorem bg_cert2_alg {AA1 Msq BB1 BB2 V0 VN K t ta P : Int} (hAA1 : 0 < AA1) (hMsq : 0 < Msq)
    (hBB1 : 0 ≤ BB1) (hBB2 : 0 ≤ BB2) (hV00 : 0 ≤ V0) (hK0 : 0 ≤ K) (ht : 0 ≤ t) (hta : 0 < ta) (hP : 0 ≤ P)
    (hd : (AA1 * Msq) * VN ≤ (BB1 * BB2) * V0 + 2 * K * (AA1 * Msq))
    (hB1 : 4096 * BB1 ≤ 4225 * AA1)
    (hstar : 10000 * (BB2 * ta) ≤ 2141 * (Msq * t))
    (hV0 : 1000 * V0 ≤ P * 18470000000000000000000)
    (hNK : 2 * K ≤ P * 1000000000000000) (h4a : 4 * ta ≤ 5 * t) :
    VN * ta ≤ t * (P * 4611123059885604900) := by
  have k1 : (AA1 * Msq) * VN * ta ≤ ((BB1 * BB2) * V0 + 2 * K * (AA1 * Msq)) * ta :=
    mul_le_mul_of_nonneg_right hd (le_of_lt hta)
  have u1 : (4096 * BB1) * (10000 * (BB2 * ta)) ≤ (4225 * AA1) * (2141 * (Msq * t)) :=
    mul_le_mul hB1 hstar (by positivity) (by positivity)
  have u2 : (4096 * BB1) * (10000 * (BB2 * ta)) * (1000 * V0)
      ≤ (4225 * AA1) * (2141 * (Msq * t)) * (P * 18470000000000000000000) :=
    mul_le_mul u1 hV0 (by positivity) (by positivity)
  have v1 : (2 * K) * (4 * ta) ≤ (P * 1000000000000000) * (5 * t) :=
    mul_le_mul hNK h4a (by positivity) (by positivity)
  have v2 : (AA1 * Msq) * ((2 * K) * (4 * ta)) ≤ (AA1 * Msq) * ((P * 1000000000000000) * (5 * t)) :=
    mul_le_mul_of_nonneg_left v1 (by positivity)
  have hZ : 0 ≤ AA1 * Msq * (t * P) := by positivity
  have key : (AA1 * Msq) * (VN * ta) ≤ (AA1 * Msq) * (t * (P * 4611123059885604900)) := by
    have e1 : (AA1 * Msq) * VN * ta = (AA1 * Msq) * (VN * ta) := by ring
    have e2 : ((BB1 * BB2) * V0 + 2 * K * (AA1 * Msq)) * ta
        = BB1 * (BB2 * ta) * V0 + (AA1 * Msq) * (2 * K * ta) := by ring
    have e3 : (4096 * BB1) * (10000 * (BB2 * ta)) * (1000 * V0) = 40960000000 * (BB1 * (BB2 * ta) * V0) := by ring
    have e4 : (4225 * AA1) * (2141 * (Msq * t)) * (P * 18470000000000000000000)
        = 167074540750000000000000000000 * (AA1 * Msq * (t * P)) := by ring
    have e5 : (AA1 * Msq) * ((2 * K) * (4 * ta)) = 4 * ((AA1 * Msq) * (2 * K * ta)) := by ring
    have e6 : (AA1 * Msq) * ((P * 1000000000000000) * (5 * t)) = 5000000000000000 * (AA1 * Msq * (t * P)) := by ring
    have e7 : (AA1 * Msq) * (t * (P * 4611123059885604900)) = 4611123059885604900 * (AA1 * Msq * (t * P)) := by ring
    linarith only [k1, u2, v2, e1, e2, e3, e4, e5, e6, e7, hZ]
  exact le_of_mul_le_mul_left key (by positivity)

/-- certificate, `N = 2` (the top of the `k` range) -/
theorem bg_cert2 {k a b e0 s0 VN : Int} (h : Lp2Butter k a b) (hb3 : 4294967296 < 3 * b)
    (he0 : 2 * a * 4294967296 * 804782080 ≤ e0) (he1 : e0 ≤ 2 * a * 4294967296 * 2148007936)
    (hs0 : -bgS0 a ≤ s0) (hs1 : s0 ≤ bgS0 a)
    (hd : (b * (32 * 4294967296) * 4294967296 ^ 2) ^ 2 * VN
        ≤ (b * (b + 32 * 4294967296) * (4294967296 * (4294967296 + 2 * a - 2 * b))) ^ 2 * lp2Q a b e0 s0
          + 2 * bgK a b * (b * (32 * 4294967296) * 4294967296 ^ 2) ^ 2) :
    VN ≤ bgVH a b := by
  have ha := h.a_ge; have hbg := h.b_ge; have hbl := h.b_le; have hal := h.a_le
  have hb0 : 0 < b := by omega
  have haM : 2 * (a * 4294967296) ≤ (b + 1) ^ 2 := by
    have := h.ha0; have := h.hb2; nlinarith
  obtain ⟨hV00, hV0⟩ := bg_V0 h he0 he1 hs0 hs1
  have hNK := bg_NK (N := 2) h (by norm_num) (by omega)
  obtain ⟨hK0, -, -⟩ := bg_K_spec h
  generalize lp2Q a b e0 s0 = V0 at *
  generalize bgK a b = K at *
  -- cancel (bM)²
  have hd' : (32 * 4294967296 * 4294967296) ^ 2 * VN
      ≤ ((b + 32 * 4294967296) * (4294967296 + 2 * a - 2 * b)) ^ 2 * V0
        + 2 * K * (32 * 4294967296 * 4294967296) ^ 2 := by
    have e : (b * 4294967296) ^ 2 * ((32 * 4294967296 * 4294967296) ^ 2 * VN)
        ≤ (b * 4294967296) ^ 2 * (((b + 32 * 4294967296) * (4294967296 + 2 * a - 2 * b)) ^ 2 * V0
          + 2 * K * (32 * 4294967296 * 4294967296) ^ 2) := by
      have e1 : (b * 4294967296) ^ 2 * ((32 * 4294967296 * 4294967296) ^ 2 * VN)
          = (b * (32 * 4294967296) * 4294967296 ^ 2) ^ 2 * VN := by ring
      have e2 : (b * 4294967296) ^ 2 * (((b + 32 * 4294967296) * (4294967296 + 2 * a - 2 * b)) ^ 2 * V0
          + 2 * K * (32 * 4294967296 * 4294967296) ^ 2)
          = (b * (b + 32 * 4294967296) * (4294967296 * (4294967296 + 2 * a - 2 * b))) ^ 2 * V0
            + 2 * K * (b * (32 * 4294967296) * 4294967296 ^ 2) ^ 2 := by ring
      linarith
    exact le_of_mul_le_mul_left e (by positivity)
  -- (∗): B2²·(M−b+a)·10000 ≤ 2141·M²·(M−b)
  have hB2 : (0 : Int) ≤ 4294967296 + 2 * a - 2 * b := by omega
  have hMB2 : 4294967296 * (4294967296 + 2 * a - 2 * b) ≤ (4294967296 - b) ^ 2 + 2 * b + 1 := by nlinarith
  generalize ht : 4294967296 - b = t at *
  have ht0 : 2147483648 ≤ t := by omega
  have ht1 : 3 * t < 2 * 4294967296 := by omega
  have hstar : 10000 * ((4294967296 + 2 * a - 2 * b) ^ 2 * (t + a)) ≤ 2141 * (4294967296 ^ 2 * t) :=
    bg_star ht ht0 ht1 ha haM hB2
  -- B1² ≤ (65/64)²·A1²
  have hB1 : 64 ^ 2 * (b + 32 * 4294967296) ^ 2 ≤ 65 ^ 2 * (32 * 4294967296) ^ 2 := by
    have : (64 * (b + 32 * 4294967296)) ^ 2 ≤ (65 * (32 * 4294967296)) ^ 2 :=
      pow_le_pow_left₀ (by omega) (by omega) 2
    nlinarith
  -- goal via floor
  have hpos : (0 : Int) < t + a := by omega
  have hgoal : VN * (t + a) ≤ a * t * bgRH a ^ 2 := by
    have hRH : a * t * bgRH a ^ 2 = t * (a ^ 3 * 4294967296 ^ 2 * 4611123059885604900) := by unfold bgRH; ring
    rw [hRH]
    have hsq1 : (32 * 4294967296 * 4294967296 : Int) ^ 2 = (32 * 4294967296) ^ 2 * 4294967296 ^ 2 := by ring
    have hsq2 : ((b + 32 * 4294967296) * (4294967296 + 2 * a - 2 * b)) ^ 2
        = (b + 32 * 4294967296) ^ 2 * (4294967296 + 2 * a - 2 * b) ^ 2 := by ring
    rw [hsq1, hsq2] at hd'
    have hB1' : 4096 * (b + 32 * 4294967296) ^ 2 ≤ 4225 * (32 * 4294967296) ^ 2 := by linarith only [hB1]
    exact bg_cert2_alg (AA1 := (32 * 4294967296) ^ 2) (Msq := 4294967296 ^ 2) (by norm_num) (by norm_num)
      (sq_nonneg _) (sq_nonneg _) hV00 hK0 (by omega) hpos (by positivity) hd' hB1' hstar hV0 hNK (by omega)
  unfold bgVH
  rw [ht]
  exact (Int.le_ediv_iff_mul_le hpos).mpr hgoal

/-- the certificate for every documented pair -/
theorem bg_cert {k a b e0 s0 VN : Int} {N : Nat} (h : Lp2Butter k a b)
    (hbN : b * N ≤ 4294967296) (hNb : 4294967296 < b * (N + 1))
    (he0 : 2 * a * 4294967296 * 804782080 ≤ e0) (he1 : e0 ≤ 2 * a * 4294967296 * 2148007936)
    (hs0 : -bgS0 a ≤ s0) (hs1 : s0 ≤ bgS0 a)
    (hd : (b * (32 * 4294967296) * 4294967296 ^ 2) ^ N * VN
        ≤ (b * (b + 32 * 4294967296) * (4294967296 * (4294967296 + 2 * a - 2 * b))) ^ N * lp2Q a b e0 s0
          + N * bgK a b * (b * (32 * 4294967296) * 4294967296 ^ 2) ^ N) :
    VN ≤ bgVH a b := by
  have hbg := h.b_ge; have hbl := h.b_le
  have hb0 : 0 < b := by omega
  by_cases hb3 : 3 * b ≤ 4294967296
  · exact bg_cert3 h hb3 hbN hNb he0 he1 hs0 hs1 hd
  · have hN2 : N = 2 := by
      have h1 : b * (N : Int) < b * 3 := by omega
      have h2 : b * 2 < b * ((N : Int) + 1) := by omega
      have := lt_of_mul_lt_mul_left h1 (le_of_lt hb0)
      have := lt_of_mul_lt_mul_left h2 (le_of_lt hb0)
      omega
    subst hN2
    exact bg_cert2 h (by omega) he0 he1 hs0 hs1 (by simpa using hd)

end Idsp
