import IdspModel.Lemmas.Lp2Level2
import IdspModel.Lemmas.Lp2Pow
/-!
# Second-order lowpass, large steps: the explicit constants and the numeric side conditions

All quantities are in centred units (`2a·2^32` per LSB).  `e0` is the centred error right after the level change,
between `2a·2^32·(3·2^28 − 2^19)` and `2a·2^32·(2^31 + 2^19)`.
-/
namespace Idsp
set_option linter.unusedVariables false

/-- disturbance bound including a clip of at most `2^20` -/
def bgUC (a b : Int) : Int := lp2U a b + 2 * a ^ 2 * 1048576 * 4294967296
def bgThr (a b : Int) : Int := 4294967296 * (a + b + 2 * a * 1048576) + 1
def bgS0 (a : Int) : Int := 16 * a * 4294967296
def bgEmax (a b e0 : Int) : Int := e0 + 4294967296 * bgS0 a / b + 1
def bgST (a b e0 : Int) : Int := (a * bgEmax a b e0 + bgUC a b) / b + 1
def bgG (a b e0 : Int) : Int := (2 * a * bgEmax a b e0 + 2 * bgUC a b) / 4294967296 + 1

theorem bg_basic {k a b e0 : Int} (h : Lp2Butter k a b) (he0 : 2 * a * 4294967296 * 804782080 ≤ e0) :
    0 ≤ bgUC a b ∧ bgUC a b + 1 ≤ a * bgThr a b ∧ 0 ≤ bgS0 a ∧ 0 ≤ bgG a b e0 ∧
    b * e0 + 4294967296 * bgS0 a ≤ b * bgEmax a b e0 ∧
    a * bgEmax a b e0 + bgUC a b ≤ b * bgST a b e0 ∧ bgS0 a ≤ bgST a b e0 ∧
    2 * a * bgEmax a b e0 + 2 * bgUC a b ≤ 4294967296 * bgG a b e0 ∧
    1000 * (a * bgEmax a b e0 + bgUC a b) ≤ 1003 * (a * e0) ∧
    b * bgST a b e0 ≤ a * bgEmax a b e0 + bgUC a b + b ∧
    4294967296 * bgG a b e0 ≤ 2 * a * bgEmax a b e0 + 2 * bgUC a b + 4294967296 := by
  have ha := h.a_ge; have hbg := h.b_ge; have hbl := h.b_le; have hba := lp2_b_le_a h
  have hb0 : 0 < b := by omega
  have hUC0 : 0 ≤ bgUC a b := by unfold bgUC lp2U; positivity
  have hS00 : 0 ≤ bgS0 a := by unfold bgS0; positivity
  have he0pos : 0 ≤ e0 := le_trans (by positivity) he0
  have hq0 : 0 ≤ 4294967296 * bgS0 a / b := Int.ediv_nonneg (by positivity) (le_of_lt hb0)
  have hEm0 : 0 ≤ bgEmax a b e0 := by unfold bgEmax; omega
  have hEmaxb : b * e0 + 4294967296 * bgS0 a ≤ b * bgEmax a b e0 := by
    unfold bgEmax
    have := Int.lt_ediv_add_one_mul_self (4294967296 * bgS0 a) hb0
    nlinarith
  have hX0 : 0 ≤ a * bgEmax a b e0 + bgUC a b := by positivity
  have hSTb : a * bgEmax a b e0 + bgUC a b ≤ b * bgST a b e0 := by
    unfold bgST
    have := Int.lt_ediv_add_one_mul_self (a * bgEmax a b e0 + bgUC a b) hb0
    nlinarith
  have hSTb' : b * bgST a b e0 ≤ a * bgEmax a b e0 + bgUC a b + b := by
    unfold bgST
    have := Int.ediv_mul_le (a * bgEmax a b e0 + bgUC a b) (show b ≠ 0 by omega)
    nlinarith
  have hGM : 2 * a * bgEmax a b e0 + 2 * bgUC a b ≤ 4294967296 * bgG a b e0 := by
    unfold bgG
    have := Int.lt_ediv_add_one_mul_self (2 * a * bgEmax a b e0 + 2 * bgUC a b) (show (0 : Int) < 4294967296 by norm_num)
    nlinarith
  have hGM' : 4294967296 * bgG a b e0 ≤ 2 * a * bgEmax a b e0 + 2 * bgUC a b + 4294967296 := by
    unfold bgG
    have := Int.ediv_mul_le (2 * a * bgEmax a b e0 + 2 * bgUC a b) (show (4294967296 : Int) ≠ 0 by norm_num)
    nlinarith
  have hG0 : 0 ≤ bgG a b e0 := by
    unfold bgG
    have : 0 ≤ (2 * a * bgEmax a b e0 + 2 * bgUC a b) / 4294967296 := Int.ediv_nonneg (by positivity) (by norm_num)
    omega
  -- X ≤ 1.003·a·e0
  have hq1 : b * (4294967296 * bgS0 a / b) ≤ 4294967296 * bgS0 a := by
    have := Int.ediv_mul_le (4294967296 * bgS0 a) (show b ≠ 0 by omega); nlinarith
  have hX : 1000 * (a * bgEmax a b e0 + bgUC a b) ≤ 1003 * (a * e0) := by
    -- b·(a·q) ≤ a·M·S0 = 16a²M² ; b ≥ 92404
    have h1 : 92404 * (a * (4294967296 * bgS0 a / b)) ≤ a * (4294967296 * bgS0 a) := by
      have : b * (a * (4294967296 * bgS0 a / b)) ≤ a * (4294967296 * bgS0 a) := by nlinarith
      have h2 : 92404 * (a * (4294967296 * bgS0 a / b)) ≤ b * (a * (4294967296 * bgS0 a / b)) :=
        mul_le_mul_of_nonneg_right hbg (by positivity)
      linarith
    have h3 : bgUC a b ≤ a ^ 2 * 4294967296 * 2228225 := by
      unfold bgUC lp2U; nlinarith
    have h4 : a ^ 2 * 4294967296 * 1609564160 ≤ a * e0 := by nlinarith
    unfold bgEmax bgS0 at *
    nlinarith
  refine ⟨hUC0, ?_, hS00, hG0, hEmaxb, hSTb, ?_, hGM, hX, hSTb', hGM'⟩
  · unfold bgUC bgThr lp2U; nlinarith
  · -- S0 ≤ ST since b·S0 ≤ a·e0
    have h1 : b * bgS0 a ≤ a * e0 := by unfold bgS0; nlinarith
    have h2 : a * e0 ≤ a * bgEmax a b e0 := by
      apply mul_le_mul_of_nonneg_left _ (by omega); unfold bgEmax; omega
    have : b * bgS0 a ≤ b * bgST a b e0 := by linarith
    exact le_of_mul_le_mul_left this hb0

/-- the approach phase lasts at least `N = ⌊2^32/b⌋` steps: the two-piece bound with the switch at
    `J = ⌊(2^32+b)/(2b)⌋` stays above the threshold -/
theorem bg_len {k a b e0 N J : Int} (h : Lp2Butter k a b) (he0 : 2 * a * 4294967296 * 804782080 ≤ e0)
    (hN0 : 0 ≤ N) (hbN : b * N ≤ 4294967296) (hJ0 : 0 ≤ J) (hJ1 : 2 * b * J ≤ 4294967296 + b)
    (hJ2 : 4294967296 - b ≤ 2 * b * J) (hJN : J ≤ N) :
    bgThr a b ≤ e0 - 2 * J * bgS0 a - J ^ 2 * bgG a b e0 - 2 * (N - J) * bgST a b e0 := by
  have ha := h.a_ge; have hbg := h.b_ge; have hbl := h.b_le; have hba := lp2_b_le_a h
  have hb0 : 0 < b := by omega
  have haM : 2 * (a * 4294967296) ≤ (b + 1) ^ 2 := by
    have := h.ha0; have := h.hb2; nlinarith
  obtain ⟨hUC0, -, hS00, hG0, -, -, -, -, hX, hSTb', hGM'⟩ := bg_basic h he0
  have he0pos : 0 ≤ e0 := le_trans (by positivity) he0
  generalize hXd : a * bgEmax a b e0 + bgUC a b = X at *
  generalize bgST a b e0 = ST at *
  generalize bgG a b e0 = g at *
  have hX0 : 0 ≤ X := by
    rw [← hXd]; unfold bgEmax
    have : 0 ≤ 4294967296 * bgS0 a / b := Int.ediv_nonneg (by positivity) (le_of_lt hb0)
    positivity
  -- K1
  have hK1 : 4 * b ^ 2 * J ^ 2 + 4 * b * 4294967296 * (N - J) ≤ 3 * 4294967296 ^ 2 + b ^ 2 := by
    have h1 : (2 * b * J - 4294967296) ^ 2 ≤ b ^ 2 := sq_le_sq' (by omega) (by omega)
    have h2 : 4 * 4294967296 * (b * N) ≤ 4 * 4294967296 * 4294967296 := mul_le_mul_of_nonneg_left hbN (by norm_num)
    nlinarith
  -- J, N ≤ 2^32/b·… crude: b·J ≤ 2^32, b·N ≤ 2^32 so J, N ≤ 46481
  have hJle : J ≤ 46481 := by
    by_contra hc
    have : 92404 * 46482 ≤ b * J := by
      have : (92404 : Int) * 46482 ≤ b * 46482 := by omega
      have : b * 46482 ≤ b * J := mul_le_mul_of_nonneg_left (by omega) (le_of_lt hb0)
      linarith
    have : 2 * b * J = 2 * (b * J) := by ring
    omega
  have hNle : N ≤ 46481 := by
    by_contra hc
    have : b * 46482 ≤ b * N := mul_le_mul_of_nonneg_left (by omega) (le_of_lt hb0)
    omega
  -- the two velocity sums
  have hJ2g : 4294967296 * (J ^ 2 * g) ≤ J ^ 2 * (2 * X + 4294967296) := by
    have := mul_le_mul_of_nonneg_left hGM' (sq_nonneg J); nlinarith
  have hNJ : 0 ≤ N - J := by omega
  have hST2 : b * ((N - J) * ST) ≤ (N - J) * (X + b) := by
    have := mul_le_mul_of_nonneg_left hSTb' hNJ; nlinarith
  -- 2b²M·(J²g + 2(N−J)ST) ≤ X(3M²+b²) + 2b²M(J² + 2N)
  have hsum : 2 * b ^ 2 * 4294967296 * (J ^ 2 * g + 2 * (N - J) * ST)
      ≤ X * (3 * 4294967296 ^ 2 + b ^ 2) + 2 * b ^ 2 * 4294967296 * (J ^ 2 + 2 * N) := by
    have e1 : 2 * b ^ 2 * (4294967296 * (J ^ 2 * g)) ≤ 2 * b ^ 2 * (J ^ 2 * (2 * X + 4294967296)) :=
      mul_le_mul_of_nonneg_left hJ2g (by positivity)
    have e2 : 4 * b * 4294967296 * (b * ((N - J) * ST)) ≤ 4 * b * 4294967296 * ((N - J) * (X + b)) :=
      mul_le_mul_of_nonneg_left hST2 (by positivity)
    have e3 : X * (4 * b ^ 2 * J ^ 2 + 4 * b * 4294967296 * (N - J)) ≤ X * (3 * 4294967296 ^ 2 + b ^ 2) :=
      mul_le_mul_of_nonneg_left hK1 hX0
    have e4 : 4 * b ^ 2 * 4294967296 * (N - J) ≤ 4 * b ^ 2 * 4294967296 * N :=
      mul_le_mul_of_nonneg_left (by omega) (by positivity)
    calc 2 * b ^ 2 * 4294967296 * (J ^ 2 * g + 2 * (N - J) * ST)
        = 2 * b ^ 2 * (4294967296 * (J ^ 2 * g)) + 4 * b * 4294967296 * (b * ((N - J) * ST)) := by ring
      _ ≤ 2 * b ^ 2 * (J ^ 2 * (2 * X + 4294967296)) + 4 * b * 4294967296 * ((N - J) * (X + b)) :=
          add_le_add e1 e2
      _ = X * (4 * b ^ 2 * J ^ 2 + 4 * b * 4294967296 * (N - J)) + 2 * b ^ 2 * 4294967296 * J ^ 2
          + 4 * b ^ 2 * 4294967296 * (N - J) := by ring
      _ ≤ X * (3 * 4294967296 ^ 2 + b ^ 2) + 2 * b ^ 2 * 4294967296 * J ^ 2
          + 4 * b ^ 2 * 4294967296 * N := add_le_add (add_le_add e3 (le_refl _)) e4
      _ = X * (3 * 4294967296 ^ 2 + b ^ 2) + 2 * b ^ 2 * 4294967296 * (J ^ 2 + 2 * N) := by ring
  -- X(3M²+b²) ≤ 1.63·b²·M·e0
  have hXb : 100 * (X * (3 * 4294967296 ^ 2 + b ^ 2)) ≤ 164 * (b ^ 2 * 4294967296 * e0) := by
    have h1 : 4 * (3 * 4294967296 ^ 2 + b ^ 2) ≤ 13 * 4294967296 ^ 2 := by nlinarith
    have h2 : 4 * (X * (3 * 4294967296 ^ 2 + b ^ 2)) ≤ X * (13 * 4294967296 ^ 2) := by
      have := mul_le_mul_of_nonneg_left h1 hX0; linarith
    have h3 : 1000 * (X * (13 * 4294967296 ^ 2)) ≤ 13039 * (a * 4294967296 ^ 2 * e0) := by
      have := mul_le_mul_of_nonneg_right hX (show (0 : Int) ≤ 13 * 4294967296 ^ 2 by positivity)
      have e : 1003 * (a * e0) * (13 * 4294967296 ^ 2) = 13039 * (a * 4294967296 ^ 2 * e0) := by ring
      have e' : 1000 * X * (13 * 4294967296 ^ 2) = 1000 * (X * (13 * 4294967296 ^ 2)) := by ring
      linarith
    have h4 : 2 * (a * 4294967296 ^ 2 * e0) ≤ (b + 1) ^ 2 * 4294967296 * e0 := by
      have := mul_le_mul_of_nonneg_right haM (show (0 : Int) ≤ 4294967296 * e0 by positivity)
      have e : 2 * (a * 4294967296) * (4294967296 * e0) = 2 * (a * 4294967296 ^ 2 * e0) := by ring
      have e' : (b + 1) ^ 2 * (4294967296 * e0) = (b + 1) ^ 2 * 4294967296 * e0 := by ring
      linarith
    have h5 : 10000 * (b + 1) ^ 2 ≤ 10001 * b ^ 2 := by nlinarith
    have h6 : 10000 * ((b + 1) ^ 2 * 4294967296 * e0) ≤ 10001 * (b ^ 2 * 4294967296 * e0) := by
      have := mul_le_mul_of_nonneg_right h5 (show (0 : Int) ≤ 4294967296 * e0 by positivity)
      have e : 10000 * (b + 1) ^ 2 * (4294967296 * e0) = 10000 * ((b + 1) ^ 2 * 4294967296 * e0) := by ring
      have e' : 10001 * b ^ 2 * (4294967296 * e0) = 10001 * (b ^ 2 * 4294967296 * e0) := by ring
      linarith
    have hP0 : 0 ≤ b ^ 2 * 4294967296 * e0 := by positivity
    linarith only [h2, h3, h4, h6, hP0]
  -- the small terms
  have hsmall : 100 * (bgThr a b + 2 * J * bgS0 a + (J ^ 2 + 2 * N)) ≤ 18 * e0 := by
    have h1 : bgThr a b ≤ a * 4294967296 * 2228226 := by unfold bgThr; nlinarith
    have h2 : 2 * J * bgS0 a ≤ a * 4294967296 * 1487392 := by
      unfold bgS0
      have : J * (a * 4294967296) ≤ 46481 * (a * 4294967296) := mul_le_mul_of_nonneg_right hJle (by positivity)
      linarith
    have h3 : J ^ 2 + 2 * N ≤ a * 4294967296 := by nlinarith
    linarith
  -- combine
  have hfin : 2 * b ^ 2 * 4294967296 * (bgThr a b + 2 * J * bgS0 a + J ^ 2 * g + 2 * (N - J) * ST)
      ≤ 2 * b ^ 2 * 4294967296 * e0 := by
    have hb2M : 0 ≤ b ^ 2 * 4294967296 := by positivity
    have h1 := mul_le_mul_of_nonneg_left hsmall hb2M
    have e1 : 2 * b ^ 2 * 4294967296 * (bgThr a b + 2 * J * bgS0 a + J ^ 2 * g + 2 * (N - J) * ST)
        = 2 * (b ^ 2 * 4294967296 * (bgThr a b + 2 * J * bgS0 a))
          + 2 * b ^ 2 * 4294967296 * (J ^ 2 * g + 2 * (N - J) * ST) := by ring
    have e2 : b ^ 2 * 4294967296 * (100 * (bgThr a b + 2 * J * bgS0 a + (J ^ 2 + 2 * N)))
        = 100 * (b ^ 2 * 4294967296 * (bgThr a b + 2 * J * bgS0 a))
          + 50 * (2 * b ^ 2 * 4294967296 * (J ^ 2 + 2 * N)) := by ring
    have e3 : b ^ 2 * 4294967296 * (18 * e0) = 18 * (b ^ 2 * 4294967296 * e0) := by ring
    have e4 : 2 * b ^ 2 * 4294967296 * e0 = 2 * (b ^ 2 * 4294967296 * e0) := by ring
    linarith only [h1, e1, e2, e3, e4, hsum, hXb]
  have := le_of_mul_le_mul_left hfin (by positivity)
  linarith

/-! ### the level reached at the end of the approach phase -/

def bgRH (a : Int) : Int := 2 * a * 4294967296 * 1073676285
def bgVH (a b : Int) : Int := a * (4294967296 - b) * bgRH a ^ 2 / (4294967296 - b + a)
def bgK (a b : Int) : Int := 4 * (b + 32 * 4294967296) * bgUC a b ^ 2 / (b * 4294967296) + 1

theorem bg_UC_le {k a b : Int} (h : Lp2Butter k a b) :
    bgUC a b ≤ a ^ 2 * 4294967296 * 2228225 ∧ bgUC a b ^ 2 ≤ a ^ 4 * 4294967296 ^ 2 * 4964986650625 := by
  have ha := h.a_ge; have hba := lp2_b_le_a h; have hb := h.hb0
  have h1 : bgUC a b ≤ a ^ 2 * 4294967296 * 2228225 := by unfold bgUC lp2U; nlinarith
  have h0 : 0 ≤ bgUC a b := by unfold bgUC lp2U; positivity
  refine ⟨h1, ?_⟩
  have := pow_le_pow_left₀ h0 h1 2
  calc bgUC a b ^ 2 ≤ (a ^ 2 * 4294967296 * 2228225) ^ 2 := this
    _ = a ^ 4 * 4294967296 ^ 2 * 4964986650625 := by ring

theorem bg_K_spec {k a b : Int} (h : Lp2Butter k a b) :
    0 ≤ bgK a b ∧
    4 * (b + 32 * 4294967296) * bgUC a b ^ 2 ≤ b * 4294967296 * bgK a b ∧
    b * 4294967296 * bgK a b ≤ 4 * (b + 32 * 4294967296) * bgUC a b ^ 2 + b * 4294967296 := by
  have hbg := h.b_ge
  have hpos : 0 < b * 4294967296 := by positivity
  have h0 : 0 ≤ 4 * (b + 32 * 4294967296) * bgUC a b ^ 2 := by
    have : (0 : Int) ≤ b + 32 * 4294967296 := by omega
    positivity
  have hq := Int.ediv_nonneg h0 (le_of_lt hpos)
  have h1 := Int.lt_ediv_add_one_mul_self (4 * (b + 32 * 4294967296) * bgUC a b ^ 2) hpos
  have h2 := Int.ediv_mul_le (4 * (b + 32 * 4294967296) * bgUC a b ^ 2) (ne_of_gt hpos)
  unfold bgK
  refine ⟨by omega, by nlinarith, by nlinarith⟩

/-- the level `bgVH`: lower bound, and it belongs to the sector radius `bgRH` -/
theorem bg_VH_spec {k a b : Int} (h : Lp2Butter k a b) (hb3 : 3 * b ≤ 4294967296) :
    (4294967296 - b + a) * bgVH a b ≤ a * (4294967296 - b) * bgRH a ^ 2 ∧
    a ^ 3 * 4294967296 ^ 2 * 4250000000000000000 ≤ bgVH a b := by
  have ha := h.a_ge; have hbg := h.b_ge
  have haM : 2 * (a * 4294967296) ≤ (b + 1) ^ 2 := by
    have := h.ha0; have := h.hb2; nlinarith
  have hpos : (0 : Int) < 4294967296 - b + a := by omega
  have h1 := Int.ediv_mul_le (a * (4294967296 - b) * bgRH a ^ 2) (ne_of_gt hpos)
  have h2 := Int.lt_ediv_add_one_mul_self (a * (4294967296 - b) * bgRH a ^ 2) hpos
  refine ⟨by unfold bgVH; nlinarith, ?_⟩
  -- 12a ≤ (M − b) + 6
  have h12 : 12 * a ≤ 4294967296 - b + 6 := by
    have : 3 * (b + 1) ≤ 4294967299 := by omega
    have : 9 * (b + 1) ^ 2 ≤ 4294967299 ^ 2 := by nlinarith
    nlinarith
  by_contra hc
  have hc' : bgVH a b + 1 ≤ a ^ 3 * 4294967296 ^ 2 * 4250000000000000000 := by omega
  have h3 : (bgVH a b + 1) * (4294967296 - b + a)
      ≤ a ^ 3 * 4294967296 ^ 2 * 4250000000000000000 * (4294967296 - b + a) :=
    mul_le_mul_of_nonneg_right hc' (le_of_lt hpos)
  have hRH : bgRH a ^ 2 = a ^ 2 * 4294967296 ^ 2 * 4611123059885604900 := by unfold bgRH; ring
  unfold bgVH at h3
  rw [hRH] at h2 h3
  -- a³M²·4611123…·(M−b) < a³M²·4.25e18·(M−b+a) is impossible
  have h4 : 12 * (a ^ 3 * 4294967296 ^ 2 * 4250000000000000000 * (4294967296 - b + a))
      ≤ a ^ 3 * 4294967296 ^ 2 * 4250000000000000000 * (13 * (4294967296 - b) + 6) := by
    have h40 : a ^ 3 * 4294967296 ^ 2 * 4250000000000000000 * (12 * (4294967296 - b + a))
        ≤ a ^ 3 * 4294967296 ^ 2 * 4250000000000000000 * (13 * (4294967296 - b) + 6) :=
      mul_le_mul_of_nonneg_left (by omega) (by positivity)
    linarith
  have hMb : (2863311530 : Int) ≤ 4294967296 - b := by omega
  have h5 : a ^ 3 * 4294967296 ^ 2 * 4250000000000000000 * (13 * (4294967296 - b) + 6)
      < 12 * (a * (4294967296 - b) * (a ^ 2 * 4294967296 ^ 2 * 4611123059885604900)) := by
    have e : 12 * (a * (4294967296 - b) * (a ^ 2 * 4294967296 ^ 2 * 4611123059885604900))
        - a ^ 3 * 4294967296 ^ 2 * 4250000000000000000 * (13 * (4294967296 - b) + 6)
        = a ^ 3 * 4294967296 ^ 2 * (83476718627258800 * (4294967296 - b) - 25500000000000000000) := by ring
    have : (0 : Int) < 83476718627258800 * (4294967296 - b) - 25500000000000000000 := by omega
    have : 0 < a ^ 3 * 4294967296 ^ 2 * (83476718627258800 * (4294967296 - b) - 25500000000000000000) := by
      positivity
    linarith
  linarith

/-- the level `bgVH` for EVERY documented pair: `(M−b+a)·VH ≤ a(M−b)·RH²` and `VH ≥ 3.6e18·a³·2^64` -/
theorem bg_VH_spec' {k a b : Int} (h : Lp2Butter k a b) :
    (4294967296 - b + a) * bgVH a b ≤ a * (4294967296 - b) * bgRH a ^ 2 ∧
    a ^ 3 * 4294967296 ^ 2 * 3600000000000000000 ≤ bgVH a b := by
  have ha := h.a_ge; have hbg := h.b_ge; have hbl := h.b_le; have hal := h.a_le
  have hpos : (0 : Int) < 4294967296 - b + a := by omega
  have h1 := Int.ediv_mul_le (a * (4294967296 - b) * bgRH a ^ 2) (ne_of_gt hpos)
  have h2 := Int.lt_ediv_add_one_mul_self (a * (4294967296 - b) * bgRH a ^ 2) hpos
  refine ⟨by unfold bgVH; nlinarith, ?_⟩
  have h4a : 4 * a ≤ 4294967296 - b := by omega
  by_contra hc
  have hc' : bgVH a b + 1 ≤ a ^ 3 * 4294967296 ^ 2 * 3600000000000000000 := by omega
  have h3 : (bgVH a b + 1) * (4294967296 - b + a)
      ≤ a ^ 3 * 4294967296 ^ 2 * 3600000000000000000 * (4294967296 - b + a) :=
    mul_le_mul_of_nonneg_right hc' (le_of_lt hpos)
  have hRH : bgRH a ^ 2 = a ^ 2 * 4294967296 ^ 2 * 4611123059885604900 := by unfold bgRH; ring
  unfold bgVH at h3
  rw [hRH] at h2 h3
  have h4 : 4 * (a ^ 3 * 4294967296 ^ 2 * 3600000000000000000 * (4294967296 - b + a))
      ≤ a ^ 3 * 4294967296 ^ 2 * 3600000000000000000 * (5 * (4294967296 - b)) := by
    have h40 : a ^ 3 * 4294967296 ^ 2 * 3600000000000000000 * (4 * (4294967296 - b + a))
        ≤ a ^ 3 * 4294967296 ^ 2 * 3600000000000000000 * (5 * (4294967296 - b)) :=
      mul_le_mul_of_nonneg_left (by omega) (by positivity)
    linarith
  have h5 : a ^ 3 * 4294967296 ^ 2 * 3600000000000000000 * (5 * (4294967296 - b))
      < 4 * (a * (4294967296 - b) * (a ^ 2 * 4294967296 ^ 2 * 4611123059885604900)) := by
    have e : 4 * (a * (4294967296 - b) * (a ^ 2 * 4294967296 ^ 2 * 4611123059885604900))
        - a ^ 3 * 4294967296 ^ 2 * 3600000000000000000 * (5 * (4294967296 - b))
        = a ^ 3 * 4294967296 ^ 2 * (444492239542419600 * (4294967296 - b)) := by ring
    have : 0 < a ^ 3 * 4294967296 ^ 2 * (444492239542419600 * (4294967296 - b)) := by
      have : (0 : Int) < 4294967296 - b := by omega
      positivity
    linarith
  linarith

/-- the start value of the quadratic form -/
theorem bg_V0 {k a b e0 s0 : Int} (h : Lp2Butter k a b) (he0 : 2 * a * 4294967296 * 804782080 ≤ e0)
    (he1 : e0 ≤ 2 * a * 4294967296 * 2148007936) (hs0 : -bgS0 a ≤ s0) (hs1 : s0 ≤ bgS0 a) :
    0 ≤ lp2Q a b e0 s0 ∧ 1000 * lp2Q a b e0 s0 ≤ a ^ 3 * 4294967296 ^ 2 * 18470000000000000000000 := by
  have ha := h.a_ge; have hba := lp2_b_le_a h; have hb := h.hb0; have hbl := h.b_le
  have hA := h.adm
  have he0pos : 0 ≤ e0 := le_trans (by positivity) he0
  refine ⟨lp2Q_nonneg (by omega) (le_of_lt hA.hD) _ _, ?_⟩
  -- |cross| ≤ b·e0·S0, (M−b)s0² ≤ M·S0²
  have hs2 : s0 ^ 2 ≤ bgS0 a ^ 2 := sq_le_sq' hs0 hs1
  have hcross : -((b - a) * e0 * s0) ≤ b * e0 * bgS0 a := by
    have h1 : -(e0 * s0) ≤ e0 * bgS0 a := by nlinarith
    have h2 : (b - a) * (-(e0 * s0)) ≤ (b - a) * (e0 * bgS0 a) :=
      mul_le_mul_of_nonneg_left h1 (by have := h.two_a_lt; omega)
    have h3 : 0 ≤ a * (e0 * bgS0 a) := by unfold bgS0; positivity
    nlinarith
  have hsq : (4294967296 - b) * s0 ^ 2 ≤ 4294967296 * bgS0 a ^ 2 := by
    have := mul_le_mul_of_nonneg_left hs2 (show (0 : Int) ≤ 4294967296 - b by omega)
    have h0 : 0 ≤ b * bgS0 a ^ 2 := by positivity
    nlinarith
  have hQ : lp2Q a b e0 s0 ≤ a * e0 ^ 2 + b * e0 * bgS0 a + 4294967296 * bgS0 a ^ 2 := by
    unfold lp2Q; linarith
  -- everything in units a³M²
  have he2 : e0 ^ 2 ≤ (2 * a * 4294967296 * 2148007936) ^ 2 := pow_le_pow_left₀ he0pos he1 2
  have t1 : a * e0 ^ 2 ≤ a ^ 3 * 4294967296 ^ 2 * 18455752372475920384 := by
    have := mul_le_mul_of_nonneg_left he2 (show (0 : Int) ≤ a by omega)
    have e : a * (2 * a * 4294967296 * 2148007936) ^ 2 = a ^ 3 * 4294967296 ^ 2 * 18455752372475920384 := by ring
    linarith
  have t2 : b * e0 * bgS0 a ≤ a ^ 3 * 4294967296 ^ 2 * 9009398277996544 := by
    unfold bgS0
    have h1 : b * e0 ≤ (131072 * a) * (2 * a * 4294967296 * 2148007936) :=
      mul_le_mul hba he1 he0pos (by positivity)
    have := mul_le_mul_of_nonneg_right h1 (show (0 : Int) ≤ 16 * a * 4294967296 by positivity)
    have e : (131072 * a) * (2 * a * 4294967296 * 2148007936) * (16 * a * 4294967296)
        = a ^ 3 * 4294967296 ^ 2 * 9009398277996544 := by ring
    linarith
  have t3 : 4294967296 * bgS0 a ^ 2 ≤ a ^ 3 * 4294967296 ^ 2 * 1099511627776 := by
    unfold bgS0
    have e : 4294967296 * (16 * a * 4294967296) ^ 2 = a ^ 2 * 4294967296 ^ 2 * 1099511627776 := by ring
    have : a ^ 2 * 4294967296 ^ 2 * 1099511627776 ≤ a ^ 3 * 4294967296 ^ 2 * 1099511627776 := by
      have : a ^ 2 ≤ a ^ 3 := by nlinarith
      nlinarith
    linarith
  have hp : 0 ≤ a ^ 3 * 4294967296 ^ 2 := by positivity
  linarith

end Idsp
