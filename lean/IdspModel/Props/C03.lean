import IdspModel.Lemmas.NumChecked
import IdspModel.Lemmas.NumExact
/-!
# C03 — one update of a fixed-point Biquad is the exact clamped recurrence

Model: `IdspModel/Model/Biquad.lean` (`Biquad::update::<N>` of `src/iir/biquad.rs`), parametric in the sample
width `w` and fractional bits `q` (instances `(8,6) (16,14) (32,30) (64,62)`), `ONE = 2^q`.
`c.sum x0 x1 x2 y1 y2 = b0·x0 + b1·x1 + b2·x2 − a1·y1 − a2·y2` in unbounded integers; `Int` `/` is floor division.
The configuration `c` is an argument of the update functions and is not part of their result, so it is
unchanged by construction (the Rust method takes `&self`).
Property theorems only (helper lemmas live in `IdspModel/Lemmas/Num*.lean`).
-/
namespace Idsp

/-- **N = 4, either profile, every partial sum fits.**  For in-range coefficients, offset, aligned limits, state and
    input such that every left-to-right partial sum of the accumulator expression and the total `T = sum + u·ONE`
    fit the `2w`-bit accumulator, the update returns `y0 = clamp(⌊T/ONE⌋, min, max)` and the state `[x0, x1, y0, y1]`. -/
theorem update4_exact (m : Mode) (w q : Nat) (hw : 0 < w) (hq : q ≤ w) (c : BiquadCfg)
    (hc : c.inRange w) (hal : c.aligned w q) (x0 x1 x2 y1 y2 : Int)
    (hx0 : inI w x0 = true) (hx1 : inI w x1 = true) (hx2 : inI w x2 = true)
    (hy1 : inI w y1 = true) (hy2 : inI w y2 = true)
    (hp : c.partialFit w x0 x1 x2 y1 y2)
    (hT : inI (2 * w) (c.sum x0 x1 x2 y1 y2 + c.u * 2 ^ q) = true) :
    let y0 := clip ((c.sum x0 x1 x2 y1 y2 + c.u * 2 ^ q) / 2 ^ q) c.mn c.mx
    biquadUpdate4 m w q c (x1, x2, y1, y2) x0 = .ok ((x0, x1, y0, y1), y0) := by
  intro y0
  have hP := two_pow_pos q
  unfold biquadUpdate4
  simp only
  rw [← bind_assoc, acc_macc_of_partialFit m hw hq hc hal hx0 hx1 hx2 hy1 hy2 hp (Int.le_refl 0) hP
    (by rwa [Int.add_zero]), ok_bind]
  simp only [Int.add_zero]; rfl

/-- **N = 5 (noise shaping), either profile, every partial sum fits.**  With the previous remainder `0 ≤ e1 < ONE`
    and `T = sum + u·ONE + e1`: output `clamp(⌊T/ONE⌋)`, state `[x0, x1, y0, y1, T mod ONE]`. -/
theorem update5_exact (m : Mode) (w q : Nat) (hw : 0 < w) (hq : q ≤ w) (c : BiquadCfg)
    (hc : c.inRange w) (hal : c.aligned w q) (x0 x1 x2 y1 y2 e1 : Int)
    (hx0 : inI w x0 = true) (hx1 : inI w x1 = true) (hx2 : inI w x2 = true)
    (hy1 : inI w y1 = true) (hy2 : inI w y2 = true) (he0 : 0 ≤ e1) (he1 : e1 < 2 ^ q)
    (hp : c.partialFit w x0 x1 x2 y1 y2)
    (hT : inI (2 * w) (c.sum x0 x1 x2 y1 y2 + c.u * 2 ^ q + e1) = true) :
    let T := c.sum x0 x1 x2 y1 y2 + c.u * 2 ^ q + e1
    let y0 := clip (T / 2 ^ q) c.mn c.mx
    biquadUpdate5 m w q c (x1, x2, y1, y2, e1) x0 = .ok ((x0, x1, y0, y1, T % 2 ^ q), y0) := by
  intro T y0
  unfold biquadUpdate5
  simp only
  rw [← bind_assoc, acc_macc_of_partialFit m hw hq hc hal hx0 hx1 hx2 hy1 hy2 hp he0 he1 hT, ok_bind]

/-- **Release profile, N = 4 and N = 5: only the FINAL total has to fit.**  With overflow checks off, wrapping
    partial sums are harmless: for ANY integers as coefficients/state/input (in particular all in-range ones), an
    in-range offset and aligned in-range limits, if the exact total `T` fits the accumulator the update returns the
    exact clamped value and the exact remainder. -/
theorem update45_release_exact (w q : Nat) (hw : 0 < w) (hq : q ≤ w) (c : BiquadCfg)
    (hu : inI w c.u = true) (hmn : inI w c.mn = true) (hmx : inI w c.mx = true) (hal : c.aligned w q)
    (x0 x1 x2 y1 y2 e1 : Int) (he0 : 0 ≤ e1) (he1 : e1 < 2 ^ q)
    (hT : inI (2 * w) (c.sum x0 x1 x2 y1 y2 + c.u * 2 ^ q + e1) = true) :
    let T := c.sum x0 x1 x2 y1 y2 + c.u * 2 ^ q + e1
    let y0 := clip (T / 2 ^ q) c.mn c.mx
    biquadUpdate5 .release w q c (x1, x2, y1, y2, e1) x0 = .ok ((x0, x1, y0, y1, T % 2 ^ q), y0) ∧
    (e1 = 0 → biquadUpdate4 .release w q c (x1, x2, y1, y2) x0 = .ok ((x0, x1, y0, y1), y0)) := by
  intro T y0
  have key : ∀ e, 0 ≤ e → e < 2 ^ q → inI (2 * w) (c.sum x0 x1 x2 y1 y2 + c.u * 2 ^ q + e) = true →
      maccPost w q (c.total w q x0 x1 x2 y1 y2 e) c.mn c.mx =
        (clip ((c.sum x0 x1 x2 y1 y2 + c.u * 2 ^ q + e) / 2 ^ q) c.mn c.mx,
         (c.sum x0 x1 x2 y1 y2 + c.u * 2 ^ q + e) % 2 ^ q) := by
    intro e h0 h1 hin
    rw [total_eq hw hq hu h0 h1 hin, maccPost_eq hw hq hin hmn hmx hal.1 hal.2]
  constructor
  · unfold biquadUpdate5
    simp only
    rw [← bind_assoc, acc_macc_release hw, ok_bind, key e1 he0 he1 hT]
  · intro h0
    subst h0
    unfold biquadUpdate4
    simp only
    rw [← bind_assoc, acc_macc_release hw, ok_bind, key 0 he0 he1 hT]

/-- **Checked profile: whenever the update returns, it returns the exact value.**  No fit hypotheses: with overflow
    checks on, an update that does not panic has evaluated every partial sum and the total without wrapping and has
    passed the alignment assertions, so the result is the exact clamped recurrence (and the total did fit). -/
theorem update45_checked_exact_of_ok (w q : Nat) (hw : 0 < w) (hq : q ≤ w) (c : BiquadCfg)
    (hu : inI w c.u = true) (hmn : inI w c.mn = true) (hmx : inI w c.mx = true)
    (x0 x1 x2 y1 y2 e1 : Int) (he0 : 0 ≤ e1) (he1 : e1 < 2 ^ q) :
    let T := c.sum x0 x1 x2 y1 y2 + c.u * 2 ^ q + e1
    let y0 := clip (T / 2 ^ q) c.mn c.mx
    (∀ r, biquadUpdate5 .checked w q c (x1, x2, y1, y2, e1) x0 = .ok r →
      r = ((x0, x1, y0, y1, T % 2 ^ q), y0) ∧ inI (2 * w) T = true) ∧
    (e1 = 0 → ∀ r, biquadUpdate4 .checked w q c (x1, x2, y1, y2) x0 = .ok r →
      r = ((x0, x1, y0, y1), y0) ∧ inI (2 * w) T = true) := by
  intro T y0
  constructor
  · intro r h
    unfold biquadUpdate5 at h
    simp only at h
    rw [← bind_assoc] at h
    obtain ⟨p, hp, h⟩ := bind_eq_ok h
    obtain ⟨hin, rfl⟩ := acc_macc_checked_ok hw hq hu hmn hmx he0 he1 hp
    cases h
    exact ⟨rfl, hin⟩
  · intro h0 r h
    subst h0
    unfold biquadUpdate4 at h
    simp only at h
    rw [← bind_assoc] at h
    obtain ⟨p, hp, h⟩ := bind_eq_ok h
    obtain ⟨hin, rfl⟩ := acc_macc_checked_ok hw hq hu hmn hmx he0 he1 hp
    cases h
    exact ⟨rfl, hin⟩

/-- the statement "the update returns the exact clamped value for every in-range configuration, state and input
    whose exact total fits the accumulator" for the `.checked` profile, N = 4 -/
def update4_exact_checked_full : Prop :=
  ∀ (w q : Nat) (c : BiquadCfg) (x0 x1 x2 y1 y2 : Int), 0 < w → q ≤ w → c.inRange w → c.aligned w q →
    inI w x0 = true → inI w x1 = true → inI w x2 = true → inI w y1 = true → inI w y2 = true →
    inI (2 * w) (c.sum x0 x1 x2 y1 y2 + c.u * 2 ^ q) = true →
    biquadUpdate4 .checked w q c (x1, x2, y1, y2) x0 =
      .ok ((x0, x1, clip ((c.sum x0 x1 x2 y1 y2 + c.u * 2 ^ q) / 2 ^ q) c.mn c.mx, y1),
           clip ((c.sum x0 x1 x2 y1 y2 + c.u * 2 ^ q) / 2 ^ q) c.mn c.mx)

/-- **A partial sum can overflow although the total fits (finding).**  On `i8`/Q2.6 with `b0 = b1 = a1 = -2.0`
    (`-128`) and `x0 = x1 = y1 = -128`: `b0·x0 + b1·x1 = 2^15` does not fit `i16`, while the exact sum
    `2^15 − 2^14 = 16384` does.  With overflow checks on, the update panics at the first `+`
    (`biquad.rs:454`); with checks off it wraps and returns the exact clamped value `clamp(256) = 127`. -/
theorem update4_partial_sum_overflow_witness :
    let c : BiquadCfg := ⟨-128, -128, 0, -128, 0, 0, -128, 127⟩
    (c.inRange 8 ∧ c.aligned 8 6) ∧
    c.sum (-128) (-128) 0 (-128) 0 + c.u * 2 ^ 6 = 16384 ∧ inI 16 16384 = true ∧
    clip (16384 / 2 ^ 6) c.mn c.mx = 127 ∧
    biquadUpdate4 .checked 8 6 c (-128, 0, -128, 0) (-128) = .error ⟨"biquad.rs:454 +"⟩ ∧
    biquadUpdate4 .release 8 6 c (-128, 0, -128, 0) (-128) = .ok ((-128, -128, 127, -128), 127) := by
  refine ⟨⟨?_, ?_⟩, ?_, ?_, ?_, ?_, ?_⟩
  · unfold BiquadCfg.inRange; decide
  · unfold BiquadCfg.aligned; decide
  all_goals decide

theorem update4_exact_checked_full_false : ¬ update4_exact_checked_full := by
  intro h
  have := h 8 6 ⟨-128, -128, 0, -128, 0, 0, -128, 127⟩ (-128) (-128) 0 (-128) 0 (by decide) (by decide)
    (by unfold BiquadCfg.inRange; decide) (by unfold BiquadCfg.aligned; decide)
    (by decide) (by decide) (by decide) (by decide) (by decide) (by decide)
  exact absurd this (by decide)

/-- the same with all-positive full-scale operands (three feed-forward terms) -/
example : biquadUpdate4 .checked 8 6 ⟨127, 127, 127, 127, 127, 0, -128, 127⟩ (127, 127, 127, 127) 127 =
      .error ⟨"biquad.rs:455 +"⟩ ∧
    biquadUpdate4 .release 8 6 ⟨127, 127, 127, 127, 127, 0, -128, 127⟩ (127, 127, 127, 127) 127 =
      .ok ((127, 127, 127, 127), 127) := by decide

/-- non-vacuity of `update4_exact` / `update5_exact`: a generic low-pass-like coefficient set on `i8` -/
example : biquadUpdate5 .checked 8 6 ⟨20, 40, 20, -70, 25, 3, -128, 127⟩ (50, -30, 60, 10, 17) 90 =
    .ok ((90, 50, 114, 60, 63), 114) := by decide

/-- **The remainder word stays a remainder.**  Every returning N = 5 update (either profile, any operands) stores a
    fifth word in `[0, ONE)`; hence along any run started with `0 ≤ e < ONE` (e.g. the all-zero state) the
    hypothesis `0 ≤ e1 < ONE` of `update5_exact` holds at every step. -/
theorem update5_remainder_range (m : Mode) (w q : Nat) (hw : 0 < w) (c : BiquadCfg)
    (xy st : Int × Int × Int × Int × Int) (x0 y : Int)
    (h : biquadUpdate5 m w q c xy x0 = .ok (st, y)) : 0 ≤ st.2.2.2.2 ∧ st.2.2.2.2 < 2 ^ q := by
  obtain ⟨x1, x2, y1, y2, e1⟩ := xy
  obtain ⟨_, rfl⟩ := biquadUpdate5_ok_inv hw h
  have hP := two_pow_pos q
  exact ⟨Int.emod_nonneg _ (by omega), Int.emod_lt_of_pos _ hP⟩

theorem run5_remainder_range (m : Mode) (w q : Nat) (hw : 0 < w) (c : BiquadCfg)
    (st sf : Int × Int × Int × Int × Int) (xs ys : List Int)
    (h0 : 0 ≤ st.2.2.2.2 ∧ st.2.2.2.2 < 2 ^ q)
    (h : runR (biquadUpdate5 m w q c) st xs = .ok (sf, ys)) : 0 ≤ sf.2.2.2.2 ∧ sf.2.2.2.2 < 2 ^ q := by
  induction xs generalizing st ys with
  | nil => cases h; exact h0
  | cons x xs ih =>
    obtain ⟨st', y, ys', h1, h2, rfl⟩ := runR_cons_ok h
    exact ih st' ys' (update5_remainder_range m w q hw c st st' x y h1) h2

/-- **`proportional(k)`** (`b0 = k`, everything else zero, limits = type range, `u = 0`), either profile, every
    in-range state and input, N = 5 with remainder `0 ≤ e1 < ONE` (N = 4 is the case `e1 = 0`): the update never
    panics and returns `clamp(⌊(k·x0 + e1)/ONE⌋, T::MIN, T::MAX)` with new remainder `(k·x0 + e1) mod ONE`.
    The clamp to the type range is genuine: `k·x0/ONE` can be as large as `2^w` (see the example). -/
theorem proportional_exact (m : Mode) (w q : Nat) (hq0 : 0 < q) (hq : q < w) (k : Int) (hk : inI w k = true)
    (x0 x1 x2 y1 y2 e1 : Int) (hx0 : inI w x0 = true) (hx1 : inI w x1 = true) (hx2 : inI w x2 = true)
    (hy1 : inI w y1 = true) (hy2 : inI w y2 = true) (he0 : 0 ≤ e1) (he1 : e1 < 2 ^ q) :
    let y0 := clip ((k * x0 + e1) / 2 ^ q) (minI w) (maxI w)
    biquadUpdate5 m w q (.proportional w k) (x1, x2, y1, y2, e1) x0 =
      .ok ((x0, x1, y0, y1, (k * x0 + e1) % 2 ^ q), y0) ∧
    (e1 = 0 → biquadUpdate4 m w q (.proportional w k) (x1, x2, y1, y2) x0 = .ok ((x0, x1, y0, y1), y0)) := by
  intro y0
  have hw : 0 < w := by omega
  have hq' : q ≤ w := by omega
  have hc := proportional_inRange (w := w) hk
  have hal := proportional_aligned (w := w) hq0 hq' k
  have hp := proportional_partialFit hw hk hx0 x1 x2 y1 y2
  have hsum := proportional_sum w k x0 x1 x2 y1 y2
  have hu : (BiquadCfg.proportional w k).u = 0 := rfl
  have hmn : (BiquadCfg.proportional w k).mn = minI w := rfl
  have hmx : (BiquadCfg.proportional w k).mx = maxI w := rfl
  have hT : inI (2 * w) ((BiquadCfg.proportional w k).sum x0 x1 x2 y1 y2 +
      (BiquadCfg.proportional w k).u * 2 ^ q + e1) = true := by
    rw [hsum, hu, Int.zero_mul, Int.add_zero]; exact prod_add_rem_in hq hk hx0 he0 he1
  constructor
  · have := update5_exact m w q hw hq' _ hc hal x0 x1 x2 y1 y2 e1 hx0 hx1 hx2 hy1 hy2 he0 he1 hp hT
    simp only [hsum, hu, hmn, hmx, Int.zero_mul, Int.add_zero] at this
    exact this
  · intro h0
    subst h0
    have := update4_exact m w q hw hq' _ hc hal x0 x1 x2 y1 y2 hx0 hx1 hx2 hy1 hy2 hp
      (by rw [Int.add_zero] at hT; exact hT)
    simp only [hsum, hu, hmn, hmx, Int.zero_mul, Int.add_zero] at this
    simpa [y0] using this

/-- when the scaled product is representable, `proportional(k)` returns exactly `⌊k·x0/ONE⌋` (N = 4) -/
theorem proportional_exact_of_representable (m : Mode) (w q : Nat) (hq0 : 0 < q) (hq : q < w) (k : Int)
    (hk : inI w k = true) (x0 x1 x2 y1 y2 : Int) (hx0 : inI w x0 = true) (hx1 : inI w x1 = true)
    (hx2 : inI w x2 = true) (hy1 : inI w y1 = true) (hy2 : inI w y2 = true)
    (hr : inI w (k * x0 / 2 ^ q) = true) :
    biquadUpdate4 m w q (.proportional w k) (x1, x2, y1, y2) x0 =
      .ok ((x0, x1, k * x0 / 2 ^ q, y1), k * x0 / 2 ^ q) := by
  have h := (proportional_exact m w q hq0 hq k hk x0 x1 x2 y1 y2 0 hx0 hx1 hx2 hy1 hy2 (Int.le_refl 0)
    (two_pow_pos q)).2 rfl
  have ⟨r0, r1⟩ := inI_iff.mp hr
  simp only [Int.add_zero] at h
  rw [h, clip_of_mem (by unfold minI; omega) (by unfold maxI; omega)]

/-- `(-2.0)·(-2.0)` on `i8`: the scaled product `256` is not representable, the output is the type maximum -/
example : biquadUpdate4 .checked 8 6 (.proportional 8 (-128)) (0, 0, 0, 0) (-128) = .ok ((-128, 0, 127, 0), 127) := by
  decide

/-- **`IDENTITY` returns `x0`** for every in-range state and input, either profile, N = 4 and N = 5 — in the N = 5
    form for EVERY remainder `0 ≤ e1 < ONE` (not only `e1 = 0`), and the remainder is passed on unchanged. -/
theorem identity_returns_x0 (m : Mode) (w q : Nat) (hq0 : 0 < q) (hq : q + 1 < w)
    (x0 x1 x2 y1 y2 e1 : Int) (hx0 : inI w x0 = true) (hx1 : inI w x1 = true) (hx2 : inI w x2 = true)
    (hy1 : inI w y1 = true) (hy2 : inI w y2 = true) (he0 : 0 ≤ e1) (he1 : e1 < 2 ^ q) :
    biquadUpdate4 m w q (.identity w q) (x1, x2, y1, y2) x0 = .ok ((x0, x1, x0, y1), x0) ∧
    biquadUpdate5 m w q (.identity w q) (x1, x2, y1, y2, e1) x0 = .ok ((x0, x1, x0, y1, e1), x0) := by
  have hk : inI w (oneQ q) = true := oneQ_in hq
  have ⟨a0, a1⟩ := inI_iff.mp hx0
  have hcl : clip x0 (minI w) (maxI w) = x0 := clip_of_mem (by unfold minI; omega) (by unfold maxI; omega)
  have hP := two_pow_pos q
  unfold BiquadCfg.identity
  constructor
  · have h := (proportional_exact m w q hq0 (by omega) (oneQ q) hk x0 x1 x2 y1 y2 0 hx0 hx1 hx2 hy1 hy2
      (Int.le_refl 0) hP).2 rfl
    have := mul_add_ediv_of_rem (q := q) x0 0 (Int.le_refl 0) hP
    simp only [oneQ] at h this ⊢
    rw [h, this.1, hcl]
  · have h := (proportional_exact m w q hq0 (by omega) (oneQ q) hk x0 x1 x2 y1 y2 e1 hx0 hx1 hx2 hy1 hy2
      he0 he1).1
    have := mul_add_ediv_of_rem (q := q) x0 e1 he0 he1
    simp only [oneQ] at h this ⊢
    rw [h, this.1, this.2, hcl]

/-- **`HOLD` returns `y1`** (`a1 = -ONE`, all else zero) for every in-range state and input, either profile, N = 4
    and N = 5 (every remainder `0 ≤ e1 < ONE`, passed on unchanged). -/
theorem hold_returns_y1 (m : Mode) (w q : Nat) (hq0 : 0 < q) (hq : q < w)
    (x0 x1 x2 y1 y2 e1 : Int) (hx0 : inI w x0 = true) (hx1 : inI w x1 = true) (hx2 : inI w x2 = true)
    (hy1 : inI w y1 = true) (hy2 : inI w y2 = true) (he0 : 0 ≤ e1) (he1 : e1 < 2 ^ q) :
    biquadUpdate4 m w q (.hold w q) (x1, x2, y1, y2) x0 = .ok ((x0, x1, y1, y1), y1) ∧
    biquadUpdate5 m w q (.hold w q) (x1, x2, y1, y2, e1) x0 = .ok ((x0, x1, y1, y1, e1), y1) := by
  have hw : 0 < w := by omega
  have hq' : q ≤ w := by omega
  have hc := hold_inRange (w := w) hq
  have hal := hold_aligned (w := w) hq0 hq'
  have hp := hold_partialFit hq hy1 x0 x1 x2 y2
  have hsum := hold_sum w q x0 x1 x2 y1 y2
  have hu : (BiquadCfg.hold w q).u = 0 := rfl
  have hmn : (BiquadCfg.hold w q).mn = minI w := rfl
  have hmx : (BiquadCfg.hold w q).mx = maxI w := rfl
  have ⟨a0, a1⟩ := inI_iff.mp hy1
  have hcl : clip y1 (minI w) (maxI w) = y1 := clip_of_mem (by unfold minI; omega) (by unfold maxI; omega)
  have hP := two_pow_pos q
  have hT : ∀ e, 0 ≤ e → e < 2 ^ q → inI (2 * w) ((BiquadCfg.hold w q).sum x0 x1 x2 y1 y2 +
      (BiquadCfg.hold w q).u * 2 ^ q + e) = true := by
    intro e h0 h1
    rw [hsum, hu, Int.zero_mul, Int.add_zero]
    have hle : (2 : Int) ^ q ≤ 2 ^ (w - 1) := two_pow_mono (by omega)
    have hH := two_pow_pos (w - 1)
    rw [inI_iff, two_pow_two_mul_pred' hw]
    constructor <;> nlinarith
  constructor
  · have := update4_exact m w q hw hq' _ hc hal x0 x1 x2 y1 y2 hx0 hx1 hx2 hy1 hy2 hp
      (by have := hT 0 (Int.le_refl 0) hP; rwa [Int.add_zero] at this)
    have hv := mul_add_ediv_of_rem (q := q) y1 0 (Int.le_refl 0) hP
    simp only [Int.add_zero] at hv
    simp only [hsum, hu, hmn, hmx, Int.zero_mul, Int.add_zero, hv.1, hcl] at this
    exact this
  · have := update5_exact m w q hw hq' _ hc hal x0 x1 x2 y1 y2 e1 hx0 hx1 hx2 hy1 hy2 he0 he1 hp
      (hT e1 he0 he1)
    have hv := mul_add_ediv_of_rem (q := q) y1 e1 he0 he1
    simp only [hsum, hu, hmn, hmx, Int.zero_mul, Int.add_zero, hv.1, hv.2, hcl] at this
    exact this

/-- the pinned doc-tests of `update` on `i32` (N = 5, IDENTITY) and `i8` HOLD -/
example : biquadUpdate5 .checked 32 30 (.identity 32 30) (1, 2, 3, 4, 5) 6 = .ok ((6, 1, 6, 3, 5), 6) := by decide +kernel
example : biquadUpdate4 .checked 8 6 (.hold 8 6) (1, 2, -77, 4) 6 = .ok ((6, 1, -77, -77), -77) := by decide

/-! ## The two-element transposed form (N = 2) — EXACT-ARITHMETIC recurrence only

The fixed-point `biquadUpdate2` rounds each of its five products separately (`mul_scaled`), so it does NOT agree
bit-for-bit with the four-element form.  The theorems below are about the ideal recurrences `df2tStep` / `df1Step`
(`IdspModel/Lemmas/NumExact.lean`) over an arbitrary commutative ring `R` (take `R = ℤ` or `ℚ`) with an arbitrary
clamp function `clipR : R → R`, where products are exact.  In the code the offset `u` enters through the second
state word; consequently it appears exactly once in the recurrence from the third sample on, and the state that
corresponds to DF1 "at rest" is `(u, u)`, which is `(0, 0)` for zero offset. -/

variable {R : Type} [CommRing R]

/-- three consecutive DF2T steps from ANY state: the third output obeys the DF1 recurrence in terms of the
    two previous inputs and the form's own two previous outputs, offset `u` included exactly once -/
theorem df2t_third_output (clipR : R → R) (k : ExactCfg R) (st : R × R) (xa xb xc : R) :
    let r1 := df2tStep clipR k st xa
    let r2 := df2tStep clipR k r1.1 xb
    let r3 := df2tStep clipR k r2.1 xc
    r3.2 = clipR (k.b0 * xc + k.b1 * xb + k.b2 * xa - k.a1 * r2.2 - k.a2 * r1.2 + k.u) := by
  simp only [df2tStep]
  congr 1
  ring

/-- DF2T started in the state corresponding to a DF1 state produces the same outputs for every input list -/
theorem df2t_run_of_df1 (clipR : R → R) (k : ExactCfg R) (st : R × R × R × R) (xs : List R) :
    (runP (df2tStep clipR k) (df2tOfDf1 k st) xs).2 = (runP (df1Step clipR k) st xs).2 := by
  induction xs generalizing st with
  | nil => rfl
  | cons x xs ih =>
    have ⟨h1, h2⟩ := df2t_step_of_df1 clipR k st x
    simp only [runP, h1, h2, ih]

/-- from rest: DF2T started at `(u, u)` reproduces DF1 started at zero, for every input list -/
theorem df2t_eq_df1_from_rest (clipR : R → R) (k : ExactCfg R) (xs : List R) :
    (runP (df2tStep clipR k) (k.u, k.u) xs).2 = (runP (df1Step clipR k) (0, 0, 0, 0) xs).2 := by
  rw [← df2t_run_of_df1]
  congr 2
  simp [df2tOfDf1]

/-- zero offset: DF2T from rest `(0, 0)` reproduces DF1 from rest for every input list -/
theorem df2t_eq_df1_from_rest_zero_offset (clipR : R → R) (k : ExactCfg R) (hu : k.u = 0) (xs : List R) :
    (runP (df2tStep clipR k) (0, 0) xs).2 = (runP (df1Step clipR k) (0, 0, 0, 0) xs).2 := by
  rw [← df2t_eq_df1_from_rest, hu]

/-- every window of three consecutive samples of a DF2T run obeys the clamped recurrence: for any state, any
    history `pre` and any three further inputs, the last output is the DF1 expression of the last three inputs
    and the two preceding OUTPUTS of the same run -/
theorem df2t_run_recurrence (clipR : R → R) (k : ExactCfg R) (st : R × R) (pre : List R) (xa xb xc : R) :
    ∃ ys ya yb yc, (runP (df2tStep clipR k) st (pre ++ [xa, xb, xc])).2 = ys ++ [ya, yb, yc] ∧
      yc = clipR (k.b0 * xc + k.b1 * xb + k.b2 * xa - k.a1 * yb - k.a2 * ya + k.u) := by
  rw [runP_append]
  exact ⟨_, _, _, _, rfl, df2t_third_output clipR k _ xa xb xc⟩

/-- instance over `ℤ` with the model's `clip`: a nonzero offset from rest `(0,0)` does NOT reproduce DF1 (the
    first two outputs lack `u`), which is why the correspondence above needs the state `(u, u)` -/
example : (runP (df2tStep (fun x => clip x (-100) 100) ⟨1, 2, 1, -1, 0, 5⟩) (0, 0) [1, 1, 1, 1]).2 = [1, 4, 13, 22] ∧
    (runP (df1Step (fun x => clip x (-100) 100) ⟨1, 2, 1, -1, 0, 5⟩) (0, 0, 0, 0) [1, 1, 1, 1]).2 = [6, 14, 23, 32] ∧
    (runP (df2tStep (fun x => clip x (-100) 100) ⟨1, 2, 1, -1, 0, 5⟩) (5, 5) [1, 1, 1, 1]).2 = [6, 14, 23, 32] := by
  decide

end Idsp
