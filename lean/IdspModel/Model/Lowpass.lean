import IdspModel.Rust
/-! Model of `src/lowpass.rs` (`Lowpass<1>`, `Lowpass<2>`) -/
namespace Idsp

def lpGet (s0 : Int) : Int := wrapI 32 (shr s0 32)

/-- `Lowpass<1>::update(x, &[k])`: returns (new state, y). -/
def lp1Update (m : Mode) (s0 x k : Int) : R (Int × Int) := do
  let d ← arithI m 64 "lowpass.rs:38 d = sat_sub * k" (satI 32 (x - lpGet s0) * k)
  let s1 ← arithI m 64 "lowpass.rs:41 self.0[0] += d" (s0 + d)
  let y := lpGet s1
  let s2 ← arithI m 64 "lowpass.rs:43 self.0[0] += d" (s1 + d)
  .ok (s2, y)

/-- `Lowpass<2>::update(x, &[k0, k1])`: returns (new state0, new state1, y). -/
def lp2Update (m : Mode) (s0 s1 x k0 k1 : Int) : R (Int × Int × Int) := do
  let d0 ← arithI m 64 "lowpass.rs:38 d = sat_sub * k" (satI 32 (x - lpGet s0) * k0)
  let p ← arithI m 64 "lowpass.rs:45 (self.0[1] >> 32) * k[1]" (shr s1 32 * k1)
  let d ← arithI m 64 "lowpass.rs:45 d +=" (d0 + p)
  let s1a ← arithI m 64 "lowpass.rs:46 self.0[1] += d" (s1 + d)
  let s0a ← arithI m 64 "lowpass.rs:47 self.0[0] += self.0[1]" (s0 + s1a)
  let y := lpGet s0a
  let s0b ← arithI m 64 "lowpass.rs:53 self.0[0] += self.0[1]" (s0a + s1a)
  let s1b ← arithI m 64 "lowpass.rs:54 self.0[1] += d" (s1a + d)
  .ok (s0b, s1b, y)

def lpSet (x : Int) : Int := wrapI 64 (x * 2 ^ 32)

end Idsp
