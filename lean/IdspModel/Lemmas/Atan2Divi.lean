import IdspModel.Model.Atan2
import IdspModel.Lemmas.Basic
/-!
# `divi`: the fixed-point division of `atan2`

For first-octant operands `0 ≤ y ≤ x < 2^31` the result is `0` (`x ≤ 1`) or `q·2^15 + 2^14` with the quotient
field `q = ⌊y·2^z / ⌊(x + 2^(15-z) - 1) / 2^(16-z)⌋⌋`, `z = min(clz y, 15)`.  `divi_spec` bounds `q`.  Core Lean only.
-/
namespace Idsp

theorem clz32_zero : clz 32 0 = 32 := by decide

/-- `clz 32` of a positive value: `31 - L` where `L` is the position of the leading one -/
theorem clz32_pos {y : Int} (h0 : 0 < y) :
    ∃ L : Nat, clz 32 y = 31 - L ∧ (2:Int)^L ≤ y ∧ y < 2^(L+1) := by
  obtain ⟨n, rfl⟩ : ∃ n : Nat, y = n := ⟨y.toNat, by omega⟩
  have hn : n ≠ 0 := by omega
  refine ⟨n.log2, ?_, ?_, ?_⟩
  · have : ¬ ((n : Int) ≤ 0) := by omega
    simp only [clz, this, if_false, Int.toNat_natCast]
    omega
  · have := Nat.log2_self_le hn
    exact_mod_cast this
  · have := @Nat.lt_log2_self n
    exact_mod_cast this

/-- `divi` (either build mode) once the normalisation shift `z` is known; the divisor is rounded down, the
    quotient clamped to `2^16` -/
theorem divi_of_z (m : Mode) {y x : Int} {z : Nat} (hz : min ((clz 32 y : Nat) : Int) 15 = z) (hz15 : z ≤ 15)
    (hy : 0 ≤ y) (hyx : y ≤ x) (hy1 : y * 2 ^ z < 2 ^ 32) (hx1 : x + (2 ^ (15 - z) - 1) < 2 ^ 32) :
    divi m y x =
      if (x + (2 ^ (15 - z) - 1)) / 2 ^ (16 - z) = 0 then .ok 0
      else .ok (min (y * 2 ^ z / ((x + (2 ^ (15 - z) - 1)) / 2 ^ (16 - z))) (2 ^ 16) * 2 ^ 15 + 2 ^ 14) := by
  have hd : decide (y ≤ x) = true := by simpa using hyx
  have e1 : ((15:Int) - z).toNat = 15 - z := by omega
  have e2 : ((16:Int) - z).toNat = 16 - z := by omega
  have e3 : (z : Int).toNat = z := by omega
  have hp := two_pow_pos (15 - z)
  have hx0 : 0 ≤ x + (2 ^ (15 - z) - 1) := by omega
  have hw : wrapU 32 (y * 2 ^ z) = y * 2 ^ z := by
    unfold wrapU; exact Int.emod_eq_of_lt (Int.mul_nonneg hy (Int.le_of_lt (two_pow_pos z))) hy1
  have q0 : 0 ≤ y * 2 ^ z / ((x + (2 ^ (15 - z) - 1)) / 2 ^ (16 - z)) :=
    Int.ediv_nonneg (Int.mul_nonneg hy (Int.le_of_lt (two_pow_pos z)))
      (Int.ediv_nonneg hx0 (Int.le_of_lt (two_pow_pos _)))
  have hw2 : wrapU 32 (min (y * 2 ^ z / ((x + (2 ^ (15 - z) - 1)) / 2 ^ (16 - z))) (2 ^ 16) * 2 ^ 15) =
      min (y * 2 ^ z / ((x + (2 ^ (15 - z) - 1)) / 2 ^ (16 - z))) (2 ^ 16) * 2 ^ 15 := by
    unfold wrapU; exact Int.emod_eq_of_lt (by omega) (by omega)
  cases m <;>
  · simp only [divi, hz, dbgAssert, hd, if_true, e1, e2, e3, shr]
    rw [arithU_ok_of_in (x := x + (2 ^ (15 - z) - 1)) (by rw [inU_iff]; exact ⟨hx0, hx1⟩)]
    simp only [bind, Except.bind]
    rw [hw]
    split
    · rfl
    · rw [hw2]
      exact arithU_ok_of_in (by rw [inU_iff]; omega)

theorem clz32_min_small {y : Int} (hy : 0 ≤ y) (hy17 : y < 2^17) :
    min ((clz 32 y : Nat) : Int) 15 = (15 : Nat) := by
  rcases Int.lt_or_eq_of_le hy with h | h
  · obtain ⟨L, hc, hl, hu⟩ := clz32_pos h
    have : L < 17 := by
      rcases Nat.lt_or_ge L 17 with h | h
      · exact h
      · have := two_pow_mono (a := 17) (b := L) h
        omega
    rw [hc]; omega
  · subst h; rw [clz32_zero]; decide

theorem clz32_min_big {y : Int} {L : Nat} (hL : 17 ≤ L) (h0 : (2:Int)^L ≤ y) (h1 : y < 2^(L+1)) :
    min ((clz 32 y : Nat) : Int) 15 = (31 - L : Nat) := by
  have hp := two_pow_pos L
  obtain ⟨L', hc, hl, hu⟩ := clz32_pos (y := y) (by omega)
  have : L' = L := by
    rcases Nat.lt_trichotomy L' L with h | h | h
    · have := two_pow_mono (a := L' + 1) (b := L) h; omega
    · exact h
    · have := two_pow_mono (a := L + 1) (b := L') h; omega
  subst this
  rw [hc]; omega

/-- small numerators (`y < 2^17`, shift 15): the divisor is `x/2` rounded down -/
theorem divi_small (m : Mode) {y x : Int} (hy : 0 ≤ y) (hyx : y ≤ x) (hy17 : y < 2^17) (hx : x < 2^31) :
    divi m y x =
      if x / 2 = 0 then .ok 0 else .ok (min (y * 2^15 / (x / 2)) (2 ^ 16) * 2^15 + 2^14) := by
  have h := divi_of_z m (clz32_min_small hy hy17) (by omega) hy hyx (by omega) (by omega)
  rw [h]
  simp only [show 15 - 15 = 0 from rfl, show 16 - 15 = 1 from rfl]
  have : (x + (2 ^ 0 - 1)) / 2 ^ 1 = x / 2 := by omega
  rw [this]

/-- large numerators (`2^17 ≤ y`): shift `z = clz y ∈ [1,14]`, the divisor is at least `2^15` -/
theorem divi_big_z (z : Nat) (hz1 : 1 ≤ z) (hz2 : z ≤ 14) {y x : Int}
    (h0 : (2:Int) ^ (31 - z) ≤ y) (h1 : y < 2 ^ (32 - z)) (hyx : y ≤ x) (hx : x < 2 ^ 31) :
    ∃ q : Int, (∀ m, divi m y x = .ok (q * 2 ^ 15 + 2 ^ 14)) ∧ 0 ≤ q ∧ q ≤ 2 ^ 16 := by
  have hz : min ((clz 32 y : Nat) : Int) 15 = (z : Nat) := by
    have := clz32_min_big (y := y) (L := 31 - z) (by omega) h0
      (by rwa [show 31 - z + 1 = 32 - z by omega])
    rwa [show 31 - (31 - z) = z by omega] at this
  have hy : 0 ≤ y := Int.le_trans (Int.le_of_lt (two_pow_pos _)) h0
  have hcases : z = 1 ∨ z = 2 ∨ z = 3 ∨ z = 4 ∨ z = 5 ∨ z = 6 ∨ z = 7 ∨ z = 8 ∨ z = 9 ∨ z = 10 ∨
      z = 11 ∨ z = 12 ∨ z = 13 ∨ z = 14 := by omega
  rcases hcases with h | h | h | h | h | h | h | h | h | h | h | h | h | h <;>
  · have a1 : y * 2 ^ z < 2 ^ 32 := by subst h; simp only [Nat.reduceSub] at h1; omega
    have a2 : x + (2 ^ (15 - z) - 1) < 2 ^ 32 := by subst h; simp only [Nat.reduceSub]; omega
    have a3 : (2:Int) ^ 15 ≤ (x + (2 ^ (15 - z) - 1)) / 2 ^ (16 - z) := by
      subst h; simp only [Nat.reduceSub] at *; omega
    have hd : ∀ m, divi m y x = .ok (min (y * 2 ^ z / ((x + (2 ^ (15 - z) - 1)) / 2 ^ (16 - z))) (2 ^ 16)
        * 2 ^ 15 + 2 ^ 14) := fun m => by
      rw [divi_of_z m hz (by omega) hy hyx a1 a2, if_neg (by omega)]
    have q0 : 0 ≤ y * 2 ^ z / ((x + (2 ^ (15 - z) - 1)) / 2 ^ (16 - z)) :=
      Int.ediv_nonneg (Int.mul_nonneg hy (Int.le_of_lt (two_pow_pos z))) (by omega)
    exact ⟨_, hd, by omega, by omega⟩

/-- The quotient field of `divi` (the same in both build modes) for every first-octant operand pair `0 ≤ y ≤ x < 2^31`:
    no panic; `x ≤ 1` gives `0`; otherwise the result is `q·2^15 + 2^14` with `0 ≤ q ≤ 2^16` (the clamp added
    by the `fix:` commit; before it `(3,3)` gave `q = 1.5·2^16`), and `y = 0` gives `q = 0`. -/
theorem divi_spec {y x : Int} (hy : 0 ≤ y) (hyx : y ≤ x) (hx : x < 2 ^ 31) :
    (x ≤ 1 ∧ ∀ m, divi m y x = .ok 0) ∨
    (2 ≤ x ∧ ∃ q : Int, (∀ m, divi m y x = .ok (q * 2 ^ 15 + 2 ^ 14)) ∧ 0 ≤ q ∧ q ≤ 2 ^ 16 ∧
      (y = 0 → q = 0)) := by
  by_cases hy17 : y < 2 ^ 17
  · by_cases h0 : x / 2 = 0
    · left
      exact ⟨by omega, fun m => by rw [divi_small m hy hyx hy17 hx, if_pos h0]⟩
    · right
      have hd : ∀ m, divi m y x = .ok (min (y * 2 ^ 15 / (x / 2)) (2 ^ 16) * 2 ^ 15 + 2 ^ 14) :=
        fun m => by rw [divi_small m hy hyx hy17 hx, if_neg h0]
      have q0 : 0 ≤ y * 2 ^ 15 / (x / 2) := Int.ediv_nonneg (by omega) (by omega)
      refine ⟨by omega, _, hd, by omega, by omega, ?_⟩
      intro h; subst h; simp; omega
  · right
    obtain ⟨L, hc, hl, hu⟩ := clz32_pos (y := y) (by omega)
    have hL17 : 17 ≤ L := by
      rcases Nat.lt_or_ge L 17 with h | h
      · have := two_pow_mono (a := L + 1) (b := 17) h; omega
      · exact h
    have hL30 : L ≤ 30 := by
      rcases Nat.lt_or_ge 30 L with h | h
      · have := two_pow_mono (a := 31) (b := L) h; omega
      · exact h
    obtain ⟨q, hq, q0, q1⟩ := divi_big_z (31 - L) (by omega) (by omega) (y := y) (x := x)
      (by rwa [show 31 - (31 - L) = L by omega]) (by rwa [show 32 - (31 - L) = L + 1 by omega]) hyx hx
    exact ⟨by omega, q, hq, q0, q1, by omega⟩

end Idsp
