import IdspModel.Model.Unwrap
import IdspModel.Lemmas.Basic
/-!
# C17 — phase unwrapping tools obey their exact modular identities

Property theorems only (helper lemmas live in `IdspModel/Lemmas`).
-/
namespace Idsp

/-- `overflowing_sub`: for every signed width `w ≥ 1` and every in-range pair, the wrap indicator is in
    `{-1,0,1}`, the returned difference is a `w`-bit value, and `y - x = d - wrap·2^w` exactly. -/
theorem overflowing_sub_exact (w : Nat) (hw : 0 < w) (y x : Int)
    (hy : inI w y = true) (hx : inI w x = true) :
    let r := overflowingSub w y x
    (r.2 = -1 ∨ r.2 = 0 ∨ r.2 = 1) ∧ y - x = r.1 - r.2 * 2 ^ w ∧ inI w r.1 = true := by
  have h2 := two_pow_succ_pred hw
  have ⟨hy0, hy1⟩ := inI_iff.mp hy
  have ⟨hx0, hx1⟩ := inI_iff.mp hx
  have hin := wrapI_in hw (y - x)
  simp only [overflowingSub]
  have hpp := two_pow_pos (w - 1)
  rcases wrapI_cases hw (z := y - x) (by omega) with ⟨_, he⟩ | ⟨hge, he⟩ | ⟨hlt, he⟩ <;>
  · refine ⟨?_, ?_, hin⟩ <;>
    · rw [he]; simp only [b2i, decide_eq_true_eq]
      split <;> split <;> simp <;> omega

/-- non-vacuity / concrete instance: the wrap case of the pinned unit test -/
example : overflowingSub 32 (-0x80000000) 1 = (0x7fffffff, 1) := by decide

/-- one `Unwrapper::update` step (`wq`-bit accumulator, `wp`-bit samples, `wp ≤ wq`): the returned value is the
    wrapped increment to the previous sample (= the old accumulator reduced to the sample width), the new
    accumulator is the old one plus that increment (modulo the accumulator width only), and it reduces to the
    new sample. -/
theorem unwrapper_step (wq wp : Nat) (hp : 0 < wp) (hpq : wp ≤ wq) (y x : Int) (hx : inI wp x = true) :
    let r := unwrapperUpdate wq wp y x
    r.2 = wrapI wp (x - wrapI wp y) ∧
    r.1 = wrapI wq (y + r.2) ∧
    wrapI wp r.1 = x := by
  have hq : 0 < wq := by omega
  have hdx : inI wq (wrapI wp (x - wrapI wp y)) = true := inI_mono hpq (wrapI_in hp _)
  simp only [unwrapperUpdate]
  refine ⟨trivial, by rw [wrapI_of_in hq hdx], ?_⟩
  rw [wrapI_of_in hq hdx]
  -- reduce mod 2^wq then mod 2^wp: 2^wp ∣ 2^wq
  obtain ⟨k, hk⟩ := wrapI_eq_sub wq (y + wrapI wp (x - wrapI wp y))
  obtain ⟨j, hj⟩ := wrapI_eq_sub wp (x - wrapI wp y)
  obtain ⟨i, hi⟩ := wrapI_eq_sub wp y
  have hpow : (2 : Int) ^ wq = 2 ^ (wq - wp) * 2 ^ wp := by
    rw [← Int.pow_add]; congr 1; omega
  rw [hk, hj, hi, hpow]
  have : y + (x - (y - i * 2 ^ wp) - j * 2 ^ wp) - k * (2 ^ (wq - wp) * 2 ^ wp)
       = x + (i - j - k * 2 ^ (wq - wp)) * 2 ^ wp := by
    rw [Int.sub_mul, Int.sub_mul, Int.mul_assoc]; omega
  rw [this, wrapI_add_mul, wrapI_of_in hp hx]

/-- the accumulator of the Unwrapper over a whole sample sequence -/
def unwrapperRun (wq wp : Nat) : Int → List Int → Int × List Int
  | y, [] => (y, [])
  | y, x :: xs =>
    let (y', dx) := unwrapperUpdate wq wp y x
    let (yf, ds) := unwrapperRun wq wp y' xs
    (yf, dx :: ds)

/-- for every sample sequence: the wide output equals the start value plus the exact running sum of the returned
    increments, modulo the accumulator width only. -/
theorem unwrapper_sum (wq wp : Nat) (hp : 0 < wp) (hpq : wp ≤ wq) (y : Int) (xs : List Int) :
    let r := unwrapperRun wq wp y xs
    wrapI wq r.1 = wrapI wq (y + r.2.sum) := by
  induction xs generalizing y with
  | nil => simp [unwrapperRun]
  | cons x xs ih =>
    simp only [unwrapperRun, List.sum_cons]
    have := ih (unwrapperUpdate wq wp y x).1
    simp only at this
    rw [this]
    simp only [unwrapperUpdate]
    have hdx : inI wq (wrapI wp (x - wrapI wp y)) = true := inI_mono hpq (wrapI_in hp _)
    rw [wrapI_of_in (by omega) hdx, wrapI_add_wrapI_left]
    congr 1; omega

/-- when no step makes the accumulator itself overflow, the sum is exact (the unwrapped phase) -/
theorem unwrapper_sum_exact (wq wp : Nat) (y : Int) (xs : List Int)
    (hfit : ∀ (pre : List Int), pre <+: xs →
      inI wq ((unwrapperRun wq wp y pre).1) = true ∧
      inI wq (y + (unwrapperRun wq wp y pre).2.sum) = true) (hp : 0 < wp) (hpq : wp ≤ wq) :
    (unwrapperRun wq wp y xs).1 = y + (unwrapperRun wq wp y xs).2.sum := by
  have h := unwrapper_sum wq wp hp hpq y xs
  have hq : 0 < wq := by omega
  have ⟨a, b⟩ := hfit xs (List.prefix_refl xs)
  simp only at h
  rwa [wrapI_of_in hq a, wrapI_of_in hq b] at h

/-- after any non-empty sample sequence the output reduced to the sample width is the latest sample -/
theorem unwrapper_tracks_last (wq wp : Nat) (hp : 0 < wp) (hpq : wp ≤ wq) (y : Int) (xs : List Int) (x : Int)
    (hx : inI wp x = true) :
    wrapI wp (unwrapperRun wq wp y (xs ++ [x])).1 = x := by
  induction xs generalizing y with
  | nil =>
    simp only [List.nil_append, unwrapperRun]
    exact (unwrapper_step wq wp hp hpq y x hx).2.2
  | cons a as ih =>
    simp only [List.cons_append, unwrapperRun]
    exact ih _

/-- `Accu`: iterating `next` n times from `(start, step)` -/
def accuNth (w : Nat) (start step : Int) : Nat → Int × Int
  | 0 => accuNext w start step
  | n + 1 => accuNth w (accuNext w start step).1 step n

/-- the n-th item (0-based) of the accumulator iterator is `start + n·step` modulo `2^w`; the iterator is total
    (`next` always returns `Some`, which is how the model is typed). -/
theorem accu_nth (w : Nat) (hw : 0 < w) (start step : Int) (n : Nat) (hs : inI w start = true) :
    (accuNth w start step n).2 = wrapI w (start + n * step) := by
  suffices h : ∀ s, inI w s = true → (accuNth w s step n).2 = wrapI w (s + n * step) from h start hs
  induction n with
  | zero => intro s hs; simp [accuNth, accuNext, wrapI_of_in hw hs]
  | succ n ih =>
    intro s _
    simp only [accuNth, accuNext]
    rw [ih _ (wrapI_in hw _), wrapI_add_wrapI_left]
    congr 1
    push_cast
    rw [Int.add_mul]; omega

end Idsp
