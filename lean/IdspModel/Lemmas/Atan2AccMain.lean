import IdspModel.Lemmas.Atan2Main
import IdspModel.Lemmas.Atan2AccTable
import IdspModel.Lemmas.Atan2AccDivi
import IdspModel.Lemmas.Atan2AccOct
import IdspModel.Lemmas.Atan2AccArg
/-!
Accuracy of `atan2` against the real angle, part 7: assembly.

* `atan2Acc_oct`: first octant, `2 ≤ b`: `|r₀·π/2^31 − arctan(a/b)| ≤ max(1.5e-5, 1/b) − 1e-8`
  (kernel table `2.3e-6` + quotient error `max(1.5e-5, 1/b) − 2.31e-6`).
* `atan2Acc_first`: the same against the TRUE magnitudes `|u|/|v|` (an `i32::MIN` operand is saturated to
  `i32::MAX` by the code: ratio error `≤ 1/(2^31-1)`), including `max ≤ 1`; margin `5e-9` left.
* `atan2Acc_main`: the three reflections cost one LSB (`π/2^31 < 1.5e-9`) each.
-/
namespace Idsp
open Real

/-- `arctan` is 1-Lipschitz on the non-negative reals -/
theorem atan2Acc_lip {u v : ℝ} (hu : 0 ≤ u) (hv : 0 ≤ v) : |arctan u - arctan v| ≤ |u - v| := by
  rcases le_total v u with h | h
  · have h0 : 0 ≤ arctan u - arctan v := sub_nonneg.mpr (arctan_mono h)
    rw [abs_of_nonneg h0, abs_of_nonneg (sub_nonneg.mpr h)]
    refine le_trans (atan2Acc_diff_le hv h) ?_
    rw [div_le_iff₀ (by positivity)]
    nlinarith [sq_nonneg v, sub_nonneg.mpr h]
  · have h0 : 0 ≤ arctan v - arctan u := sub_nonneg.mpr (arctan_mono h)
    rw [abs_sub_comm, abs_of_nonneg h0, abs_sub_comm, abs_of_nonneg (sub_nonneg.mpr h)]
    refine le_trans (atan2Acc_diff_le hu h) ?_
    rw [div_le_iff₀ (by positivity)]
    nlinarith [sq_nonneg u, sub_nonneg.mpr h]

/-- one LSB of the result, in radians -/
theorem atan2Acc_lsb : 0 < π / 2 ^ 31 ∧ π / 2 ^ 31 ≤ 15 / 10000000000 := by
  have := pi_lt_d2
  constructor
  · positivity
  · rw [div_le_iff₀ (by norm_num)]; norm_num; linarith

/-- First octant, larger operand `≥ 2`: the model value against `arctan(a/b)`. -/
theorem atan2Acc_oct {a b : ℤ} (ha : 0 ≤ a) (hab : a ≤ b) (hb2 : 2 ≤ b) (hb : b < 2 ^ 31) {r0 : ℤ}
    (h : (do let d ← divi .checked a b; atani .checked d) = .ok r0) :
    |(r0:ℝ) * π / 2 ^ 31 - arctan ((a:ℝ) / (b:ℝ))| ≤ max (15 / 1000000) (1 / (b:ℝ)) - 1 / 100000000 := by
  obtain ⟨q, hd, q0, q1, hfacts⟩ := atan2Acc_divi ha hab hb2 hb
  obtain ⟨n, rfl⟩ := Int.eq_ofNat_of_zero_le q0
  have hn : n ≤ 65536 := by omega
  rw [hd .checked, R_ok_bind] at h
  obtain ⟨r', hr', hk⟩ := atan2Acc_kernel n hn
  unfold atanQ at hr'
  have e : r0 = (r':ℤ) := Except.ok.inj (h.symm.trans hr')
  subst e
  have hq := atan2Acc_quotient_angle ha hab hb2 hn hfacts
  unfold atan2AccT at hk
  have hk' : |((r':ℤ):ℝ) * π / 2 ^ 31 - arctan ((2 * (n:ℝ) + 1) / 131072)| ≤ 23 / 10000000 := by
    simpa using hk
  have := abs_sub_le (((r':ℤ):ℝ) * π / 2 ^ 31) (arctan ((2 * (n:ℝ) + 1) / 131072)) (arctan ((a:ℝ) / (b:ℝ)))
  linarith

/-- the saturating absolute value against the true magnitude -/
theorem atan2Acc_satAbs_real {v : ℤ} (hv : inI 32 v = true) :
    ((satAbs v : ℤ) : ℝ) ≤ |(v:ℝ)| ∧ |(v:ℝ)| ≤ ((satAbs v : ℤ) : ℝ) + 1 ∧
      (|(v:ℝ)| ≠ ((satAbs v : ℤ) : ℝ) → satAbs v = 2147483647) := by
  have hs := satAbs_of_in hv
  have ⟨h0, h1⟩ := inI_iff.mp hv
  simp only [Nat.reduceSub] at h0 h1
  by_cases hneg : v < 0
  · have hvr : (v:ℝ) < 0 := by exact_mod_cast hneg
    rw [abs_of_neg hvr]
    by_cases hmin : v = -2 ^ 31
    · rw [hs]; simp only [hmin, if_true]
      subst hmin
      refine ⟨by norm_num, by norm_num, fun _ => by norm_num⟩
    · rw [hs]; simp only [hneg, hmin, if_true, if_false]
      push_cast
      refine ⟨le_refl _, by linarith, fun h => absurd rfl h⟩
  · have hvr : (0:ℝ) ≤ v := by exact_mod_cast (not_lt.mp hneg)
    rw [abs_of_nonneg hvr, hs]; simp only [hneg, if_false]
    refine ⟨le_refl _, by linarith, fun h => absurd rfl h⟩

/-- First octant against the true magnitudes, all cases. -/
theorem atan2Acc_first {u v : ℤ} (hu : inI 32 u = true) (hv : inI 32 v = true)
    (hle : satAbs u ≤ satAbs v) (hv1 : 1 ≤ satAbs v) {r0 : ℤ}
    (h : (do let d ← divi .checked (satAbs u) (satAbs v); atani .checked d) = .ok r0) :
    |(r0:ℝ) * π / 2 ^ 31 - arctan (|(u:ℝ)| / |(v:ℝ)|)| ≤
      max (15 / 1000000) (1 / max |(v:ℝ)| |(u:ℝ)|) - 5 / 1000000000 := by
  have ⟨u0, u1⟩ := satAbs_range hu
  have ⟨v0, v1⟩ := satAbs_range hv
  obtain ⟨su1, su2, su3⟩ := atan2Acc_satAbs_real hu
  obtain ⟨sv1, sv2, sv3⟩ := atan2Acc_satAbs_real hv
  have hler : ((satAbs u : ℤ) : ℝ) ≤ ((satAbs v : ℤ) : ℝ) := by exact_mod_cast hle
  have hu0r : (0:ℝ) ≤ ((satAbs u : ℤ) : ℝ) := by exact_mod_cast u0
  have hv1r : (1:ℝ) ≤ ((satAbs v : ℤ) : ℝ) := by exact_mod_cast hv1
  have hVpos : 0 < |(v:ℝ)| := by linarith
  have hpi := pi_gt_d2
  have hpi' := pi_lt_d2
  by_cases hb2 : 2 ≤ satAbs v
  · have hoct := atan2Acc_oct u0 hle hb2 v1 h
    by_cases hexact : |(u:ℝ)| = ((satAbs u : ℤ) : ℝ) ∧ |(v:ℝ)| = ((satAbs v : ℤ) : ℝ)
    · rw [hexact.1, hexact.2, max_eq_left hler]
      linarith
    · -- some operand is `i32::MIN`: the larger saturated magnitude is `2^31 - 1`
      have hsv : satAbs v = 2147483647 := by
        by_cases h1 : |(u:ℝ)| = ((satAbs u : ℤ) : ℝ)
        · by_cases h2 : |(v:ℝ)| = ((satAbs v : ℤ) : ℝ)
          · exact absurd ⟨h1, h2⟩ hexact
          · exact sv3 h2
        · have := su3 h1; omega
      have hsvr : ((satAbs v : ℤ) : ℝ) = 2147483647 := by rw [hsv]; norm_num
      rw [hsvr] at hoct sv1 sv2 hler
      set A : ℝ := ((satAbs u : ℤ) : ℝ) with hA
      -- the two ratios differ by at most `1/(2^31-1)`
      have hratio : abs (A / 2147483647 - |(u:ℝ)| / |(v:ℝ)|) ≤ 1 / 2147483647 := by
        rw [abs_le]
        constructor
        · have : |(u:ℝ)| / |(v:ℝ)| ≤ (A + 1) / 2147483647 :=
            div_le_div₀ (by linarith) su2 (by norm_num) sv1
          have e : (A + 1) / 2147483647 = A / 2147483647 + 1 / 2147483647 := by ring
          linarith
        · have h1 : A / 2147483648 ≤ |(u:ℝ)| / |(v:ℝ)| :=
            div_le_div₀ (abs_nonneg _) su1 hVpos (by linarith)
          have h2 : A / 2147483647 - A / 2147483648 ≤ 1 / 2147483647 := by
            have : A / 2147483647 - A / 2147483648 = A / 2147483647 * (1 / 2147483648) := by ring
            rw [this]
            have : A / 2147483647 ≤ 1 := by rw [div_le_one (by norm_num)]; exact hler
            nlinarith
          linarith
      have hlip := atan2Acc_lip (u := A / 2147483647) (v := |(u:ℝ)| / |(v:ℝ)|) (by positivity)
        (div_nonneg (abs_nonneg _) (abs_nonneg _))
      have htri := abs_sub_le ((r0:ℝ) * π / 2 ^ 31) (arctan (A / 2147483647)) (arctan (|(u:ℝ)| / |(v:ℝ)|))
      have hm1 : max (15 / 1000000 : ℝ) (1 / 2147483647) = 15 / 1000000 := by
        rw [max_eq_left]; norm_num
      rw [hm1] at hoct
      have hm2 : (15 / 1000000 : ℝ) ≤ max (15 / 1000000) (1 / max |(v:ℝ)| |(u:ℝ)|) := le_max_left _ _
      have : (1 / 2147483647 : ℝ) ≤ 1 / 1000000000 := by norm_num
      linarith
  · -- larger operand 1: the code returns 0, the tolerance is 1 rad
    have hb1 : satAbs v = 1 := by omega
    obtain ⟨r, hr, _, _, hz, _, _⟩ := oct_ok u0 hle v1
    have e : r0 = r := Except.ok.inj (h.symm.trans (hr .checked))
    have hr0 : r0 = 0 := by rw [e]; exact hz (by omega)
    have hVe : |(v:ℝ)| = 1 := by
      by_contra hne
      have : |(v:ℝ)| ≠ ((satAbs v : ℤ) : ℝ) := by rw [hb1]; simpa using hne
      have := sv3 this; omega
    have hUe : |(u:ℝ)| = ((satAbs u : ℤ) : ℝ) := by
      by_contra hne
      have := su3 hne; omega
    have hU1 : |(u:ℝ)| ≤ 1 := by rw [hUe]; exact_mod_cast (show satAbs u ≤ 1 by omega)
    rw [hr0, hVe, max_eq_left hU1, div_one]
    have h1 : arctan |(u:ℝ)| ≤ π / 4 := by rw [← arctan_one]; exact arctan_mono hU1
    have h2 : 0 ≤ arctan |(u:ℝ)| := arctan_nonneg.mpr (abs_nonneg _)
    have hm : (1:ℝ) ≤ max (15 / 1000000) (1 / 1) := by rw [div_one]; exact le_max_right _ _
    have e0 : ((0:ℤ):ℝ) * π / 2 ^ 31 = 0 := by norm_num
    rw [e0, abs_le]
    constructor <;> linarith

/-- The accuracy of `atan2` for every in-range operand pair other than `(0, 0)`. -/
theorem atan2Acc_main {y x r : ℤ} (hy : inI 32 y = true) (hx : inI 32 x = true) (hne : ¬ (y = 0 ∧ x = 0))
    (h : atan2 .checked y x = .ok r) :
    |(r:ℝ) * π / 2 ^ 31 - Complex.arg (((x:ℝ) : ℂ) + ((y:ℝ) : ℂ) * Complex.I)| ≤
      max (15 / 1000000) (1 / max |(x:ℝ)| |(y:ℝ)|) := by
  obtain ⟨r0, hoct0, _, _, _, _, _, hv⟩ := atan2_val hy hx
  have hr : r = _ := Except.ok.inj (h.symm.trans (hv .checked))
  have hoc := hoct0 .checked
  unfold oct0 at hoc
  have ⟨y0, y1⟩ := satAbs_range hy
  have ⟨x0, x1⟩ := satAbs_range hx
  obtain ⟨sy1, sy2, sy3⟩ := atan2Acc_satAbs_real hy
  obtain ⟨sx1, sx2, sx3⟩ := atan2Acc_satAbs_real hx
  obtain ⟨hl0, hl1⟩ := atan2Acc_lsb
  set L : ℝ := π / 2 ^ 31 with hL
  have hrL : ∀ z : ℝ, z * π / 2 ^ 31 = z * L := fun z => by rw [hL]; ring
  have hyr : ((y:ℝ) < 0) ↔ y < 0 := Int.cast_lt_zero
  have hxr : ((x:ℝ) < 0) ↔ x < 0 := Int.cast_lt_zero
  have hq : π / 2 = 1073741824 * L := by rw [hL]; ring
  have hp : π = 2147483648 * L := by rw [hL]; ring
  by_cases hsw : satAbs x < satAbs y
  · -- swapped
    have hmin : min (satAbs y) (satAbs x) = satAbs x := Int.min_eq_right (by omega)
    have hmax : max (satAbs y) (satAbs x) = satAbs y := Int.max_eq_left (by omega)
    rw [hmin, hmax] at hoc
    have hy1 : 1 ≤ satAbs y := by omega
    have hYne : (y:ℝ) ≠ 0 := by
      intro h0
      have : y = 0 := by exact_mod_cast h0
      subst this
      have : satAbs 0 = 0 := by decide
      omega
    have hfirst := atan2Acc_first hx hy (by omega) hy1 hoc
    have harg := atan2Acc_arg_eq (X := (x:ℝ)) (Y := (y:ℝ)) true (by simpa using hYne)
    simp only [if_true] at harg
    rw [harg, hr, hrL]
    generalize arctan (|(x:ℝ)| / |(y:ℝ)|) = φ at *
    rw [max_comm |(x:ℝ)| |(y:ℝ)|]
    generalize max (15 / 1000000 : ℝ) (1 / max |(y:ℝ)| |(x:ℝ)|) = T at *
    rw [hrL] at hfirst
    have hf := abs_le.mp hfirst
    rw [abs_le]
    by_cases hyn : y < 0 <;> by_cases hxn : x < 0 <;>
      simp only [hyn, hxn, hsw, hyr, hxr, unfoldOct, decide_true, decide_false, if_true, if_false,
        Bool.false_eq_true] <;> push_cast <;> rw [hq] <;> (try rw [hp]) <;> constructor <;> linarith
  · have hmin : min (satAbs y) (satAbs x) = satAbs y := Int.min_eq_left (by omega)
    have hmax : max (satAbs y) (satAbs x) = satAbs x := Int.max_eq_right (by omega)
    rw [hmin, hmax] at hoc
    have hx1 : 1 ≤ satAbs x := by
      by_contra hcon
      have hx0' : satAbs x = 0 := by omega
      have hy0' : satAbs y = 0 := by omega
      have e1 : |(x:ℝ)| = 0 := by
        by_contra hne'
        have : |(x:ℝ)| ≠ ((satAbs x : ℤ) : ℝ) := by rw [hx0']; simpa using hne'
        have := sx3 this; omega
      have e2 : |(y:ℝ)| = 0 := by
        by_contra hne'
        have : |(y:ℝ)| ≠ ((satAbs y : ℤ) : ℝ) := by rw [hy0']; simpa using hne'
        have := sy3 this; omega
      have : x = 0 := by exact_mod_cast abs_eq_zero.mp e1
      have : y = 0 := by exact_mod_cast abs_eq_zero.mp e2
      exact hne ⟨by assumption, by assumption⟩
    have hXne : (x:ℝ) ≠ 0 := by
      intro h0
      have : x = 0 := by exact_mod_cast h0
      subst this
      have : satAbs 0 = 0 := by decide
      omega
    have hfirst := atan2Acc_first hy hx (by omega) hx1 hoc
    have harg := atan2Acc_arg_eq (X := (x:ℝ)) (Y := (y:ℝ)) false (by simpa using hXne)
    simp only [Bool.false_eq_true, if_false] at harg
    rw [harg, hr, hrL]
    generalize arctan (|(y:ℝ)| / |(x:ℝ)|) = φ at *
    generalize max (15 / 1000000 : ℝ) (1 / max |(x:ℝ)| |(y:ℝ)|) = T at *
    rw [hrL] at hfirst
    have hf := abs_le.mp hfirst
    rw [abs_le]
    by_cases hyn : y < 0 <;> by_cases hxn : x < 0 <;>
      simp only [hyn, hxn, hsw, hyr, hxr, unfoldOct, decide_true, decide_false, if_true, if_false,
        Bool.false_eq_true] <;> push_cast <;> (try rw [hp]) <;> constructor <;> linarith

end Idsp
