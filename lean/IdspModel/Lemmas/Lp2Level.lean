import IdspModel.Lemmas.Lp2Butter
/-!
# Second-order lowpass: an explicit safe level for input levels within `±2^28`

For a documented Butterworth pair with damping ratio `ζ² = b²/(4·a·2^32) ≤ 3/4` (all `k ≥ 92682`, and
`2^16 ≤ k ≤ 80264`), `lp2Vmax a b` is a safe level (`Lp2Safe`) for EVERY input `|x| ≤ 2^28`, and it contains every
state that is settled (`Lp2Settled`) at any other level `|xo| ≤ 2^28`.
-/
namespace Idsp
set_option linter.unusedVariables false

/-- the state lies in the equilibrium level set of the constant input `x` -/
def Lp2Settled (a b x : Int) (st : Int × Int) : Prop :=
  b * (b - 2 * a) * lp2V a b x st ≤ 4 * (4294967296 - b) * lp2U a b ^ 2

def lp2EBmax (a b : Int) : Int := 2 * a * 1879048191 * 4294967296 - (a + b) * 4294967296
def lp2Vmax (a b : Int) : Int := lp2Disc a b * lp2EBmax a b ^ 2 / (4 * (4294967296 - b))

/-- a rational `λ` and the constants needed by `lp2_final`, for every documented pair with `ζ² ≤ 3/4` -/
theorem lp2_lambda {k a b : Int} (h : Lp2Butter k a b) (hz : b ^ 2 ≤ 3 * (a * 4294967296)) :
    ∃ ln ld cn cd : Int, 0 < ln ∧ 0 < ld ∧ 0 < cn ∧ 0 < cd ∧
      ld ^ 2 * b ^ 3 ≤ ln ^ 2 * ((b - 2 * a) * lp2Disc a b) ∧
      cd * b ^ 2 ≤ cn * (a * 4294967296) ∧ (4 * ln * cd + cn * ld) * k ≤ 8 * ld * cd * b := by
  have ha := h.a_ge; have hbg := h.b_ge; have hbl := h.b_lower; have hk := h.hk0
  by_cases hs : b ≤ 16777216
  · refine ⟨7, 4, 3, 1, by norm_num, by norm_num, by norm_num, by norm_num,
      lp2_regime_S (by omega) (by omega) (h.small_a hs) hz, by linarith, by omega⟩
  · have hl : 16777216 ≤ b := by omega
    have hal := h.large_a hl
    refine ⟨43, 20, 8193, 4096, by norm_num, by norm_num, by norm_num, by norm_num,
      lp2_regime_L (by omega) hl h.four_a_le h.bsq_lt, ?_, by omega⟩
    have := h.bsq_lt
    nlinarith

/-- `4·a·2^32 ≤ 5·Δ`: the sublevel sets are not too elongated -/
theorem lp2_disc_lower {k a b : Int} (h : Lp2Butter k a b) (hz : b ^ 2 ≤ 3 * (a * 4294967296)) :
    4 * (a * 4294967296) ≤ 5 * lp2Disc a b := by
  have ha := h.a_ge; have hbg := h.b_ge
  unfold lp2Disc
  by_cases hs : b ≤ 16777216
  · have h5 := h.small_a hs
    have : (500 * (a + b)) ^ 2 ≤ (501 * b) ^ 2 := pow_le_pow_left₀ (by omega) (by omega) 2
    nlinarith
  · have hl : 16777216 ≤ b := by omega
    have h4 := h.four_a_le
    have h1 := h.bsq_lt
    have h5 : (4 * (a + b)) ^ 2 ≤ (5 * b + 2) ^ 2 := pow_le_pow_left₀ (by omega) (by omega) 2
    have hbb : 16777216 * b ≤ b * b := mul_le_mul_of_nonneg_right hl (by omega)
    nlinarith

/-- the reset state `set(x)` is settled at `x` -/
theorem lp2_set_settled {a b : Int} (hA : Lp2Adm a b) (x : Int) : Lp2Settled a b x (x * 4294967296, 0) := by
  obtain ⟨ha0, ha1, hba, hb1, hD⟩ := hA
  unfold Lp2Settled lp2V lp2Eb lp2U lp2Q
  unfold lp2Disc at hD
  have h1 : b * (b - 2 * a) ≤ 4 * a * (4294967296 - b) := by nlinarith
  have h2 : 0 ≤ a * ((a + b) * 4294967296) ^ 2 := by positivity
  have := mul_le_mul_of_nonneg_right h1 h2
  simp only [mul_zero, sub_zero, sub_self, add_zero, ne_eq, OfNat.ofNat_ne_zero, not_false_eq_true,
    zero_pow]
  nlinarith

theorem lp2_b_le_a {k a b : Int} (h : Lp2Butter k a b) : b ≤ 131072 * a := by
  have h1 := h.bsq_lt; have ha := h.a_ge; have hb := h.hb0
  by_contra hc
  have hc' : 131072 * a + 1 ≤ b := by omega
  have : (131072 * a + 1) ^ 2 ≤ b ^ 2 := pow_le_pow_left₀ (by omega) hc' 2
  nlinarith

theorem lp2_EBmax_bounds {k a b : Int} (h : Lp2Butter k a b) :
    2 * a * 1878978191 * 4294967296 ≤ lp2EBmax a b ∧ lp2EBmax a b ≤ 2 * a * 1879048191 * 4294967296 := by
  have := lp2_b_le_a h; have := h.a_ge; have := h.hb0
  unfold lp2EBmax
  constructor <;> nlinarith

/-- a settled state (at any level) has `V ≤ 16·a²·2^96` -/
theorem lp2_settled_V_le {k a b : Int} (h : Lp2Butter k a b) (xo : Int) (st : Int × Int)
    (hs : Lp2Settled a b xo st) : lp2V a b xo st ≤ 16 * a ^ 2 * 4294967296 ^ 3 := by
  have ha := h.a_ge; have hbg := h.b_ge; have h4 := h.four_a_le; have hbl := h.b_le
  unfold Lp2Settled lp2U at hs
  have hbb : 0 < b * (b - 2 * a) := by apply mul_pos <;> omega
  have h1 : (a + b) ^ 2 ≤ 4 * (b * (b - 2 * a)) := by
    have h5 : (4 * (a + b)) ^ 2 ≤ (5 * b + 2) ^ 2 := pow_le_pow_left₀ (by omega) (by omega) 2
    have : 2 * (b * (b - 2 * a)) ≥ b * (b - 2) := by nlinarith
    nlinarith
  have h2 : 4 * (4294967296 - b) * (a * (a + b) * 4294967296) ^ 2
      ≤ b * (b - 2 * a) * (16 * a ^ 2 * 4294967296 ^ 3) := by
    have e1 : 4 * (4294967296 - b) * (a * (a + b) * 4294967296) ^ 2
        = (4 * a ^ 2 * 4294967296 ^ 2 * (4294967296 - b)) * (a + b) ^ 2 := by ring
    have e2 : (4 * a ^ 2 * 4294967296 ^ 2 * (4294967296 - b)) * (a + b) ^ 2
        ≤ (4 * a ^ 2 * 4294967296 ^ 2 * (4294967296 - b)) * (4 * (b * (b - 2 * a))) :=
      mul_le_mul_of_nonneg_left h1 (by have : (0 : Int) ≤ 4294967296 - b := by omega
                                       positivity)
    have e3 : (4 * a ^ 2 * 4294967296 ^ 2 * (4294967296 - b)) * (4 * (b * (b - 2 * a)))
        ≤ (4 * a ^ 2 * 4294967296 ^ 2 * 4294967296) * (4 * (b * (b - 2 * a))) :=
      mul_le_mul_of_nonneg_right (mul_le_mul_of_nonneg_left (by omega) (by positivity)) (by positivity)
    rw [e1]
    calc _ ≤ _ := e2
      _ ≤ _ := e3
      _ = _ := by ring
  exact le_of_mul_le_mul_left (le_trans hs h2) hbb

/-- lower bound of the explicit safe level -/
theorem lp2_Vmax_lower {k a b : Int} (h : Lp2Butter k a b) (hz : b ^ 2 ≤ 3 * (a * 4294967296)) :
    4 * a ^ 3 * 1878978191 ^ 2 * 4294967296 ^ 2 ≤ 5 * (lp2Vmax a b + 1) := by
  have ha := h.a_ge; have hbl := h.b_le; have hb := h.hb0
  have hd := lp2_disc_lower h hz
  obtain ⟨hE0, hE1⟩ := lp2_EBmax_bounds h
  have hMb : (0 : Int) < 4 * (4294967296 - b) := by omega
  have h1 : lp2Disc a b * lp2EBmax a b ^ 2 < (lp2Vmax a b + 1) * (4 * (4294967296 - b)) := by
    unfold lp2Vmax
    exact Int.lt_ediv_add_one_mul_self _ hMb
  have hsq : (2 * a * 1878978191 * 4294967296) ^ 2 ≤ lp2EBmax a b ^ 2 :=
    pow_le_pow_left₀ (by positivity) hE0 2
  have hV1 : 0 < lp2Vmax a b + 1 := by
    have : 0 ≤ lp2Disc a b * lp2EBmax a b ^ 2 := by
      have : 0 ≤ lp2Disc a b := by nlinarith
      positivity
    by_contra hc
    have hc' : lp2Vmax a b + 1 ≤ 0 := by omega
    have := mul_le_mul_of_nonneg_right hc' (le_of_lt hMb)
    linarith
  -- 5 Δ EB² ≥ 4 a M EB²
  have h2 : 4 * (a * 4294967296) * lp2EBmax a b ^ 2 ≤ 5 * lp2Disc a b * lp2EBmax a b ^ 2 :=
    mul_le_mul_of_nonneg_right (by linarith) (sq_nonneg _)
  have h3 : (lp2Vmax a b + 1) * (4 * (4294967296 - b)) ≤ (lp2Vmax a b + 1) * (4 * 4294967296) :=
    mul_le_mul_of_nonneg_left (by omega) (le_of_lt hV1)
  have h4 : 4 * (a * 4294967296) * (2 * a * 1878978191 * 4294967296) ^ 2
      ≤ 4 * (a * 4294967296) * lp2EBmax a b ^ 2 :=
    mul_le_mul_of_nonneg_left hsq (by positivity)
  nlinarith

/-- **the explicit safe level**: for every documented Butterworth pair with `ζ² ≤ 3/4` and every input within
    `±2^28`, `lp2Vmax a b` is a safe level. -/
theorem lp2_safe_of_level {k a b x : Int} (h : Lp2Butter k a b) (hz : b ^ 2 ≤ 3 * (a * 4294967296))
    (hx0 : -268435456 ≤ x) (hx1 : x ≤ 268435456) : Lp2Safe a b x (lp2Vmax a b) := by
  have ha := h.a_ge; have hal := h.a_le; have hbl := h.b_le; have hb := h.hb0; have hbg := h.b_ge
  have hA := h.adm
  obtain ⟨hE0, hE1⟩ := lp2_EBmax_bounds h
  have hMb : (0 : Int) < 4 * (4294967296 - b) := by omega
  have hEB0 : 0 ≤ lp2EBmax a b := le_trans (by positivity) hE0
  have hlow := lp2_Vmax_lower h hz
  have hF1 : 4 * (4294967296 - b) * lp2Vmax a b ≤ lp2Disc a b * lp2EBmax a b ^ 2 := by
    unfold lp2Vmax
    rw [mul_comm]
    exact Int.ediv_mul_le _ (by omega)
  refine ⟨lp2EBmax a b, 2 * a * 4611686018427387904, 1879048191, hEB0, by positivity, by norm_num,
    by omega, by omega, hF1, ?_, ?_, le_refl _, ?_⟩
  · -- velocity extent
    have hD0 : 0 ≤ lp2Disc a b := le_of_lt hA.hD
    have hsq : lp2EBmax a b ^ 2 ≤ (2 * a * 1879048191 * 4294967296) ^ 2 := pow_le_pow_left₀ hEB0 hE1 2
    have h1 : (4294967296 - b) * (4 * a * lp2Vmax a b) ≤ a * (lp2Disc a b * lp2EBmax a b ^ 2) := by nlinarith
    have h2 : a * (lp2Disc a b * lp2EBmax a b ^ 2) ≤ a * (lp2Disc a b * (2 * a * 1879048191 * 4294967296) ^ 2) :=
      mul_le_mul_of_nonneg_left (mul_le_mul_of_nonneg_left hsq hD0) (by omega)
    have h3 : a * (lp2Disc a b * (2 * a * 1879048191 * 4294967296) ^ 2)
        ≤ (4294967296 - b) * (lp2Disc a b * (2 * a * 4611686018427387904) ^ 2) := by
      have e : a * (lp2Disc a b * (2 * a * 1879048191 * 4294967296) ^ 2)
          = (lp2Disc a b * a ^ 2) * (4 * a * (1879048191 * 4294967296) ^ 2) := by ring
      have e' : (4294967296 - b) * (lp2Disc a b * (2 * a * 4611686018427387904) ^ 2)
          = (lp2Disc a b * a ^ 2) * ((4294967296 - b) * (4 * 4611686018427387904 ^ 2)) := by ring
      rw [e, e']
      apply mul_le_mul_of_nonneg_left _ (by positivity)
      nlinarith
    exact le_of_mul_le_mul_left (le_trans h1 (le_trans h2 h3)) (by omega)
  · unfold lp2EBmax; ring_nf; omega
  · -- the equilibrium level set is inside
    have h4 := h.four_a_le
    have hbb : 0 < b * (b - 2 * a) := by apply mul_pos <;> omega
    -- Ls ≤ b(b-2a)·16a²M³ ≤ b(b-2a)·Vmax
    have hs : Lp2Settled a b 0 (0, 0) := by simpa using lp2_set_settled hA 0
    have h16 : 16 * a ^ 2 * 4294967296 ^ 3 ≤ lp2Vmax a b := by
      have : 16 * a ^ 2 * 4294967296 ^ 3 + 1 ≤ 4 * a ^ 3 * 1878978191 ^ 2 * 4294967296 ^ 2 / 5 := by
        have ha2 : 1 ≤ a ^ 2 := by nlinarith
        have ha3 : a ^ 2 ≤ a ^ 3 := by nlinarith
        omega
      omega
    -- reuse the general inequality behind lp2_settled_V_le
    have h1 : (a + b) ^ 2 ≤ 4 * (b * (b - 2 * a)) := by
      have h5 : (4 * (a + b)) ^ 2 ≤ (5 * b + 2) ^ 2 := pow_le_pow_left₀ (by omega) (by omega) 2
      have : 2 * (b * (b - 2 * a)) ≥ b * (b - 2) := by nlinarith
      nlinarith
    unfold lp2U
    have e1 : 4 * (4294967296 - b) * (a * (a + b) * 4294967296) ^ 2
        = (4 * a ^ 2 * 4294967296 ^ 2 * (4294967296 - b)) * (a + b) ^ 2 := by ring
    have e2 : (4 * a ^ 2 * 4294967296 ^ 2 * (4294967296 - b)) * (a + b) ^ 2
        ≤ (4 * a ^ 2 * 4294967296 ^ 2 * (4294967296 - b)) * (4 * (b * (b - 2 * a))) :=
      mul_le_mul_of_nonneg_left h1 (by have : (0 : Int) ≤ 4294967296 - b := by omega
                                       positivity)
    have e3 : (4 * a ^ 2 * 4294967296 ^ 2 * (4294967296 - b)) * (4 * (b * (b - 2 * a)))
        ≤ (4 * a ^ 2 * 4294967296 ^ 2 * 4294967296) * (4 * (b * (b - 2 * a))) :=
      mul_le_mul_of_nonneg_right (mul_le_mul_of_nonneg_left (by omega) (by positivity)) (by positivity)
    have e4 : b * (b - 2 * a) * (16 * a ^ 2 * 4294967296 ^ 3) ≤ b * (b - 2 * a) * lp2Vmax a b :=
      mul_le_mul_of_nonneg_left h16 (le_of_lt hbb)
    rw [e1]
    calc _ ≤ _ := e2
      _ ≤ _ := e3
      _ = b * (b - 2 * a) * (16 * a ^ 2 * 4294967296 ^ 3) := by ring
      _ ≤ _ := e4

/-- every state settled at a level within `±2^28` lies below the safe level of every other such level -/
theorem lp2_settled_le_Vmax {k a b x xo : Int} (h : Lp2Butter k a b) (hz : b ^ 2 ≤ 3 * (a * 4294967296))
    (hx0 : -268435456 ≤ x) (hx1 : x ≤ 268435456) (ho0 : -268435456 ≤ xo) (ho1 : xo ≤ 268435456)
    (st : Int × Int) (hs : Lp2Settled a b xo st) : lp2V a b x st ≤ lp2Vmax a b := by
  have ha := h.a_ge
  have hA := h.adm
  have hVo := lp2_settled_V_le h xo st hs
  have hlow := lp2_Vmax_lower h hz
  -- 8 V(x) ≤ 9 a δ² + 72 V(xo)
  have hid : 9 * lp2Q a b (2 * a * ((x - xo) * 4294967296)) 0 + 72 * lp2V a b xo st - 8 * lp2V a b x st
      = lp2Q a b (2 * a * ((x - xo) * 4294967296) - 8 * lp2Eb a b xo st.1) (0 - 8 * (2 * a * st.2)) := by
    unfold lp2V lp2Eb lp2Q; ring
  have hnn := lp2Q_nonneg (show 0 < a by omega) (le_of_lt hA.hD)
    (2 * a * ((x - xo) * 4294967296) - 8 * lp2Eb a b xo st.1) (0 - 8 * (2 * a * st.2))
  have hq : lp2Q a b (2 * a * ((x - xo) * 4294967296)) 0 = 4 * a ^ 3 * 4294967296 ^ 2 * (x - xo) ^ 2 := by
    unfold lp2Q; ring
  have hdx : (x - xo) ^ 2 ≤ 536870912 ^ 2 := sq_le_sq' (by omega) (by omega)
  have hq' : 4 * a ^ 3 * 4294967296 ^ 2 * (x - xo) ^ 2 ≤ 4 * a ^ 3 * 4294967296 ^ 2 * 536870912 ^ 2 :=
    mul_le_mul_of_nonneg_left hdx (by positivity)
  have ha2 : 1 ≤ a ^ 2 := by nlinarith
  have ha3 : a ^ 2 ≤ a ^ 3 := by nlinarith
  rw [hq] at hid
  omega

end Idsp
