import IdspModel.Lemmas.PolarTabAll
import IdspModel.Lemmas.PolarTabSound
/-!
# The polar round trip on every first-octant field: the glued table

`polarRows` (generated file `PolarTabAll.lean`): the executable check `polarPt` holds on all 128 rows × 32768 fields,
by complete kernel evaluation in 32 chunk files.  `polarRows_sound` (`PolarTabSound.lean`) turns it into the
statement about the model.
-/
namespace Idsp

/-- for every first-octant field `0 ≤ f < 2^22`: `-14911 ≤ arg(from_angle(128·f)) - 128·f ≤ 15038` -/
theorem polarR_field_bound (f : Int) (h0 : 0 ≤ f) (h1 : f < 2 ^ 22) :
    ∀ r, polarR (128 * f) = .ok r → -14911 ≤ r - 128 * f ∧ r - 128 * f ≤ 15038 :=
  polarRows_sound polarRows f h0 h1

end Idsp
