/-! Model of `Biquad<T>::update::<N>` for the floating point `Coefficient` impls (`src/num.rs` `impl_float!`,
    `src/iir/biquad.rs`) over an abstract carrier with uninterpreted `add sub mul max min`.
    Instantiated bit-exactly at `Float32` / `Float` in the driver. -/
namespace Idsp

structure BOps (α : Type) where
  zero : α
  add : α → α → α
  sub : α → α → α
  mul : α → α → α
  max : α → α → α
  min : α → α → α

structure FBiquadCfg (α : Type) where
  b0 : α
  b1 : α
  b2 : α
  a1 : α
  a2 : α
  u : α
  mn : α
  mx : α

variable {α : Type} (o : BOps α)

/-- `clip`: `self.max(min).min(max)` -/
def fclip (x mn mx : α) : α := o.min (o.max x mn) mx

/-- the summing junction expression, evaluated left to right as in the code -/
def fbiquadSum (c : FBiquadCfg α) (x0 x1 x2 y1 y2 : α) : α :=
  o.sub (o.sub (o.add (o.add (o.mul c.b0 x0) (o.mul c.b1 x1)) (o.mul c.b2 x2)) (o.mul c.a1 y1)) (o.mul c.a2 y2)

/-- float `macc`: `((self + s).clip(min, max), 0.0)` -/
def fmacc (u s mn mx : α) : α × α := (fclip o (o.add u s) mn mx, o.zero)

/-- N = 4 -/
def fbiquadUpdate4 (c : FBiquadCfg α) (xy : α × α × α × α) (x0 : α) : (α × α × α × α) × α :=
  let (x1, x2, y1, y2) := xy
  let y0 := (fmacc o c.u (fbiquadSum o c x0 x1 x2 y1 y2) c.mn c.mx).1
  ((x0, x1, y0, y1), y0)

/-- N = 5 (the fifth word is overwritten with the float "remainder" 0.0) -/
def fbiquadUpdate5 (c : FBiquadCfg α) (xy : α × α × α × α × α) (x0 : α) : (α × α × α × α × α) × α :=
  let (x1, x2, y1, y2, _) := xy
  let (y0, e0) := fmacc o c.u (fbiquadSum o c x0 x1 x2 y1 y2) c.mn c.mx
  ((x0, x1, y0, y1, e0), y0)

/-- N = 2 (DF2T) -/
def fbiquadUpdate2 (c : FBiquadCfg α) (st : α × α) (x0 : α) : (α × α) × α :=
  let (s0, s1) := st
  let y0 := fclip o (o.add s0 (o.mul c.b0 x0)) c.mn c.mx
  let n0 := o.sub (o.add s1 (o.mul c.b1 x0)) (o.mul c.a1 y0)
  let n1 := o.sub (o.add c.u (o.mul c.b2 x0)) (o.mul c.a2 y0)
  ((n0, n1), y0)

end Idsp
