import Mathlib.Algebra.BigOperators.Intervals
import Mathlib.Tactic.Ring
import Mathlib.Tactic.Linarith
import IdspModel.Lemmas.HbfIndex
/-! Half-band stages over a commutative ring: the outputs are the convolution with the symmetric
    `4M-1`-tap FIR `[t0, 0, t1, 0, …, t_{M-1}, 1, t_{M-1}, 0, …, t0]`. -/
namespace Idsp
open Finset
variable {R : Type} [CommRing R]

/-- ring operations with an arbitrary `half` (e.g. multiplication by a constant) -/
def ringOps (hf : R → R) : Ops R := ⟨0, (· + ·), (· * ·), List.sum, hf⟩

/-- coefficient `j` (`0 ≤ j < 4M-1`) of the full half-band FIR: `taps[l]` at `j = 2l` and at `j = 4M-2-2l`, centre
    tap `1` at `j = 2M-1`, `0` at the other odd positions -/
def hbfCoeff (taps : List R) (j : Nat) : R :=
  if j = 2 * taps.length - 1 then 1
  else if j % 2 = 1 then 0
  else if j < 2 * taps.length then taps.getD (j / 2) 0
  else taps.getD ((4 * taps.length - 2 - j) / 2) 0

/-- the full FIR as a list (length `4M-1`) -/
def hbfFir (taps : List R) : List R := (List.range (4 * taps.length - 1)).map (hbfCoeff taps)

/-- the FIR applied to a two-sided sequence `w` at position `n`: `Σ_j h[j]·w(n-j)` -/
def firAt (taps : List R) (w : Int → R) (n : Int) : R :=
  ∑ j ∈ range (4 * taps.length - 1), hbfCoeff taps j * w (n - j)

/-- a finite stream extended by zeros (in both directions) -/
def zext (X : List R) (n : Int) : R := if 0 ≤ n then X.getD n.toNat 0 else 0

/-- the zero-stuffed stream: `X[k]` at position `2k`, `0` at odd positions -/
def zstuff (X : List R) (n : Int) : R := if n % 2 = 0 then zext X (n / 2) else 0

theorem getD_eq_of_lt {α : Type} (l : List α) (d : α) (i : Nat) (h : i < l.length) : l.getD i d = l[i] := by
  simp [List.getD_eq_getElem?_getD, h]

theorem list_sum_map_range (g : Nat → R) (n : Nat) : ((List.range n).map g).sum = ∑ l ∈ range n, g l := by
  induction n with
  | zero => simp
  | succ n ih => simp [List.range_succ, Finset.sum_range_succ, ih]

/-- sum over `j < 2m+1` of a function vanishing at odd arguments -/
theorem sum_range_even_only (g : Nat → R) (m : Nat) (hodd : ∀ j, j < 2 * m + 1 → j % 2 = 1 → g j = 0) :
    ∑ j ∈ range (2 * m + 1), g j = ∑ l ∈ range (m + 1), g (2 * l) := by
  induction m with
  | zero => simp
  | succ m ih =>
    have e : 2 * (m + 1) + 1 = (2 * m + 1) + 1 + 1 := by ring
    rw [e, Finset.sum_range_succ, Finset.sum_range_succ, ih (fun j hj => hodd j (by omega)),
      Finset.sum_range_succ _ (m + 1), hodd (2 * m + 1) (by omega) (by omega)]
    have : 2 * m + 1 + 1 = 2 * (m + 1) := by ring
    rw [this]; ring

/-- the FIR sum in three parts: newer half (`j = 2l`), centre tap, older half (`j = 4M-2-2l`) -/
theorem firAt_eq (taps : List R) (hm : 1 ≤ taps.length) (w : Int → R) (n : Int) :
    firAt taps w n =
      ∑ l ∈ range taps.length, taps.getD l 0 * w (n - 2 * l) + w (n - (2 * taps.length - 1)) +
      ∑ l ∈ range taps.length, taps.getD l 0 * w (n - (4 * taps.length - 2 - 2 * l)) := by
  obtain ⟨m, hM⟩ : ∃ m, taps.length = m + 1 := ⟨taps.length - 1, by omega⟩
  have hA : ∑ j ∈ range (2 * m + 1), hbfCoeff taps j * w (n - j)
      = ∑ l ∈ range taps.length, taps.getD l 0 * w (n - 2 * l) := by
    rw [sum_range_even_only _ m, ← hM]
    · apply Finset.sum_congr rfl
      intro l hl
      have hl' := Finset.mem_range.mp hl
      simp only [hbfCoeff]
      rw [if_neg (by omega), if_neg (by omega), if_pos (by omega)]
      have : 2 * l / 2 = l := by omega
      rw [this]; push_cast; rfl
    · intro j hlt hj
      simp only [hbfCoeff]
      rw [if_neg (by omega), if_pos hj, zero_mul]
  have hC : hbfCoeff taps (2 * m + 1) * w (n - ((2 * m + 1 : Nat) : Int)) = w (n - (2 * taps.length - 1)) := by
    simp only [hbfCoeff]
    rw [if_pos (by omega), one_mul]
    congr 2; omega
  have hB : ∑ k ∈ range (2 * m + 1), hbfCoeff taps (2 * m + 2 + k) * w (n - ((2 * m + 2 + k : Nat) : Int))
      = ∑ l ∈ range taps.length, taps.getD l 0 * w (n - (4 * taps.length - 2 - 2 * l)) := by
    rw [sum_range_even_only _ m, ← hM, ← Finset.sum_range_reflect]
    · apply Finset.sum_congr rfl
      intro l hl
      have hl' := Finset.mem_range.mp hl
      simp only [hbfCoeff]
      rw [if_neg (by omega), if_neg (by omega), if_neg (by omega)]
      have : (4 * taps.length - 2 - (2 * m + 2 + 2 * (taps.length - 1 - l))) / 2 = l := by omega
      rw [this]
      congr 3
      omega
    · intro j hlt hj
      simp only [hbfCoeff]
      rw [if_neg (by omega), if_pos (by omega), zero_mul]
  have e : 4 * taps.length - 1 = (2 * m + 1 + 1) + (2 * m + 1) := by omega
  rw [firAt, e, Finset.sum_range_add _ (2 * m + 1 + 1) (2 * m + 1), Finset.sum_range_succ _ (2 * m + 1),
    hA, hC]
  have e2 : ∀ k, 2 * m + 1 + 1 + k = 2 * m + 2 + k := by intro k; omega
  simp only [e2]
  rw [hB]


/-- `SymFir::get` on one window of length `2M` over a ring: `Σ_l (win[l] + win[2M-1-l])·taps[l]` -/
theorem firTap_ring (hf : R → R) (taps win : List R) (hw : win.length = 2 * taps.length) :
    firTap (ringOps hf) taps win =
      ∑ l ∈ range taps.length, (win.getD l 0 + win.getD (2 * taps.length - 1 - l) 0) * taps.getD l 0 := by
  rw [← list_sum_map_range]
  simp only [firTap, ringOps]
  congr 1
  apply List.ext_getElem
  · simp [hw]; omega
  · intro l h1 h2
    simp only [List.length_map, List.length_range] at h2
    simp only [List.getElem_map, List.getElem_zip, List.getElem_take, List.getElem_reverse,
      List.getElem_drop, List.getElem_range, List.length_drop]
    rw [getD_eq_of_lt _ _ _ (by omega), getD_eq_of_lt _ _ _ (by omega), getD_eq_of_lt _ _ _ h2]
    congr 3
    omega


theorem zext_of_neg (X : List R) (n : Int) (h : n < 0) : zext X n = 0 := by
  simp [zext]; omega

theorem zext_of_lt (X : List R) (n : Int) (k : Nat) (hk : n = k) (h : k < X.length) : zext X n = X[k] := by
  subst hk
  simp [zext, h]

/-- even-phase stream of the decimator from the zero state: item `i` is input sample `2(i-(M-1))` -/
theorem even_stream_getElem (X : List R) (m i : Nat) (hm : 1 ≤ m) (h : i < (List.replicate (m - 1) (0 : R) ++ evens X).length) :
    (List.replicate (m - 1) (0 : R) ++ evens X)[i] = zext X (2 * (i : Int) + 2 - 2 * m) := by
  have hel := evens_length X
  simp only [List.length_append, List.length_replicate, hel] at h
  by_cases hi : i < m - 1
  · rw [List.getElem_append_left (by simpa using hi), List.getElem_replicate, zext_of_neg _ _ (by omega)]
  · rw [List.getElem_append_right (by simpa using hi), evens_getElem]
    symm
    apply zext_of_lt
    simp only [List.length_replicate]; omega

/-- odd-phase stream of the decimator from the zero state: item `k` is input sample `2(k-(2M-1))+1` -/
theorem odd_stream_getElem (X : List R) (m k : Nat) (hm : 1 ≤ m)
    (h : k < (List.replicate (2 * m - 1) (0 : R) ++ odds X).length) :
    (List.replicate (2 * m - 1) (0 : R) ++ odds X)[k] = zext X (2 * (k : Int) + 3 - 4 * m) := by
  have hol := odds_length X
  simp only [List.length_append, List.length_replicate, hol] at h
  by_cases hi : k < 2 * m - 1
  · rw [List.getElem_append_left (by simpa using hi), List.getElem_replicate, zext_of_neg _ _ (by omega)]
  · rw [List.getElem_append_right (by simpa using hi), odds_getElem]
    symm
    apply zext_of_lt
    simp only [List.length_replicate]; omega

/-- **Decimator = decimated convolution.** From the zero state, output `i` of `HbfDec` over a commutative ring is
    `half` of the full `4M-1`-tap FIR applied to the zero-extended input at position `n = 2i+1` (the newest sample
    consumed for that output); the centre tap sits over input sample `2i+2-2M = 2(i-(M-1))`. -/
theorem decSpec_conv (hf : R → R) (taps X : List R) (hm : 1 ≤ taps.length) (i : Nat) (hi : i < X.length / 2) :
    (hbfDecSpec (ringOps hf) taps (List.replicate (taps.length - 1) 0) (List.replicate (2 * taps.length - 1) 0) X)[i]'
      (by rw [decSpec_length _ _ _ _ _ hm (by simp) (by simp)]; exact hi) =
    hf (firAt taps (zext X) (2 * i + 1)) := by
  have hol := odds_length X
  rw [decSpec_getElem _ _ _ _ _ hm (by simp) (by simp) i hi, firAt_eq taps hm]
  have hwl : (List.take (2 * taps.length)
      (List.drop i (List.replicate (2 * taps.length - 1) (0 : R) ++ odds X))).length = 2 * taps.length := by
    simp [hol]; omega
  rw [firTap_ring hf _ _ hwl]
  show hf (_ + _) = _
  congr 1
  rw [even_stream_getElem _ _ _ hm, add_comm (∑ l ∈ range taps.length, _ * _), add_assoc]
  congr 1
  · congr 1; ring
  · rw [← Finset.sum_add_distrib]
    apply Finset.sum_congr rfl
    intro l hl
    have hl' := Finset.mem_range.mp hl
    rw [getD_eq_of_lt _ _ _ (by omega), getD_eq_of_lt _ _ _ (by omega)]
    simp only [List.getElem_take, List.getElem_drop]
    rw [odd_stream_getElem _ _ _ hm, odd_stream_getElem _ _ _ hm]
    have e1 : 2 * ((i + l : Nat) : Int) + 3 - 4 * taps.length = 2 * i + 1 - (4 * taps.length - 2 - 2 * l) := by
      push_cast; ring
    have e2 : 2 * ((i + (2 * taps.length - 1 - l) : Nat) : Int) + 3 - 4 * taps.length = 2 * i + 1 - 2 * l := by
      have : ((2 * taps.length - 1 - l : Nat) : Int) = 2 * taps.length - 1 - l := by omega
      push_cast [this]; ring
    rw [e1, e2]; ring

theorem zstuff_even (X : List R) (n k : Int) (h : n = 2 * k) : zstuff X n = zext X k := by
  subst h
  simp [zstuff]

theorem zstuff_odd (X : List R) (n : Int) (h : n % 2 = 1) : zstuff X n = 0 := by
  simp [zstuff, h]

/-- input stream of the interpolator from the zero state: item `k` is input sample `k-(2M-1)` -/
theorem int_stream_getElem (X : List R) (m k : Nat)
    (h : k < (List.replicate (2 * m - 1) (0 : R) ++ X).length) :
    (List.replicate (2 * m - 1) (0 : R) ++ X)[k] = zext X ((k : Int) - (2 * m - 1 : Nat)) := by
  simp only [List.length_append, List.length_replicate] at h
  by_cases hi : k < 2 * m - 1
  · rw [List.getElem_append_left (by simpa using hi), List.getElem_replicate, zext_of_neg _ _ (by omega)]
  · rw [List.getElem_append_right (by simpa using hi)]
    symm
    apply zext_of_lt
    simp only [List.length_replicate]; omega

/-- **Interpolator = convolution of the zero-stuffed input.** From the zero state, output `m` of `HbfInt` over a
    commutative ring is the full `4M-1`-tap FIR applied to the zero-stuffed input (`X[k]` at position `2k`, zeros
    at odd positions) at position `m`: even outputs are the interpolated ones, odd outputs `2i+1` reproduce input
    sample `i+1-M` through the centre tap. -/
theorem intSpec_conv (hf : R → R) (taps X : List R) (hm : 1 ≤ taps.length) (m : Nat) (hmx : m < 2 * X.length) :
    (hbfIntSpec (ringOps hf) taps (List.replicate (2 * taps.length - 1) 0) X)[m]'
      (by rw [intSpec_length _ _ _ _ hm (by simp)]; exact hmx) =
    firAt taps (zstuff X) m := by
  obtain ⟨g1, g2⟩ := intSpec_getElem (ringOps hf) taps (List.replicate (2 * taps.length - 1) 0) X hm (by simp)
    (m / 2) (by omega)
  rw [firAt_eq taps hm]
  rcases Nat.mod_two_eq_zero_or_one m with hj2 | hj2
  · have e : m = 2 * (m / 2) := by omega
    have : (hbfIntSpec (ringOps hf) taps (List.replicate (2 * taps.length - 1) 0) X)[m]'
        (by rw [intSpec_length _ _ _ _ hm (by simp)]; exact hmx) =
      (hbfIntSpec (ringOps hf) taps (List.replicate (2 * taps.length - 1) 0) X)[2 * (m / 2)]'
        (by rw [intSpec_length _ _ _ _ hm (by simp)]; omega) := by congr 1
    rw [this, g1]
    have hwl : (List.take (2 * taps.length)
        (List.drop (m / 2) (List.replicate (2 * taps.length - 1) (0 : R) ++ X))).length = 2 * taps.length := by
      simp; omega
    rw [firTap_ring hf _ _ hwl, zstuff_odd X (m - (2 * taps.length - 1)) (by omega), add_zero,
      add_comm, ← Finset.sum_add_distrib]
    apply Finset.sum_congr rfl
    intro l hl
    have hl' := Finset.mem_range.mp hl
    rw [getD_eq_of_lt _ _ _ (by omega), getD_eq_of_lt _ _ _ (by omega)]
    simp only [List.getElem_take, List.getElem_drop]
    rw [int_stream_getElem, int_stream_getElem,
      zstuff_even X (m - 2 * l) ((m / 2 : Nat) - l) (by omega),
      zstuff_even X (m - (4 * taps.length - 2 - 2 * l)) ((m / 2 : Nat) - (2 * taps.length - 1) + l) (by omega)]
    have e1 : ((m / 2 + l : Nat) : Int) - (2 * taps.length - 1 : Nat) = (m / 2 : Nat) - (2 * taps.length - 1) + l := by
      omega
    have e2 : ((m / 2 + (2 * taps.length - 1 - l) : Nat) : Int) - (2 * taps.length - 1 : Nat) = (m / 2 : Nat) - l := by
      omega
    rw [e1, e2]; ring
  · have e : m = 2 * (m / 2) + 1 := by omega
    have : (hbfIntSpec (ringOps hf) taps (List.replicate (2 * taps.length - 1) 0) X)[m]'
        (by rw [intSpec_length _ _ _ _ hm (by simp)]; exact hmx) =
      (hbfIntSpec (ringOps hf) taps (List.replicate (2 * taps.length - 1) 0) X)[2 * (m / 2) + 1]'
        (by rw [intSpec_length _ _ _ _ hm (by simp)]; omega) := by congr 1
    rw [this, g2, int_stream_getElem]
    have z1 : ∑ l ∈ range taps.length, taps.getD l 0 * zstuff X (m - 2 * l) = 0 := by
      apply Finset.sum_eq_zero
      intro l _
      rw [zstuff_odd X _ (by omega), mul_zero]
    have z2 : ∑ l ∈ range taps.length, taps.getD l 0 * zstuff X (m - (4 * taps.length - 2 - 2 * l)) = 0 := by
      apply Finset.sum_eq_zero
      intro l _
      rw [zstuff_odd X _ (by omega), mul_zero]
    rw [z1, z2, zero_add, add_zero]
    rw [zstuff_even X (m - (2 * taps.length - 1)) ((m / 2 : Nat) + 1 - taps.length) (by omega)]
    congr 1; omega


theorem hbfFir_length (taps : List R) : (hbfFir taps).length = 4 * taps.length - 1 := by simp [hbfFir]

theorem hbfFir_getElem (taps : List R) (j : Nat) (h : j < (hbfFir taps).length) :
    (hbfFir taps)[j] = hbfCoeff taps j := by simp [hbfFir]

/-- the FIR is symmetric about its centre tap -/
theorem hbfCoeff_symm (taps : List R) (j : Nat) (h : j < 4 * taps.length - 1) :
    hbfCoeff taps (4 * taps.length - 2 - j) = hbfCoeff taps j := by
  simp only [hbfCoeff]
  split_ifs <;> first | rfl | omega | (congr 1; omega)

/-- the zero state has all-zero history -/
theorem HbfDec.new_abs {α : Type} (o : Ops α) (n : Nat) (taps : List α) (h2 : 2 * taps.length ≤ n) :
    (HbfDec.new o n taps).abs =
      (List.replicate (taps.length - 1) o.zero, List.replicate (2 * taps.length - 1) o.zero) := by
  simp only [HbfDec.abs, HbfDec.new, SymFir.new, List.take_replicate]
  congr 2 <;> omega

theorem HbfInt.new_abs {α : Type} (o : Ops α) (n : Nat) (taps : List α) (h2 : 2 * taps.length ≤ n) :
    (HbfInt.new o n taps).abs = List.replicate (2 * taps.length - 1) o.zero := by
  simp only [HbfInt.abs, HbfInt.new, SymFir.new, List.take_replicate]
  congr 1; omega

example (a b c : R) : hbfFir [a, b, c] = [a, 0, b, 0, c, 1, c, 0, b, 0, a] := by
  simp [hbfFir, hbfCoeff, List.range, List.range.loop]

end Idsp
