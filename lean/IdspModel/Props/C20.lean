import IdspModel.Props.C01
import IdspModel.Props.C02
import IdspModel.Props.C03
import IdspModel.Props.C05
import IdspModel.Props.C06
import IdspModel.Props.C07
import IdspModel.Props.C10
import IdspModel.Props.C11
import IdspModel.Props.C12
import IdspModel.Props.C13
import IdspModel.Props.C14
import IdspModel.Props.C16
import IdspModel.Props.C17
import IdspModel.Props.C18
import IdspModel.Props.C19
import IdspModel.Model.Sweep
/-!
# C20 — no panic or arithmetic overflow anywhere inside the documented domains

This file collects, per public entry point of the model, the statement "the `.checked` model (overflow checks
and debug assertions on) returns `.ok` on the documented domain" as corollaries of the property files it imports,
proves the one entry point no other property anchors (`Sweep::next`), and restates the negations for the
entry points where the code DOES panic inside its documented domain (known findings).

What a Lean model cannot exhibit (covered by the `checked`-profile correspondence and the native sweep only):
slice-index panics inside iterator adaptors, `copy_within` ranges on the real buffers (the model's `take`/`drop`
are total; C14 proves the model never truncates), `unimplemented!()` arms reachable through const generics
(`Biquad::update::<3>`, `Lowpass<3>`, cascades with `x = Some(..)`), float→int `as` casts (saturating, cannot
panic), the float helpers of `Sweep`, `svf` (no public constructor).
-/
namespace Idsp

/-- cossin: every phase -/
theorem c20_cossin (p : Int) (hp : inI 32 p = true) : ∃ v, cossin .checked p = .ok v := by
  obtain ⟨c, s, h, -⟩ := cossin_total p hp; exact ⟨_, h⟩

/-- atan2: every pair (after the `fix:` commit; it used to overflow for (±3, ±3)) -/
theorem c20_atan2 (y x : Int) (hy : inI 32 y = true) (hx : inI 32 x = true) : ∃ v, atan2 .checked y x = .ok v := by
  cases h : atan2 .checked y x with
  | ok v => exact ⟨v, rfl⟩
  | error e => exact absurd h (atan2_never_panics hy hx e)

/-- polar helpers on unit vectors: from_angle, arg, abs_sqr, log2 for every phase -/
theorem c20_polar (p : Int) (hp : inI 32 p = true) :
    ∃ c s r a l, fromAngle .checked p = .ok (c, s) ∧ carg .checked c s = .ok r ∧
      absSqr .checked c s = .ok a ∧ clog2 .checked c s = .ok l := by
  obtain ⟨c, s, r, a, l, h1, h2, h3, h4, -⟩ := polar_total p hp
  exact ⟨c, s, r, a, l, h1, h2, h3, h4⟩

/-- abs_sqr / log2 panic exactly for the documented operand (both components i32::MIN) -/
theorem c20_abs_sqr_log2 (re im : Int) (hr : inI 32 re = true) (hi : inI 32 im = true)
    (h : ¬ (re = -2 ^ 31 ∧ im = -2 ^ 31)) :
    (∃ v, absSqr .checked re im = .ok v) ∧ (∃ v, clog2 .checked re im = .ok v) := by
  constructor
  · cases h1 : absSqr .checked re im with
    | ok v => exact ⟨v, rfl⟩
    | error e => exact absurd ((abs_sqr_panics_iff re im hr hi).mp ⟨e, h1⟩) h
  · cases h1 : clog2 .checked re im with
    | ok v => exact ⟨v, rfl⟩
    | error e => exact absurd ((log2_panics_iff re im hr hi).mp ⟨e, h1⟩) h

/-- scaled complex multiplications -/
theorem c20_cmul (re im o : Int) (hr : inI 32 re = true) (hi : inI 32 im = true) :
    (inI 32 o = true → ∃ v, cmulScaledI32 .checked re im o = .ok v) ∧
    (inI 16 o = true → ∃ v, cmulScaledI16 .checked re im o = .ok v) :=
  ⟨fun ho => ⟨_, cmul_scaled_i32_never_panics .checked re im o hr hi ho⟩,
   fun ho => ⟨_, (cmul_scaled_i16_never_panics .checked re im o hr hi ho).1⟩⟩

theorem c20_cmul_complex (a b c d : Int) (ha : inI 32 a = true) (hb : inI 32 b = true) (hc : inI 32 c = true)
    (hd : inI 32 d = true) (h : ¬ (a = -2 ^ 31 ∧ b = -2 ^ 31 ∧ c = -2 ^ 31 ∧ d = -2 ^ 31)) :
    ∃ v, cmulScaledC .checked a b c d = .ok v := by
  cases h1 : cmulScaledC .checked a b c d with
  | ok v => exact ⟨v, rfl⟩
  | error e => exact absurd ((cmul_scaled_c_panics_iff a b c d ha hb hc hd).mp ⟨e, h1⟩) h

/-- PLL: the model is a total function (every operation is explicitly wrapping) and preserves the state ranges -/
theorem c20_pll (s : PLL) (x : Option Int) (k : Int) (hs : s.inRange)
    (hx : ∀ v, x = some v → inI 32 v = true) : (s.update x k).inRange := pll_total s x k hs hx

/-- RPLL within its timing contract -/
theorem c20_rpll (s : RPLL) (x sf sp : Int) (hs : s.inRange) (hx : inI 32 x = true) (h0 : 0 ≤ s.dt2)
    (h1 : s.dt2 ≤ 30) (h2 : s.dt2 < sf) (h3 : sf ≤ 32) (h4 : s.dt2 ≤ sp) (h5 : sp - s.dt2 < 32)
    (h6 : 0 ≤ wrapI 32 (x - s.x)) :
    (∃ v, RPLL.update .checked s (some x) sf sp = .ok v) ∧ (∃ v, RPLL.update .checked s none sf sp = .ok v) :=
  ⟨⟨_, (rpll_total_under_contract s x sf sp hs hx h0 h1 h2 h3 h4 h5 h6).1⟩,
   ⟨_, (rpll_total_under_contract_none s sf sp hs (by omega) h4).1⟩⟩

/-- first-order lowpass: every state, every sample, every documented gain -/
theorem c20_lowpass1 (s x k : Int) (hs : inI 64 s = true) (hx : inI 32 x = true) (hk0 : 1 ≤ k) (hk1 : k ≤ 2 ^ 31 - 1) :
    ∃ v, lp1Update .checked s x k = .ok v := by
  obtain ⟨s', y, h, -⟩ := lp1_between .checked s x k hs hx hk0 hk1; exact ⟨_, h⟩

/-- saturating_scale for every documented shift (after the `fix:` commit for shift = 32) -/
theorem c20_saturating_scale (lo hi shift : Int) (hl : inI 32 lo = true) (hh : inI 32 hi = true)
    (h1 : 1 ≤ shift) (h2 : shift ≤ 32) : ∃ v, saturatingScale .checked lo hi shift = .ok v := by
  obtain ⟨r, h, -⟩ := sat_scale_total .checked lo hi shift hl hh h1 h2; exact ⟨r, h⟩

/-- Dsm for orders 0..=7, every input list from the default state (K = 0 after the `fix:` commit) -/
theorem c20_dsm (K : Nat) (hK : K ≤ 7) (xs : List Int) :
    ∃ v, Dsm.run .checked (Dsm.default K) xs = .ok v := by
  obtain ⟨sf, ys, h, -⟩ := dsm_range K hK xs; exact ⟨_, h⟩

/-- CIC interpolator within its timing contract: the only possible panics are genuine data overflows -/
theorem c20_cic_interpolate (w n rate : Nat) (hr : rate < 2 ^ 32) (v : Nat → Int) (t : Nat) (p : Panic)
    (h : Cic.interpAuto .checked w (Cic.new n rate) v t = .error p) :
    p.site = "cic.rs:131 x - *c" ∨ p.site = "cic.rs:141 *i += x" :=
  interpolate_contract_never_panics w n rate hr v t p h

/-- fixed-point `macc`: panics exactly when the exact total does not fit the accumulator -/
theorem c20_macc (w q : Nat) (hw : 0 < w) (hq : q ≤ w) (u s mn mx e1 : Int) (hu : inI w u = true)
    (hmn : inI w mn = true) (hmx : inI w mx = true) (a1 : mn % 2 ^ (w - q) = 0)
    (a2 : mx % 2 ^ (w - q) = 2 ^ (w - q) - 1) (he0 : 0 ≤ e1) (he1 : e1 < 2 ^ q)
    (hfit : inI (2 * w) (s + u * 2 ^ q + e1) = true) : ∃ v, macc .checked w q u s mn mx e1 = .ok v :=
  ⟨_, (macc_exact .checked w q hw hq u s mn mx e1 hu hmn hmx a1 a2 he0 he1 hfit).1⟩

/-- `mul_scaled` never panics; `div_scaled` panics exactly for a zero divisor -/
theorem c20_mul_div (w q : Nat) (hq0 : 0 < q) (hq : q < w) (a b : Int) (ha : inI w a = true) (hb : inI w b = true) :
    (∃ v, mulScaled .checked w q a b = .ok v) ∧ (b ≠ 0 → ∃ v, divScaled w q a b = .ok v) :=
  ⟨⟨_, (mul_scaled_exact .checked w q hq0 hq a b ha hb).1⟩,
   fun hb0 => ⟨_, (div_scaled_exact w q (by omega) (by omega) a b ha).2.1 hb0⟩⟩

/-- **Sweep::next** from any `(rate, state)` (after the `fix:` commit): never panics, returns the old state, and
    the new state is `state + rate·⌊(state + 2^31)/2^32⌋` when that fits `i64`, else 0. -/
theorem c20_sweep_next (m : Mode) (rate state : Int) (hr : inI 32 rate = true) (hs : inI 64 state = true) :
    sweepNext m rate state = .ok
      (if inI 64 (state + rate * ((state + 2 ^ 31) / 2 ^ 32)) then state + rate * ((state + 2 ^ 31) / 2 ^ 32) else 0,
       state) := by
  have ⟨r0, r1⟩ := inI_iff.mp hr
  have ⟨s0, s1⟩ := inI_iff.mp hs
  simp only [show (32 : Nat) - 1 = 31 from rfl, show (64 : Nat) - 1 = 63 from rfl, Int.reducePow, Int.reduceNeg] at r0 r1 s0 s1
  have hfl : state / 4294967296 + (state % 4294967296 + 2147483648) / 4294967296 = (state + 2147483648) / 4294967296 := by
    omega
  have hb0 : -2147483648 ≤ (state + 2147483648) / 4294967296 := by omega
  have hb1 : (state + 2147483648) / 4294967296 ≤ 2147483648 := by omega
  -- |rate * b| ≤ 2^31 * 2^31 = 2^62
  have hp : -4611686018427387904 ≤ rate * ((state + 2147483648) / 4294967296) ∧
      rate * ((state + 2147483648) / 4294967296) ≤ 4611686018427387904 := by
    generalize (state + 2147483648) / 4294967296 = b at hb0 hb1
    have h1 : rate * b ≤ 4611686018427387904 := by
      by_cases hb : 0 ≤ b
      · by_cases hr' : 0 ≤ rate
        · calc rate * b ≤ 2147483648 * b := Int.mul_le_mul_of_nonneg_right (by omega) hb
            _ ≤ 2147483648 * 2147483648 := Int.mul_le_mul_of_nonneg_left hb1 (by decide)
            _ = 4611686018427387904 := by decide
        · have : rate * b ≤ 0 := Int.mul_nonpos_of_nonpos_of_nonneg (by omega) hb
          omega
      · by_cases hr' : 0 ≤ rate
        · have : rate * b ≤ 0 := Int.mul_nonpos_of_nonneg_of_nonpos hr' (by omega)
          omega
        · have e : rate * b = (-rate) * (-b) := by rw [Int.neg_mul_neg]
          rw [e]
          calc (-rate) * (-b) ≤ 2147483648 * (-b) := Int.mul_le_mul_of_nonneg_right (by omega) (by omega)
            _ ≤ 2147483648 * 2147483648 := Int.mul_le_mul_of_nonneg_left (by omega) (by decide)
            _ = 4611686018427387904 := by decide
    have h2 : -4611686018427387904 ≤ rate * b := by
      have e : -(rate * b) = (-rate) * b := by rw [Int.neg_mul]
      have : (-rate) * b ≤ 4611686018427387904 := by
        by_cases hb : 0 ≤ b
        · by_cases hr' : 0 ≤ -rate
          · calc (-rate) * b ≤ 2147483648 * b := Int.mul_le_mul_of_nonneg_right (by omega) hb
              _ ≤ 2147483648 * 2147483648 := Int.mul_le_mul_of_nonneg_left hb1 (by decide)
              _ = 4611686018427387904 := by decide
          · have : (-rate) * b ≤ 0 := Int.mul_nonpos_of_nonpos_of_nonneg (by omega) hb
            omega
        · by_cases hr' : 0 ≤ -rate
          · have : (-rate) * b ≤ 0 := Int.mul_nonpos_of_nonneg_of_nonpos hr' (by omega)
            omega
          · have e2 : (-rate) * b = rate * (-b) := by rw [Int.neg_mul, Int.mul_neg]
            rw [e2]
            calc rate * (-b) ≤ 2147483648 * (-b) := Int.mul_le_mul_of_nonneg_right (by omega) (by omega)
              _ ≤ 2147483648 * 2147483648 := Int.mul_le_mul_of_nonneg_left (by omega) (by decide)
              _ = 4611686018427387904 := by decide
      omega
    exact ⟨h2, h1⟩
  unfold sweepNext
  simp only [wrapU, shr, Int.reducePow]
  rw [arithI64_ok (by omega) (by omega)]
  simp only [bind_ok']
  rw [arithI64_ok (by omega) (by omega)]
  simp only [bind_ok']
  have hp1 := hp.1; have hp2 := hp.2
  rw [hfl, arithI64_ok (by omega) (by omega)]
  simp only [bind_ok']

/-! ### entry points that DO panic inside their documented domain (known findings; negations proved in the
    respective property files) -/

/-- F-C10: second-order lowpass, full-scale step -/
theorem c20_neg_lowpass2 : ∃ e, lp2Iter .checked (2 ^ 31 - 1) 49111492 (-649510976) 15 (0, 0) = .error e :=
  ⟨_, lp2_fullscale_overflow_witness.1⟩

/-- F-C16-b: Dsm::<8> -/
theorem c20_neg_dsm8 : ∃ e, Dsm.update .checked dsmK8State 2147483648 = .error e :=
  ⟨_, dsm_k8_overflow_witness.2.2.1⟩

/-- F-C03: fixed-point Biquad, partial sum overflow while the exact total fits -/
theorem c20_neg_biquad_partial_sum :
    ∃ e, biquadUpdate4 .checked 8 6 ⟨-128, -128, 0, -128, 0, 0, -128, 127⟩ (-128, 0, -128, 0) (-128) = .error e :=
  ⟨_, update4_partial_sum_overflow_witness.2.2.2.2.1⟩

end Idsp
