import Mathlib.Analysis.SpecialFunctions.Trigonometric.Arctan
import Mathlib.Analysis.SpecialFunctions.Trigonometric.Bounds
import Mathlib.Analysis.Real.Sqrt
import Mathlib.Tactic.Ring
import Mathlib.Tactic.Linarith
import Mathlib.Tactic.Positivity
import Mathlib.Tactic.FieldSimp
/-!
# Lock-in recovery: from component errors to magnitude and angle errors (pure real geometry)

If `(mI, mQ)` is within `e` per component of `R·(cos θ, −sin θ)` then its Euclidean norm is within `√2·e` of `R`, and
(if `√2·e < R`) it equals `r·(cos(δ−θ), sin(δ−θ))` with `r > 0` and `|δ| ≤ √2·e/(R − √2·e)`.  (`√2` appears as the
rational upper bound `1.4143`.)
-/
namespace Idsp
open Real

theorem lk_abs_arctan_le (v : ℝ) : |arctan v| ≤ |v| := by
  have key : ∀ w : ℝ, 0 ≤ w → arctan w ≤ w := by
    intro w hw
    have h0 : 0 ≤ arctan w := arctan_nonneg.mpr hw
    have := le_tan h0 (arctan_lt_pi_div_two w)
    rwa [tan_arctan] at this
  rcases le_total 0 v with hv | hv
  · rw [abs_of_nonneg hv, abs_of_nonneg (arctan_nonneg.mpr hv)]; exact key v hv
  · have hv' : 0 ≤ -v := by linarith
    have := key (-v) hv'
    rw [arctan_neg] at this
    have h0 : arctan v ≤ 0 := by
      have := arctan_nonneg.mpr hv'; rw [arctan_neg] at this; linarith
    rw [abs_of_nonpos hv, abs_of_nonpos h0]; exact this

/-- a rotated pair of component errors is bounded by `1.4143` times the larger one -/
theorem lk_rot_le {p q e c s : ℝ} (hp : |p| ≤ e) (hq : |q| ≤ e) (hcs : s ^ 2 + c ^ 2 = 1) :
    |p * c - q * s| ≤ 1.4143 * e ∧ |p * s + q * c| ≤ 1.4143 * e := by
  have he : 0 ≤ e := le_trans (abs_nonneg _) hp
  have hp2 : p ^ 2 ≤ e ^ 2 := by rw [← sq_abs p]; exact pow_le_pow_left₀ (abs_nonneg _) hp 2
  have hq2 : q ^ 2 ≤ e ^ 2 := by rw [← sq_abs q]; exact pow_le_pow_left₀ (abs_nonneg _) hq 2
  have i1 : (p * c - q * s) ^ 2 + (p * s + q * c) ^ 2 = (p ^ 2 + q ^ 2) * (s ^ 2 + c ^ 2) := by ring
  rw [hcs, mul_one] at i1
  constructor
  · apply abs_le_of_sq_le_sq _ (by positivity)
    nlinarith [sq_nonneg (p * s + q * c), sq_nonneg e]
  · apply abs_le_of_sq_le_sq _ (by positivity)
    nlinarith [sq_nonneg (p * c - q * s), sq_nonneg e]

/-- **magnitude**: `|√(mI² + mQ²) − R| ≤ 1.4143·e` -/
theorem lk_magnitude {mI mQ R θ e : ℝ} (hR : 0 ≤ R) (hI : |mI - R * cos θ| ≤ e) (hQ : |mQ - -(R * sin θ)| ≤ e) :
    |√(mI ^ 2 + mQ ^ 2) - R| ≤ 1.4143 * e := by
  have he : 0 ≤ e := le_trans (abs_nonneg _) hI
  have hcs := sin_sq_add_cos_sq θ
  set r := √(mI ^ 2 + mQ ^ 2) with hr
  have hr0 : 0 ≤ r := sqrt_nonneg _
  have hr2 : r ^ 2 = mI ^ 2 + mQ ^ 2 := sq_sqrt (by positivity)
  -- Cauchy–Schwarz: mI cos θ − mQ sin θ ≤ r
  have hcs1 : mI * cos θ - mQ * sin θ ≤ r := by
    have : (mI * cos θ - mQ * sin θ) ^ 2 ≤ r ^ 2 := by
      rw [hr2]
      have i1 : (mI * cos θ - mQ * sin θ) ^ 2 + (mI * sin θ + mQ * cos θ) ^ 2
          = (mI ^ 2 + mQ ^ 2) * (sin θ ^ 2 + cos θ ^ 2) := by ring
      rw [hcs, mul_one] at i1
      nlinarith [sq_nonneg (mI * sin θ + mQ * cos θ)]
    exact le_trans (le_abs_self _) (abs_le_of_sq_le_sq this hr0)
  have hp2 : (mI - R * cos θ) ^ 2 ≤ e ^ 2 := by
    rw [← sq_abs (mI - R * cos θ)]; exact pow_le_pow_left₀ (abs_nonneg _) hI 2
  have hq2 : (mQ - -(R * sin θ)) ^ 2 ≤ e ^ 2 := by
    rw [← sq_abs (mQ - -(R * sin θ))]; exact pow_le_pow_left₀ (abs_nonneg _) hQ 2
  have hd : (r - R) ^ 2 ≤ (mI - R * cos θ) ^ 2 + (mQ - -(R * sin θ)) ^ 2 := by
    have e1 : (mI - R * cos θ) ^ 2 + (mQ - -(R * sin θ)) ^ 2
        = r ^ 2 - 2 * R * (mI * cos θ - mQ * sin θ) + R ^ 2 * (sin θ ^ 2 + cos θ ^ 2) := by
      rw [hr2]; ring
    rw [e1, hcs]
    nlinarith [mul_le_mul_of_nonneg_left hcs1 hR]
  apply abs_le_of_sq_le_sq _ (by positivity)
  nlinarith [sq_nonneg e]

/-- **angle**: the pair is `r·(cos(δ−θ), sin(δ−θ))` with `r = √(mI²+mQ²) > 0` and `|δ|·(R − 1.4143·e) ≤ 1.4143·e` -/
theorem lk_angle {mI mQ R θ e : ℝ} (hI : |mI - R * cos θ| ≤ e) (hQ : |mQ - -(R * sin θ)| ≤ e)
    (hsmall : 1.4143 * e < R) :
    ∃ δ : ℝ, |δ| * (R - 1.4143 * e) ≤ 1.4143 * e ∧ 0 < √(mI ^ 2 + mQ ^ 2) ∧
      mI = √(mI ^ 2 + mQ ^ 2) * cos (δ - θ) ∧ mQ = √(mI ^ 2 + mQ ^ 2) * sin (δ - θ) := by
  have he : 0 ≤ e := le_trans (abs_nonneg _) hI
  have hcs := sin_sq_add_cos_sq θ
  obtain ⟨r1, r2⟩ := lk_rot_le hI hQ hcs
  set ure := mI * cos θ - mQ * sin θ with hure
  set uim := mI * sin θ + mQ * cos θ with huim
  have e1 : (mI - R * cos θ) * cos θ - (mQ - -(R * sin θ)) * sin θ = ure - R := by
    rw [hure]; linear_combination (-R) * hcs
  have e2 : (mI - R * cos θ) * sin θ + (mQ - -(R * sin θ)) * cos θ = uim := by
    rw [huim]; ring
  rw [e1] at r1; rw [e2] at r2
  have hure_pos : 0 < ure := by
    have := (abs_le.mp r1).1; linarith
  have hure_ge : R - 1.4143 * e ≤ ure := by
    have := (abs_le.mp r1).1; linarith
  have hnorm : mI ^ 2 + mQ ^ 2 = ure ^ 2 + uim ^ 2 := by
    rw [hure, huim]
    have : (mI * cos θ - mQ * sin θ) ^ 2 + (mI * sin θ + mQ * cos θ) ^ 2
        = (mI ^ 2 + mQ ^ 2) * (sin θ ^ 2 + cos θ ^ 2) := by ring
    rw [this, hcs, mul_one]
  set t := uim / ure with ht
  have hsq : √(mI ^ 2 + mQ ^ 2) = ure * √(1 + t ^ 2) := by
    rw [hnorm]
    have : ure ^ 2 + uim ^ 2 = ure ^ 2 * (1 + t ^ 2) := by rw [ht]; field_simp
    rw [this, sqrt_mul (sq_nonneg _), sqrt_sq hure_pos.le]
  have hs1 : 0 < √(1 + t ^ 2) := sqrt_pos.mpr (by positivity)
  refine ⟨arctan t, ?_, ?_, ?_, ?_⟩
  · have h1 := lk_abs_arctan_le t
    have h2 : |t| * ure = |uim| := by
      rw [ht, abs_div, abs_of_pos hure_pos]; field_simp
    have hd : 0 ≤ R - 1.4143 * e := by linarith
    calc |arctan t| * (R - 1.4143 * e) ≤ |t| * ure :=
          mul_le_mul h1 hure_ge hd (abs_nonneg _)
      _ = |uim| := h2
      _ ≤ 1.4143 * e := r2
  · rw [hsq]; positivity
  · rw [hsq, cos_sub, cos_arctan, sin_arctan]
    have : mI = ure * cos θ + uim * sin θ := by
      rw [hure, huim]; linear_combination (-mI) * hcs
    rw [this, ht]; field_simp
  · rw [hsq, sin_sub, cos_arctan, sin_arctan]
    have : mQ = uim * cos θ - ure * sin θ := by
      rw [hure, huim]; linear_combination (-mQ) * hcs
    rw [this, ht]; field_simp

end Idsp
