import IdspModel.Lemmas.NumBits
namespace Idsp

/-- the part of `macc` after the accumulation: guard-bit comparison, quantisation, remainder -/
def maccPost (w q : Nat) (T mn mx : Int) : Int × Int :=
  (if wrapI w (shr T w) < shr mn (w - q) then mn
   else if wrapI w (shr T w) > shr mx (w - q) then mx else wrapI w (shr T q), T % 2 ^ q)

/-- the bit-level offset expression of `macc` -/
def maccOff (w q : Nat) (u e1 : Int) : Int :=
  wrapI (2 * w) (lorU (wrapU (2 * w) (wrapI (2 * w) (shr u (w - q) * 2 ^ w)))
        (lorU (wrapU w (u * 2 ^ q)) (wrapU w e1)))

theorem macc_unfold (m : Mode) (w q : Nat) (u s mn mx e1 : Int) :
    macc m w q u s mn mx e1 = (do
      let T ← arithI m (2 * w) "num.rs:104 s +=" (s + maccOff w q u e1)
      dbgAssert m "num.rs:107 debug_assert_eq!(min & ((1 << G) - 1), 0)" (decide (mn % 2 ^ (w - q) = 0))
      dbgAssert m "num.rs:108 debug_assert_eq!(max & ((1 << G) - 1), (1 << G) - 1)" (decide (mx % 2 ^ (w - q) = 2 ^ (w - q) - 1))
      .ok (maccPost w q T mn mx)) := rfl

theorem dbgAssert_true (m : Mode) (site : String) : dbgAssert m site true = .ok () := by
  cases m <;> rfl

theorem inI_shr_w {w : Nat} (hw : 0 < w) {T : Int} (hT : inI (2 * w) T = true) : inI w (T / 2 ^ w) = true := by
  have ⟨h0, h1⟩ := inI_iff.mp hT
  rw [two_pow_two_mul_pred hw] at h0 h1
  have hW := two_pow_pos w
  rw [inI_iff]
  constructor
  · rw [Int.le_ediv_iff_mul_le hW]; linarith
  · rw [Int.ediv_lt_iff_lt_mul hW]; linarith

/-- guard-bit comparison against an aligned lower limit is the comparison of the quantised value -/
theorem guard_lt_iff {w q : Nat} (hq : q ≤ w) {T mn : Int} (hmn : mn % 2 ^ (w - q) = 0) :
    T / 2 ^ w < mn / 2 ^ (w - q) ↔ T / 2 ^ q < mn := by
  have hW := two_pow_pos w
  have hP := two_pow_pos q
  have hG := two_pow_pos (w - q)
  have hm : mn / 2 ^ (w - q) * 2 ^ w = mn * 2 ^ q := by
    have := Int.emod_add_mul_ediv mn (2 ^ (w - q))
    rw [two_pow_split hq]; nlinarith
  rw [Int.ediv_lt_iff_lt_mul hW, Int.ediv_lt_iff_lt_mul hP, hm]

/-- guard-bit comparison against an aligned upper limit -/
theorem guard_gt_iff {w q : Nat} (hq : q ≤ w) {T mx : Int} (hmx : mx % 2 ^ (w - q) = 2 ^ (w - q) - 1) :
    T / 2 ^ w > mx / 2 ^ (w - q) ↔ T / 2 ^ q > mx := by
  have hW := two_pow_pos w
  have hP := two_pow_pos q
  have hG := two_pow_pos (w - q)
  have hm : (mx / 2 ^ (w - q) + 1) * 2 ^ w = (mx + 1) * 2 ^ q := by
    have := Int.emod_add_mul_ediv mx (2 ^ (w - q))
    rw [two_pow_split hq]; nlinarith
  show mx / 2 ^ (w - q) < T / 2 ^ w ↔ mx < T / 2 ^ q
  rw [Int.lt_iff_add_one_le, Int.lt_iff_add_one_le, Int.le_ediv_iff_mul_le hW, Int.le_ediv_iff_mul_le hP, hm]

/-- for aligned in-range limits the guard-bit clamp of `macc` is the mathematical clamp of the floor -/
theorem maccPost_eq {w q : Nat} (hw : 0 < w) (hq : q ≤ w) {T mn mx : Int} (hT : inI (2 * w) T = true)
    (hmn : inI w mn = true) (hmx : inI w mx = true)
    (amn : mn % 2 ^ (w - q) = 0) (amx : mx % 2 ^ (w - q) = 2 ^ (w - q) - 1) :
    maccPost w q T mn mx = (clip (T / 2 ^ q) mn mx, T % 2 ^ q) := by
  unfold maccPost clip shr
  rw [wrapI_of_in hw (inI_shr_w hw hT)]
  have h1 := guard_lt_iff (T := T) hq amn
  have h2 := guard_gt_iff (T := T) hq amx
  have ⟨a0, _⟩ := inI_iff.mp hmn
  have ⟨_, b1⟩ := inI_iff.mp hmx
  congr 1
  by_cases c1 : T / 2 ^ q < mn
  · rw [if_pos (h1.mpr c1), if_pos c1]
  · rw [if_neg (fun h => c1 (h1.mp h)), if_neg c1]
    by_cases c2 : T / 2 ^ q > mx
    · rw [if_pos (h2.mpr c2), if_pos c2]
    · rw [if_neg (fun h => c2 (h2.mp h)), if_neg c2]
      apply wrapI_of_in hw; rw [inI_iff]; omega

theorem maccOff_eq {w q : Nat} (hw : 0 < w) (hq : q ≤ w) {u e1 : Int} (hu : inI w u = true)
    (he0 : 0 ≤ e1) (he1 : e1 < 2 ^ q) : maccOff w q u e1 = u * 2 ^ q + e1 :=
  macc_offset w q hw hq u e1 hu he0 he1

/-- `macc` in either build profile, exact total fits the accumulator -/
theorem macc_eq_of_fit (m : Mode) {w q : Nat} (hw : 0 < w) (hq : q ≤ w) {u s mn mx e1 : Int}
    (hu : inI w u = true) (hmn : inI w mn = true) (hmx : inI w mx = true)
    (amn : mn % 2 ^ (w - q) = 0) (amx : mx % 2 ^ (w - q) = 2 ^ (w - q) - 1)
    (he0 : 0 ≤ e1) (he1 : e1 < 2 ^ q) (hT : inI (2 * w) (s + u * 2 ^ q + e1) = true) :
    macc m w q u s mn mx e1 =
      .ok (clip ((s + u * 2 ^ q + e1) / 2 ^ q) mn mx, (s + u * 2 ^ q + e1) % 2 ^ q) := by
  rw [macc_unfold, maccOff_eq hw hq hu he0 he1, ← Int.add_assoc, arithI_ok_of_in hT]
  simp only [amn, amx, decide_true, dbgAssert_true, bind, Except.bind]
  rw [maccPost_eq hw hq hT hmn hmx amn amx]

theorem arithI_release {w : Nat} (hw : 0 < w) (site : String) (x : Int) :
    arithI .release w site x = .ok (wrapI w x) := by
  unfold arithI
  split
  · next h => rw [wrapI_of_in hw h]
  · rfl

/-- a plain arithmetic operation that returns, returns an in-range value congruent to the exact one
    (equal to it in the checked profile) -/
theorem arithI_ok_inv {m : Mode} {w : Nat} (hw : 0 < w) {site : String} {x y : Int}
    (h : arithI m w site x = .ok y) : inI w y = true ∧ y = wrapI w x ∧ (m = .checked → y = x) := by
  unfold arithI at h
  split at h
  · next hin => cases h; exact ⟨hin, (wrapI_of_in hw hin).symm, fun _ => rfl⟩
  · cases m
    · cases h
    · cases h; exact ⟨wrapI_in hw _, rfl, fun h => by cases h⟩

theorem ok_bind {α β : Type} (a : α) (f : α → R β) : (Except.ok a >>= f) = f a := rfl
theorem error_bind {α β : Type} (e : Panic) (f : α → R β) : ((Except.error e : R α) >>= f) = .error e := rfl

/-- `macc` in the release profile: the accumulation wraps -/
theorem macc_release {w q : Nat} (hw : 0 < w) (u s mn mx e1 : Int) :
    macc .release w q u s mn mx e1 = .ok (maccPost w q (wrapI (2 * w) (s + maccOff w q u e1)) mn mx) := by
  rw [macc_unfold, arithI_release (by omega)]; rfl

/-- whenever `macc` returns, the result is `maccPost` of some value that fits the accumulator -/
theorem macc_ok_inv {m : Mode} {w q : Nat} (hw : 0 < w) {u s mn mx e1 : Int} {r : Int × Int}
    (h : macc m w q u s mn mx e1 = .ok r) :
    ∃ T, inI (2 * w) T = true ∧ T = wrapI (2 * w) (s + maccOff w q u e1) ∧ r = maccPost w q T mn mx := by
  rw [macc_unfold] at h
  cases hA : arithI m (2 * w) "num.rs:104 s +=" (s + maccOff w q u e1) with
  | error e => rw [hA] at h; cases h
  | ok T =>
    rw [hA, ok_bind] at h
    have ⟨hin, hT, _⟩ := arithI_ok_inv (by omega) hA
    refine ⟨T, hin, hT, ?_⟩
    cases m
    · simp only [dbgAssert] at h
      split at h
      · rw [ok_bind] at h
        split at h
        · cases h; rfl
        · cases h
      · cases h
    · cases h; rfl

/-- in the checked profile a returning `macc` has aligned limits -/
theorem macc_checked_aligned {w q : Nat} {u s mn mx e1 : Int} {r : Int × Int}
    (h : macc .checked w q u s mn mx e1 = .ok r) :
    mn % 2 ^ (w - q) = 0 ∧ mx % 2 ^ (w - q) = 2 ^ (w - q) - 1 := by
  rw [macc_unfold] at h
  cases hA : arithI .checked (2 * w) "num.rs:104 s +=" (s + maccOff w q u e1) with
  | error e => rw [hA] at h; cases h
  | ok T =>
    rw [hA, ok_bind] at h
    simp only [dbgAssert] at h
    split at h
    · next h1 =>
      rw [ok_bind] at h
      split at h
      · next h2 => exact ⟨of_decide_eq_true h1, of_decide_eq_true h2⟩
      · cases h
    · cases h

end Idsp
