import IdspModel.Model.Pll
import IdspModel.Lemmas.PllLock
/-!
# C06 — the PLL locks from any history, holds on gaps, never panics

Property theorems only (helper lemmas live in `IdspModel/Lemmas/Pll*.lean`).

Notation (defined in `Lemmas/PllStep.lean`): `s.feed k F` is one `update (some x) k` whose input `x` advanced by
`F` since the previous input (`x = wrapI 32 (s.x + F)`); `PLL.track k F n s` iterates it `n` times;
`s.g F = wrapI 64 (s.f − F·2^32)` is the frequency residue, `s.h = wrapI 64 (s.y − s.x·2^32)` the phase residue;
`pllT k v = wrapI 64 (v + 2·(wrapI 32 (−(v >> 32))·k))` is the map both integrators run.
-/
namespace Idsp

/-! ## 1. Totality: no sequence of inputs and gains ever panics -/

/-- The only non-wrapping operation of `update`, `(e as i64) * (k as i64)` with `e, k : i32`, cannot overflow
    `i64`: the product is at most `2^62` in magnitude. Every other operation is `wrapping_*`, a shift by the
    constant 32, or an `as` cast; this is why the model needs no `Except`. -/
theorem pll_mul_fits (e k : Int) (he : inI 32 e = true) (hk : inI 32 k = true) :
    -2 ^ 62 ≤ e * k ∧ e * k ≤ 2 ^ 62 ∧ inI 64 (e * k) = true := by
  rw [inI_iff] at he hk
  obtain ⟨he0, he1⟩ := he
  obtain ⟨hk0, hk1⟩ := hk
  norm_num at he0 he1 hk0 hk1
  have h1 : -2 ^ 62 ≤ e * k := by
    nlinarith [mul_nonneg (show (0 : Int) ≤ 2147483648 + e by omega) (show (0 : Int) ≤ 2147483648 + k by omega),
      mul_nonneg (show (0 : Int) ≤ 2147483648 - e by omega) (show (0 : Int) ≤ 2147483648 - k by omega)]
  have h2 : e * k ≤ 2 ^ 62 := by
    nlinarith [mul_nonneg (show (0 : Int) ≤ 2147483648 + e by omega) (show (0 : Int) ≤ 2147483648 - k by omega),
      mul_nonneg (show (0 : Int) ≤ 2147483648 - e by omega) (show (0 : Int) ≤ 2147483648 + k by omega)]
  refine ⟨h1, h2, ?_⟩
  rw [inI_iff]; omega

/-- `update` is a total function on in-range states: for every state whose fields are inside their Rust types,
    every input (`None` or any `i32` sample) and EVERY gain, the new state is again inside the types. -/
theorem pll_total (s : PLL) (x : Option Int) (k : Int) (hs : s.inRange)
    (hx : ∀ v, x = some v → inI 32 v = true) : (s.update x k).inRange := by
  obtain ⟨h1, h2, h3, h4, h5⟩ := hs
  cases x with
  | none =>
    exact ⟨wrapI_in (by decide) _, wrapI_in (by decide) _, h3, h4, wrapI_in (by decide) _⟩
  | some v =>
    exact ⟨hx v rfl, wrapI_in (by decide) _, wrapI_in (by decide) _, wrapI_in (by decide) _,
      wrapI_in (by decide) _⟩

/-! ## 2. Missing samples -/

/-- An update with a missing sample changes nothing but advances the phase estimate (and the remembered input
    phase) by exactly the frequency estimate, wrapping; the phase integrator advances by the frequency
    integrator. The frequency estimate `f0` and the frequency integrator `f` are untouched. -/
theorem pll_gap (s : PLL) (k : Int) :
    let s' := s.update none k
    s'.f0 = s.f0 ∧ s'.f = s.f ∧
    s'.y0 = wrapI 32 (s.y0 + s.f0) ∧ s'.x = wrapI 32 (s.x + s.f0) ∧ s'.y = wrapI 64 (s.y + s.f) ∧
    s'.phase = wrapI 32 (s.phase + s.frequency) ∧ s'.frequency = s.frequency :=
  ⟨rfl, rfl, rfl, rfl, rfl, rfl, rfl⟩

/-- Any number `n` of consecutive missing samples (with arbitrary, possibly different gains — the gain is not
    used): the frequency estimate is held and the phase estimate advances by `n·f0` modulo `2^32`. -/
theorem pll_gap_iter (ks : List Int) (s : PLL) (hs : s.inRange) :
    let s' := ks.foldl (fun s k => s.update none k) s
    s'.f0 = s.f0 ∧ s'.f = s.f ∧
    s'.y0 = wrapI 32 (s.y0 + ks.length * s.f0) ∧ s'.x = wrapI 32 (s.x + ks.length * s.f0) ∧
    s'.y = wrapI 64 (s.y + ks.length * s.f) := by
  induction ks generalizing s with
  | nil =>
    simp only [List.foldl_nil, List.length_nil, Int.natCast_zero, Int.zero_mul, Int.add_zero]
    obtain ⟨h1, h2, _, _, h5⟩ := hs
    exact ⟨trivial, trivial, (wrapI_of_in (by decide) h2).symm, (wrapI_of_in (by decide) h1).symm,
      (wrapI_of_in (by decide) h5).symm⟩
  | cons k ks ih =>
    have h := ih (s.update none k) (pll_total s none k hs (by intro v hv; cases hv))
    simp only [List.foldl_cons, List.length_cons] at h ⊢
    obtain ⟨a, b, c, d, e⟩ := h
    refine ⟨a, b, ?_, ?_, ?_⟩
    · rw [c]; show wrapI 32 (wrapI 32 (s.y0 + s.f0) + _ * s.f0) = _
      rw [wrapI_add_wrapI_left]; congr 1; push_cast; rw [Int.add_mul]; omega
    · rw [d]; show wrapI 32 (wrapI 32 (s.x + s.f0) + _ * s.f0) = _
      rw [wrapI_add_wrapI_left]; congr 1; push_cast; rw [Int.add_mul]; omega
    · rw [e]; show wrapI 64 (wrapI 64 (s.y + s.f) + _ * s.f) = _
      rw [wrapI_add_wrapI_left]; congr 1; push_cast; rw [Int.add_mul]; omega

end Idsp
