import IdspModel.Lemmas.Lp2Phase
import IdspModel.Lemmas.Lp2Run
/-!
# Second-order lowpass: one update INCLUDING the saturating subtraction

`lp2NextS` / `lp2MidS`: the plain integer map with `satI 32` kept (no wrapping).  `lp2_step_boxS`: the model performs
it whenever the raw states fit (`Lp2BoxS`: `s0` in `i64`, `|s1| ≤ 2^62`) — the input difference may clip.
`lp2_centered_recS`: in centred coordinates the clip `c = (x − get) − sat(x − get)` is one more disturbance,
`ū − 2a²·c·2^32`.
-/
namespace Idsp
set_option linter.unusedSimpArgs false
set_option linter.unusedVariables false

def lp2DS (x k0 k1 s0 s1 : Int) : Int := satI 32 (x - s0 / 4294967296) * k0 + s1 / 4294967296 * k1

def lp2NextS (x k0 k1 : Int) (st : Int × Int) : Int × Int :=
  (st.1 + 2 * (st.2 + lp2DS x k0 k1 st.1 st.2), st.2 + 2 * lp2DS x k0 k1 st.1 st.2)

def lp2MidS (x k0 k1 : Int) (st : Int × Int) : Int := st.1 + (st.2 + lp2DS x k0 k1 st.1 st.2)

/-- the clip of the saturating subtraction -/
def lp2Clip (x s0 : Int) : Int := (x - s0 / 4294967296) - satI 32 (x - s0 / 4294967296)

def Lp2BoxS (st : Int × Int) : Prop :=
  -9223372036854775808 ≤ st.1 ∧ st.1 < 9223372036854775808 ∧
  -4611686018427387904 ≤ st.2 ∧ st.2 ≤ 4611686018427387904

theorem lp2_sat_range (z : Int) : -2147483648 ≤ satI 32 z ∧ satI 32 z ≤ 2147483647 := by
  unfold satI minI maxI
  simp only [show (32 : Nat) - 1 = 31 from rfl, Int.reducePow, Int.reduceNeg, Int.reduceSub]
  (repeat' split) <;> omega

/-- if the unclipped difference is at most `2^31 − 1 + C` (and at least `−2^31 − C`) the clip is within `±C` -/
theorem lp2_clip_le {x s0 C : Int} (hC : 0 ≤ C) (h0 : -2147483648 - C ≤ x - s0 / 4294967296)
    (h1 : x - s0 / 4294967296 ≤ 2147483647 + C) : -C ≤ lp2Clip x s0 ∧ lp2Clip x s0 ≤ C := by
  unfold lp2Clip satI minI maxI
  simp only [show (32 : Nat) - 1 = 31 from rfl, Int.reducePow, Int.reduceNeg, Int.reduceSub]
  (repeat' split) <;> omega

theorem lp2_nextS_eq (x k0 k1 : Int) (st : Int × Int) :
    (lp2NextS x k0 k1 st).1 = (lp2Next x k0 k1 st).1 - 2 * (lp2Clip x st.1 * k0) ∧
    (lp2NextS x k0 k1 st).2 = (lp2Next x k0 k1 st).2 - 2 * (lp2Clip x st.1 * k0) ∧
    lp2MidS x k0 k1 st = lp2Mid x k0 k1 st - lp2Clip x st.1 * k0 := by
  unfold lp2NextS lp2Next lp2MidS lp2Mid lp2DS lp2D lp2Clip
  refine ⟨by ring, by ring, by ring⟩

/-- **one update = the saturating plain map**, both build profiles, every `i32` gain pair and input -/
theorem lp2_step_boxS (m : Mode) (x k0 k1 : Int) (st : Int × Int)
    (hk0a : -2147483648 ≤ k0) (hk0b : k0 ≤ 2147483647) (hk1a : -2147483648 ≤ k1) (hk1b : k1 ≤ 2147483647)
    (hb : Lp2BoxS st) (hn : Lp2BoxS (lp2NextS x k0 k1 st)) :
    lp2Update m st.1 st.2 x k0 k1
      = .ok ((lp2NextS x k0 k1 st).1, (lp2NextS x k0 k1 st).2, lp2MidS x k0 k1 st / 4294967296) := by
  obtain ⟨s0, s1⟩ := st
  obtain ⟨a0, a1, v0, v1⟩ := hb
  obtain ⟨n0, n1, w0, w1⟩ := hn
  simp only [lp2NextS, lp2MidS] at *
  obtain ⟨e0, e1⟩ := lp2_sat_range (x - s0 / 4294967296)
  have hp1 := lp2_mul_box (p := satI 32 (x - s0 / 4294967296)) (q := k0) (P := 2147483648) (Q := 2147483648)
    (by omega) (by omega) (by omega) (by omega)
  have hp2 := lp2_mul_box (p := s1 / 4294967296) (q := k1) (P := 1073741824) (Q := 2147483648)
    (by omega) (by omega) (by omega) (by omega)
  have key := lp2_step_linear m s0 s1 x k0 k1 (lp2_inI64 a0 a1) (lp2DS x k0 k1 s0 s1) rfl
  have hd : lp2DS x k0 k1 s0 s1 = satI 32 (x - s0 / 4294967296) * k0 + s1 / 4294967296 * k1 := rfl
  generalize lp2DS x k0 k1 s0 s1 = d at *
  generalize satI 32 (x - s0 / 4294967296) * k0 = t1 at *
  generalize s1 / 4294967296 * k1 = t2 at *
  norm_num at hp1 hp2
  apply key <;> (apply lp2_inI64 <;> omega)

/-- centred recursion of the saturating map: the clip is an extra disturbance -/
theorem lp2_centered_recS (x a b C : Int) (st : Int × Int) (ha : 0 < a) (hb : 0 < b) (hC : 0 ≤ C)
    (hc0 : -C ≤ lp2Clip x st.1) (hc1 : lp2Clip x st.1 ≤ C) :
    Lp2Rel a b (lp2U a b + 2 * a ^ 2 * C * 4294967296)
      (lp2Eb a b x st.1) (2 * a * st.2)
      (lp2Eb a b x (lp2NextS x a (-b) st).1) (2 * a * (lp2NextS x a (-b) st).2) := by
  obtain ⟨u, hu, hE, hs⟩ := lp2_centered_rec x a b st ha hb
  obtain ⟨e1, e2, -⟩ := lp2_nextS_eq x a (-b) st
  have hU0 : 0 ≤ lp2U a b := by unfold lp2U; positivity
  obtain ⟨hu0, hu1⟩ := abs_le_of_sq_le_sq' hu hU0
  refine ⟨u - 2 * a ^ 2 * lp2Clip x st.1 * 4294967296, ?_, ?_, ?_⟩
  · have ha2 : 0 ≤ a ^ 2 := sq_nonneg a
    apply sq_le_sq' <;> nlinarith
  · rw [e1]
    have : lp2Eb a b x ((lp2Next x a (-b) st).1 - 2 * (lp2Clip x st.1 * a))
        = lp2Eb a b x (lp2Next x a (-b) st).1 + 4 * a ^ 2 * lp2Clip x st.1 := by unfold lp2Eb; ring
    rw [this]; linear_combination hE
  · rw [e2]; linear_combination hs

/-- the raw state after `n` saturating plain updates -/
def lp2SeqS (x k0 k1 : Int) : Nat → Int × Int → Int × Int
  | 0, st => st
  | n + 1, st => lp2SeqS x k0 k1 n (lp2NextS x k0 k1 st)

theorem lp2SeqS_add (x k0 k1 : Int) (i j : Nat) (st : Int × Int) :
    lp2SeqS x k0 k1 (i + j) st = lp2SeqS x k0 k1 j (lp2SeqS x k0 k1 i st) := by
  induction i generalizing st with
  | zero => simp [lp2SeqS]
  | succ i ih => rw [show i + 1 + j = (i + j) + 1 by omega]; simp only [lp2SeqS]; exact ih _

theorem lp2SeqS_succ (x k0 k1 : Int) (n : Nat) (st : Int × Int) :
    lp2SeqS x k0 k1 (n + 1) st = lp2NextS x k0 k1 (lp2SeqS x k0 k1 n st) := by
  rw [lp2SeqS_add]; rfl

/-- the model run follows the saturating plain map as long as the raw states fit -/
theorem lp2_seqS_run (m : Mode) (x k0 k1 : Int)
    (hk0a : -2147483648 ≤ k0) (hk0b : k0 ≤ 2147483647) (hk1a : -2147483648 ≤ k1) (hk1b : k1 ≤ 2147483647)
    (n : Nat) (st : Int × Int) (hbox : ∀ j, j ≤ n → Lp2BoxS (lp2SeqS x k0 k1 j st)) :
    lp2Iter m x k0 k1 n st
      = .ok ((lp2SeqS x k0 k1 n st).1, (lp2SeqS x k0 k1 n st).2, (lp2SeqS x k0 k1 n st).1 / 4294967296) := by
  induction n generalizing st with
  | zero =>
    have hb := hbox 0 (le_refl _)
    obtain ⟨s0, s1⟩ := st
    simp only [lp2Iter, lp2SeqS]
    simp only [lp2SeqS] at hb
    rw [lp2_lpGet_eq hb.1 hb.2.1]
  | succ n ih =>
    have hb0 := hbox 0 (by omega)
    have hb1 := hbox 1 (by omega)
    simp only [lp2SeqS] at hb0 hb1
    have hstep := lp2_step_boxS m x k0 k1 st hk0a hk0b hk1a hk1b hb0 hb1
    have := ih (lp2NextS x k0 k1 st) (fun j hj => by
      have := hbox (j + 1) (by omega)
      simpa [lp2SeqS] using this)
    obtain ⟨s0, s1⟩ := st
    simp only [lp2Iter, lp2SeqS]
    simp only at hstep
    rw [hstep]
    simp only [bind_ok']
    exact this

/-- splitting a run -/
theorem lp2Iter_add (m : Mode) (x k0 k1 : Int) (i j : Nat) (st : Int × Int) (s0 s1 g : Int)
    (h : lp2Iter m x k0 k1 i st = .ok (s0, s1, g)) :
    lp2Iter m x k0 k1 (i + j) st = lp2Iter m x k0 k1 j (s0, s1) := by
  induction i generalizing st with
  | zero =>
    obtain ⟨t0, t1⟩ := st
    simp only [lp2Iter] at h
    have := Except.ok.inj h
    simp only [Prod.mk.injEq] at this
    obtain ⟨rfl, rfl, -⟩ := this
    simp
  | succ i ih =>
    obtain ⟨t0, t1⟩ := st
    rw [show i + 1 + j = (i + j) + 1 by omega]
    simp only [lp2Iter] at h ⊢
    cases hu : lp2Update m t0 t1 x k0 k1 with
    | error e => rw [hu] at h; simp at h
    | ok r =>
      obtain ⟨r0, r1, ry⟩ := r
      rw [hu] at h
      simp only [bind_ok'] at h ⊢
      exact ih _ h

end Idsp
