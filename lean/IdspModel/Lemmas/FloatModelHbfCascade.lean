import IdspModel.Lemmas.FloatModelHbfStage
import IdspModel.Lemmas.HbfCascade
/-!
  Propagation of the per-stage rounding terms through the half-band cascades.
  `fhbfClose D A Xf Xe`: the rounded stream `Xf` and the exact stream `Xe` have the same length, differ pointwise by at
  most `D`, and the exact stream is bounded by `A`.  One stage with rounding constant `ε` and exact `ℓ1` gain `g` maps
  `(A, D)` to `(g·A, ε·(A + D) + g·D)` (`fhbfStep`): the rounded stage sees an input bounded by `A + D`, and the exact
  stage is linear with gain `g`.
-/
namespace Idsp
open Finset

def fhbfClose (D A : ℝ) (Xf Xe : List ℝ) : Prop :=
  Xf.length = Xe.length ∧ (∀ i (h1 : i < Xf.length) (h2 : i < Xe.length), |Xf[i] - Xe[i]| ≤ D) ∧
    ∀ x ∈ Xe, |x| ≤ A

theorem fhbfClose.bound_left {D A : ℝ} {Xf Xe : List ℝ} (h : fhbfClose D A Xf Xe) : ∀ x ∈ Xf, |x| ≤ A + D := by
  intro x hx
  obtain ⟨i, hi, rfl⟩ := List.getElem_of_mem hx
  have h2 : i < Xe.length := h.1 ▸ hi
  have a := h.2.1 i hi h2
  have b := h.2.2 _ (List.getElem_mem h2)
  have : Xf[i] = Xe[i] + (Xf[i] - Xe[i]) := by ring
  rw [this]
  exact (abs_add_le _ _).trans (add_le_add b a)

theorem fhbfClose.refl {A : ℝ} {X : List ℝ} (h : ∀ x ∈ X, |x| ≤ A) : fhbfClose 0 A X X :=
  ⟨rfl, fun i _ _ => by simp, h⟩

/-- one stage: amplitude bound and accumulated deviation -/
def fhbfStep (ε g : ℝ) (p : ℝ × ℝ) : ℝ × ℝ := (g * p.1, ε * (p.1 + p.2) + g * p.2)

def fhbfStepQ (ε g : ℚ) (p : ℚ × ℚ) : ℚ × ℚ := (g * p.1, ε * (p.1 + p.2) + g * p.2)

/-- (taps, zero even-phase history, zero odd-phase history) of a fresh decimator stage with the published taps `j` -/
noncomputable def fhbfDecAbs (j : ℕ) : List ℝ × List ℝ × List ℝ :=
  (fhbfTapsR j, List.replicate ((fhbfTapsR j).length - 1) 0, List.replicate (2 * (fhbfTapsR j).length - 1) 0)

noncomputable def fhbfIntAbs (j : ℕ) : List ℝ × List ℝ :=
  (fhbfTapsR j, List.replicate (2 * (fhbfTapsR j).length - 1) 0)

/-- `(A, D)` after the stages `js` (application order), binary32 constants of the published taps -/
noncomputable def fhbfDecChainErr : List ℕ → ℝ × ℝ → ℝ × ℝ
  | [], p => p
  | j :: js, p => fhbfDecChainErr js (fhbfStep (((fhbfDecConst j : ℚ) : ℝ) / 2 ^ 24) ((fhbfDecGainQ j : ℚ) : ℝ) p)

noncomputable def fhbfIntChainErr : List ℕ → ℝ × ℝ → ℝ × ℝ
  | [], p => p
  | j :: js, p => fhbfIntChainErr js (fhbfStep (((fhbfIntConst j : ℚ) : ℝ) / 2 ^ 24) ((fhbfIntGainQ j : ℚ) : ℝ) p)

def fhbfDecChainErrQ : List ℕ → ℚ × ℚ → ℚ × ℚ
  | [], p => p
  | j :: js, p => fhbfDecChainErrQ js (fhbfStepQ (fhbfDecConst j / 2 ^ 24) (fhbfDecGainQ j) p)

def fhbfIntChainErrQ : List ℕ → ℚ × ℚ → ℚ × ℚ
  | [], p => p
  | j :: js, p => fhbfIntChainErrQ js (fhbfStepQ (fhbfIntConst j / 2 ^ 24) (fhbfIntGainQ j) p)

theorem fhbfDecChainErr_cast (js : List ℕ) (p : ℚ × ℚ) :
    fhbfDecChainErr js ((p.1 : ℝ), (p.2 : ℝ)) =
      (((fhbfDecChainErrQ js p).1 : ℝ), ((fhbfDecChainErrQ js p).2 : ℝ)) := by
  induction js generalizing p with
  | nil => rfl
  | cons j js ih =>
    simp only [fhbfDecChainErr, fhbfDecChainErrQ]
    rw [← ih]
    congr 1
    simp only [fhbfStep, fhbfStepQ]
    push_cast
    rfl

theorem fhbfIntChainErr_cast (js : List ℕ) (p : ℚ × ℚ) :
    fhbfIntChainErr js ((p.1 : ℝ), (p.2 : ℝ)) =
      (((fhbfIntChainErrQ js p).1 : ℝ), ((fhbfIntChainErrQ js p).2 : ℝ)) := by
  induction js generalizing p with
  | nil => rfl
  | cons j js ih =>
    simp only [fhbfIntChainErr, fhbfIntChainErrQ]
    rw [← ih]
    congr 1
    simp only [fhbfStep, fhbfStepQ]
    push_cast
    rfl

/-- the recursion is homogeneous: scaling the input bound scales everything -/
theorem fhbfDecChainErr_smul (js : List ℕ) (B : ℝ) (p : ℝ × ℝ) :
    fhbfDecChainErr js (B * p.1, B * p.2) = (B * (fhbfDecChainErr js p).1, B * (fhbfDecChainErr js p).2) := by
  induction js generalizing p with
  | nil => rfl
  | cons j js ih =>
    simp only [fhbfDecChainErr]
    rw [← ih]
    congr 1
    simp only [fhbfStep]
    refine Prod.ext ?_ ?_ <;> simp only <;> ring

theorem fhbfIntChainErr_smul (js : List ℕ) (B : ℝ) (p : ℝ × ℝ) :
    fhbfIntChainErr js (B * p.1, B * p.2) = (B * (fhbfIntChainErr js p).1, B * (fhbfIntChainErr js p).2) := by
  induction js generalizing p with
  | nil => rfl
  | cons j js ih =>
    simp only [fhbfIntChainErr]
    rw [← ih]
    congr 1
    simp only [fhbfStep]
    refine Prod.ext ?_ ?_ <;> simp only <;> ring

theorem fhbfWnorm_nonneg (taps : List ℝ) (s : ℕ) : 0 ≤ fhbfWnorm taps s := by
  rw [← fhbf_wsum_eq]; exact Finset.sum_nonneg fun _ _ => by positivity

theorem fhbfDecConst_nonneg (j : ℕ) : (0 : ℝ) ≤ ((fhbfDecConst j : ℚ) : ℝ) :=
  le_trans (by have := fhbfWnorm_nonneg (fhbfTapsR j) 5; positivity) (fhbfDecConst_ok_real j)

theorem fhbfIntConst_nonneg (j : ℕ) : (0 : ℝ) ≤ ((fhbfIntConst j : ℚ) : ℝ) :=
  le_trans (by have := fhbfWnorm_nonneg (fhbfTapsR j) 3; positivity) (fhbfIntConst_ok_real j)

theorem fhbfDecGain_nonneg (j : ℕ) : (0 : ℝ) ≤ ((fhbfDecGainQ j : ℚ) : ℝ) :=
  le_trans (by have := fhbfTapNorm_nonneg (fhbfTapsR j); positivity) (fhbfDecGain_ok j)

theorem fhbfIntGain_nonneg (j : ℕ) : (0 : ℝ) ≤ ((fhbfIntGainQ j : ℚ) : ℝ) :=
  le_trans (le_trans zero_le_one (le_max_left _ _)) (fhbfIntGain_ok j)

theorem fhbf_f32_roundings_small (j : ℕ) (s : ℕ) (hs : s ≤ 4) :
    (((fhbfTapsR j).length + s : ℕ) : ℝ) * ((((fhbfTapsR j).length + s : ℕ) : ℝ) + 1) * (1 / 2 ^ 24) ≤ 1 := by
  have h := (fhbfTapsR_length_le j).2
  have h1 : (((fhbfTapsR j).length + s : ℕ) : ℝ) ≤ 27 := by exact_mod_cast (by omega : (fhbfTapsR j).length + s ≤ 27)
  have h0 : (0 : ℝ) ≤ (((fhbfTapsR j).length + s : ℕ) : ℝ) := Nat.cast_nonneg _
  have : (((fhbfTapsR j).length + s : ℕ) : ℝ) * ((((fhbfTapsR j).length + s : ℕ) : ℝ) + 1) ≤ 27 * 28 := by nlinarith
  norm_num at this ⊢
  linarith

namespace FlModel

variable (F : FlModel (1 / 2 ^ 24))

/-- binary32, published taps `j`, decimator specification from the zero history: rounded vs exact on the SAME input -/
theorem fhbf_dec_stage_eps (j : ℕ) (X : List ℝ) (B : ℝ) (hB0 : 0 ≤ B) (hB : ∀ x ∈ X, |x| ≤ B) (i : Nat)
    (hi : i < X.length / 2) :
    |(hbfDecSpec F.fhbfOps (fhbfDecAbs j).1 (fhbfDecAbs j).2.1 (fhbfDecAbs j).2.2 X)[i]'(by
        rw [decSpec_length F.fhbfOps (fhbfDecAbs j).1 (fhbfDecAbs j).2.1 (fhbfDecAbs j).2.2 X
          (fhbfTapsR_length_le j).1 (by simp [fhbfDecAbs]) (by simp [fhbfDecAbs])]
        exact hi) -
      1 / 2 * firAt (fhbfTapsR j) (zext X) (2 * i + 1)| ≤ ((fhbfDecConst j : ℚ) : ℝ) / 2 ^ 24 * B := by
  refine (F.fhbf_decSpec_near (fhbfTapsR j) (fhbfTapsR_length_le j).1 X i hi).trans ?_
  refine (fhbfDecBound_le_weighted F.u_nonneg (fhbfTapsR j) (fhbf_f32_roundings_small j 4 le_rfl) _ B
    (fhbf_zext_abs_le _ B hB0 hB) _).trans ?_
  have hc := fhbfDecConst_ok_real j
  have : (1 : ℝ) / 2 ^ 24 * B * (3 / 2 + fhbfWnorm (fhbfTapsR j) 5) ≤
      1 / 2 ^ 24 * B * ((fhbfDecConst j : ℚ) : ℝ) :=
    mul_le_mul_of_nonneg_left hc (by positivity)
  refine this.trans (le_of_eq ?_)
  ring

theorem fhbf_int_stage_eps (j : ℕ) (X : List ℝ) (B : ℝ) (hB0 : 0 ≤ B) (hB : ∀ x ∈ X, |x| ≤ B) (k : Nat)
    (hk : k < 2 * X.length) :
    |(hbfIntSpec F.fhbfOps (fhbfIntAbs j).1 (fhbfIntAbs j).2 X)[k]'(by
        rw [intSpec_length F.fhbfOps (fhbfIntAbs j).1 (fhbfIntAbs j).2 X (fhbfTapsR_length_le j).1
          (by simp [fhbfIntAbs])]; exact hk) -
      firAt (fhbfTapsR j) (zstuff X) k| ≤ ((fhbfIntConst j : ℚ) : ℝ) / 2 ^ 24 * B := by
  refine (F.fhbf_intSpec_near (fhbfTapsR j) (fhbfTapsR_length_le j).1 X k hk).trans ?_
  have hc := fhbfIntConst_ok_real j
  have hcpos := fhbfIntConst_nonneg j
  split
  · refine (fhbfIntBound_le_weighted F.u_nonneg (fhbfTapsR j) (fhbf_f32_roundings_small j 2 (by norm_num)) _ B
      (fhbf_zstuff_abs_le _ B hB0 hB) _).trans ?_
    have : (1 : ℝ) / 2 ^ 24 * B * (2 * fhbfWnorm (fhbfTapsR j) 3) ≤
        1 / 2 ^ 24 * B * ((fhbfIntConst j : ℚ) : ℝ) :=
      mul_le_mul_of_nonneg_left hc (by positivity)
    refine this.trans (le_of_eq ?_)
    ring
  · positivity

/-- **one decimator stage** maps `(A, D)`-close streams to `fhbfStep`-close streams -/
theorem fhbf_dec_step (j : ℕ) {D A : ℝ} (hD : 0 ≤ D) (hA : 0 ≤ A) {Xf Xe : List ℝ} (h : fhbfClose D A Xf Xe) :
    fhbfClose (fhbfStep (((fhbfDecConst j : ℚ) : ℝ) / 2 ^ 24) ((fhbfDecGainQ j : ℚ) : ℝ) (A, D)).2
      (fhbfStep (((fhbfDecConst j : ℚ) : ℝ) / 2 ^ 24) ((fhbfDecGainQ j : ℚ) : ℝ) (A, D)).1
      (hbfDecSpec F.fhbfOps (fhbfDecAbs j).1 (fhbfDecAbs j).2.1 (fhbfDecAbs j).2.2 Xf)
      (hbfDecSpec fhbfExactOps (fhbfDecAbs j).1 (fhbfDecAbs j).2.1 (fhbfDecAbs j).2.2 Xe) := by
  have hm := (fhbfTapsR_length_le j).1
  have lf := decSpec_length F.fhbfOps (fhbfDecAbs j).1 (fhbfDecAbs j).2.1 (fhbfDecAbs j).2.2 Xf hm
    (by simp [fhbfDecAbs]) (by simp [fhbfDecAbs])
  have le := decSpec_length fhbfExactOps (fhbfDecAbs j).1 (fhbfDecAbs j).2.1 (fhbfDecAbs j).2.2 Xe hm
    (by simp [fhbfDecAbs]) (by simp [fhbfDecAbs])
  have hg := fhbfDecGain_ok j
  have hzd := fhbf_zext_sub_le Xf Xe D hD h.1 h.2.1
  have hze : ∀ k, |zext Xe k - (fun _ => (0 : ℝ)) k| ≤ A := by
    intro k; simpa using fhbf_zext_abs_le Xe A hA h.2.2 k
  have hconv : ∀ i (hi : i < Xe.length / 2),
      (hbfDecSpec fhbfExactOps (fhbfDecAbs j).1 (fhbfDecAbs j).2.1 (fhbfDecAbs j).2.2 Xe)[i]'(by rw [le]; exact hi) =
        1 / 2 * firAt (fhbfTapsR j) (zext Xe) (2 * i + 1) :=
    fun i hi => decSpec_conv (fun x : ℝ => 1 / 2 * x) (fhbfTapsR j) Xe hm i hi
  refine ⟨by rw [lf, le, h.1], ?_, ?_⟩
  · intro i h1 h2
    have hi : i < Xf.length / 2 := lf ▸ h1
    have hi' : i < Xe.length / 2 := le ▸ h2
    have a := F.fhbf_dec_stage_eps j Xf (A + D) (by positivity) h.bound_left i hi
    have b := fhbf_firAt_sub_le (fhbfTapsR j) hm (zext Xf) (zext Xe) D hzd (2 * i + 1)
    rw [hconv i hi']
    have e : ∀ y p q : ℝ, y - 1 / 2 * q = (y - 1 / 2 * p) + 1 / 2 * (p - q) := by intros; ring
    rw [e _ (firAt (fhbfTapsR j) (zext Xf) (2 * i + 1))]
    refine (abs_add_le _ _).trans ?_
    rw [abs_mul, abs_of_pos (by norm_num : (0 : ℝ) < 1 / 2)]
    simp only [fhbfStep]
    have : (1 / 2 + fhbfTapNorm (fhbfTapsR j)) * D ≤ ((fhbfDecGainQ j : ℚ) : ℝ) * D :=
      mul_le_mul_of_nonneg_right hg hD
    nlinarith
  · intro y hy
    obtain ⟨i, hi, rfl⟩ := List.getElem_of_mem hy
    have hi' : i < Xe.length / 2 := le ▸ hi
    rw [hconv i hi']
    have b := fhbf_firAt_sub_le (fhbfTapsR j) hm (zext Xe) (fun _ => 0) A hze (2 * i + 1)
    rw [fhbf_firAt_zero, sub_zero] at b
    rw [abs_mul, abs_of_pos (by norm_num : (0 : ℝ) < 1 / 2)]
    simp only [fhbfStep]
    have : (1 / 2 + fhbfTapNorm (fhbfTapsR j)) * A ≤ ((fhbfDecGainQ j : ℚ) : ℝ) * A :=
      mul_le_mul_of_nonneg_right hg hA
    nlinarith

/-- **one interpolator stage** -/
theorem fhbf_int_step (j : ℕ) {D A : ℝ} (hD : 0 ≤ D) (hA : 0 ≤ A) {Xf Xe : List ℝ} (h : fhbfClose D A Xf Xe) :
    fhbfClose (fhbfStep (((fhbfIntConst j : ℚ) : ℝ) / 2 ^ 24) ((fhbfIntGainQ j : ℚ) : ℝ) (A, D)).2
      (fhbfStep (((fhbfIntConst j : ℚ) : ℝ) / 2 ^ 24) ((fhbfIntGainQ j : ℚ) : ℝ) (A, D)).1
      (hbfIntSpec F.fhbfOps (fhbfIntAbs j).1 (fhbfIntAbs j).2 Xf)
      (hbfIntSpec fhbfExactOps (fhbfIntAbs j).1 (fhbfIntAbs j).2 Xe) := by
  have hm := (fhbfTapsR_length_le j).1
  have lf := intSpec_length F.fhbfOps (fhbfIntAbs j).1 (fhbfIntAbs j).2 Xf hm (by simp [fhbfIntAbs])
  have le := intSpec_length fhbfExactOps (fhbfIntAbs j).1 (fhbfIntAbs j).2 Xe hm (by simp [fhbfIntAbs])
  have hg := fhbfIntGain_ok j
  have hzd := fhbf_zext_sub_le Xf Xe D hD h.1 h.2.1
  have hze : ∀ k, |zext Xe k - zext [] k| ≤ A := by
    intro k
    have : zext ([] : List ℝ) k = 0 := by unfold zext; split <;> simp
    rw [this, sub_zero]
    exact fhbf_zext_abs_le Xe A hA h.2.2 k
  have hz0 : ∀ k : ℕ, firAt (fhbfTapsR j) (zstuff []) k = 0 := by
    intro k
    have : zstuff ([] : List ℝ) = fun _ => 0 := by
      funext n; unfold zstuff zext; split <;> [split <;> simp; rfl]
    rw [this, fhbf_firAt_zero]
  have hconv : ∀ k (hk : k < 2 * Xe.length),
      (hbfIntSpec fhbfExactOps (fhbfIntAbs j).1 (fhbfIntAbs j).2 Xe)[k]'(by rw [le]; exact hk) =
        firAt (fhbfTapsR j) (zstuff Xe) k :=
    fun k hk => intSpec_conv (fun x : ℝ => 1 / 2 * x) (fhbfTapsR j) Xe hm k hk
  refine ⟨by rw [lf, le, h.1], ?_, ?_⟩
  · intro k h1 h2
    have hk : k < 2 * Xf.length := lf ▸ h1
    have hk' : k < 2 * Xe.length := le ▸ h2
    have a := F.fhbf_int_stage_eps j Xf (A + D) (by positivity) h.bound_left k hk
    have b := fhbf_firAt_zstuff_sub_le (fhbfTapsR j) hm Xf Xe D hzd k
    rw [hconv k hk']
    have e : ∀ y p q : ℝ, y - q = (y - p) + (p - q) := by intros; ring
    rw [e _ (firAt (fhbfTapsR j) (zstuff Xf) k)]
    refine (abs_add_le _ _).trans ?_
    simp only [fhbfStep]
    have : max 1 (2 * fhbfTapNorm (fhbfTapsR j)) * D ≤ ((fhbfIntGainQ j : ℚ) : ℝ) * D :=
      mul_le_mul_of_nonneg_right hg hD
    linarith
  · intro y hy
    obtain ⟨k, hk, rfl⟩ := List.getElem_of_mem hy
    have hk' : k < 2 * Xe.length := le ▸ hk
    rw [hconv k hk']
    have b := fhbf_firAt_zstuff_sub_le (fhbfTapsR j) hm Xe [] A hze k
    rw [hz0, sub_zero] at b
    simp only [fhbfStep]
    have : max 1 (2 * fhbfTapNorm (fhbfTapsR j)) * A ≤ ((fhbfIntGainQ j : ℚ) : ℝ) * A :=
      mul_le_mul_of_nonneg_right hg hA
    linarith

theorem fhbfStep_nonneg {ε g : ℝ} (hε : 0 ≤ ε) (hg : 0 ≤ g) {p : ℝ × ℝ} (h1 : 0 ≤ p.1) (h2 : 0 ≤ p.2) :
    0 ≤ (fhbfStep ε g p).1 ∧ 0 ≤ (fhbfStep ε g p).2 := by
  simp only [fhbfStep]
  constructor <;> positivity

/-- **a chain of decimator stages** (`js` in application order, each from the zero history) -/
theorem fhbf_decChain_close (js : List ℕ) (p : ℝ × ℝ) (h1 : 0 ≤ p.1) (h2 : 0 ≤ p.2) (Xf Xe : List ℝ)
    (h : fhbfClose p.2 p.1 Xf Xe) :
    fhbfClose (fhbfDecChainErr js p).2 (fhbfDecChainErr js p).1
      (decChainSpec F.fhbfOps (js.map fhbfDecAbs) Xf) (decChainSpec fhbfExactOps (js.map fhbfDecAbs) Xe) := by
  induction js generalizing p Xf Xe with
  | nil => exact h
  | cons j js ih =>
    simp only [List.map_cons, fhbfDecChainErr]
    have hs := F.fhbf_dec_step j h2 h1 h
    obtain ⟨n1, n2⟩ := fhbfStep_nonneg (div_nonneg (fhbfDecConst_nonneg j) (by positivity : (0 : ℝ) ≤ 2 ^ 24))
      (fhbfDecGain_nonneg j) (p := p) h1 h2
    exact ih (fhbfStep (((fhbfDecConst j : ℚ) : ℝ) / 2 ^ 24) ((fhbfDecGainQ j : ℚ) : ℝ) p) n1 n2 _ _ hs

/-- **a chain of interpolator stages** -/
theorem fhbf_intChain_close (js : List ℕ) (p : ℝ × ℝ) (h1 : 0 ≤ p.1) (h2 : 0 ≤ p.2) (Xf Xe : List ℝ)
    (h : fhbfClose p.2 p.1 Xf Xe) :
    fhbfClose (fhbfIntChainErr js p).2 (fhbfIntChainErr js p).1
      (intChainSpec F.fhbfOps (js.map fhbfIntAbs) Xf) (intChainSpec fhbfExactOps (js.map fhbfIntAbs) Xe) := by
  induction js generalizing p Xf Xe with
  | nil => exact h
  | cons j js ih =>
    simp only [List.map_cons, fhbfIntChainErr]
    have hs := F.fhbf_int_step j h2 h1 h
    obtain ⟨n1, n2⟩ := fhbfStep_nonneg (div_nonneg (fhbfIntConst_nonneg j) (by positivity : (0 : ℝ) ≤ 2 ^ 24))
      (fhbfIntGain_nonneg j) (p := p) h1 h2
    exact ih (fhbfStep (((fhbfIntConst j : ℚ) : ℝ) / 2 ^ 24) ((fhbfIntGainQ j : ℚ) : ℝ) p) n1 n2 _ _ hs

end FlModel

end Idsp
