import IdspModel.Lemmas.Atan2Tab
/-! `atani` table, chunk 9 of 10: quotient fields 73728 … 81920 (complete range, evaluated by the kernel). -/
namespace Idsp

theorem atanTab9 : atanRun 73728 8193 = true := by decide +kernel

end Idsp
