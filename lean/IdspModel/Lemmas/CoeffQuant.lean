import IdspModel.Lemmas.CoeffBasic
import Mathlib.Algebra.Order.Floor.Ring
import Mathlib.Algebra.Order.Round
/-!
# `Biquad::from(&[[T;3];2])`: normalisation by `a0` and rounding to the nearest representable value
-/
namespace Idsp

/-- scale all six coefficients by a common factor -/
def scaleBA (c : ℝ) (ba : BA ℝ) : BA ℝ :=
  ((c * ba.1.1, c * ba.1.2.1, c * ba.1.2.2), (c * ba.2.1, c * ba.2.2.1, c * ba.2.2.2))

/-- over `ℝ` the five values handed to `quantize` are the quotients by `a0` -/
theorem biquadFromBa_eq {γ : Type} (q : ℝ → γ) (ba : BA ℝ) :
    biquadFromBa realOps q ba =
      (q (ba.1.1 / ba.2.1), q (ba.1.2.1 / ba.2.1), q (ba.1.2.2 / ba.2.1), q (ba.2.2.1 / ba.2.1),
       q (ba.2.2.2 / ba.2.1)) := by
  obtain ⟨⟨b0, b1, b2⟩, ⟨a0, a1, a2⟩⟩ := ba
  simp [biquadFromBa, div_eq_mul_inv]

/-- the arguments of `quantize` are unchanged by a common scale factor `c ≠ 0` (exact cancellation over `ℝ`) -/
theorem scale_div_cancel (c x a0 : ℝ) (hc : c ≠ 0) : (c * x) / (c * a0) = x / a0 :=
  mul_div_mul_left x a0 hc

theorem biquadFromBa_scale_aux {γ : Type} (q : ℝ → γ) (c : ℝ) (hc : c ≠ 0) (ba : BA ℝ) :
    biquadFromBa realOps q (scaleBA c ba) = biquadFromBa realOps q ba := by
  simp only [biquadFromBa_eq, scaleBA, scale_div_cancel _ _ _ hc]

/-! ### rounding -/

/-- Rust `f64::round`: nearest integer, ties away from zero -/
noncomputable def rustRound (x : ℝ) : ℤ := if 0 ≤ x then ⌊x + 1 / 2⌋ else -⌊-x + 1 / 2⌋

theorem floor_half_err (x : ℝ) : |((⌊x + 1 / 2⌋ : ℤ) : ℝ) - x| ≤ 1 / 2 := by
  have h1 := Int.floor_le (x + 1 / 2)
  have h2 := Int.lt_floor_add_one (x + 1 / 2)
  rw [abs_le]; constructor <;> linarith

theorem rustRound_err (x : ℝ) : |((rustRound x : ℤ) : ℝ) - x| ≤ 1 / 2 := by
  unfold rustRound
  split
  · exact floor_half_err x
  · have := floor_half_err (-x)
    push_cast
    rw [abs_le] at this ⊢
    constructor <;> linarith [this.1, this.2]

/-- any integer within `< 1` of another integer (as reals) differs by at most one … -/
theorem int_abs_le_one_of_lt_two {m n : ℤ} (h : |(m : ℝ) - n| < 2) : |m - n| ≤ 1 := by
  have : |m - n| < 2 := by exact_mod_cast h
  omega

/-- `rustRound x` is a nearest integer: no integer is closer to `x` -/
theorem rustRound_nearest (x : ℝ) (n : ℤ) : |((rustRound x : ℤ) : ℝ) - x| ≤ |(n : ℝ) - x| := by
  by_contra hlt
  rw [not_le] at hlt
  have he := rustRound_err x
  have h1 : |(n : ℝ) - rustRound x| < 1 := by
    have := abs_sub_le (n : ℝ) x (rustRound x)
    rw [abs_sub_comm x] at this
    linarith
  have h2 : |n - rustRound x| < 1 := by exact_mod_cast h1
  have h3 : n = rustRound x := by have := abs_lt.mp h2; omega
  rw [h3] at hlt
  exact lt_irrefl _ hlt

/-- for ANY rounding-to-nearest function: inputs less than 1 apart round to integers at most 1 apart -/
theorem round_close (r : ℝ → ℤ) (hr : ∀ x, |((r x : ℤ) : ℝ) - x| ≤ 1 / 2) (x y : ℝ) (h : |x - y| < 1) :
    |r x - r y| ≤ 1 := by
  apply int_abs_le_one_of_lt_two
  have hx := hr x
  have hy := hr y
  rw [abs_le] at hx hy
  rw [abs_lt] at h ⊢
  constructor <;> linarith [hx.1, hx.2, hy.1, hy.2, h.1, h.2]

/-- the integer `Coefficient::quantize` with `Q` fractional bits: `round(v · 2^Q)` -/
noncomputable def quantizeQ (Q : Nat) (v : ℝ) : ℤ := rustRound (v * 2 ^ Q)

theorem quantizeQ_err_aux (Q : Nat) (v : ℝ) : |((quantizeQ Q v : ℤ) : ℝ) - v * 2 ^ Q| ≤ 1 / 2 :=
  rustRound_err _

theorem quantizeQ_close_aux (Q : Nat) (v v' : ℝ) (h : |v - v'| < 1 / 2 ^ Q) :
    |quantizeQ Q v - quantizeQ Q v'| ≤ 1 := by
  apply round_close rustRound rustRound_err
  have hp : (0 : ℝ) < 2 ^ Q := by positivity
  rw [← sub_mul, abs_mul, abs_of_pos hp]
  rw [lt_div_iff₀ hp] at h
  exact h

end Idsp
