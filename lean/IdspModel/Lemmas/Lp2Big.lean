import IdspModel.Lemmas.Lp2Phase2
import IdspModel.Lemmas.Lp2Pow
/-!
# Second-order lowpass: a large step, abstract centred sequences — the approach phase ends, with all bounds

`lp2_exit`: the approach phase (error above the threshold) ends after finitely many steps (the potential
`b·e + 2^32·max(−s,0)` strictly decreases).  `lp2_exit_facts`: it lasts more than `N` steps, during it the error and
the velocity stay in explicit ranges, and at its end the error is in `[thr − 2·ST, thr)`.
`lp2_exit_V`: the quadratic form at the end of the phase is below every level that it is below after `N` steps.
-/
namespace Idsp
set_option linter.unusedVariables false
set_option linter.unusedSectionVars false

section
variable {a b U : Int} (ha : 0 < a) (hb0 : 0 < b) (hb1 : b ≤ 2147483648) (hU : 0 ≤ U)
  (e s : Nat → Int) (Emax : Int)
  (hrel : ∀ n, U ≤ a * e n → e n ≤ Emax → Lp2Rel a b U (e n) (s n) (e (n + 1)) (s (n + 1)))
  (S0 ST g thr : Int) (h00 : -S0 ≤ s 0) (h01 : s 0 ≤ S0) (hS0 : 0 ≤ S0) (hg0 : 0 ≤ g)
  (hEmax : b * e 0 + 4294967296 * S0 ≤ b * Emax)
  (hST : a * Emax + U ≤ b * ST) (hS0T : S0 ≤ ST)
  (hg : 2 * a * Emax + 2 * U ≤ 4294967296 * g) (hthr : U + 1 ≤ a * thr)
include ha hb0 hb1 hU hrel h00 h01 hS0 hg0 hEmax hST hS0T hg hthr

theorem lp2_exit (hbb : 4294967296 < 2 * b ^ 2) :
    ∃ n1 : Nat, (∀ j, j < n1 → thr ≤ e j) ∧ e n1 < thr := by
  classical
  by_cases hex : ∃ n, e n < thr
  · exact ⟨Nat.find hex, fun j hj => not_lt.mp (Nat.find_min hex hj), Nat.find_spec hex⟩
  · exfalso
    have hall : ∀ n, thr ≤ e n := fun n => not_lt.mp (fun h => hex ⟨n, h⟩)
    have hUe : ∀ n, U ≤ a * e n := fun n => by
      have := mul_le_mul_of_nonneg_left (hall n) (le_of_lt ha); omega
    have hpk := fun n => lp2_phase2 ha hb0 hb1 hU e s Emax hrel S0 ST g h00 h01 hS0 hg0 hEmax hST hS0T hg n
      (fun j _ => hUe j)
    -- the potential strictly decreases
    have hdec : ∀ n, b * e (n + 1) + 4294967296 * max (-(s (n + 1))) 0
        ≤ b * e n + 4294967296 * max (-(s n)) 0 - 1 := by
      intro n
      obtain ⟨-, -, -, -, hmx⟩ := hpk n
      obtain ⟨u, hu, h1, h2⟩ := hrel n (hUe n) hmx
      obtain ⟨hu0, hu1⟩ := abs_le_of_sq_le_sq' hu hU
      have hsum := (hrel n (hUe n) hmx).sum
      have hMb : (0 : Int) ≤ 4294967296 - 2 * b := by omega
      have hae : U + 1 ≤ a * e n := by
        have := mul_le_mul_of_nonneg_left (hall n) (le_of_lt ha); omega
      rcases le_or_gt 0 (s n) with hs | hs
      · -- non-negative velocity: the next one is at least 1
        have hm : max (-(s n)) 0 = 0 := max_eq_right (by omega)
        have hs' : 1 ≤ s (n + 1) := by
          have h3 : 0 ≤ (4294967296 - 2 * b) * s n := mul_nonneg hMb hs
          have : 0 < 4294967296 * s (n + 1) := by nlinarith
          by_contra hc
          have hc' : s (n + 1) ≤ 0 := by omega
          have : 4294967296 * s (n + 1) ≤ 0 := by linarith
          linarith
        have hm' : max (-(s (n + 1))) 0 = 0 := max_eq_right (by omega)
        rw [hm, hm', hsum]; nlinarith
      · -- negative velocity: its magnitude contracts
        have hm : max (-(s n)) 0 = -(s n) := max_eq_left (by omega)
        have hneg : 4294967296 * (-(s (n + 1))) ≤ (4294967296 - 2 * b) * (-(s n)) := by nlinarith
        have hm'le : 4294967296 * max (-(s (n + 1))) 0 ≤ (4294967296 - 2 * b) * (-(s n)) := by
          rcases le_total (-(s (n + 1))) 0 with h | h
          · rw [max_eq_right h]; have := mul_nonneg hMb (show 0 ≤ -(s n) by omega); omega
          · rw [max_eq_left h]; exact hneg
        have hm'0 : 0 ≤ max (-(s (n + 1))) 0 := le_max_right _ _
        have hs'm : -(max (-(s (n + 1))) 0) ≤ s (n + 1) := by have := le_max_left (-(s (n + 1))) 0; omega
        rw [hm]
        generalize max (-(s (n + 1))) 0 = m' at *
        -- X := (b+M)m' − (M−b)(−s) ≤ −1
        have hX : (b + 4294967296) * m' ≤ (4294967296 - b) * (-(s n)) - 1 := by
          by_contra hc
          have hc' : (4294967296 - b) * (-(s n)) ≤ (b + 4294967296) * m' := by omega
          have h5 := mul_le_mul_of_nonneg_left hm'le (show (0 : Int) ≤ b + 4294967296 by omega)
          have h6 : 2 * b ^ 2 * 1 ≤ 2 * b ^ 2 * (-(s n)) := mul_le_mul_of_nonneg_left (by omega) (by positivity)
          nlinarith
        rw [hsum]; nlinarith
    -- hence it becomes negative, but it is at least b·thr > 0
    have hlin : ∀ n : Nat, b * e n + 4294967296 * max (-(s n)) 0
        ≤ b * e 0 + 4294967296 * max (-(s 0)) 0 - n := by
      intro n
      induction n with
      | zero => simp
      | succ n ih => have := hdec n; push_cast; linarith
    have hthr1 : 1 ≤ thr := by
      by_contra hc
      have : a * thr ≤ 0 := mul_nonpos_of_nonneg_of_nonpos (le_of_lt ha) (by omega)
      omega
    have hpos : ∀ n, 0 < b * e n + 4294967296 * max (-(s n)) 0 := by
      intro n
      have h1 : 0 < b * e n := mul_pos hb0 (by have := hall n; omega)
      have h2 : 0 ≤ max (-(s n)) 0 := le_max_right _ _
      positivity
    have := hlin (b * e 0 + 4294967296 * max (-(s 0)) 0).toNat
    have := hpos (b * e 0 + 4294967296 * max (-(s 0)) 0).toNat
    have := hpos 0
    omega

theorem lp2_exit_facts (J N : Nat) (hJN : J ≤ N)
    (hlen : thr ≤ e 0 - 2 * J * S0 - J ^ 2 * g - 2 * (N - J) * ST)
    (n1 : Nat) (hph : ∀ j, j < n1 → thr ≤ e j) (hend : e n1 < thr) :
    N < n1 ∧ (∀ j, j < n1 → e j ≤ Emax ∧ -S0 ≤ s j ∧ s j ≤ ST ∧
        Lp2Rel a b U (e j) (s j) (e (j + 1)) (s (j + 1))) ∧
      thr - 2 * ST ≤ e n1 ∧ -S0 ≤ s n1 ∧ s n1 ≤ ST := by
  have hthr' : U ≤ a * thr := by omega
  have hUe : ∀ j, j < n1 → U ≤ a * e j := fun j hj => by
    have := mul_le_mul_of_nonneg_left (hph j hj) (le_of_lt ha); omega
  have hN : N < n1 := by
    by_contra hc
    have := (lp2_phase2_len ha hb0 hb1 hU e s Emax hrel S0 ST g thr h00 h01 hS0 hg0 hEmax hST hS0T hg hthr'
      J N hJN hlen n1 (by omega)).1
    omega
  have hpk := fun n (hn : n ≤ n1) => lp2_phase2 ha hb0 hb1 hU e s Emax hrel S0 ST g h00 h01 hS0 hg0 hEmax hST hS0T hg n
      (fun j hj => hUe j (by omega))
  refine ⟨hN, fun j hj => ?_, ?_, ?_, ?_⟩
  · obtain ⟨⟨m, hm0, hmS, hms, -⟩, hT, -, -, hmx⟩ := hpk j (by omega)
    exact ⟨hmx, by omega, hT, hrel j (hUe j hj) hmx⟩
  · obtain ⟨-, hT, -, -, hmx⟩ := hpk (n1 - 1) (by omega)
    obtain ⟨-, hT1, -, -, -⟩ := hpk n1 (le_refl _)
    have hsum := (hrel (n1 - 1) (hUe (n1 - 1) (by omega)) hmx).sum
    rw [show n1 - 1 + 1 = n1 by omega] at hsum
    have := hph (n1 - 1) (by omega)
    rw [hsum]; omega
  · obtain ⟨⟨m, hm0, hmS, hms, -⟩, -, -, -, -⟩ := hpk n1 (le_refl _)
    omega
  · exact (hpk n1 (le_refl _)).2.1

end

/-- decay of the quadratic form along the approach phase -/
theorem lp2_exit_V {a b U : Int} (ha : 0 < a) (hD : 0 ≤ lp2Disc a b) (hb0 : 0 < b) (hb1 : b ≤ 2147483648)
    (e s : Nat → Int) (n1 : Nat)
    (hrel : ∀ j, j < n1 → Lp2Rel a b U (e j) (s j) (e (j + 1)) (s (j + 1)))
    (tn td K : Int) (htn : 0 < tn) (htd : 0 < td) (hK : 0 ≤ K)
    (hKU : td * (tn + td) * (4 * 4294967296 * U ^ 2) ≤ tn * td * 4294967296 ^ 2 * K)
    (hBA : tn * (tn + td) * (4294967296 * (4294967296 + 2 * a - 2 * b)) ≤ tn * td * 4294967296 ^ 2) :
    (∀ n, n ≤ n1 →
      (tn * td * 4294967296 ^ 2) ^ n * lp2Q a b (e n) (s n)
        ≤ (tn * (tn + td) * (4294967296 * (4294967296 + 2 * a - 2 * b))) ^ n * lp2Q a b (e 0) (s 0)
          + n * K * (tn * td * 4294967296 ^ 2) ^ n) ∧
    (∀ L n0, (tn * td * 4294967296 ^ 2) * K
        ≤ (tn * td * 4294967296 ^ 2 - tn * (tn + td) * (4294967296 * (4294967296 + 2 * a - 2 * b))) * L →
      n0 ≤ n1 → lp2Q a b (e n0) (s n0) ≤ L → lp2Q a b (e n1) (s n1) ≤ L) := by
  have hstep : ∀ n, n < n1 → (tn * td * 4294967296 ^ 2) * lp2Q a b (e (n + 1)) (s (n + 1))
      ≤ (tn * (tn + td) * (4294967296 * (4294967296 + 2 * a - 2 * b))) * lp2Q a b (e n) (s n)
        + (tn * td * 4294967296 ^ 2) * K := by
    intro n hn
    obtain ⟨u, hu, h1, h2⟩ := hrel n hn
    have h := lp2Q_iss_t ha hD tn td (e n) (s n) (e (n + 1)) (s (n + 1)) u h1 h2
    have h3 : td * (tn + td) * (4 * 4294967296 * u ^ 2) ≤ td * (tn + td) * (4 * 4294967296 * U ^ 2) :=
      mul_le_mul_of_nonneg_left (by linarith) (by positivity)
    linarith
  have hA : 0 < tn * td * 4294967296 ^ 2 := by positivity
  have hB0 : 0 ≤ tn * (tn + td) * (4294967296 * (4294967296 + 2 * a - 2 * b)) := by
    have : (0 : Int) ≤ 4294967296 + 2 * a - 2 * b := by omega
    positivity
  constructor
  · intro n hn
    exact lp2_decay_n hA hB0 hBA hK (fun n => lp2Q a b (e n) (s n)) n1 hstep n hn
  · intro L n0 hL hn0 h0
    have := lp2_level_inv hA hB0 hL (fun n => lp2Q a b (e n) (s n)) n1 hstep n0 h0 (n1 - n0) (by omega)
    rwa [show n0 + (n1 - n0) = n1 by omega] at this
end Idsp
