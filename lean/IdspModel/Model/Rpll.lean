import IdspModel.Rust
/-! Model of `src/rpll.rs`. -/
namespace Idsp

structure RPLL where
  dt2 : Int  -- u32
  x : Int    -- i32
  ff : Int   -- u32
  f : Int    -- u32
  y : Int    -- i32
deriving Repr, DecidableEq

def RPLL.new (dt2 : Int) : RPLL := ⟨dt2, 0, 0, 0, 0⟩

def RPLL.update (m : Mode) (s : RPLL) (input : Option Int) (sf sp : Int) : R (RPLL × Int × Int) := do
  dbgAssert m "rpll.rs:53 debug_assert!(shift_frequency >= self.dt2)" (decide (sf ≥ s.dt2))
  dbgAssert m "rpll.rs:54 debug_assert!(shift_phase >= self.dt2)" (decide (sp ≥ s.dt2))
  let y := wrapI 32 (s.y + wrapI 32 s.f)
  match input with
  | none => .ok ({ s with y := y }, y, s.f)
  | some x => do
    let dx := wrapI 32 (x - s.x)
    -- self.ff as u64 * dx as u64   (dx sign-extended then reinterpreted)
    let p64 ← arithU m 64 "rpll.rs:63 ff as u64 * dx as u64" (s.ff * wrapU 64 dx)
    let sfm1 ← arithU m 32 "rpll.rs:66 shift_frequency - 1" (sf - 1)
    let bias ← shlU m 32 "rpll.rs:66 1u32 << (shift_frequency - 1)" 1 sfm1
    let t ← arithU m 64 "rpll.rs:66 p_sig_64 + bias" (p64 + bias)
    let t2 ← shrC m 64 "rpll.rs:66 >> shift_frequency" t sf
    let pSig := wrapU 32 t2
    let e0 ← arithU m 32 "rpll.rs:68 32 + self.dt2" (32 + s.dt2)
    let e ← arithU m 32 "rpll.rs:68 32 + self.dt2 - shift_frequency" (e0 - sf)
    let pRef ← shlU m 32 "rpll.rs:68 1u32 << (..)" 1 e
    let ff := wrapU 32 (s.ff + wrapU 32 (pRef - pSig))
    -- dt = (x.wrapping_neg() & ((1 << dt2) - 1)) as u32
    let one ← shlI m 32 "rpll.rs:72 1 << self.dt2" 1 s.dt2
    let mask ← arithI m 32 "rpll.rs:72 (1 << self.dt2) - 1" (one - 1)
    let dt := Int.ofNat ((wrapU 32 (-x)).toNat &&& (wrapU 32 mask).toNat)
    let fs ← shrC m 32 "rpll.rs:74 self.f >> self.dt2" s.f s.dt2
    let yRef := wrapI 32 (fs * dt)
    let sh ← arithU m 32 "rpll.rs:76 shift_phase - self.dt2" (sp - s.dt2)
    let dy ← shrC m 32 "rpll.rs:76 >> (shift_phase - self.dt2)" (wrapI 32 (yRef - y)) sh
    let f := wrapU 32 (ff + wrapU 32 dy)
    .ok ({ s with x := x, ff := ff, f := f, y := y }, y, f)

end Idsp
