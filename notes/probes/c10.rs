use idsp::*;
fn lcg(s: &mut u64) -> u64 { *s = s.wrapping_mul(6364136223846793005).wrapping_add(1442695040888963407); *s >> 11 }
fn main() {
    let mut s = 5u64; let mut bad = 0; let mut worst = (0f64, 0f64); let mut cases = 0;
    for it in 0..400 {
        let kmax = ((1u64 << 31) as f64 / 2f64.sqrt()) as u64;
        let k = match it % 6 { 0 => 1 << 16, 1 => kmax, 2 => (1 << 16) + 1, _ => { let e = 16 + lcg(&mut s) % 15; ((1u64 << e) + lcg(&mut s) % (1u64 << e)).min(kmax) } } as f64;
        let cfg = [ (k * k / 4294967296.0) as i32, -(k * 2f64.sqrt()) as i32 ];
        let lim = 1i64 << 30;
        let a0 = (lcg(&mut s) % (2 * lim as u64 + 1)) as i64 - lim; let a1 = match it % 4 { 0 => lim, 1 => -lim, _ => (lcg(&mut s) % (2 * lim as u64 + 1)) as i64 - lim };
        let mut l = Lowpass2::default();
        // settle at a0 first
        let n = (40.0 * 4294967296.0 / k) as usize + 100;
        if n > 30_000_000 { continue; }
        for _ in 0..n { l.update(a0 as i32, &cfg); }
        let y0 = l.get() as i64;
        let (mut mx, mut mn) = (i64::MIN, i64::MAX);
        for _ in 0..n { let y = l.update(a1 as i32, &cfg) as i64; mx = mx.max(y); mn = mn.min(y); }
        let yend = l.get() as i64;
        let tol = (4.0 * 4294967296.0 / k) as i64 + 4;
        let step = (a1 - y0).abs().max(1) as f64;
        let over = if a1 >= y0 { (mx - a1) as f64 / step } else { (a1 - mn) as f64 / step };
        let es = (yend - a1).abs();
        cases += 1; worst.0 = worst.0.max(es as f64 / tol as f64); if step > 100.0 * tol as f64 { worst.1 = worst.1.max(over); }
        if es > tol || (step > 100.0 * tol as f64 && over > 0.05) || (y0 - a0).abs() > tol { bad += 1; println!("BAD k={} a0={} a1={} y0={} yend={} tol={} over={:.4}", k, a0, a1, y0, yend, tol, over); }
    }
    println!("cases {} bad {} worst settle/tol {} overshoot {}", cases, bad, worst.0, worst.1);
}
