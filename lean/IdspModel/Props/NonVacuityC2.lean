import IdspModel.Props.NonVacuityC1
import IdspModel.Props.C20
import IdspModel.Props.C20b
/-!
# Non-vacuity audit, part C (second half): C20, C20b

Same conventions as `NonVacuityC1.lean` (whose `nvC_F`, `nvC_block`, `nvC_dec_adm`, `nvC_int_adm` are reused).
-/
namespace Idsp
open Real

/-! ## C20 -/

/-- non-vacuity of `c20_abs_sqr_log2`: one component `i32::MIN`, the other not -/
example : ∃ re im : Int, inI 32 re = true ∧ inI 32 im = true ∧ ¬ (re = -2 ^ 31 ∧ im = -2 ^ 31) :=
  ⟨-2 ^ 31, 5, by decide, by decide, by decide⟩

/-- non-vacuity of `c20_cmul` including both antecedents of its conclusion: the factor `o = -2^15` is an `i16` -/
example : ∃ re im o : Int, inI 32 re = true ∧ inI 32 im = true ∧ inI 32 o = true ∧ inI 16 o = true :=
  ⟨2 ^ 31 - 1, -2 ^ 31, -2 ^ 15, by decide, by decide, by decide, by decide⟩

/-- non-vacuity of `c20_cmul_complex`: three components `i32::MIN`, the fourth not -/
example : ∃ a b c d : Int, inI 32 a = true ∧ inI 32 b = true ∧ inI 32 c = true ∧ inI 32 d = true ∧
    ¬ (a = -2 ^ 31 ∧ b = -2 ^ 31 ∧ c = -2 ^ 31 ∧ d = -2 ^ 31) :=
  ⟨-2 ^ 31, -2 ^ 31, -2 ^ 31, 7, by decide, by decide, by decide, by decide, by decide⟩

/-- non-vacuity of `c20_pll`: the state reached from `default()` after the inputs `10^6`, `2·10^6` with `k = 2^24`
    (all five fields non-zero), next input `some 3000000` -/
example : ∃ (s : PLL) (x : Option Int), s.inRange ∧ (∀ v, x = some v → inI 32 v = true) :=
  ⟨(PLL.default.update (some 1000000) (2 ^ 24)).update (some 2000000) (2 ^ 24), some 3000000, by decide,
    by intro v hv; cases hv; decide⟩

example : (PLL.default.update (some 1000000) (2 ^ 24)).update (some 2000000) (2 ^ 24) =
    ⟨2000000, 31097, 23300, 66846736777216, 166725664374784⟩ := by decide +kernel

/-- non-vacuity of `c20_rpll`: the locked state of the C07 example (`dt2 = 8`, `ff ≈ 2^40/990`), next timestamp
    `990` counts later, shifts `23`/`22` -/
example : ∃ (s : RPLL) (x sf sp : Int), s.inRange ∧ inI 32 x = true ∧ 0 ≤ s.dt2 ∧ s.dt2 ≤ 30 ∧ s.dt2 < sf ∧
    sf ≤ 32 ∧ s.dt2 ≤ sp ∧ sp - s.dt2 < 32 ∧ 0 ≤ wrapI 32 (x - s.x) :=
  ⟨⟨8, 1000, 1110613570, 1110617805, 5⟩, 1990, 23, 22, by unfold RPLL.inRange; decide, by decide, by decide,
    by decide, by decide, by decide, by decide, by decide, by decide⟩

/-- the crate's documented shifts `16`/`15` with `dt2 = 8` satisfy the same contract, also across a timestamp wrap
    (`x − self.x` taken modulo `2^32`); the state is an arbitrary in-range one, not claimed reachable -/
example : ∃ (s : RPLL) (x sf sp : Int), s.inRange ∧ inI 32 x = true ∧ 0 ≤ s.dt2 ∧ s.dt2 ≤ 30 ∧ s.dt2 < sf ∧
    sf ≤ 32 ∧ s.dt2 ≤ sp ∧ sp - s.dt2 < 32 ∧ 0 ≤ wrapI 32 (x - s.x) :=
  ⟨⟨8, 2 ^ 31 - 100, 274877, 70368744, -77⟩, -2 ^ 31 + 3900, 16, 15, by unfold RPLL.inRange; decide, by decide,
    by decide, by decide, by decide, by decide, by decide, by decide, by decide⟩

/-- non-vacuity of `c20_cic_interpolate` (its hypothesis is that a tick-driven run PANICS): `i16`, the documented
    order 3 / rate 7 (gain `8^3 = 512`), constant input `100` (`100·512 > i16::MAX`), 30 calls -/
example : ∃ (w n rate : Nat) (v : Nat → Int) (t : Nat) (p : Panic), rate < 2 ^ 32 ∧
    Cic.interpAuto .checked w (Cic.new n rate) v t = .error p :=
  ⟨16, 3, 7, fun _ => 100, 30, ⟨"cic.rs:141 *i += x"⟩, by norm_num, by decide +kernel⟩

/-! ### C20: skipped
* independent range facts: `c20_cossin`, `c20_atan2`, `c20_polar`, `c20_lowpass1`, `c20_saturating_scale`, `c20_dsm`,
  `c20_sweep_next`;
* `c20_macc`: same hypotheses as `macc_exact` (C05 section); `c20_mul_div`: as `mul_scaled_exact` (C05 section);
* no hypotheses: `c20_neg_lowpass2`, `c20_neg_dsm8`, `c20_neg_biquad_partial_sum`. -/

/-! ## C20b -/



/-! ### a non-trivial instance of the "exact recursion fits" hypotheses of `c20b_cic_interpolate_fits`
(the development contained none; the hypotheses quantify over ALL times `m i : Int`, so a proof is needed) -/

theorem nvC_sumTo_stable (K : Nat) (f : Nat → Int) (h : ∀ i, K ≤ i → f i = 0) (n : Nat) (hn : K ≤ n) :
    sumTo n f = sumTo K f := by
  induction n, hn using Nat.le_induction with
  | base => rfl
  | succ n hn ih => simp only [sumTo, ih, h n hn, Int.add_zero]

/-- second backward difference of the constant low-rate input `7` (extended by zero to negative times): `7, -7, 0, …` -/
def nvC_d2 : Int → Int := opPow (seqD 1) 2 (ext fun _ => 7)

theorem nvC_d2_zero (m : Int) (hm : 2 ≤ m) : nvC_d2 m = 0 := by
  simp only [nvC_d2, opPow, seqD, ext]
  split_ifs <;> omega

/-- the held difference at the high rate (`R = 3 + 1 = 4`) -/
def nvC_g : Int → Int := seqHold (3 + 1) nvC_d2

theorem nvC_g_zero (t : Nat) (ht : 8 ≤ t) : nvC_g (t : Int) = 0 := by
  simp only [nvC_g, seqHold]
  apply nvC_d2_zero
  push_cast
  omega

theorem nvC_s1_eq (s : Nat) : seqS nvC_g (s : Int) = sumTo (s + 1) (fun t => nvC_g t) := by
  simp only [seqS]
  rw [if_neg (by omega), Int.toNat_natCast]

theorem nvC_s1_zero (s : Nat) (hs : 7 ≤ s) : seqS nvC_g (s : Int) = 0 := by
  rw [nvC_s1_eq, nvC_sumTo_stable 8 _ nvC_g_zero _ (by omega)]
  decide +kernel

theorem nvC_fits_comb : ∀ (m : Int) (j : Nat), 1 ≤ j → j ≤ 2 →
    inI 16 (opPow (seqD 1) j (ext fun _ => 7) m) = true := by
  intro m j h1 h2
  have hj : j = 1 ∨ j = 2 := by omega
  rcases hj with rfl | rfl <;> simp only [opPow, seqD, ext] <;> split_ifs <;> decide

theorem nvC_fits_integ : ∀ (i : Int) (j : Nat), 1 ≤ j → j ≤ 2 →
    inI 16 (opPow seqS j (seqHold (3 + 1) (opPow (seqD 1) 2 (ext fun _ => 7))) i) = true := by
  intro i j h1 h2
  show inI 16 (opPow seqS j nvC_g i) = true
  have t1 : ∀ n, n < 9 → inI 16 (sumTo n (fun t => nvC_g t)) = true := by decide +kernel
  have t2 : ∀ n, n < 8 → inI 16 (sumTo n (fun s => seqS nvC_g s)) = true := by decide +kernel
  have hj : j = 1 ∨ j = 2 := by omega
  rcases hj with rfl | rfl
  · show inI 16 (seqS nvC_g i) = true
    unfold seqS
    split_ifs with hneg
    · decide
    · by_cases hn : i.toNat + 1 < 9
      · exact t1 _ hn
      · rw [nvC_sumTo_stable 8 _ nvC_g_zero _ (by omega)]
        exact t1 8 (by decide)
  · show inI 16 (seqS (seqS nvC_g) i) = true
    rw [seqS]
    split_ifs with hneg
    · decide
    · by_cases hn : i.toNat + 1 < 8
      · exact t2 _ hn
      · rw [nvC_sumTo_stable 7 _ nvC_s1_zero _ (by omega)]
        exact t2 7 (by decide)

/-- non-vacuity of `c20b_cic_interpolate_fits`: `i16`, order `N = 2`, rate `3` (`R = 4`, gain 16), constant
    low-rate input `7` — the combs see `7, -7, 0, …`, the first integrator ramps `7, 14, 21, 28, 21, 14, 7, 0, …`,
    the second one settles at `7·16 = 112` -/
example : ∃ (w n rate : Nat) (v : Nat → Int), rate < 2 ^ 32 ∧
    (∀ (m : Int) (j : Nat), 1 ≤ j → j ≤ n → inI w (opPow (seqD 1) j (ext v) m) = true) ∧
    (∀ (i : Int) (j : Nat), 1 ≤ j → j ≤ n →
      inI w (opPow seqS j (seqHold (rate + 1) (opPow (seqD 1) n (ext v))) i) = true) :=
  ⟨16, 2, 3, fun _ => 7, by norm_num, nvC_fits_comb, nvC_fits_integ⟩

/-- the settled value is really reached (the instance is not the zero sequence): output 8 of the run is `112` -/
example : opPow seqS 2 (seqHold (3 + 1) (opPow (seqD 1) 2 (ext fun _ => 7))) 8 = 112 := by decide +kernel


/-- non-vacuity of `c20b_overflowing_sub` (= hypotheses of `overflowing_sub_exact`), `c20b_unwrapper_update`
    (= `unwrapper_step`), `c20b_accu_next` (= `accu_nth`): see the C17 section of `NonVacuityC1.lean`; restated here
    for the three together -/
example : (∃ (w : Nat) (y x : Int), 0 < w ∧ inI w y = true ∧ inI w x = true) ∧
    (∃ (wq wp : Nat) (x : Int), 0 < wp ∧ wp ≤ wq ∧ inI wp x = true) ∧
    (∃ (w : Nat) (start : Int), 0 < w ∧ inI w start = true) :=
  ⟨⟨32, -0x80000000, 1, by decide, by decide, by decide⟩, ⟨64, 32, -2 ^ 31, by decide, by decide, by decide⟩,
    ⟨32, 2 ^ 31 - 1, by decide, by decide⟩⟩

/-- non-vacuity of `c20b_cic_decimate`: `i16`, extreme samples -/
example : ∃ (w : Nat) (xs : List Int), 0 < w ∧ ∀ x ∈ xs, inI w x = true :=
  ⟨16, [100, -32768, 32767, 5, -1, 12345, 0, 77, 9], by decide, by decide⟩

/-- non-vacuity of `c20b_cic_gain`: `i16`, order 3, rate 7 (gain `8^3 = 512`) -/
example : ∃ (w : Nat) (s : Cic), 0 < w ∧ inI w s.rate = true ∧ inI w (s.rate + 1) = true ∧
    inI w ((s.rate + 1) ^ s.order) = true :=
  ⟨16, Cic.new 3 7, by decide, by decide, by decide, by decide⟩

/-- non-vacuity of `c20b_lowpass2_any_input_pm2p29`: `k = 2^24` (`[65536, -23726566]`), state `set(-2^29)`,
    an alternating full-range input (last conjunct added: the list is not empty) -/
example : ∃ (k a b xo : Int) (st : Int × Int) (xs : List Int), Lp2Butter k a b ∧ -536870912 ≤ xo ∧ xo ≤ 536870912 ∧
    Lp2Settled a b xo st ∧ (∀ x ∈ xs, -536870912 ≤ x ∧ x ≤ 536870912) ∧ xs ≠ [] := by
  have hB : Lp2Butter 16777216 65536 23726566 := by constructor <;> norm_num
  exact ⟨16777216, 65536, 23726566, -536870912, (lpSet (-536870912), 0), [536870912, -536870912, 123, 536870912],
    hB, by norm_num, by norm_num, lp2_reset_settled hB.adm _ (by decide), by decide, by simp⟩

/-- non-vacuity of `c20b_lockin_step`: zero state, sample `10^6`, phase `2^29` (`π/4`), `k = 2^24` -/
example : ∃ (a0 a1 b0 b1 x p k0 k1 c s : Int) (r1 r2 : Int × Int × Int), inI 32 p = true ∧ inI 32 x = true ∧
    cossin .checked p = .ok (c, s) ∧ lp2Update .checked a0 a1 (x * c / 2 ^ 31) k0 k1 = .ok r1 ∧
    lp2Update .checked b0 b1 (x * s / 2 ^ 31) k0 k1 = .ok r2 :=
  ⟨0, 0, 0, 0, 1000000, 2 ^ 29, 65536, -23726566, 1518488231, 1518478556, (92681142272, 92681142272, 10),
    (92680486912, 92680486912, 10), by decide, by decide, by decide +kernel, by decide +kernel, by decide +kernel⟩

/-- non-vacuity of `c20b_lockin_run`: the witness run of C11rec (`k = 2^20`, `A = 2^23`, `θ = π/4`, `F = 2^30`) -/
example : ∃ (k a b : Int) (A θ : ℝ) (p0 F : Int) (x p : ℕ → Int), Lp2Butter k a b ∧ 2 ^ 20 ≤ k ∧ k ≤ 2 ^ 25 ∧
    0 ≤ A ∧ A ≤ 2 ^ 30 ∧ LkSetup A θ p0 F x p :=
  ⟨1048576, 256, 1482910, 2 ^ 23, π / 4, 0, 2 ^ 30, wX, wP, wit_butter, by norm_num, by norm_num, by norm_num,
    by norm_num, wit_setup⟩

/-- non-vacuity of `c20b_dsm_from_state`: the `K = 3` state of C16 with memories at their extreme values -/
example : ∃ s : Dsm, s.a.length ≤ 7 ∧ DsmInv s :=
  ⟨⟨[0xffffffff, 0x80000000, 1], [1, -1, -128]⟩, by decide, by rw [dsmInv_explicit]; decide⟩

/-- non-vacuity of `c20b_dsm_upto8`: the reachable `K = 8` state from which the ninth input overflows -/
example : ∃ s : Dsm, 1 ≤ s.a.length ∧ s.a.length ≤ 8 ∧ DsmInv s :=
  ⟨dsmK8State, by decide, by decide, dsm_k8_overflow_witness.2.1⟩

/-- non-vacuity of `c20b_hbfint_call`: an integer `HbfInt` with two taps `[3, -1]` and buffer `2·2 − 1 + 4 = 7`
    (`block_size().1 = 8`), after a block of 3 items, at a full block of 4 items -/
example : ∃ (o : Ops Int) (d : HbfInt Int) (pre : List (List Int)) (b : List Int) (d' : HbfInt Int),
    d.WF ∧ (∀ c ∈ pre, d.Adm c) ∧ d.Adm b ∧ d' = (d.run o pre).1 := by
  refine ⟨intOps, HbfInt.new intOps 7 [3, -1], [[5, -7, 11]], [1, 2, 3, 4], _,
    HbfInt.new_wf _ _ _ (by simp) (by simp), ?_, ?_, rfl⟩
  · intro c hc; simp only [List.mem_singleton] at hc; subst hc; unfold HbfInt.Adm; decide
  · unfold HbfInt.Adm; decide

/-- non-vacuity of `c20b_hbfdec_cascade_run`: the default f32-tap cascade at depth 2 under the round-up binary32
    model, one block of 8 samples (C15Fc section; last conjunct added: the run is not empty) -/
example : ∃ (c : HbfDecCascade ℝ) (bs : List (List ℝ)), c.WF ∧ (∀ b ∈ bs, c.Adm b) ∧ bs ≠ [] :=
  ⟨fhbfDecCascade nvC_F.fhbfOps 2, [nvC_block], fhbfDecCascade_wf _ 2 (by norm_num), nvC_dec_adm _, by simp⟩

/-- non-vacuity of `c20b_hbfint_cascade_run`: likewise for the interpolating cascade -/
example : ∃ (c : HbfIntCascade ℝ) (bs : List (List ℝ)), c.WF ∧ (∀ b ∈ bs, c.Adm b) ∧ bs ≠ [] :=
  ⟨fhbfIntCascade nvC_F.fhbfOps 2, [nvC_block], fhbfIntCascade_wf _ 2 (by norm_num), nvC_int_adm _, by simp⟩

/-- non-vacuity of `c20b_biquad_update4`: `i8`/Q2.6, the generic coefficient set of the `update::<5>` example of
    the file -/
example : ∃ (w q : Nat) (c : BiquadCfg) (x0 x1 x2 y1 y2 : Int), 0 < w ∧ q ≤ w ∧ c.inRange w ∧ c.aligned w q ∧
    inI w x0 = true ∧ inI w x1 = true ∧ inI w x2 = true ∧ inI w y1 = true ∧ inI w y2 = true ∧
    c.partialFit w x0 x1 x2 y1 y2 ∧ inI (2 * w) (c.sum x0 x1 x2 y1 y2 + c.u * 2 ^ q) = true :=
  ⟨8, 6, ⟨20, 40, 20, -70, 25, 3, -128, 127⟩, 90, 50, -30, 60, 10, by decide, by decide,
    by unfold BiquadCfg.inRange; decide, by unfold BiquadCfg.aligned; decide, by decide, by decide, by decide,
    by decide, by decide, by unfold BiquadCfg.partialFit; decide, by decide⟩

/-- the same on `i32`/Q2.30 with low-pass-like coefficients (`b ≈ [0.0675, 0.135, 0.0675]`,
    `a ≈ [-1.143, 0.4128]`, DC gain ≈ 1), limits `±1.0`, near-full-scale state -/
example : ∃ (w q : Nat) (c : BiquadCfg) (x0 x1 x2 y1 y2 : Int), 0 < w ∧ q ≤ w ∧ c.inRange w ∧ c.aligned w q ∧
    inI w x0 = true ∧ inI w x1 = true ∧ inI w x2 = true ∧ inI w y1 = true ∧ inI w y2 = true ∧
    c.partialFit w x0 x1 x2 y1 y2 ∧ inI (2 * w) (c.sum x0 x1 x2 y1 y2 + c.u * 2 ^ q) = true :=
  ⟨32, 30, ⟨72477330, 144954660, 72477330, -1227262894, 443236822, 1000, -2 ^ 30, 2 ^ 30 - 1⟩,
    1000000000, -900000000, 800000000, 1000000000, -1000000000, by decide, by decide,
    by unfold BiquadCfg.inRange; decide, by unfold BiquadCfg.aligned; decide, by decide, by decide, by decide,
    by decide, by decide, by unfold BiquadCfg.partialFit; decide, by decide⟩

/-- non-vacuity of `c20b_coeff_from`: `f0 = 0.1`, gain `−3`, shelf `4`, `Shape::Q(0.7)`, peaking filter -/
example : ∃ (f : FilterCfg ℝ), f.Valid :=
  ⟨FilterCfg.mk (2 * π * (1 / 10)) (-3) 4 (.q (7 / 10)),
    valid_q _ _ _ _ (w0_mem _ (by norm_num) (by norm_num)).1 (w0_mem _ (by norm_num) (by norm_num)).2
      (by norm_num) (by norm_num)⟩

/-! ### C20b: skipped
* already instantiated in the file: `c20b_lowpass2_any_input_after_set` (`C20b.lean:343`),
  `c20b_lowpass2_level_change_pm2p30` (`:350`), `c20b_dsm_default_upto8` (`:356`), `c20b_hbfdec_call` (`:360`),
  `c20b_biquad_update5` (`:367`);
* no hypotheses: `c20b_lowpass2_any_sample_full_false`, `c20b_dsm_k0`, `c20b_quantize`, `c20b_csat`;
* independent range facts: `c20b_biquad_release` (`0 < w`), `c20b_from_angle`, `c20b_carg` (`inI 32` facts). -/

end Idsp
