import IdspModel.Lemmas.Lp2Tight
/-!
# The radius `lp2Rk` has 10 % room over the sector radius of the equilibrium level (`lp2_cmp_F'`, `lp2_Rk_good'`)
-/
namespace Idsp
set_option linter.unusedVariables false

/-- `[F']`: `11·4k²(a+b)²(2^32−b+a) ≤ 10·9·a·2^64·b(b−2a)` -/
theorem lp2_cmp_F' {k a b : Int} (h : Lp2Butter k a b) :
    11 * (4 * k ^ 2 * ((a + b) ^ 2 * (4294967296 - b + a))) ≤ 10 * (9 * a * 4294967296 ^ 2 * (b * (b - 2 * a))) := by
  have h1 := h.ha1; have ha := h.a_ge; have hk := h.hk0; have hb0 := h.hb0; have hbl := h.b_le
  have hbg := h.b_ge; have h4 := h.four_a_le
  have hX0 : 0 ≤ (a + b) ^ 2 * (4294967296 - b + a) := by
    have : (0 : Int) ≤ 4294967296 - b + a := by omega
    positivity
  by_cases hs : b ≤ 16777216
  · have h5 := h.small_a hs
    have hk2 : 4 * k ^ 2 ≤ 8 * (a * 4294967296) := by nlinarith
    have e1 : (500 * (a + b)) ^ 2 ≤ (501 * b) ^ 2 := pow_le_pow_left₀ (by omega) (by omega) 2
    have e2 : 250 * (b * (b - 2 * a)) ≥ 249 * b ^ 2 := by nlinarith
    have e3 : (a + b) ^ 2 * (4294967296 - b + a) ≤ (a + b) ^ 2 * 4294967296 :=
      mul_le_mul_of_nonneg_left (by omega) (sq_nonneg _)
    have e4 : 88 * ((a + b) ^ 2 * (4294967296 - b + a)) ≤ 90 * 4294967296 * (b * (b - 2 * a)) := by nlinarith
    calc 11 * (4 * k ^ 2 * ((a + b) ^ 2 * (4294967296 - b + a)))
        ≤ 11 * (8 * (a * 4294967296) * ((a + b) ^ 2 * (4294967296 - b + a))) := by
          have := mul_le_mul_of_nonneg_right hk2 hX0; linarith
      _ = (a * 4294967296) * (88 * ((a + b) ^ 2 * (4294967296 - b + a))) := by ring
      _ ≤ (a * 4294967296) * (90 * 4294967296 * (b * (b - 2 * a))) :=
          mul_le_mul_of_nonneg_left e4 (by positivity)
      _ = _ := by ring
  · have hl : 16777216 ≤ b := by omega
    have hal := h.large_a hl
    have haM := h.ha0; have hb2 := h.hb2
    have hk2 : 2048 * (4 * k ^ 2) ≤ 8193 * (a * 4294967296) := by nlinarith
    have haMb : 2 * (a * 4294967296) ≤ (b + 1) ^ 2 := by nlinarith
    have e4 : 90123 * ((a + b) ^ 2 * (4294967296 - b + a)) ≤ 20480 * (9 * 4294967296 * (b * (b - 2 * a))) := by
      have hbb : 16777216 * b ≤ b * b := mul_le_mul_of_nonneg_right hl (by omega)
      have hq : 0 ≤ a * (b + 2 - 4 * a) := mul_nonneg (by omega) (by omega)
      have t1 : 0 ≤ ((b + 1) ^ 2 - 2 * (a * 4294967296)) * (548886 * b + 90123 * a) :=
        mul_nonneg (by linarith) (by nlinarith)
      have t2 : 0 ≤ (4294967296 - 2 * b) * (188394 * b ^ 2) := mul_nonneg (by omega) (by positivity)
      have t3 : 0 ≤ a * (b + 2 - 4 * a) * b := mul_nonneg hq (by omega)
      have t4 : 0 ≤ a * (b + 2 - 4 * a) * (b + 2) := mul_nonneg hq (by omega)
      have t5 : 0 ≤ a * (b + 2 - 4 * a) * a := mul_nonneg hq (by omega)
      have hb3 : 16777216 * (b * b) ≤ b * (b * b) := mul_le_mul_of_nonneg_right hl (by positivity)
      have hab : 0 ≤ a * b := by positivity
      have hab2 : 16777216 * (a * b) ≤ a * b * b := by nlinarith
      nlinarith
    have : 2048 * (11 * (4 * k ^ 2 * ((a + b) ^ 2 * (4294967296 - b + a))))
        ≤ 2048 * (10 * (9 * a * 4294967296 ^ 2 * (b * (b - 2 * a)))) := by
      calc 2048 * (11 * (4 * k ^ 2 * ((a + b) ^ 2 * (4294967296 - b + a))))
          = 11 * ((2048 * (4 * k ^ 2)) * ((a + b) ^ 2 * (4294967296 - b + a))) := by ring
        _ ≤ 11 * ((8193 * (a * 4294967296)) * ((a + b) ^ 2 * (4294967296 - b + a))) := by
            have := mul_le_mul_of_nonneg_right hk2 hX0; linarith
        _ = (a * 4294967296) * (90123 * ((a + b) ^ 2 * (4294967296 - b + a))) := by ring
        _ ≤ (a * 4294967296) * (20480 * (9 * 4294967296 * (b * (b - 2 * a)))) :=
            mul_le_mul_of_nonneg_left e4 (by positivity)
        _ = _ := by ring
    linarith

/-- the equilibrium level leaves 10 % room below `a·Rk²` (times the sector factor) -/
theorem lp2_Rk_good' {k a b : Int} (h : Lp2Butter k a b) :
    11 * ((4294967296 - b + a) * lp2Vs a b) ≤ 10 * (a * (4294967296 - b) * lp2Rk k a ^ 2) := by
  have ha := h.a_ge; have hk := h.hk0; have hbl := h.b_le; have hbg := h.b_ge; have hba := h.two_a_lt
  have hk0 : 0 < k := by omega
  have hbb : 0 < b * (b - 2 * a) := by apply mul_pos <;> omega
  have hF := lp2_cmp_F' h
  have hq : 3 * a * 4294967296 ^ 2 < lp2Rk k a * k := by
    unfold lp2Rk; exact Int.lt_ediv_add_one_mul_self _ hk0
  have hVs : lp2Vs a b * (b * (b - 2 * a)) ≤ 4 * (4294967296 - b) * lp2U a b ^ 2 := by
    unfold lp2Vs; exact Int.ediv_mul_le _ (by omega)
  have hsq : (3 * a * 4294967296 ^ 2) ^ 2 ≤ (lp2Rk k a * k) ^ 2 :=
    pow_le_pow_left₀ (by positivity) (le_of_lt hq) 2
  have hMb : (0 : Int) < 4294967296 - b := by omega
  have hc : (0 : Int) ≤ 4294967296 - b + a := by omega
  have goal' : (k ^ 2 * (b * (b - 2 * a))) * (11 * ((4294967296 - b + a) * lp2Vs a b))
      ≤ (k ^ 2 * (b * (b - 2 * a))) * (10 * (a * (4294967296 - b) * lp2Rk k a ^ 2)) := by
    have s1 : (k ^ 2 * (b * (b - 2 * a))) * (11 * ((4294967296 - b + a) * lp2Vs a b))
        ≤ 11 * (k ^ 2 * (4294967296 - b + a) * (4 * (4294967296 - b) * lp2U a b ^ 2)) := by
      have := mul_le_mul_of_nonneg_left hVs (show 0 ≤ k ^ 2 * (4294967296 - b + a) by positivity)
      nlinarith
    have s2 : 11 * (k ^ 2 * (4294967296 - b + a) * (4 * (4294967296 - b) * lp2U a b ^ 2))
        = (a ^ 2 * 4294967296 ^ 2 * (4294967296 - b)) * (11 * (4 * k ^ 2 * ((a + b) ^ 2 * (4294967296 - b + a)))) := by
      unfold lp2U; ring
    have s3 : (a ^ 2 * 4294967296 ^ 2 * (4294967296 - b)) * (11 * (4 * k ^ 2 * ((a + b) ^ 2 * (4294967296 - b + a))))
        ≤ (a ^ 2 * 4294967296 ^ 2 * (4294967296 - b)) * (10 * (9 * a * 4294967296 ^ 2 * (b * (b - 2 * a)))) :=
      mul_le_mul_of_nonneg_left hF (by positivity)
    have s4 : (a ^ 2 * 4294967296 ^ 2 * (4294967296 - b)) * (10 * (9 * a * 4294967296 ^ 2 * (b * (b - 2 * a))))
        = 10 * ((a * (4294967296 - b) * (b * (b - 2 * a))) * (3 * a * 4294967296 ^ 2) ^ 2) := by ring
    have s5 : 10 * ((a * (4294967296 - b) * (b * (b - 2 * a))) * (3 * a * 4294967296 ^ 2) ^ 2)
        ≤ 10 * ((a * (4294967296 - b) * (b * (b - 2 * a))) * (lp2Rk k a * k) ^ 2) := by
      have := mul_le_mul_of_nonneg_left hsq (show 0 ≤ a * (4294967296 - b) * (b * (b - 2 * a)) by positivity)
      linarith
    calc _ ≤ _ := s1
      _ = _ := s2
      _ ≤ _ := s3
      _ = _ := s4
      _ ≤ _ := s5
      _ = _ := by ring
  exact le_of_mul_le_mul_left goal' (by positivity)

end Idsp
