import IdspModel
import IdspModel.DriverF
import IdspModel.Model.BiquadF
import IdspModel.Model.Filter
/-!
  Line-protocol driver.  One request per line:

      <mode> <op> <arg> ... => <result>

  `<mode>` is `C` (overflow-checks + debug-assertions) or `R` (release).  An argument is a
  decimal integer, `N` (None), or a bracketed list `[a,b,c]`.  `<result>` is what the
  implementation returned, in the same syntax, or `PANIC`.  The driver recomputes the result
  with the model and reports every line on which they differ.
-/
namespace Idsp

inductive Tok where
  | int (v : Int)
  | list (l : List Int)
  | none
deriving Repr

def parseTok (s : String) : Option Tok :=
  if s == "N" then some .none
  else if s.startsWith "[" then
    let inner := ((s.drop 1).dropEnd 1).toString
    if inner.isEmpty then some (.list []) else
      ((inner.splitOn ",").mapM (fun (t : String) => t.toInt?)).map Tok.list
  else s.toInt?.map .int

def showList (l : List Int) : String := "[" ++ ",".intercalate (l.map toString) ++ "]"
def showOpt : Option Int → String
  | some v => toString v
  | none => "N"
def sp (l : List String) : String := " ".intercalate l
def ints (l : List Int) : String := sp (l.map toString)

def rshow {α} (f : α → String) : R α → String
  | .ok v => f v
  | .error _ => "PANIC"

def optOf : Tok → Option (Option Int)
  | .int v => some (some v)
  | .none => some none
  | _ => Option.none

/-! ### float instances for the half-band model -/
def ops32 : Ops Float32 :=
  { zero := 0, add := (· + ·), mul := (· * ·),
    sum := fun l => l.foldl (· + ·) (Float32.ofBits 0x80000000),
    half := fun x => (0.5 : Float32) * x }
def ops64 : Ops Float :=
  { zero := 0, add := (· + ·), mul := (· * ·),
    sum := fun l => l.foldl (· + ·) (Float.ofBits 0x8000000000000000),
    half := fun x => (0.5 : Float) * x }

/-- integer sample types (`impl Half for i32 ..`: `self >> 1`); the harness keeps every value far from overflow -/
def opsInt : Ops Int :=
  { zero := 0, add := (· + ·), mul := (· * ·), sum := fun l => l.foldl (· + ·) 0, half := fun x => x / 2 }

def f32 (v : Int) : Float32 := Float32.ofBits v.toNat.toUInt32
def f64 (v : Int) : Float := Float.ofBits v.toNat.toUInt64
def b32 (x : Float32) : Int := x.toBits.toNat
def b64 (x : Float) : Int := x.toBits.toNat

inductive HbfObj where
  | dec32 (d : HbfDec Float32)
  | int32 (d : HbfInt Float32)
  | dec64 (d : HbfDec Float)
  | int64 (d : HbfInt Float)
  | decc (d : HbfDecCascade Float32)
  | intc (d : HbfIntCascade Float32)
  | deci (d : HbfDec Int)
  | inti (d : HbfInt Int)

structure DState where
  objs : List (Int × HbfObj) := []
  taps : List (List Int) := []   -- HBF_TAPS (f32 bit patterns), registered by `hbf_taps`

def DState.get (s : DState) (id : Int) : Option HbfObj := (s.objs.find? (·.1 == id)).map (·.2)
def DState.put (s : DState) (id : Int) (o : HbfObj) : DState :=
  { s with objs := (id, o) :: s.objs.filter (·.1 != id) }

def cascadeBlock : Nat := 64

/-- evaluate one request; returns the new driver state and the model's result string,
    or `none` when the request cannot be parsed. -/
def evalOp (st : DState) (m : Mode) (op : String) (a : List Tok) : Option (DState × String) :=
  let pure' (s : String) : Option (DState × String) := some (st, s)
  match op, a with
  -- unwrap / accu
  | "osub", [.int w, .int y, .int x] =>
    let (d, c) := overflowingSub w.toNat y x; pure' (ints [d, c])
  | "satscale", [.int lo, .int hi, .int sh] =>
    pure' (rshow toString (saturatingScale m lo hi sh))
  | "unwrap", [.int wq, .int wp, .int y, .int x] =>
    let (y', dx) := unwrapperUpdate wq.toNat wp.toNat y x; pure' (ints [y', dx])
  | "wraps", [.int wp, .int s, .int y] => pure' (toString (unwrapperWraps wp.toNat s.toNat y))
  | "accu", [.int w, .int s, .int step] =>
    let (s', it) := accuNext w.toNat s step; pure' (ints [s', it])
  -- dsm
  -- constructors: the start states the run-level theorems are about (`PLL::default`, `RPLL::new`, `Dsm::default`)
  | "ctor_pll", [] => let s := PLL.default; pure' (ints [s.x, s.y0, s.f0, s.f, s.y])
  | "ctor_rpll", [.int dt2] => let s := RPLL.new dt2; pure' (ints [s.dt2, s.x, s.ff, s.f, s.y])
  -- `Dsm.default K` of Lemmas/Dsm.lean is literally this pair (that file imports Mathlib and cannot be linked here)
  | "ctor_dsm", [.int k] => pure' (sp [showList (List.replicate k.toNat (0 : Int)), showList (List.replicate k.toNat (0 : Int))])
  | "dsm", [.list a, .list c, .int x] =>
    pure' (rshow (fun (s, y) => sp [showList s.a, showList s.c, toString y]) (Dsm.update m ⟨a, c⟩ x))
  -- pll
  | "pll", [.int x, .int y0, .int f0, .int f, .int y, inp, .int k] => do
    let i ← optOf inp
    let s := PLL.update ⟨x, y0, f0, f, y⟩ i k
    pure' (ints [s.x, s.y0, s.f0, s.f, s.y])
  -- lowpass
  -- `Filter::set` / `Filter::get` of Lowpass, `Cic::tick`, the special biquads, `block_size()` of the half-band stages:
  -- definitions the theorems use that no update op exercises
  | "lp_set", [.int s0, .int x] => let _ := s0; pure' (toString (lpSet x))
  | "lp_get", [.int s0] => pure' (toString (lpGet s0))
  | "cic_tick", [.int rate, .int idx] => pure' (toString (Cic.tick ⟨rate, idx, 0, [], []⟩))
  | "bq_special", [.int w, .int q, .int k] =>
    let sh := fun (c : BiquadCfg) => ints [c.b0, c.b1, c.b2, c.a1, c.a2, c.u, c.mn, c.mx]
    pure' (sp [sh (BiquadCfg.identity w.toNat q.toNat), sh (BiquadCfg.hold w.toNat q.toNat), sh (BiquadCfg.proportional w.toNat k)])
  | "hbf_bmax", [.int kind, .int n, .int mtaps] =>
    let taps : List Int := List.replicate mtaps.toNat 0
    pure' (toString (if kind == 0 then (HbfDec.new opsInt n.toNat taps).blockMax else (HbfInt.new opsInt n.toNat taps).blockMax))
  | "lp1", [.int s0, .int x, .int k] =>
    pure' (rshow (fun (s, y) => ints [s, y]) (lp1Update m s0 x k))
  | "lp2", [.int s0, .int s1, .int x, .int k0, .int k1] =>
    pure' (rshow (fun (a, b, y) => ints [a, b, y]) (lp2Update m s0 s1 x k0 k1))
  -- cic
  | "cic_dec", [.int w, .int rate, .int idx, .int zoh, .list cs, .list is, .int x] =>
    let (s, o) := Cic.decimate w.toNat ⟨rate, idx, zoh, cs, is⟩ x
    pure' (sp [toString s.index, toString s.zoh, showList s.combs, showList s.integrators, showOpt o])
  | "cic_int", [.int w, .int rate, .int idx, .int zoh, .list cs, .list is, x] => do
    let xo ← optOf x
    pure' (rshow (fun (s, y) => sp [toString s.index, toString s.zoh, showList s.combs,
      showList s.integrators, toString y]) (Cic.interpolate m w.toNat ⟨rate, idx, zoh, cs, is⟩ xo))
  | "cic_clear", [.int rate, .int _idx, .int _zoh, .list cs, .list _is] =>
    let s := (Cic.mk rate 0 0 cs cs).clear
    pure' (sp [toString s.index, toString s.zoh, showList s.combs, showList s.integrators])
  | "unwrap_phase", [.int wp, .int y] => pure' (toString (unwrapperPhase wp.toNat y))
  | "cic_gain", [.int w, .int rate, .int n] =>
    pure' (rshow toString ((Cic.new n.toNat rate).gain m w.toNat))
  | "cic_glog2", [.int rate, .int n] => pure' (toString (Cic.new n.toNat rate).gainLog2)
  | "cic_rlen", [.int rate, .int n] => pure' (toString (Cic.new n.toNat rate).responseLength)
  | "cic_settle", [.int w, .int rate, .int idx, .int zoh, .list cs, .list is, .int x] =>
    pure' (rshow (fun s => sp [toString s.index, toString s.zoh, showList s.combs,
      showList s.integrators]) (Cic.settleInterpolate m w.toNat ⟨rate, idx, zoh, cs, is⟩ x))
  -- num
  | "macc", [.int w, .int q, .int u, .int s, .int mn, .int mx, .int e1] =>
    pure' (rshow (fun (y, e) => ints [y, e]) (macc m w.toNat q.toNat u s mn mx e1))
  | "mul_scaled", [.int w, .int q, .int x, .int y] => pure' (rshow toString (mulScaled m w.toNat q.toNat x y))
  | "div_scaled", [.int w, .int q, .int x, .int y] => pure' (rshow toString (divScaled w.toNat q.toNat x y))
  | "clip", [.int x, .int mn, .int mx] => pure' (toString (clip x mn mx))
  | "num_consts", [.int w, .int q] =>
    pure' (ints [oneQ q.toNat, negOneQ q.toNat, 0, minI w.toNat, maxI w.toNat])
  -- biquad
  | "bq4", [.int w, .int q, .list [b0, b1, b2, a1, a2, u, mn, mx], .list [x1, x2, y1, y2], .int x0] =>
    pure' (rshow (fun ((p, q', r, s), y) => sp [showList [p, q', r, s], toString y])
      (biquadUpdate4 m w.toNat q.toNat ⟨b0, b1, b2, a1, a2, u, mn, mx⟩ (x1, x2, y1, y2) x0))
  | "bq5", [.int w, .int q, .list [b0, b1, b2, a1, a2, u, mn, mx], .list [x1, x2, y1, y2, e1], .int x0] =>
    pure' (rshow (fun ((p, q', r, s, e), y) => sp [showList [p, q', r, s, e], toString y])
      (biquadUpdate5 m w.toNat q.toNat ⟨b0, b1, b2, a1, a2, u, mn, mx⟩ (x1, x2, y1, y2, e1) x0))
  | "bq2", [.int w, .int q, .list [b0, b1, b2, a1, a2, u, mn, mx], .list [s0, s1], .int x0] =>
    pure' (rshow (fun ((p, q'), y) => sp [showList [p, q'], toString y])
      (biquadUpdate2 m w.toNat q.toNat ⟨b0, b1, b2, a1, a2, u, mn, mx⟩ (s0, s1) x0))
  -- cossin / atan2 / complex
  | "cossin", [.int p] => pure' (rshow (fun (c, s) => ints [c, s]) (cossin m p))
  | "cossin_tab", [.int i] => pure' (toString (cossinTable.getD i.toNat (-1)))
  | "divi", [.int y, .int x] => pure' (rshow toString (divi m y x))
  | "atani", [.int x] => pure' (rshow toString (atani m x))
  | "atan2", [.int y, .int x] => pure' (rshow toString (atan2 m y x))
  | "abs_sqr", [.int re, .int im] => pure' (rshow toString (absSqr m re im))
  | "log2", [.int re, .int im] => pure' (rshow toString (clog2 m re im))
  | "arg", [.int re, .int im] => pure' (rshow toString (carg m re im))
  | "csat_add", [.int p, .int q, .int r, .int s] => let (x, y) := csatAdd p q r s; pure' (ints [x, y])
  | "csat_sub", [.int p, .int q, .int r, .int s] => let (x, y) := csatSub p q r s; pure' (ints [x, y])
  | "cmul_c", [.int p, .int q, .int r, .int s] => pure' (rshow (fun (x, y) => ints [x, y]) (cmulScaledC m p q r s))
  | "cmul_i32", [.int re, .int im, .int o] => pure' (rshow (fun (x, y) => ints [x, y]) (cmulScaledI32 m re im o))
  | "cmul_i16", [.int re, .int im, .int o] => pure' (rshow (fun (x, y) => ints [x, y]) (cmulScaledI16 m re im o))
  | "lockin_iq", [.list [s0, s1, s2, s3], .int x, .int lre, .int lim, .int k0, .int k1] =>
    pure' (rshow (fun ((p, q, r, s), re, im) => sp [showList [p, q, r, s], toString re, toString im])
      (lockinUpdateIq m (s0, s1, s2, s3) x lre lim k0 k1))
  | "lockin", [.list [s0, s1, s2, s3], .int x, .int ph, .int k0, .int k1] =>
    pure' (rshow (fun ((p, q, r, s), re, im) => sp [showList [p, q, r, s], toString re, toString im])
      (lockinUpdate m (s0, s1, s2, s3) x ph k0 k1))
  -- rpll
  | "rpll", [.int dt2, .int x, .int ff, .int f, .int y, inp, .int sf, .int sph] => do
    let i ← optOf inp
    pure' (rshow (fun (s, py, pf) => ints [s.x, s.ff, s.f, s.y, py, pf])
      (RPLL.update m ⟨dt2, x, ff, f, y⟩ i sf sph))
  -- filter.rs glue, Biquad helpers, AccuOsc
  | "nyquist", [.int st, .int x] => let (s', y) := nyquistUpdate st x; pure' (ints [s', y])
  | "repeat_lp1", [.list ss, .int x, .int k] =>
    pure' (rshow (fun (ss', y) => sp [showList ss', toString y]) (repeatLp1Update m ss x k))
  | "cascade_lp1_nyq", [.int s, .int n, .int x, .int k] =>
    pure' (rshow (fun (s', n', y) => ints [s', n', y]) (cascadeLp1NyqUpdate m s n x k))
  | "bq_fgain", [.int w, .list [b0, b1, b2, a1, a2, u, mn, mx]] =>
    pure' (rshow toString (biquadForwardGain m w.toNat ⟨b0, b1, b2, a1, a2, u, mn, mx⟩))
  | "bq_inoff", [.int w, .int q, .list [b0, b1, b2, a1, a2, u, mn, mx]] =>
    pure' (rshow toString (biquadInputOffset m w.toNat q.toNat ⟨b0, b1, b2, a1, a2, u, mn, mx⟩))
  | "bq_setinoff", [.int w, .int q, .list [b0, b1, b2, a1, a2, u, mn, mx], .int off] =>
    pure' (rshow toString (biquadSetInputOffset m w.toNat q.toNat ⟨b0, b1, b2, a1, a2, u, mn, mx⟩ off))
  | "accuosc", [.int rate, .int sw, .int ph] =>
    pure' (rshow (fun (a, b, c, d) => ints [a, b, c, d]) (accuOscNext m rate sw ph))
  -- sweep
  | "sweep", [.int rate, .int state] => pure' (rshow (fun (s, it) => ints [s, it]) (sweepNext m rate state))
  -- half-band filters (stateful: objects are named by an integer id)
  | "hbf_taps", [.int i, .list t] =>
    some ({ st with taps := (st.taps.take i.toNat) ++ [t] ++ st.taps.drop (i.toNat + 1) }, "ok")
  | "hbf_new", [.int id, .int kind, .int n, .list taps] =>
    let o : HbfObj := match kind with
      | 0 => .dec32 (HbfDec.new ops32 n.toNat (taps.map f32))
      | 1 => .int32 (HbfInt.new ops32 n.toNat (taps.map f32))
      | 2 => .dec64 (HbfDec.new ops64 n.toNat (taps.map f64))
      | 3 => .int64 (HbfInt.new ops64 n.toNat (taps.map f64))
      | 4 => .deci (HbfDec.new opsInt n.toNat taps)
      | _ => .inti (HbfInt.new opsInt n.toNat taps)
    some (st.put id o, "ok")
  | "hbf_newc", [.int id, .int kind, .int depth] =>
    let mk (i : Nat) : List Float32 × Nat :=
      let t := (st.taps.getD i []).map f32
      (t, 2 * t.length - 1 + cascadeBlock * 2 ^ i)
    let o : HbfObj := match kind with
      | 0 => .decc ⟨depth.toNat, (List.range 4).map fun i => let (t, n) := mk i; HbfDec.new ops32 n t⟩
      | _ => .intc ⟨depth.toNat, (List.range 4).map fun i => let (t, n) := mk i; HbfInt.new ops32 n t⟩
    some (st.put id o, "ok")
  | "hbf_proc", [.int id, .list x] => do
    let o ← st.get id
    match o with
    | .dec32 d => let (d', y) := d.process ops32 (x.map f32); some (st.put id (.dec32 d'), showList (y.map b32))
    | .int32 d => let (d', y) := d.process ops32 (x.map f32); some (st.put id (.int32 d'), showList (y.map b32))
    | .dec64 d => let (d', y) := d.process ops64 (x.map f64); some (st.put id (.dec64 d'), showList (y.map b64))
    | .int64 d => let (d', y) := d.process ops64 (x.map f64); some (st.put id (.int64 d'), showList (y.map b64))
    | .decc d => let (d', y) := d.process ops32 (x.map f32); some (st.put id (.decc d'), showList (y.map b32))
    | .intc d => let (d', y) := d.process ops32 (x.map f32); some (st.put id (.intc d'), showList (y.map b32))
    | .deci d => let (d', y) := d.process opsInt x; some (st.put id (.deci d'), showList y)
    | .inti d => let (d', y) := d.process opsInt x; some (st.put id (.inti d'), showList y)
  | "hbf_rlen", [.int kind, .list ms, .int depth] =>
    pure' (toString (if kind == 0 then hbfDecResponseLength (ms.map Int.toNat) depth.toNat
                     else hbfIntResponseLength (ms.map Int.toNat) depth.toNat))
  | _, _ => Option.none

/-! ### float ops: the driver does the comparison itself (bit patterns in, tolerance compare) -/
/-- Rust's `f32::max` / `f32::min` (IEEE maxNum / minNum): a NaN operand is ignored -/
def bops32 : BOps Float32 :=
  { zero := 0, add := (· + ·), sub := (· - ·), mul := (· * ·),
    max := fun a b => if a.isNaN then b else if b.isNaN then a else if a < b then b else a,
    min := fun a b => if a.isNaN then b else if b.isNaN then a else if b < a then b else a }
def bops64 : BOps Float :=
  { zero := 0, add := (· + ·), sub := (· - ·), mul := (· * ·),
    max := fun a b => if a.isNaN then b else if b.isNaN then a else if a < b then b else a,
    min := fun a b => if a.isNaN then b else if b.isNaN then a else if b < a then b else a }

def f32eq (a b : Float32) : Bool := a == b || (a.isNaN && b.isNaN)
def f64eq (a b : Float) : Bool := a == b || (a.isNaN && b.isNaN)

def optInf (v : Float) : Option Float := if v.isInf then none else some v

/-- returns (agrees, model rendering) -/
def evalApprox (op : String) (a : List Tok) (rhs : List Tok) : Option (Bool × String) :=
  match op, a, rhs with
  | "f_bq4", [.int t, .list [b0, b1, b2, a1, a2, u, mn, mx], .list [x1, x2, y1, y2], .int x0], [.list [p, q, r, s'], .int y] =>
    if t == 32 then
      let c : FBiquadCfg Float32 := ⟨f32 b0, f32 b1, f32 b2, f32 a1, f32 a2, f32 u, f32 mn, f32 mx⟩
      let ((m0, m1, m2, m3), my) := fbiquadUpdate4 bops32 c (f32 x1, f32 x2, f32 y1, f32 y2) (f32 x0)
      some (f32eq m0 (f32 p) && f32eq m1 (f32 q) && f32eq m2 (f32 r) && f32eq m3 (f32 s') && f32eq my (f32 y),
        s!"{showList [b32 m0, b32 m1, b32 m2, b32 m3]} {b32 my}")
    else
      let c : FBiquadCfg Float := ⟨f64 b0, f64 b1, f64 b2, f64 a1, f64 a2, f64 u, f64 mn, f64 mx⟩
      let ((m0, m1, m2, m3), my) := fbiquadUpdate4 bops64 c (f64 x1, f64 x2, f64 y1, f64 y2) (f64 x0)
      some (f64eq m0 (f64 p) && f64eq m1 (f64 q) && f64eq m2 (f64 r) && f64eq m3 (f64 s') && f64eq my (f64 y),
        s!"{showList [b64 m0, b64 m1, b64 m2, b64 m3]} {b64 my}")
  | "f_bq5", [.int t, .list [b0, b1, b2, a1, a2, u, mn, mx], .list [x1, x2, y1, y2, e1], .int x0], [.list [p, q, r, s', e], .int y] =>
    if t == 32 then
      let c : FBiquadCfg Float32 := ⟨f32 b0, f32 b1, f32 b2, f32 a1, f32 a2, f32 u, f32 mn, f32 mx⟩
      let ((m0, m1, m2, m3, m4), my) := fbiquadUpdate5 bops32 c (f32 x1, f32 x2, f32 y1, f32 y2, f32 e1) (f32 x0)
      some (f32eq m0 (f32 p) && f32eq m1 (f32 q) && f32eq m2 (f32 r) && f32eq m3 (f32 s') && f32eq m4 (f32 e) && f32eq my (f32 y),
        s!"{showList [b32 m0, b32 m1, b32 m2, b32 m3, b32 m4]} {b32 my}")
    else
      let c : FBiquadCfg Float := ⟨f64 b0, f64 b1, f64 b2, f64 a1, f64 a2, f64 u, f64 mn, f64 mx⟩
      let ((m0, m1, m2, m3, m4), my) := fbiquadUpdate5 bops64 c (f64 x1, f64 x2, f64 y1, f64 y2, f64 e1) (f64 x0)
      some (f64eq m0 (f64 p) && f64eq m1 (f64 q) && f64eq m2 (f64 r) && f64eq m3 (f64 s') && f64eq m4 (f64 e) && f64eq my (f64 y),
        s!"{showList [b64 m0, b64 m1, b64 m2, b64 m3, b64 m4]} {b64 my}")
  | "f_bq2", [.int t, .list [b0, b1, b2, a1, a2, u, mn, mx], .list [s0, s1], .int x0], [.list [p, q], .int y] =>
    if t == 32 then
      let c : FBiquadCfg Float32 := ⟨f32 b0, f32 b1, f32 b2, f32 a1, f32 a2, f32 u, f32 mn, f32 mx⟩
      let ((m0, m1), my) := fbiquadUpdate2 bops32 c (f32 s0, f32 s1) (f32 x0)
      some (f32eq m0 (f32 p) && f32eq m1 (f32 q) && f32eq my (f32 y), s!"{showList [b32 m0, b32 m1]} {b32 my}")
    else
      let c : FBiquadCfg Float := ⟨f64 b0, f64 b1, f64 b2, f64 a1, f64 a2, f64 u, f64 mn, f64 mx⟩
      let ((m0, m1), my) := fbiquadUpdate2 bops64 c (f64 s0, f64 s1) (f64 x0)
      some (f64eq m0 (f64 p) && f64eq m1 (f64 q) && f64eq my (f64 y), s!"{showList [b64 m0, b64 m1]} {b64 my}")
  | "f_pidrepr", [.int w, .int q, .int period, .int order, .list gains, .list limits, .int bs, .int ys, .int setp, .int mn, .int mx],
      [.list r, .int ru, .int rmn, .int rmx] =>
    -- `Pid::<f64>::build::<C, f64>`: C = f64 (w = 0) or the fixed-point type (w, q)
    let (g, lim) := pidReprArgs (gains.map fOfBits) (limits.map fOfBits) (fOfBits bs)
    let off := -(fOfBits setp) * fOfBits ys
    let fmn := fOfBits mn * fOfBits ys
    let fmx := fOfBits mx * fOfBits ys
    if w == 0 then
      let (c0, c1, c2, c3, c4) := pidBuild floatOps (fun x => x) (0 : Float) (· + ·) (fun k x => Float.ofInt k * x)
        (fOfBits period) order.toNat g lim
      let m := [c0, c1, c2, c3, c4]
      let e := r.map fOfBits
      let sc := m.foldl (fun acc v => if v.abs > acc then v.abs else acc) 1e-300
      let okc := m.length == e.length && (List.zip m e).all fun (x, y) => (x.isNaN && y.isNaN) || x == y || (x - y).abs ≤ 1e-12 * sc
      let u := off * (c0 + c1 + c2)
      let eu := fOfBits ru
      let oku := (u.isNaN && eu.isNaN) || u == eu || (u - eu).abs ≤ 1e-11 * (off.abs * sc + 1e-300)
      some (okc && oku && f64eq fmn (fOfBits rmn) && f64eq fmx (fOfBits rmx),
        s!"{showList (m.map fToBits)} {fToBits u} {fToBits fmn} {fToBits fmx}")
    else
      -- the harness emits integer builds only when every quantised value is far from a rounding tie, so the
      -- coefficients are compared exactly
      let (c0, c1, c2, c3, c4) := pidBuild floatOps (quantizeInt w.toNat q.toNat) (0 : Int) (· + ·) (fun k x => k * x)
        (fOfBits period) order.toNat g lim
      let m := [c0, c1, c2, c3, c4]
      let cfg : BiquadCfg := ⟨c0, c1, c2, c3, c4, 0, minI w.toNat, maxI w.toNat⟩
      let u := biquadSetInputOffset .checked w.toNat q.toNat cfg (fToInt w.toNat off)
      let okc := m.length == r.length && (List.zip m r).all fun (x, y) => (x - y).natAbs ≤ 3 + x.natAbs / 2 ^ 48
      let oku := match u with
        | .ok v => (v - ru).natAbs ≤ 8 + v.natAbs / 2 ^ 40
        | .error _ => false
      some (okc && oku && fToInt w.toNat fmn == rmn && fToInt w.toNat fmx == rmx,
        s!"{showList m} {rshow toString u} {fToInt w.toNat fmn} {fToInt w.toNat fmx}")
  | "f_pidrepr32", [.int w, .int q, .int period, .int order, .list gains, .list limits, .int bs, .int ys, .int setp, .int mn, .int mx],
      [.list r, .int ru, .int rmn, .int rmx] =>
    -- `Pid::<f64>::build::<C, f32>`: the scaled gains / limits / period are narrowed to the builder intermediate type
    -- f32, `PidBuilder::<f32>` builds (compared per gain as in `f_pid32`), offset and limits are applied in C
    let (g, lim) := pidReprArgs (gains.map fOfBits) (limits.map fOfBits) (fOfBits bs)
    let g32 := g.map Float.toFloat32
    let lim32 : List (Option Float32) := lim.map fun l => match l with
      | some v => let x := v.toFloat32; if x.isInf then none else some x
      | none => none
    let p32 := (fOfBits period).toFloat32
    let off := -(fOfBits setp) * fOfBits ys
    let fmn := fOfBits mn * fOfBits ys
    let fmx := fOfBits mx * fOfBits ys
    if w == 0 then
      let (c0, c1, c2, c3, c4) := pidBuild float32Ops (fun x => x.toFloat) (0 : Float) (· + ·) (fun k x => Float.ofInt k * x)
        p32 order.toNat g32 lim32
      let rec' := fun (b0 b1 b2 a1 a2 : Float) => [b0 + b1 + b2, -(b1 + 2 * b2), b2, 1 + a1 + a2, -(a1 + 2 * a2), a2]
      let m := rec' c0 c1 c2 c3 c4
      match r.map fOfBits with
      | [e0, e1, e2, e3, e4] =>
        let e := rec' e0 e1 e2 e3 e4
        let sc := m.foldl (fun acc v => if v.abs > acc then v.abs else acc) 1e-300
        let okc := (List.zip m e).zipIdx.all fun ((x, y), i) =>
          (x.isNaN && y.isNaN) || x == y || (x - y).abs ≤ 4e-6 * (if i == 3 then 1 + x.abs else x.abs) + 1e-13 * sc
        let u := off * (c0 + c1 + c2)
        let eu := fOfBits ru
        let oku := (u.isNaN && eu.isNaN) || u == eu || (u - eu).abs ≤ 1e-5 * (off.abs * sc + 1e-300)
        some (okc && oku && f64eq fmn (fOfBits rmn) && f64eq fmx (fOfBits rmx), s!"{showList ([c0, c1, c2, c3, c4].map fToBits)} {fToBits u}")
      | _ => some (false, "arity")
    else
      let (c0, c1, c2, c3, c4) := pidBuild float32Ops (quantizeInt32 w.toNat q.toNat) (0 : Int) (· + ·) (fun k x => k * x)
        p32 order.toNat g32 lim32
      let one : Int := 2 ^ q.toNat
      let rec' := fun (b0 b1 b2 a1 a2 : Int) => [b0 + b1 + b2, -(b1 + 2 * b2), b2, one + a1 + a2, -(a1 + 2 * a2), a2]
      match r with
      | [e0, e1, e2, e3, e4] =>
        let okc := (List.zip (rec' c0 c1 c2 c3 c4) (rec' e0 e1 e2 e3 e4)).zipIdx.all fun ((x, y), i) =>
          (x - y).natAbs ≤ 2 + (if i == 3 then one else x.natAbs) / 2 ^ 18
        -- the offset is computed from the IMPLEMENTATION's coefficients (exact integer arithmetic from there on)
        let cfg : BiquadCfg := ⟨e0, e1, e2, e3, e4, 0, minI w.toNat, maxI w.toNat⟩
        let u := biquadSetInputOffset .checked w.toNat q.toNat cfg (fToInt w.toNat off)
        let oku := match u with
          | .ok v => v == ru
          | .error _ => false
        some (okc && oku && fToInt w.toNat fmn == rmn && fToInt w.toNat fmx == rmx, s!"{showList [c0, c1, c2, c3, c4]} {rshow toString u}")
      | _ => some (false, "arity")
  | "f_ba", [.int w, .int q, .list [b0, b1, b2, a0, a1, a2], .int bs, .int ys, .int u, .int mn, .int mx],
      [.list r, .int ru, .int rmn, .int rmx] =>
    -- `BiquadRepr::Ba(..).build(period, b_scale, y_scale)`
    let s := fOfBits bs
    let ba : BA Float := ((fOfBits b0 * s, fOfBits b1 * s, fOfBits b2 * s), (fOfBits a0, fOfBits a1, fOfBits a2))
    let y := fOfBits ys
    if w == 0 then
      let (c0, c1, c2, c3, c4) := biquadFromBa floatOps (fun x => x) ba
      let m := [c0, c1, c2, c3, c4]
      some ((m.map fToBits) == r && f64eq (fOfBits u * y) (fOfBits ru) && f64eq (fOfBits mn * y) (fOfBits rmn) && f64eq (fOfBits mx * y) (fOfBits rmx),
        s!"{showList (m.map fToBits)}")
    else
      let (c0, c1, c2, c3, c4) := biquadFromBa floatOps (quantizeInt w.toNat q.toNat) ba
      let m := [c0, c1, c2, c3, c4]
      some (m == r && fToInt w.toNat (fOfBits u * y) == ru && fToInt w.toNat (fOfBits mn * y) == rmn && fToInt w.toNat (fOfBits mx * y) == rmx,
        s!"{showList m} {fToInt w.toNat (fOfBits u * y)}")
  | "f_filterrepr", [.int w, .int q, .int typ, .int sk, .int sv, .int fr, .int gdb, .int sdb, .int off, .int mn, .int mx,
      .int period, .int bs, .int ys], [.list r, .int ru, .int rmn, .int rmx] =>
    -- `BiquadRepr::Filter(FilterRepr {..}).build(period, b_scale, y_scale)`: gains given in dB, frequency in absolute
    -- units, then the cookbook builder, the b scaling, `Biquad::from` and the scaled offset / limits
    let gain := Float.pow 10.0 (fOfBits gdb / 20.0)
    let shelf := Float.pow 10.0 (fOfBits sdb / 20.0)
    let w0 := 6.283185307179586 * (fOfBits fr * fOfBits period)
    let cfg : FilterCfg Float := ⟨w0, gain, shelf, shapeOf sk (fOfBits sv)⟩
    let ((b0, b1, b2), a) := cfg.build floatOps typ.toNat
    let s := fOfBits bs
    let ba : BA Float := ((b0 * s, b1 * s, b2 * s), a)
    let y := fOfBits ys
    if w == 0 then
      let (c0, c1, c2, c3, c4) := biquadFromBa floatOps (fun x => x) ba
      let m := [c0, c1, c2, c3, c4]
      let e := r.map fOfBits
      let sb := (m.take 3).foldl (fun acc v => if v.abs > acc then v.abs else acc) 1e-300
      let sa := (m.drop 3).foldl (fun acc v => if v.abs > acc then v.abs else acc) 1e-300
      let okc := m.length == e.length && (List.zip m e).zipIdx.all fun ((x, y), i) =>
        (x.isNaN && y.isNaN) || x == y || (x - y).abs ≤ 1e-10 * (if i < 3 then sb else sa) || (x.isInf && y.isInf && (x > 0) == (y > 0))
      some (okc && f64eq (fOfBits off * y) (fOfBits ru) && f64eq (fOfBits mn * y) (fOfBits rmn) && f64eq (fOfBits mx * y) (fOfBits rmx),
        s!"{showList (m.map fToBits)}")
    else
      let (c0, c1, c2, c3, c4) := biquadFromBa floatOps (quantizeInt w.toNat q.toNat) ba
      let m := [c0, c1, c2, c3, c4]
      let okc := m.length == r.length && (List.zip m r).all fun (x, y) => (x - y).natAbs ≤ 2 + x.natAbs / 2 ^ 32
      some (okc && fToInt w.toNat (fOfBits off * y) == ru && fToInt w.toNat (fOfBits mn * y) == rmn && fToInt w.toNat (fOfBits mx * y) == rmx,
        s!"{showList m} {fToInt w.toNat (fOfBits off * y)}")
  | "f_filterrepr32", [.int w, .int q, .int typ, .int sk, .int sv, .int fr, .int gdb, .int sdb, .int off, .int mn, .int mx,
      .int period, .int bs, .int ys], [.list r, .int ru, .int rmn, .int rmx] =>
    -- `BiquadRepr::<f32, C>::Filter(..).build::<f32>(..)`: everything in binary32; C = f32 (w = 0) or (w, q)
    let x32 := f32OfBits
    let gain := Float32.pow 10.0 (x32 gdb / 20.0)
    let shelf := Float32.pow 10.0 (x32 sdb / 20.0)
    let w0 := (6.283185307179586 : Float).toFloat32 * (x32 fr * x32 period)
    let v := x32 sv
    let shape : Shape Float32 := match sk with | 0 => .q v | 1 => .bandwidth v | _ => .slope v
    let cfg : FilterCfg Float32 := ⟨w0, gain, shelf, shape⟩
    let ((b0, b1, b2), a) := cfg.build float32Ops typ.toNat
    let s := x32 bs
    let ba : BA Float32 := ((b0 * s, b1 * s, b2 * s), a)
    let y := x32 ys
    let (c0, c1, c2, c3, c4) := biquadFromBa float32Ops (fun x => x) ba
    -- fixed point: the model's own saturating quantisation, then compared as numbers
    let m : List Float := if w == 0 then [c0, c1, c2, c3, c4].map Float32.toFloat
      else [c0, c1, c2, c3, c4].map fun x => Float.ofInt (quantizeInt32 w.toNat q.toNat x)
    let e : List Float := if w == 0 then r.map fun x => (x32 x).toFloat else r.map Float.ofInt
    let sb := (m.take 3).foldl (fun acc v => if v.abs > acc then v.abs else acc) 1e-300
    let sa := (m.drop 3).foldl (fun acc v => if v.abs > acc then v.abs else acc) 1e-300
    let okc := m.length == e.length && (List.zip m e).zipIdx.all fun ((x, y), i) =>
      (x.isNaN && y.isNaN) || x == y || (x - y).abs ≤ 4e-5 * (if i < 3 then sb else sa) + (if w == 0 then 0 else 2)
    if w == 0 then
      some (okc && f32eq (x32 off * y) (x32 ru) && f32eq (x32 mn * y) (x32 rmn) && f32eq (x32 mx * y) (x32 rmx),
        s!"{showList (m.map fToBits)}")
    else
      some (okc && fToInt32 w.toNat (x32 off * y) == ru && fToInt32 w.toNat (x32 mn * y) == rmn && fToInt32 w.toNat (x32 mx * y) == rmx,
        s!"{showList (m.map fToBits)} {fToInt32 w.toNat (x32 off * y)}")
  | "f_pidreprT32", [.int w, .int q, .int period, .int order, .list gains, .list limits, .int bs, .int ys, .int setp, .int mn, .int mx],
      [.list r, .int ru, .int rmn, .int rmx] =>
    -- `Pid::<f32>::build::<C, f32>`: representation, builder and scaling all in binary32 (compared per gain)
    let x32 := f32OfBits
    let (g32, lim32) := pidReprArgs32 (gains.map x32) (limits.map x32) (x32 bs)
    let off := -(x32 setp) * x32 ys
    let fmn := x32 mn * x32 ys
    let fmx := x32 mx * x32 ys
    if w == 0 then
      let (c0, c1, c2, c3, c4) := pidBuild float32Ops (fun x => x) (0 : Float32) (· + ·) (fun k x => Float32.ofInt k * x)
        (x32 period) order.toNat g32 lim32
      let rec' := fun (b0 b1 b2 a1 a2 : Float) => [b0 + b1 + b2, -(b1 + 2 * b2), b2, 1 + a1 + a2, -(a1 + 2 * a2), a2]
      let m := rec' c0.toFloat c1.toFloat c2.toFloat c3.toFloat c4.toFloat
      match r.map fun x => (x32 x).toFloat with
      | [e0, e1, e2, e3, e4] =>
        let e := rec' e0 e1 e2 e3 e4
        -- f32 coefficients: the recovery itself cancels, so the error is relative to the largest coefficient
        let sc := ([c0, c1, c2, c3, c4].map fun x => x.toFloat.abs).foldl (fun a b => if b > a then b else a) 1e-300
        let okc := (List.zip m e).all fun (x, y) => (x.isNaN && y.isNaN) || x == y || (x - y).abs ≤ 2e-6 * (sc + 1)
        let u := off.toFloat * (c0.toFloat + c1.toFloat + c2.toFloat)
        let eu := (x32 ru).toFloat
        let oku := (u.isNaN && eu.isNaN) || u == eu || (u - eu).abs ≤ 1e-5 * (off.toFloat.abs * sc + 1e-30)
        some (okc && oku && f32eq fmn (x32 rmn) && f32eq fmx (x32 rmx), s!"{showList ([c0, c1, c2, c3, c4].map fun x => fToBits x.toFloat)}")
      | _ => some (false, "arity")
    else
      let (c0, c1, c2, c3, c4) := pidBuild float32Ops (quantizeInt32 w.toNat q.toNat) (0 : Int) (· + ·) (fun k x => k * x)
        (x32 period) order.toNat g32 lim32
      let one : Int := 2 ^ q.toNat
      let rec' := fun (b0 b1 b2 a1 a2 : Int) => [b0 + b1 + b2, -(b1 + 2 * b2), b2, one + a1 + a2, -(a1 + 2 * a2), a2]
      match r with
      | [e0, e1, e2, e3, e4] =>
        let okc := (List.zip (rec' c0 c1 c2 c3 c4) (rec' e0 e1 e2 e3 e4)).zipIdx.all fun ((x, y), i) =>
          (x - y).natAbs ≤ 2 + (if i == 3 then one else x.natAbs) / 2 ^ 18
        let cfg : BiquadCfg := ⟨e0, e1, e2, e3, e4, 0, minI w.toNat, maxI w.toNat⟩
        let u := biquadSetInputOffset .checked w.toNat q.toNat cfg (fToInt32 w.toNat off)
        let oku := match u with
          | .ok v => v == ru
          | .error _ => false
        some (okc && oku && fToInt32 w.toNat fmn == rmn && fToInt32 w.toNat fmx == rmx, s!"{showList [c0, c1, c2, c3, c4]} {rshow toString u}")
      | _ => some (false, "arity")
  | "f_to_ba", [.int w, .int q, .list [c0, c1, c2, c3, c4]], [.list r] =>
    -- `<[[f64; 3]; 2]>::from(&Biquad<T>)`: the coefficients as f64 with a0 = ONE (no division)
    let cv : Int → Float := fun c => if w == 0 then fOfBits c else Float.ofInt c
    let one : Float := if w == 0 then 1.0 else Float.ofInt (2 ^ q.toNat)
    let m := [cv c0, cv c1, cv c2, one, cv c3, cv c4]
    some (m.map fToBits == r, showList (m.map fToBits))
  | "f_divscaled", [.int a, .int b], [.int r] =>
    -- float `Coefficient::div_scaled` is plain division
    let m := fOfBits a / fOfBits b
    some (f64eq m (fOfBits r), toString (fToBits m))
  | "f_svf", [.int f0, .int qq, .list [lp, hp, bp], .int x], [.list [rl, rh, rb]] =>
    -- `Svf::set_frequency(f0)`, `set_q(q)`, `update(&mut State {lp, hp, bp}, x)`
    let f := 2.0 * Float.sin (3.141592653589793 * fOfBits f0)
    let qi := 1.0 / fOfBits qq
    let _ := hp
    let lp' := fOfBits bp * f + fOfBits lp
    let hp' := fOfBits x - lp' - fOfBits bp * qi
    let bp' := hp' * f + fOfBits bp
    let m := [lp', hp', bp']
    let e := [rl, rh, rb].map fOfBits
    let sc := ([fOfBits lp, fOfBits bp, fOfBits x] ++ m).foldl (fun acc v => if v.abs > acc then v.abs else acc) 1e-300
    let ok := (List.zip m e).all fun (a, b) => (a.isNaN && b.isNaN) || a == b || (a - b).abs ≤ 1e-12 * sc * (1 + f.abs + qi.abs)
    some (ok, showList (m.map fToBits))
  | "f_quantize", [.int w, .int q, .int v], [.int r] =>
    let m := quantizeInt w.toNat q.toNat (fOfBits v)
    some (m == r, toString m)
  | "f_consts", [.int t], [.list r] =>
    -- `<f32/f64 as Coefficient>::{ONE, NEG_ONE, ZERO, MIN, MAX}` = 1, -1, 0, -inf, +inf
    let m : List Int := if t == 32 then [b32 1, b32 (-1), b32 0, b32 (Float32.ofBits 0xff800000), b32 (Float32.ofBits 0x7f800000)]
      else [b64 1, b64 (-1), b64 0, b64 (Float.ofBits 0xfff0000000000000), b64 (Float.ofBits 0x7ff0000000000000)]
    some (m == r, showList m)
  | "f_coeff", [.int typ, .int sk, .int sv, .int fr, .int g, .int sh], [.list [r0, r1, r2, r3, r4, r5]] =>
    let cfg : FilterCfg Float := ⟨fOfBits fr, fOfBits g, fOfBits sh, shapeOf sk (fOfBits sv)⟩
    let ((b0, b1, b2), (a0, a1, a2)) := cfg.build floatOps typ.toNat
    let m := [b0, b1, b2, a0, a1, a2]
    let e := [r0, r1, r2, r3, r4, r5].map fOfBits
    -- tolerance relative to the largest coefficient of the same polynomial (cancellation in small ones)
    let sb := (m.take 3).foldl (fun acc v => if v.abs > acc then v.abs else acc) 0
    let sa := (m.drop 3).foldl (fun acc v => if v.abs > acc then v.abs else acc) 0
    let ok := (List.zip m e).zipIdx.all fun ((x, y), i) =>
      let sc := if i < 3 then sb else sa
      (x.isNaN && y.isNaN) || x == y || (x - y).abs ≤ 1e-11 * sc || (x.isInf && y.isInf && (x > 0) == (y > 0))
    some (ok, showList (m.map fToBits))
  | "f_coeff32", [.int typ, .int sk, .int sv, .int fr, .int g, .int sh], [.list [r0, r1, r2, r3, r4, r5]] =>
    -- `Filter::<f32>`: the same model over binary32
    let v := f32OfBits sv
    let shape : Shape Float32 := match sk with | 0 => .q v | 1 => .bandwidth v | _ => .slope v
    let cfg : FilterCfg Float32 := ⟨f32OfBits fr, f32OfBits g, f32OfBits sh, shape⟩
    let ((b0, b1, b2), (a0, a1, a2)) := cfg.build float32Ops typ.toNat
    let m := [b0, b1, b2, a0, a1, a2].map Float32.toFloat
    let e := [r0, r1, r2, r3, r4, r5].map fun x => (f32OfBits x).toFloat
    let sb := (m.take 3).foldl (fun acc v => if v.abs > acc then v.abs else acc) 0
    let sa := (m.drop 3).foldl (fun acc v => if v.abs > acc then v.abs else acc) 0
    let ok := (List.zip m e).zipIdx.all fun ((x, y), i) =>
      let sc := if i < 3 then sb else sa
      (x.isNaN && y.isNaN) || x == y || (x - y).abs ≤ 2e-5 * sc || (x.isInf && y.isInf && (x > 0) == (y > 0))
    some (ok, showList (m.map fToBits))
  | "f_from_ba", [.int w, .int q, .list [b0, b1, b2, a0, a1, a2]], [.list r] =>
    let ba : BA Float := ((fOfBits b0, fOfBits b1, fOfBits b2), (fOfBits a0, fOfBits a1, fOfBits a2))
    let (c0, c1, c2, c3, c4) := biquadFromBa floatOps (quantizeInt w.toNat q.toNat) ba
    let m := [c0, c1, c2, c3, c4]
    some (m == r, showList m)
  | "f_pid", [.int w, .int q, .int period, .int order, .list gains, .list limits], [.list r] =>
    let lim := limits.map fun v => optInf (fOfBits v)
    let g := gains.map fOfBits
    if w == 0 then
      -- f64 coefficients
      let (c0, c1, c2, c3, c4) := pidBuild floatOps (fun x => x) (0 : Float) (· + ·) (fun k x => Float.ofInt k * x)
        (fOfBits period) order.toNat g lim
      let m := [c0, c1, c2, c3, c4]
      let e := r.map fOfBits
      let sc := m.foldl (fun acc v => if v.abs > acc then v.abs else acc) 1e-300
      let ok := m.length == e.length && (List.zip m e).all fun (x, y) =>
        (x.isNaN && y.isNaN) || x == y || (x - y).abs ≤ 1e-12 * sc
      some (ok, showList (m.map fToBits))
    else
      let (c0, c1, c2, c3, c4) := pidBuild floatOps (quantizeInt w.toNat q.toNat) (0 : Int) (· + ·) (fun k x => k * x)
        (fOfBits period) order.toNat g lim
      let m := [c0, c1, c2, c3, c4]
      -- a quantisation tie may fall on the other side when `powi` rounds differently: allow 3 LSB on b, exact on a
      -- whenever no limit is set (integrator kernel)
      let nolim := lim.all (·.isNone)
      let ok := m.length == r.length && (List.zip m r).zipIdx.all fun ((x, y), i) =>
        if i ≥ 3 && nolim then x == y else (x - y).natAbs ≤ 3 + x.natAbs / 2 ^ 48
      some (ok, showList m)
  | "f_pid32", [.int w, .int q, .int period, .int order, .list gains, .list limits], [.list r] =>
    -- `PidBuilder::<f32>::build::<C>()`, C = f64 (w = 0: `as` widening of each f32 gain) or fixed point (w, q).
    -- Compared PER GAIN: the three quantised gains / normalised limits are recovered from the coefficients
    -- (g2 = b2, g1 = -(b1 + 2 b2), g0 = b0 + b1 + b2), so a small gain is not hidden behind a large coefficient.
    let lim := limits.map fun v => let x := f32OfBits v; if x.isInf then none else some x
    let g := gains.map f32OfBits
    if w == 0 then
      let (c0, c1, c2, c3, c4) := pidBuild float32Ops (fun x => x.toFloat) (0 : Float) (· + ·) (fun k x => Float.ofInt k * x)
        (f32OfBits period) order.toNat g lim
      let rec' := fun (b0 b1 b2 a1 a2 : Float) => [b0 + b1 + b2, -(b1 + 2 * b2), b2, 1 + a1 + a2, -(a1 + 2 * a2), a2]
      let m := rec' c0 c1 c2 c3 c4
      match r.map fOfBits with
      | [e0, e1, e2, e3, e4] =>
        let e := rec' e0 e1 e2 e3 e4
        let sc := m.foldl (fun acc v => if v.abs > acc then v.abs else acc) 1e-300
        let ok := (List.zip m e).zipIdx.all fun ((x, y), i) =>
          (x.isNaN && y.isNaN) || x == y || (x - y).abs ≤ 4e-6 * (if i == 3 then 1 + x.abs else x.abs) + 1e-13 * sc
        some (ok, showList ([c0, c1, c2, c3, c4].map fToBits))
      | _ => some (false, "arity")
    else
      let (c0, c1, c2, c3, c4) := pidBuild float32Ops (quantizeInt32 w.toNat q.toNat) (0 : Int) (· + ·) (fun k x => k * x)
        (f32OfBits period) order.toNat g lim
      let one : Int := 2 ^ q.toNat
      let rec' := fun (b0 b1 b2 a1 a2 : Int) => [b0 + b1 + b2, -(b1 + 2 * b2), b2, one + a1 + a2, -(a1 + 2 * a2), a2]
      match r with
      | [e0, e1, e2, e3, e4] =>
        -- entry 3 is ONE - (l1 + l2), not a quantised value of its own: its error is relative to ONE
        let ok := (List.zip (rec' c0 c1 c2 c3 c4) (rec' e0 e1 e2 e3 e4)).zipIdx.all fun ((x, y), i) =>
          (x - y).natAbs ≤ 2 + (if i == 3 then one else x.natAbs) / 2 ^ 18
        some (ok, showList [c0, c1, c2, c3, c4])
      | _ => some (false, "arity")
  | _, _, _ => none

structure Stats where
  total : Nat := 0
  mismatches : Nat := 0
  unparsed : Nat := 0
  panics : Nat := 0
  perOp : List (String × Nat × Nat) := []   -- op, count, panics

def Stats.bump (s : Stats) (op : String) (panic : Bool) : Stats :=
  let p := if panic then 1 else 0
  let rec upd : List (String × Nat × Nat) → List (String × Nat × Nat)
    | [] => [(op, 1, p)]
    | (o, c, q) :: t => if o == op then (o, c + 1, q + p) :: t else (o, c, q) :: upd t
  { s with total := s.total + 1, panics := s.panics + p, perOp := upd s.perOp }

/-- process one line; returns new state, new stats and an optional report line -/
def stepLine (st : DState) (stats : Stats) (lineNo : Nat) (line : String) : DState × Stats × Option String :=
  let line := line.trimAscii.toString
  if line.isEmpty || line.startsWith "#" then (st, stats, none) else
  match line.splitOn " => " with
  | [lhs, rhs] =>
    match lhs.splitOn " " with
    | ms :: op :: args =>
      let m := if ms == "C" then Mode.checked else Mode.release
      match args.mapM parseTok with
      | some toks =>
        if op.startsWith "f_" then
          match (rhs.splitOn " ").mapM parseTok with
          | some rt =>
            match evalApprox op toks rt with
            | some (ok, out) =>
              let stats := stats.bump op false
              if ok then (st, stats, none)
              else (st, { stats with mismatches := stats.mismatches + 1 },
                    some s!"MISMATCH line={lineNo} model=<{out}> :: {line}")
            | none => (st, { stats with unparsed := stats.unparsed + 1 }, some s!"UNPARSED line={lineNo} :: {line}")
          | none => (st, { stats with unparsed := stats.unparsed + 1 }, some s!"UNPARSED line={lineNo} :: {line}")
        else
        match evalOp st m op toks with
        | some (st', out) =>
          let stats := stats.bump op (rhs == "PANIC")
          if out == rhs then (st', stats, none)
          else (st', { stats with mismatches := stats.mismatches + 1 },
                some s!"MISMATCH line={lineNo} model=<{out}> :: {line}")
        | none => (st, { stats with unparsed := stats.unparsed + 1 }, some s!"UNPARSED line={lineNo} :: {line}")
      | none => (st, { stats with unparsed := stats.unparsed + 1 }, some s!"UNPARSED line={lineNo} :: {line}")
    | _ => (st, { stats with unparsed := stats.unparsed + 1 }, some s!"UNPARSED line={lineNo} :: {line}")
  | _ => (st, { stats with unparsed := stats.unparsed + 1 }, some s!"UNPARSED line={lineNo} :: {line}")

end Idsp
