import IdspModel.Props.C20b
import IdspModel.Lemmas.C20cFilter
import IdspModel.Lemmas.C20cNum
import IdspModel.Lemmas.C20cCic
/-!
# C20, third part — the entry points that `C20b` listed as gaps

Property theorems only (helper lemmas: `Lemmas/C20cFilter.lean`, `C20cNum.lean`, `C20cCic.lean`).  In the order of
the gap list of `Props/C20b.lean`:

1. the `filter.rs` glue types `Nyquist`, `Repeat<N, Lowpass<1>>`, `Cascade<Lowpass<1>, Nyquist>` and `AccuOsc<Sweep>`:
   total on their whole documented domain (both profiles);
2. `Biquad::forward_gain`, `input_offset`, `set_input_offset`: the EXACT condition under which the checked model
   returns (`b0 + b1` and `b0 + b1 + b2` fit the sample type; `input_offset` in addition needs a non-zero gain), with
   panic witnesses;
3. fixed-point `Biquad::update::<2>` (DF2T): checked `.ok` iff all five plain sums of the step fit the sample type;
   release: always `.ok`;
4. `Cic::settle_interpolate`: checked `.ok` iff `rate as T + 1`, its `N`-th power and (for `N ≥ 1`) `x·gain` fit;
5. `Cic::decimate` from ANY in-range state (range invariant), `Cic::interpolate` from ANY state: the exact one-step
   `.ok` condition of either branch.
-/
namespace Idsp
set_option linter.unusedVariables false

/-! ## 1. `filter.rs` glue types and `AccuOsc<Sweep>` -/

/-- `Nyquist::update`, ANY state, every `i32` sample: wrapping add and a halving only (total model); the new state
    is a halved sample (`−2^30 ≤ · < 2^30`), the output is an `i32`, and from a state that is a halved sample (every
    reachable state, and `default()`) nothing wraps: `y = ⌊x/2⌋ + state`. -/
theorem c20c_nyquist (st x : Int) (hx : inI 32 x = true) :
    (-2 ^ 30 ≤ (nyquistUpdate st x).1 ∧ (nyquistUpdate st x).1 < 2 ^ 30) ∧
    inI 32 (nyquistUpdate st x).2 = true ∧
    (-2 ^ 30 ≤ st → st < 2 ^ 30 → (nyquistUpdate st x).2 = x / 2 + st) := by
  have ⟨hx0, hx1⟩ := inI_iff.mp hx
  simp only [show (32 : Nat) - 1 = 31 from rfl, Int.reducePow, Int.reduceNeg] at hx0 hx1
  simp only [nyquistUpdate, shr, Int.reducePow, Int.reduceNeg, Int.pow_one]
  refine ⟨by omega, wrapI_in (by decide) _, fun h0 h1 => wrapI_of_in (by decide) ?_⟩
  rw [inI_iff]; simp only [show (32 : Nat) - 1 = 31 from rfl, Int.reducePow, Int.reduceNeg]; omega

/-- `Lowpass<1>` used as a stage (both profiles): every `i64` state, `i32` sample, gain `1 ≤ k ≤ 2^31 − 1`; the output
    is again an `i32` (between the previous output and the input), so stages compose. -/
theorem c20c_lowpass1_stage (m : Mode) (s x k : Int) (hs : inI 64 s = true) (hx : inI 32 x = true)
    (hk0 : 1 ≤ k) (hk1 : k ≤ 2 ^ 31 - 1) :
    ∃ s' y, lp1Update m s x k = .ok (s', y) ∧ inI 64 s' = true ∧ inI 32 y = true :=
  let ⟨s', y, h, h1, h2, _⟩ := c20c_lp1_stage m s x k hs hx hk0 hk1
  ⟨s', y, h, h1, h2⟩

/-- `Repeat<N, Lowpass<1>>::update` for EVERY `N` (the modelled instance is `N = 3`), both profiles: every list of
    `i64` stage states, every `i32` sample, every gain `1 ≤ k ≤ 2^31 − 1`: returns, with `N` new `i64` states and an
    `i32` output (so runs of any length return). -/
theorem c20c_repeat_lowpass1 (m : Mode) (ss : List Int) (x k : Int) (hss : ∀ s ∈ ss, inI 64 s = true)
    (hx : inI 32 x = true) (hk0 : 1 ≤ k) (hk1 : k ≤ 2 ^ 31 - 1) :
    ∃ ss' y, repeatLp1Update m ss x k = .ok (ss', y) ∧ ss'.length = ss.length ∧
      (∀ s ∈ ss', inI 64 s = true) ∧ inI 32 y = true :=
  c20c_repeat_lp1 m ss x k hss hx hk0 hk1

/-- `Cascade<Lowpass<1>, Nyquist>::update`, both profiles: every `i64` lowpass state, ANY Nyquist state, every `i32`
    sample, every gain `1 ≤ k ≤ 2^31 − 1`: returns; new lowpass state an `i64`, new Nyquist state a halved sample,
    output an `i32`. -/
theorem c20c_cascade_lowpass1_nyquist (m : Mode) (s n x k : Int) (hs : inI 64 s = true) (hx : inI 32 x = true)
    (hk0 : 1 ≤ k) (hk1 : k ≤ 2 ^ 31 - 1) :
    ∃ s' n' z, cascadeLp1NyqUpdate m s n x k = .ok (s', n', z) ∧ inI 64 s' = true ∧
      (-2 ^ 30 ≤ n' ∧ n' < 2 ^ 30) ∧ inI 32 z = true := by
  obtain ⟨s', y, h, hs', hy, -⟩ := c20c_lp1_stage m s x k hs hx hk0 hk1
  obtain ⟨h1, h2, -⟩ := c20c_nyquist n y hy
  refine ⟨s', (nyquistUpdate n y).1, (nyquistUpdate n y).2, ?_, hs', h1, h2⟩
  simp only [cascadeLp1NyqUpdate, h, bind_ok']

/-- `AccuOsc<Sweep>::next`, both profiles: every `i32` rate, every `i64` sweep state, ANY phase accumulator: returns;
    the new phase accumulator is an `i64` and the sample is `cossin` of the high word of the old one. -/
theorem c20c_accu_osc (m : Mode) (rate sw phase : Int) (hr : inI 32 rate = true) (hs : inI 64 sw = true) :
    ∃ sw', accuOscNext m rate sw phase =
        .ok (sw', wrapI 64 (phase + sw), (cossinVal (wrapI 32 (shr phase 32))).1,
             (cossinVal (wrapI 32 (shr phase 32))).2) ∧
      inI 64 (wrapI 64 (phase + sw)) = true := by
  refine ⟨if inI 64 (sw + rate * ((sw + 2 ^ 31) / 2 ^ 32)) then sw + rate * ((sw + 2 ^ 31) / 2 ^ 32) else 0, ?_,
    wrapI_in (by decide) _⟩
  unfold accuOscNext
  rw [c20_sweep_next m rate sw hr hs]
  simp only [bind_ok']
  rw [cossin_closed_form m _ (wrapI_in (by decide) _)]
  rfl

/-! ## 2. `Biquad::forward_gain`, `input_offset`, `set_input_offset` (generic in `w`, `q`) -/

/-- `forward_gain()`, checked: returns EXACTLY when `b0 + b1` and `b0 + b1 + b2` fit the coefficient type (then the
    value is the exact sum). -/
theorem c20c_forward_gain_iff (w : Nat) (c : BiquadCfg) :
    (∃ g, biquadForwardGain .checked w c = .ok g) ↔
      inI w (c.b0 + c.b1) = true ∧ inI w (c.b0 + c.b1 + c.b2) = true :=
  ⟨fun ⟨g, h⟩ => let ⟨h1, h2, _⟩ := (c20c_forwardGain_iff w c g).mp h; ⟨h1, h2⟩,
   fun ⟨h1, h2⟩ => ⟨_, (c20c_forwardGain_iff w c _).mpr ⟨h1, h2, rfl⟩⟩⟩

/-- `forward_gain()`, either profile, when both sums fit: the exact sum. -/
theorem c20c_forward_gain_value (m : Mode) (w : Nat) (c : BiquadCfg) (h1 : inI w (c.b0 + c.b1) = true)
    (h2 : inI w (c.b0 + c.b1 + c.b2) = true) : biquadForwardGain m w c = .ok (c.b0 + c.b1 + c.b2) :=
  c20c_forwardGain_of_fit m h1 h2

/-- panic witness (Q2.6 on `i8`): the in-range coefficients `b = [0.5, 1.0, 0.5]` have forward gain `2.0`, which
    is not representable: the checked build panics at the second `+`, the release build returns `-2.0`. -/
theorem c20c_forward_gain_panic_witness :
    biquadForwardGain .checked 8 ⟨32, 64, 32, 0, 0, 0, -128, 127⟩ = .error ⟨"biquad.rs:338 + ba[2]"⟩ ∧
    biquadForwardGain .release 8 ⟨32, 64, 32, 0, 0, 0, -128, 127⟩ = .ok (-128) := by decide

/-- `input_offset()`, checked: returns EXACTLY when the forward gain fits and is non-zero. -/
theorem c20c_input_offset_iff (w q : Nat) (c : BiquadCfg) :
    (∃ v, biquadInputOffset .checked w q c = .ok v) ↔
      inI w (c.b0 + c.b1) = true ∧ inI w (c.b0 + c.b1 + c.b2) = true ∧ c.b0 + c.b1 + c.b2 ≠ 0 := by
  unfold biquadInputOffset
  constructor
  · rintro ⟨v, h⟩
    obtain ⟨g, e, h⟩ := bind_eq_ok h
    obtain ⟨h1, h2, rfl⟩ := (c20c_forwardGain_iff w c g).mp e
    refine ⟨h1, h2, fun h0 => ?_⟩
    rw [divScaled, if_pos h0] at h; cases h
  · rintro ⟨h1, h2, h0⟩
    rw [c20c_forwardGain_of_fit .checked h1 h2, ok_bind, divScaled, if_neg h0]
    exact ⟨_, rfl⟩

/-- `input_offset()`, either profile, in-range offset `u`, fitting non-zero gain `g`: `u·ONE / g` truncated toward
    zero, reduced to `w` bits. -/
theorem c20c_input_offset_value (m : Mode) (w q : Nat) (hw : 0 < w) (hq : q ≤ w) (c : BiquadCfg)
    (hu : inI w c.u = true) (h1 : inI w (c.b0 + c.b1) = true) (h2 : inI w (c.b0 + c.b1 + c.b2) = true)
    (h0 : c.b0 + c.b1 + c.b2 ≠ 0) :
    biquadInputOffset m w q c = .ok (wrapI w (Int.tdiv (c.u * 2 ^ q) (c.b0 + c.b1 + c.b2))) := by
  unfold biquadInputOffset
  rw [c20c_forwardGain_of_fit m h1 h2, ok_bind]
  exact (div_scaled_exact w q hw hq c.u _ hu).2.1 h0

/-- `input_offset()` with a zero forward gain (e.g. any high-pass, `b = [k, −2k, k]`) panics in BOTH profiles
    (integer division by zero). -/
theorem c20c_input_offset_zero_gain_panics (m : Mode) (w q : Nat) (c : BiquadCfg)
    (h1 : inI w (c.b0 + c.b1) = true) (h0 : c.b0 + c.b1 + c.b2 = 0) :
    biquadInputOffset m w q c = .error ⟨"num.rs:131 division by zero"⟩ := by
  have h2 : inI w (c.b0 + c.b1 + c.b2) = true := by rw [h0, inI_iff]; have := two_pow_pos (w - 1); omega
  unfold biquadInputOffset
  rw [c20c_forwardGain_of_fit m h1 h2, ok_bind, divScaled, if_pos h0]

/-- `set_input_offset(offset)`, checked, `0 < q < w`, in-range `offset`: returns EXACTLY when the forward gain fits
    (`mul_scaled` itself never overflows). -/
theorem c20c_set_input_offset_iff (w q : Nat) (hq0 : 0 < q) (hq : q < w) (c : BiquadCfg) (offset : Int)
    (ho : inI w offset = true) :
    (∃ v, biquadSetInputOffset .checked w q c offset = .ok v) ↔
      inI w (c.b0 + c.b1) = true ∧ inI w (c.b0 + c.b1 + c.b2) = true := by
  unfold biquadSetInputOffset
  constructor
  · rintro ⟨v, h⟩
    obtain ⟨g, e, h⟩ := bind_eq_ok h
    obtain ⟨h1, h2, -⟩ := (c20c_forwardGain_iff w c g).mp e
    exact ⟨h1, h2⟩
  · rintro ⟨h1, h2⟩
    rw [c20c_forwardGain_of_fit .checked h1 h2, ok_bind, c20c_mulScaled .checked hq0 hq ho h2]
    exact ⟨_, rfl⟩

/-- `set_input_offset(offset)`, either profile, when the gain `g` fits: the new `u` is `⌊(offset·g + ONE/2)/ONE⌋`
    reduced to `w` bits. -/
theorem c20c_set_input_offset_value (m : Mode) (w q : Nat) (hq0 : 0 < q) (hq : q < w) (c : BiquadCfg)
    (offset : Int) (ho : inI w offset = true) (h1 : inI w (c.b0 + c.b1) = true)
    (h2 : inI w (c.b0 + c.b1 + c.b2) = true) :
    biquadSetInputOffset m w q c offset =
      .ok (wrapI w ((offset * (c.b0 + c.b1 + c.b2) + 2 ^ (q - 1)) / 2 ^ q)) := by
  unfold biquadSetInputOffset
  rw [c20c_forwardGain_of_fit m h1 h2, ok_bind]
  exact mulScaled_eq m hq0 hq ho h2

/-! ## 3. fixed-point `Biquad::update::<2>` (DF2T)

All arithmetic of this form is on the `w`-bit SAMPLE type (no wide accumulator): five `mul_scaled` products
(`c20c_mulVal`, which never overflow) and five plain `+`/`−`.  `BiquadCfg.Df2tFit w q c s0 s1 x0` says that these five
sums fit: `s0 + b0·x0`, `s1 + b1·x0`, `s1 + b1·x0 − a1·y0`, `u + b2·x0`, `u + b2·x0 − a2·y0`, with
`y0 = clamp(s0 + b0·x0)` and `·` the rounded scaled product. -/

/-- `update::<2>`, either profile, `0 < q < w`, in-range configuration and input: all five sums fit ⇒ returns the
    exact DF2T step (new state `(c20c_df2tS0, c20c_df2tS1)`, output `c20c_df2tY`). -/
theorem c20c_biquad_update2 (m : Mode) (w q : Nat) (hq0 : 0 < q) (hq : q < w) (c : BiquadCfg)
    (hc : c.inRange w) (s0 s1 x0 : Int) (hx0 : inI w x0 = true) (hf : c.Df2tFit w q s0 s1 x0) :
    biquadUpdate2 m w q c (s0, s1) x0 =
      .ok ((c20c_df2tS0 w q c s0 s1 x0, c20c_df2tS1 w q c s0 x0), c20c_df2tY w q c s0 x0) :=
  c20c_update2_of_fit m hq0 hq hc hx0 hf

/-- `update::<2>`, checked: returns EXACTLY when all five sums fit. -/
theorem c20c_biquad_update2_iff (w q : Nat) (hq0 : 0 < q) (hq : q < w) (c : BiquadCfg)
    (hc : c.inRange w) (s0 s1 x0 : Int) (hx0 : inI w x0 = true) :
    (∃ v, biquadUpdate2 .checked w q c (s0, s1) x0 = .ok v) ↔ c.Df2tFit w q s0 s1 x0 :=
  ⟨fun ⟨_, h⟩ => c20c_fit_of_update2 hq0 hq hc hx0 h,
   fun hf => ⟨_, c20c_update2_of_fit .checked hq0 hq hc hx0 hf⟩⟩

/-- `update::<2>`, release: returns for ANY configuration, state and input. -/
theorem c20c_biquad_update2_release (w q : Nat) (hw : 0 < w) (c : BiquadCfg) (st : Int × Int) (x0 : Int) :
    ∃ v, biquadUpdate2 .release w q c st x0 = .ok v :=
  c20c_update2_release hw q c st x0

/-- the new state of a returning checked step is in range again, so the hypotheses of `c20c_biquad_update2` other
    than the fit condition hold along every run -/
theorem c20c_biquad_update2_state_in_range (w q : Nat) (c : BiquadCfg) (s0 s1 x0 : Int)
    (hf : c.Df2tFit w q s0 s1 x0) :
    inI w (c20c_df2tS0 w q c s0 s1 x0) = true ∧ inI w (c20c_df2tS1 w q c s0 x0) = true :=
  ⟨hf.n0, hf.n1⟩

/-- panic witness (Q2.6 on `i8`, identity filter `b0 = 1.0`): state word `100` plus input `100` overflows the
    sample type at the first `+` (the exact output `200` would be clamped to `127`); the release build wraps BEFORE the
    clamp and returns `-56`. -/
theorem c20c_biquad_update2_panic_witness :
    biquadUpdate2 .checked 8 6 ⟨64, 0, 0, 0, 0, 0, -128, 127⟩ (100, 0) 100
      = .error ⟨"biquad.rs:482 xy[0] + b0*x0"⟩ ∧
    biquadUpdate2 .release 8 6 ⟨64, 0, 0, 0, 0, 0, -128, 127⟩ (100, 0) 100 = .ok ((0, 0), -56) := by decide

/-! ## 4. `Cic::settle_interpolate` -/

/-- `settle_interpolate(x)`, checked, ANY state, order `N`, width `w`: returns EXACTLY when `rate as T + 1`, its
    `N`-th power (`= gain()`) and, for `N ≥ 1`, `x·gain` fit the sample type.  (What it then returns:
    `settle_fixed_point`, C13.) -/
theorem c20c_cic_settle_iff (w : Nat) (s : Cic) (x : Int) :
    (∃ s', s.settleInterpolate .checked w x = .ok s') ↔
      inI w (wrapI w s.rate + 1) = true ∧ inI w ((wrapI w s.rate + 1) ^ s.order) = true ∧
      (s.order ≠ 0 → inI w (x * (wrapI w s.rate + 1) ^ s.order) = true) :=
  c20c_settle_ok_iff w s x

/-- the same with a representable rate (`rate as T = rate`): `rate + 1`, `(rate+1)^N`, `x·(rate+1)^N` fit. -/
theorem c20c_cic_settle (w : Nat) (hw : 0 < w) (s : Cic) (x : Int) (hr : inI w s.rate = true)
    (h1 : inI w (s.rate + 1) = true) (h2 : inI w ((s.rate + 1) ^ s.order) = true)
    (h3 : inI w (x * (s.rate + 1) ^ s.order) = true) :
    ∃ s', s.settleInterpolate .checked w x = .ok s' := by
  rw [c20c_cic_settle_iff, wrapI_of_in hw hr]
  exact ⟨h1, h2, fun _ => h3⟩

/-! ## 5. CIC from arbitrary states -/

/-- `Cic::decimate` from ANY in-range state (`Cic.InRange w s`: all registers are sample-type values, `index` and
    `rate` are `u32`s), every sample: wrapping arithmetic only (total model); the new state is in range again, the
    order is unchanged and an emitted value is a sample-type value.  Hence the range facts hold along every run
    from every in-range state. -/
theorem c20c_cic_decimate_any_state (w : Nat) (hw : 0 < w) (s : Cic) (x : Int) (hs : s.InRange w)
    (hx : inI w x = true) :
    (s.decimate w x).1.InRange w ∧ (s.decimate w x).1.order = s.order ∧
    (s.decimate w x).1.integrators.length = s.integrators.length ∧
    ∀ v, (s.decimate w x).2 = some v → inI w v = true := by
  obtain ⟨i1, i2, i3⟩ := c20c_integWrap_range hw s.integrators x hx
  obtain ⟨c1, c2, c3⟩ := c20c_combsWrap_range hw s.combs (integWrap w s.integrators x).2 i2
  unfold Cic.decimate
  simp only
  split
  · next h =>
    refine ⟨⟨hs.combs, i1, hs.zoh, ?_, hs.rate⟩, rfl, i3, fun v hv => by cases hv⟩
    have := hs.index; simp only; omega
  · refine ⟨⟨c1, i1, c2, hs.rate, hs.rate⟩, c3, i3, fun v hv => ?_⟩
    cases hv; exact c2

/-- `Cic::interpolate(Some(x))`, checked, ANY state: returns EXACTLY when `tick()` holds (`index = 0`, the
    `debug_assert`), every comb difference fits (`combsFits`) and every integrator sum of the exact chain fed with the
    comb output fits. -/
theorem c20c_cic_interpolate_some_iff (w : Nat) (s : Cic) (x : Int) :
    (∃ r, s.interpolate .checked w (some x) = .ok r) ↔
      s.index = 0 ∧ combsFits w s.combs x ∧
      ∀ v ∈ (integZ s.integrators (combsZ s.combs x).2).1, inI w v = true := by
  constructor
  · rintro ⟨r, h⟩
    by_cases h0 : s.index = 0
    · rw [interpolate_some_eq .checked w s x h0] at h
      cases hc : combsChk .checked w s.combs x with
      | error e => rw [hc] at h; cases h
      | ok cz =>
        have hcz := combsChk_checked_ok hc
        obtain ⟨cs, z⟩ := cz
        rw [hc] at h
        simp only at h
        cases hi : integChk .checked w s.integrators z with
        | error e => rw [hi] at h; cases h
        | ok iy =>
          refine ⟨h0, c20c_combsFits_of_ok hc, ?_⟩
          rw [← hcz]
          exact c20c_integFits_of_ok hi
    · rw [interpolate_some_checked_panics w s x h0] at h; cases h
  · rintro ⟨h0, hc, hi⟩
    rw [interpolate_some_eq .checked w s x h0, combsChk_ok_of_fits s.combs x hc]
    simp only
    rw [integChk_ok_of_fits s.integrators _ hi]
    exact ⟨_, rfl⟩

/-- `Cic::interpolate(None)`, checked, ANY state with a `u32` index: returns EXACTLY when `tick()` is false
    (`index ≥ 1`, else `index -= 1` underflows) and every integrator sum of the exact chain fed with the held value
    fits. -/
theorem c20c_cic_interpolate_none_iff (w : Nat) (s : Cic) (hidx : 0 ≤ s.index ∧ s.index < 2 ^ 32) :
    (∃ r, s.interpolate .checked w none = .ok r) ↔
      1 ≤ s.index ∧ ∀ v ∈ (integZ s.integrators s.zoh).1, inI w v = true := by
  constructor
  · rintro ⟨r, h⟩
    by_cases h0 : s.index = 0
    · rw [interpolate_none_checked_panics w s h0] at h; cases h
    · have h1 : 1 ≤ s.index := by omega
      rw [interpolate_none_eq .checked w s h1 (by omega)] at h
      cases hi : integChk .checked w s.integrators s.zoh with
      | error e => rw [hi] at h; cases h
      | ok iy => exact ⟨h1, c20c_integFits_of_ok hi⟩
  · rintro ⟨h1, hi⟩
    rw [interpolate_none_eq .checked w s h1 (by omega), integChk_ok_of_fits s.integrators _ hi]
    exact ⟨_, rfl⟩

/-! ## non-vacuity -/

/-- `Repeat<3, Lowpass<1>>` with full-scale states and input, maximal gain -/
example : ∃ ss' y, repeatLp1Update .checked [2 ^ 63 - 1, -2 ^ 63, 0] (-2 ^ 31) (2 ^ 31 - 1) = .ok (ss', y) ∧
    ss'.length = 3 ∧ (∀ s ∈ ss', inI 64 s = true) ∧ inI 32 y = true :=
  c20c_repeat_lowpass1 .checked _ _ _ (by decide) (by decide) (by decide) (by decide)

example : cascadeLp1NyqUpdate .checked (2 ^ 40) 1000 (-7) 12345 = .ok (1099505134306, 127, 1127) := by decide

/-- `forward_gain` / `input_offset` / `set_input_offset` on `i8` Q2.6, `b = [0.25, 0.5, 0.25]`, `u = 0.5` -/
example : biquadForwardGain .checked 8 ⟨16, 32, 16, 0, 0, 32, -128, 127⟩ = .ok 64 ∧
    biquadInputOffset .checked 8 6 ⟨16, 32, 16, 0, 0, 32, -128, 127⟩ = .ok 32 ∧
    biquadSetInputOffset .checked 8 6 ⟨16, 32, 16, 0, 0, 32, -128, 127⟩ 32 = .ok 32 := by decide

/-- a high-pass numerator `[0.25, −0.5, 0.25]` has zero forward gain: `input_offset()` panics -/
example : biquadInputOffset .checked 8 6 ⟨16, -32, 16, 0, 0, 32, -128, 127⟩
    = .error ⟨"num.rs:131 division by zero"⟩ :=
  c20c_input_offset_zero_gain_panics .checked 8 6 _ (by decide) (by decide)

/-- `update::<2>` on `i8` Q2.6: a generic coefficient set and state for which all five sums fit -/
example : (⟨20, 40, 20, -70, 25, 3, -128, 127⟩ : BiquadCfg).Df2tFit 8 6 10 (-20) 90 := by
  constructor <;> decide
example : biquadUpdate2 .checked 8 6 ⟨20, 40, 20, -70, 25, 3, -128, 127⟩ (10, -20) 90 = .ok ((78, 16), 38) := by
  decide

/-- `settle_interpolate(7)` for `i16`, order 3, rate 3 (gain 64): the three conditions hold -/
example : ∃ s', (Cic.new 3 3).settleInterpolate .checked 16 7 = .ok s' :=
  c20c_cic_settle 16 (by decide) _ 7 (by decide) (by decide) (by decide) (by decide)
/-- … and for `i8` the same call panics (`7·64 = 448` does not fit) -/
example : ¬ ∃ s', (Cic.new 3 3).settleInterpolate .checked 8 7 = .ok s' := by
  rw [c20c_cic_settle_iff]; decide

/-- an in-range `i8` state that is NOT reachable from `Cic::new` (integrators at the extremes) -/
example : (⟨2, 1, -128, [127, -128], [127, -128]⟩ : Cic).InRange 8 := by
  constructor <;> decide
example : (⟨2, 0, 5, [1, 2], [3, 4]⟩ : Cic).interpolate .checked 8 (some 100) =
    .ok (⟨2, 2, 97, [100, 99], [100, 104]⟩, 104) := by decide

/-!
## Remaining gaps after this file

Closed here: `Nyquist`, `Repeat<N, Lowpass<1>>`, `Cascade<Lowpass<1>, Nyquist>`, `AccuOsc<Sweep>` (total);
`forward_gain`, `input_offset`, `set_input_offset`, `update::<2>`, `settle_interpolate`, `interpolate` one step
(exact `.ok` conditions); `decimate` from any in-range state (range invariant).

Findings recorded on the way (the code panics inside what a user would take for its domain; none of them is covered
by a documented precondition that I could find in the model comments):
* `forward_gain()` (hence `input_offset()`, `set_input_offset()`) panics in the checked profile and wraps in the
  release profile whenever `b0 + b1 + b2` (or `b0 + b1`) is not representable, e.g. `b = [0.5, 1.0, 0.5]`
  (`c20c_forward_gain_panic_witness`);
* `input_offset()` panics in BOTH profiles for every filter with zero DC numerator gain, e.g. every high-pass
  (`c20c_input_offset_zero_gain_panics`);
* `update::<2>` on the fixed-point types has no wide accumulator: `s0 + b0·x0` overflows the sample type before the
  clamp (`c20c_biquad_update2_panic_witness`).

Still open:
* a condition on INPUT AMPLITUDE and coefficients only (not on the state) under which `Df2tFit` holds along a whole
  run of `update::<2>` — would need a bound on the DF2T state words (an `ℓ¹`-norm argument per filter);
* `Cic::interpolate` runs from arbitrary states: only the one-step characterisation is proved; the closed-form
  (FIR) description of whole runs still starts from `Cic::new` (C13);
* `Cic::gain_log2`: no bound showing that `bits·N` stays below `2^32` (the model does not reduce it);
* `Unwrapper::wraps`, `Unwrapper::phase`: pure wrapping getters, no theorem;
* `Lowpass<2>` between the proved domains (`±2^29` arbitrary sequences, `±2^30` level changes, Butterworth pairs) and
  the clause; `Lockin` for non-tone inputs; `Repeat`/`Cascade` over `Lowpass<2>` (not modelled);
* `Lowpass<N ≥ 3>`, `Biquad::update::<3>`, cascades with `x = Some(..)`, `svf`, `Sweep::fit`, the float helpers of
  `Sweep`, `PidBuilder::build` as floating-point code: not modelled as `R`-valued functions.
-/

end Idsp
