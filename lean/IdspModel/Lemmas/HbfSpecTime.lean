import IdspModel.Lemmas.HbfSpecTimeLit4
import IdspModel.Lemmas.HbfExamples
/-!
Time-domain facts about the overall impulse response `hbfCascadeFir d` of the depth-`d` half-band cascade built
from `HBF_TAPS` (`d ≤ 4`), by exact computation over `ℚ` (kernel-checked, via the evaluated form
`hbfCascadeFirLit d` of `Lemmas/HbfSpecTimeLit*.lean`):

* `hbfSpec_fir_symm` — exact linear phase (the response is its own reverse);
* `hbfSpec_fir_span` — the length is `response_length() + 1` and both end taps are non-zero;
* `hbfSpec_fir_dc`   — the DC gain `Σ h / 2^d` is within `10⁻⁶` of 1.

Also: the model's default cascades over `ℚ` (`hbfIntCascadeQ d`, `hbfDecCascadeQ d`), their well-formedness, and
the admissibility of the blocks used in `Lemmas/HbfSpecTime3.lean` ff. (impulse responses of the MODEL).
-/
namespace Idsp

theorem hbfCascadeFir_eq_lit (d : ℕ) (h1 : 1 ≤ d) (h4 : d ≤ 4) : hbfCascadeFir d = hbfCascadeFirLit d := by
  have : d = 1 ∨ d = 2 ∨ d = 3 ∨ d = 4 := by omega
  rcases this with rfl | rfl | rfl | rfl
  · exact hbfCascadeFir_eq_lit1
  · exact hbfCascadeFir_eq_lit2
  · exact hbfCascadeFir_eq_lit3
  · exact hbfCascadeFir_eq_lit4

theorem hbfCascadeFir_zero : hbfCascadeFir 0 = [1] := rfl

/-! ## A. time-domain facts -/

theorem hbfCascadeFirN_symm (d : ℕ) : (hbfCascadeFirN d).reverse = hbfCascadeFirN d := by
  by_cases h : 1 ≤ d ∧ d ≤ 4
  · have : d = 1 ∨ d = 2 ∨ d = 3 ∨ d = 4 := by omega
    rcases this with rfl | rfl | rfl | rfl <;> decide +kernel
  · have : hbfCascadeFirN d = [] := by
      unfold hbfCascadeFirN
      split <;> first | omega | rfl
    rw [this]; rfl

/-- **Exact linear phase**: the impulse response of the depth-`d` cascade (`d ≤ 4`) is symmetric. -/
theorem hbfSpec_fir_symm (d : ℕ) (hd : d ≤ 4) : (hbfCascadeFir d).reverse = hbfCascadeFir d := by
  rcases Nat.eq_zero_or_pos d with rfl | h1
  · rfl
  · rw [hbfCascadeFir_eq_lit d h1 hd, hbfCascadeFirLit, ← List.map_reverse, hbfCascadeFirN_symm]

theorem opt_ne_zero_of_ne (o : Option ℚ) (h1 : o ≠ none) (h2 : o ≠ some 0) : ∃ a, o = some a ∧ a ≠ 0 := by
  cases o with
  | none => exact absurd rfl h1
  | some a => exact ⟨a, rfl, fun h => h2 (by rw [h])⟩

theorem hbfSpec_fir_span_aux (d : ℕ) (hd : d ≤ 4) :
    (hbfCascadeFir d).length = hbfIntResponseLength [23, 9, 5, 4] d + 1 ∧
    (hbfCascadeFir d).head? ≠ none ∧ (hbfCascadeFir d).head? ≠ some 0 ∧
    (hbfCascadeFir d).getLast? ≠ none ∧ (hbfCascadeFir d).getLast? ≠ some 0 := by
  rcases Nat.eq_zero_or_pos d with rfl | h1
  · decide +kernel
  · rw [hbfCascadeFir_eq_lit d h1 hd]
    have : d = 1 ∨ d = 2 ∨ d = 3 ∨ d = 4 := by omega
    rcases this with rfl | rfl | rfl | rfl <;> decide +kernel

/-- **Span**: the impulse response of the depth-`d` cascade (`d ≤ 4`) has exactly `response_length() + 1` entries
    (`hbfIntResponseLength` = `HbfIntCascade::response_length()` for the tap counts `[23, 9, 5, 4]`), and its first
    and last entries exist and are non-zero: the response is not shorter than `response_length()` says. -/
theorem hbfSpec_fir_span (d : ℕ) (hd : d ≤ 4) :
    (hbfCascadeFir d).length = hbfIntResponseLength [23, 9, 5, 4] d + 1 ∧
    (∃ a, (hbfCascadeFir d).head? = some a ∧ a ≠ 0) ∧
    (∃ b, (hbfCascadeFir d).getLast? = some b ∧ b ≠ 0) := by
  obtain ⟨h0, h1, h2, h3, h4⟩ := hbfSpec_fir_span_aux d hd
  exact ⟨h0, opt_ne_zero_of_ne _ h1 h2, opt_ne_zero_of_ne _ h3 h4⟩

/-- the lengths as numbers: 1, 91, 215, 447, 907 -/
theorem hbfSpec_fir_length_values :
    (hbfCascadeFir 0).length = 1 ∧ (hbfCascadeFir 1).length = 91 ∧ (hbfCascadeFir 2).length = 215 ∧
    (hbfCascadeFir 3).length = 447 ∧ (hbfCascadeFir 4).length = 907 := by
  refine ⟨rfl, ?_, ?_, ?_, ?_⟩
  · rw [(hbfSpec_fir_span 1 (by omega)).1]; decide
  · rw [(hbfSpec_fir_span 2 (by omega)).1]; decide
  · rw [(hbfSpec_fir_span 3 (by omega)).1]; decide
  · rw [(hbfSpec_fir_span 4 (by omega)).1]; decide

/-- **DC gain**: the sum of the impulse response of the depth-`d` cascade (`d ≤ 4`), normalised by the
    interpolation factor `2^d`, is within `10⁻⁶` of 1 (exact arithmetic over `ℚ`). -/
theorem hbfSpec_fir_dc (d : ℕ) (hd : d ≤ 4) : |(hbfCascadeFir d).sum / 2 ^ d - 1| < 1 / 10 ^ 6 := by
  rcases Nat.eq_zero_or_pos d with rfl | h1
  · decide +kernel
  · rw [hbfCascadeFir_eq_lit d h1 hd]
    have : d = 1 ∨ d = 2 ∨ d = 3 ∨ d = 4 := by omega
    rcases this with rfl | rfl | rfl | rfl <;> decide +kernel

/-! ## B. the model's default cascades over `ℚ` -/

/-- the operations of the `f32` cascades read over `ℚ`: ring `+`, `*`, `sum`, and `half x = x / 2`
    (`impl_half_f!`: `0.5 * self`) -/
def hbfQOps : Ops ℚ := ringOps (fun x : ℚ => x / 2)

/-- `HbfIntCascade::default()` followed by `set_depth(d)`, over `ℚ`: stage `j` is
    `HbfInt::<f32, M_j, {2*M_j - 1 + HBF_CASCADE_BLOCK * 2^j}>::new(&HBF_TAPS.j)`, `M = 23, 9, 5, 4`,
    `HBF_CASCADE_BLOCK = 64` -/
def hbfIntCascadeQ (d : ℕ) : HbfIntCascade ℚ :=
  ⟨d, [HbfInt.new hbfQOps (2 * 23 - 1 + 64) (hbfTapsQ 0),
       HbfInt.new hbfQOps (2 * 9 - 1 + 64 * 2) (hbfTapsQ 1),
       HbfInt.new hbfQOps (2 * 5 - 1 + 64 * 4) (hbfTapsQ 2),
       HbfInt.new hbfQOps (2 * 4 - 1 + 64 * 8) (hbfTapsQ 3)]⟩

/-- `HbfDecCascade::default()` followed by `set_depth(d)`, over `ℚ` (same shapes as `hbfIntCascadeQ`) -/
def hbfDecCascadeQ (d : ℕ) : HbfDecCascade ℚ :=
  ⟨d, [HbfDec.new hbfQOps (2 * 23 - 1 + 64) (hbfTapsQ 0),
       HbfDec.new hbfQOps (2 * 9 - 1 + 64 * 2) (hbfTapsQ 1),
       HbfDec.new hbfQOps (2 * 5 - 1 + 64 * 4) (hbfTapsQ 2),
       HbfDec.new hbfQOps (2 * 4 - 1 + 64 * 8) (hbfTapsQ 3)]⟩

/-- the tap counts are those of the Rust type (`[f32; 23], [f32; 9], [f32; 5], [f32; 4]`) -/
theorem hbfTapsQ_lengths :
    (hbfTapsQ 0).length = 23 ∧ (hbfTapsQ 1).length = 9 ∧ (hbfTapsQ 2).length = 5 ∧ (hbfTapsQ 3).length = 4 := by
  simp [hbfTapsQ, hbfTapsQ0, hbfTapsQ1, hbfTapsQ2, hbfTapsQ3]

theorem hbfIntCascadeQ_wf (d : ℕ) (hd : d ≤ 4) : (hbfIntCascadeQ d).WF := by
  obtain ⟨l0, l1, l2, l3⟩ := hbfTapsQ_lengths
  constructor
  · simpa [hbfIntCascadeQ] using hd
  · intro s hs
    simp only [hbfIntCascadeQ, List.mem_cons, List.not_mem_nil, or_false] at hs
    rcases hs with rfl | rfl | rfl | rfl <;> apply HbfInt.new_wf <;> simp [l0, l1, l2, l3]

theorem hbfDecCascadeQ_wf (d : ℕ) (hd : d ≤ 4) : (hbfDecCascadeQ d).WF := by
  obtain ⟨l0, l1, l2, l3⟩ := hbfTapsQ_lengths
  constructor
  · simpa [hbfDecCascadeQ] using hd
  · intro s hs
    simp only [hbfDecCascadeQ, List.mem_cons, List.not_mem_nil, or_false] at hs
    rcases hs with rfl | rfl | rfl | rfl <;> apply HbfDec.new_wf <;> simp [l0, l1, l2, l3]

/-- `block_size().1` of the four stages: `2·64·2^j` -/
theorem hbfIntCascadeQ_blockMax (d : ℕ) :
    (hbfIntCascadeQ d).stages.map HbfInt.blockMax = [128, 256, 512, 1024] := by
  obtain ⟨l0, l1, l2, l3⟩ := hbfTapsQ_lengths
  simp [hbfIntCascadeQ, HbfInt.blockMax, HbfInt.new, SymFir.new, l0, l1, l2, l3, -List.reduceReplicate]

theorem hbfDecCascadeQ_blockMax (d : ℕ) :
    (hbfDecCascadeQ d).stages.map HbfDec.blockMax = [128, 256, 512, 1024] := by
  obtain ⟨l0, l1, l2, l3⟩ := hbfTapsQ_lengths
  simp [hbfDecCascadeQ, HbfDec.blockMax, HbfDec.new, SymFir.new, l0, l1, l2, l3, -List.reduceReplicate]

/-- every low-rate input block of at most `HBF_CASCADE_BLOCK = 64` items is admissible for the interpolating
    cascade at every depth `d ≤ 4` (all intermediate blocks fit the stage buffers) -/
theorem hbfIntCascadeQ_adm (d : ℕ) (hd : d ≤ 4) (x : List ℚ) (hx : x.length ≤ 64) : (hbfIntCascadeQ d).Adm x := by
  have hb := hbfIntCascadeQ_blockMax d
  simp only [HbfIntCascade.Adm, HbfIntCascade.active, List.map_take, hb]
  have : d = 0 ∨ d = 1 ∨ d = 2 ∨ d = 3 ∨ d = 4 := by omega
  have hdep : (hbfIntCascadeQ d).depth = d := rfl
  rw [hdep]
  rcases this with rfl | rfl | rfl | rfl | rfl <;> simp [intAdmL] <;> omega

/-- every high-rate input block whose length is a multiple of `2^d` and at most `64·2^d` is admissible for the
    decimating cascade at every depth `d ≤ 4` -/
theorem hbfDecCascadeQ_adm (d : ℕ) (hd : d ≤ 4) (x : List ℚ) (hg : 2 ^ d ∣ x.length) (hx : x.length ≤ 64 * 2 ^ d) :
    (hbfDecCascadeQ d).Adm x := by
  have hb := hbfDecCascadeQ_blockMax d
  simp only [HbfDecCascade.Adm, HbfDecCascade.active, List.map_reverse, List.map_take, hb]
  have : d = 0 ∨ d = 1 ∨ d = 2 ∨ d = 3 ∨ d = 4 := by omega
  have hdep : (hbfDecCascadeQ d).depth = d := rfl
  rw [hdep]
  rcases this with rfl | rfl | rfl | rfl | rfl <;> simp [decAdmL] at hg hx ⊢ <;> omega

/-- a block of `n` items: a unit impulse at position `p`, zeros elsewhere (`p < n`) -/
def hbfImpulse (p n : ℕ) : List ℚ := List.replicate p 0 ++ 1 :: List.replicate (n - 1 - p) 0

theorem hbfImpulse_length (p n : ℕ) (h : p < n) : (hbfImpulse p n).length = n := by
  simp [hbfImpulse]; omega

/-- the decimating cascade of depth `d`, fed the single block `hbfImpulse p (64·2^d)` from its initial state,
    returns the 64 items `h[2^d·i + (2^d-1-p)] / 2^d`, `i < 64` (`h` = evaluated form of `hbfCascadeFir d`).
    Decidable by computation on the model; used phase by phase in `Lemmas/HbfSpecTime3.lean` ff. -/
def hbfDecImpulseOK (d p : ℕ) : Prop :=
  ((hbfDecCascadeQ d).run hbfQOps [hbfImpulse p (64 * 2 ^ d)]).2.flatten =
    (List.range 64).map (fun i => (hbfCascadeFirLit d).getD (2 ^ d * i + (2 ^ d - 1 - p)) 0 / 2 ^ d)

instance (d p : ℕ) : Decidable (hbfDecImpulseOK d p) := by unfold hbfDecImpulseOK; infer_instance

/-- the interpolating cascade of depth `d`, fed the single block `hbfImpulse 0 64` from its initial state, returns
    the evaluated form of `hbfCascadeFir d` followed by zeros -/
def hbfIntImpulseOK (d : ℕ) : Prop :=
  ((hbfIntCascadeQ d).run hbfQOps [hbfImpulse 0 64]).2.flatten =
    hbfCascadeFirLit d ++ List.replicate (64 * 2 ^ d - (hbfCascadeFirLit d).length) 0

instance (d : ℕ) : Decidable (hbfIntImpulseOK d) := by unfold hbfIntImpulseOK; infer_instance

end Idsp
