import IdspModel.Model.BiquadF
import Mathlib.Data.Real.Basic
import Mathlib.Algebra.Order.Group.MinMax
import Mathlib.Algebra.Order.Ring.Abs
import Mathlib.Tactic.Ring
import Mathlib.Tactic.Linarith
import Mathlib.Tactic.Positivity
/-!
  The STANDARD MODEL of floating point arithmetic (Higham, *Accuracy and Stability of Numerical Algorithms*, (2.4)):
  every basic operation returns the exact result times `(1 + δ)` with `|δ| ≤ u` (`u` = unit roundoff; `2^-24` for
  IEEE binary32, `2^-53` for binary64, round to nearest, results in the normal range: no overflow, no underflow).
  The carrier is `ℝ`; `max`/`min` are exact.  `FlModel.ops` instantiates the uninterpreted operations of
  `Model/BiquadF.lean` with such a model.

  `Near`-calculus: a compositional forward error analysis. `Near u v x e m` says that the computed `v` is within `e`
  of the exact `x`, and `x` has magnitude at most `m` (`m` = sum of the absolute values of the terms of `x`).
-/
namespace Idsp

/-- the standard model of floating point arithmetic with unit roundoff `u` -/
structure FlModel (u : ℝ) where
  fadd : ℝ → ℝ → ℝ
  fsub : ℝ → ℝ → ℝ
  fmul : ℝ → ℝ → ℝ
  add_err : ∀ a b, ∃ δ, |δ| ≤ u ∧ fadd a b = (a + b) * (1 + δ)
  sub_err : ∀ a b, ∃ δ, |δ| ≤ u ∧ fsub a b = (a - b) * (1 + δ)
  mul_err : ∀ a b, ∃ δ, |δ| ≤ u ∧ fmul a b = (a * b) * (1 + δ)

/-- the standard model plus the exactness law of IEEE arithmetic: an operation on representable numbers whose exact
    result is representable returns it (`rep` = "is a finite floating point number"; for IEEE formats `0`, `±1` are
    representable and `rep` is closed under negation). In particular `1·x = x`, `0·x = 0`, `x + 0 = x`, `x − 0 = x`. -/
structure FlModelX (u : ℝ) extends FlModel u where
  rep : ℝ → Prop
  rep_zero : rep 0
  rep_one : rep 1
  rep_neg : ∀ x, rep x → rep (-x)
  add_exact : ∀ a b, rep a → rep b → rep (a + b) → fadd a b = a + b
  sub_exact : ∀ a b, rep a → rep b → rep (a - b) → fsub a b = a - b
  mul_exact : ∀ a b, rep a → rep b → rep (a * b) → fmul a b = a * b

/-- `γ_k = (1+u)^k − 1`, the accumulated relative error of `k` roundings -/
def gam (u : ℝ) (k : ℕ) : ℝ := (1 + u) ^ k - 1

/-- exact clamp on the reals -/
noncomputable def rclip (mn mx x : ℝ) : ℝ := min (max x mn) mx

namespace FlModel

variable {u : ℝ} (M : FlModel u)

/-- the operations of `Model/BiquadF.lean` under the rounding model (`max`, `min` exact) -/
noncomputable def ops : BOps ℝ := ⟨0, M.fadd, M.fsub, M.fmul, max, min⟩

include M in
theorem u_nonneg : 0 ≤ u := by
  obtain ⟨δ, h, _⟩ := M.add_err 0 0
  exact le_trans (abs_nonneg _) h

theorem fclip_eq (x mn mx : ℝ) : fclip M.ops x mn mx = rclip mn mx x := rfl

end FlModel

theorem gam_zero (u : ℝ) : gam u 0 = 0 := by simp [gam]

theorem gam_one (u : ℝ) : gam u 1 = u := by simp [gam]

theorem gam_nonneg {u : ℝ} (hu : 0 ≤ u) (k : ℕ) : 0 ≤ gam u k := by
  unfold gam
  have : (1 : ℝ) ≤ (1 + u) ^ k := one_le_pow₀ (by linarith)
  linarith

theorem gam_mono {u : ℝ} (hu : 0 ≤ u) {j k : ℕ} (h : j ≤ k) : gam u j ≤ gam u k := by
  unfold gam
  have : (1 + u) ^ j ≤ (1 + u) ^ k := pow_le_pow_right₀ (by linarith) h
  linarith

theorem gam_succ (u : ℝ) (k : ℕ) : gam u (k + 1) = (1 + u) * gam u k + u := by
  unfold gam; ring

/-- the classical bound `γ_k ≤ k·u / (1 − k·u)` for `k·u < 1` -/
theorem gam_le_classical {u : ℝ} (hu : 0 ≤ u) (k : ℕ) (h : (k : ℝ) * u < 1) :
    gam u k ≤ (k : ℝ) * u / (1 - (k : ℝ) * u) := by
  have key : ∀ n : ℕ, (n : ℝ) * u < 1 → (1 + u) ^ n * (1 - (n : ℝ) * u) ≤ 1 := by
    intro n
    induction n with
    | zero => intro _; simp
    | succ n ih =>
      intro hn
      have hn' : (n : ℝ) * u < 1 := by
        have : ((n + 1 : ℕ) : ℝ) = (n : ℝ) + 1 := by push_cast; ring
        rw [this] at hn; nlinarith
      have h1 := ih hn'
      have hp : 0 ≤ (1 + u) ^ n := by positivity
      have hcast : ((n + 1 : ℕ) : ℝ) = (n : ℝ) + 1 := by push_cast; ring
      rw [hcast]
      have e : (1 + u) ^ (n + 1) * (1 - ((n : ℝ) + 1) * u) =
          (1 + u) ^ n * (1 - (n : ℝ) * u) - (1 + u) ^ n * (((n : ℝ) + 1) * u ^ 2) := by ring
      rw [e]
      have : 0 ≤ (1 + u) ^ n * (((n : ℝ) + 1) * u ^ 2) := by positivity
      linarith
  have hd : 0 < 1 - (k : ℝ) * u := by linarith
  unfold gam
  rw [le_div_iff₀ hd]
  have := key k h
  nlinarith

/-- a simple explicit bound: six roundings cost at most `7u` when `u ≤ 1/32` -/
theorem gam_six_le {u : ℝ} (hu : 0 ≤ u) (h : u ≤ 1 / 32) : gam u 6 ≤ 7 * u := by
  unfold gam
  have e : (1 + u) ^ 6 - 1 = 6 * u + u * (u * (15 + u * (20 + u * (15 + u * (6 + u))))) := by ring
  rw [e]
  have h1 : 6 + u ≤ 7 := by linarith
  have h2 : 15 + u * (6 + u) ≤ 16 := by nlinarith
  have h3 : 20 + u * (15 + u * (6 + u)) ≤ 21 := by nlinarith
  have h4 : 15 + u * (20 + u * (15 + u * (6 + u))) ≤ 16 := by nlinarith
  have h5 : u * (15 + u * (20 + u * (15 + u * (6 + u)))) ≤ 1 := by nlinarith
  nlinarith

/-- five roundings cost at most `6u` when `u ≤ 1/32` -/
theorem gam_five_le {u : ℝ} (hu : 0 ≤ u) (h : u ≤ 1 / 32) : gam u 5 ≤ 6 * u := by
  unfold gam
  have e : (1 + u) ^ 5 - 1 = 5 * u + u * (u * (10 + u * (10 + u * (5 + u)))) := by ring
  rw [e]
  have h1 : 5 + u ≤ 6 := by linarith
  have h2 : 10 + u * (5 + u) ≤ 11 := by nlinarith
  have h3 : 10 + u * (10 + u * (5 + u)) ≤ 11 := by nlinarith
  have h4 : u * (10 + u * (10 + u * (5 + u))) ≤ 1 := by nlinarith
  nlinarith

/-- the clamp is 1-Lipschitz: an error does not grow through it -/
theorem rclip_lipschitz (mn mx a b : ℝ) : |rclip mn mx a - rclip mn mx b| ≤ |a - b| := by
  unfold rclip
  calc |min (max a mn) mx - min (max b mn) mx|
      ≤ max |max a mn - max b mn| |mx - mx| := abs_min_sub_min_le_max _ _ _ _
    _ ≤ |a - b| := by
        rw [sub_self, abs_zero]
        exact max_le (abs_max_sub_max_le_abs a b mn) (abs_nonneg _)

/-- the clamp is monotone -/
theorem rclip_mono (mn mx : ℝ) {a b : ℝ} (h : a ≤ b) : rclip mn mx a ≤ rclip mn mx b := by
  unfold rclip
  exact min_le_min (max_le_max h le_rfl) le_rfl

theorem rclip_of_mem {mn mx x : ℝ} (h1 : mn ≤ x) (h2 : x ≤ mx) : rclip mn mx x = x := by
  unfold rclip
  rw [max_eq_left h1, min_eq_left h2]

/-- `v` is within `e` of the exact value `x`, whose terms have total magnitude at most `m` -/
def Near (v x e m : ℝ) : Prop := |v - x| ≤ e ∧ |x| ≤ m

theorem near_exact (v : ℝ) : Near v v 0 |v| := ⟨by simp, le_rfl⟩

namespace FlModel

variable {u : ℝ} (M : FlModel u)

theorem near_mul (a b : ℝ) : Near (M.fmul a b) (a * b) (u * |a * b|) |a * b| := by
  refine ⟨?_, le_rfl⟩
  obtain ⟨δ, hδ, h⟩ := M.mul_err a b
  have e : a * b * (1 + δ) - a * b = δ * (a * b) := by ring
  rw [h, e, abs_mul]
  exact mul_le_mul_of_nonneg_right hδ (abs_nonneg _)

theorem round_near {δ s S e m : ℝ} (hδ : |δ| ≤ u) (hs : |s - S| ≤ e) (hS : |S| ≤ m) :
    |s * (1 + δ) - S| ≤ (1 + u) * e + u * m := by
  have hu : 0 ≤ u := le_trans (abs_nonneg _) hδ
  have he : 0 ≤ e := le_trans (abs_nonneg _) hs
  have e1 : s * (1 + δ) - S = (s - S) + δ * s := by ring
  have hs' : |s| ≤ e + m := by
    have : s = (s - S) + S := by ring
    calc |s| = |(s - S) + S| := by rw [← this]
      _ ≤ |s - S| + |S| := abs_add_le _ _
      _ ≤ e + m := add_le_add hs hS
  have hm : 0 ≤ e + m := le_trans (abs_nonneg _) hs'
  calc |s * (1 + δ) - S| = |(s - S) + δ * s| := by rw [e1]
    _ ≤ |s - S| + |δ * s| := abs_add_le _ _
    _ = |s - S| + |δ| * |s| := by rw [abs_mul]
    _ ≤ e + u * (e + m) := add_le_add hs (mul_le_mul hδ hs' (abs_nonneg _) hu)
    _ = (1 + u) * e + u * m := by ring

theorem near_add {a' b' A B ea eb ma mb : ℝ} (ha : Near a' A ea ma) (hb : Near b' B eb mb) :
    Near (M.fadd a' b') (A + B) ((1 + u) * (ea + eb) + u * (ma + mb)) (ma + mb) := by
  obtain ⟨δ, hδ, h⟩ := M.add_err a' b'
  refine ⟨?_, (abs_add_le _ _).trans (add_le_add ha.2 hb.2)⟩
  rw [h]
  refine round_near hδ ?_ ((abs_add_le _ _).trans (add_le_add ha.2 hb.2))
  have : a' + b' - (A + B) = (a' - A) + (b' - B) := by ring
  rw [this]
  exact (abs_add_le _ _).trans (add_le_add ha.1 hb.1)

theorem near_sub {a' b' A B ea eb ma mb : ℝ} (ha : Near a' A ea ma) (hb : Near b' B eb mb) :
    Near (M.fsub a' b') (A - B) ((1 + u) * (ea + eb) + u * (ma + mb)) (ma + mb) := by
  obtain ⟨δ, hδ, h⟩ := M.sub_err a' b'
  refine ⟨?_, (abs_sub _ _).trans (add_le_add ha.2 hb.2)⟩
  rw [h]
  refine round_near hδ ?_ ((abs_sub _ _).trans (add_le_add ha.2 hb.2))
  have : a' - b' - (A - B) = (a' - A) - (b' - B) := by ring
  rw [this]
  exact (abs_sub _ _).trans (add_le_add ha.1 hb.1)

end FlModel

/-- the exact-arithmetic instance of the standard model (`δ = 0`), for every `u ≥ 0` -/
def FlModel.exact (u : ℝ) (hu : 0 ≤ u) : FlModel u where
  fadd := (· + ·)
  fsub := (· - ·)
  fmul := (· * ·)
  add_err a b := ⟨0, by simpa using hu, by simp⟩
  sub_err a b := ⟨0, by simpa using hu, by simp⟩
  mul_err a b := ⟨0, by simpa using hu, by simp⟩

/-- exact arithmetic, every real representable -/
def FlModelX.exact (u : ℝ) (hu : 0 ≤ u) : FlModelX u where
  toFlModel := FlModel.exact u hu
  rep _ := True
  rep_zero := trivial
  rep_one := trivial
  rep_neg _ _ := trivial
  add_exact _ _ _ _ _ := rfl
  sub_exact _ _ _ _ _ := rfl
  mul_exact _ _ _ _ _ := rfl

/-- a genuinely rounding instance of `FlModelX`: for any set `S` of "representable" reals containing `0`, `1` and
    closed under negation, every operation returns the exact result when it lies in `S` and rounds it away from zero
    by the full factor `(1 + u)` otherwise -/
noncomputable def FlModelX.roundOutside (u : ℝ) (hu : 0 ≤ u) (S : ℝ → Prop) (h0 : S 0) (h1 : S 1)
    (hneg : ∀ x, S x → S (-x)) : FlModelX u := by
  classical
  exact
  { fadd := fun a b => if S (a + b) then a + b else (a + b) * (1 + u)
    fsub := fun a b => if S (a - b) then a - b else (a - b) * (1 + u)
    fmul := fun a b => if S (a * b) then a * b else (a * b) * (1 + u)
    add_err := fun a b => by
      by_cases h : S (a + b)
      · exact ⟨0, by simpa using hu, by simp [h]⟩
      · exact ⟨u, by rw [abs_of_nonneg hu], by simp [h]⟩
    sub_err := fun a b => by
      by_cases h : S (a - b)
      · exact ⟨0, by simpa using hu, by simp [h]⟩
      · exact ⟨u, by rw [abs_of_nonneg hu], by simp [h]⟩
    mul_err := fun a b => by
      by_cases h : S (a * b)
      · exact ⟨0, by simpa using hu, by simp [h]⟩
      · exact ⟨u, by rw [abs_of_nonneg hu], by simp [h]⟩
    rep := S
    rep_zero := h0
    rep_one := h1
    rep_neg := hneg
    add_exact := fun a b _ _ h => by simp [h]
    sub_exact := fun a b _ _ h => by simp [h]
    mul_exact := fun a b _ _ h => by simp [h] }

end Idsp
