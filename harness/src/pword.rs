//! A phase word newtype that satisfies the trait bounds of `Unwrapper::wraps::<P, S>()`
//! (`P: WrappingAdd + Signed + BitAnd<u32, Output = P>`; no primitive integer implements `BitAnd<u32>` except `u32`,
//! which is not `Signed`), so that the real `wraps` can be called and tied to the model's `unwrapperWraps`.
//! Every operation is the corresponding `i32` operation; `& u32` masks the two's-complement bit pattern.
use core::ops::{Add, BitAnd, Div, Mul, Neg, Rem, Sub};
use num_traits::{AsPrimitive, Num, One, Signed, WrappingAdd, Zero};

#[derive(Copy, Clone, PartialEq, Eq, Debug)]
pub struct P32(pub i32);

macro_rules! binop {
    ($tr:ident, $f:ident) => {
        impl $tr for P32 {
            type Output = P32;
            fn $f(self, o: P32) -> P32 {
                P32(self.0.$f(o.0))
            }
        }
    };
}
binop!(Add, add);
binop!(Sub, sub);
binop!(Mul, mul);
binop!(Div, div);
binop!(Rem, rem);
impl Neg for P32 {
    type Output = P32;
    fn neg(self) -> P32 {
        P32(-self.0)
    }
}
impl BitAnd<u32> for P32 {
    type Output = P32;
    fn bitand(self, m: u32) -> P32 {
        P32(((self.0 as u32) & m) as i32)
    }
}
impl Zero for P32 {
    fn zero() -> Self {
        P32(0)
    }
    fn is_zero(&self) -> bool {
        self.0 == 0
    }
}
impl One for P32 {
    fn one() -> Self {
        P32(1)
    }
}
impl Num for P32 {
    type FromStrRadixErr = <i32 as Num>::FromStrRadixErr;
    fn from_str_radix(s: &str, r: u32) -> Result<Self, Self::FromStrRadixErr> {
        <i32 as Num>::from_str_radix(s, r).map(P32)
    }
}
impl Signed for P32 {
    fn abs(&self) -> Self {
        P32(self.0.abs())
    }
    fn abs_sub(&self, o: &Self) -> Self {
        P32(Signed::abs_sub(&self.0, &o.0))
    }
    fn signum(&self) -> Self {
        P32(self.0.signum())
    }
    fn is_positive(&self) -> bool {
        self.0 > 0
    }
    fn is_negative(&self) -> bool {
        self.0 < 0
    }
}
impl WrappingAdd for P32 {
    fn wrapping_add(&self, o: &Self) -> Self {
        P32(self.0.wrapping_add(o.0))
    }
}
impl AsPrimitive<P32> for i64 {
    fn as_(self) -> P32 {
        P32(self as i32)
    }
}
