import IdspModel.Lemmas.HbfSpecTime
/-! Impulse responses of the MODEL cascades over `ℚ`, by kernel computation on the literal buffer model
    (`HbfIntCascade.run` / `HbfDecCascade.run` on `hbfIntCascadeQ d` / `hbfDecCascadeQ d`): the interpolating cascade
    for `d = 1 … 4`, and the decimating cascade for `d = 1, 2` (all input phases).  Depth 3 and 4 of the decimating
    cascade: `Lemmas/HbfSpecTime4.lean` … `HbfSpecTime8.lean`; final statements: `Lemmas/HbfSpecTime9.lean`. -/
namespace Idsp

theorem hbfIntImpulseOK_1 : hbfIntImpulseOK 1 := by decide +kernel
theorem hbfIntImpulseOK_2 : hbfIntImpulseOK 2 := by decide +kernel
theorem hbfIntImpulseOK_3 : hbfIntImpulseOK 3 := by decide +kernel
theorem hbfIntImpulseOK_4 : hbfIntImpulseOK 4 := by decide +kernel

theorem hbfDecImpulseOK_1 : ∀ p < 2, hbfDecImpulseOK 1 p := by decide +kernel
theorem hbfDecImpulseOK_2 : ∀ p < 4, hbfDecImpulseOK 2 p := by decide +kernel

end Idsp
