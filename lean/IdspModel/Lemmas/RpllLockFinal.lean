import IdspModel.Lemmas.RpllLockOut
/-! Assembly: explicit envelopes for the returned frequency and phase of the RPLL on a noise-free reference. -/
namespace Idsp

/-- bound on `|ff·P − T|` after the frequency loop has settled: dead-band half width plus `T/2^20` -/
def RpllCfg.Ub (c : RpllCfg) : Int := c.h + c.T / 2 ^ 20
/-- contraction margin of the phase loop per edge, out of `2^sp`: `min(P − 3·2^d, 2^sp/2)` -/
def RpllCfg.Qm (c : RpllCfg) : Int := min (c.P - 3 * c.D) (c.Lam / 2)
/-- constant input of the phase recursion -/
def RpllCfg.C0 (c : RpllCfg) : Int := 2 * c.Ub + c.P + c.D + c.D * c.D
/-- steady-state bound of the weighted norm `Σ·|W| + 2·|W_prev|` -/
def RpllCfg.Lim (c : RpllCfg) : Int := c.Sg * c.Sg * c.C0 / c.Qm + 1
/-- bound of the weighted norm after `k` halvings of the initial `(Σ+2)·2^31` -/
def RpllCfg.Nb (c : RpllCfg) (k : Nat) : Int := c.Lim + (c.Sg + 2) * 2 ^ 31 / 2 ^ k

theorem rpll_cnt_diff_ge (c : RpllCfg) (hDP : 2 ^ c.d < c.P) (a b : Nat) :
    2 ^ c.d * (b : Int) / c.P ≤ (c.cnt (a + b) : Int) - c.cnt a := by
  rw [rpll_cnt_eq c hDP, rpll_cnt_eq c hDP]
  have hP : 0 < c.P := lt_trans (by positivity) hDP
  have := ediv_add_ge (c.num ((a : Int) - 1)) (2 ^ c.d * (b : Int)) c.P hP
  have e : c.num ((a : Int) - 1) + 2 ^ c.d * (b : Int) = c.num (((a + b : Nat) : Int) - 1) := by
    unfold RpllCfg.num; push_cast; ring
  rw [e] at this
  omega

theorem RpllCfg.Good.ffgood {c : RpllCfg} (g : c.Good) (N1 : Nat) (hN1 : 32 * c.S ≤ 2 ^ c.d * (N1 : Int)) :
    ∃ m0, m0 ≤ c.cnt N1 ∧ c.FFgood m0 c.Ub := by
  obtain ⟨hP0, hPS, hh0, hh1, hR0, -, -, -, -, hT62, -⟩ := g.toAdm.facts
  obtain ⟨n0, hh, hk⟩ := rpll_cnt_halvings c g.toAdm N1 hN1
  have hT0 : 0 < c.T := by unfold RpllCfg.T; positivity
  have hT30 : 2 ^ 32 ≤ c.T := by unfold RpllCfg.T; exact two_pow_mono (by omega)
  refine ⟨20 * n0, hk, ?_, ?_⟩
  · unfold RpllCfg.Ub
    have : c.T / 2 ^ 20 * 2 ^ 20 ≤ c.T := Int.ediv_mul_le _ (by norm_num)
    norm_num at hh1 hT30 this ⊢; omega
  · intro m hm
    have := ffIter_bound hP0 hPS g.toAdm.S_eq hR0.le n0 20 m hh hm
    rw [g.toAdm.T_eq] at this
    change 2 ^ 20 * (|c.ffAt m * c.P - c.T| - c.h) ≤ c.T at this
    unfold RpllCfg.Ub
    have h2 : |c.ffAt m * c.P - c.T| - c.h ≤ c.T / 2 ^ 20 := by
      rw [Int.le_ediv_iff_mul_le (by norm_num)]; linarith
    linarith

theorem RpllCfg.Good.Qm_facts {c : RpllCfg} (g : c.Good) :
    0 < c.Qm ∧ c.Qm ≤ c.P - 3 * c.D ∧ 2 * c.Qm ≤ c.Lam ∧ c.Qm < c.Lam ∧ c.Lam = 2 * (c.Lam / 2) := by
  obtain ⟨hS4, -, -⟩ := g.Sg_ge
  have hD0 : 0 < c.D := by unfold RpllCfg.D; positivity
  have hP3 : 3 * c.D < c.P := g.hP3
  have hL4 : 4 ≤ c.Lam := by unfold RpllCfg.Lam; nlinarith
  have hev : c.Lam = 2 * (c.Lam / 2) := by
    have hσ : (c.sp - c.d).toNat ≠ 0 := by
      intro h0
      have : c.Sg = 1 := by unfold RpllCfg.Sg; rw [h0]; rfl
      omega
    obtain ⟨t, ht⟩ : ∃ t, (c.sp - c.d).toNat = t + 1 := ⟨(c.sp - c.d).toNat - 1, by omega⟩
    have : c.Lam = 2 * (c.D * 2 ^ t) := by unfold RpllCfg.Lam RpllCfg.Sg; rw [ht, pow_succ]; ring
    rw [this, Int.mul_ediv_cancel_left _ (by norm_num)]
  unfold RpllCfg.Qm
  refine ⟨lt_min (by omega) (by omega), min_le_left _ _, ?_, ?_, hev⟩
  · have := min_le_right (c.P - 3 * c.D) (c.Lam / 2); omega
  · have := min_le_right (c.P - 3 * c.D) (c.Lam / 2); omega

/-- **phase-loop convergence** in terms of the code's own loop error `W` (weighted over the last two edges):
    `N1` updates to settle the frequency loop, then `k` halvings need `k·n0 + 2` more edges (`n0·Qm ≥ 2^sp`) -/
theorem rpll_norm_bound (c : RpllCfg) (g : c.Good) (m : Mode) (N1 : Nat) (hN1 : 32 * c.S ≤ 2 ^ c.d * (N1 : Int))
    (k n0 : Nat) (hn0 : c.Lam ≤ n0 * c.Qm) (b : Nat) (hb : ((k * n0 + 2 : Nat) : Int) ≤ 2 ^ c.d * (b : Int) / c.P) :
    ∃ m0 s e W Wp fo, c.FFgood m0 c.Ub ∧ c.run m 0 (N1 + b) (RPLL.new c.d) = .ok s ∧ c.Inv (N1 + b) s ∧
      c.PInv m0 (N1 + b) s e W Wp fo ∧ c.Nrm W Wp ≤ c.Nb k := by
  obtain ⟨m0, hm0, hg⟩ := g.ffgood N1 hN1
  obtain ⟨hQ0, hQ1, hQ2, hQL, hev⟩ := g.Qm_facts
  obtain ⟨hS4, -, -⟩ := g.Sg_ge
  have hD0 : 0 < c.D := by unfold RpllCfg.D; positivity
  have hL0 : 0 < c.Lam := by unfold RpllCfg.Lam; exact mul_pos hD0 (by omega)
  have hC0 : 0 ≤ c.Sg * c.Sg * c.C0 := by
    have : 0 ≤ c.C0 := by
      unfold RpllCfg.C0
      have := hg.1; have := g.toAdm.facts.1
      have : 0 ≤ c.Ub := by
        unfold RpllCfg.Ub
        have := g.toAdm.facts.2.2.1
        have : 0 ≤ c.T / 2 ^ 20 := Int.ediv_nonneg (by unfold RpllCfg.T; positivity) (by norm_num)
        omega
      nlinarith
    positivity
  have hLim : c.Sg * c.Sg * (2 * c.Ub + c.P + c.D + c.D * c.D) ≤ c.Qm * c.Lim := by
    unfold RpllCfg.Lim
    have := Int.lt_ediv_add_one_mul_self (c.Sg * c.Sg * c.C0) hQ0
    unfold RpllCfg.C0 at this ⊢
    linarith
  have hLim0 : 0 ≤ c.Lim := by
    unfold RpllCfg.Lim
    have := Int.ediv_nonneg hC0 hQ0.le
    omega
  obtain ⟨s, hrun, hinv, hp0, -, hp2⟩ :=
    rpll_phase_drive c g m m0 c.Ub hg c.Qm c.Lim hQ0 hQ1 hQ2 hLim N1 hm0 (N1 + b) (by omega)
  have hcd := rpll_cnt_diff_ge c g.hDP N1 b
  have hj : c.cnt N1 + 2 + k * n0 ≤ c.cnt (N1 + b) := by push_cast at hb; omega
  obtain ⟨e, W, Wp, fo, hp, hbound⟩ := hp2 (by omega)
  refine ⟨m0, s, e, W, Wp, fo, hg, hrun, hinv, hp, ?_⟩
  have hh := ff_halving hQ0 hQL hev n0 hn0
  have hv := ff_halvings hQ0 hQL hev n0 k (c.cnt (N1 + b) - (c.cnt N1 + 2)) hh (by omega)
  generalize c.cnt (N1 + b) - (c.cnt N1 + 2) = j at hbound hv
  unfold RpllCfg.Nb
  by_contra hc
  have hpos : (c.Sg + 2) * 2 ^ 31 / 2 ^ k < c.Nrm W Wp - c.Lim := by omega
  have h2k : (0 : Int) < 2 ^ k := by positivity
  have h1 : (c.Sg + 2) * 2 ^ 31 < 2 ^ k * (c.Nrm W Wp - c.Lim) := by
    have := Int.lt_ediv_add_one_mul_self ((c.Sg + 2) * 2 ^ 31) h2k
    nlinarith
  have hN0 : 0 < c.Nrm W Wp - c.Lim := by
    have : 0 ≤ (c.Sg + 2) * 2 ^ 31 / 2 ^ k := Int.ediv_nonneg (by positivity) h2k.le
    omega
  have hLj : (0 : Int) < c.Lam ^ j := by positivity
  have hLQj : (0 : Int) ≤ (c.Lam - c.Qm) ^ j := by have : 0 ≤ c.Lam - c.Qm := by omega
                                                   positivity
  -- Λ^j·2^k·(N − Lim) ≤ 2^k·(Λ−Q)^j·(N0 − Lim) ≤ Λ^j·(N0 − Lim) ≤ Λ^j·N0
  have a1 : 2 ^ k * (c.Lam ^ j * (c.Nrm W Wp - c.Lim)) ≤ 2 ^ k * ((c.Lam - c.Qm) ^ j * ((c.Sg + 2) * 2 ^ 31 - c.Lim)) :=
    mul_le_mul_of_nonneg_left hbound h2k.le
  have hN0' : 0 < (c.Sg + 2) * 2 ^ 31 - c.Lim := by
    by_contra h0
    have : (c.Lam - c.Qm) ^ j * ((c.Sg + 2) * 2 ^ 31 - c.Lim) ≤ 0 :=
      mul_nonpos_of_nonneg_of_nonpos hLQj (by omega)
    have : 0 < c.Lam ^ j * (c.Nrm W Wp - c.Lim) := mul_pos hLj hN0
    linarith
  have a2 : 2 ^ k * (c.Lam - c.Qm) ^ j * ((c.Sg + 2) * 2 ^ 31 - c.Lim) ≤ c.Lam ^ j * ((c.Sg + 2) * 2 ^ 31 - c.Lim) :=
    mul_le_mul_of_nonneg_right hv hN0'.le
  have a3 : c.Lam ^ j * (2 ^ k * (c.Nrm W Wp - c.Lim)) ≤ c.Lam ^ j * ((c.Sg + 2) * 2 ^ 31) := by
    have : c.Lam ^ j * ((c.Sg + 2) * 2 ^ 31 - c.Lim) ≤ c.Lam ^ j * ((c.Sg + 2) * 2 ^ 31) :=
      mul_le_mul_of_nonneg_left (by omega) hLj.le
    nlinarith
  have := le_of_mul_le_mul_left a3 hLj
  omega

/-- arithmetic glue for the phase envelope -/
theorem env_glue (D P Sg Ub Nb aW aWp Fo Fe E : Int) (hD : 0 < D) (hP : 0 < P) (hSg : 0 < Sg)
    (h0 : 0 ≤ aW) (h1 : 0 ≤ aWp)
    (hy : D * (P * E) ≤ D * P * aW + D * Fo + P * D * D + P * Fe + D * P)
    (hfo : Sg * Fo ≤ Sg * Ub + P * (aWp + Sg)) (hfe : Sg * Fe ≤ Sg * Ub + P * (aW + Sg))
    (hn : Sg * aW + 2 * aWp ≤ Nb) :
    2 * (Sg * Sg * (D * (P * E))) ≤ 2 * D * P * Sg * Nb + D * Sg * (2 * Sg * Ub + P * (Nb + 2 * Sg))
      + 2 * Sg * Sg * P * D * D + 2 * P * (Sg * Sg * Ub + P * (Nb + Sg * Sg)) + 2 * Sg * Sg * D * P := by
  have n1 : Sg * aW ≤ Nb := by linarith
  have n2 : 2 * aWp ≤ Nb := by nlinarith
  have t0 := mul_le_mul_of_nonneg_left hy (show 0 ≤ 2 * (Sg * Sg) by positivity)
  have ha := mul_le_mul_of_nonneg_left n1 (show 0 ≤ 2 * Sg * D * P by positivity)
  have hb := mul_le_mul_of_nonneg_left hfo (show 0 ≤ 2 * Sg * D by positivity)
  have hc := mul_le_mul_of_nonneg_left n2 (show 0 ≤ D * Sg * P by positivity)
  have hd := mul_le_mul_of_nonneg_left hfe (show 0 ≤ 2 * P * Sg by positivity)
  have he := mul_le_mul_of_nonneg_left n1 (show 0 ≤ 2 * P * P by positivity)
  nlinarith

/-- the frequency envelope: `Σ²·|f·P − T| ≤ envF` -/
def RpllCfg.envF (c : RpllCfg) (k : Nat) : Int := c.Sg * c.Sg * c.Ub + c.P * (c.Nb k + c.Sg * c.Sg)
/-- the phase envelope: `2·Σ²·2^d·P·|err| ≤ envP` -/
def RpllCfg.envP (c : RpllCfg) (k : Nat) : Int :=
  2 * c.D * c.P * c.Sg * c.Nb k + c.D * c.Sg * (2 * c.Sg * c.Ub + c.P * (c.Nb k + 2 * c.Sg))
    + 2 * c.Sg * c.Sg * c.P * c.D * c.D + 2 * c.P * (c.Sg * c.Sg * c.Ub + c.P * (c.Nb k + c.Sg * c.Sg))
    + 2 * c.Sg * c.Sg * c.D * c.P

/-- **lock within explicit envelopes**: update number `N1 + b` (and every later one, as `b` is arbitrary) returns
    without panic a frequency and a phase within `envF k`, `envP k` -/
theorem rpll_envelope (c : RpllCfg) (g : c.Good) (m : Mode) (N1 : Nat) (hN1 : 32 * c.S ≤ 2 ^ c.d * (N1 : Int))
    (k n0 : Nat) (hn0 : c.Lam ≤ n0 * c.Qm) (b : Nat)
    (hb : ((k * n0 + 2 : Nat) : Int) ≤ 2 ^ c.d * ((b + 1 : Nat) : Int) / c.P) :
    ∃ s s' y f, c.run m 0 (N1 + b) (RPLL.new c.d) = .ok s ∧
      RPLL.update m s (c.sched (N1 + b)) c.sf c.sp = .ok (s', y, f) ∧
      c.Sg * c.Sg * |f * c.P - c.T| ≤ c.envF k ∧
      2 * (c.Sg * c.Sg * (c.D * (c.P * |c.err (N1 + b) y|))) ≤ c.envP k := by
  obtain ⟨m0, s1, e, W, Wp, fo, hg, hrun1, hinv1, hp, hnrm⟩ := rpll_norm_bound c g m N1 hN1 k n0 hn0 (b + 1) hb
  obtain ⟨s, hrun, hinv⟩ := rpll_run_inv c g.toAdm m (N1 + b)
  have hupd : ∃ s', RPLL.update m s (c.sched (N1 + b)) c.sf c.sp = .ok (s', s'.y, s'.f) := by
    by_cases hr : c.num ((N1 + b : Nat) : Int) % c.P < 2 ^ c.d
    · obtain ⟨s', hu, -⟩ := rpll_step_some c g.toAdm m (N1 + b) s hinv hr
      exact ⟨s', hu⟩
    · exact ⟨_, (rpll_step_none c g.toAdm m (N1 + b) s hinv hr).1⟩
  obtain ⟨s', hu⟩ := hupd
  have hs' : s' = s1 := by
    have : c.run m 0 (N1 + b + 1) (RPLL.new c.d) = .ok s' := by
      rw [rpllRun_add, hrun, bind_ok', Nat.zero_add]
      simp only [RpllCfg.run, hu, bind_ok']
    rw [show N1 + (b + 1) = N1 + b + 1 by ring, this] at hrun1
    exact Except.ok.inj hrun1
  subst hs'
  obtain ⟨hP0, -, -, -, -, -, -, -, -, -, -⟩ := g.toAdm.facts
  obtain ⟨hS4, -, -⟩ := g.Sg_ge
  have hD0 : 0 < c.D := by unfold RpllCfg.D; positivity
  have hSg0 : 0 < c.Sg := by omega
  have hpc := hp
  obtain ⟨h1, h2, h3, h4, h5, h6, h7, h8, h9, -⟩ := hp
  have hfe := rpll_f_err c.P c.T c.Sg c.Ub s'.ff W s'.f hP0 hSg0
    (by rw [hinv1.2.1]; exact hg.2 _ (by omega)) h8
  have hfo := rpll_f_err c.P c.T c.Sg c.Ub (c.ffAt (c.cnt e)) Wp fo hP0 hSg0 (hg.2 _ h4) h9
  have hy := rpll_y_err c g m0 (N1 + b) s' e W Wp fo hpc
  refine ⟨s, s', s'.y, s'.f, hrun, hu, ?_, ?_⟩
  · unfold RpllCfg.envF
    unfold RpllCfg.Nrm at hnrm
    have := abs_nonneg Wp
    have n1 : c.Sg * |W| ≤ c.Nb k := by linarith
    have t := mul_le_mul_of_nonneg_left hfe hSg0.le
    have t2 := mul_le_mul_of_nonneg_left n1 hP0.le
    nlinarith
  · unfold RpllCfg.envP
    exact env_glue c.D c.P c.Sg c.Ub (c.Nb k) |W| |Wp| _ _ _ hD0 hP0 hSg0 (abs_nonneg _) (abs_nonneg _) hy hfo hfe hnrm

end Idsp
