import IdspModel.Lemmas.Atan2Tab
/-! `atani` table, chunk 3 of 8: quotient fields 24576 … 32768 (complete range, evaluated by the kernel). -/
namespace Idsp

theorem atanTab3 : atanRun 24576 8193 = true := by decide +kernel

end Idsp
