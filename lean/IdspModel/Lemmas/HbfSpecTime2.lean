import IdspModel.Lemmas.HbfSpecDefs
import Mathlib.Analysis.Complex.Trigonometric
import Mathlib.Analysis.SpecialFunctions.Trigonometric.Basic
import Mathlib.Analysis.Complex.Norm
/-!
Frequency-domain link for the half-band cascades built from `HBF_TAPS` (pure algebra/analysis, no numerics):
the DTFT of the overall impulse response `hbfCascadeFir d` (`Lemmas/HbfSpecDefs.lean`) is a pure delay times the
REAL product of the stage amplitudes `hbfAmp`:

* `levQ l z` — evaluation of a coefficient list at a complex point; `levQ_laddQ`, `levQ_lconv`, `levQ_lupsample`,
  `levQ_eq_sum`: it is additive, multiplicative for the polynomial product `hbfSpecLconv`, and `lupsample k` substitutes
  `z ↦ z^k`;
* `levQ_hbfFir_exp` — one stage on the unit circle: `H(e^{-iφ}) = e^{-i(2M-1)φ}·hbfAmp taps φ` (from the
  three-part splitting `firAt_eq` of `Lemmas/HbfConv.lean`);
* `hbfSpec_dtft_gen` (any depth), `hbfSpec_dtft` (`d ≤ 4`, delay = `response_length()/2`), `hbfSpec_dtft_gain`
  (`ω = 2πf/2^d`: the amplitude product is `2^d·hbfCascadeGain d f`), `hbfSpec_dtft_abs` (modulus),
  `hbfSpec_dc_gain` (`ω = 0`: the sum of the response is `2^d·hbfCascadeGain d 0`).
-/
namespace Idsp
open Finset

/-- evaluation of the coefficient list `l` (a polynomial over `ℚ`) at the complex point `z` (Horner) -/
noncomputable def levQ (l : List ℚ) (z : ℂ) : ℂ := l.foldr (fun a acc => (a : ℂ) + z * acc) 0

@[simp] theorem levQ_nil (z : ℂ) : levQ [] z = 0 := rfl
@[simp] theorem levQ_cons (a : ℚ) (l : List ℚ) (z : ℂ) : levQ (a :: l) z = (a : ℂ) + z * levQ l z := rfl

theorem levQ_laddQ (p q : List ℚ) (z : ℂ) : levQ (laddQ p q) z = levQ p z + levQ q z := by
  induction p generalizing q with
  | nil => simp [laddQ]
  | cons a p ih =>
    cases q with
    | nil => simp [laddQ]
    | cons b q =>
      simp only [laddQ, levQ_cons, ih]
      push_cast; ring

theorem levQ_map_mul (a : ℚ) (b : List ℚ) (z : ℂ) : levQ (b.map (a * ·)) z = (a : ℂ) * levQ b z := by
  induction b with
  | nil => simp
  | cons x b ih => simp only [List.map_cons, levQ_cons, ih]; push_cast; ring

theorem levQ_lconv (a b : List ℚ) (z : ℂ) : levQ (hbfSpecLconv a b) z = levQ a z * levQ b z := by
  induction a with
  | nil => simp [hbfSpecLconv]
  | cons x a ih =>
    simp only [hbfSpecLconv, levQ_laddQ, levQ_map_mul, levQ_cons, ih]
    push_cast; ring

theorem levQ_replicate_zero_append (k : ℕ) (l : List ℚ) (z : ℂ) :
    levQ (List.replicate k 0 ++ l) z = z ^ k * levQ l z := by
  induction k with
  | zero => simp
  | succ k ih => simp only [List.replicate_succ, List.cons_append, levQ_cons, ih]; push_cast; ring

theorem levQ_lupsample (k : ℕ) (hk : 1 ≤ k) (l : List ℚ) (z : ℂ) : levQ (lupsample k l) z = levQ l (z ^ k) := by
  induction l with
  | nil => simp [lupsample]
  | cons a l ih =>
    cases l with
    | nil => simp [lupsample]
    | cons b l =>
      show levQ (a :: (List.replicate (k - 1) 0 ++ lupsample k (b :: l))) z = _
      rw [levQ_cons, levQ_replicate_zero_append, ih, levQ_cons (z := z ^ k), ← mul_assoc, ← pow_succ']
      congr 3; omega

theorem levQ_eq_sum (l : List ℚ) (z : ℂ) : levQ l z = ∑ n ∈ range l.length, ((l.getD n 0 : ℚ) : ℂ) * z ^ n := by
  induction l with
  | nil => simp
  | cons a l ih =>
    rw [levQ_cons, ih, List.length_cons, Finset.sum_range_succ', Finset.mul_sum]
    simp only [List.getD_cons_succ, List.getD_cons_zero, pow_zero, mul_one]
    rw [add_comm]
    congr 1
    apply Finset.sum_congr rfl
    intro n _
    ring

theorem levQ_foldl_lconv {ι : Type} (g : ι → List ℚ) (L : List ι) (acc : List ℚ) (z : ℂ) :
    levQ (L.foldl (fun acc j => hbfSpecLconv acc (g j)) acc) z = levQ acc z * (L.map (fun j => levQ (g j) z)).prod := by
  induction L generalizing acc with
  | nil => simp
  | cons j L ih => simp only [List.foldl_cons, ih, levQ_lconv, List.map_cons, List.prod_cons]; ring

theorem list_prod_map_range (g : ℕ → ℂ) (n : ℕ) : ((List.range n).map g).prod = ∏ l ∈ range n, g l := by
  induction n with
  | zero => simp
  | succ n ih => simp [List.range_succ, Finset.prod_range_succ, ih]

/-- the cascade response evaluated at `z` is the product of the stage responses at `z^(2^(d-1-j))` -/
theorem levQ_hbfCascadeFir (d : ℕ) (z : ℂ) :
    levQ (hbfCascadeFir d) z = ∏ j ∈ range d, levQ (hbfFir (hbfTapsQ j)) (z ^ (2 ^ (d - 1 - j))) := by
  rw [hbfCascadeFir, levQ_foldl_lconv, list_prod_map_range]
  simp only [levQ_cons, levQ_nil, mul_zero, add_zero, Rat.cast_one, one_mul]
  apply Finset.prod_congr rfl
  intro j _
  rw [levQ_lupsample _ Nat.one_le_two_pow]

theorem hbfCoeff_map_cast (taps : List ℚ) (j : ℕ) :
    hbfCoeff (taps.map (fun q : ℚ => (q : ℂ))) j = ((hbfCoeff taps j : ℚ) : ℂ) := by
  have h : ∀ i, (taps.map (fun q : ℚ => (q : ℂ))).getD i 0 = ((taps.getD i 0 : ℚ) : ℂ) := by
    intro i
    simp only [List.getD_eq_getElem?_getD, List.getElem?_map]
    cases taps[i]? <;> simp
  simp only [hbfCoeff, List.length_map, h]
  split_ifs <;> simp

/-- one stage on the unit circle: delay `2M-1` times the real amplitude `hbfAmp` -/
theorem levQ_hbfFir_exp (taps : List ℚ) (hm : 1 ≤ taps.length) (φ : ℝ) :
    levQ (hbfFir taps) (Complex.exp (-(φ : ℂ) * Complex.I)) =
      Complex.exp (-(((2 * taps.length - 1 : ℕ) : ℝ) * φ : ℝ) * Complex.I) * ((hbfAmp taps φ : ℝ) : ℂ) := by
  set M := taps.length with hM
  have key := firAt_eq (taps.map (fun q : ℚ => (q : ℂ))) (by simpa using hm)
    (fun k : ℤ => Complex.exp ((k : ℂ) * ((φ : ℂ) * Complex.I))) 0
  have hl : levQ (hbfFir taps) (Complex.exp (-(φ : ℂ) * Complex.I)) =
      firAt (taps.map (fun q : ℚ => (q : ℂ))) (fun k : ℤ => Complex.exp ((k : ℂ) * ((φ : ℂ) * Complex.I))) 0 := by
    rw [levQ_eq_sum, hbfFir_length, firAt, List.length_map]
    apply Finset.sum_congr rfl
    intro j hj
    have hj' := Finset.mem_range.mp hj
    rw [hbfCoeff_map_cast, getD_eq_of_lt _ _ _ (by rw [hbfFir_length]; exact hj'), hbfFir_getElem,
      ← Complex.exp_nat_mul]
    congr 2
    push_cast; ring
  rw [hl, key]
  simp only [List.length_map, ← hM]
  have hg : ∀ i, (taps.map (fun q : ℚ => (q : ℂ))).getD i 0 = ((taps.getD i 0 : ℚ) : ℂ) := by
    intro i
    simp only [List.getD_eq_getElem?_getD, List.getElem?_map]
    cases taps[i]? <;> simp
  simp only [hg]
  rw [hbfAmp, ← hM]
  push_cast
  rw [mul_add, mul_one, Finset.mul_sum, Finset.mul_sum, add_comm (∑ l ∈ range M, _ * _) (Complex.exp _),
    add_assoc, ← Finset.sum_add_distrib]
  have hM1 : ((2 * M - 1 : ℕ) : ℂ) = 2 * (M : ℂ) - 1 := by
    rw [Nat.cast_sub (by omega)]; push_cast; ring
  congr 1
  · congr 1; rw [hM1]; ring
  · apply Finset.sum_congr rfl
    intro l hl
    have hl' := Finset.mem_range.mp hl
    have hc : ((M - 1 - l : ℕ) : ℂ) = (M : ℂ) - 1 - l := by
      rw [Nat.cast_sub (by omega), Nat.cast_sub (by omega)]; push_cast; ring
    have h2 : (2 : ℂ) * Complex.cos ((2 * ((M - 1 - l : ℕ) : ℂ) + 1) * φ) =
        Complex.exp ((2 * ((M : ℂ) - 1 - l) + 1) * φ * Complex.I) +
        Complex.exp (-((2 * ((M : ℂ) - 1 - l) + 1) * φ) * Complex.I) := by
      rw [Complex.two_cos, hc]
    rw [hM1]
    calc _ = ((taps.getD l 0 : ℚ) : ℂ) * (Complex.exp (-((2 * (M : ℂ) - 1) * φ) * Complex.I) *
          (Complex.exp ((2 * ((M : ℂ) - 1 - l) + 1) * φ * Complex.I) +
            Complex.exp (-((2 * ((M : ℂ) - 1 - l) + 1) * φ) * Complex.I))) := by
          rw [mul_add, ← Complex.exp_add, ← Complex.exp_add, ← mul_add]
          congr 3 <;> ring
      _ = _ := by rw [← h2]; ring

/-- total delay (in high-rate samples) of the depth-`d` cascade: stage `j` delays by `2M_j-1` samples of its own
    output rate, i.e. `(2M_j-1)·2^(d-1-j)` samples at the highest rate -/
def hbfCascadeDelay (d : ℕ) : ℕ := ∑ j ∈ range d, (2 * (hbfTapsQ j).length - 1) * 2 ^ (d - 1 - j)

theorem hbfTapsQ_length_pos (j : ℕ) : 1 ≤ (hbfTapsQ j).length := by
  unfold hbfTapsQ
  split <;> simp [hbfTapsQ0, hbfTapsQ1, hbfTapsQ2, hbfTapsQ3, hbfTapsQ4]

theorem hbfCascadeDelay_eq (d : ℕ) (hd : d ≤ 4) :
    hbfCascadeDelay d = hbfIntResponseLength [23, 9, 5, 4] d / 2 := by
  have : d = 0 ∨ d = 1 ∨ d = 2 ∨ d = 3 ∨ d = 4 := by omega
  rcases this with rfl | rfl | rfl | rfl | rfl <;> decide

/-- generic-in-`d` form of `hbfSpec_dtft` (any `d`, stage `j ≥ 4` would use the fifth tap set) -/
theorem hbfSpec_dtft_gen (d : ℕ) (ω : ℝ) :
    ∑ n ∈ range (hbfCascadeFir d).length,
        (((hbfCascadeFir d).getD n 0 : ℚ) : ℂ) * Complex.exp (-(((n : ℝ) * ω : ℝ) : ℂ) * Complex.I) =
      Complex.exp (-((((hbfCascadeDelay d : ℕ) : ℝ) * ω : ℝ) : ℂ) * Complex.I) *
        ((∏ j ∈ range d, hbfAmp (hbfTapsQ j) (2 ^ (d - 1 - j) * ω) : ℝ) : ℂ) := by
  have h1 : ∑ n ∈ range (hbfCascadeFir d).length,
        (((hbfCascadeFir d).getD n 0 : ℚ) : ℂ) * Complex.exp (-(((n : ℝ) * ω : ℝ) : ℂ) * Complex.I) =
      levQ (hbfCascadeFir d) (Complex.exp (-(ω : ℂ) * Complex.I)) := by
    rw [levQ_eq_sum]
    apply Finset.sum_congr rfl
    intro n _
    rw [← Complex.exp_nat_mul]
    congr 2
    push_cast; ring
  rw [h1, levQ_hbfCascadeFir]
  have h2 : ∀ j ∈ range d, levQ (hbfFir (hbfTapsQ j)) (Complex.exp (-(ω : ℂ) * Complex.I) ^ (2 ^ (d - 1 - j))) =
      Complex.exp (-((((2 * (hbfTapsQ j).length - 1) * 2 ^ (d - 1 - j) : ℕ) : ℝ) * ω : ℝ) * Complex.I) *
        ((hbfAmp (hbfTapsQ j) (2 ^ (d - 1 - j) * ω) : ℝ) : ℂ) := by
    intro j _
    rw [← Complex.exp_nat_mul]
    have e : ((2 ^ (d - 1 - j) : ℕ) : ℂ) * (-(ω : ℂ) * Complex.I) =
        -(((2 ^ (d - 1 - j) * ω : ℝ)) : ℂ) * Complex.I := by push_cast; ring
    rw [e, levQ_hbfFir_exp _ (hbfTapsQ_length_pos j)]
    congr 3
    push_cast; ring
  rw [Finset.prod_congr rfl h2, Finset.prod_mul_distrib, ← Complex.exp_sum, Complex.ofReal_prod]
  congr 2
  rw [hbfCascadeDelay]
  push_cast
  rw [Finset.sum_mul, ← Finset.sum_neg_distrib, Finset.sum_mul]

/-- **DTFT of the cascade impulse response** (`d ≤ 4`): a pure delay by half the response length times the REAL
    product of the stage amplitudes; stage `j` sees the angle `2^(d-1-j)·ω`. -/
theorem hbfSpec_dtft (d : ℕ) (hd : d ≤ 4) (ω : ℝ) :
    ∑ n ∈ range (hbfCascadeFir d).length,
        (((hbfCascadeFir d).getD n 0 : ℚ) : ℂ) * Complex.exp (-(((n : ℝ) * ω : ℝ) : ℂ) * Complex.I) =
      Complex.exp (-((((hbfIntResponseLength [23, 9, 5, 4] d / 2 : ℕ) : ℝ) * ω : ℝ) : ℂ) * Complex.I) *
        ((∏ j ∈ range d, hbfAmp (hbfTapsQ j) (2 ^ (d - 1 - j) * ω) : ℝ) : ℂ) := by
  rw [hbfSpec_dtft_gen, hbfCascadeDelay_eq d hd]

/-- with `ω = 2πf/2^d` (`f` in units of the low sample rate) the amplitude product is `2^d` times the
    unity-normalised cascade gain -/
theorem hbfSpec_dtft_gain (d : ℕ) (f : ℝ) :
    ∏ j ∈ range d, hbfAmp (hbfTapsQ j) (2 ^ (d - 1 - j) * (2 * Real.pi * f / 2 ^ d)) =
      2 ^ d * hbfCascadeGain d f := by
  rw [hbfCascadeGain]
  have : (2 : ℝ) ^ d = ∏ _j ∈ range d, (2 : ℝ) := by simp
  rw [this, ← Finset.prod_mul_distrib]
  apply Finset.prod_congr rfl
  intro j hj
  have hj' := Finset.mem_range.mp hj
  have e : (2 : ℝ) ^ (d - 1 - j) * (2 * Real.pi * f / ∏ _j ∈ range d, (2 : ℝ)) = Real.pi * f / 2 ^ j := by
    rw [← this]
    have hd : d = (d - 1 - j) + 1 + j := by omega
    rw [eq_div_iff (by positivity)]
    nth_rewrite 2 [hd]
    rw [pow_add, pow_succ]
    field_simp
  rw [e]; ring

/-- the modulus of the DTFT at `ω = 2πf/2^d` is `2^d·|hbfCascadeGain d f|` -/
theorem hbfSpec_dtft_abs (d : ℕ) (hd : d ≤ 4) (f : ℝ) :
    ‖∑ n ∈ range (hbfCascadeFir d).length,
        (((hbfCascadeFir d).getD n 0 : ℚ) : ℂ) *
          Complex.exp (-(((n : ℝ) * (2 * Real.pi * f / 2 ^ d) : ℝ) : ℂ) * Complex.I)‖ =
      2 ^ d * |hbfCascadeGain d f| := by
  rw [hbfSpec_dtft d hd, hbfSpec_dtft_gain, norm_mul, ← Complex.ofReal_neg, Complex.norm_exp_ofReal_mul_I,
    one_mul, Complex.norm_real, Real.norm_eq_abs, abs_mul, abs_of_pos (by positivity)]

theorem levQ_one (l : List ℚ) : levQ l 1 = ((l.sum : ℚ) : ℂ) := by
  induction l with
  | nil => simp
  | cons a l ih => rw [levQ_cons, ih, List.sum_cons]; push_cast; ring

theorem levQ_hbfFir_one (taps : List ℚ) (hm : 1 ≤ taps.length) : levQ (hbfFir taps) 1 = ((hbfAmp taps 0 : ℝ) : ℂ) := by
  have h := levQ_hbfFir_exp taps hm 0
  simpa using h

/-- **DC**: the sum of the impulse response is the product of the stage amplitudes at angle 0, i.e. `2^d` times
    the unity-normalised cascade gain at `f = 0` (any depth) -/
theorem hbfSpec_dc_gain (d : ℕ) :
    (((hbfCascadeFir d).sum : ℚ) : ℝ) = ∏ j ∈ range d, hbfAmp (hbfTapsQ j) 0 ∧
    (((hbfCascadeFir d).sum : ℚ) : ℝ) = 2 ^ d * hbfCascadeGain d 0 := by
  have h1 : (((hbfCascadeFir d).sum : ℚ) : ℝ) = ∏ j ∈ range d, hbfAmp (hbfTapsQ j) 0 := by
    apply Complex.ofReal_injective
    rw [Complex.ofReal_ratCast, ← levQ_one, levQ_hbfCascadeFir, Complex.ofReal_prod]
    apply Finset.prod_congr rfl
    intro j _
    rw [one_pow, levQ_hbfFir_one _ (hbfTapsQ_length_pos j)]
  refine ⟨h1, ?_⟩
  have h2 := hbfSpec_dtft_gain d 0
  simp only [mul_zero, zero_div] at h2
  rw [h1, ← h2]

end Idsp
