import IdspModel.Rust
/-! Model of `src/hbf.rs` over an arbitrary carrier `α` with uninterpreted operations.
    The buffers are modelled literally (full length `N`, stale tail included). -/
namespace Idsp

structure Ops (α : Type) where
  zero : α
  add : α → α → α
  mul : α → α → α
  /-- Rust's `Iterator::sum` for the item type -/
  sum : List α → α
  half : α → α

variable {α : Type}

/-- overwrite `buf[off .. off + xs.length]` with `xs` (caller guarantees it fits) -/
def splice (buf : List α) (off : Nat) (xs : List α) : List α :=
  buf.take off ++ xs ++ buf.drop (off + xs.length)

/-- `buf.copy_within(src .. src + len, 0)` -/
def copyToFront (buf : List α) (src len : Nat) : List α :=
  splice buf 0 ((buf.drop src).take len)

/-- all contiguous windows of length `n` (Rust `slice::windows`) -/
def windows (n : Nat) : List α → List (List α)
  | [] => []
  | x :: xs => if (x :: xs).length < n then [] else (x :: xs).take n :: windows n xs

structure SymFir (α : Type) where
  x : List α          -- length N
  taps : List α       -- length M

def SymFir.new (o : Ops α) (n : Nat) (taps : List α) : SymFir α := ⟨List.replicate n o.zero, taps⟩

/-- one output of `SymFir::get` from one window of length `2M` -/
def firTap (o : Ops α) (taps : List α) (win : List α) : α :=
  let m := taps.length
  let old := win.take m
  let new := (win.drop m).reverse
  o.sum (((old.zip new).zip taps).map fun ((xo, xn), t) => o.mul (o.add xo xn) t)

def SymFir.get (o : Ops α) (f : SymFir α) : List α :=
  (windows (2 * f.taps.length) f.x).map (firTap o f.taps)

def SymFir.keepState (f : SymFir α) (offset : Nat) : SymFir α :=
  { f with x := copyToFront f.x offset (2 * f.taps.length - 1) }

def SymFir.load (f : SymFir α) (xs : List α) : SymFir α :=
  { f with x := splice f.x (2 * f.taps.length - 1) xs }

structure HbfDec (α : Type) where
  even : List α       -- length N
  odd : SymFir α

def HbfDec.new (o : Ops α) (n : Nat) (taps : List α) : HbfDec α :=
  ⟨List.replicate n o.zero, SymFir.new o n taps⟩

def evens : List α → List α
  | a :: _ :: t => a :: evens t
  | _ => []
def odds : List α → List α
  | _ :: b :: t => b :: odds t
  | _ => []

def HbfDec.blockMax (d : HbfDec α) : Nat := 2 * (d.even.length - (2 * d.odd.taps.length - 1))

/-- `HbfDec::process_block` on an admissible block (even length ≤ blockMax). Returns new state and output. -/
def HbfDec.process (o : Ops α) (d : HbfDec α) (x : List α) : HbfDec α × List α :=
  let m := d.odd.taps.length
  let k := x.length / 2
  let even := splice d.even (m - 1) (evens x)
  let odd := d.odd.load (odds x)
  let y := ((even.take k).zip (odd.get o)).map fun (e, od) => o.half (o.add e od)
  ({ even := copyToFront even k (m - 1), odd := odd.keepState k }, y)

structure HbfInt (α : Type) where
  fir : SymFir α

def HbfInt.new (o : Ops α) (n : Nat) (taps : List α) : HbfInt α := ⟨SymFir.new o n taps⟩

def HbfInt.blockMax (d : HbfInt α) : Nat := 2 * (d.fir.x.length - (2 * d.fir.taps.length - 1))

def interleave : List α → List α → List α
  | a :: as, b :: bs => a :: b :: interleave as bs
  | _, _ => []

/-- `HbfInt::process_block`: input of `k` items, output of `2k` items. -/
def HbfInt.process (o : Ops α) (d : HbfInt α) (x : List α) : HbfInt α × List α :=
  let m := d.fir.taps.length
  let k := x.length
  let fir := d.fir.load x
  let y := interleave (fir.get o) ((fir.x.drop m).take k)
  ({ fir := fir.keepState k }, y)

/-- cascade of up to four decimators, lowest rate filter is stage 0 (applied last) -/
structure HbfDecCascade (α : Type) where
  depth : Nat
  stages : List (HbfDec α)   -- 4 entries

def HbfDecCascade.process (o : Ops α) (c : HbfDecCascade α) (y : List α) : HbfDecCascade α × List α :=
  -- stages depth-1, ..., 0 in that order
  let rec go (i : Nat) (st : List (HbfDec α)) (y : List α) : List (HbfDec α) × List α :=
    match i with
    | 0 => (st, y)
    | j + 1 =>
      match st[j]? with
      | none => (st, y)
      | some s =>
        let (s', y') := s.process o y
        go j (st.set j s') y'
  let (st, out) := go c.depth c.stages y
  ({ c with stages := st }, out)

structure HbfIntCascade (α : Type) where
  depth : Nat
  stages : List (HbfInt α)

def HbfIntCascade.process (o : Ops α) (c : HbfIntCascade α) (x : List α) : HbfIntCascade α × List α :=
  -- stages 0, ..., depth-1 in that order
  let rec go (fuel i : Nat) (st : List (HbfInt α)) (y : List α) : List (HbfInt α) × List α :=
    match fuel with
    | 0 => (st, y)
    | f + 1 =>
      match st[i]? with
      | none => (st, y)
      | some s =>
        let (s', y') := s.process o y
        go f (i + 1) (st.set i s') y'
  let (st, out) := go c.depth 0 c.stages x
  ({ c with stages := st }, out)

def hbfDecResponseLength (ms : List Nat) (depth : Nat) : Nat :=
  -- n = n/2 + (2M-1), from stage depth-1 down to 0
  let rec go (i n : Nat) : Nat :=
    match i with
    | 0 => n
    | j + 1 => go j (n / 2 + (2 * ms.getD j 0 - 1))
  go depth 0

def hbfIntResponseLength (ms : List Nat) (depth : Nat) : Nat :=
  let rec go (fuel i n : Nat) : Nat :=
    match fuel with
    | 0 => n
    | f + 1 => go f (i + 1) (2 * n + (4 * ms.getD i 0 - 2))
  go depth 0 0

end Idsp
