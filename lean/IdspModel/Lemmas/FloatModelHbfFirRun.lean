import IdspModel.Lemmas.FloatModelHbfFir
import IdspModel.Lemmas.FloatModelHbfCascadeRun
/-!
  The exact real half-band cascades as ONE convolution with the published overall FIR `hbfCascadeFir d`:
  stage = strided FIR on two-sided sequences, list truncation handled by causality (`fhbfAgrees`), composition by the
  noble identities of `Lemmas/FloatModelHbfFir.lean`.
-/
namespace Idsp
open Finset

theorem fhbf_hbfCoeff_cast (taps : List ℚ) (j : ℕ) :
    hbfCoeff (taps.map (Rat.cast : ℚ → ℝ)) j = ((hbfCoeff taps j : ℚ) : ℝ) := by
  have h : ∀ i, (taps.map (Rat.cast : ℚ → ℝ)).getD i 0 = ((taps.getD i 0 : ℚ) : ℝ) := by
    intro i
    simp only [List.getD_eq_getElem?_getD, List.getElem?_map]
    cases taps[i]? <;> simp
  simp only [hbfCoeff, List.length_map, h]
  split_ifs <;> simp

/-- the exact stage FIR over `ℝ` is the strided FIR of the rational list `hbfFir (hbfTapsQ j)` -/
theorem fhbf_firAt_eq_stride (j : ℕ) (w : ℤ → ℝ) (n : ℤ) :
    firAt (fhbfTapsR j) w n = fhbfStride 1 (hbfFir (hbfTapsQ j)) w n := by
  unfold firAt fhbfStride fhbfTapsR
  rw [hbfFir_length, List.length_map]
  refine Finset.sum_congr rfl fun i hi => ?_
  have hi' := Finset.mem_range.mp hi
  rw [fhbf_hbfCoeff_cast, getD_eq_of_lt _ _ _ (by rw [hbfFir_length]; exact hi'), hbfFir_getElem]
  congr 2
  push_cast
  ring

/-- the list `X` is the initial segment of the two-sided sequence `w` (which vanishes on the negatives) -/
def fhbfAgrees (X : List ℝ) (w : ℤ → ℝ) : Prop := ∀ n : ℤ, n < X.length → zext X n = w n

theorem fhbfAgrees_zext (X : List ℝ) : fhbfAgrees X (zext X) := fun _ _ => rfl

theorem fhbfAgrees.causal {X : List ℝ} {w : ℤ → ℝ} (h : fhbfAgrees X w) (m : ℤ) (hm : m < 0) : w m = 0 := by
  rw [← h m (by have : (0 : ℤ) ≤ X.length := Int.natCast_nonneg _
                omega), zext_of_neg _ _ hm]

theorem fhbf_zstuff_eq_up (X : List ℝ) (m : ℤ) : zstuff X m = fhbfUp 2 (zext X) m := by
  unfold zstuff fhbfUp
  have : ((2 : ℕ) : ℤ) = 2 := rfl
  rw [this]
  by_cases h : m % 2 = 0
  · rw [if_pos h, if_pos (Int.dvd_of_emod_eq_zero h)]
  · rw [if_neg h, if_neg (fun hd => h (Int.emod_eq_zero_of_dvd hd))]

/-- one exact interpolator stage on sequences -/
theorem fhbf_int_stage_agrees (j : ℕ) (X : List ℝ) (w : ℤ → ℝ) (h : fhbfAgrees X w) :
    fhbfAgrees (hbfIntSpec fhbfExactOps (fhbfIntAbs j).1 (fhbfIntAbs j).2 X)
      (fhbfStride 1 (hbfFir (hbfTapsQ j)) (fhbfUp 2 w)) := by
  have hm := (fhbfTapsR_length_le j).1
  have le := intSpec_length fhbfExactOps (fhbfIntAbs j).1 (fhbfIntAbs j).2 X hm (by simp [fhbfIntAbs])
  intro n hn
  rw [le] at hn
  have hupc : ∀ m, m < 0 → fhbfUp 2 w m = 0 := by
    intro m hm0
    unfold fhbfUp
    split
    · exact h.causal _ (by omega)
    · rfl
  by_cases h0 : n < 0
  · rw [zext_of_neg _ _ h0, fhbfStride_causal _ _ _ hupc n h0]
  · obtain ⟨k, rfl⟩ : ∃ k : ℕ, n = k := ⟨n.toNat, by omega⟩
    have hk : k < 2 * X.length := by omega
    rw [zext_of_lt _ _ k rfl (by rw [le]; exact hk)]
    have hconv := intSpec_conv (fun x : ℝ => 1 / 2 * x) (fhbfTapsR j) X hm k hk
    rw [show (hbfIntSpec fhbfExactOps (fhbfIntAbs j).1 (fhbfIntAbs j).2 X)[k]'(by rw [le]; exact hk) =
      firAt (fhbfTapsR j) (zstuff X) k from hconv, fhbf_firAt_eq_stride]
    refine fhbfStride_congr_le _ _ _ _ _ fun m hmk => ?_
    rw [fhbf_zstuff_eq_up]
    refine fhbfUp_congr 2 _ _ m (h _ ?_)
    have : ((2 : ℕ) : ℤ) = 2 := rfl
    rw [this]
    omega

/-- one exact decimator stage on sequences -/
theorem fhbf_dec_stage_agrees (j : ℕ) (X : List ℝ) (w : ℤ → ℝ) (h : fhbfAgrees X w) :
    fhbfAgrees (hbfDecSpec fhbfExactOps (fhbfDecAbs j).1 (fhbfDecAbs j).2.1 (fhbfDecAbs j).2.2 X)
      (fun i => 1 / 2 * fhbfDn (fhbfStride 1 (hbfFir (hbfTapsQ j)) w) i) := by
  have hm := (fhbfTapsR_length_le j).1
  have le := decSpec_length fhbfExactOps (fhbfDecAbs j).1 (fhbfDecAbs j).2.1 (fhbfDecAbs j).2.2 X hm
    (by simp [fhbfDecAbs]) (by simp [fhbfDecAbs])
  intro n hn
  rw [le] at hn
  by_cases h0 : n < 0
  · rw [zext_of_neg _ _ h0]
    show (0 : ℝ) = 1 / 2 * fhbfStride 1 (hbfFir (hbfTapsQ j)) w (2 * n + 1)
    rw [fhbfStride_causal _ _ _ h.causal _ (by omega), mul_zero]
  · obtain ⟨i, rfl⟩ : ∃ i : ℕ, n = i := ⟨n.toNat, by omega⟩
    have hi : i < X.length / 2 := by omega
    rw [zext_of_lt _ _ i rfl (by rw [le]; exact hi)]
    have hconv := decSpec_conv (fun x : ℝ => 1 / 2 * x) (fhbfTapsR j) X hm i hi
    rw [show (hbfDecSpec fhbfExactOps (fhbfDecAbs j).1 (fhbfDecAbs j).2.1 (fhbfDecAbs j).2.2 X)[i]'(by
        rw [le]; exact hi) = 1 / 2 * firAt (fhbfTapsR j) (zext X) (2 * i + 1) from hconv, fhbf_firAt_eq_stride]
    show 1 / 2 * fhbfStride 1 (hbfFir (hbfTapsQ j)) (zext X) (2 * (i : ℤ) + 1) =
      1 / 2 * fhbfStride 1 (hbfFir (hbfTapsQ j)) w (2 * (i : ℤ) + 1)
    congr 1
    refine fhbfStride_congr_le _ _ _ _ _ fun m hmk => h m ?_
    omega

/-! ### chains of stages -/

/-- ideal interpolating chain on sequences (`js` in application order) -/
noncomputable def fhbfIntIdeal : List ℕ → (ℤ → ℝ) → ℤ → ℝ
  | [], w => w
  | j :: js, w => fhbfIntIdeal js (fhbfStride 1 (hbfFir (hbfTapsQ j)) (fhbfUp 2 w))

noncomputable def fhbfDecIdeal : List ℕ → (ℤ → ℝ) → ℤ → ℝ
  | [], w => w
  | j :: js, w => fhbfDecIdeal js (fun i => 1 / 2 * fhbfDn (fhbfStride 1 (hbfFir (hbfTapsQ j)) w) i)

theorem fhbf_intChain_agrees (js : List ℕ) (X : List ℝ) (w : ℤ → ℝ) (h : fhbfAgrees X w) :
    fhbfAgrees (intChainSpec fhbfExactOps (js.map fhbfIntAbs) X) (fhbfIntIdeal js w) := by
  induction js generalizing X w with
  | nil => exact h
  | cons j js ih => exact ih _ _ (fhbf_int_stage_agrees j X w h)

theorem fhbf_decChain_agrees (js : List ℕ) (X : List ℝ) (w : ℤ → ℝ) (h : fhbfAgrees X w) :
    fhbfAgrees (decChainSpec fhbfExactOps (js.map fhbfDecAbs) X) (fhbfDecIdeal js w) := by
  induction js generalizing X w with
  | nil => exact h
  | cons j js ih => exact ih _ _ (fhbf_dec_stage_agrees j X w h)

/-- the strided FIRs of an interpolating chain: the stage applied first is upsampled most -/
def fhbfIntPairs : List ℕ → List (ℕ × List ℚ)
  | [] => []
  | j :: js => fhbfIntPairs js ++ [(2 ^ js.length, hbfFir (hbfTapsQ j))]

/-- the strided FIRs of a decimating chain: the stage applied first runs at the full rate -/
def fhbfDecPairs : List ℕ → List (ℕ × List ℚ)
  | [] => []
  | j :: js => (fhbfDecPairs js).map (fun p => (2 * p.1, p.2)) ++ [(1, hbfFir (hbfTapsQ j))]

theorem fhbfIntIdeal_eq (js : List ℕ) (w : ℤ → ℝ) (n : ℤ) :
    fhbfIntIdeal js w n = fhbfChain (fhbfIntPairs js) (fhbfUp (2 ^ js.length) w) n := by
  induction js generalizing w n with
  | nil => simp [fhbfIntIdeal, fhbfIntPairs, fhbfUp_one]
  | cons j js ih =>
    rw [fhbfIntIdeal, ih, fhbfIntPairs, fhbfChain_append, fhbfChain_cons, fhbfChain_nil]
    refine fhbfChain_congr_fun _ (fun m => ?_) n
    rw [fhbfUp_stride _ 1 Nat.one_le_two_pow, mul_one]
    refine fhbfStride_congr_fun _ _ (fun k => ?_) m
    rw [fhbfUp_up _ 2 Nat.one_le_two_pow, List.length_cons, pow_succ]

theorem fhbfDecIdeal_eq (js : List ℕ) (w : ℤ → ℝ) (i : ℤ) :
    fhbfDecIdeal js w i =
      (1 / 2) ^ js.length * fhbfChain (fhbfDecPairs js) w (2 ^ js.length * i + 2 ^ js.length - 1) := by
  induction js generalizing w i with
  | nil => simp [fhbfDecIdeal, fhbfDecPairs]
  | cons j js ih =>
    rw [fhbfDecIdeal, ih, fhbfDecPairs, fhbfChain_append, fhbfChain_cons, fhbfChain_nil]
    rw [fhbfChain_smul (fhbfDecPairs js) (1 / 2) (fhbfDn (fhbfStride 1 (hbfFir (hbfTapsQ j)) w)), fhbfChain_dn]
    unfold fhbfDn
    rw [List.length_cons, pow_succ, pow_succ]
    have e : 2 * ((2 : ℤ) ^ js.length * i + 2 ^ js.length - 1) + 1 = 2 ^ js.length * 2 * i + 2 ^ js.length * 2 - 1 := by
      ring
    rw [e]
    ring

/-- for the cascades of depth `d ≤ 4` the chains are the factors of `hbfCascadeFir d` -/
theorem fhbfIntPairs_range (d : ℕ) (hd : d ≤ 4) :
    fhbfIntPairs (List.range d) = ((List.range d).map fun j => (2 ^ (d - 1 - j), hbfFir (hbfTapsQ j))).reverse := by
  have : d = 0 ∨ d = 1 ∨ d = 2 ∨ d = 3 ∨ d = 4 := by omega
  rcases this with rfl | rfl | rfl | rfl | rfl <;> simp [fhbfIntPairs, List.range, List.range.loop]

theorem fhbfDecPairs_range (d : ℕ) (hd : d ≤ 4) :
    fhbfDecPairs (List.range d).reverse = (List.range d).map fun j => (2 ^ (d - 1 - j), hbfFir (hbfTapsQ j)) := by
  have : d = 0 ∨ d = 1 ∨ d = 2 ∨ d = 3 ∨ d = 4 := by omega
  rcases this with rfl | rfl | rfl | rfl | rfl <;> simp [fhbfDecPairs, List.range, List.range.loop]

/-- **exact interpolating chain = one convolution**: the stages `0, …, d−1` applied in this order are the published
    overall FIR applied to the input zero-stuffed by `2^d` -/
theorem fhbfIntIdeal_range (d : ℕ) (hd : d ≤ 4) (w : ℤ → ℝ) (n : ℤ) :
    fhbfIntIdeal (List.range d) w n = fhbfStride 1 (hbfCascadeFir d) (fhbfUp (2 ^ d) w) n := by
  rw [fhbfIntIdeal_eq, fhbfIntPairs_range d hd, fhbfChain_reverse, fhbfStride_hbfCascadeFir, List.length_range]

/-- **exact decimating chain = one convolution, sampled**: stages `d−1, …, 0` give `2^-d` times the published overall
    FIR applied to the input, read at positions `2^d·i + 2^d − 1` -/
theorem fhbfDecIdeal_range (d : ℕ) (hd : d ≤ 4) (w : ℤ → ℝ) (i : ℤ) :
    fhbfDecIdeal (List.range d).reverse w i =
      (1 / 2) ^ d * fhbfStride 1 (hbfCascadeFir d) w (2 ^ d * i + 2 ^ d - 1) := by
  rw [fhbfDecIdeal_eq, fhbfDecPairs_range d hd, fhbfStride_hbfCascadeFir, List.length_reverse, List.length_range]

end Idsp
