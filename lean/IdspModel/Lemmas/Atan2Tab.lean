import IdspModel.Model.Atan2
import IdspModel.Lemmas.Basic
/-!
# `atani` over the complete range of quotient fields: table machinery

`divi` only ever produces arguments of the form `q·2^15 + 2^14` (or `0`).  `atanRun q n` is an executable check
that `atani` (checked mode: no intermediate overflow) succeeds on the `n` consecutive quotient fields
`q, q+1, …, q+n-1`, that every result is in `[0, atanMax]` and that the results are non-decreasing.
The chunk files `Atan2TabNN.lean` evaluate it in the kernel over consecutive (one point overlapping) ranges;
`Atan2Table.lean` glues the chunks.

For kernel evaluation the model function `atani .checked` is first shown equal to `ataniF`, which uses literal
powers of two and forces every intermediate integer to a literal (the kernel's reduction is call-by-name, the
six nested Horner steps would otherwise be re-evaluated exponentially often).  Core Lean only.
-/
namespace Idsp

/-! ## evaluation-friendly copy of `atani` -/

def okI64 (x : Int) : Bool := decide (-9223372036854775808 ≤ x) && decide (x < 9223372036854775808)
def okI32 (x : Int) : Bool := decide (-2147483648 ≤ x) && decide (x < 2147483648)
def wrap32 (x : Int) : Int := (x + 2147483648) % 4294967296 - 2147483648

theorem inI64_eq (x : Int) : inI 64 x = okI64 x := by simp [inI, okI64]
theorem inI32_eq (x : Int) : inI 32 x = okI32 x := by simp [inI, okI32]
theorem wrapI32_eq (x : Int) : wrapI 32 x = wrap32 x := by simp [wrapI, wrap32]

/-- `k x`, but the kernel has to bring `x` to a literal before it can continue -/
def forceInt {α : Type} (x : Int) (k : Int → α) : α :=
  match x with
  | .ofNat n => (match n with | 0 => k (Int.ofNat 0) | m + 1 => k (Int.ofNat (m + 1)))
  | .negSucc n => (match n with | 0 => k (Int.negSucc 0) | m + 1 => k (Int.negSucc (m + 1)))

theorem forceInt_eq {α : Type} (x : Int) (k : Int → α) : forceInt x k = k x := by
  cases x <;> rename_i n <;> cases n <;> rfl

/-- `k n`, but the kernel has to bring `n` to a literal before it can continue -/
def forceNat {α : Type} (n : Nat) (k : Nat → α) : α :=
  match n with
  | 0 => k 0
  | m + 1 => k (m + 1)

theorem forceNat_eq {α : Type} (n : Nat) (k : Nat → α) : forceNat n k = k n := by
  cases n <;> rfl

def atanHornerF (x2 : Int) : List Int → Int → Option Int
  | [], r => some r
  | a :: as, r =>
    if okI64 (r * x2) then
      forceInt (wrap32 (r * x2 / 4294967296) + a) fun r' =>
        if okI32 r' then atanHornerF x2 as r' else none
    else none

def ataniF (x : Int) : Option Int :=
  if okI64 (x * x) then
    forceInt (wrap32 (x * x / 4294967296)) fun x2 =>
      match atanHornerF x2
        [-0x3bc823dd, 0x43b34c81, -0x25b32e0a, 0x0fbdb021, -0x06c6496b, 0x0517c2cd] 0 with
      | some r => if okI64 (r * x) then some (r * x / 268435456 % 4294967296) else none
      | none => none
  else none

theorem atanHornerF_eq (x2 : Int) : ∀ (as : List Int) (r : Int),
    (atanHorner .checked x2 as r).toOption = atanHornerF x2 as r := by
  intro as
  induction as with
  | nil => intro r; simp [atanHorner, atanHornerF, Except.toOption]
  | cons a as ih =>
    intro r
    simp only [atanHorner, atanHornerF, arithI, inI64_eq, inI32_eq, wrapI32_eq, shr, forceInt_eq]
    cases h1 : okI64 (r * x2)
    · simp [Except.toOption, bind, Except.bind]
    · simp only [if_true]
      show (Except.bind (Except.ok (r * x2)) _).toOption = _
      simp only [Except.bind]
      have e : (2:Int)^32 = 4294967296 := by decide
      rw [e]
      cases h2 : okI32 (wrap32 (r * x2 / 4294967296) + a)
      · simp [Except.toOption, bind, Except.bind]
      · simp only [if_true]
        show (Except.bind (Except.ok _) _).toOption = _
        simp only [Except.bind]
        exact ih _

/-- the evaluation-friendly copy agrees with the model (checked mode), panics mapped to `none` -/
theorem ataniF_eq (x : Int) : (atani .checked x).toOption = ataniF x := by
  have hc : atanCoeffs.reverse =
      [-0x3bc823dd, 0x43b34c81, -0x25b32e0a, 0x0fbdb021, -0x06c6496b, 0x0517c2cd] := by decide
  simp only [atani, ataniF, arithI, inI64_eq, wrapI32_eq, shr, hc, wrapU, forceInt_eq]
  have e : (2:Int)^32 = 4294967296 := by decide
  have e' : (2:Int)^28 = 268435456 := by decide
  rw [e, e']
  cases h1 : okI64 (x * x)
  · simp [Except.toOption, bind, Except.bind]
  · simp only [if_true]
    show (Except.bind (Except.ok (x * x)) _).toOption = _
    simp only [Except.bind]
    rw [← atanHornerF_eq]
    cases h2 : atanHorner .checked (wrap32 (x * x / 4294967296))
      [-0x3bc823dd, 0x43b34c81, -0x25b32e0a, 0x0fbdb021, -0x06c6496b, 0x0517c2cd] 0 with
    | error e => simp [Except.toOption, bind, Except.bind]
    | ok r =>
      simp only [Except.toOption, bind, Except.bind]
      cases h3 : okI64 (r * x) <;> simp [pure, Except.pure]

theorem ataniF_some {x r : Int} (h : ataniF x = some r) : atani .checked x = .ok r := by
  rw [← ataniF_eq] at h
  cases h' : atani .checked x with
  | error e => rw [h'] at h; simp [Except.toOption] at h
  | ok v => rw [h'] at h; simp [Except.toOption] at h; rw [h]

/-! ## the table check -/

/-- the largest quotient field `divi` produces outside the defect pair `(3,3)`: `(5,5) ↦ 2^16 + 2^14` -/
def atanQMax : Nat := 81920

/-- `atani` at the quotient field `81920`, the largest value of the table (`< 2^30`) -/
def atanMax : Int := 609661461

/-- `atani` (checked mode) at the argument that `divi` forms from the quotient field `q` -/
def atanQ (q : Nat) : R Int := atani .checked ((q : Int) * 2 ^ 15 + 2 ^ 14)

/-- the same through the evaluation-friendly copy -/
def atanQF (q : Nat) : Option Int := ataniF ((q : Int) * 32768 + 16384)

theorem atanQF_some {q : Nat} {r : Int} (h : atanQF q = some r) : atanQ q = .ok r := by
  have e : (2:Int)^15 = 32768 := by decide
  have e' : (2:Int)^14 = 16384 := by decide
  unfold atanQ; rw [e, e']; exact ataniF_some h

/-- generic executable table check: `f` succeeds on `q, …, q+n-1`, values non-decreasing, `≥ prev`, `≤ B` -/
def runTab (f : Nat → Option Int) (B : Int) : Int → Nat → Nat → Bool
  | _, _, 0 => true
  | prev, q, n + 1 =>
    match f q with
    | some r => forceInt r fun r => forceNat (q + 1) fun q' =>
        decide (prev ≤ r) && (decide (r ≤ B) && runTab f B r q' n)
    | none => false

theorem runTab_spec (f : Nat → Option Int) (B : Int) : ∀ (n : Nat) (prev : Int) (q : Nat),
    runTab f B prev q n = true →
    ∀ i, i < n → ∃ r, f (q + i) = some r ∧ prev ≤ r ∧ r ≤ B ∧
      (i + 1 < n → ∃ r', f (q + i + 1) = some r' ∧ r ≤ r') := by
  intro n
  induction n with
  | zero => intro prev q _ i hi; omega
  | succ n ih =>
    intro prev q h i hi
    unfold runTab at h
    split at h
    · next r hr =>
      simp only [forceInt_eq, forceNat_eq, Bool.and_eq_true, decide_eq_true_eq] at h
      obtain ⟨h1, h2, h3⟩ := h
      cases i with
      | zero =>
        refine ⟨r, by simpa using hr, h1, h2, ?_⟩
        intro hn
        obtain ⟨r', hr', hle, _, _⟩ := ih r (q + 1) h3 0 (by omega)
        exact ⟨r', by simpa using hr', hle⟩
      | succ j =>
        obtain ⟨r', hr', hle, hmax, hnext⟩ := ih r (q + 1) h3 j (by omega)
        have e : q + 1 + j = q + (j + 1) := by omega
        rw [e] at hr' hnext
        exact ⟨r', hr', by omega, hmax, fun hn => hnext (by omega)⟩
    · cases h

/-- executable table check for `atani`, see the module doc -/
def atanRun (q n : Nat) : Bool := runTab atanQF atanMax 0 q n

theorem atanRun_spec {q n : Nat} (h : atanRun q n = true) :
    ∀ i, i < n → ∃ r, atanQ (q + i) = .ok r ∧ 0 ≤ r ∧ r ≤ atanMax ∧
      (i + 1 < n → ∃ r', atanQ (q + i + 1) = .ok r' ∧ r ≤ r') := by
  intro i hi
  obtain ⟨r, hr, h0, h1, h2⟩ := runTab_spec atanQF atanMax n 0 q h i hi
  refine ⟨r, atanQF_some hr, h0, h1, fun hn => ?_⟩
  obtain ⟨r', hr', hle⟩ := h2 hn
  exact ⟨r', atanQF_some hr', hle⟩

end Idsp
