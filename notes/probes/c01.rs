use idsp::*;
use std::thread;
fn main() {
    let nt = 16u64;
    let hs: Vec<_> = (0..nt).map(|t| thread::spawn(move || {
        let amp = (1i64 << 31) as f64 - 0.85 * (1i64 << 15) as f64;
        let (mut sc, mut ss) = (0i64, 0i64);
        let mut maxerr = 0f64; let mut maxabs = 0i64;
        let mut symfail = 0u64; let mut rt_max = 0i64; let mut abs_min=u32::MAX; let mut abs_max=0u32; let mut log2bad=0u64;
        let lo = t << 28; let hi = (t + 1) << 28;
        for u in lo..hi {
            let p = u as u32 as i32;
            let (c, s) = cossin(p);
            sc += c as i64; ss += s as i64;
            maxabs = maxabs.max((c as i64).abs()).max((s as i64).abs());
            let th = p as f64 * std::f64::consts::PI / (1u64 << 31) as f64;
            let e = (c as f64 / amp - th.cos()).abs().max((s as f64 / amp - th.sin()).abs());
            if e > maxerr { maxerr = e; }
            let (c2, s2) = cossin(p.wrapping_add(1 << 30));
            if (c2, s2) != (-s, c) { symfail += 1; }
            let (c3, s3) = cossin(!p);
            if (c3, s3) != (c, -s) { symfail += 1; }
            let (c4, s4) = cossin(p ^ ((1 << 30) - 1));
            // mirror inside quadrant: for quadrant 0: swaps; in general quadrants? record
            let q = (p as u32) >> 30;
            let ok = match q { 0 | 2 => (c4, s4) == (s, c), _ => (c4, s4) == (-s, -c) };
            if !ok { symfail += 1; }
            let z = Complex::new(c, s);
            let a = z.arg();
            let d = (a.wrapping_sub(p) as i64).abs();
            rt_max = rt_max.max(d);
            let q2 = z.abs_sqr(); abs_min = abs_min.min(q2); abs_max = abs_max.max(q2);
            if z.log2() != -2 { log2bad += 1; }
        }
        (sc, ss, maxerr, maxabs, symfail, rt_max, abs_min, abs_max, log2bad)
    })).collect();
    let mut tot = (0i64, 0i64, 0f64, 0i64, 0u64, 0i64, u32::MAX, 0u32, 0u64);
    for h in hs { let r = h.join().unwrap(); tot.0 += r.0; tot.1 += r.1; tot.2 = tot.2.max(r.2); tot.3 = tot.3.max(r.3); tot.4 += r.4; tot.5 = tot.5.max(r.5); tot.6=tot.6.min(r.6); tot.7=tot.7.max(r.7); tot.8+=r.8; }
    println!("sumc {} sums {} maxerr {:e} maxabs {} (2^31-maxabs {}) symfail {} rtmax {} abs_sqr [{}, {}] rel {:e} log2bad {}", tot.0, tot.1, tot.2, tot.3, (1i64<<31)-tot.3, tot.4, tot.5, tot.6, tot.7, 1.0 - tot.6 as f64/(1u64<<31) as f64, tot.8);
}
