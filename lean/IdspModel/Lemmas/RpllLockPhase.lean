import Mathlib.Tactic.Ring
import Mathlib.Tactic.Linarith
import Mathlib.Tactic.Positivity
/-!
Pure integer arithmetic of the RPLL phase loop from one reference edge to the next.
`D = 2^dt2`, `Σ = 2^(sp−dt2)`; at an edge `e` the code forms `W = wrap(y_ref − y)` with `y_ref = (f_old >> dt2)·r_e`,
`dy = W >> (sp−dt2)`, `f = ff_new + dy`; `n_j` updates later (`n_j·D = P + r_n − r_e`) the next edge forms `W'`.
-/
namespace Idsp

/-- the exact edge-to-edge identity for the (unwrapped) next loop error
    `V' = W + (A' − A)·r_e − (P·A' − 2^32) − n_j·b'` -/
theorem phase_identity (D Sg P T ffo ffn dyp dy ωp ω fo f A A' b b' re rn nj W Wp : Int)
    (hT : T = 2 ^ 32 * D)
    (hfo : fo = ffo + dyp) (hWp : Wp = Sg * dyp + ωp) (hf : f = ffn + dy) (hW : W = Sg * dy + ω)
    (hA : fo = D * A + b) (hA' : f = D * A' + b') (hn : nj * D = P + rn - re) :
    D * Sg * (W + (A' - A) * re - (P * A' - 2 ^ 32) - nj * b') =
      (D * Sg - P + re) * W - re * Wp + Sg * re * (ffn - ffo) - Sg * (P * ffn - T)
        + ((P - re) * ω + re * ωp) + Sg * (re * b - rn * b') := by
  have hb : b = fo - D * A := by linarith
  have hb' : b' = f - D * A' := by linarith
  have hrn : rn = nj * D - P + re := by linarith
  subst hb hb' hrn hT hW hWp
  subst hf hfo
  ring

/-- wrapping to `[−2^31, 2^31)` never increases the absolute value -/
theorem abs_wrap_le (W V k : Int) (hW0 : -2 ^ 31 ≤ W) (hW1 : W < 2 ^ 31) (h : V = W + k * 2 ^ 32) : |W| ≤ |V| := by
  rcases lt_trichotomy k 0 with hk | hk | hk
  · have : V ≤ W - 2 ^ 32 := by nlinarith
    rw [abs_le]; constructor
    · have := neg_abs_le V; have := abs_nonneg V
      have h2 : |V| = -V := abs_of_nonpos (by linarith)
      linarith
    · have h2 : |V| = -V := abs_of_nonpos (by linarith)
      linarith
  · subst hk; simp at h; rw [h]
  · have : W + 2 ^ 32 ≤ V := by nlinarith
    have h2 : |V| = V := abs_of_nonneg (by linarith)
    rw [abs_le]; constructor <;> linarith

/-- **one edge-to-edge step of the phase loop**: bound of the next loop error by the two previous ones -/
theorem phase_step_bound (D Sg P T ffo ffn dyp dy ωp ω fo f A A' b b' re rn nj W Wp W' k : Int)
    (hT : T = 2 ^ 32 * D)
    (hfo : fo = ffo + dyp) (hWp : Wp = Sg * dyp + ωp) (hf : f = ffn + dy) (hW : W = Sg * dy + ω)
    (hA : fo = D * A + b) (hA' : f = D * A' + b') (hn : nj * D = P + rn - re)
    (hD : 0 < D) (hSg : 0 < Sg) (hP : P ≤ D * Sg)
    (hre : 0 ≤ re ∧ re < D) (hrn : 0 ≤ rn ∧ rn < D) (hb : 0 ≤ b ∧ b < D) (hb' : 0 ≤ b' ∧ b' < D)
    (hω : 0 ≤ ω ∧ ω < Sg) (hωp : 0 ≤ ωp ∧ ωp < Sg) (hDP : D ≤ P)
    (hW'0 : -2 ^ 31 ≤ W') (hW'1 : W' < 2 ^ 31)
    (hV : W + (A' - A) * re - (P * A' - 2 ^ 32) - nj * b' = W' + k * 2 ^ 32) :
    D * Sg * |W'| ≤ (D * Sg - P + re) * |W| + re * |Wp|
      + Sg * (|P * ffn - T| + re * |ffn - ffo|) + Sg * (P + D + D * D) := by
  have id := phase_identity D Sg P T ffo ffn dyp dy ωp ω fo f A A' b b' re rn nj W Wp hT hfo hWp hf hW hA hA' hn
  have hle := abs_wrap_le W' _ k hW'0 hW'1 hV
  generalize W + (A' - A) * re - (P * A' - 2 ^ 32) - nj * b' = V at id hle hV
  have hDS : 0 < D * Sg := by positivity
  have h1 : D * Sg * |W'| ≤ |D * Sg * V| := by
    rw [abs_mul, abs_of_pos hDS]; exact mul_le_mul_of_nonneg_left hle hDS.le
  rw [id] at h1
  have c0 : 0 ≤ D * Sg - P + re := by linarith [hre.1]
  have t1 : |(D * Sg - P + re) * W| = (D * Sg - P + re) * |W| := by rw [abs_mul, abs_of_nonneg c0]
  have t2 : |re * Wp| = re * |Wp| := by rw [abs_mul, abs_of_nonneg hre.1]
  have t3 : |Sg * re * (ffn - ffo)| = Sg * re * |ffn - ffo| := by
    rw [abs_mul, abs_of_nonneg (mul_nonneg hSg.le hre.1 : (0:Int) ≤ Sg * re)]
  have t4 : |Sg * (P * ffn - T)| = Sg * |P * ffn - T| := by rw [abs_mul, abs_of_pos hSg]
  have t5 : |(P - re) * ω + re * ωp| ≤ (P + D) * Sg := by
    have a1 : 0 ≤ (P - re) * ω := mul_nonneg (by linarith [hre.2]) hω.1
    have a2 : 0 ≤ re * ωp := mul_nonneg hre.1 hωp.1
    have a3 : (P - re) * ω ≤ P * Sg :=
      mul_le_mul (by linarith [hre.1]) hω.2.le hω.1 (by linarith)
    have a4 : re * ωp ≤ D * Sg := mul_le_mul hre.2.le hωp.2.le hωp.1 hD.le
    rw [abs_of_nonneg (by linarith)]; linarith
  have t6 : |Sg * (re * b - rn * b')| ≤ Sg * (D * D) := by
    rw [abs_mul, abs_of_pos hSg]
    apply mul_le_mul_of_nonneg_left _ hSg.le
    rw [abs_le]
    have a1 : 0 ≤ re * b := mul_nonneg hre.1 hb.1
    have a2 : re * b ≤ D * D := mul_le_mul hre.2.le hb.2.le hb.1 hD.le
    have a3 : 0 ≤ rn * b' := mul_nonneg hrn.1 hb'.1
    have a4 : rn * b' ≤ D * D := mul_le_mul hrn.2.le hb'.2.le hb'.1 hD.le
    constructor <;> linarith
  have tri : ∀ a b c d e f : Int, |a - b + c - d + e + f| ≤ |a| + |b| + |c| + |d| + |e| + |f| := by
    intro a b c d e f
    have := abs_add_le (a - b + c - d + e) f
    have := abs_add_le (a - b + c - d) e
    have := abs_sub (a - b + c) d
    have := abs_add_le (a - b) c
    have := abs_sub a b
    linarith
  have := tri ((D * Sg - P + re) * W) (re * Wp) (Sg * re * (ffn - ffo)) (Sg * (P * ffn - T))
    ((P - re) * ω + re * ωp) (Sg * (re * b - rn * b'))
  rw [t1, t2, t3, t4] at this
  have e1 : Sg * (|P * ffn - T| + re * |ffn - ffo|) = Sg * re * |ffn - ffo| + Sg * |P * ffn - T| := by ring
  have e2 : Sg * (P + D + D * D) = (P + D) * Sg + Sg * (D * D) := by ring
  linarith

/-- weighted norm `N = Σ·|W| + 2·|W_prev|`: one edge contracts it by `(1 − Q/2^sp)` up to a constant,
    `Q = min(P − 3D, 2^sp/2)` -/
theorem phase_norm_step (L D Sg P Q C0 re aW aWp aW' : Int) (hL : L = D * Sg) (_hD : 0 < D) (hSg : 0 < Sg)
    (hre : 0 ≤ re ∧ re < D) (hQ1 : Q ≤ P - 3 * D) (hQ2 : 2 * Q ≤ L)
    (h0 : 0 ≤ aW) (h1 : 0 ≤ aWp)
    (hstep : L * aW' ≤ (L - P + re) * aW + re * aWp + Sg * C0) :
    L * (Sg * aW' + 2 * aW) ≤ (L - Q) * (Sg * aW + 2 * aWp) + Sg * Sg * C0 := by
  have s1 : Sg * (L * aW') ≤ Sg * ((L - P + re) * aW + re * aWp + Sg * C0) :=
    mul_le_mul_of_nonneg_left hstep hSg.le
  have c1 : (Sg * (L - P + re) + 2 * L) * aW ≤ ((L - Q) * Sg) * aW := by
    apply mul_le_mul_of_nonneg_right _ h0
    have : Sg * (-P + re + Q + 2 * D) ≤ 0 := mul_nonpos_of_nonneg_of_nonpos hSg.le (by linarith [hre.2])
    rw [hL]; nlinarith
  have c2 : (Sg * re) * aWp ≤ (2 * (L - Q)) * aWp := by
    apply mul_le_mul_of_nonneg_right _ h1
    have : Sg * re ≤ Sg * D := mul_le_mul_of_nonneg_left hre.2.le hSg.le
    rw [hL] at hQ2 ⊢; nlinarith
  nlinarith

/-- iterating `L·(N' − Lim) ≤ (L − Q)·(N − Lim)` -/
theorem contraction_iter (L Q Lim : Int) (hQ : 0 ≤ L - Q) (hL : 0 < L) (N : Nat → Int)
    (hstep : ∀ j, L * (N (j + 1) - Lim) ≤ (L - Q) * (N j - Lim)) (j : Nat) :
    L ^ j * (N j - Lim) ≤ (L - Q) ^ j * (N 0 - Lim) := by
  induction j with
  | zero => simp
  | succ j ih =>
    calc L ^ (j + 1) * (N (j + 1) - Lim) = L ^ j * (L * (N (j + 1) - Lim)) := by ring
      _ ≤ L ^ j * ((L - Q) * (N j - Lim)) := mul_le_mul_of_nonneg_left (hstep j) (by positivity)
      _ = (L - Q) * (L ^ j * (N j - Lim)) := by ring
      _ ≤ (L - Q) * ((L - Q) ^ j * (N 0 - Lim)) := mul_le_mul_of_nonneg_left ih hQ
      _ = (L - Q) ^ (j + 1) * (N 0 - Lim) := by ring

end Idsp
